import CaresModel.Buf
import CaresLemmas.Arr
import CaresLemmas.HTableOps
/-! Helper lemmas for the `ares_buf` model, part 1: the view (live bytes, offset, tag) under
    reclaim / ensure_space / append. -/
namespace Cares.Buf
open Cares.Generated Cares.Dsa

/-- how a compaction by `p` bytes relates two buffers: the first `p` live bytes are gone, positions shift -/
structure Shift (b b' : Buf) (p : Nat) : Prop where
  live : b'.live = b.live.drop p
  off : b'.off + p = b.off
  tag : b'.tag = b.tag.map (· - p)
  ple : ∀ t, b.tag = some t → p ≤ t
  const : b'.isConst = b.isConst

theorem Shift.refl (b : Buf) : Shift b b 0 := by
  refine ⟨by simp, by simp, ?_, fun _ _ => Nat.zero_le _, rfl⟩
  cases b.tag <;> simp

theorem live_length (b : Buf) (h : b.Inv) : b.live.length = b.dataLen := by
  unfold live; simp [Nat.min_eq_left h.dlen]

theorem remaining_eq (b : Buf) : b.remaining = b.live.drop b.off := rfl

theorem remaining_length (b : Buf) (h : b.Inv) : b.remaining.length = b.len := by
  rw [remaining_eq, List.length_drop, live_length b h]; rfl

theorem tagged_eq (b : Buf) (h : b.Inv) (t : Nat) (ht : b.tag = some t) : b.tagged = (b.live.take b.off).drop t := by
  unfold tagged live; rw [ht]; simp only
  rw [List.take_take, Nat.min_eq_left h.offLe]

theorem Shift.remaining {b b' : Buf} {p : Nat} (s : Shift b b' p) : b'.remaining = b.remaining := by
  rw [remaining_eq, remaining_eq, s.live, List.drop_drop, Nat.add_comm, s.off]

theorem Shift.tagged {b b' : Buf} {p : Nat} (s : Shift b b' p) (h : b.Inv) (h' : b'.Inv) : b'.tagged = b.tagged := by
  cases ht : b.tag with
  | none =>
    have : b'.tag = none := by rw [s.tag, ht]; rfl
    unfold Buf.tagged; rw [ht, this]
  | some t =>
    have ht' : b'.tag = some (t - p) := by rw [s.tag, ht]; rfl
    rw [tagged_eq b h t ht, tagged_eq b' h' _ ht', s.live]
    have hp := s.ple t ht
    have ho := s.off
    apply List.ext_getElem?
    intro i
    simp only [List.getElem?_drop, List.getElem?_take]
    by_cases hi : t - p + i < b'.off
    · have : t + i < b.off := by omega
      simp only [hi, this, ↓reduceIte]
      congr 1; omega
    · have : ¬ t + i < b.off := by omega
      simp only [hi, this, ↓reduceIte]

/-! ### reclaim -/

theorem reclaimPrefix_spec (b : Buf) : b.reclaimPrefix ≤ b.off ∧ ∀ t, b.tag = some t → b.reclaimPrefix ≤ t := by
  unfold reclaimPrefix
  cases ht : b.tag with
  | none => exact ⟨Nat.le_refl _, fun t h => by cases h⟩
  | some t =>
    by_cases hlt : t < b.off
    · simp only [hlt, ↓reduceIte]; exact ⟨by omega, fun t' h => by cases h; exact Nat.le_refl _⟩
    · simp only [hlt, ↓reduceIte]; exact ⟨Nat.le_refl _, fun t' h => by cases h; omega⟩

theorem reclaim_spec (b : Buf) (h : b.Inv) :
    ∃ p, Shift b b.reclaim p ∧ b.reclaim.Inv ∧ b.reclaim.mem.length = b.mem.length ∧ p ≤ b.off ∧
      b.reclaim.dataLen + p = b.dataLen := by
  unfold reclaim
  by_cases hc : b.isConst = true
  · rw [if_pos hc]; exact ⟨0, Shift.refl b, h, rfl, Nat.zero_le _, rfl⟩
  · rw [if_neg hc]
    by_cases he : b.mem.isEmpty = true
    · rw [if_pos he]; exact ⟨0, Shift.refl b, h, rfl, Nat.zero_le _, rfl⟩
    · rw [if_neg he]
      obtain ⟨hpo, hpt⟩ := reclaimPrefix_spec b
      generalize b.reclaimPrefix = p at hpo hpt ⊢
      by_cases h0 : p = 0
      · rw [if_pos h0]; exact ⟨0, Shift.refl b, h, rfl, Nat.zero_le _, rfl⟩
      · rw [if_neg h0]
        have hd := h.dlen
        have ho := h.offLe
        have hml : (Arr.memmove b.mem 0 p (b.dataLen - p)).length = b.mem.length :=
          Arr.memmove_length b.mem 0 p (b.dataLen - p) (by omega) (by omega)
        have hlive : (Arr.memmove b.mem 0 p (b.dataLen - p)).take (b.dataLen - p) = (b.mem.take b.dataLen).drop p := by
          apply List.ext_getElem?
          intro i
          rw [List.getElem?_take, List.getElem?_drop, List.getElem?_take,
            Arr.memmove_getElem? b.mem 0 p (b.dataLen - p) i (by omega) (by omega)]
          by_cases hi : i < b.dataLen - p
          · simp only [hi, ↓reduceIte, Nat.not_lt_zero, Nat.zero_add, Nat.sub_zero, show p + i < b.dataLen by omega]
          · simp only [hi, ↓reduceIte, show ¬ p + i < b.dataLen by omega]
        refine ⟨p, ⟨?_, by simp only; omega, rfl, hpt, rfl⟩, ⟨?_, ?_, ?_, ?_⟩, hml, hpo, by simp only; omega⟩
        · unfold live; simp only; exact hlive
        · simp only [hml]; omega
        · simp only; omega
        · intro t ht
          simp only at ht
          cases hbt : b.tag with
          | none => rw [hbt] at ht; cases ht
          | some t0 =>
            rw [hbt] at ht; simp only [Option.map_some, Option.some.injEq] at ht
            have := h.tagLe t0 hbt
            have := hpt t0 hbt
            simp only; omega
        · have hr := h.room
          have hc' : b.isConst = false := by simpa using hc
          simp only [hc', Bool.false_eq_true, ↓reduceIte, hml] at hr ⊢
          right
          rcases hr with hr | hr
          · rw [hr] at he; simp at he
          · omega

/-! ### ensure_space -/

theorem growLoop_ge (fuel a d n : Nat) (ha : 0 < a) (hn : 0 < n) (hf : n + d ≤ a + fuel) (hf1 : 0 < fuel) :
    n + d ≤ growLoop fuel a d n ∧ a ≤ growLoop fuel a d n := by
  induction fuel generalizing a with
  | zero => omega
  | succ f ih =>
    unfold growLoop
    by_cases hlt : a * 2 - d < n
    · rw [if_pos hlt]
      by_cases hf0 : f = 0
      · subst hf0; omega
      · have := ih (a * 2) (by omega) (by omega) (by omega)
        omega
    · rw [if_neg hlt]; omega

/-- side condition on the generated constant: the first allocation is at least two bytes -/
def ConstsOk : Prop := 2 ≤ BUF_FIRST_ALLOC

theorem allocLen_dyn (b : Buf) (hc : b.isConst = false) : b.allocLen = b.mem.length := by
  unfold allocLen; simp [hc]

theorem reclaim_isConst (b : Buf) : b.reclaim.isConst = b.isConst := by
  unfold reclaim; split
  · rfl
  · split
    · rfl
    · split <;> rfl

/-- the size ares_buf_ensure_space asks realloc for -/
def growSize (b1 : Buf) (needed : Nat) : Nat :=
  growLoop (needed + 1 + b1.dataLen + 1) (if b1.allocLen = 0 then BUF_FIRST_ALLOC / 2 else b1.allocLen) b1.dataLen (needed + 1)

/-- the four ways through ares_buf_ensure_space for a dynamic buffer -/
theorem ensureSpace_cases (b : Buf) (needed : Nat) (o : Oracle) (hc : b.isConst = false) :
    (b.mem.length - b.dataLen ≥ needed + 1 ∧ b.ensureSpace needed o = (.ok, b, o)) ∨
    (¬ b.mem.length - b.dataLen ≥ needed + 1 ∧ b.reclaim.mem.length - b.reclaim.dataLen ≥ needed + 1 ∧
      b.ensureSpace needed o = (.ok, b.reclaim, o)) ∨
    (¬ b.mem.length - b.dataLen ≥ needed + 1 ∧ ¬ b.reclaim.mem.length - b.reclaim.dataLen ≥ needed + 1 ∧
      o.next.1 = false ∧ b.ensureSpace needed o = (.nomem, b.reclaim, o.next.2)) ∨
    (¬ b.mem.length - b.dataLen ≥ needed + 1 ∧ ¬ b.reclaim.mem.length - b.reclaim.dataLen ≥ needed + 1 ∧
      o.next.1 = true ∧ b.ensureSpace needed o =
        (.ok, { b.reclaim with mem := b.reclaim.mem ++ List.replicate (growSize b.reclaim needed - b.reclaim.mem.length) 0 },
         o.next.2)) := by
  have hc1 : b.reclaim.isConst = false := by rw [reclaim_isConst]; exact hc
  by_cases h1 : b.mem.length - b.dataLen ≥ needed + 1
  · left; exact ⟨h1, by simp [ensureSpace, hc, allocLen, h1]⟩
  · right
    by_cases h2 : b.reclaim.mem.length - b.reclaim.dataLen ≥ needed + 1
    · left; exact ⟨h1, h2, by simp [ensureSpace, hc, hc1, allocLen, h1, h2]⟩
    · right
      cases hn : o.next with
      | mk ok o1 =>
        cases ok with
        | false => left; exact ⟨h1, h2, rfl, by simp [ensureSpace, hc, hc1, allocLen, h1, h2, hn]⟩
        | true =>
          right; refine ⟨h1, h2, rfl, ?_⟩
          simp [ensureSpace, hc, hc1, allocLen, h1, h2, hn, growSize]

/-- ares_buf_ensure_space on a dynamic buffer: the result is a compaction of the original (so nothing at or
    after min(tag, offset) is lost), on success there is room for `needed` more bytes plus the NUL, and it can
    only fail by allocation failure -/
theorem ensureSpace_spec (hk : ConstsOk) (b : Buf) (needed : Nat) (o : Oracle) (h : b.Inv) (hc : b.isConst = false) :
    ∃ p, Shift b (b.ensureSpace needed o).2.1 p ∧ (b.ensureSpace needed o).2.1.Inv ∧ p ≤ b.off ∧
      ((b.ensureSpace needed o).1 = .ok ∨ (b.ensureSpace needed o).1 = .nomem) ∧
      ((b.ensureSpace needed o).1 = .ok →
        (b.ensureSpace needed o).2.1.dataLen + needed + 1 ≤ (b.ensureSpace needed o).2.1.mem.length) ∧
      (o.AllOk → (b.ensureSpace needed o).1 = .ok ∧ (b.ensureSpace needed o).2.2.AllOk) ∧
      (b.ensureSpace needed o).2.1.dataLen + p = b.dataLen := by
  obtain ⟨p, sh, i1, ml, hpo, hdl⟩ := reclaim_spec b h
  have hc1 : b.reclaim.isConst = false := by rw [reclaim_isConst]; exact hc
  rcases ensureSpace_cases b needed o hc with ⟨h1, e⟩ | ⟨h1, h2, e⟩ | ⟨h1, h2, hn, e⟩ | ⟨h1, h2, hn, e⟩
  · rw [e]
    exact ⟨0, Shift.refl b, h, Nat.zero_le _, Or.inl rfl, fun _ => by show b.dataLen + needed + 1 ≤ b.mem.length; omega,
      fun ho => ⟨rfl, ho⟩, rfl⟩
  · rw [e]
    exact ⟨p, sh, i1, hpo, Or.inl rfl, fun _ => by show b.reclaim.dataLen + needed + 1 ≤ b.reclaim.mem.length; omega,
      fun ho => ⟨rfl, ho⟩, hdl⟩
  · rw [e]
    refine ⟨p, sh, i1, hpo, Or.inr rfl, fun hh => (by have hh' : St.nomem = St.ok := hh; cases hh'), ?_, hdl⟩
    intro ho
    rw [Oracle.next_ok o ho] at hn
    cases hn
  · rw [e]
    have hstart : 0 < (if b.reclaim.allocLen = 0 then BUF_FIRST_ALLOC / 2 else b.reclaim.allocLen) := by
      unfold ConstsOk at hk
      split <;> omega
    obtain ⟨g1, g2⟩ := growLoop_ge (needed + 1 + b.reclaim.dataLen + 1)
      (if b.reclaim.allocLen = 0 then BUF_FIRST_ALLOC / 2 else b.reclaim.allocLen)
      b.reclaim.dataLen (needed + 1) hstart (by omega) (by omega) (by omega)
    have hd1 := i1.dlen
    have hgs : needed + 1 + b.reclaim.dataLen ≤ growSize b.reclaim needed := g1
    refine ⟨p, ⟨?_, sh.off, sh.tag, sh.ple, sh.const⟩, ⟨?_, i1.offLe, i1.tagLe, ?_⟩, hpo, Or.inl rfl, ?_, ?_, hdl⟩
    · rw [← sh.live]; unfold live
      show List.take b.reclaim.dataLen (b.reclaim.mem ++ _) = _
      rw [List.take_append_of_le_length hd1]
    · show b.reclaim.dataLen ≤ (b.reclaim.mem ++ _).length
      rw [List.length_append]; omega
    · show (if b.reclaim.isConst = true then _ else _)
      rw [if_neg (by simp [hc1])]
      right
      show b.reclaim.dataLen < (b.reclaim.mem ++ _).length
      rw [List.length_append, List.length_replicate]; omega
    · intro _
      show b.reclaim.dataLen + needed + 1 ≤ (b.reclaim.mem ++ _).length
      rw [List.length_append, List.length_replicate]; omega
    · intro ho
      refine ⟨rfl, ?_⟩
      show o.next.2.AllOk
      rw [Oracle.next_ok o ho]
      exact Oracle.allOk_step o ho _

/-! ### append -/

theorem append_eq (b : Buf) (data : List Nat) (o : Oracle) (hd : data ≠ []) :
    b.append data o =
      match b.ensureSpace data.length o with
      | (.ok, b1, o1) =>
        (.ok, { b1 with mem := b1.mem.take b1.dataLen ++ data ++ b1.mem.drop (b1.dataLen + data.length),
                        dataLen := b1.dataLen + data.length }, o1)
      | r => r := by
  unfold append
  have hde : data.isEmpty = false := by cases data <;> simp_all
  rw [hde]; rfl

/-- ares_buf_append of a non-empty slice to a dynamic buffer: either it succeeds and the live bytes are a
    compaction of the old ones followed by the new data, or an allocation failed and only a compaction
    happened -/
theorem append_spec (hk : ConstsOk) (b : Buf) (data : List Nat) (o : Oracle) (h : b.Inv) (hc : b.isConst = false)
    (hd : data ≠ []) :
    ∃ p, (b.append data o).2.1.Inv ∧ p ≤ b.off ∧ (b.append data o).2.1.off + p = b.off ∧
      (b.append data o).2.1.tag = b.tag.map (· - p) ∧ (∀ t, b.tag = some t → p ≤ t) ∧
      (b.append data o).2.1.isConst = false ∧
      (((b.append data o).1 = .ok ∧ (b.append data o).2.1.live = b.live.drop p ++ data) ∨
       ((b.append data o).1 = .nomem ∧ (b.append data o).2.1.live = b.live.drop p)) ∧
      (o.AllOk → (b.append data o).1 = .ok ∧ (b.append data o).2.2.AllOk) := by
  obtain ⟨p, sh, i1, hpo, hst, hroom, hok, hdl⟩ := ensureSpace_spec hk b data.length o h hc
  rw [append_eq b data o hd]
  cases he : b.ensureSpace data.length o with
  | mk st r =>
    cases r with
    | mk b1 o1 =>
      rw [he] at sh i1 hst hroom hok hdl
      simp only at sh i1 hst hroom hok hdl
      have hc1 : b1.isConst = false := by rw [sh.const]; exact hc
      have hd1 := i1.dlen
      rcases hst with hst | hst
      · have hst' : st = .ok := hst
        subst hst'
        have hr : b1.dataLen + data.length + 1 ≤ b1.mem.length := hroom rfl
        refine ⟨p, ⟨?_, ?_, ?_, ?_⟩, hpo, sh.off, sh.tag, sh.ple, hc1, Or.inl ⟨rfl, ?_⟩, ?_⟩
        · show b1.dataLen + data.length ≤ (b1.mem.take b1.dataLen ++ data ++ b1.mem.drop (b1.dataLen + data.length)).length
          simp only [List.length_append, List.length_take, List.length_drop]; omega
        · show b1.off ≤ b1.dataLen + data.length
          have := i1.offLe; omega
        · intro t ht
          show t ≤ b1.dataLen + data.length
          have := i1.tagLe t ht; omega
        · show (if b1.isConst = true then _ else _)
          rw [if_neg (by simp [hc1])]
          right
          show b1.dataLen + data.length < (b1.mem.take b1.dataLen ++ data ++ b1.mem.drop (b1.dataLen + data.length)).length
          simp only [List.length_append, List.length_take, List.length_drop]; omega
        · show List.take (b1.dataLen + data.length) (b1.mem.take b1.dataLen ++ data ++ b1.mem.drop (b1.dataLen + data.length)) = _
          rw [← sh.live]; unfold live
          have hl : (List.take b1.dataLen b1.mem ++ data).length = b1.dataLen + data.length := by
            simp only [List.length_append, List.length_take]; omega
          rw [List.take_append_of_le_length (by omega), List.take_of_length_le (by omega)]
        · intro ho; exact ⟨rfl, (hok ho).2⟩
      · have hst' : st = .nomem := hst
        subst hst'
        refine ⟨p, i1, hpo, sh.off, sh.tag, sh.ple, hc1, Or.inr ⟨rfl, sh.live⟩, ?_⟩
        intro ho; have := (hok ho).1; cases this

end Cares.Buf
