import CaresLemmas.ChanAlign
import CaresLemmas.ChanAlignFind
import CaresLemmas.ChanSockInv
import CaresLemmas.ChanSockAnswer
/-!
# TCP read alignment (C20) — the invariant on states of the channel model

`Al Q N0 s`: unless fuel ran out, `AlCore Q N0` holds of the lookup functions of `s.conns` / `s.socks` (through the
views `rk`, `vk`) and `s.nextFd`.  One lemma per primitive state update that touches connections or virtual sockets.
-/
namespace Cares.Chan

/-- keyed views of a connection / a virtual socket -/
def rk (c : Conn) : Nat × CV := (c.fd, rflag c)
def vk (v : VSock) : Nat × SV := (v.fd, vflag v)

/-- lookup in a list of keyed views -/
abbrev pfind {β : Type} (l : List (Nat × β)) : Nat → Option β := kfind Prod.fst Prod.snd l

def AlF (Q : Nat → SV → CV → Prop) (N0 : Nat) (cv : List (Nat × CV)) (sv : List (Nat × SV)) (nfd : Nat) (oof : Bool) :
    Prop := oof = false → AlCore Q N0 (pfind cv) (pfind sv) nfd

/-- the alignment invariant (with side property `Q`) of a state, conditional on fuel not having run out -/
abbrev Al (Q : Nat → SV → CV → Prop) (N0 : Nat) (s : St) : Prop :=
  AlF Q N0 (s.conns.map rk) (s.socks.map vk) s.nextFd s.outOfFuel

theorem pfind_map {α β : Type} (key : α → Nat) (view : α → β) (l : List α) :
    pfind (l.map fun a => (key a, view a)) = kfind key view l := by
  funext fd
  induction l with
  | nil => rfl
  | cons a l ih => simp only [List.map_cons, pfind, kfind_cons] at ih ⊢; rw [ih]

theorem pfind_conns (s : St) (fd : Nat) : pfind (s.conns.map rk) fd = (s.conn? fd).map rflag :=
  congrFun (pfind_map Conn.fd rflag s.conns) fd
theorem pfind_socks (s : St) (fd : Nat) : pfind (s.socks.map vk) fd = (s.sock? fd).map vflag :=
  congrFun (pfind_map VSock.fd vflag s.socks) fd

theorem pfind_upd {β : Type} (fd : Nat) (g : β → β) (l : List (Nat × β)) :
    pfind (l.map fun p => if p.1 == fd then (p.1, g p.2) else p) =
      fun fd' => if fd' = fd then (pfind l fd').map g else pfind l fd' :=
  kfind_map_upd Prod.fst Prod.snd fd (fun p => (p.1, g p.2)) g (fun _ h => h) (fun _ _ => rfl) l

theorem pfind_const {β : Type} (fd : Nat) (w : β) (l : List (Nat × β)) :
    pfind (l.map fun p => if p.1 == fd then (fd, w) else p) =
      fun fd' => if fd' = fd then (pfind l fd').map (fun _ => w) else pfind l fd' :=
  kfind_map_upd Prod.fst Prod.snd fd (fun _ => (fd, w)) (fun _ => w) (fun _ _ => rfl) (fun _ _ => rfl) l

/-! ## views of the primitive updates -/

theorem rks_modConn (s : St) (fd : Nat) (f : Conn → Conn) (g : CV → CV) (hf : ∀ c, rk (f c) = (c.fd, g (rflag c))) :
    (s.modConn fd f).conns.map rk = (s.conns.map rk).map fun p => if p.1 == fd then (p.1, g p.2) else p := by
  simp only [St.modConn, List.map_map]
  apply List.map_congr_left
  intro c _
  simp only [Function.comp]
  show rk (if (c.fd == fd) = true then f c else c) = if (c.fd == fd) = true then (c.fd, g (rflag c)) else rk c
  split
  · exact hf c
  · rfl

theorem rks_modConn_id (s : St) (fd : Nat) (f : Conn → Conn) (hf : ∀ c, rk (f c) = rk c) :
    (s.modConn fd f).conns.map rk = s.conns.map rk := by
  simp only [St.modConn, List.map_map]
  apply List.map_congr_left
  intro c _
  simp only [Function.comp]
  split
  · exact hf c
  · rfl

theorem vks_modSock_id (s : St) (fd : Nat) (f : VSock → VSock) (hf : ∀ v, vk (f v) = vk v) :
    (s.modSock fd f).socks.map vk = s.socks.map vk := by
  simp only [St.modSock, List.map_map]
  apply List.map_congr_left
  intro v _
  simp only [Function.comp]
  split
  · exact hf v
  · rfl

theorem vks_modSock (s : St) (fd : Nat) (f : VSock → VSock) (k : SV → SV) (hf : ∀ v, vk (f v) = (v.fd, k (vflag v))) :
    (s.modSock fd f).socks.map vk = (s.socks.map vk).map fun p => if p.1 == fd then (p.1, k p.2) else p := by
  simp only [St.modSock, List.map_map]
  apply List.map_congr_left
  intro v _
  simp only [Function.comp]
  show vk (if (v.fd == fd) = true then f v else v) = if (v.fd == fd) = true then (v.fd, k (vflag v)) else vk v
  split
  · exact hf v
  · rfl

theorem vks_setSock (s : St) (v : VSock) :
    (s.setSock v).socks.map vk = (s.socks.map vk).map fun p => if p.1 == v.fd then (v.fd, vflag v) else p := by
  simp only [St.setSock, List.map_map]
  apply List.map_congr_left
  intro x _
  simp only [Function.comp]
  show vk (if (x.fd == v.fd) = true then v else x) = if (x.fd == v.fd) = true then (v.fd, vflag v) else vk x
  split <;> rfl

theorem rks_notify (s : St) (fd : Nat) (r w : Bool) : (s.notify fd r w).conns.map rk = s.conns.map rk := by
  unfold St.notify
  split
  · rfl
  · split <;> exact rks_modConn_id _ _ _ (fun _ => rfl)

theorem rks_removeFromConn (s : St) (k : Nat) : (s.removeFromConn k).conns.map rk = s.conns.map rk := by
  unfold St.removeFromConn
  split
  · rfl
  · simp only [St.modQuery_conns]
    split
    · exact rks_modConn_id _ _ _ (fun _ => rfl)
    · rfl

theorem rks_detach (s : St) (k : Nat) : (s.detach k).conns.map rk = s.conns.map rk := by
  unfold St.detach
  split
  · rfl
  · exact rks_removeFromConn s k

theorem rks_freeQuery (s : St) (k : Nat) : (s.freeQuery k).conns.map rk = s.conns.map rk := by
  unfold St.freeQuery; exact rks_detach s k

theorem rks_advanceOut : ∀ (fuel fd : Nat) (s : St) (n : Nat),
    (advanceOut fuel fd s n).conns.map rk = s.conns.map rk
  | 0, _, _, _ => rfl
  | fuel + 1, fd, s, n => by
    unfold advanceOut
    split
    · rfl
    · split
      · rfl
      · dsimp only
        split
        · split
          · simp only [St.recordTx_conns]; exact rks_modConn_id _ _ _ (fun _ => rfl)
          · rw [rks_advanceOut fuel]; simp only [St.recordTx_conns]; exact rks_modConn_id _ _ _ (fun _ => rfl)
        · exact rks_modConn_id _ _ _ (fun _ => rfl)

theorem rks_sqPrep (key : Nat) (q : Query) (srv : Server) (fd : Nat) (s : St) :
    (sqPrepare key q srv fd s).1.conns.map rk = s.conns.map rk := by
  unfold sqPrepare
  simp only []
  show (St.modConn _ fd _).conns.map rk = _
  rw [rks_modConn_id]
  · simp only [chan_frame]
    repeat' split
    all_goals simp only [chan_frame]
  · intro c; rfl

theorem rks_sqLinkPre (key : Nat) (srv : Server) (fd : Nat) (q : Query) (s : St) :
    (sqLinkPre key srv fd q s).conns.map rk = s.conns.map rk := by
  unfold sqLinkPre
  cases q.conn with
  | none =>
    simp only [chan_frame]
    split <;> simp only [chan_frame]
  | some old =>
    simp only [chan_frame]
    rw [rks_modConn_id]
    · split <;> simp only [chan_frame]
    · intro c; rfl

theorem rks_filter (cs : List Conn) (fd : Nat) :
    (cs.filter (·.fd != fd)).map rk = (cs.map rk).filter (·.1 != fd) := by
  rw [List.filter_map]; rfl

theorem tcpAccept_vk (v : VSock) (n : Nat) : vk (tcpAccept v n).2 = vk v := by
  unfold tcpAccept
  split
  · rfl
  · split <;> rfl

/-! ## steps of the invariant -/
section
variable {Q : Nat → SV → CV → Prop} {N0 : Nat} {cv : List (Nat × CV)} {sv : List (Nat × SV)} {nfd : Nat} {oof : Bool}

theorem AlF_oof (cv : List (Nat × CV)) (sv : List (Nat × SV)) (nfd : Nat) : AlF Q N0 cv sv nfd true :=
  fun h => by cases h

theorem AlF_modConn (s : St) (fd : Nat) (f : Conn → Conn) (hf : ∀ c, rk (f c) = rk c)
    (h : AlF Q N0 (s.conns.map rk) sv nfd oof) : AlF Q N0 ((s.modConn fd f).conns.map rk) sv nfd oof := by
  rw [rks_modConn_id s fd f hf]; exact h
theorem AlF_modSock (s : St) (fd : Nat) (f : VSock → VSock) (hf : ∀ v, vk (f v) = vk v)
    (h : AlF Q N0 cv (s.socks.map vk) nfd oof) : AlF Q N0 cv ((s.modSock fd f).socks.map vk) nfd oof := by
  rw [vks_modSock_id s fd f hf]; exact h
theorem AlF_notify (s : St) (fd : Nat) (r w : Bool) (h : AlF Q N0 (s.conns.map rk) sv nfd oof) :
    AlF Q N0 ((s.notify fd r w).conns.map rk) sv nfd oof := by rw [rks_notify]; exact h
theorem AlF_removeFromConn (s : St) (k : Nat) (h : AlF Q N0 (s.conns.map rk) sv nfd oof) :
    AlF Q N0 ((s.removeFromConn k).conns.map rk) sv nfd oof := by rw [rks_removeFromConn]; exact h
theorem AlF_detach (s : St) (k : Nat) (h : AlF Q N0 (s.conns.map rk) sv nfd oof) :
    AlF Q N0 ((s.detach k).conns.map rk) sv nfd oof := by rw [rks_detach]; exact h
theorem AlF_freeQuery (s : St) (k : Nat) (h : AlF Q N0 (s.conns.map rk) sv nfd oof) :
    AlF Q N0 ((s.freeQuery k).conns.map rk) sv nfd oof := by rw [rks_freeQuery]; exact h
theorem AlF_advanceOut (fuel fd : Nat) (s : St) (n : Nat) (h : AlF Q N0 (s.conns.map rk) sv nfd oof) :
    AlF Q N0 ((advanceOut fuel fd s n).conns.map rk) sv nfd oof := by rw [rks_advanceOut]; exact h
theorem AlF_sqPrep (key : Nat) (q : Query) (srv : Server) (fd : Nat) (s : St)
    (h : AlF Q N0 (s.conns.map rk) sv nfd oof) : AlF Q N0 ((sqPrepare key q srv fd s).1.conns.map rk) sv nfd oof := by
  rw [rks_sqPrep]; exact h
theorem AlF_sqLinkPre (key : Nat) (srv : Server) (fd : Nat) (q : Query) (s : St)
    (h : AlF Q N0 (s.conns.map rk) sv nfd oof) : AlF Q N0 ((sqLinkPre key srv fd q s).conns.map rk) sv nfd oof := by
  rw [rks_sqLinkPre]; exact h

/-- `ares_close_connection` marks the connection as being closed and empties its buffers -/
theorem AlF_unlink (s : St) (fd : Nat) (f : Conn → Conn)
    (hf : ∀ c, rk (f c) = (c.fd, ⟨(rflag c).tcp, true, 0⟩))
    (h : AlF Q N0 (s.conns.map rk) sv nfd oof) : AlF Q N0 ((s.modConn fd f).conns.map rk) sv nfd oof := by
  intro ho
  rw [rks_modConn s fd f (fun y => ⟨y.tcp, true, 0⟩) hf, pfind_upd fd (fun y : CV => ⟨y.tcp, true, 0⟩)]
  have := (h ho).upd fd (fun y => ⟨y.tcp, true, 0⟩) id (fun x hx => (h ho).stream fd x hx)
    (fun _ _ _ _ _ hu => by cases hu) (fun _ _ _ _ hu => by cases hu)
  simpa only [Option.map_id_fun, id_eq, ite_self] using this

/-- … and finally releases it -/
theorem AlF_filter (cs : List Conn) (fd : Nat) (h : AlF Q N0 (cs.map rk) sv nfd oof) :
    AlF Q N0 ((cs.filter (·.fd != fd)).map rk) sv nfd oof := by
  intro ho
  rw [rks_filter]
  have e : pfind ((cs.map rk).filter (·.1 != fd)) = fun fd' => if fd' = fd then none else pfind (cs.map rk) fd' :=
    kfind_filter_ne Prod.fst Prod.snd fd (cs.map rk)
  rw [e]
  exact (h ho).del fd

/-- the virtual `sendto` on the socket of a live connection only consumes the scripted acceptance size -/
theorem AlF_setSock_accept (s : St) (fd total : Nat) (hc : ∃ y, pfind cv fd = some y)
    (h : AlF Q N0 cv (s.socks.map vk) nfd oof) :
    AlF Q N0 cv ((s.setSock (tcpAccept ((s.sock? fd).getD default) total).2).socks.map vk) nfd oof := by
  intro ho
  obtain ⟨y, hy⟩ := hc
  obtain ⟨x, hx⟩ := (h ho).hasSock fd y hy
  rw [pfind_socks] at hx
  cases hv : s.sock? fd with
  | none => rw [hv] at hx; cases hx
  | some v =>
    rw [hv] at hx
    simp only [Option.map_some, Option.some.injEq] at hx
    have hfd : v.fd = fd := by
      have := List.find?_some hv
      simpa using this
    have hk := tcpAccept_vk v total
    have hfd' : (tcpAccept v total).2.fd = fd := by
      have := congrArg Prod.fst hk; simp only [vk] at this; rw [this, hfd]
    have hfl : vflag (tcpAccept v total).2 = vflag v := by
      have := congrArg Prod.snd hk; simpa only [vk] using this
    simp only [Option.getD_some]
    rw [vks_setSock, hfd', hfl, pfind_const]
    have e : (fun fd' => if fd' = fd then (pfind (s.socks.map vk) fd').map (fun _ => vflag v)
        else pfind (s.socks.map vk) fd') = pfind (s.socks.map vk) := by
      funext fd'
      by_cases hfd2 : fd' = fd
      · subst hfd2
        simp only [↓reduceIte, pfind_socks, hv, Option.map_some]
      · simp only [hfd2, ↓reduceIte]
    rw [e]
    exact h ho

/-- an update of connection `fd` (found as `c`) that keeps descriptors: whatever it does to the other fields, the
    invariant only has to be re-established for `f c` -/
theorem AlF_modConn_at {fd : Nat} (hq : QRead Q fd) (s : St) (f : Conn → Conn) (c : Conn)
    (hfd : ∀ c, (f c).fd = c.fd) (hc : s.conn? fd = some c) (hfv : (f c).tcp = c.tcp ∧ (f c).unlinked = c.unlinked)
    (hal : ∀ x, pfind sv fd = some x → (f c).tcp = true → (f c).unlinked = false → AlignedV x (rflag (f c)))
    (h : AlF Q N0 (s.conns.map rk) sv nfd oof) : AlF Q N0 ((s.modConn fd f).conns.map rk) sv nfd oof := by
  intro ho
  have core := h ho
  have e1 : (s.modConn fd f).conns.map rk = (s.conns.map fun x => if x.fd == fd then f x else x).map rk := rfl
  have e2 : pfind ((s.conns.map fun x => if x.fd == fd then f x else x).map rk) =
      kfind Conn.fd rflag (s.conns.map fun x => if x.fd == fd then f x else x) :=
    pfind_map Conn.fd rflag _
  rw [e1, e2, kfind_map_at Conn.fd rflag fd f (fun a ha => by rw [hfd]; exact ha)]
  have hc' : s.conns.find? (fun x => x.fd == fd) = some c := hc
  have e3 : (fun fd' => if fd' = fd then (s.conns.find? (fun x => x.fd == fd)).map (fun a => rflag (f a))
        else kfind Conn.fd rflag s.conns fd') =
      fun fd' => if fd' = fd then (pfind (s.conns.map rk) fd').map (fun _ => rflag (f c)) else pfind (s.conns.map rk) fd' := by
    funext fd'
    by_cases hfd' : fd' = fd
    · subst hfd'
      simp only [↓reduceIte, hc', Option.map_some, pfind_conns, hc]
    · simp only [hfd', ↓reduceIte]
      exact (congrFun (pfind_map Conn.fd rflag s.conns) fd').symm
  rw [e3]
  have := core.upd fd (fun _ => rflag (f c)) id (fun x hx => core.stream fd x hx)
    (fun _ x _ hx ht hu => hal x hx ht hu) (fun y x hy hx hu => by
      rw [pfind_conns, hc] at hy
      simp only [Option.map_some, Option.some.injEq] at hy
      subst hy
      have hu0 : (rflag c).unlinked = false := by show c.unlinked = false; rw [← hfv.2]; exact hu
      have := hq x (rflag c) x.spos (f c).inBytes (core.q fd (rflag c) x (by rw [pfind_conns, hc]; rfl) hx hu0)
      have e : rflag (f c) = { rflag c with inBytes := (f c).inBytes } := by
        simp only [rflag, hfv.1, hfv.2]
      rw [e]; exact this)
  simpa only [Option.map_id_fun, id_eq, ite_self] using this

end

end Cares.Chan
