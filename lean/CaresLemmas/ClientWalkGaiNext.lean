import CaresLemmas.ClientWalkGai
/-! `next_lookup` / `next_dns_lookup` of the channel model's `gai` client. -/
namespace Cares.ClientWalk
open Cares.Chan Cares.Text Cares.Proto

/-- the sub-requests `next_dns_lookup` starts for one candidate -/
def famSpecs (fam : Nat) (n : String) : List (String × Nat) :=
  if fam == 2 then [(n, 1)] else if fam == 10 then [(n, 28)] else [(n, 1), (n, 28)]

/-- number of sub-requests per candidate -/
def famCount (fam : Nat) : Nat := if fam == 2 then 1 else if fam == 10 then 1 else 2

/-- no candidate left: whatever lookups remain, the request ends with the status carried along and
    without addresses -/
theorem gaiNextLookup_done (cfg : Cfg) (fuel : Nat) : ∀ (c : Client) (st : Chan.Status), c.names = [] →
    ∃ c', gaiNextLookup cfg fuel c st = (c', [.finish st c.timeouts "ai="]) := by
  induction fuel with
  | zero => intro c st _; exact ⟨c, rfl⟩
  | succ f ih =>
    intro c st hn
    unfold gaiNextLookup
    split
    · split
      · simp only [gaiNextDns, hn]
        exact ih _ st rfl
      · exact ih { c with lookups := _ } st hn
    · exact ih { c with lookups := _ } st hn
    · exact ⟨c, rfl⟩

/-- leading `f` (hosts file, empty in the simulator) entries are skipped -/
theorem gaiNextLookup_skip_f (cfg : Cfg) (k : Nat) : ∀ (fuel : Nat) (c : Client) (st : Chan.Status) (l : List Char),
    c.lookups = List.replicate k 'f' ++ l →
    gaiNextLookup cfg (fuel + k) c st = gaiNextLookup cfg fuel { c with lookups := l } st := by
  induction k with
  | zero => intro fuel c st l h; simp at h; subst h; rfl
  | succ k ih =>
    intro fuel c st l h
    rw [List.replicate_succ, List.cons_append] at h
    rw [← Nat.add_assoc]
    conv => lhs; unfold gaiNextLookup
    simp only [h]
    exact ih fuel { c with lookups := List.replicate k 'f' ++ l } st l rfl

/-- a DNS lookup with a candidate left: its sub-requests are started -/
theorem gaiNextLookup_dns (cfg : Cfg) (fuel : Nat) (c : Client) (st : Chan.Status) (lr : List Char)
    (n : String) (rest : List String)
    (hl : c.lookups = 'b' :: lr) (hloc : isLocalhost c.name = false) (hn : c.names = n :: rest) :
    ∃ c' acts, gaiNextLookup cfg (fuel + 1) c st = (c', acts) ∧
      (∀ w, applyActs acts w = { w with sent := w.sent ++ famSpecs c.family n }) ∧
      c'.names = rest ∧ c'.lastName = n ∧ c'.remaining = c.remaining + famCount c.family ∧
      c'.kind = c.kind ∧ c'.lookups = c.lookups ∧ c'.name = c.name ∧ c'.family = c.family ∧
      c'.nodataCnt = c.nodataCnt ∧ c'.addrs = c.addrs ∧ c'.aiName = c.aiName := by
  unfold gaiNextLookup
  simp only [hl, hloc, Bool.not_false, ↓reduceIte, gaiNextDns, hn]
  by_cases h2 : c.family = 2
  · simp only [h2, beq_self_eq_true, ↓reduceIte, famSpecs, famCount]
    exact ⟨_, _, rfl, fun w => rfl, rfl, rfl, rfl, rfl, rfl, rfl, rfl, rfl, rfl, rfl⟩
  · have e2 : (c.family == 2) = false := by simpa using h2
    by_cases h10 : c.family = 10
    · simp only [h10, beq_self_eq_true, ↓reduceIte, famSpecs, famCount,
        show ((10 : Nat) == 2) = false from rfl, Bool.false_eq_true]
      exact ⟨_, _, rfl, fun w => rfl, rfl, rfl, rfl, rfl, rfl, rfl, rfl, rfl, rfl, rfl⟩
    · have e10 : (c.family == 10) = false := by simpa using h10
      simp only [e2, e10, Bool.false_eq_true, ↓reduceIte, famSpecs, famCount]
      exact ⟨_, _, rfl, fun w => by simp [applyActs], rfl, rfl, rfl, rfl, rfl, rfl, rfl, rfl, rfl, rfl⟩

end Cares.ClientWalk
