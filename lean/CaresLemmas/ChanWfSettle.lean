import CaresLemmas.ChanWfExec
/-!
# C01 — `St.settle` (the by-timeout insertions replayed at the end of an API call) keeps the invariant
-/
namespace Cares.Chan

theorem mem_insertByDeadline {qs : List Query} {k ms : Nat} {l : List Nat} {x : Nat} :
    x ∈ insertByDeadline qs k ms l ↔ x = k ∨ x ∈ l := by
  induction l with
  | nil => simp [insertByDeadline]
  | cons y r ih =>
    unfold insertByDeadline
    simp only
    split
    · simp
    · simp only [List.mem_cons, ih]
      constructor
      · rintro (h | h | h)
        · exact Or.inr (Or.inl h)
        · exact Or.inl h
        · exact Or.inr (Or.inr h)
      · rintro (h | h | h)
        · exact Or.inr (Or.inl h)
        · exact Or.inl h
        · exact Or.inr (Or.inr h)

theorem nodup_insertByDeadline {qs : List Query} {k ms : Nat} {l : List Nat} (hn : l.Nodup) (hk : k ∉ l) :
    (insertByDeadline qs k ms l).Nodup := by
  induction l with
  | nil => simp [insertByDeadline]
  | cons y r ih =>
    unfold insertByDeadline
    simp only
    split
    · exact List.nodup_cons.mpr ⟨hk, hn⟩
    · have hn' := List.nodup_cons.mp hn
      refine List.nodup_cons.mpr ⟨?_, ih hn'.2 (fun h => hk (List.mem_cons_of_mem _ h))⟩
      intro hm
      rcases mem_insertByDeadline.mp hm with h | h
      · exact hk (h ▸ List.mem_cons_self)
      · exact hn'.1 h

/-- one step of the replay: the skeleton changes in `byTimeout` only, and only by (re-)inserting `k` -/
def settleStep (s : St) (k : Nat) : St :=
    match s.query? k with
    | none => s
    | some q =>
      match q.deadline with
      | .pending lo hi =>
        match s.obs.dls.find? (·.1 == q.qid) with
        | some (_, rem) =>
          let v := (Int.ofNat s.now + rem).toNat
          let s := if lo ≤ v && v ≤ hi then s
                   else s.ofault s!"deadline-out-of-policy(qid={q.qid},{v},[{lo},{hi}])"
          let s := s.modQuery q.key fun q => { q with deadline := .at v }
          { s with byTimeout := insertByDeadline s.qs q.key v s.byTimeout }
        | none => s.ofault s!"deadline-unobserved(qid={q.qid})"
      | .at ms => { s with byTimeout := insertByDeadline s.qs q.key ms (s.byTimeout.erase q.key) }
      | .none => s

theorem settle_eq (s : St) : s.settle = { s.pendingOrder.foldl settleStep s with pendingOrder := [] } := by
  unfold St.settle settleStep
  rfl

theorem sk_settleStep (s : St) (k : Nat) :
    ∃ bt, (settleStep s k).sk = { s.sk with byTimeout := bt } ∧ (∀ x ∈ bt, x = k ∨ x ∈ s.byTimeout) ∧
      (s.byTimeout.Nodup → (s.byTimeout.Nodup → k ∉ s.byTimeout ∨ ∀ q, s.query? k = some q → ∀ lo hi, q.deadline ≠ .pending lo hi) →
        bt.Nodup) ∧ (∀ x ∈ s.byTimeout, x ∈ bt) := by
  unfold settleStep
  cases hq : s.query? k with
  | none => exact ⟨s.byTimeout, rfl, fun x hx => Or.inr hx, fun h _ => h, fun _ hx => hx⟩
  | some q =>
    have hqk : q.key = k := by simpa using List.find?_some hq
    simp only
    cases hdl : q.deadline with
    | none => exact ⟨s.byTimeout, rfl, fun x hx => Or.inr hx, fun h _ => h, fun _ hx => hx⟩
    | «at» ms =>
      simp only
      refine ⟨insertByDeadline s.qs q.key ms (s.byTimeout.erase q.key), rfl, ?_, ?_, ?_⟩
      · intro x hx
        rcases mem_insertByDeadline.mp hx with h | h
        · exact Or.inl (h.trans hqk)
        · exact Or.inr (List.mem_of_mem_erase h)
      · intro hn _
        exact nodup_insertByDeadline (hn.erase _) (fun hm => ((List.Nodup.mem_erase_iff hn).mp hm).1 rfl)
      · intro x hx
        by_cases he : x = q.key
        · exact mem_insertByDeadline.mpr (Or.inl he)
        · exact mem_insertByDeadline.mpr (Or.inr ((List.mem_erase_of_ne he).mpr hx))
    | pending lo hi =>
      simp only
      cases hf : s.obs.dls.find? (·.1 == q.qid) with
      | none => exact ⟨s.byTimeout, rfl, fun x hx => Or.inr hx, fun h _ => h, fun _ hx => hx⟩
      | some p =>
        obtain ⟨p1, rem⟩ := p
        simp only
        -- the state in which the insertion is made
        have hX : ∀ (sX : St), sX.sk = s.sk → sX.byTimeout = s.byTimeout → ∀ (v : Nat),
            ∃ bt, ({ sX with byTimeout := insertByDeadline sX.qs q.key v sX.byTimeout } : St).sk =
                { s.sk with byTimeout := bt } ∧
              (∀ x ∈ bt, x = k ∨ x ∈ s.byTimeout) ∧
              (s.byTimeout.Nodup → (s.byTimeout.Nodup → k ∉ s.byTimeout ∨
                ∀ q', some q = some q' → ∀ lo hi, q'.deadline ≠ .pending lo hi) → bt.Nodup) ∧
              (∀ x ∈ s.byTimeout, x ∈ bt) := by
          intro sX h1 h2 v
          refine ⟨insertByDeadline sX.qs q.key v s.byTimeout, ?_, ?_, ?_, ?_⟩
          · have : ∀ (X : St) (bt : List Nat), ({ X with byTimeout := bt } : St).sk = { X.sk with byTimeout := bt } :=
              fun _ _ => rfl
            rw [this, h1, h2]
          · intro x hx
            rcases mem_insertByDeadline.mp hx with h | h
            · exact Or.inl (h.trans hqk)
            · exact Or.inr h
          · intro hn hcond
            apply nodup_insertByDeadline hn
            rcases hcond hn with h | h
            · rw [hqk]; exact h
            · exact absurd hdl (h q rfl lo hi)
          · intro x hx
            exact mem_insertByDeadline.mpr (Or.inr hx)
        apply hX
        · rw [sk_modQuery_same]
          · split <;> rfl
          · intro; rfl
        · show (St.modQuery _ _ _).byTimeout = _
          have hbt : ∀ (X : St) k f, (X.modQuery k f).byTimeout = X.byTimeout := fun _ _ _ => rfl
          rw [hbt]
          split <;> rfl

theorem settle_fold (s0 : St) : ∀ (rem : List Nat) (s : St) (bt : List Nat),
    s.sk = { s0.sk with byTimeout := bt } → bt.Nodup →
    (∀ x ∈ bt, x ∈ s0.byTimeout ∨ x ∈ s0.pendingOrder) → rem.Nodup → (∀ k ∈ rem, k ∉ bt) →
    (∀ k ∈ rem, k ∈ s0.pendingOrder) →
    ∃ bt', (rem.foldl settleStep s).sk = { s0.sk with byTimeout := bt' } ∧ bt'.Nodup ∧
      ∀ x ∈ bt', x ∈ s0.byTimeout ∨ x ∈ s0.pendingOrder
  | [], s, bt, h1, h2, h3, _, _, _ => ⟨bt, h1, h2, h3⟩
  | k :: rest, s, bt, h1, h2, h3, h4, h5, h6 => by
    have hbt : s.byTimeout = bt := by have := congrArg Sk.byTimeout h1; exact this
    obtain ⟨bt1, e1, m1, n1, sub1⟩ := sk_settleStep s k
    have hn4 := List.nodup_cons.mp h4
    refine settle_fold s0 rest (settleStep s k) bt1 ?_ ?_ ?_ hn4.2 ?_ (fun x hx => h6 x (List.mem_cons_of_mem _ hx))
    · rw [e1, h1]
    · exact n1 (hbt ▸ h2) (fun _ => Or.inl (hbt ▸ h5 k List.mem_cons_self))
    · intro x hx
      rcases m1 x hx with h | h
      · exact Or.inr (h ▸ h6 k List.mem_cons_self)
      · exact h3 x (hbt ▸ h)
    · intro x hx hm
      rcases m1 x hm with h | h
      · exact hn4.1 (h ▸ hx)
      · exact h5 x (List.mem_cons_of_mem _ hx) (hbt ▸ h)

/-- `settle` keeps the invariant -/
theorem wf_settle {s : St} (hw : Wf s) : Wf s.settle := by
  rw [settle_eq]
  obtain ⟨bt', e, hn, hm⟩ := settle_fold s s.pendingOrder s s.byTimeout rfl hw.t.btNodup (fun x hx => Or.inl hx)
    hw.t.poNodup (fun k hk => (hw.t.poOk k hk).2.2) (fun _ hk => hk)
  have hsk : ({ s.pendingOrder.foldl settleStep s with pendingOrder := [] } : St).sk =
      { s.sk with byTimeout := bt', pendingOrder := [] } := by
    have : ∀ (X : St), ({ X with pendingOrder := [] } : St).sk = { X.sk with pendingOrder := [] } := fun _ => rfl
    rw [this, e]
  unfold Wf
  rw [hsk]
  refine ⟨hw.q, hw.i, ⟨hn, fun x hx => ?_, List.nodup_nil, fun _ hk => by cases hk⟩, hw.c, hw.s, hw.k, hw.tok⟩
  rcases hm x hx with h | h
  · exact hw.t.btOk x h
  · exact ⟨(hw.t.poOk x h).1, (hw.t.poOk x h).2.1⟩

theorem debt_settle {x d} {s : St} (hw : Wf s) (hd : DebtOk x d s.sk) : DebtOk x d s.settle.sk := by
  rw [settle_eq]
  obtain ⟨bt', e, _, _⟩ := settle_fold s s.pendingOrder s s.byTimeout rfl hw.t.btNodup (fun x hx => Or.inl hx)
    hw.t.poNodup (fun k hk => (hw.t.poOk k hk).2.2) (fun _ hk => hk)
  have hsk : ({ s.pendingOrder.foldl settleStep s with pendingOrder := [] } : St).sk =
      { s.sk with byTimeout := bt', pendingOrder := [] } := by
    have : ∀ (X : St), ({ X with pendingOrder := [] } : St).sk = { X.sk with pendingOrder := [] } := fun _ => rfl
    rw [this, e]
  rw [hsk]
  exact hd.congr rfl rfl rfl rfl rfl

end Cares.Chan
