import CaresLemmas.ChanWfBody8
import CaresLemmas.ChanWfNewConn
/-!
# C01 — `ares_send_query` cut into named pieces (definitionally the code of `bodySendQuery`)
-/
namespace Cares.Chan

/-- choose the server -/
def sqPick (s : St) (reqSrv : Option Nat) : Option Server × St :=
    match reqSrv with
    | some id => (s.server? id, s)
    | none =>
      if s.cfg.rotate then
        let nbest := countBest s.sortedServers
        if nbest == 0 then (none, s) else
        let (c, s') := s.draw1
        (s.sortedServers[c % nbest]?, s')
      else (s.sortedServers.head?, s)

/-- ares_fetch_connection -/
def sqExisting (s : St) (q : Query) (srv : Server) : Option Nat :=
    if q.usingTcp then srv.tcpConn
    else match srv.conns.head? with
      | none => none
      | some fd =>
        match s.conn? fd with
        | none => none
        | some c =>
          if c.tcp then none
          else if s.cfg.udpMax > 0 && c.total ≥ s.cfg.udpMax then none
          else some fd

/-- the virtual socket exists: `socket()` succeeded and the peer is recorded -/
def sqOpenA (s : St) (q : Query) (srv : Server) : St :=
        let tcp := q.usingTcp
        let fd := s.nextFd
        let wl := if tcp then s.pendingWl else []
        let s := { s with nextFd := fd + 1,
                          pendingWl := if tcp then [] else s.pendingWl,
                          socks := s.socks ++ [({ fd := fd, tcp := tcp, wl := wl } : VSock)] }
        let s := (s.emit s!"sock({fd},{if tcp then "tcp" else "udp"},4)").slog fd "open"
        let port := if tcp then srv.tcpPort else srv.udpPort
        s.modSock fd fun v => { v with peer := srv.addr, port := port }

/-- `connect()` -/
def sqOpenC (s : St) (q : Query) (srv : Server) (fd : Nat) : Option Nat × St :=
        let tcp := q.usingTcp
        let port := if tcp then srv.tcpPort else srv.udpPort
        let (f, s) := s.fault "connect"
        let s := s.slog fd "connect"
        let s := match f with
          | some _ => s.emit s!"conn!({fd},{srv.addr}#{port})"
          | none => s.emit s!"conn({fd},{srv.addr}#{port})"
        (f, s)

def sqClose (s : St) (fd : Nat) : St :=
  ((s.modSock fd fun v => { v with isOpen := false }).emit s!"close({fd})").slog fd "close"

/-- the connection enters the store and its server's list -/
def sqOpenD (s : St) (q : Query) (srv : Server) (fd : Nat) : St :=
            let tcp := q.usingTcp
            let c : Conn := { fd := fd, srv := srv.id, tcp := tcp, selfIp := s.selfVariant }
            let s := { s with conns := s.conns ++ [c] }
            let s := s.modServer srv.id fun v =>
              { v with conns := if tcp then v.conns ++ [fd] else fd :: v.conns,
                       tcpConn := if tcp then some fd else v.tcpConn }
            s.notify fd true tcp

/-- `getsockname()`, then the connection object is created -/
def sqOpenT (s : St) (q : Query) (srv : Server) (fd : Nat) : (Except Status Nat) × St :=
          let (f, s) := s.fault "getsockname"
          match f with
          | some _ => (.error .connrefused, sqClose s fd)
          | none => (.ok fd, sqOpenD s q srv fd)

/-- ares_open_connection -/
def sqOpen (s : St) (q : Query) (srv : Server) : (Except Status Nat) × St :=
      let tcp := q.usingTcp
      let (f, s) := s.fault "socket"
      match f with
      | some _ => (.error .connrefused, s.emit s!"sock!({if tcp then "tcp" else "udp"})")
      | none =>
        let fd := s.nextFd
        let s := sqOpenA s q srv
        let (f, s) := sqOpenC s q srv fd
        let connFail := match f with
          | some e => !isWouldBlock e
          | none => false
        if connFail then (.error .connrefused, sqClose s fd)
        else sqOpenT s q srv fd

def sqConn (s : St) (q : Query) (srv : Server) : (Except Status Nat) × St :=
    match sqExisting s q srv with
    | some fd => (.ok fd, s)
    | none => sqOpen s q srv

/-- ares_conn_query_write up to the point where the frame sits in the out buffer -/
def sqPrep (s : St) (q : Query) (srv : Server) (key fd : Nat) : St × Query :=
  let cTcp := ((s.conn? fd).map (·.tcp)).getD q.usingTcp
  let cSelf := ((s.conn? fd).map (·.selfIp)).getD 0
  let srvNow0 := (s.server? srv.id).getD srv
  let reqOpt : Cares.Proto.Cookie.ReqOpt := if q.edns then some q.reqCookie else none
  let ao := Cares.Proto.Cookie.apply srvNow0.cookie { selfIp := selfAddr cSelf, tcp := cTcp } s.tv s.peek8 reqOpt
  let s := if ao.draws > 0 then s.pop8 else s
  let s := s.modServer srv.id fun v => { v with cookie := ao.ck }
  let newCk : Option (List UInt8) := ao.req.join
  let cookie := match newCk with
    | some b => bytesToHex b
    | none => "-"
  let s := s.modQuery key fun q => { q with reqCookie := newCk, cookie := cookie }
  let q := { q with reqCookie := newCk, cookie := cookie }
  let frame : OutFrame := { len := frameLen q.name q.edns cookie, key := key, qid := q.qid, name := q.name,
                            qtype := q.qtype, qclass := q.qclass, rd := q.rd, edns := q.edns, cookie := cookie }
  let s := s.modConn fd fun c => { c with out := c.out ++ [frame] }
  let s := { s with writeLog := s.writeLog ++ [key] }
  (s, q)

def sqWrite (go : Call → St → St × Ret) (s : St) (fd : Nat) : Status × St :=
  let c := (s.conn? fd).getD default
    if c.tcp && !c.connected then (.ok, s)
    else if s.cfg.pendingWrite && !s.notifyPending && c.tcp then
      (.ok, ({ s with notifyPending := true }).emit "pendingwrite")
    else
      let (s, r) := go (.flush fd) s
      (r, s)

/-- the state after the query was put on the connection (write succeeded) -/
def sqAttachSt (s : St) (q : Query) (srv : Server) (key fd : Nat) : St :=
      let srvNow := (s.server? srv.id).getD srv
      let timeout := s.serverTimeout srvNow
      let nsrv := s.servers.length
      let rounds := q.tryCount / nsrv
      let timeplus := if rounds > 0 then timeout * 2 ^ rounds else timeout
      let timeplus := if s.cfg.maxtimeout != 0 && timeplus > s.cfg.maxtimeout then s.cfg.maxtimeout else timeplus
      let (dl, s) : Deadline × St :=
        if rounds > 0 then
          let (_, s) := s.draw2
          let lo := max timeout (timeplus - timeplus / 2)
          let hi := max timeout timeplus
          (.pending (s.now + lo) (s.now + hi), s)
        else (.at (s.now + max timeplus timeout), s)
      let s := { s with byTimeout := s.byTimeout.erase key }
      let s := match q.conn with
        | some old => s.modConn old fun c => { c with queries := c.queries.erase key }
        | none => s
      let s := s.modQuery key fun q => { q with ts := s.now, deadline := dl, conn := some fd, inConnList := true }
      let s := { s with pendingOrder := s.pendingOrder.erase key ++ [key] }
      s.modConn fd fun c => { c with queries := c.queries.erase key ++ [key], total := c.total + 1 }

def sqFinish (go : Call → St → St × Ret) (wst : Status) (s : St) (q : Query) (srv : Server) (key fd : Nat)
    (probeDowned : Bool) : St × Ret :=
  match wst with
  | .ok =>
    match s.query? key, s.conn? fd with
    | some q, some _ =>
      let s := sqAttachSt s q srv key fd
      if probeDowned then
        let (s, _) := go (.probe srv.id key) s
        (s, .ok)
      else (s, .ok)
    | none, _ => (s.mfault s!"uaf-query({key}) after write in ares_send_query", .other)
    | _, none => (s.mfault s!"uaf-conn({fd}) after write in ares_send_query", .other)
  | .nomem => go (.endQuery (some srv.id) key .nomem none) s
  | .connrefused | .badfamily =>
    let (s, _) := go (.connError fd true wst) s
    match (s.byQid.find? (fun (id, k) => id == q.qid && k == key)).bind (fun _ => s.query? key) with
    | none => (s, .cancelled)
    | some _ =>
      let (s, r) := go (.requeue key wst true none false) s
      (s, if r == .timeout then .connrefused else r)
  | wst' =>
    let s := s.incFailures srv.id q.usingTcp
    go (.requeue key wst' true none false) s

theorem bodySendQuery_eq (go) (reqSrv : Option Nat) (key : Nat) (s : St) :
    bodySendQuery go reqSrv key s =
      match s.query? key with
      | none => (s.mfault s!"uaf-query({key}) in ares_send_query", .other)
      | some q =>
        match (sqPick s reqSrv).1 with
        | none => go (.endQuery none key .noserver none) (sqPick s reqSrv).2
        | some srv =>
          let s1 := { (sqPick s reqSrv).2 with picks := (sqPick s reqSrv).2.picks ++
            [(key, srv.id, reqSrv.isSome, s.sortedServers.map fun v => (v.id, v.failures))] }
          let probeDowned := reqSrv.isNone && srv.failures == 0 && q.tryCount == 0
          match (sqConn s1 q srv).1 with
          | .error st => go (.requeue key st true none false) ((sqConn s1 q srv).2.incFailures srv.id q.usingTcp)
          | .ok fd =>
            let p := sqPrep (sqConn s1 q srv).2 q srv key fd
            let w := sqWrite go p.1 fd
            sqFinish go w.1 w.2 p.2 srv key fd probeDowned := by
  unfold bodySendQuery sqPick sqConn sqExisting sqOpen sqOpenT sqOpenA sqOpenC sqClose sqOpenD sqPrep sqWrite sqFinish sqAttachSt
  rfl

end Cares.Chan
