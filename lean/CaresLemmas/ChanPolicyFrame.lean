import Lean.Elab.Tactic
import CaresLemmas.ChanPolicyShape
/-!
# Frame invariant of `exec`: configuration, clock and server identities never change within a procedure

`Frame c n ids s` fixes `s.cfg`, `s.now` and the list of server ids.  Every procedure body preserves it; hence
`exec` does.  The file also sets up the tactic pieces reused by the other invariants:

* `chan_elim`  : replace a non-trivial helper (`notify`, `removeFromConn`, `recordTx`, …) by an arbitrary structure
                 update of the fields it may touch (lemmas `*_elim` of `ChanPolicyShape`),
* `chan_simple`: unfold the plain structure-update helpers,
* per invariant a `…_congr` tactic that strips one layer of structure update that does not concern the invariant.
-/
namespace Cares.Chan

/-- strip one non-trivial helper from the state the goal talks about -/
macro "chan_elim" : tactic => `(tactic| first
  | (apply notify_elim; intro _ _ _)
  | (apply incFailures_elim; intro _ _)
  | (apply setGood_elim; intro _ _)
  | (apply metricsRecord_elim; intro _)
  | (apply removeFromConn_elim; intro _ _ _ _)
  | (apply detach_elim; intro _ _ _ _ _ _ _)
  | (apply freeQuery_elim; intro _ _ _ _ _ _ _)
  | (apply fault_elim; intro _)
  | (apply draw1_elim; intro _ _)
  | (apply draw2_elim; intro _ _)
  | (apply pop8_elim; intro _ _)
  | (apply genQid_elim; intro _ _)
  | (apply cacheInsert_elim; intro _)
  | (apply userCallback_elim; intro _ _ _)
  | (apply recordTx_elim; intro _ _ _ _ _ _)
  | (apply advanceOut_elim; intro _ _ _ _ _ _))

/-- split a procedure body into its paths; `let`s are moved into the context as they come to the top, so the terms
    stay small -/
macro "chan_paths" : tactic => `(tactic| repeat' (first | extract_lets | split))

open Lean Elab Tactic Meta in
/-- the goal is `P x` with `x` a `let` variable of the context: replace `x` by its value (one step) -/
elab "unfold_state_let" : tactic => do
  let g ← getMainGoal
  g.withContext do
    let t ← instantiateMVars (← g.getType)
    match t with
    | .app f (.fvar id) =>
      match (← id.getDecl).value? with
      | some v =>
        let g' ← g.replaceTargetDefEq (mkApp f v)
        replaceMainGoal [g']
      | none => throwError "not a let variable"
    | _ => throwError "the state is not a variable"

/-- a predicate carried across a pair destructured by `split` -/
theorem pair_fst {I : St → Prop} {e : St × Ret} {s1 : St} {r : Ret} (heq : e = (s1, r)) (h : I e.1) : I s1 := by
  subst heq; exact h

open Lean Elab Tactic Meta in
/-- the goal is `P x` with `x` a `let` variable of the context: replace `x` by its value (one step) -/
elab "unfold_state_let" : tactic => do
  let g ← getMainGoal
  g.withContext do
    let t ← instantiateMVars (← g.getType)
    match t with
    | .app f (.fvar id) =>
      match (← id.getDecl).value? with
      | some v =>
        let g' ← g.replaceTargetDefEq (mkApp f v)
        replaceMainGoal [g']
      | none => throwError "not a let variable"
    | _ => throwError "the state is not a variable"

/-- an invariant carried across a call whose result was destructured by `split` -/
theorem go_pair {I : St → Prop} {go : Call → St → St × Ret} (hgo : ∀ c s, I s → I (go c s).1)
    {c : Call} {s s1 : St} {r : Ret} (heq : go c s = (s1, r)) (h : I s) : I s1 := by
  have := hgo c s h; rw [heq] at this; exact this

open Lean in
/-- generate `NS.emit … NS.cacheExpire`: the invariant `I` is preserved (definitionally) by the helpers that are plain
    structure updates of fields it does not read; the list says which helpers -/
macro "chan_simple_lemmas " ns:ident " : " I:term " => " hs:ident* : command => do
  let n (s : String) := mkIdent (ns.getId ++ Name.mkSimple s)
  let mut cmds : Array (TSyntax `command) := #[]
  for h in hs do
    let c ← match h.getId.toString with
      | "emit" => `(theorem $(n "emit") {s : St} {e : String} (h : $I s) : $I (s.emit e) := h)
      | "slog" => `(theorem $(n "slog") {s : St} {fd : Nat} {c : String} (h : $I s) : $I (s.slog fd c) := h)
      | "ofault" => `(theorem $(n "ofault") {s : St} {e : String} (h : $I s) : $I (s.ofault e) := h)
      | "mfault" => `(theorem $(n "mfault") {s : St} {e : String} (h : $I s) : $I (s.mfault e) := h)
      | "oof" => `(theorem $(n "oof") {s : St} (h : $I s) : $I s.oof.1 := h)
      | "setQuery" => `(theorem $(n "setQuery") {s : St} {q : Query} (h : $I s) : $I (s.setQuery q) := h)
      | "setConn" => `(theorem $(n "setConn") {s : St} {c : Conn} (h : $I s) : $I (s.setConn c) := h)
      | "setServer" => `(theorem $(n "setServer") {s : St} {v : Server} (h : $I s) : $I (s.setServer v) := h)
      | "setSock" => `(theorem $(n "setSock") {s : St} {v : VSock} (h : $I s) : $I (s.setSock v) := h)
      | "modQuery" => `(theorem $(n "modQuery") {s : St} {k : Nat} {f : Query → Query} (h : $I s) : $I (s.modQuery k f) := h)
      | "modConn" => `(theorem $(n "modConn") {s : St} {k : Nat} {f : Conn → Conn} (h : $I s) : $I (s.modConn k f) := h)
      | "modServer" => `(theorem $(n "modServer") {s : St} {k : Nat} {f : Server → Server} (h : $I s) : $I (s.modServer k f) := h)
      | "modSock" => `(theorem $(n "modSock") {s : St} {k : Nat} {f : VSock → VSock} (h : $I s) : $I (s.modSock k f) := h)
      | "modClient" => `(theorem $(n "modClient") {s : St} {k : Nat} {f : Client → Client} (h : $I s) : $I (s.modClient k f) := h)
      | "cacheExpire" => `(theorem $(n "cacheExpire") {s : St} (h : $I s) : $I s.cacheExpire := h)
      | _ => Macro.throwError s!"unknown helper {h.getId}"
    cmds := cmds.push c
  return ⟨mkNullNode cmds⟩

/-! ### the frame -/

def Frame (c0 : Cfg) (n0 : Nat) (ids0 : List Nat) (s : St) : Prop :=
  s.cfg = c0 ∧ s.now = n0 ∧ s.servers.map (·.id) = ids0

namespace Frame
variable {c0 : Cfg} {n0 : Nat} {ids0 : List Nat}

theorem congr {s s' : St} (h0 : s'.cfg = s.cfg) (h1 : s'.now = s.now) (h2 : s'.servers = s.servers)
    (h : Frame c0 n0 ids0 s) : Frame c0 n0 ids0 s' := by
  unfold Frame at *; rw [h0, h1, h2]; exact h

theorem congr_ids {s s' : St} (h0 : s'.cfg = s.cfg) (h1 : s'.now = s.now)
    (h2 : s'.servers.map (·.id) = s.servers.map (·.id))
    (h : Frame c0 n0 ids0 s) : Frame c0 n0 ids0 s' := by
  unfold Frame at *; rw [h0, h1, h2]; exact h

theorem setServer {s : St} (v : Server) (h : Frame c0 n0 ids0 s) : Frame c0 n0 ids0 (s.setServer v) :=
  congr_ids (s := s) rfl rfl (setServer_ids s v) h

theorem modServer {s : St} {id : Nat} {f : Server → Server} (hf : ∀ v, (f v).id = v.id)
    (h : Frame c0 n0 ids0 s) : Frame c0 n0 ids0 (s.modServer id f) :=
  congr_ids (s := s) rfl rfl (modServer_ids s id f hf) h

theorem incFailures {s : St} {id : Nat} {tcp : Bool} (h : Frame c0 n0 ids0 s) :
    Frame c0 n0 ids0 (s.incFailures id tcp) := by
  refine congr_ids ?_ ?_ (incFailures_ids s id tcp) h
  all_goals (obtain ⟨a, b, e⟩ := incFailures_shape s id tcp; rw [e])

theorem setGood {s : St} {id : Nat} {tcp : Bool} (h : Frame c0 n0 ids0 s) :
    Frame c0 n0 ids0 (s.setGood id tcp) := by
  refine congr_ids ?_ ?_ (setGood_ids s id tcp) h
  all_goals (obtain ⟨a, b, e⟩ := setGood_shape s id tcp; rw [e])

theorem metricsRecord {s : St} {q : Query} {srv : Option Nat} {st : Status} {rec : Option Reply}
    (h : Frame c0 n0 ids0 s) : Frame c0 n0 ids0 (s.metricsRecord q srv st rec) := by
  refine congr_ids ?_ ?_ (metricsRecord_ids s q srv st rec) h
  all_goals (obtain ⟨a, e⟩ := metricsRecord_shape s q srv st rec; rw [e])

end Frame

section
variable {c0 : Cfg} {n0 : Nat} {ids0 : List Nat}
chan_simple_lemmas Frame : (Frame c0 n0 ids0) =>
  emit slog ofault mfault oof setQuery setConn setSock modQuery modConn modSock modClient cacheExpire
end

/-- strip one layer of structure update that leaves `cfg`, `now`, `servers` alone -/
macro "frame_congr" : tactic => `(tactic| (
  refine Frame.congr (s := ?s0) ?h0 ?h1 ?h2 ?hI
  case h0 => (dsimp only; exact rfl)
  case h1 => exact rfl
  case h2 => exact rfl))

/-- one backward step of a leaf proof `I (… helpers … (go c (…)).1 …)`:
    `spec` = the lemmas of the invariant for the helpers that matter to it (and the generated ones for plain updates),
    `congr` = strip a structure update the invariant does not read -/
macro "chan_step " hgo:term ", " spec:tactic ", " congr:tactic : tactic => `(tactic| first
  | assumption
  | with_reducible apply $hgo
  | (with_reducible apply pair_fst; assumption)
  | $spec
  | with_reducible chan_elim
  | $congr
  | unfold_state_let
  | split)

macro "frame_spec" : tactic => `(tactic| first
  | with_reducible apply Frame.incFailures
  | with_reducible apply Frame.setGood
  | with_reducible apply Frame.metricsRecord
  | with_reducible apply Frame.setServer
  | (with_reducible refine Frame.modServer ?hf ?hI; case hf => (intro _; rfl))
  | with_reducible (first
      | apply Frame.emit | apply Frame.slog | apply Frame.ofault | apply Frame.mfault | apply Frame.oof
      | apply Frame.setQuery | apply Frame.setConn | apply Frame.setSock | apply Frame.modQuery | apply Frame.modConn
      | apply Frame.modSock | apply Frame.modClient | apply Frame.cacheExpire))

macro "frame_step" hgo:term : tactic => `(tactic| chan_step $hgo, frame_spec, frame_congr)

macro "frame_leaf" hgo:term : tactic => `(tactic| repeat' (frame_step $hgo))

end Cares.Chan
