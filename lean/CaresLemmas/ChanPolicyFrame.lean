import Lean.Elab.Tactic
import CaresLemmas.ChanPolicyShape
/-!
# Frame invariant of `exec`: configuration, clock and server identities never change within a procedure

`Frame c n ids s` fixes `s.cfg`, `s.now` and the list of server ids.  Every procedure body preserves it; hence
`exec` does.  The file also sets up the tactic pieces reused by the other invariants:

* `chan_elim`  : replace a non-trivial helper (`notify`, `removeFromConn`, `recordTx`, …) by an arbitrary structure
                 update of the fields it may touch (lemmas `*_elim` of `ChanPolicyShape`),
* `chan_simple`: unfold the plain structure-update helpers,
* per invariant a `…_congr` tactic that strips one layer of structure update that does not concern the invariant.
-/
namespace Cares.Chan

/-- strip one non-trivial helper from the state the goal talks about -/
macro "chan_elim" : tactic => `(tactic| first
  | (apply notify_elim; intro _ _ _)
  | (apply incFailures_elim; intro _ _)
  | (apply setGood_elim; intro _ _)
  | (apply metricsRecord_elim; intro _)
  | (apply removeFromConn_elim; intro _ _ _ _)
  | (apply detach_elim; intro _ _ _ _ _ _ _)
  | (apply freeQuery_elim; intro _ _ _ _ _ _ _)
  | (apply fault_elim; intro _)
  | (apply draw1_elim; intro _ _)
  | (apply draw2_elim; intro _ _)
  | (apply pop8_elim; intro _ _)
  | (apply genQid_elim; intro _ _)
  | (apply cacheInsert_elim; intro _)
  | (apply userCallback_elim; intro _ _ _)
  | (apply recordTx_elim; intro _ _ _ _ _ _)
  | (apply advanceOut_elim; intro _ _ _ _ _ _))

/- `chan_freeze_lets`: turn every `let` variable of the context whose type is not `St` into an ordinary variable `x`
   with a hypothesis `x = value` (so that `split` can case on it) -/
open Lean Elab Tactic Meta in
elab "chan_freeze_lets" : tactic => do
  let mut g ← getMainGoal
  let mut progress := false
  let mut skip : Nat := 0
  repeat
    let lctx := (← g.getDecl).lctx
    let cands := lctx.foldl (init := #[]) fun acc d =>
      if d.isLet && !d.type.isConstOf ``St && !d.isImplementationDetail then acc.push d else acc
    if h : skip < cands.size then
      let decl := cands[skip]
      let (eqTy, eqPf) ← g.withContext do
        let fv := decl.toExpr
        pure (← mkEq fv decl.value, ← mkEqRefl fv)
      let g1 ← g.assert (decl.userName.appendAfter "_def") eqTy eqPf
      let (_, g2) ← g1.intro1P
      match ← observing? (g2.clearValue decl.fvarId) with
      | some g3 => g := g3; progress := true
      | none => skip := skip + 1
    else break
  unless progress do throwError "no let variable to freeze"
  replaceMainGoal [g]

/-- split a procedure body into its paths; `let`s are moved into the context as they come to the top, so the terms
    stay small -/
macro "chan_paths" : tactic => `(tactic| repeat' (first | extract_lets | split | (chan_freeze_lets; split)))

open Lean Elab Tactic Meta in
/-- the goal is `P x` with `x` a `let` variable of the context: replace `x` by its value (one step) -/
elab "unfold_state_let" : tactic => do
  let g ← getMainGoal
  g.withContext do
    let t ← instantiateMVars (← g.getType)
    match t with
    | .app f (.fvar id) =>
      match (← id.getDecl).value? with
      | some v =>
        let g' ← g.replaceTargetDefEq (mkApp f v)
        replaceMainGoal [g']
      | none => throwError "not a let variable"
    | _ => throwError "the state is not a variable"

/- `peel_raw lem`: the goal is `P (St.mk X.cfg …)` (a structure update of `X`, possibly under `Prod.fst/snd` of a
   pair); apply `lem (s := X)`, whose first hypotheses are equations closed by `rfl`; the last one (`P X`) remains. -/
open Lean Elab Tactic Meta in
elab "peel_raw " lem:ident : tactic => do
  let g ← getMainGoal
  g.withContext do
    let t ← instantiateMVars (← g.getType)
    let mut st := t.appArg!
    -- `(a, b).fst` / `(a, b).snd`
    if st.isAppOfArity ``Prod.fst 3 || st.isAppOfArity ``Prod.snd 3 then
      let pr := st.appArg!
      if pr.isAppOfArity ``Prod.mk 4 then
        st := if st.isAppOfArity ``Prod.fst 3 then pr.getArg! 2 else pr.getArg! 3
    unless st.isAppOf ``St.mk do throwError "peel_raw: not a structure update"
    let a0 := st.getArg! 0
    let x ← match a0 with
      | .app (.const ``St.cfg _) x => pure x
      | .proj _ 0 x => pure x
      | _ => throwError "peel_raw: first field is not a projection"
    let xs ← Term.exprToSyntax x
    let others := (← getGoals).drop 1
    evalTactic (← `(tactic| apply $lem (s := $xs)))
    let all ← getGoals
    let new := all.take (all.length - others.length)
    -- every new goal but the last is an equation that must hold by `rfl`
    for e in new.dropLast do
      setGoals [e]
      evalTactic (← `(tactic| exact rfl))
    setGoals ((new.getLast?.map fun l => [l]).getD [] ++ others)

/-- the induction hypothesis of `exec_induct` for an invariant: every call the body makes preserves it -/
@[reducible] def GoInv (I : St → Prop) (go : Call → St → St × Ret) : Prop := ∀ c s, I s → I (go c s).1

/-- a predicate carried across a pair destructured by `split` -/
theorem pair_fst {β : Type} {I : St → Prop} {e : St × β} {s1 : St} {r : β} (heq : e = (s1, r)) (h : I e.1) :
    I s1 := by
  subst heq; exact h

theorem pair_snd {α : Type} {I : St → Prop} {e : α × St} {s1 : St} {a : α} (heq : e = (a, s1)) (h : I e.2) :
    I s1 := by
  subst heq; exact h

open Lean Elab Tactic Meta in
/-- the goal is `P x` with `x` a `let` variable of the context: replace `x` by its value (one step) -/
elab "unfold_state_let" : tactic => do
  let g ← getMainGoal
  g.withContext do
    let t ← instantiateMVars (← g.getType)
    match t with
    | .app f (.fvar id) =>
      match (← id.getDecl).value? with
      | some v =>
        let g' ← g.replaceTargetDefEq (mkApp f v)
        replaceMainGoal [g']
      | none => throwError "not a let variable"
    | _ => throwError "the state is not a variable"

/-- an invariant carried across a call whose result was destructured by `split` -/
theorem go_pair {I : St → Prop} {go : Call → St → St × Ret} (hgo : ∀ c s, I s → I (go c s).1)
    {c : Call} {s s1 : St} {r : Ret} (heq : go c s = (s1, r)) (h : I s) : I s1 := by
  have := hgo c s h; rw [heq] at this; exact this

open Lean in
/-- generate `NS.emit … NS.cacheExpire`: the invariant `I` is preserved (definitionally) by the helpers that are plain
    structure updates of fields it does not read; the list says which helpers -/
macro "chan_simple_lemmas " ns:ident " : " I:term " => " hs:ident* : command => do
  let n (s : String) := mkIdent (ns.getId ++ Name.mkSimple s)
  let mut cmds : Array (TSyntax `command) := #[]
  for h in hs do
    let c ← match h.getId.toString with
      | "emit" => `(theorem $(n "emit") {s : St} {e : String} (h : $I s) : $I (s.emit e) := h)
      | "slog" => `(theorem $(n "slog") {s : St} {fd : Nat} {c : String} (h : $I s) : $I (s.slog fd c) := h)
      | "ofault" => `(theorem $(n "ofault") {s : St} {e : String} (h : $I s) : $I (s.ofault e) := h)
      | "mfault" => `(theorem $(n "mfault") {s : St} {e : String} (h : $I s) : $I (s.mfault e) := h)
      | "oofSt" => `(theorem $(n "oof") {s : St} (h : $I s) : $I s.oof.1 := h)
      | "setQuery" => `(theorem $(n "setQuery") {s : St} {q : Query} (h : $I s) : $I (s.setQuery q) := h)
      | "setConn" => `(theorem $(n "setConn") {s : St} {c : Conn} (h : $I s) : $I (s.setConn c) := h)
      | "setServer" => `(theorem $(n "setServer") {s : St} {v : Server} (h : $I s) : $I (s.setServer v) := h)
      | "setSock" => `(theorem $(n "setSock") {s : St} {v : VSock} (h : $I s) : $I (s.setSock v) := h)
      | "modQuery" => `(theorem $(n "modQuery") {s : St} {k : Nat} {f : Query → Query} (h : $I s) : $I (s.modQuery k f) := h)
      | "modConn" => `(theorem $(n "modConn") {s : St} {k : Nat} {f : Conn → Conn} (h : $I s) : $I (s.modConn k f) := h)
      | "modServer" => `(theorem $(n "modServer") {s : St} {k : Nat} {f : Server → Server} (h : $I s) : $I (s.modServer k f) := h)
      | "modSock" => `(theorem $(n "modSock") {s : St} {k : Nat} {f : VSock → VSock} (h : $I s) : $I (s.modSock k f) := h)
      | "modClient" => `(theorem $(n "modClient") {s : St} {k : Nat} {f : Client → Client} (h : $I s) : $I (s.modClient k f) := h)
      | "cacheExpire" => `(theorem $(n "cacheExpire") {s : St} (h : $I s) : $I s.cacheExpire := h)
      | _ => Macro.throwError s!"unknown helper {h.getId}"
    cmds := cmds.push c
  return ⟨mkNullNode cmds⟩

/-! ### the frame -/

def Frame (c0 : Cfg) (n0 : Nat) (ids0 : List Nat) (s : St) : Prop :=
  s.cfg = c0 ∧ s.now = n0 ∧ s.servers.map (·.id) = ids0

namespace Frame
variable {c0 : Cfg} {n0 : Nat} {ids0 : List Nat}

theorem congr {s s' : St} (h0 : s'.cfg = s.cfg) (h1 : s'.now = s.now) (h2 : s'.servers = s.servers)
    (h : Frame c0 n0 ids0 s) : Frame c0 n0 ids0 s' := by
  unfold Frame at *; rw [h0, h1, h2]; exact h

theorem congr_ids {s s' : St} (h0 : s'.cfg = s.cfg) (h1 : s'.now = s.now)
    (h2 : s'.servers.map (·.id) = s.servers.map (·.id))
    (h : Frame c0 n0 ids0 s) : Frame c0 n0 ids0 s' := by
  unfold Frame at *; rw [h0, h1, h2]; exact h

theorem setServer {s : St} (v : Server) (h : Frame c0 n0 ids0 s) : Frame c0 n0 ids0 (s.setServer v) :=
  congr_ids (s := s) rfl rfl (setServer_ids s v) h

theorem modServer {s : St} {id : Nat} {f : Server → Server} (hf : ∀ v, (f v).id = v.id)
    (h : Frame c0 n0 ids0 s) : Frame c0 n0 ids0 (s.modServer id f) :=
  congr_ids (s := s) rfl rfl (modServer_ids s id f hf) h

theorem incFailures {s : St} {id : Nat} {tcp : Bool} (h : Frame c0 n0 ids0 s) :
    Frame c0 n0 ids0 (s.incFailures id tcp) := by
  refine congr_ids ?_ ?_ (incFailures_ids s id tcp) h
  all_goals (obtain ⟨a, b, e⟩ := incFailures_shape s id tcp; rw [e])

theorem setGood {s : St} {id : Nat} {tcp : Bool} (h : Frame c0 n0 ids0 s) :
    Frame c0 n0 ids0 (s.setGood id tcp) := by
  refine congr_ids ?_ ?_ (setGood_ids s id tcp) h
  all_goals (obtain ⟨a, b, e⟩ := setGood_shape s id tcp; rw [e])

theorem metricsRecord {s : St} {q : Query} {srv : Option Nat} {st : Status} {rec : Option Reply}
    (h : Frame c0 n0 ids0 s) : Frame c0 n0 ids0 (s.metricsRecord q srv st rec) := by
  refine congr_ids ?_ ?_ (metricsRecord_ids s q srv st rec) h
  all_goals (obtain ⟨a, e⟩ := metricsRecord_shape s q srv st rec; rw [e])

end Frame

section
variable {c0 : Cfg} {n0 : Nat} {ids0 : List Nat}
chan_simple_lemmas Frame : (Frame c0 n0 ids0) =>
  emit slog ofault mfault oofSt setQuery setConn setSock modQuery modConn modSock modClient cacheExpire
end

/-- strip one layer of structure update that leaves `cfg`, `now`, `servers` alone -/
macro "frame_congr" : tactic => `(tactic| (
  refine Frame.congr (s := ?s0) ?h0 ?h1 ?h2 ?hI
  case h0 => (dsimp only; exact rfl)
  case h1 => exact rfl
  case h2 => exact rfl))

/-- one backward step of a leaf proof `I (… helpers … (go c (…)).1 …)`:
    `spec` = the lemmas of the invariant for the helpers that matter to it (and the generated ones for plain updates),
    `congr` = strip a structure update the invariant does not read -/
macro "chan_step " hgo:term ", " spec:tacticSeq ", " congr:tacticSeq : tactic => `(tactic| first
  | assumption
  | with_reducible apply $hgo
  | (with_reducible apply pair_fst; assumption)
  | (with_reducible apply pair_snd; assumption)
  | ($spec)
  | with_reducible chan_elim
  | ($congr)
  | unfold_state_let
  | split)

macro "frame_spec" : tactic => `(tactic| first
  | with_reducible apply Frame.incFailures
  | with_reducible apply Frame.setGood
  | with_reducible apply Frame.metricsRecord
  | with_reducible apply Frame.setServer
  | (with_reducible refine Frame.modServer ?hf ?hI; case hf => (intro _; rfl))
  | with_reducible (first
      | apply Frame.emit | apply Frame.slog | apply Frame.ofault | apply Frame.mfault | apply Frame.oof
      | apply Frame.setQuery | apply Frame.setConn | apply Frame.setSock | apply Frame.modQuery | apply Frame.modConn
      | apply Frame.modSock | apply Frame.modClient | apply Frame.cacheExpire))

macro "frame_step" hgo:term : tactic => `(tactic| chan_step $hgo, frame_spec, frame_congr)

macro "frame_leaf" hgo:term : tactic => `(tactic| repeat' (frame_step $hgo))

end Cares.Chan

namespace Cares.Chan

/-- `List.foldl` of an invariant-preserving step -/
theorem foldl_inv {α : Type} {I : St → Prop} (f : St → α → St) (hf : ∀ s a, I s → I (f s a)) (l : List α) (s : St)
    (h : I s) : I (l.foldl f s) := by
  induction l generalizing s with
  | nil => exact h
  | cons a r ih => exact ih _ (hf s a h)

open Lean in
/-- Generate, for an invariant `I` (a term of type `St → Prop`), the preservation lemma of every procedure body
    (`bodyXxx_<sfx>`), of `execBody` and of `exec`.  `leaf` is the tactic run on every path of a body (it may refer to
    `hgo : GoInv I go` and `h : I s`); bodies listed after `except` are expected to have been proved by hand under
    the same names.  `hoof` proves `∀ s, I s → I s.oof.1`.  `goHyp go` is the type of the hypothesis `hgo` about the
    calls a body makes (`GoInv I` by default). -/
def mkChanInvariant (sfx : Ident) (I : Term) (goHyp : Term) (hoof : Term)
    (leaf : TSyntax `Lean.Parser.Tactic.tacticSeq) (ex : Array Ident) : MacroM (TSyntax `command) := do
  -- `exceptBodies … blocksOnly` generates only the `sq*` block lemmas; `… afterBlocks` everything else;
  -- `… noExec` omits the `execBody` / `exec` theorems
  let noExec := ex.any (fun i => i.getId.toString == "noExec")
  let blocksOnly := ex.any (fun i => i.getId.toString == "blocksOnly")
  let afterBlocks := ex.any (fun i => i.getId.toString == "afterBlocks")
  let sfxS := sfx.getId.toString
  let nm (b : String) : Ident := mkIdent (Name.mkSimple (b ++ "_" ++ sfxS))
  let hgo := mkIdent `hgo
  let h := mkIdent `h
  let go := mkIdent `go
  let s := mkIdent `s
  let skip (b : String) : Bool := ex.any (fun i => i.getId.toString == b)
  let mut cmds : Array (TSyntax `command) := #[]
  -- (name, explicit argument binders as identifiers)
  let bodies : List (String × List String) := [
    ("sqChoose", []), ("sqOpen", []), ("sqPrep", []), ("sqWrite", []), ("sqDeadline", []), ("sqCommit", []),
    ("sqAfter", []), ("sendQueryBlocks", []),
    ("bodySendNolock", ["a1", "a2", "a3", "a4", "a5", "a6"]), ("bodySendQuery", ["a1", "a2"]),
    ("bodyProbe", ["a1", "a2"]), ("bodyFlush", ["a1"]), ("bodyRequeue", ["a1", "a2", "a3", "a4", "a5"]),
    ("bodyEndQuery", ["a1", "a2", "a3", "a4"]), ("bodyCallback", ["a1", "a2", "a3", "a4", "a5"]),
    ("bodyUserCb", ["a1", "a2", "a3", "a4", "a5"]), ("bodyReactions", ["a1"]),
    ("bodyConnError", ["a1", "a2", "a3"]), ("bodyCloseConn", ["a1", "a2"]), ("bodyCloseLoop", ["a1", "a2"]),
    ("bodyProcessWrite", ["a1"]), ("bodyProcessRead", ["a1"]), ("bodyReadAnswers", ["a1"]),
    ("bodyFlushRequeue", []), ("bodyProcessAnswer", ["a1", "a2"]), ("bodyProcessTimeouts", []),
    ("bodyCleanupConns", ["a1"]), ("bodyClientStart", ["a1", "a2", "a3", "a4", "a5"]), ("bodyRunActs", ["a1", "a2"]),
    ("bodyCancel", []), ("bodyCancelLoop", ["a1", "a2"]), ("bodyDestroy", [])]
  for (b, args) in bodies do
    if skip b then continue
    if blocksOnly && !(b.startsWith "sq") then continue
    if afterBlocks && b.startsWith "sq" then continue
    let bid := mkIdent (Name.mkSimple b)
    let c ← match b with
      | "sqChoose" => `(theorem $(nm b) {$go : Call → St → St × Ret} ($hgo : $goHyp $go) (a1 : Option Nat) ($s : St)
            ($h : $I $s) : $I (sqChoose a1 $s).2 := by unfold sqChoose; chan_paths; all_goals ($leaf))
      | "sqOpen" => `(theorem $(nm b) {$go : Call → St → St × Ret} ($hgo : $goHyp $go) ($s : St) (a1 : Query)
            (a2 : Server) (a3 : Option Nat) ($h : $I $s) : $I (sqOpen $s a1 a2 a3).2 := by
              unfold sqOpen; chan_paths; all_goals ($leaf))
      | "sqPrep" => `(theorem $(nm b) {$go : Call → St → St × Ret} ($hgo : $goHyp $go) ($s : St) (a1 : Query)
            (a2 : Server) (a3 a4 : Nat) ($h : $I $s) : $I (sqPrep $s a1 a2 a3 a4) := by
              unfold sqPrep; chan_paths; all_goals ($leaf))
      | "sqWrite" => `(theorem $(nm b) {$go : Call → St → St × Ret} ($hgo : $goHyp $go) ($s : St) (a1 : Nat)
            ($h : $I $s) : $I (sqWrite $go $s a1).2 := by unfold sqWrite; chan_paths; all_goals ($leaf))
      | "sqDeadline" => `(theorem $(nm b) {$go : Call → St → St × Ret} ($hgo : $goHyp $go) ($s : St) (a1 : Server)
            (a2 : Nat) ($h : $I $s) : $I (sqDeadline $s a1 a2).2 := by unfold sqDeadline; chan_paths; all_goals ($leaf))
      | "sqCommit" => `(theorem $(nm b) {$go : Call → St → St × Ret} ($hgo : $goHyp $go) ($s : St) (a1 : Query)
            (a2 a3 : Nat) (a4 : Deadline) ($h : $I $s) : $I (sqCommit $s a1 a2 a3 a4) := by
              unfold sqCommit; chan_paths; all_goals ($leaf))
      | "sqAfter" => `(theorem $(nm b) {$go : Call → St → St × Ret} ($hgo : $goHyp $go) (a1 : Query) (a2 : Server)
            (a3 a4 : Nat) (a5 : Bool) (a6 : Status) ($s : St) ($h : $I $s) : $I (sqAfter $go a1 a2 a3 a4 a5 a6 $s).1 := by
              unfold sqAfter; chan_paths; all_goals ($leaf))
      | "sendQueryBlocks" => `(theorem $(nm b) {$go : Call → St → St × Ret} ($hgo : $goHyp $go) (a1 : Option Nat)
            (a2 : Nat) ($s : St) ($h : $I $s) : $I (sendQueryBlocks $go a1 a2 $s).1 := by
              unfold sendQueryBlocks; chan_paths; all_goals ($leaf))
      | "bodySendQuery" => `(theorem $(nm b) {$go : Call → St → St × Ret} ($hgo : $goHyp $go) (a1 : Option Nat)
            (a2 : Nat) ($s : St) ($h : $I $s) : $I (bodySendQuery $go a1 a2 $s).1 := by
              rw [bodySendQuery_eq]; exact $(nm "sendQueryBlocks") $hgo a1 a2 $s $h)
      | _ =>
        let argIds : Array Ident := (args.map fun a => mkIdent (Name.mkSimple a)).toArray
        `(theorem $(nm b) {$go : Call → St → St × Ret} ($hgo : $goHyp $go) $argIds* ($s : St) ($h : $I $s) :
            $I ($bid $go $argIds* $s).1 := by unfold $bid:ident; chan_paths; all_goals ($leaf))
    cmds := cmds.push c
  -- execBody and exec
  if blocksOnly || noExec then return ⟨mkNullNode cmds⟩
  let alts : Array (TSyntax `Lean.Parser.Tactic.tacticSeq) ←
    (bodies.filter (fun p => p.1.startsWith "body")).toArray.mapM fun (b, _) =>
      `(tacticSeq| apply $(nm b) $hgo; exact $h)
  let c ← `(theorem $(nm "execBody") {$go : Call → St → St × Ret} ($hgo : $goHyp $go) (c : Call) ($s : St)
      ($h : $I $s) : $I (execBody $go c $s).1 := by
        cases c <;> (unfold execBody; dsimp only; first $[| $alts]*))
  cmds := cmds.push c
  let c ← `(theorem $(nm "exec") (fuel : Nat) (c : Call) ($s : St) ($h : $I $s) : $I (exec fuel c $s).1 :=
      exec_induct (P := fun _ s r => $I s → $I r.1) (fun _ s h => $hoof s h)
        (fun _ hgo c s h => $(nm "execBody") hgo c s h) fuel c $s $h)
  cmds := cmds.push c
  return ⟨mkNullNode cmds⟩


open Lean in
macro "chan_invariant " sfx:ident " : " I:term " oofBy " hoof:term " leafBy " leaf:tacticSeq " exceptBodies " ex:ident* : command => do
  mkChanInvariant sfx I (← `(GoInv $I)) hoof leaf ex

open Lean in
macro "chan_invariant_go " sfx:ident " : " I:term " goBy " gh:term " oofBy " hoof:term " leafBy " leaf:tacticSeq " exceptBodies " ex:ident* : command => do
  mkChanInvariant sfx I gh hoof leaf ex

end Cares.Chan
