import CaresLemmas.DnsRfcName
/-!
# Field-by-field agreement of the script interpreter with the RFC format decoder (helper lemmas for C04)
-/
namespace Cares.Dns
open Cares.Generated

theorem shl8_or (a b : Nat) (hb : b < 256) : (a <<< 8) ||| b = a * 256 + b := by
  rw [← Nat.shiftLeft_add_eq_or_of_lt (i := 8) hb, Nat.shiftLeft_eq]

theorem be16At_eq {bs : Bytes} {p : Nat} (h : p + 2 ≤ bs.size) :
    be16At bs p h = bs[p].toNat * 256 + bs[p + 1].toNat := by
  unfold be16At
  exact shl8_or _ _ bs[p + 1].toNat_lt

theorem u16At_eq (bs : Bytes) (p : Nat) :
    Rfc.u16At bs p = if h : p + 2 ≤ bs.size then some (be16At bs p h) else none := by
  unfold Rfc.u16At
  split
  · rw [be16At_eq]
  · rfl

theorem be32At_eq {bs : Bytes} {p : Nat} (h : p + 4 ≤ bs.size) :
    be32At bs p h =
      ((bs[p].toNat * 256 + bs[p + 1].toNat) * 256 + bs[p + 2].toNat) * 256 + bs[p + 3].toNat := by
  unfold be32At
  have h0 := bs[p].toNat_lt
  have h1 := bs[p + 1].toNat_lt
  have h2 := bs[p + 2].toNat_lt
  have h3 := bs[p + 3].toNat_lt
  have e1 : bs[p].toNat <<< 24 = (bs[p].toNat <<< 8) <<< 16 := by rw [← Nat.shiftLeft_add]
  have e2 : bs[p + 1].toNat <<< 16 = (bs[p + 1].toNat) <<< 16 := rfl
  -- assemble from the low end: x<<<24 ||| y<<<16 ||| z<<<8 ||| w
  have s1 : bs[p].toNat <<< 24 ||| bs[p + 1].toNat <<< 16 = (bs[p].toNat * 256 + bs[p + 1].toNat) <<< 16 := by
    rw [e1, ← Nat.shiftLeft_or_distrib, shl8_or _ _ h1]
  have s2 : (bs[p].toNat * 256 + bs[p + 1].toNat) <<< 16 ||| bs[p + 2].toNat <<< 8 =
      ((bs[p].toNat * 256 + bs[p + 1].toNat) * 256 + bs[p + 2].toNat) <<< 8 := by
    have : (bs[p].toNat * 256 + bs[p + 1].toNat) <<< 16 = ((bs[p].toNat * 256 + bs[p + 1].toNat) <<< 8) <<< 8 := by
      rw [← Nat.shiftLeft_add]
    rw [this, ← Nat.shiftLeft_or_distrib, shl8_or _ _ h2]
  rw [s1, s2, shl8_or _ _ h3]

theorem u32At_eq (bs : Bytes) (p : Nat) :
    Rfc.u32At bs p = if h : p + 4 ≤ bs.size then some (be32At bs p h) else none := by
  unfold Rfc.u32At
  split
  · rw [be32At_eq]
  · rfl

theorem byteAt_eq (bs : Bytes) (p : Nat) :
    Rfc.byteAt bs p = if h : p < bs.size then some bs[p].toNat else none := by
  unfold Rfc.byteAt
  split
  · rename_i h; simp [h]
  · rename_i h; simp [h]
end Cares.Dns
