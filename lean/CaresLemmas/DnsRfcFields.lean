import CaresLemmas.DnsRfcName
/-!
# Field-by-field agreement of the script interpreter with the RFC format decoder (helper lemmas for C04)
-/
namespace Cares.Dns
open Cares.Generated

theorem shl8_or (a b : Nat) (hb : b < 256) : (a <<< 8) ||| b = a * 256 + b := by
  rw [← Nat.shiftLeft_add_eq_or_of_lt (i := 8) hb, Nat.shiftLeft_eq]

theorem be16At_eq {bs : Bytes} {p : Nat} (h : p + 2 ≤ bs.size) :
    be16At bs p h = bs[p].toNat * 256 + bs[p + 1].toNat := by
  unfold be16At
  exact shl8_or _ _ bs[p + 1].toNat_lt

theorem u16At_eq (bs : Bytes) (p : Nat) :
    Rfc.u16At bs p = if h : p + 2 ≤ bs.size then some (be16At bs p h) else none := by
  unfold Rfc.u16At
  split
  · rw [be16At_eq]
  · rfl

theorem be32At_eq {bs : Bytes} {p : Nat} (h : p + 4 ≤ bs.size) :
    be32At bs p h =
      ((bs[p].toNat * 256 + bs[p + 1].toNat) * 256 + bs[p + 2].toNat) * 256 + bs[p + 3].toNat := by
  unfold be32At
  have h0 := bs[p].toNat_lt
  have h1 := bs[p + 1].toNat_lt
  have h2 := bs[p + 2].toNat_lt
  have h3 := bs[p + 3].toNat_lt
  have e1 : bs[p].toNat <<< 24 = (bs[p].toNat <<< 8) <<< 16 := by rw [← Nat.shiftLeft_add]
  have e2 : bs[p + 1].toNat <<< 16 = (bs[p + 1].toNat) <<< 16 := rfl
  -- assemble from the low end: x<<<24 ||| y<<<16 ||| z<<<8 ||| w
  have s1 : bs[p].toNat <<< 24 ||| bs[p + 1].toNat <<< 16 = (bs[p].toNat * 256 + bs[p + 1].toNat) <<< 16 := by
    rw [e1, ← Nat.shiftLeft_or_distrib, shl8_or _ _ h1]
  have s2 : (bs[p].toNat * 256 + bs[p + 1].toNat) <<< 16 ||| bs[p + 2].toNat <<< 8 =
      ((bs[p].toNat * 256 + bs[p + 1].toNat) * 256 + bs[p + 2].toNat) <<< 8 := by
    have : (bs[p].toNat * 256 + bs[p + 1].toNat) <<< 16 = ((bs[p].toNat * 256 + bs[p + 1].toNat) <<< 8) <<< 8 := by
      rw [← Nat.shiftLeft_add]
    rw [this, ← Nat.shiftLeft_or_distrib, shl8_or _ _ h2]
  rw [s1, s2, shl8_or _ _ h3]

theorem u32At_eq (bs : Bytes) (p : Nat) :
    Rfc.u32At bs p = if h : p + 4 ≤ bs.size then some (be32At bs p h) else none := by
  unfold Rfc.u32At
  split
  · rw [be32At_eq]
  · rfl

theorem byteAt_eq (bs : Bytes) (p : Nat) :
    Rfc.byteAt bs p = if h : p < bs.size then some bs[p].toNat else none := by
  unfold Rfc.byteAt
  split
  · rename_i h; simp [h]
  · rename_i h; simp [h]
/-- which script kind decodes which RFC field form -/
def compatKind : FieldKind → Rfc.FieldSpec → Bool
  | .be16, .u16 | .be32, .u32 | .u8, .u8 | .name false, .domainName | .addr4, .ipv4 | .addr6, .ipv6
  | .abin false, .charStrings | .binRest, .opaqueRest | .strRest, .textRest | .opts, .tlvRest => true
  | .str blankAllowed, .charString nonEmpty => blankAllowed == !nonEmpty
  | _, _ => false

/-- the RDATA window of an RR whose RDATA starts at `rdStart` -/
structure Win (bs : Bytes) (rdStart rdlength : Nat) : Prop where
  fits : rdStart + rdlength ≤ bs.size

section window
variable {bs : Bytes} {rdStart rdlength : Nat}

theorem rrRemainingLen_eq (w : Win bs rdStart rdlength) {p : Nat} (h1 : rdStart ≤ p) (h2 : p ≤ bs.size) :
    rrRemainingLen bs (bs.size - rdStart) rdlength p = .ok (rdStart + rdlength - p) p := by
  have := w.fits
  unfold rrRemainingLen
  rw [P.bind_ok (bufLen_eq h2)]
  have hs : subChecked (bs.size - rdStart) (bs.size - p) p = .ok (bs.size - rdStart - (bs.size - p)) p := by
    simp [subChecked]; omega
  rw [P.bind_ok hs]
  by_cases hc : bs.size - rdStart - (bs.size - p) ≥ rdlength
  · rw [if_pos hc]; simp only [P.pure_apply]; congr 1; omega
  · rw [if_neg hc]; simp only [P.pure_apply]; congr 1; omega

theorem printable_eq (b : BStr) : Rfc.printable b = b.all fun c => isPrint c.toNat := by
  unfold Rfc.printable
  congr 1
  funext c
  have : ∀ n, n < 256 → (decide (32 ≤ n) && decide (n ≤ 126)) = isPrint n := by decide +kernel
  exact this c.toNat c.toNat_lt

/-- closed form of `ares_buf_parse_dns_str` (printable validation on) -/
theorem parseDnsStr_eq {p rem : Nat} (h : p ≤ bs.size) :
    parseDnsBinstr bs rem true p =
      if rem = 0 then .err .ebadresp
      else if hp : p < bs.size then
        (if bs[p].toNat > rem - 1 then .err .ebadresp
         else if p + 1 + bs[p].toNat ≤ bs.size then
           (if Rfc.printable (slice bs (p + 1) bs[p].toNat) then
              .ok (slice bs (p + 1) bs[p].toNat) (p + 1 + bs[p].toNat)
            else .err .ebadstr)
         else .err .ebadresp)
      else .err .ebadresp := by
  unfold parseDnsBinstr
  by_cases hr : rem = 0
  · rw [if_pos hr, if_pos hr]; rfl
  · rw [if_neg hr, if_neg hr]
    by_cases hp : p < bs.size
    · rw [dif_pos hp]
      have hf : fetchByte bs p = .ok bs[p] (p + 1) := by rw [fetchByte_eq h, dif_pos hp]
      rw [P.bind_ok hf]
      by_cases hl : bs[p].toNat > rem - 1
      · rw [if_pos hl, if_pos hl]; rfl
      · rw [if_neg hl, if_neg hl]
        by_cases hz : bs[p].toNat ≠ 0
        · rw [if_pos hz, P.bind_ok (bufLen_eq (by omega))]
          by_cases hfit : p + 1 + bs[p].toNat ≤ bs.size
          · rw [if_pos hfit, if_pos ⟨rfl, by omega⟩, P.bind_ok (rawSlice_eq hfit), printable_eq]
            by_cases hpr : (slice bs (p + 1) bs[p].toNat).all (fun c => isPrint c.toNat) = true
            · rw [if_pos hpr, if_neg (by simp [hpr]), fetchBytes_eq (by omega), if_pos ⟨hz, hfit⟩]
            · rw [if_neg hpr, if_pos (by simpa using hpr)]; rfl
          · rw [if_neg hfit, if_neg (by omega), fetchBytes_eq (by omega), if_neg (by omega)]
        · have hz' : bs[p].toNat = 0 := by omega
          rw [if_neg hz, if_pos (by omega)]
          simp only [hz', P.pure_apply, Nat.add_zero]
          have : slice bs (p + 1) 0 = [] := by simp [slice]
          rw [this]
          simp [Rfc.printable]
    · rw [dif_neg hp]
      have hf : fetchByte bs p = .err .ebadresp := by rw [fetchByte_eq h, dif_neg hp]
      rw [P.bind_err hf]
theorem slice_zero (bs : Bytes) (p : Nat) : slice bs p 0 = [] := by simp [slice]

/-- closed form of one option triple -/
theorem optStep_eq {p : Nat} (h : p ≤ bs.size) :
    optStep bs p =
      if h4 : p + 4 ≤ bs.size then
        (if p + 4 + be16At bs (p + 2) (by omega) ≤ bs.size then
           .ok (be16At bs p (by omega), slice bs (p + 4) (be16At bs (p + 2) (by omega)))
             (p + 4 + be16At bs (p + 2) (by omega))
         else .err .ebadresp)
      else .err .ebadresp := by
  unfold optStep
  by_cases h4 : p + 4 ≤ bs.size
  · rw [dif_pos h4]
    have f1 : fetchBe16 bs p = .ok (be16At bs p (by omega)) (p + 2) := by
      rw [fetchBe16_eq h, dif_pos (by omega)]
    have f2 : fetchBe16 bs (p + 2) = .ok (be16At bs (p + 2) (by omega)) (p + 2 + 2) := by
      rw [fetchBe16_eq (by omega), dif_pos (by omega)]
    rw [P.bind_ok f1, P.bind_ok f2]
    by_cases hz : be16At bs (p + 2) (by omega) ≠ 0
    · rw [if_pos hz]
      by_cases hfit : p + 4 + be16At bs (p + 2) (by omega) ≤ bs.size
      · rw [if_pos hfit]
        have f3 : fetchBytes bs (be16At bs (p + 2) (by omega)) (p + 2 + 2) =
            .ok (slice bs (p + 4) (be16At bs (p + 2) (by omega))) (p + 4 + be16At bs (p + 2) (by omega)) := by
          rw [fetchBytes_eq (by omega), if_pos ⟨hz, by omega⟩]
        rw [P.bind_ok f3]; rfl
      · rw [if_neg hfit]
        have f3 : fetchBytes bs (be16At bs (p + 2) (by omega)) (p + 2 + 2) = .err .ebadresp := by
          rw [fetchBytes_eq (by omega), if_neg (by omega)]
        rw [P.bind_err f3]
    · have hz' : be16At bs (p + 2) (by omega) = 0 := by omega
      rw [if_neg hz, if_pos (by omega)]
      simp only [hz', P.pure_apply, Nat.add_zero, slice_zero]
  · rw [dif_neg h4]
    by_cases h2 : p + 2 ≤ bs.size
    · have f1 : fetchBe16 bs p = .ok (be16At bs p h2) (p + 2) := by rw [fetchBe16_eq h, dif_pos h2]
      have f2 : fetchBe16 bs (p + 2) = .err .ebadresp := by rw [fetchBe16_eq (by omega), dif_neg (by omega)]
      rw [P.bind_ok f1, P.bind_err f2]
    · have f1 : fetchBe16 bs p = .err .ebadresp := by rw [fetchBe16_eq h, dif_neg h2]
      rw [P.bind_err f1]

def optFold (acc : List (Nat × BStr)) (tl : List (Nat × BStr)) : List (Nat × BStr) :=
  tl.foldl (fun a kv => setOpt a kv.1 kv.2) acc

/-- option loop → declarative TLV list (soundness direction) -/
theorem optLoop_sound (w : Win bs rdStart rdlength) (acc : List (Nat × BStr)) (p : Nat)
    (h1 : rdStart ≤ p) (h2 : p ≤ bs.size) {l : List (Nat × BStr)} {p' : Nat}
    (hr : optLoop bs (bs.size - rdStart) rdlength acc p = .ok l p') (hp' : p' ≤ rdStart + rdlength) :
    ∃ tl, Rfc.tlvs bs (rdStart + rdlength) p = some tl ∧ l = optFold acc tl ∧ p' = rdStart + rdlength := by
  fun_induction optLoop bs (bs.size - rdStart) rdlength acc p
  all_goals (try (simp at hr; done))
  case case5 acc p rem x hrem hne o p1 hstep ih =>
    rw [rrRemainingLen_eq w h1 h2] at hrem
    injection hrem with hrem _
    have hso := optStep_ok hstep
    obtain ⟨tl', ht, hl, he⟩ := ih (by omega) (by omega) hr
    have hmono : p1 ≤ p' := by
      have := safe_optLoop bs (bs.size - rdStart) rdlength (setOpt acc o.1 o.2) p1 (by omega) (by omega)
      rw [hr] at this
      exact this.1
    rw [optStep_eq h2] at hstep
    split at hstep
    · rename_i h4
      split at hstep
      · rename_i hfit
        injection hstep with ho hp1
        subst ho; subst hp1
        refine ⟨(be16At bs p (by omega), slice bs (p + 4) (be16At bs (p + 2) h4)) :: tl', ?_, ?_, he⟩
        · rw [Rfc.tlvs]
          have hpe : ¬ p = rdStart + rdlength := by omega
          have w' := w.fits
          rw [if_neg hpe, dif_pos ⟨by omega, by omega⟩]
          simp only [← be16At_eq (bs := bs) (p := p) (by omega)]
          have e2 : bs[p + 2].toNat * 256 + bs[p + 3].toNat = be16At bs (p + 2) (by omega) := by
            rw [be16At_eq]
          simp only [e2]
          rw [if_pos (by omega), ht]
        · rw [hl]; rfl
      · simp at hstep
    · simp at hstep
  case case6 acc p rem x hrem hz =>
    rw [rrRemainingLen_eq w h1 h2] at hrem
    injection hrem with hrem _
    injection hr with hl hp
    subst hl; subst hp
    have : p = rdStart + rdlength := by omega
    refine ⟨[], ?_, rfl, this⟩
    rw [Rfc.tlvs, if_pos this]

/-- declarative TLV list → option loop (completeness direction) -/
theorem optLoop_complete (w : Win bs rdStart rdlength) (e : Nat) (he : e = rdStart + rdlength) (p : Nat) :
    rdStart ≤ p → ∀ (acc : List (Nat × BStr)) {tl : List (Nat × BStr)}, Rfc.tlvs bs e p = some tl →
      optLoop bs (bs.size - rdStart) rdlength acc p = .ok (optFold acc tl) e := by
  have w' := w.fits
  fun_induction Rfc.tlvs bs e p
  all_goals intro h1 acc tl ht
  all_goals (try (simp at ht; done))
  case case1 =>
    injection ht with ht; subst ht
    rw [optLoop, rrRemainingLen_eq w h1 (by omega)]
    simp [he, optFold]
  case case2 p hpe h4 code len hfit l hrec ih =>
    injection ht with ht; subst ht
    have hcode : code = be16At bs p (by omega) := by rw [be16At_eq]
    have hlen : len = be16At bs (p + 2) (by omega) := by rw [be16At_eq]
    rw [optLoop, rrRemainingLen_eq w h1 (by omega)]
    simp only
    rw [if_pos (by omega)]
    have hstep : optStep bs p = .ok (code, slice bs (p + 4) len) (p + 4 + len) := by
      rw [optStep_eq (by omega), dif_pos (by omega), if_pos (by rw [← hlen]; omega), ← hcode, ← hlen]
    split
    · rename_i e' he'; rw [hstep] at he'; simp at he'
    · rename_i e' he'; rw [hstep] at he'; simp at he'
    · rename_i o p1 he'
      rw [hstep] at he'
      injection he' with ho hp1
      subst ho; subst hp1
      rw [ih (by omega) _ hrec]
      rfl
/-- closed form of one `<character-string>` of the TXT loop (no printable validation) -/
theorem multistringStep_eq {p : Nat} (h : p ≤ bs.size) :
    multistringStep bs false p =
      if hp : p < bs.size then
        (if p + 1 + bs[p].toNat ≤ bs.size then .ok (slice bs (p + 1) bs[p].toNat) (p + 1 + bs[p].toNat)
         else .err .ebadresp)
      else .err .ebadresp := by
  unfold multistringStep
  by_cases hp : p < bs.size
  · rw [dif_pos hp]
    have hf : fetchByte bs p = .ok bs[p] (p + 1) := by rw [fetchByte_eq h, dif_pos hp]
    rw [P.bind_ok hf, P.bind_ok (bufLen_eq (by omega))]
    rw [if_neg (by simp)]
    by_cases hz : bs[p].toNat ≠ 0
    · rw [if_pos hz, fetchBytes_eq (by omega)]
      by_cases hfit : p + 1 + bs[p].toNat ≤ bs.size
      · rw [if_pos hfit, if_pos ⟨hz, hfit⟩]
      · rw [if_neg hfit, if_neg (by omega)]
    · have hz' : bs[p].toNat = 0 := by omega
      rw [if_neg hz, if_pos (by omega)]
      simp only [hz', P.pure_apply, Nat.add_zero, slice_zero]
  · rw [dif_neg hp]
    have hf : fetchByte bs p = .err .ebadresp := by rw [fetchByte_eq h, dif_neg hp]
    rw [P.bind_err hf]

/-- TXT loop started at `p0` with `remaining_len = n` → strings tiling `[p, p0 + n)` -/
theorem multistringLoop_sound (p0 n : Nat) (hw : p0 + n ≤ bs.size) (acc : List BStr) (ran : Bool) (p : Nat)
    (h1 : p0 ≤ p) (h2 : p ≤ bs.size) {l : List BStr} {p' : Nat}
    (hr : multistringLoop bs (bs.size - p0) n false acc ran p = .ok l p') (hp' : p' ≤ p0 + n) :
    ∃ sl, Rfc.charStrings bs (p0 + n) p = some sl ∧ l = acc ++ sl ∧ p' = p0 + n ∧ (ran = true ∨ sl ≠ []) := by
  fun_induction multistringLoop bs (bs.size - p0) n false acc ran p
  all_goals (try (simp at hr; done))
  case case5 acc ran p used x hused hlt s p1 hstep ih =>
    rw [bufLen_sub_eq h2 (by omega)] at hused
    injection hused with hused _
    have hso := multistringStep_ok hstep
    obtain ⟨sl', ht, hl, he, _⟩ := ih (by omega) (by omega) hr
    have hmono : p1 ≤ p' := by
      have := safe_multistringLoop bs (bs.size - p0) n false (acc ++ [s]) true p1 (by omega) (by omega)
      rw [hr] at this
      exact this.1
    rw [multistringStep_eq h2] at hstep
    split at hstep
    · rename_i hp
      split at hstep
      · rename_i hfit
        injection hstep with hs hp1
        subst hs; subst hp1
        refine ⟨slice bs (p + 1) bs[p].toNat :: sl', ?_, by rw [hl]; simp, he, Or.inr (by simp)⟩
        rw [Rfc.charStrings, dif_pos ⟨by omega, hp⟩]
        simp only
        rw [if_pos (by omega), ht]
      · simp at hstep
    · simp at hstep
  case case6 acc p used x hused hge =>
    rw [bufLen_sub_eq h2 (by omega)] at hused
    injection hused with hused _
    injection hr with hl hp
    subst hl; subst hp
    have : p = p0 + n := by omega
    refine ⟨[], ?_, by simp, this, Or.inl rfl⟩
    rw [Rfc.charStrings, dif_neg (by omega), if_pos this]

theorem multistringLoop_complete (p0 n : Nat) (hw : p0 + n ≤ bs.size) (e : Nat) (he : e = p0 + n) (p : Nat) :
    p0 ≤ p → ∀ (acc : List BStr) (ran : Bool) {sl : List BStr}, Rfc.charStrings bs e p = some sl →
      (ran = true ∨ sl ≠ []) →
      multistringLoop bs (bs.size - p0) n false acc ran p = .ok (acc ++ sl) e := by
  fun_induction Rfc.charStrings bs e p
  all_goals intro h1 acc ran sl ht hran
  all_goals (try (simp at ht; done))
  case case1 p hp len hfit l hrec ih =>
    injection ht with ht; subst ht
    rw [multistringLoop, bufLen_sub_eq (by omega) (by omega)]
    simp only
    rw [if_pos (by omega)]
    have hstep : multistringStep bs false p = .ok (slice bs (p + 1) len) (p + 1 + len) := by
      rw [multistringStep_eq (by omega), dif_pos hp.2, if_pos (by omega)]
    split
    · rename_i e' he'; rw [hstep] at he'; simp at he'
    · rename_i e' he'; rw [hstep] at he'; simp at he'
    · rename_i s p1 he'
      rw [hstep] at he'
      injection he' with hs hp1
      subst hs; subst hp1
      rw [ih (by omega) _ true hrec (Or.inl rfl)]
      simp
  case case4 hp =>
    injection ht with ht; subst ht
    have hr : ran = true := by simpa using hran
    rw [multistringLoop, bufLen_sub_eq (by omega) (by omega)]
    simp only
    rw [if_neg (by omega), hr]
    simp
def isAbin : FieldKind → Bool
  | .abin _ => true
  | _ => false

theorem parseField_sound (w : Win bs rdStart rdlength) {kind : FieldKind} {spec : Rfc.FieldSpec}
    (hk : compatKind kind spec = true) {p : Nat} (h1 : rdStart ≤ p) (h2 : p ≤ bs.size)
    (habin : isAbin kind = true → p = rdStart) {v : Val} {p' : Nat}
    (hr : parseField bs (bs.size - rdStart) rdlength kind p = .ok v p') (hp' : p' ≤ rdStart + rdlength) :
    ∃ fv, Rfc.decodeField bs (rdStart + rdlength) spec p = some (fv, p') ∧ Rfc.toVal spec fv = some v ∧
      Rfc.fieldSupported spec fv = true := by
  have wf := w.fits
  cases kind <;> cases spec <;> simp only [compatKind] at hk <;> (try (exact absurd hk (by decide)))
  case be16.u16 =>
    obtain ⟨a, o1, g1, g2⟩ := P.bind_eq_ok hr
    simp only [P.pure_apply] at g2
    injection g2 with g2 g3; subst g2; subst g3
    rw [fetchBe16_eq h2] at g1
    split at g1
    · rename_i hfit
      injection g1 with g1 g3; subst g1; subst g3
      refine ⟨.num (be16At bs p hfit), ?_, rfl, rfl⟩
      simp only [Rfc.decodeField]
      rw [if_pos hp', u16At_eq, dif_pos hfit]; rfl
    · simp at g1
  case be32.u32 =>
    obtain ⟨a, o1, g1, g2⟩ := P.bind_eq_ok hr
    simp only [P.pure_apply] at g2
    injection g2 with g2 g3; subst g2; subst g3
    rw [fetchBe32_eq h2] at g1
    split at g1
    · rename_i hfit
      injection g1 with g1 g3; subst g1; subst g3
      refine ⟨.num (be32At bs p hfit), ?_, rfl, rfl⟩
      simp only [Rfc.decodeField]
      rw [if_pos hp', u32At_eq, dif_pos hfit]; rfl
    · simp at g1
  case u8.u8 =>
    obtain ⟨a, o1, g1, g2⟩ := P.bind_eq_ok hr
    simp only [P.pure_apply] at g2
    injection g2 with g2 g3; subst g2; subst g3
    rw [fetchByte_eq h2] at g1
    split at g1
    · rename_i hfit
      injection g1 with g1 g3; subst g1; subst g3
      refine ⟨.num bs[p].toNat, ?_, rfl, rfl⟩
      simp only [Rfc.decodeField]
      rw [if_pos hp', byteAt_eq, dif_pos hfit]; rfl
    · simp at g1
  case name.domainName isHost =>
    cases isHost
    · obtain ⟨a, o1, g1, g2⟩ := P.bind_eq_ok hr
      simp only [P.pure_apply] at g2
      injection g2 with g2 g3; subst g2; subst g3
      rw [parseName_eq_rfc bs p h2] at g1
      cases hn : Rfc.name bs p with
      | none => rw [hn] at g1; simp at g1
      | some r =>
        obtain ⟨ls, next⟩ := r
        rw [hn] at g1
        injection g1 with g1 g3; subst g1; subst g3
        refine ⟨.name ls, ?_, rfl, rfl⟩
        simp only [Rfc.decodeField, hn]
        rw [if_pos hp']
    · simp at hk
  case str.charString blank ne =>
    obtain ⟨rem, o1, g1, g2⟩ := P.bind_eq_ok hr
    rw [rrRemainingLen_eq w h1 h2] at g1
    injection g1 with g1 g3; subst g1; subst g3
    obtain ⟨s, o2, g3, g4⟩ := P.bind_eq_ok g2
    rw [parseDnsStr_eq h2] at g3
    split at g3
    · simp at g3
    · rename_i hrem
      split at g3
      · rename_i hp
        split at g3
        · simp at g3
        · rename_i hlen
          split at g3
          · rename_i hfit
            split at g3
            · rename_i hpr
              injection g3 with g3 g5; subst g3; subst g5
              split at g4
              · simp at g4
              · rename_i hblank
                simp only [P.pure_apply] at g4
                injection g4 with g4 g5; subst g4; subst g5
                refine ⟨.bytes (slice bs (p + 1) bs[p].toNat), ?_, rfl, hpr⟩
                simp only [Rfc.decodeField]
                rw [if_pos (by omega), byteAt_eq, dif_pos hp]
                simp only
                have hne : (ne = true → bs[p].toNat ≠ 0) := by
                  intro hne h0
                  apply hblank
                  have hb : blank = false := by cases blank <;> simp_all
                  refine ⟨by simp [hb], ?_⟩
                  rw [slice_length hfit]; exact h0
                rw [if_pos ⟨by omega, hne⟩]
            · simp at g3
          · simp at g3
      · simp at g3
  case addr4.ipv4 =>
    obtain ⟨a, o1, g1, g2⟩ := P.bind_eq_ok hr
    simp only [P.pure_apply] at g2
    injection g2 with g2 g3; subst g2; subst g3
    rw [fetchBytes_eq h2] at g1
    split at g1
    · injection g1 with g1 g3; subst g1; subst g3
      refine ⟨.bytes (slice bs p 4), ?_, rfl, rfl⟩
      simp only [Rfc.decodeField]
      rw [if_pos hp']
    · simp at g1
  case addr6.ipv6 =>
    obtain ⟨a, o1, g1, g2⟩ := P.bind_eq_ok hr
    simp only [P.pure_apply] at g2
    injection g2 with g2 g3; subst g2; subst g3
    rw [fetchBytes_eq h2] at g1
    split at g1
    · injection g1 with g1 g3; subst g1; subst g3
      refine ⟨.bytes (slice bs p 16), ?_, rfl, rfl⟩
      simp only [Rfc.decodeField]
      rw [if_pos hp']
    · simp at g1
  case abin.charStrings vp =>
    cases vp
    · have hp0 : p = rdStart := habin rfl
      subst hp0
      obtain ⟨l, o1, g1, g2⟩ := P.bind_eq_ok hr
      simp only [P.pure_apply] at g2
      injection g2 with g2 g3; subst g2; subst g3
      unfold parseMultistring at g1
      rw [P.bind_ok (bufLen_eq h2)] at g1
      split at g1
      · simp at g1
      · obtain ⟨sl, hs, hl, he, hne⟩ := multistringLoop_sound p rdlength wf [] false p (Nat.le_refl _) h2 g1 hp'
        simp only [List.nil_append] at hl
        subst hl; subst he
        have hne' : l ≠ [] := by simpa using hne
        refine ⟨.strs l, ?_, rfl, rfl⟩
        cases l with
        | nil => exact (hne' rfl).elim
        | cons a t => simp only [Rfc.decodeField, hs]
    · simp at hk
  case binRest.opaqueRest =>
    obtain ⟨len, o1, g1, g2⟩ := P.bind_eq_ok hr
    rw [rrRemainingLen_eq w h1 h2] at g1
    injection g1 with g1 g3; subst g1; subst g3
    split at g2
    · simp at g2
    · rename_i hlen
      obtain ⟨b, o2, g3, g4⟩ := P.bind_eq_ok g2
      simp only [P.pure_apply] at g4
      injection g4 with g4 g5; subst g4; subst g5
      rw [fetchBytes_eq h2] at g3
      split at g3
      · injection g3 with g3 g5; subst g3; subst g5
        refine ⟨.bytes (slice bs p (rdStart + rdlength - p)), ?_, rfl, ?_⟩
        · simp only [Rfc.decodeField]
          rw [if_pos (by omega)]
          congr 2
          omega
        · simp only [Rfc.fieldSupported]
          rw [slice_length (by omega)]
          simpa using hlen
      · simp at g3
  case strRest.textRest =>
    obtain ⟨len, o1, g1, g2⟩ := P.bind_eq_ok hr
    rw [rrRemainingLen_eq w h1 h2] at g1
    injection g1 with g1 g3; subst g1; subst g3
    split at g2
    · simp at g2
    · rename_i hlen
      obtain ⟨s, o2, g3, g4⟩ := P.bind_eq_ok g2
      simp only [P.pure_apply] at g4
      injection g4 with g4 g5; subst g4; subst g5
      unfold fetchStrDup at g3
      rw [P.bind_ok (bufLen_eq h2)] at g3
      split at g3
      · simp at g3
      · rename_i hc
        rw [P.bind_ok (rawSlice_eq (by omega))] at g3
        split at g3
        · simp at g3
        · rename_i hpr
          rw [P.bind_ok (by rw [consume_eq h2, if_pos (by omega)])] at g3
          simp only [P.pure_apply] at g3
          injection g3 with g3 g5; subst g3; subst g5
          refine ⟨.bytes (slice bs p (rdStart + rdlength - p)), ?_, rfl, ?_⟩
          · simp only [Rfc.decodeField]
            rw [if_pos (by omega)]
            congr 2
            omega
          · simp only [Rfc.fieldSupported, printable_eq]
            simpa using hpr
  case opts.tlvRest =>
    obtain ⟨l, o1, g1, g2⟩ := P.bind_eq_ok hr
    simp only [P.pure_apply] at g2
    injection g2 with g2 g3; subst g2; subst g3
    obtain ⟨tl, ht, hl, he⟩ := optLoop_sound w [] p h1 h2 g1 hp'
    subst hl; subst he
    refine ⟨.tlvs tl, ?_, rfl, rfl⟩
    simp only [Rfc.decodeField, ht, Option.map_some]
theorem parseField_complete (w : Win bs rdStart rdlength) {kind : FieldKind} {spec : Rfc.FieldSpec}
    (hk : compatKind kind spec = true) {p : Nat} (h1 : rdStart ≤ p) (h2 : p ≤ bs.size)
    (habin : isAbin kind = true → p = rdStart) {fv : Rfc.FieldVal} {p' : Nat}
    (hd : Rfc.decodeField bs (rdStart + rdlength) spec p = some (fv, p'))
    (hs : Rfc.fieldSupported spec fv = true) :
    ∃ v, parseField bs (bs.size - rdStart) rdlength kind p = .ok v p' ∧ Rfc.toVal spec fv = some v := by
  have wf := w.fits
  cases kind <;> cases spec <;> simp only [compatKind] at hk <;> (try (exact absurd hk (by decide)))
  case be16.u16 =>
    simp only [Rfc.decodeField] at hd
    split at hd
    · rename_i hfit
      rw [u16At_eq, dif_pos (by omega)] at hd
      simp only [Option.map_some, Option.some.injEq, Prod.mk.injEq] at hd
      obtain ⟨rfl, rfl⟩ := hd
      refine ⟨.u16 (be16At bs p (by omega)), ?_, rfl⟩
      show (fetchBe16 bs >>= fun v => pure (Val.u16 v)) p = _
      rw [P.bind_ok (by rw [fetchBe16_eq h2, dif_pos (by omega)])]; rfl
    · simp at hd
  case be32.u32 =>
    simp only [Rfc.decodeField] at hd
    split at hd
    · rename_i hfit
      rw [u32At_eq, dif_pos (by omega)] at hd
      simp only [Option.map_some, Option.some.injEq, Prod.mk.injEq] at hd
      obtain ⟨rfl, rfl⟩ := hd
      refine ⟨.u32 (be32At bs p (by omega)), ?_, rfl⟩
      show (fetchBe32 bs >>= fun v => pure (Val.u32 v)) p = _
      rw [P.bind_ok (by rw [fetchBe32_eq h2, dif_pos (by omega)])]; rfl
    · simp at hd
  case u8.u8 =>
    simp only [Rfc.decodeField] at hd
    split at hd
    · rename_i hfit
      rw [byteAt_eq, dif_pos (by omega)] at hd
      simp only [Option.map_some, Option.some.injEq, Prod.mk.injEq] at hd
      obtain ⟨rfl, rfl⟩ := hd
      refine ⟨.u8 bs[p].toNat, ?_, rfl⟩
      show (fetchByte bs >>= fun v => pure (Val.u8 v.toNat)) p = _
      rw [P.bind_ok (by rw [fetchByte_eq h2, dif_pos (by omega)])]; rfl
    · simp at hd
  case name.domainName isHost =>
    cases isHost
    · simp only [Rfc.decodeField] at hd
      cases hn : Rfc.name bs p with
      | none => rw [hn] at hd; simp at hd
      | some r =>
        obtain ⟨ls, next⟩ := r
        rw [hn] at hd
        simp only at hd
        split at hd
        · simp only [Option.some.injEq, Prod.mk.injEq] at hd
          obtain ⟨rfl, rfl⟩ := hd
          refine ⟨.name (some (escapeName ls)), ?_, rfl⟩
          show (parseName bs false >>= fun n => pure (Val.name (some n))) p = _
          rw [P.bind_ok (by rw [parseName_eq_rfc bs p h2, hn])]; rfl
        · simp at hd
    · simp at hk
  case str.charString blank ne =>
    simp only [Rfc.decodeField] at hd
    split at hd
    · rename_i hp1
      rw [byteAt_eq, dif_pos (by omega)] at hd
      simp only at hd
      split at hd
      · rename_i hfit
        simp only [Option.some.injEq, Prod.mk.injEq] at hd
        obtain ⟨rfl, rfl⟩ := hd
        simp only [Rfc.fieldSupported] at hs
        refine ⟨.str (some (slice bs (p + 1) bs[p].toNat)), ?_, rfl⟩
        show (rrRemainingLen bs (bs.size - rdStart) rdlength >>= fun rem => do
            let s ← parseDnsBinstr bs rem true
            if !blank ∧ s.length = 0 then P.fail .ebadresp else pure (Val.str (some s))) p = _
        rw [P.bind_ok (rrRemainingLen_eq w h1 h2)]
        have hstr : parseDnsBinstr bs (rdStart + rdlength - p) true p =
            .ok (slice bs (p + 1) bs[p].toNat) (p + 1 + bs[p].toNat) := by
          rw [parseDnsStr_eq h2, if_neg (by omega), dif_pos (by omega), if_neg (by omega), if_pos (by omega),
            if_pos hs]
        rw [P.bind_ok hstr]
        have hb : ¬ ((!blank) = true ∧ (slice bs (p + 1) bs[p].toNat).length = 0) := by
          intro ⟨hb1, hb2⟩
          rw [slice_length (by omega)] at hb2
          have hne : ne = true := by cases blank <;> cases ne <;> simp_all
          exact hfit.2 hne hb2
        rw [if_neg hb]; rfl
      · simp at hd
    · simp at hd
  case addr4.ipv4 =>
    simp only [Rfc.decodeField] at hd
    split at hd
    · simp only [Option.some.injEq, Prod.mk.injEq] at hd
      obtain ⟨rfl, rfl⟩ := hd
      refine ⟨.addr (slice bs p 4), ?_, rfl⟩
      show (fetchBytes bs 4 >>= fun b => pure (Val.addr b)) p = _
      rw [P.bind_ok (by rw [fetchBytes_eq h2, if_pos ⟨by decide, by omega⟩])]; rfl
    · simp at hd
  case addr6.ipv6 =>
    simp only [Rfc.decodeField] at hd
    split at hd
    · simp only [Option.some.injEq, Prod.mk.injEq] at hd
      obtain ⟨rfl, rfl⟩ := hd
      refine ⟨.addr6 (slice bs p 16), ?_, rfl⟩
      show (fetchBytes bs 16 >>= fun b => pure (Val.addr6 b)) p = _
      rw [P.bind_ok (by rw [fetchBytes_eq h2, if_pos ⟨by decide, by omega⟩])]; rfl
    · simp at hd
  case abin.charStrings vp =>
    cases vp
    · have hp0 : p = rdStart := habin rfl
      subst hp0
      simp only [Rfc.decodeField] at hd
      cases hc : Rfc.charStrings bs (p + rdlength) p with
      | none => rw [hc] at hd; simp at hd
      | some sl =>
        rw [hc] at hd
        cases sl with
        | nil => simp at hd
        | cons a t =>
          simp only [Option.some.injEq, Prod.mk.injEq] at hd
          obtain ⟨rfl, rfl⟩ := hd
          refine ⟨.abin (a :: t), ?_, rfl⟩
          show (parseMultistring bs rdlength false >>= fun l => pure (Val.abin l)) p = _
          have hm : parseMultistring bs rdlength false p = .ok (a :: t) (p + rdlength) := by
            unfold parseMultistring
            rw [P.bind_ok (bufLen_eq h2)]
            have hrd : rdlength ≠ 0 := by
              intro h0
              rw [h0, Rfc.charStrings, dif_neg (by omega), if_pos (by omega)] at hc
              simp at hc
            rw [if_neg hrd]
            have := multistringLoop_complete p rdlength wf (p + rdlength) rfl p (Nat.le_refl _) [] false hc
              (Or.inr (by simp))
            simpa using this
          rw [P.bind_ok hm]; rfl
    · simp at hk
  case binRest.opaqueRest =>
    simp only [Rfc.decodeField] at hd
    split at hd
    · rename_i hpe
      simp only [Option.some.injEq, Prod.mk.injEq] at hd
      obtain ⟨rfl, rfl⟩ := hd
      simp only [Rfc.fieldSupported] at hs
      rw [slice_length (by omega)] at hs
      have hlen : rdStart + rdlength - p ≠ 0 := by simpa using hs
      refine ⟨.bin (some (slice bs p (rdStart + rdlength - p))), ?_, rfl⟩
      show (rrRemainingLen bs (bs.size - rdStart) rdlength >>= fun len =>
          if len = 0 then P.fail .ebadresp else do
            let b ← fetchBytes bs len
            pure (Val.bin (some b))) p = _
      rw [P.bind_ok (rrRemainingLen_eq w h1 h2), if_neg hlen,
        P.bind_ok (by rw [fetchBytes_eq h2, if_pos ⟨hlen, by omega⟩])]
      simp only [P.pure_apply]
      congr 1; omega
    · simp at hd
  case strRest.textRest =>
    simp only [Rfc.decodeField] at hd
    split at hd
    · rename_i hpe
      simp only [Option.some.injEq, Prod.mk.injEq] at hd
      obtain ⟨rfl, rfl⟩ := hd
      simp only [Rfc.fieldSupported, printable_eq] at hs
      have hlen : rdStart + rdlength - p ≠ 0 := by omega
      refine ⟨.name (some (slice bs p (rdStart + rdlength - p))), ?_, rfl⟩
      show (rrRemainingLen bs (bs.size - rdStart) rdlength >>= fun len =>
          if len = 0 then P.fail .ebadresp else do
            let s ← fetchStrDup bs len
            pure (Val.name (some s))) p = _
      rw [P.bind_ok (rrRemainingLen_eq w h1 h2), if_neg hlen]
      have hf : fetchStrDup bs (rdStart + rdlength - p) p =
          .ok (slice bs p (rdStart + rdlength - p)) (p + (rdStart + rdlength - p)) := by
        unfold fetchStrDup
        rw [P.bind_ok (bufLen_eq h2), if_neg (by omega), P.bind_ok (rawSlice_eq (by omega)),
          if_neg (by simp [hs]), P.bind_ok (by rw [consume_eq h2, if_pos (by omega)])]
        rfl
      rw [P.bind_ok hf]
      simp only [P.pure_apply]
      congr 1; omega
    · simp at hd
  case opts.tlvRest =>
    simp only [Rfc.decodeField] at hd
    cases ht : Rfc.tlvs bs (rdStart + rdlength) p with
    | none => rw [ht] at hd; simp at hd
    | some tl =>
      rw [ht] at hd
      simp only [Option.map_some, Option.some.injEq, Prod.mk.injEq] at hd
      obtain ⟨rfl, rfl⟩ := hd
      refine ⟨.opt (optFold [] tl), ?_, rfl⟩
      show (((optLoop bs (bs.size - rdStart) rdlength [] : P (List (Nat × BStr))) >>= fun l => pure (Val.opt l)) : P Val) p = _
      rw [P.bind_ok (optLoop_complete w _ rfl p h1 [] ht)]; rfl
end window

def compatScript : Script → List Rfc.FieldSpec → Bool
  | [], [] => true
  | kk :: rest, s :: ss => compatKind kk.1 s && compatScript rest ss
  | _, _ => false

def noAbin (script : Script) : Bool := script.all fun kk => !isAbin kk.1

/-- the string-array kind measures its window from where it starts, so it must come first (TXT) -/
def abinOk (script : Script) : Bool :=
  noAbin script || (match script with
    | [(.abin false, _)] => true
    | _ => false)

section window
variable {bs : Bytes} {rdStart rdlength : Nat}

theorem parseFields_sound (w : Win bs rdStart rdlength) :
    ∀ (script : Script) (specs : List Rfc.FieldSpec), compatScript script specs = true →
    ∀ {p : Nat}, rdStart ≤ p → p ≤ bs.size → (noAbin script = true ∨ (p = rdStart ∧ abinOk script = true)) →
    ∀ {fs : List (Nat × Val)} {p' : Nat}, parseFields bs (bs.size - rdStart) rdlength script p = .ok fs p' →
      p' ≤ rdStart + rdlength →
      ∃ vals, Rfc.decodeFields bs (rdStart + rdlength) specs p = some vals ∧
        Rfc.toVals specs vals = some (fs.map (·.2)) ∧ Rfc.fieldsSupported specs vals = true ∧
        fs.map (·.1) = script.map (·.2) := by
  intro script
  induction script with
  | nil =>
    intro specs hc p h1 h2 _ fs p' hr hp'
    cases specs with
    | nil =>
      simp only [parseFields, P.pure_apply] at hr
      injection hr with hr _; subst hr
      exact ⟨[], rfl, rfl, rfl, rfl⟩
    | cons s ss => simp [compatScript] at hc
  | cons kk rest ih =>
    intro specs hc p h1 h2 hab fs p' hr hp'
    obtain ⟨kind, key⟩ := kk
    cases specs with
    | nil => simp [compatScript] at hc
    | cons s ss =>
      simp only [compatScript, Bool.and_eq_true] at hc
      unfold parseFields at hr
      obtain ⟨v, o1, g1, hr⟩ := P.bind_eq_ok hr
      obtain ⟨vs, o2, g2, hr⟩ := P.bind_eq_ok hr
      simp only [P.pure_apply] at hr
      injection hr with hr ho; subst hr; subst ho
      have b1 := (safe_parseField (bs.size - rdStart) rdlength kind h2 (by omega)).ok g1
      have b2 := (safe_parseFields (bs.size - rdStart) rdlength rest b1.2 (by omega)).ok g2
      have hrest : noAbin rest = true := by
        rcases hab with hn | ⟨_, hn⟩
        · simp only [noAbin, List.all_cons, Bool.and_eq_true] at hn ⊢; exact hn.2
        · unfold abinOk at hn
          rcases (Bool.or_eq_true_iff).1 hn with hn | hn
          · simp only [noAbin, List.all_cons, Bool.and_eq_true] at hn ⊢; exact hn.2
          · split at hn
            · rename_i k heq
              injection heq with _ heq; subst heq; rfl
            · simp at hn
      have habin : isAbin kind = true → p = rdStart := by
        intro hk
        rcases hab with hn | ⟨hp, _⟩
        · simp only [noAbin, List.all_cons, Bool.and_eq_true, Bool.not_eq_eq_eq_not, Bool.not_true] at hn
          rw [hk] at hn; simp at hn
        · exact hp
      obtain ⟨fv, d1, t1, s1⟩ := parseField_sound w hc.1 h1 h2 habin g1 (by omega)
      obtain ⟨vals, d2, t2, s2, k2⟩ := ih ss hc.2 (by omega) b1.2 (Or.inl hrest) g2 hp'
      refine ⟨fv :: vals, ?_, ?_, ?_, ?_⟩
      · simp only [Rfc.decodeFields, d1, d2]
      · simp only [Rfc.toVals, t1, t2, List.map_cons]
      · simp only [Rfc.fieldsSupported, s1, s2, Bool.and_self]
      · simp only [List.map_cons, k2]

theorem decodeField_le {e : Nat} {spec : Rfc.FieldSpec} {p p' : Nat} {fv : Rfc.FieldVal}
    (hd : Rfc.decodeField bs e spec p = some (fv, p')) : p' ≤ e := by
  cases spec <;> simp only [Rfc.decodeField] at hd
  case u8 => split at hd <;> simp [Rfc.byteAt] at hd; obtain ⟨_, _, _, rfl⟩ := hd; omega
  case u16 =>
    split at hd
    · cases hu : Rfc.u16At bs p <;> rw [hu] at hd <;> simp at hd
      obtain ⟨_, rfl⟩ := hd; omega
    · simp at hd
  case u32 =>
    split at hd
    · cases hu : Rfc.u32At bs p <;> rw [hu] at hd <;> simp at hd
      obtain ⟨_, rfl⟩ := hd; omega
    · simp at hd
  case ipv4 => split at hd <;> simp at hd; obtain ⟨_, rfl⟩ := hd; omega
  case ipv6 => split at hd <;> simp at hd; obtain ⟨_, rfl⟩ := hd; omega
  case domainName =>
    split at hd
    · split at hd <;> simp at hd
      obtain ⟨_, rfl⟩ := hd; assumption
    · simp at hd
  case charString ne =>
    split at hd
    · split at hd
      · split at hd <;> simp at hd
        obtain ⟨_, rfl⟩ := hd; omega
      · simp at hd
    · simp at hd
  case charStrings =>
    split at hd <;> simp at hd
    obtain ⟨_, rfl⟩ := hd; omega
  case opaqueRest => split at hd <;> simp at hd; obtain ⟨_, rfl⟩ := hd; omega
  case textRest => split at hd <;> simp at hd; obtain ⟨_, rfl⟩ := hd; omega
  case tlvRest =>
    cases ht : Rfc.tlvs bs e p <;> rw [ht] at hd <;> simp at hd
    obtain ⟨_, rfl⟩ := hd; omega

theorem parseFields_complete (w : Win bs rdStart rdlength) :
    ∀ (script : Script) (specs : List Rfc.FieldSpec), compatScript script specs = true →
    ∀ {p : Nat}, rdStart ≤ p → p ≤ rdStart + rdlength →
      (noAbin script = true ∨ (p = rdStart ∧ abinOk script = true)) →
    ∀ {vals : List Rfc.FieldVal}, Rfc.decodeFields bs (rdStart + rdlength) specs p = some vals →
      Rfc.fieldsSupported specs vals = true →
      ∃ fs p', parseFields bs (bs.size - rdStart) rdlength script p = .ok fs p' ∧ p' ≤ rdStart + rdlength ∧
        Rfc.toVals specs vals = some (fs.map (·.2)) ∧ fs.map (·.1) = script.map (·.2) := by
  have wf := w.fits
  intro script
  induction script with
  | nil =>
    intro specs hc p h1 h2 _ vals hd hs
    cases specs with
    | nil =>
      simp only [Rfc.decodeFields, Option.some.injEq] at hd
      subst hd
      exact ⟨[], p, rfl, h2, rfl, rfl⟩
    | cons s ss => simp [compatScript] at hc
  | cons kk rest ih =>
    intro specs hc p h1 h2 hab vals hd hs
    obtain ⟨kind, key⟩ := kk
    cases specs with
    | nil => simp [compatScript] at hc
    | cons s ss =>
      simp only [compatScript, Bool.and_eq_true] at hc
      simp only [Rfc.decodeFields] at hd
      cases hd1 : Rfc.decodeField bs (rdStart + rdlength) s p with
      | none => rw [hd1] at hd; simp at hd
      | some r =>
        obtain ⟨fv, p1⟩ := r
        rw [hd1] at hd
        simp only at hd
        cases hd2 : Rfc.decodeFields bs (rdStart + rdlength) ss p1 with
        | none => rw [hd2] at hd; simp at hd
        | some vs =>
          rw [hd2] at hd
          simp only [Option.some.injEq] at hd
          subst hd
          simp only [Rfc.fieldsSupported, Bool.and_eq_true] at hs
          have hrest : noAbin rest = true := by
            rcases hab with hn | ⟨_, hn⟩
            · simp only [noAbin, List.all_cons, Bool.and_eq_true] at hn ⊢; exact hn.2
            · unfold abinOk at hn
              rcases (Bool.or_eq_true_iff).1 hn with hn | hn
              · simp only [noAbin, List.all_cons, Bool.and_eq_true] at hn ⊢; exact hn.2
              · split at hn
                · rename_i k heq
                  injection heq with _ heq; subst heq; rfl
                · simp at hn
          have habin : isAbin kind = true → p = rdStart := by
            intro hk
            rcases hab with hn | ⟨hp, _⟩
            · simp only [noAbin, List.all_cons, Bool.and_eq_true, Bool.not_eq_eq_eq_not, Bool.not_true] at hn
              rw [hk] at hn; simp at hn
            · exact hp
          obtain ⟨v, g1, t1⟩ := parseField_complete w hc.1 h1 (by omega) habin hd1 hs.1
          have b1 := (safe_parseField (bs.size - rdStart) rdlength kind (by omega : p ≤ bs.size) (by omega)).ok g1
          have hle := decodeField_le hd1
          obtain ⟨fs, p', g2, hp', t2, k2⟩ := ih ss hc.2 (by omega) hle (Or.inl hrest) hd2 hs.2
          refine ⟨(key, v) :: fs, p', ?_, hp', ?_, ?_⟩
          · unfold parseFields
            rw [P.bind_ok g1, P.bind_ok g2]; rfl
          · simp only [Rfc.toVals, t1, t2, List.map_cons]
          · simp only [List.map_cons, k2]
end window

end Cares.Dns
