import CaresLemmas.Arr
/-! Stage lemmas for the refinement `ares_array` → `List`. -/
namespace Cares.Dsa.Arr

theorem setSize_ok (a : Arr) (size : Nat) (h : a.Inv) (h0 : 0 < size) (hc : a.cnt ≤ size) :
    ∃ a1, a.setSize size true = (.ok, a1) ∧ a1.cnt = a.cnt ∧ a1.off = a.off ∧
      a.mem.length ≤ a1.mem.length ∧ size ≤ a1.mem.length ∧
      (∀ i, i < a.mem.length → a1.mem[i]? = a.mem[i]?) := by
  unfold setSize
  have hp : size ≤ roundSize size := by
    have := le_pow2ceil size
    unfold roundSize; simp only []; split <;> omega
  simp only [show ¬(size = 0 ∨ size < a.cnt) by omega, ↓reduceIte, Bool.not_true, Bool.false_eq_true]
  split
  · rename_i hle; unfold alloc at hle
    exact ⟨a, rfl, rfl, rfl, Nat.le_refl _, by omega, fun _ _ => rfl⟩
  · rename_i hgt; unfold alloc at hgt
    refine ⟨_, rfl, rfl, rfl, ?_, ?_, ?_⟩
    · simp
    · simp only [alloc, List.length_append, List.length_replicate]; omega
    · intro i hi; simp [List.getElem?_append_left hi]

/-- shifting the live range to the start of the allocation -/
theorem move_front (a : Arr) (h : a.Inv) (hpos : 0 < a.cnt) :
    ∃ b, a.move 0 a.off = some b ∧ b.cnt = a.cnt ∧ b.off = a.off ∧ b.mem.length = a.mem.length ∧
      ∀ i, i < a.cnt → b.mem[i]? = a.mem[a.off + i]? := by
  have h := h.1
  unfold move alloc
  simp only [show ¬(0 ≥ a.mem.length ∨ a.off ≥ a.mem.length) by omega, ↓reduceIte]
  by_cases h0 : 0 = a.off
  · simp only [h0, ↓reduceIte]
    refine ⟨a, rfl, rfl, rfl, rfl, ?_⟩
    intro i _; simp [← h0]
  · simp only [h0, ↓reduceIte, show ¬(0 > a.off ∧ a.cnt + (0 - a.off) > a.mem.length) by omega]
    refine ⟨_, rfl, rfl, rfl, ?_, ?_⟩
    · exact memmove_length _ _ _ _ (by simp; omega) (by simp; omega)
    · intro i hi
      simp only []
      rw [memmove_getElem? _ _ _ _ _ (by omega) (by omega)]
      simp; intro hge; omega

/-- opening a gap at `idx` (shift the tail one slot to the right) -/
theorem move_gap (a : Arr) (idx : Nat) (hroom : a.off + a.cnt + 1 ≤ a.mem.length) (hi : idx < a.cnt) :
    ∃ b, a.move (idx + a.off + 1) (idx + a.off) = some b ∧ b.cnt = a.cnt ∧ b.off = a.off ∧
      b.mem.length = a.mem.length ∧
      (∀ i, i < idx → b.mem[a.off + i]? = a.mem[a.off + i]?) ∧
      (∀ i, idx < i → i ≤ a.cnt → b.mem[a.off + i]? = a.mem[a.off + i - 1]?) := by
  unfold move alloc
  simp only [show ¬(idx + a.off + 1 ≥ a.mem.length ∨ idx + a.off ≥ a.mem.length) by omega,
    show ¬(idx + a.off + 1 = idx + a.off) by omega, ↓reduceIte,
    show ¬(idx + a.off + 1 > idx + a.off ∧ a.cnt + (idx + a.off + 1 - (idx + a.off)) > a.mem.length) by omega]
  refine ⟨_, rfl, rfl, rfl, ?_, ?_, ?_⟩
  · exact memmove_length _ _ _ _ (by omega) (by omega)
  · intro i hlt
    simp only []
    rw [memmove_getElem? _ _ _ _ _ (by omega) (by omega)]
    simp [show a.off + i < idx + a.off + 1 by omega]
  · intro i h1 h2
    simp only []
    rw [memmove_getElem? _ _ _ _ _ (by omega) (by omega)]
    simp only [show ¬(a.off + i < idx + a.off + 1) by omega, ↓reduceIte,
      show a.off + i < idx + a.off + 1 + (a.cnt - (idx + a.off - a.off)) by omega]
    congr 1; omega

/-- closing the gap at `idx` (shift the tail one slot to the left) -/
theorem move_close (a : Arr) (idx : Nat) (h : a.Inv) (hi : idx + 1 < a.cnt) :
    ∃ b, a.move (idx + a.off) (idx + a.off + 1) = some b ∧ b.cnt = a.cnt ∧ b.off = a.off ∧
      b.mem.length = a.mem.length ∧
      (∀ i, i < idx → b.mem[a.off + i]? = a.mem[a.off + i]?) ∧
      (∀ i, idx ≤ i → i + 1 < a.cnt → b.mem[a.off + i]? = a.mem[a.off + i + 1]?) := by
  have h := h.1
  unfold move alloc
  simp only [show ¬(idx + a.off ≥ a.mem.length ∨ idx + a.off + 1 ≥ a.mem.length) by omega,
    show ¬(idx + a.off = idx + a.off + 1) by omega, ↓reduceIte,
    show ¬(idx + a.off > idx + a.off + 1 ∧ a.cnt + (idx + a.off - (idx + a.off + 1)) > a.mem.length) by omega]
  refine ⟨_, rfl, rfl, rfl, ?_, ?_, ?_⟩
  · exact memmove_length _ _ _ _ (by omega) (by omega)
  · intro i hlt
    simp only []
    rw [memmove_getElem? _ _ _ _ _ (by omega) (by omega)]
    simp [show a.off + i < idx + a.off by omega]
  · intro i h1 h2
    simp only []
    rw [memmove_getElem? _ _ _ _ _ (by omega) (by omega)]
    simp only [show ¬(a.off + i < idx + a.off) by omega, ↓reduceIte,
      show a.off + i < idx + a.off + (a.cnt - (idx + a.off + 1 - a.off)) by omega]
    congr 1; omega

end Cares.Dsa.Arr
