import CaresLemmas.ChanAlignRun
/-!
# A completed `handle_conn_error` leaves no live connection on its descriptor (C20)

`read_answers` calls `handle_conn_error` when `process_answer` fails; `read_conn_packets` calls it on a socket error or
EOF.  If that call completes (fuel not exhausted), the descriptor no longer names a connection that is not being closed:
`ares_close_connection` marks it at once, and nothing ever clears the mark (`exec_dead_stays`).
-/
namespace Cares.Chan

theorem exec_connError_kills (n : Nat) (fd : Nat) (st : Status) (t : St) (hal : Aligned t) (hfd : fd < t.nextFd)
    (hf : (exec n (.connError fd true st) t).1.outOfFuel = false) :
    ∀ c', (exec n (.connError fd true st) t).1.conn? fd = some c' → c'.unlinked = true := by
  cases hc : t.conn? fd with
  | none =>
    exact exec_dead_stays n _ t hal fd hfd (fun h => h) hf (fun c hc' => by rw [hc] at hc'; cases hc')
  | some c =>
    cases n with
    | zero => exact absurd hf (by simp [exec, St.oof])
    | succ m =>
      have e1 : exec (m + 1) (.connError fd true st) t = exec m (.closeConn fd st) (t.incFailures c.srv c.tcp) := by
        show bodyConnError (exec m) fd true st t = _
        unfold bodyConnError
        simp only [hc, ↓reduceIte]
      rw [e1] at hf ⊢
      generalize ht1 : t.incFailures c.srv c.tcp = t1 at hf ⊢
      have hc1 : t1.conn? fd = some c := by
        rw [← ht1]; show (t.incFailures c.srv c.tcp).conns.find? _ = _
        rw [St.incFailures_conns]; exact hc
      have hal1 : Aligned t1 := by
        rw [← ht1]
        exact hal.of_views (by simp only [chan_frame]) (by simp only [chan_frame]) (by simp only [chan_frame])
      have hn1 : t1.nextFd = t.nextFd := by rw [← ht1]; simp only [chan_frame]
      cases m with
      | zero => exact absurd hf (by simp [exec, St.oof])
      | succ k =>
        have e2 : exec (k + 1) (.closeConn fd st) t1 = exec k (.closeLoop fd st)
            ((t1.modServer c.srv fun v =>
              { v with conns := v.conns.erase fd, tcpConn := if c.tcp then none else v.tcpConn }).modConn fd
              fun c => { c with unlinked := true, out := [], outOff := 0, inBytes := 0, inMsgs := [] }) := by
          show bodyCloseConn (exec k) fd st t1 = _
          unfold bodyCloseConn
          simp only [hc1]
        rw [e2] at hf ⊢
        generalize ht2 : ((t1.modServer c.srv fun v =>
              { v with conns := v.conns.erase fd, tcpConn := if c.tcp then none else v.tcpConn }).modConn fd
              fun c => { c with unlinked := true, out := [], outOff := 0, inBytes := 0, inMsgs := [] }) = t2 at hf ⊢
        have ho2 : t2.outOfFuel = false := exec_oof_back _ _ _ hf
        have hc2 : t2.conn? fd = some { c with unlinked := true, out := [], outOff := 0, inBytes := 0, inMsgs := [] } := by
          rw [← ht2]
          exact conn?_modConn_self _ (by exact hc1) rfl
        have hal2 : Aligned t2 := by
          have h0 : Al (fun _ _ _ => True) 0 t1 :=
            fun _ => alCore_of_aligned hal1 (Nat.zero_le _) (fun _ _ _ _ _ _ => trivial)
          have h1 : Al (fun _ _ _ => True) 0 t2 := by
            rw [← ht2]
            exact AlF_unlink (t1.modServer c.srv _) fd _ (fun _ => rfl) h0
          exact aligned_of_alCore (h1 ho2)
        have hn2 : t2.nextFd = t.nextFd := by rw [← ht2]; exact hn1
        refine exec_dead_stays k _ t2 hal2 fd (by omega) (fun h => h) hf ?_
        intro c2 hc2'
        rw [hc2] at hc2'; cases hc2'; rfl

end Cares.Chan
