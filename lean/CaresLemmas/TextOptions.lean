import CaresModel.Options
/-! Helper lemmas for C16: user-supplied settings survive `ares_sysconfig_apply`; options saved from a
    freshly initialised channel reproduce it (`save_init_fixpoint'`). -/
namespace Cares.Text

/-- the settings guarded by an option bit (what "the application supplied explicitly" covers in
    `ares_sysconfig_apply`) agree between two channels -/
def guardedEq (a b : Chan) : Prop :=
  a.optmask = b.optmask ∧
  (a.optmask.servers = true → b.servers = a.servers) ∧
  (a.optmask.domains = true → b.domains = a.domains) ∧
  (a.optmask.lookups = true → b.lookups = a.lookups) ∧
  (a.optmask.sortlist = true → b.sortlist = a.sortlist) ∧
  (a.optmask.ndots = true → b.ndots = a.ndots) ∧
  (a.optmask.tries = true → b.tries = a.tries) ∧
  (a.optmask.timeoutms = true → b.timeout = a.timeout) ∧
  ((a.optmask.rotate = true ∨ a.optmask.norotate = true) → b.rotate = a.rotate) ∧
  (a.optmask.flags = true → b.flags = a.flags)

theorem guardedEq_refl (a : Chan) : guardedEq a a := by
  unfold guardedEq; simp

theorem guardedEq_trans (a b c : Chan) (h1 : guardedEq a b) (h2 : guardedEq b c) : guardedEq a c := by
  unfold guardedEq at *
  obtain ⟨m1, a1, a2, a3, a4, a5, a6, a7, a8, a9⟩ := h1
  obtain ⟨m2, b1, b2, b3, b4, b5, b6, b7, b8, b9⟩ := h2
  rw [← m1] at b1 b2 b3 b4 b5 b6 b7 b8 b9
  refine ⟨m1.trans m2, ?_, ?_, ?_, ?_, ?_, ?_, ?_, ?_, ?_⟩
  · intro h; rw [b1 h, a1 h]
  · intro h; rw [b2 h, a2 h]
  · intro h; rw [b3 h, a3 h]
  · intro h; rw [b4 h, a4 h]
  · intro h; rw [b5 h, a5 h]
  · intro h; rw [b6 h, a6 h]
  · intro h; rw [b7 h, a7 h]
  · intro h; rw [b8 h, a8 h]
  · intro h; rw [b9 h, a9 h]

theorem sysconfigApply_guarded (c : Chan) (s : SysConfig) : guardedEq c (sysconfigApply c s) := by
  unfold guardedEq sysconfigApply sysconfigApplyG
  refine ⟨rfl, ?_, ?_, ?_, ?_, ?_, ?_, ?_, ?_, ?_⟩
  · intro h; simp only [h]; cases s.sconfig <;> simp
  · intro h; simp only [h]; cases s.domains <;> simp
  · intro h; simp only [h]; cases s.lookups <;> simp
  · intro h; simp [h]
  · intro h; simp [h]
  · intro h; simp [h]
  · intro h; simp [h]
  · intro h; rcases h with h | h <;> simp [h]
  · intro h; simp [h]

theorem reinit_guarded (c : Chan) (e : SysEnv) : guardedEq c (reinit c e) := by
  unfold reinit initBySysconfig
  split
  · exact guardedEq_refl c
  · exact sysconfigApply_guarded c _

theorem reinits_guarded (c : Chan) (es : List SysEnv) : guardedEq c (es.foldl reinit c) := by
  induction es generalizing c with
  | nil => exact guardedEq_refl c
  | cons e es ih => exact guardedEq_trans _ _ _ (reinit_guarded c e) (ih (reinit c e))


structure Options.WF (o : Options) : Prop where
  flagsR : -2147483648 ≤ o.flags ∧ o.flags < 2147483648
  timeoutR : o.timeout < 2147483648
  triesR : o.tries < 2147483648
  ndotsR : o.ndots < 2147483648
  maxtimeoutR : o.maxtimeout < 2147483648
  ednspszR : o.ednspsz < 2147483648
  udpMaxQueriesR : o.udpMaxQueries < 2147483648
  nservers : o.nservers > 0 → o.servers ≠ []
  ndomains : o.ndomains > 0 → o.ndomains = o.domains.length
  nsort : o.nsort > 0 → o.nsort = o.sortlist.length

/-- system configuration and defaults applied to a channel prepared by `ares_init_by_options` -/
def finish (a : Chan) (e : SysEnv) : Chan := applyDefaults (initBySysconfig a e) e

theorem initBySysconfig_cases (a : Chan) (e : SysEnv) :
    initBySysconfig a e = a ∨ ∃ s, initBySysconfig a e = sysconfigApply a s := by
  unfold initBySysconfig
  cases readSysconfig e a.resolvPath with
  | none => left; rfl
  | some s => right; exact ⟨s, rfl⟩

theorem finish_untouched (a : Chan) (e : SysEnv) :
    (finish a e).optmask = a.optmask ∧ (finish a e).maxtimeout = a.maxtimeout ∧ (finish a e).udpPort = a.udpPort ∧
    (finish a e).tcpPort = a.tcpPort ∧ (finish a e).sndbuf = a.sndbuf ∧ (finish a e).rcvbuf = a.rcvbuf ∧
    (finish a e).resolvPath = a.resolvPath ∧ (finish a e).hostsPath = a.hostsPath ∧
    (finish a e).udpMaxQueries = a.udpMaxQueries ∧ (finish a e).qcacheMaxTtl = a.qcacheMaxTtl := by
  unfold finish
  rcases initBySysconfig_cases a e with h | ⟨s, h⟩ <;> rw [h] <;>
    simp [applyDefaults, sysconfigApply, sysconfigApplyG]

theorem finish_masked (a : Chan) (e : SysEnv) :
    (a.optmask.flags = true → (finish a e).flags = a.flags) ∧
    (a.optmask.timeoutms = true → a.timeout ≠ 0 → (finish a e).timeout = a.timeout) ∧
    (a.optmask.tries = true → a.tries ≠ 0 → (finish a e).tries = a.tries) ∧
    (a.optmask.ndots = true → (finish a e).ndots = a.ndots) ∧
    (a.optmask.ednspsz = true → a.ednspsz ≠ 0 → (finish a e).ednspsz = a.ednspsz) ∧
    (a.optmask.lookups = true → a.lookups.isSome = true → (finish a e).lookups = a.lookups) ∧
    (a.optmask.sortlist = true → (finish a e).sortlist = a.sortlist) ∧
    (a.optmask.servers = true → a.servers ≠ [] → (finish a e).servers = a.servers) ∧
    (a.optmask.domains = true → a.domains ≠ [] → (finish a e).domains = a.domains) ∧
    (a.optmask.serverFailover = true → (finish a e).retryChance = a.retryChance ∧ (finish a e).retryDelay = a.retryDelay) := by
  unfold finish
  rcases initBySysconfig_cases a e with h | ⟨s, h⟩ <;> rw [h]
  · refine ⟨?_, ?_, ?_, ?_, ?_, ?_, ?_, ?_, ?_, ?_⟩
    · intro hm; simp [applyDefaults, defaultFlags, hm]
    · intro _ hz; simp [applyDefaults, hz]
    · intro _ hz; simp [applyDefaults, hz]
    · intro _; simp [applyDefaults]
    · intro _ hz; simp [applyDefaults, hz]
    · intro _ hz; simp only [applyDefaults]; cases hl : a.lookups <;> simp_all
    · intro _; simp [applyDefaults]
    · intro _ hz; simp only [applyDefaults]; cases hl : a.servers <;> simp_all
    · intro _ hz; simp only [applyDefaults]; cases hl : a.domains <;> simp_all
    · intro hm; simp [applyDefaults, hm]
  · refine ⟨?_, ?_, ?_, ?_, ?_, ?_, ?_, ?_, ?_, ?_⟩
    · intro hm; simp [applyDefaults, defaultFlags, sysconfigApply, sysconfigApplyG, hm]
    · intro hm hz; simp [applyDefaults, sysconfigApply, sysconfigApplyG, hm, hz]
    · intro hm hz; simp [applyDefaults, sysconfigApply, sysconfigApplyG, hm, hz]
    · intro hm; simp [applyDefaults, sysconfigApply, sysconfigApplyG, hm]
    · intro _ hz; simp [applyDefaults, sysconfigApply, sysconfigApplyG, hz]
    · intro hm hz
      simp only [applyDefaults, sysconfigApply, sysconfigApplyG, hm]
      cases hl : a.lookups <;> cases s.lookups <;> simp_all
    · intro hm; simp [applyDefaults, sysconfigApply, sysconfigApplyG, hm]
    · intro hm hz
      simp only [applyDefaults, sysconfigApply, sysconfigApplyG, hm]
      cases hl : a.servers <;> cases s.sconfig <;> simp_all
    · intro hm hz
      simp only [applyDefaults, sysconfigApply, sysconfigApplyG, hm]
      cases hl : a.domains <;> cases s.domains <;> simp_all
    · intro hm; simp [applyDefaults, sysconfigApply, sysconfigApplyG, hm]

/-- `ares_init_by_options` field by field -/
theorem applyOptions_fields (c : Chan) (o : Options) (m : Mask) :
    let a := applyOptions c o m
    let nm := normMask o m
    a.optmask = nm ∧
    a.flags = (if m.flags then toU32 o.flags else c.flags) ∧
    a.timeout = (if m.timeoutms then (if o.timeout > 0 then o.timeout.toNat else c.timeout)
                 else if m.timeout && o.timeout > 0 then secToMs o.timeout else c.timeout) ∧
    a.tries = (if nm.tries then o.tries.toNat else c.tries) ∧
    a.ndots = (if nm.ndots then o.ndots.toNat else c.ndots) ∧
    a.maxtimeout = (if nm.maxtimeoutms then o.maxtimeout.toNat else c.maxtimeout) ∧
    a.rotate = (if m.norotate then false else if m.rotate then true else c.rotate) ∧
    a.udpPort = (if m.udpPort then o.udpPort else c.udpPort) ∧
    a.tcpPort = (if m.tcpPort then o.tcpPort else c.tcpPort) ∧
    a.sndbuf = (if nm.sndbuf then o.sndbuf else c.sndbuf) ∧
    a.rcvbuf = (if nm.rcvbuf then o.rcvbuf else c.rcvbuf) ∧
    a.ednspsz = (if nm.ednspsz then o.ednspsz.toNat else c.ednspsz) ∧
    a.domains = (if m.domains && o.ndomains > 0 then o.domains else c.domains) ∧
    a.lookups = (if nm.lookups then o.lookups else c.lookups) ∧
    a.sortlist = (if m.sortlist && o.nsort > 0 then o.sortlist else c.sortlist) ∧
    a.resolvPath = (if nm.resolvconf then o.resolvPath else c.resolvPath) ∧
    a.hostsPath = (if nm.hostsFile then o.hostsPath else c.hostsPath) ∧
    a.udpMaxQueries = (if nm.udpMaxQueries then o.udpMaxQueries.toNat else c.udpMaxQueries) ∧
    a.qcacheMaxTtl = (if m.queryCache then o.qcacheMaxTtl else 3600) ∧
    a.retryChance = (if m.serverFailover then o.retryChance else c.retryChance) ∧
    a.retryDelay = (if m.serverFailover then o.retryDelay else c.retryDelay) ∧
    a.servers = (if nm.servers then
        serversUpdate a.udpPort a.tcpPort (hasFlag a.flags flagPrimary) c.servers (o.servers.map v4Server) else c.servers) := by
  simp only [applyOptions]
  split <;> simp

theorem toInt32_small (n : Nat) (h : n < 2147483648) : toInt32 n = (n : Int) := by
  unfold toInt32
  have : n % 4294967296 = n := Nat.mod_eq_of_lt (by omega)
  simp only [this]
  simp [h]

theorem toU32_toInt32 (n : Nat) (h : n < 4294967296) : toU32 (toInt32 n) = n := by
  unfold toInt32 toU32
  have : n % 4294967296 = n := Nat.mod_eq_of_lt h
  simp only [this]
  split
  · have : ((n : Int) % 4294967296) = n := Int.emod_eq_of_lt (by omega) (by omega)
    rw [this]; simp
  · have : (((n : Int) - 4294967296) % 4294967296) = n := by
      rw [Int.sub_emod, Int.emod_self]
      simp only [Int.sub_zero]
      rw [Int.emod_emod_of_dvd _ (by decide)]
      exact Int.emod_eq_of_lt (by omega) (by omega)
    rw [this]; simp

theorem toU32_lt (i : Int) : toU32 i < 4294967296 := by
  unfold toU32
  have h1 : i % 4294967296 < 4294967296 := Int.emod_lt_of_pos _ (by decide)
  have h0 : 0 ≤ i % 4294967296 := Int.emod_nonneg _ (by decide)
  omega

theorem secToMs_bounds (t : Int) (h : t > 0) : 0 < secToMs t ∧ secToMs t < 2147483648 := by
  unfold secToMs
  have : (2147483647 / 1000 : Int) = 2147483 := by decide
  rw [this]
  split <;> omega

/-- saved value of a positive `int` option that was stored as `toNat` -/
theorem toInt32_toNat (i : Int) (h0 : 0 ≤ i) (h1 : i < 2147483648) : toInt32 i.toNat = i := by
  rw [toInt32_small _ (by omega)]; omega

theorem dedup_mem (u t : Nat) : ∀ (l seen : List SConfig) (x : SConfig), x ∈ dedupSConfig u t l seen → x ∈ l := by
  intro l
  induction l with
  | nil => intro seen x h; simp [dedupSConfig] at h
  | cons s r ih =>
    intro seen x h
    unfold dedupSConfig at h
    split at h
    · exact List.mem_cons_of_mem _ (ih _ _ h)
    · rcases List.mem_cons.mp h with h | h
      · simp [h]
      · exact List.mem_cons_of_mem _ (ih _ _ h)

/-- later elements are not the "same server" as earlier ones -/
def DistinctKeys (u t : Nat) (l : List SConfig) : Prop := l.Pairwise (fun a b => sameServer u t b a = false)

theorem dedup_spec (u t : Nat) : ∀ (l seen : List SConfig),
    DistinctKeys u t (dedupSConfig u t l seen) ∧
    ∀ x ∈ dedupSConfig u t l seen, seen.any (sameServer u t x) = false := by
  intro l
  induction l with
  | nil => intro seen; simp [dedupSConfig, DistinctKeys]
  | cons s r ih =>
    intro seen
    unfold dedupSConfig
    obtain ⟨ih1, ih2⟩ := ih (seen ++ [s])
    split
    · refine ⟨ih1, ?_⟩
      intro x hx
      have := ih2 x hx
      simp only [List.any_append, Bool.or_eq_false_iff] at this
      exact this.1
    · rename_i hs
      refine ⟨?_, ?_⟩
      · unfold DistinctKeys
        rw [List.pairwise_cons]
        refine ⟨?_, ih1⟩
        intro x hx
        have := ih2 x hx
        simp only [List.any_append, List.any_cons, List.any_nil, Bool.or_false, Bool.or_eq_false_iff] at this
        exact this.2
      · intro x hx
        rcases List.mem_cons.mp hx with h | h
        · subst h; simpa using hs
        · have := ih2 x h
          simp only [List.any_append, Bool.or_eq_false_iff] at this
          exact this.1

theorem dedup_id (u t : Nat) : ∀ (l seen : List SConfig), DistinctKeys u t l →
    (∀ x ∈ l, seen.any (sameServer u t x) = false) → dedupSConfig u t l seen = l := by
  intro l
  induction l with
  | nil => intro seen _ _; rfl
  | cons s r ih =>
    intro seen hd hs
    unfold dedupSConfig
    have h1 := hs s (by simp)
    simp only [h1, Bool.false_eq_true, ↓reduceIte, List.cons.injEq, true_and]
    unfold DistinctKeys at hd
    rw [List.pairwise_cons] at hd
    apply ih _ hd.2
    intro x hx
    simp only [List.any_append, List.any_cons, List.any_nil, Bool.or_false, Bool.or_eq_false_iff]
    exact ⟨hs x (List.mem_cons_of_mem _ hx), hd.1 x hx⟩

theorem distinct_take (u t : Nat) (l : List SConfig) (n : Nat) (h : DistinctKeys u t l) : DistinctKeys u t (l.take n) :=
  List.Pairwise.sublist (List.take_sublist n l) h

theorem dedup_ne_nil (u t : Nat) (s : SConfig) (r : List SConfig) : dedupSConfig u t (s :: r) [] ≠ [] := by
  unfold dedupSConfig; simp

/-- the servers `ares_servers_update` creates on an empty channel -/
def freshServer (u t : Nat) (s : SConfig) : Server :=
  { addr := s.addr, udp := effPort u s.udp, tcp := effPort t s.tcp, iface := s.iface, scope := s.scope }

theorem serversUpdate_nil_old (u t : Nat) (p : Bool) (l : List SConfig) :
    serversUpdate u t p [] l =
      (if p then ((dedupSConfig u t l []).map (freshServer u t)).take 1 else (dedupSConfig u t l []).map (freshServer u t)) := by
  unfold serversUpdate
  have : updateOne u t [] = freshServer u t := by
    funext s; simp [updateOne, freshServer]
  rw [this]

theorem v4_back (u t : Nat) (k : List SConfig) (hk : ∀ x ∈ k, ∃ o, x = v4Server o) :
    ((k.map (freshServer u t)).filterMap v4of).map v4Server = k := by
  induction k with
  | nil => rfl
  | cons x xs ih =>
    obtain ⟨o, ho⟩ := hk x (by simp)
    subst ho
    simp only [List.map_cons, List.filterMap_cons, freshServer, v4Server, v4of]
    simp only [List.map_cons, List.cons.injEq, true_and]
    exact ih (fun y hy => hk y (List.mem_cons_of_mem _ hy))

/-- saving the IPv4 addresses of a server list that came from `struct in_addr` options and applying them
    again reproduces the list -/
theorem serversUpdate_v4_fix (u t : Nat) (p : Bool) (l : List (List Nat)) :
    serversUpdate u t p [] (((serversUpdate u t p [] (l.map v4Server)).filterMap v4of).map v4Server) =
      serversUpdate u t p [] (l.map v4Server) := by
  rw [serversUpdate_nil_old u t p (l.map v4Server)]
  have hk : ∀ x ∈ dedupSConfig u t (l.map v4Server) [], ∃ o, x = v4Server o := by
    intro x hx
    have := dedup_mem u t _ _ x hx
    simp only [List.mem_map] at this
    obtain ⟨o, _, ho⟩ := this
    exact ⟨o, ho.symm⟩
  have hd := (dedup_spec u t (l.map v4Server) []).1
  generalize dedupSConfig u t (l.map v4Server) [] = K at hk hd
  cases p with
  | false =>
    simp only [Bool.false_eq_true, ↓reduceIte]
    rw [v4_back u t K hk, serversUpdate_nil_old]
    simp only [Bool.false_eq_true, ↓reduceIte]
    rw [dedup_id u t K [] hd (by simp)]
  | true =>
    simp only [↓reduceIte]
    rw [← List.map_take, v4_back u t (K.take 1) (fun x hx => hk x (List.mem_of_mem_take hx)), serversUpdate_nil_old]
    simp only [↓reduceIte]
    rw [dedup_id u t (K.take 1) [] (distinct_take u t K 1 hd) (by simp)]
    simp [List.take_take]


theorem dedup_mem' (u t : Nat) : ∀ (l seen : List SConfig) (x : SConfig), x ∈ dedupSConfig u t l seen → x ∈ l := by
  intro l
  induction l with
  | nil => intro seen x h; simp [dedupSConfig] at h
  | cons s r ih =>
    intro seen x h
    unfold dedupSConfig at h
    split at h
    · exact List.mem_cons_of_mem _ (ih _ _ h)
    · rcases List.mem_cons.mp h with h | h
      · simp [h]
      · exact List.mem_cons_of_mem _ (ih _ _ h)

theorem serversUpdate_ne_nil (u t : Nat) (p : Bool) (old : List Server) (x : SConfig) (r : List SConfig) :
    serversUpdate u t p old (x :: r) ≠ [] := by
  unfold serversUpdate dedupSConfig
  simp only [List.any_nil, Bool.false_eq_true, ↓reduceIte, List.map_cons]
  split <;> simp

theorem serversUpdate_v4_all (u t : Nat) (p : Bool) (l : List (List Nat)) :
    ∀ s ∈ serversUpdate u t p [] (l.map v4Server), ∃ o, s.addr = .v4 o := by
  intro s hs
  rw [serversUpdate_nil_old] at hs
  have hm : ∀ x ∈ (dedupSConfig u t (l.map v4Server) []).map (freshServer u t), ∃ o, x.addr = .v4 o := by
    intro x hx
    simp only [List.mem_map] at hx
    obtain ⟨k, hk, rfl⟩ := hx
    have := dedup_mem' u t _ _ k hk
    simp only [List.mem_map] at this
    obtain ⟨o, _, rfl⟩ := this
    exact ⟨o, rfl⟩
  split at hs
  · exact hm s (List.mem_of_mem_take hs)
  · exact hm s hs

/-- the facts about a freshly initialised channel that make saving and re-applying exact -/
theorem init_facts (e : SysEnv) (o : Options) (m : Mask) (hwf : o.WF) :
    (finish (applyOptions {} o m) e).optmask = normMask o m ∧
    ((normMask o m).flags = true → (finish (applyOptions {} o m) e).flags = (applyOptions {} o m).flags ∧ (applyOptions {} o m).flags < 4294967296) ∧
    ((normMask o m).timeoutms = true → (finish (applyOptions {} o m) e).timeout = (applyOptions {} o m).timeout ∧ 0 < (applyOptions {} o m).timeout ∧ (applyOptions {} o m).timeout < 2147483648) ∧
    ((normMask o m).tries = true → (finish (applyOptions {} o m) e).tries = (applyOptions {} o m).tries ∧ 0 < (applyOptions {} o m).tries ∧ (applyOptions {} o m).tries < 2147483648) ∧
    ((normMask o m).ndots = true → (finish (applyOptions {} o m) e).ndots = (applyOptions {} o m).ndots ∧ (applyOptions {} o m).ndots < 2147483648) ∧
    ((finish (applyOptions {} o m) e).maxtimeout = (applyOptions {} o m).maxtimeout ∧ ((normMask o m).maxtimeoutms = true → 0 < (applyOptions {} o m).maxtimeout ∧ (applyOptions {} o m).maxtimeout < 2147483648)) ∧
    ((finish (applyOptions {} o m) e).udpPort = (applyOptions {} o m).udpPort ∧ (finish (applyOptions {} o m) e).tcpPort = (applyOptions {} o m).tcpPort) ∧
    ((finish (applyOptions {} o m) e).sndbuf = (applyOptions {} o m).sndbuf ∧ ((normMask o m).sndbuf = true → 0 < (applyOptions {} o m).sndbuf)) ∧
    ((finish (applyOptions {} o m) e).rcvbuf = (applyOptions {} o m).rcvbuf ∧ ((normMask o m).rcvbuf = true → 0 < (applyOptions {} o m).rcvbuf)) ∧
    ((normMask o m).ednspsz = true → (finish (applyOptions {} o m) e).ednspsz = (applyOptions {} o m).ednspsz ∧ 0 < (applyOptions {} o m).ednspsz ∧ (applyOptions {} o m).ednspsz < 2147483648) ∧
    ((normMask o m).lookups = true → (finish (applyOptions {} o m) e).lookups = (applyOptions {} o m).lookups ∧ (applyOptions {} o m).lookups.isSome = true) ∧
    ((normMask o m).sortlist = true → (finish (applyOptions {} o m) e).sortlist = (applyOptions {} o m).sortlist) ∧
    ((finish (applyOptions {} o m) e).resolvPath = (applyOptions {} o m).resolvPath ∧ ((normMask o m).resolvconf = true → (applyOptions {} o m).resolvPath.isSome = true)) ∧
    ((finish (applyOptions {} o m) e).hostsPath = (applyOptions {} o m).hostsPath ∧ ((normMask o m).hostsFile = true → (applyOptions {} o m).hostsPath.isSome = true)) ∧
    ((finish (applyOptions {} o m) e).udpMaxQueries = (applyOptions {} o m).udpMaxQueries ∧ ((normMask o m).udpMaxQueries = true → 0 < (applyOptions {} o m).udpMaxQueries ∧ (applyOptions {} o m).udpMaxQueries < 2147483648)) ∧
    (finish (applyOptions {} o m) e).qcacheMaxTtl = (applyOptions {} o m).qcacheMaxTtl ∧
    ((normMask o m).serverFailover = true → (finish (applyOptions {} o m) e).retryChance = (applyOptions {} o m).retryChance ∧ (finish (applyOptions {} o m) e).retryDelay = (applyOptions {} o m).retryDelay) ∧
    ((normMask o m).servers = true → (finish (applyOptions {} o m) e).servers = (applyOptions {} o m).servers ∧ (applyOptions {} o m).servers ≠ []) := by
  obtain ⟨f0, f1, f2, f3, f4, f5, f6, f7, f8, f9, f10, f11, f12, f13, f14, f15, f16, f17, f18, f19, f20, f21⟩ :=
    applyOptions_fields {} o m
  obtain ⟨u0, u1, u2, u3, u4, u5, u6, u7, u8, u9⟩ := finish_untouched (applyOptions {} o m) e
  obtain ⟨k1, k2, k3, k4, k5, k6, k7, k8, k9, k10⟩ := finish_masked (applyOptions {} o m) e
  have hm : (applyOptions {} o m).optmask = normMask o m := f0
  refine ⟨u0.trans f0, ?_, ?_, ?_, ?_, ?_, ⟨u2, u3⟩, ?_, ?_, ?_, ?_, ?_, ?_, ?_, ?_, u9, ?_, ?_⟩
  · intro h
    have hf : m.flags = true := by simpa [normMask] using h
    refine ⟨k1 (by rw [hm]; exact h), ?_⟩
    rw [f1]; simp only [hf, ↓reduceIte]; exact toU32_lt _
  · intro h
    have h' : ((m.timeoutms || m.timeout) && decide (o.timeout > 0)) = true := by simpa [normMask] using h
    simp only [Bool.and_eq_true, Bool.or_eq_true, decide_eq_true_eq] at h'
    have hpos : 0 < (applyOptions {} o m).timeout ∧ (applyOptions {} o m).timeout < 2147483648 := by
      rw [f2]
      cases hms : m.timeoutms with
      | true =>
        simp only [↓reduceIte, h'.2]
        have := hwf.timeoutR
        omega
      | false =>
        have : m.timeout = true := by simpa [hms] using h'.1
        simp only [Bool.false_eq_true, ↓reduceIte, this, Bool.true_and, decide_eq_true_eq, h'.2]
        exact secToMs_bounds _ h'.2
    exact ⟨k2 (by rw [hm]; exact h) (by omega), hpos⟩
  · intro h
    have h' : (m.tries && decide (o.tries > 0)) = true := by simpa [normMask] using h
    simp only [Bool.and_eq_true, decide_eq_true_eq] at h'
    have hpos : 0 < (applyOptions {} o m).tries ∧ (applyOptions {} o m).tries < 2147483648 := by
      rw [f3]; simp only [h, ↓reduceIte]
      have := hwf.triesR
      omega
    exact ⟨k3 (by rw [hm]; exact h) (by omega), hpos⟩
  · intro h
    have h' : (m.ndots && decide (o.ndots ≥ 0)) = true := by simpa [normMask] using h
    simp only [Bool.and_eq_true, decide_eq_true_eq] at h'
    refine ⟨k4 (by rw [hm]; exact h), ?_⟩
    rw [f4]; simp only [h, ↓reduceIte]
    have := hwf.ndotsR
    omega
  · refine ⟨u1, ?_⟩
    intro h
    have h' : (m.maxtimeoutms && decide (o.maxtimeout > 0)) = true := by simpa [normMask] using h
    simp only [Bool.and_eq_true, decide_eq_true_eq] at h'
    rw [f5]; simp only [h, ↓reduceIte]
    have := hwf.maxtimeoutR
    omega
  · refine ⟨u4, ?_⟩
    intro h
    have h' : (m.sndbuf && decide (o.sndbuf > 0)) = true := by simpa [normMask] using h
    simp only [Bool.and_eq_true, decide_eq_true_eq] at h'
    rw [f9]; simp only [h, ↓reduceIte]; exact h'.2
  · refine ⟨u5, ?_⟩
    intro h
    have h' : (m.rcvbuf && decide (o.rcvbuf > 0)) = true := by simpa [normMask] using h
    simp only [Bool.and_eq_true, decide_eq_true_eq] at h'
    rw [f10]; simp only [h, ↓reduceIte]; exact h'.2
  · intro h
    have h' : (m.ednspsz && decide (o.ednspsz > 0)) = true := by simpa [normMask] using h
    simp only [Bool.and_eq_true, decide_eq_true_eq] at h'
    have hpos : 0 < (applyOptions {} o m).ednspsz ∧ (applyOptions {} o m).ednspsz < 2147483648 := by
      rw [f11]; simp only [h, ↓reduceIte]
      have := hwf.ednspszR
      omega
    exact ⟨k5 (by rw [hm]; exact h) (by omega), hpos⟩
  · intro h
    have h' : (m.lookups && o.lookups.isSome) = true := by simpa [normMask] using h
    simp only [Bool.and_eq_true] at h'
    have hs : (applyOptions {} o m).lookups.isSome = true := by rw [f13]; simp only [h, ↓reduceIte]; exact h'.2
    exact ⟨k6 (by rw [hm]; exact h) hs, hs⟩
  · intro h
    exact k7 (by rw [hm]; exact h)
  · refine ⟨u6, ?_⟩
    intro h
    have h' : (m.resolvconf && o.resolvPath.isSome) = true := by simpa [normMask] using h
    simp only [Bool.and_eq_true] at h'
    rw [f15]; simp only [h, ↓reduceIte]; exact h'.2
  · refine ⟨u7, ?_⟩
    intro h
    have h' : (m.hostsFile && o.hostsPath.isSome) = true := by simpa [normMask] using h
    simp only [Bool.and_eq_true] at h'
    rw [f16]; simp only [h, ↓reduceIte]; exact h'.2
  · refine ⟨u8, ?_⟩
    intro h
    have h' : (m.udpMaxQueries && decide (o.udpMaxQueries > 0)) = true := by simpa [normMask] using h
    simp only [Bool.and_eq_true, decide_eq_true_eq] at h'
    rw [f17]; simp only [h, ↓reduceIte]
    have := hwf.udpMaxQueriesR
    omega
  · intro h
    exact k10 (by rw [hm]; exact h)
  · intro h
    have h' : (m.servers && decide (o.nservers > 0)) = true := by simpa [normMask] using h
    simp only [Bool.and_eq_true, decide_eq_true_eq] at h'
    have hne : (applyOptions {} o m).servers ≠ [] := by
      rw [f21]; simp only [h, ↓reduceIte]
      have := hwf.nservers h'.2
      cases hs : o.servers with
      | nil => exact absurd hs this
      | cons x r => simp only [List.map_cons]; exact serversUpdate_ne_nil _ _ _ _ _ _
    exact ⟨k8 (by rw [hm]; exact h) hne, hne⟩

/-- masking again what was saved keeps the mask -/
theorem normMask_saved (e : SysEnv) (o : Options) (m : Mask) (hwf : o.WF) :
    normMask (savedOptions (finish (applyOptions {} o m) e)) (normMask o m) = normMask o m := by
  obtain ⟨g0, g1, g2, g3, g4, g5, g6, g7, g8, g9, g10, g11, g12, g13, g14, g15, g16, g17⟩ := init_facts e o m hwf
  have hms : (normMask o m).timeout = false := rfl
  have hqc : (normMask o m).queryCache = true := rfl
  apply Mask.ext <;> simp only [normMask, savedOptions, g0]
  case timeoutms =>
    cases h : ((m.timeoutms || m.timeout) && decide (o.timeout > 0)) with
    | false => simp
    | true =>
      have hb : (normMask o m).timeoutms = true := h
      obtain ⟨e1, e2, e3⟩ := g2 hb
      simp only [Bool.or_false, Bool.true_and, ↓reduceIte, e1, decide_eq_true_eq]
      rw [toInt32_small _ e3]; omega
  case tries =>
    cases h : (m.tries && decide (o.tries > 0)) with
    | false => simp
    | true =>
      have hb : (normMask o m).tries = true := h
      obtain ⟨e1, e2, e3⟩ := g3 hb
      simp only [Bool.true_and, ↓reduceIte, e1, decide_eq_true_eq]
      rw [toInt32_small _ e3]; omega
  case ndots =>
    cases h : (m.ndots && decide (o.ndots ≥ 0)) with
    | false => simp
    | true =>
      have hb : (normMask o m).ndots = true := h
      obtain ⟨e1, e3⟩ := g4 hb
      simp only [Bool.true_and, ↓reduceIte, e1, decide_eq_true_eq]
      rw [toInt32_small _ e3]; omega
  case servers =>
    cases h : (m.servers && decide (o.nservers > 0)) with
    | false => simp
    | true =>
      have hb : (normMask o m).servers = true := h
      obtain ⟨e1, e2⟩ := g17 hb
      simp only [Bool.true_and, ↓reduceIte, e1, decide_eq_true_eq]
      obtain ⟨f0, f1, f2, f3, f4, f5, f6, f7, f8, f9, f10, f11, f12, f13, f14, f15, f16, f17, f18, f19, f20, f21⟩ :=
        applyOptions_fields {} o m
      rw [f21] at e2 ⊢
      simp only [hb, ↓reduceIte] at e2 ⊢
      have hall := serversUpdate_v4_all (applyOptions {} o m).udpPort (applyOptions {} o m).tcpPort
        (hasFlag (applyOptions {} o m).flags flagPrimary) o.servers
      generalize serversUpdate (applyOptions {} o m).udpPort (applyOptions {} o m).tcpPort
        (hasFlag (applyOptions {} o m).flags flagPrimary) ({} : Chan).servers (List.map v4Server o.servers) = S at e2 hall
      cases S with
      | nil => exact absurd rfl e2
      | cons x r =>
        obtain ⟨ox, hx⟩ := hall x (by simp)
        simp [v4of, hx]
  case lookups =>
    cases h : (m.lookups && o.lookups.isSome) with
    | false => simp
    | true =>
      have hb : (normMask o m).lookups = true := h
      obtain ⟨e1, e2⟩ := g10 hb
      simp [e1, e2]
  case sndbuf =>
    cases h : (m.sndbuf && decide (o.sndbuf > 0)) with
    | false => simp
    | true =>
      have hb : (normMask o m).sndbuf = true := h
      have := g7.2 hb
      simp [g7.1, this]
  case rcvbuf =>
    cases h : (m.rcvbuf && decide (o.rcvbuf > 0)) with
    | false => simp
    | true =>
      have hb : (normMask o m).rcvbuf = true := h
      have := g8.2 hb
      simp [g8.1, this]
  case ednspsz =>
    cases h : (m.ednspsz && decide (o.ednspsz > 0)) with
    | false => simp
    | true =>
      have hb : (normMask o m).ednspsz = true := h
      obtain ⟨e1, e2, e3⟩ := g9 hb
      simp only [Bool.true_and, ↓reduceIte, e1, decide_eq_true_eq]
      rw [toInt32_small _ e3]; omega
  case resolvconf =>
    cases h : (m.resolvconf && o.resolvPath.isSome) with
    | false => simp
    | true =>
      have hb : (normMask o m).resolvconf = true := h
      simp [g12.1, g12.2 hb]
  case hostsFile =>
    cases h : (m.hostsFile && o.hostsPath.isSome) with
    | false => simp
    | true =>
      have hb : (normMask o m).hostsFile = true := h
      simp [g13.1, g13.2 hb]
  case udpMaxQueries =>
    cases h : (m.udpMaxQueries && decide (o.udpMaxQueries > 0)) with
    | false => simp
    | true =>
      have hb : (normMask o m).udpMaxQueries = true := h
      obtain ⟨e2, e3⟩ := g14.2 hb
      simp only [Bool.true_and, ↓reduceIte, g14.1, decide_eq_true_eq]
      rw [toInt32_small _ e3]; omega
  case maxtimeoutms =>
    cases h : (m.maxtimeoutms && decide (o.maxtimeout > 0)) with
    | false => simp
    | true =>
      have hb : (normMask o m).maxtimeoutms = true := h
      obtain ⟨e2, e3⟩ := g5.2 hb
      simp only [Bool.true_and, ↓reduceIte, g5.1, decide_eq_true_eq]
      rw [toInt32_small _ e3]; omega

/-- re-applying the saved options gives the same pre-sysconfig channel, except that a search list the
    defaults derived from the host name is now supplied explicitly -/
theorem applyOptions_saved (e : SysEnv) (o : Options) (m : Mask) (hwf : o.WF) :
    applyOptions {} (savedOptions (finish (applyOptions {} o m) e)) (normMask o m) =
      { applyOptions {} o m with
        domains := if (normMask o m).domains then (finish (applyOptions {} o m) e).domains else [] } := by
  obtain ⟨g0, g1, g2, g3, g4, g5, g6, g7, g8, g9, g10, g11, g12, g13, g14, g15, g16, g17⟩ := init_facts e o m hwf
  have hnm := normMask_saved e o m hwf
  obtain ⟨f0, f1, f2, f3, f4, f5, f6, f7, f8, f9, f10, f11, f12, f13, f14, f15, f16, f17, f18, f19, f20, f21⟩ :=
    applyOptions_fields {} o m
  obtain ⟨s0, s1, s2, s3, s4, s5, s6, s7, s8, s9, s10, s11, s12, s13, s14, s15, s16, s17, s18, s19, s20, s21⟩ :=
    applyOptions_fields {} (savedOptions (finish (applyOptions {} o m) e)) (normMask o m)
  rw [hnm] at s0 s3 s4 s5 s9 s10 s11 s13 s15 s16 s17 s21
  have hms : (normMask o m).timeout = false := rfl
  have hqc : (normMask o m).queryCache = true := rfl
  have hfl : (normMask o m).flags = m.flags := rfl
  have hup : (normMask o m).udpPort = m.udpPort := rfl
  have htp : (normMask o m).tcpPort = m.tcpPort := rfl
  have hro : (normMask o m).rotate = m.rotate := rfl
  have hnr : (normMask o m).norotate = m.norotate := rfl
  have hdo : (normMask o m).domains = m.domains := rfl
  have hso : (normMask o m).sortlist = m.sortlist := rfl
  have hsf : (normMask o m).serverFailover = m.serverFailover := rfl
  -- flags first: the server list depends on them
  have eflags : (applyOptions {} (savedOptions (finish (applyOptions {} o m) e)) (normMask o m)).flags = (applyOptions {} o m).flags := by
    rw [s1, f1, hfl]
    cases hm : m.flags with
    | false => rfl
    | true =>
      have hb : (normMask o m).flags = true := by rw [hfl]; exact hm
      obtain ⟨e1, e2⟩ := g1 hb
      simp only [↓reduceIte, savedOptions, g0, hb, e1]
      rw [toU32_toInt32 _ e2, f1]; simp [hm]
  have eudp : (applyOptions {} (savedOptions (finish (applyOptions {} o m) e)) (normMask o m)).udpPort = (applyOptions {} o m).udpPort := by
    rw [s7, f7, hup]
    cases hm : m.udpPort with
    | false => rfl
    | true => simp only [↓reduceIte, savedOptions, g0, hup, hm, g6.1]; rw [f7]; simp [hm]
  have etcp : (applyOptions {} (savedOptions (finish (applyOptions {} o m) e)) (normMask o m)).tcpPort = (applyOptions {} o m).tcpPort := by
    rw [s8, f8, htp]
    cases hm : m.tcpPort with
    | false => rfl
    | true => simp only [↓reduceIte, savedOptions, g0, htp, hm, g6.2]; rw [f8]; simp [hm]
  apply Chan.ext
  case flags => exact eflags
  case udpPort => exact eudp
  case tcpPort => exact etcp
  case optmask => exact s0.trans f0.symm
  case timeout =>
    rw [s2]
    simp only [hms, Bool.false_and, Bool.false_eq_true, ↓reduceIte]
    cases hb : (normMask o m).timeoutms with
    | false =>
      simp only [Bool.false_eq_true, ↓reduceIte]
      rw [f2]
      have : ((m.timeoutms || m.timeout) && decide (o.timeout > 0)) = false := hb
      cases h1 : m.timeoutms <;> cases h2 : m.timeout <;> simp_all <;> (intro h; omega)
    | true =>
      obtain ⟨e1, e2, e3⟩ := g2 hb
      simp only [↓reduceIte, savedOptions, g0, hb, e1]
      rw [toInt32_small _ e3]
      have : ((applyOptions {} o m).timeout : Int) > 0 := by omega
      simp [this]
      intro h; omega
  case tries =>
    rw [s3]
    cases hb : (normMask o m).tries with
    | false => rw [f3]; simp [hb]
    | true =>
      obtain ⟨e1, e2, e3⟩ := g3 hb
      simp only [↓reduceIte, savedOptions, g0, hb, e1]
      rw [toInt32_small _ e3]; simp
  case ndots =>
    rw [s4]
    cases hb : (normMask o m).ndots with
    | false => rw [f4]; simp [hb]
    | true =>
      obtain ⟨e1, e3⟩ := g4 hb
      simp only [↓reduceIte, savedOptions, g0, hb, e1]
      rw [toInt32_small _ e3]; simp
  case maxtimeout =>
    rw [s5]
    cases hb : (normMask o m).maxtimeoutms with
    | false => rw [f5]; simp [hb]
    | true =>
      obtain ⟨e2, e3⟩ := g5.2 hb
      simp only [↓reduceIte, savedOptions, g0, hb, g5.1]
      rw [toInt32_small _ e3]; simp
  case rotate => rw [s6, f6, hro, hnr]
  case sndbuf =>
    rw [s9]
    cases hb : (normMask o m).sndbuf with
    | false => rw [f9]; simp [hb]
    | true =>
      have := g7.2 hb
      simp [savedOptions, g0, hb, g7.1, this]
  case rcvbuf =>
    rw [s10]
    cases hb : (normMask o m).rcvbuf with
    | false => rw [f10]; simp [hb]
    | true =>
      have := g8.2 hb
      simp [savedOptions, g0, hb, g8.1, this]
  case ednspsz =>
    rw [s11]
    cases hb : (normMask o m).ednspsz with
    | false => rw [f11]; simp [hb]
    | true =>
      obtain ⟨e1, e2, e3⟩ := g9 hb
      simp only [↓reduceIte, savedOptions, g0, hb, e1]
      rw [toInt32_small _ e3]; simp
  case domains =>
    rw [s12, hdo]
    cases hm : m.domains with
    | false => simp [hdo, hm]
    | true =>
      simp only [savedOptions, g0, hdo, hm, ↓reduceIte, Bool.true_and]
      cases hd : (finish (applyOptions {} o m) e).domains with
      | nil => simp
      | cons x r => simp
  case lookups =>
    rw [s13]
    cases hb : (normMask o m).lookups with
    | false => rw [f13]; simp [hb]
    | true =>
      obtain ⟨e1, e2⟩ := g10 hb
      simp [savedOptions, g0, hb, e1]
  case sortlist =>
    rw [s14, hso]
    cases hm : m.sortlist with
    | false => rw [f14]; simp [hm]
    | true =>
      have hb : (normMask o m).sortlist = true := by rw [hso]; exact hm
      have e1 := g11 hb
      simp only [savedOptions, g0, hb, ↓reduceIte, Bool.true_and, e1]
      rw [f14]
      simp only [hm, Bool.true_and]
      by_cases hn : o.nsort > 0
      · have := hwf.nsort hn
        simp only [hn, decide_true, ↓reduceIte]
        have hl : (o.sortlist.length : Int) > 0 := by omega
        simp [hl]
      · simp [hn]
  case resolvPath =>
    rw [s15]
    cases hb : (normMask o m).resolvconf with
    | false => rw [f15]; simp [hb]
    | true => simp [savedOptions, g0, hb, g12.1]
  case hostsPath =>
    rw [s16]
    cases hb : (normMask o m).hostsFile with
    | false => rw [f16]; simp [hb]
    | true => simp [savedOptions, g0, hb, g13.1]
  case udpMaxQueries =>
    rw [s17]
    cases hb : (normMask o m).udpMaxQueries with
    | false => rw [f17]; simp [hb]
    | true =>
      obtain ⟨e2, e3⟩ := g14.2 hb
      simp only [↓reduceIte, savedOptions, g0, hb, g14.1]
      rw [toInt32_small _ e3]; simp
  case qcacheMaxTtl =>
    rw [s18]
    simp [hqc, savedOptions, g0, g15]
  case retryChance =>
    rw [s19, hsf]
    cases hm : m.serverFailover with
    | false => rw [f19]; simp [hm]
    | true =>
      have hb : (normMask o m).serverFailover = true := by rw [hsf]; exact hm
      simp [savedOptions, g0, hb, (g16 hb).1]
  case retryDelay =>
    rw [s20, hsf]
    cases hm : m.serverFailover with
    | false => rw [f20]; simp [hm]
    | true =>
      have hb : (normMask o m).serverFailover = true := by rw [hsf]; exact hm
      simp [savedOptions, g0, hb, (g16 hb).2]
  case servers =>
    rw [s21, eflags, eudp, etcp]
    cases hb : (normMask o m).servers with
    | false => rw [f21]; simp [hb]
    | true =>
      obtain ⟨e1, e2⟩ := g17 hb
      simp only [↓reduceIte, savedOptions, g0, hb, e1]
      rw [f21]
      simp only [hb, ↓reduceIte]
      exact serversUpdate_v4_fix _ _ _ _

/-- `init_by_defaults` on the search list -/
def defaultDomains (h : Option Bytes) (d : List Bytes) : List Bytes :=
  if d.isEmpty then (match h with
    | some x => [x]
    | none => d) else d

theorem defaultDomains_idem (h : Option Bytes) (d : List Bytes) :
    defaultDomains h (defaultDomains h d) = defaultDomains h d := by
  unfold defaultDomains
  cases d <;> cases h <;> simp

theorem applyDefaults_domains (c : Chan) (e : SysEnv) : (applyDefaults c e).domains = defaultDomains e.hostDomain c.domains := by
  unfold applyDefaults defaultDomains
  rfl

theorem initBySysconfig_domains (a : Chan) (e : SysEnv) (d : List Bytes) :
    (initBySysconfig { a with domains := d } e = { a with domains := d } ∧ initBySysconfig a e = a) ∨
    ∃ s, initBySysconfig { a with domains := d } e = sysconfigApply { a with domains := d } s ∧
         initBySysconfig a e = sysconfigApply a s := by
  unfold initBySysconfig
  simp only
  cases readSysconfig e a.resolvPath with
  | none => left; exact ⟨rfl, rfl⟩
  | some s => right; exact ⟨s, rfl, rfl⟩

/-- supplying the search list the defaults would derive anyway changes nothing -/
theorem finish_domains (a : Chan) (e : SysEnv) (hm : a.optmask.domains = true) :
    finish { a with domains := (finish a e).domains } e = finish a e ∧
    defaultsFail (initBySysconfig { a with domains := (finish a e).domains } e) = defaultsFail (initBySysconfig a e) := by
  unfold finish
  rcases initBySysconfig_domains a e (applyDefaults (initBySysconfig a e) e).domains with ⟨h1, h2⟩ | ⟨s, h1, h2⟩
  · rw [h1, h2]
    constructor
    · apply Chan.ext
      case domains => simp only [applyDefaults_domains]; exact defaultDomains_idem _ _
      all_goals simp only [applyDefaults, defaultFlags]
    · simp [defaultsFail, defaultFlags]
  · rw [h1, h2]
    constructor
    · have hdom : ∀ d, (sysconfigApply { a with domains := d } s).domains = d := by
        intro d; simp only [sysconfigApply, sysconfigApplyG, hm]; cases s.domains <;> simp
      have hdom2 : (sysconfigApply a s).domains = a.domains := by
        simp only [sysconfigApply, sysconfigApplyG, hm]; cases s.domains <;> simp
      apply Chan.ext
      case domains =>
        simp only [applyDefaults_domains, hdom]; exact defaultDomains_idem _ _
      all_goals simp [applyDefaults, defaultFlags, sysconfigApply, sysconfigApplyG]
    · simp [defaultsFail, defaultFlags, sysconfigApply, sysconfigApplyG]

/-- `ares_save_options` succeeds on every channel `ares_init_options` returns -/
theorem finish_configCheck (a : Chan) (e : SysEnv) (h : defaultsFail (initBySysconfig a e) = false) :
    configCheck (finish a e) = true := by
  unfold finish at *
  generalize initBySysconfig a e = b at h ⊢
  unfold defaultsFail at h
  unfold configCheck applyDefaults
  simp only [Bool.and_eq_true, Bool.not_eq_eq_eq_not, Bool.not_true, bne_iff_ne, ne_eq]
  refine ⟨⟨⟨?_, ?_⟩, ?_⟩, ?_⟩
  · cases b.lookups <;> simp
  · cases hs : b.servers with
    | nil =>
      simp only [List.isEmpty_nil, ↓reduceIte]
      have := serversUpdate_ne_nil b.udpPort b.tcpPort (hasFlag (defaultFlags b) flagPrimary) [] (v4Server [127, 0, 0, 1]) []
      cases hx : serversUpdate b.udpPort b.tcpPort (hasFlag (defaultFlags b) flagPrimary) [] [v4Server [127, 0, 0, 1]] with
      | nil => exact absurd hx this
      | cons _ _ => rfl
    | cons _ _ => rfl
  · split <;> omega
  · split <;> omega

theorem initOptions_some (e : SysEnv) (o : Options) (m : Mask) :
    initOptions e (some o) m =
      if defaultsFail (initBySysconfig (applyOptions {} o m) e) then .error .enoserver
      else .ok (finish (applyOptions {} o m) e) := by
  unfold initOptions initByOptions initByDefaults finish
  rfl

/-- Options saved from a freshly initialised channel and used to initialise a new one (under the same
    system configuration) give exactly the same channel. -/
theorem save_init_fixpoint' (e : SysEnv) (o : Options) (m : Mask) (ch : Chan) (hwf : o.WF)
    (h : initOptions e (some o) m = .ok ch) :
    ∃ o' m', saveOptions ch = .ok (o', m') ∧ initOptions e (some o') m' = .ok ch := by
  rw [initOptions_some] at h
  split at h
  · simp at h
  · rename_i hnf
    have hnf' : defaultsFail (initBySysconfig (applyOptions {} o m) e) = false := by simpa using hnf
    simp only [Except.ok.injEq] at h
    subst h
    have hcc := finish_configCheck _ e hnf'
    have hmask : (finish (applyOptions {} o m) e).optmask = normMask o m := (init_facts e o m hwf).1
    refine ⟨savedOptions (finish (applyOptions {} o m) e), normMask o m, ?_, ?_⟩
    · unfold saveOptions
      simp [hcc, hmask]
    · rw [initOptions_some, applyOptions_saved e o m hwf]
      have hA : (applyOptions {} o m).optmask = normMask o m := (applyOptions_fields {} o m).1
      cases hd : (normMask o m).domains with
      | true =>
        simp only [↓reduceIte]
        obtain ⟨k1, k2⟩ := finish_domains (applyOptions {} o m) e (by rw [hA]; exact hd)
        rw [k2, k1]
        simp [hnf']
      | false =>
        simp only [Bool.false_eq_true, ↓reduceIte]
        have hdm : (applyOptions {} o m).domains = [] := by
          rw [(applyOptions_fields {} o m).2.2.2.2.2.2.2.2.2.2.2.2.1]
          have : m.domains = false := hd
          simp [this]
        have : ({ applyOptions {} o m with domains := [] } : Chan) = applyOptions {} o m := by
          apply Chan.ext <;> simp [hdm]
        rw [this]
        simp [hnf']


end Cares.Text
