import CaresLemmas.ChanPolicyProbe2Picks
import CaresLemmas.ChanPolicyWritesSend
import CaresLemmas.ChanPolicyRank
/-!
# C09 — the assertions of `execG` never fail: `execG fuel c s = exec fuel c s`
-/
namespace Cares.Chan
set_option linter.unusedVariables false

theorem draw2_picks (s : St) : s.draw2.2.picks = s.picks := by
  obtain ⟨o, f, e⟩ := draw2_shape s; rw [e]

theorem trigOk_congr {s s' : St} (h : s'.picks = s.picks) (srvId key : Nat) :
    trigOk srvId key s' = trigOk srvId key s := by
  unfold trigOk; rw [h]

/-- `ares_probe_failed_server`: when the lottery is entered right after an ordinary attempt at the failure-free server
    `srvId` (`trigOk`), the probe it creates satisfies `probeSendOk` -/
theorem bodyProbe_guard (go : Call → St → St × Ret) (srvId key : Nat) (s : St) (h : trigOk srvId key s = true) :
    bodyProbe (guardGo go) srvId key s = bodyProbe go srvId key s := by
  unfold bodyProbe
  split
  · rfl
  · rename_i q hq
    dsimp only
    split
    · rfl
    · rename_i last _
      split
      · rfl
      · rename_i hcond
        obtain ⟨hnow, hcfg, hsrv⟩ := draw2_frame s
        split
        · rfl
        · split
          · rfl
          · rename_i pv hfind
            split
            · rfl
            · rename_i hne
              have hp := List.find?_some hfind
              have hm : pv ∈ s.servers := mem_sortedServers.1 (List.mem_of_find?_eq_some hfind)
              simp only [Bool.and_eq_true, decide_eq_true_eq, Bool.not_eq_eq_eq_not, Bool.not_true, hnow] at hp
              simp only [Bool.or_eq_true, beq_iff_eq, not_or] at hcond
              rw [guardGo_of_guard]
              show (pv.id == pv.id && probeSendOk pv.id _) = true
              rw [beq_self_eq_true, Bool.true_and]
              unfold probeSendOk
              simp only [Bool.and_eq_true]
              refine ⟨⟨?_, ?_⟩, ?_⟩
              · show (s.draw2.2.cfg.retryChance != 0) = true
                rw [hcfg]; simpa using hcond.2
              · rw [List.any_eq_true]
                refine ⟨{ pv with probePending := true }, ?_, ?_⟩
                · show _ ∈ (s.draw2.2.servers.map _)
                  rw [hsrv]
                  exact List.mem_map.2 ⟨pv, hm, by simp⟩
                · show (pv.id == pv.id && decide (0 < pv.failures) && decide (pv.nextRetry ≤ s.draw2.2.now) && true) = true
                  rw [hnow]
                  simp [hp.1.1, hp.2]
              · show (match (s.draw2.2.picks).getLast? with
                  | some (_, chosen, requested, prio) => chosen != pv.id && !requested && prio.contains (chosen, 0)
                  | none => false) = true
                rw [draw2_picks]
                unfold trigOk at h
                split at h
                · rename_i k chosen requested prio hl
                  rw [hl]
                  simp only [Bool.and_eq_true, beq_iff_eq, Bool.not_eq_eq_eq_not, Bool.not_true] at h
                  obtain ⟨⟨⟨_, hc⟩, hr⟩, hpr⟩ := h
                  subst hc
                  simp only [hr, Bool.not_false, Bool.and_true, Bool.and_eq_true, bne_iff_ne, ne_eq]
                  exact ⟨fun e => hne (by simp [e]), hpr⟩
                · cases h

private def idGo : Call → St → St × Ret := fun _ s => (s, .ok)

/-- after the write: the only guarded call is the probe lottery, entered with the pick log as it is after the write -/
theorem sqAfter_guard (go : Call → St → St × Ret) (q : Query) (srv : Server) (key fd : Nat) (pd : Bool)
    (wst : Status) (s : St) (h : pd = true → trigOk srv.id key s = true) :
    sqAfter (guardGo go) q srv key fd pd wst s = sqAfter go q srv key fd pd wst s := by
  cases pd
  · rfl
  · have h := h rfl
    unfold sqAfter
    split
    · split
      · rename_i q' _ hq' _
        simp only [↓reduceIte]
        rw [guardGo_of_guard]
        show trigOk srv.id key _ = true
        rw [trigOk_congr ?_, h]
        have h1 : PkEq s.picks (sqDeadline s ((s.server? srv.id).getD srv) q'.tryCount).2 :=
          sqDeadline_pk (go := idGo) (fun _ _ h => h) s _ _ rfl
        exact sqCommit_pk (go := idGo) (fun _ _ h => h) _ q' key fd _ h1
      · rfl
      · rfl
    all_goals rfl

/-- `ares_send_query` with the assertions: when it enters the probe lottery, the entry it has just appended to the pick
    log is still the most recent one, it is an ordinary attempt, and the chosen server had no failures -/
theorem sendQueryBlocks_guard (go : Call → St → St × Ret) (hfl : ∀ fd s, (go (.flush fd) s).1.picks = s.picks)
    (reqSrv : Option Nat) (key : Nat) (s : St) :
    sendQueryBlocks (guardGo go) reqSrv key s = sendQueryBlocks go reqSrv key s := by
  unfold sendQueryBlocks
  split
  · rfl
  · rename_i q hq
    extract_lets sorted
    split
    rename_i srv? s1 hch
    split
    · rfl
    · rename_i srv
      extract_lets s2 pd existing
      split
      rename_i connRes s3 hopen
      split
      · rfl
      · rename_i fd
        extract_lets cookie newCk s4 q2
        have hw : sqWrite (guardGo go) s4 fd = sqWrite go s4 fd := rfl
        rw [hw]
        split
        rename_i wst s5 hwr
        apply sqAfter_guard
        intro hpd
        -- the pick log after the write is the one right after the choice
        have h3 : PkEq s2.picks s3 := by
          have := sqOpen_pk (go := go) (p0 := s2.picks) (fun fd s h => by unfold PkEq at *; rw [hfl]; exact h)
            s2 q srv existing rfl
          rw [hopen] at this; exact this
        have h4 : PkEq s2.picks s4 :=
          sqPrep_pk (go := go) (fun fd s h => by unfold PkEq at *; rw [hfl]; exact h) s3 q srv key fd h3
        have h5 : PkEq s2.picks s5 := by
          have := sqWrite_pk (go := go) (fun fd s h => by unfold PkEq at *; rw [hfl]; exact h) s4 fd h4
          rw [hwr] at this; exact this
        rw [trigOk_congr h5]
        -- the entry itself
        simp only [pd, Bool.and_eq_true, beq_iff_eq, Option.isNone_iff_eq_none] at hpd
        obtain ⟨⟨hreq, hfail⟩, _⟩ := hpd
        subst hreq
        have hmem : srv ∈ s.sortedServers := (sqChoose_spec s srv s1 hch).1
        unfold trigOk
        show (match (s1.picks ++ [(key, srv.id, false, sorted.map fun v => (v.id, v.failures))]).getLast? with
          | some (k, chosen, requested, prio) => k == key && chosen == srv.id && !requested && prio.contains (srv.id, 0)
          | none => false) = true
        rw [List.getLast?_concat]
        simp only [beq_self_eq_true, Bool.not_false, Bool.and_self, Bool.true_and, List.contains_eq_mem,
          decide_eq_true_eq]
        exact List.mem_map.2 ⟨srv, hmem, by rw [hfail]⟩

/-- every body, with the assertions in front of the calls it makes, is the same function — provided its own entry
    assertion holds and a flush keeps the pick log -/
theorem execBody_guard (go : Call → St → St × Ret) (hfl : ∀ fd s, (go (.flush fd) s).1.picks = s.picks)
    (c : Call) (s : St) (h : ProbeGuard c s = true) : execBody (guardGo go) c s = execBody go c s := by
  by_cases h1 : ∃ a b, c = .probe a b
  · obtain ⟨a, b, rfl⟩ := h1
    exact bodyProbe_guard go a b s h
  · by_cases h2 : ∃ a b, c = .sendQuery a b
    · obtain ⟨a, b, rfl⟩ := h2
      show bodySendQuery (guardGo go) a b s = bodySendQuery go a b s
      rw [bodySendQuery_eq, bodySendQuery_eq]
      exact sendQueryBlocks_guard go hfl a b s
    · exact execBody_guard_other go c s (fun a b e => h1 ⟨a, b, e⟩) (fun a b e => h2 ⟨a, b, e⟩)

/-- **the assertions never fail**: for every fuel, every call whose own entry assertion holds (every call other than
    `probe` / a probe's `sendNolock` — in particular every API-level call) and every state, the run with the
    assertions is the run without them -/
theorem execG_eq_exec (fuel : Nat) (c : Call) (s : St) (h : ProbeGuard c s = true) : execG fuel c s = exec fuel c s := by
  induction fuel generalizing c s with
  | zero => rfl
  | succ n ih =>
    show execBody (guardGo (execG n)) c s = execBody (exec n) c s
    have e : guardGo (execG n) = guardGo (exec n) := by
      funext c' s'
      by_cases hg : ProbeGuard c' s' = true
      · rw [guardGo_of_guard _ _ _ hg, guardGo_of_guard _ _ _ hg, ih c' s' hg]
      · have hg' : ProbeGuard c' s' = false := by simpa using hg
        rw [guardGo_of_not_guard _ _ _ hg', guardGo_of_not_guard _ _ _ hg']
    rw [e]
    exact execBody_guard (exec n) (fun fd s => exec_flush_pk n fd s) c s h

/-! ### a failed assertion is visible at the end of the run -/

/-- a failed assertion aborts like running out of fuel … -/
theorem guardGo_fail (go : Call → St → St × Ret) (c : Call) (s : St) (h : ProbeGuard c s = false) :
    (guardGo go c s).1.outOfFuel = true := by
  rw [guardGo_of_not_guard go c s h]; rfl

theorem guardGo_oof {go : Call → St → St × Ret} (hgo : GoInv IsOof go) : GoInv IsOof (guardGo go) := by
  intro c s h
  by_cases hg : ProbeGuard c s = true
  · rw [guardGo_of_guard _ _ _ hg]; exact hgo c s h
  · rw [guardGo_of_not_guard _ _ _ (by simpa using hg)]; rfl

/-- … and the flag it sets is never cleared by the rest of the guarded run -/
theorem execG_oof (fuel : Nat) (c : Call) (s : St) (h : s.outOfFuel = true) : (execG fuel c s).1.outOfFuel = true := by
  induction fuel generalizing c s with
  | zero => rfl
  | succ n ih => exact execBody_oof (guardGo_oof (fun c s h => ih c s h)) c s h

/-- the content of the assertion made when a probe query is created -/
theorem probeSendOk_spec (id : Nat) (s : St) (h : probeSendOk id s = true) :
    s.cfg.retryChance ≠ 0 ∧
    (∃ v ∈ s.servers, v.id = id ∧ 0 < v.failures ∧ v.nextRetry ≤ s.now ∧ v.probePending = true) ∧
    ∃ key chosen prio, s.picks.getLast? = some (key, chosen, false, prio) ∧ chosen ≠ id ∧ (chosen, 0) ∈ prio := by
  unfold probeSendOk at h
  simp only [Bool.and_eq_true, bne_iff_ne, ne_eq, List.any_eq_true, beq_iff_eq, decide_eq_true_eq] at h
  obtain ⟨⟨h1, v, hv, ⟨⟨hid, hf⟩, hr⟩, hp⟩, h3⟩ := h
  refine ⟨h1, ⟨v, hv, hid, hf, hr, hp⟩, ?_⟩
  split at h3
  · rename_i k chosen requested prio hl
    simp only [Bool.and_eq_true, bne_iff_ne, ne_eq, Bool.not_eq_eq_eq_not, Bool.not_true, List.contains_eq_mem,
      decide_eq_true_eq] at h3
    obtain ⟨⟨hc, hr⟩, hm⟩ := h3
    subst hr
    exact ⟨k, chosen, prio, hl, hc, hm⟩
  · cases h3

/-- the assertion at a probe's `sendNolock`, spelled out -/
theorem probeGuard_spec (srv : Option Nat) (nocache noretry : Bool) (spec : ReqSpec) (pid : Nat) (react : List Nat)
    (s : St) (h : ProbeGuard (.sendNolock srv nocache noretry spec (.probe pid) react) s = true) :
    ∃ id, srv = some id ∧ pid = id ∧ nocache = true ∧ noretry = true ∧ react = [] ∧ s.cfg.retryChance ≠ 0 ∧
      (∃ v ∈ s.servers, v.id = id ∧ 0 < v.failures ∧ v.nextRetry ≤ s.now ∧ v.probePending = true) ∧
      ∃ key chosen prio, s.picks.getLast? = some (key, chosen, false, prio) ∧ chosen ≠ id ∧ (chosen, 0) ∈ prio := by
  cases srv with
  | none => cases h
  | some id =>
    have h' : (nocache && noretry && react.isEmpty && pid == id && probeSendOk id s) = true := h
    simp only [Bool.and_eq_true, List.isEmpty_iff, beq_iff_eq] at h'
    obtain ⟨⟨⟨⟨h1, h2⟩, h3⟩, hp⟩, h4⟩ := h'
    obtain ⟨a, b, c⟩ := probeSendOk_spec id s h4
    exact ⟨id, rfl, hp, h1, h2, h3, a, b, c⟩

/-- with distinct server ids the eligible server is the one `server? id` finds -/
theorem probeSendOk_server (id : Nat) (s : St) (hn : s.IdsNodup) (h : probeSendOk id s = true) :
    ∃ v, s.server? id = some v ∧ 0 < v.failures ∧ v.nextRetry ≤ s.now ∧ v.probePending = true := by
  obtain ⟨_, ⟨v, hv, hid, hf, hr, hp⟩, _⟩ := probeSendOk_spec id s h
  cases hs : s.server? id with
  | none =>
    have := List.find?_eq_none.1 hs v hv
    simp [hid] at this
  | some w =>
    obtain ⟨hw, hwid⟩ := server?_mem hs
    have e : w = v := mem_servers_id_inj hn hw hv (by rw [hwid, hid])
    subst e
    exact ⟨_, rfl, hf, hr, hp⟩

end Cares.Chan
