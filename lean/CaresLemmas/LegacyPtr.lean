import CaresModel.AddrInfo
/-! Helper lemmas for `ptr_name_correct`: `ares_dns_addr_to_ptr` followed by the RFC reading of the name. -/
namespace Cares.AddrInfo
open Cares.Legacy

/-- the text one address byte contributes -/
def ptrPiece (family : Nat) (b : UInt8) : Bytes :=
  if family = afINET then numDec b.toNat ++ [46]
  else [hexDigit (b.toNat % 16), 46, hexDigit (b.toNat / 16 % 16), 46]

theorem ptrLoop_eq (family : Nat) (bs : List UInt8) (buf : Bytes) :
    ptrLoop family bs buf = buf ++ bs.flatMap (ptrPiece family) := by
  induction bs generalizing buf with
  | nil => simp [ptrLoop]
  | cons b rest ih =>
    unfold ptrLoop
    by_cases h : family = afINET
    · rw [if_pos h, ih]; simp [h, ptrPiece, List.append_assoc]
    · rw [if_neg h, ih]; simp [h, ptrPiece, List.append_assoc]

theorem splitDots_nodot (l : Bytes) (h : ∀ c ∈ l, c ≠ 46) : splitDots l = [l] := by
  induction l with
  | nil => rfl
  | cons c rest ih =>
    have hc : c ≠ 46 := h c List.mem_cons_self
    have hr : ∀ d ∈ rest, d ≠ 46 := fun d hd => h d (List.mem_cons_of_mem _ hd)
    simp [splitDots, hc, ih hr]

theorem splitDots_label (l rest : Bytes) (h : ∀ c ∈ l, c ≠ 46) :
    splitDots (l ++ 46 :: rest) = l :: splitDots rest := by
  induction l with
  | nil => simp [splitDots]
  | cons c r ih =>
    have hc : c ≠ 46 := h c List.mem_cons_self
    have hr : ∀ d ∈ r, d ≠ 46 := fun d hd => h d (List.mem_cons_of_mem _ hd)
    simp [splitDots, hc, ih hr]

/-- decimal rendering and reading of an octet agree (all 256 values, by evaluation) -/
theorem octet_roundtrip : ∀ n, n < 256 → parseOctet (numDec n) = some (UInt8.ofNat n) := by
  decide +kernel

theorem numDec_nodot : ∀ n, n < 256 → ∀ c ∈ numDec n, c ≠ 46 := by
  decide +kernel

theorem hex_roundtrip : ∀ n, n < 16 → parseNibble [hexDigit n] = some n := by
  decide +kernel

theorem hexDigit_nodot : ∀ n, n < 16 → hexDigit n ≠ 46 := by
  decide +kernel


/-! ### IPv4 -/

theorem splitDots_v4 (bs : List UInt8) (suffix : Bytes) :
    splitDots (bs.flatMap (ptrPiece afINET) ++ suffix) = bs.map (fun b => numDec b.toNat) ++ splitDots suffix := by
  induction bs with
  | nil => simp
  | cons b rest ih =>
    have hb : b.toNat < 256 := b.toNat_lt
    simp only [List.flatMap_cons, ptrPiece, ↓reduceIte, List.append_assoc, List.singleton_append, List.map_cons,
      List.cons_append]
    rw [splitDots_label _ _ (numDec_nodot b.toNat hb)]
    simp only [List.nil_append, ih]

theorem mapM_parseOctet (bs : List UInt8) : (bs.map (fun b => numDec b.toNat)).mapM parseOctet = some bs := by
  induction bs with
  | nil => rfl
  | cons b rest ih =>
    have hb : b.toNat < 256 := b.toNat_lt
    simp [List.mapM_cons, octet_roundtrip b.toNat hb, ih]

theorem splitDots_inAddrArpa : splitDots inAddrArpa = [lblInAddr, lblArpa] := by decide
theorem splitDots_ip6Arpa : splitDots ip6Arpa = [lblIp6, lblArpa] := by decide

theorem ptr_v4 (addr : Bytes) (h : addr.length = 4) :
    (addrToPtr afINET addr).bind parsePtrName = some (afINET, addr) := by
  unfold addrToPtr
  simp only [ne_eq, not_true_eq_false, false_and, ↓reduceIte, Option.bind_some, ptrLoop_eq, List.nil_append]
  unfold parsePtrName
  simp only [splitDots_v4, splitDots_inAddrArpa]
  have hl : (addr.reverse.map (fun b => numDec b.toNat) ++ [lblInAddr, lblArpa]).length = 6 := by simp [h]
  have hd : (addr.reverse.map (fun b => numDec b.toNat) ++ [lblInAddr, lblArpa]).drop 4 = [lblInAddr, lblArpa] := by
    rw [List.drop_append_of_le_length (by simp [h])]
    simp [h]
  have ht : (addr.reverse.map (fun b => numDec b.toNat) ++ [lblInAddr, lblArpa]).take 4 =
      addr.reverse.map (fun b => numDec b.toNat) := by
    rw [List.take_append_of_le_length (by simp [h])]
    apply List.take_of_length_le; simp [h]
  simp only [hl, hd, and_self, ↓reduceIte, ht]
  rw [← List.map_reverse, List.reverse_reverse, mapM_parseOctet]
  rfl

/-! ### IPv6 -/

theorem splitDots_v6 (bs : List UInt8) (suffix : Bytes) :
    splitDots (bs.flatMap (ptrPiece afINET6) ++ suffix) =
      bs.flatMap (fun b => [[hexDigit (b.toNat % 16)], [hexDigit (b.toNat / 16 % 16)]]) ++ splitDots suffix := by
  induction bs with
  | nil => simp
  | cons b rest ih =>
    have h1 : ∀ c ∈ [hexDigit (b.toNat % 16)], c ≠ 46 := by
      intro c hc; simp only [List.mem_singleton] at hc; subst hc
      exact hexDigit_nodot _ (Nat.mod_lt _ (by decide))
    have h2 : ∀ c ∈ [hexDigit (b.toNat / 16 % 16)], c ≠ 46 := by
      intro c hc; simp only [List.mem_singleton] at hc; subst hc
      exact hexDigit_nodot _ (Nat.mod_lt _ (by decide))
    have hne : afINET6 ≠ afINET := by decide
    simp only [List.flatMap_cons, ptrPiece, hne, ↓reduceIte, List.cons_append, List.nil_append]
    have := splitDots_label [hexDigit (b.toNat % 16)]
      (hexDigit (b.toNat / 16 % 16) :: 46 :: (List.flatMap (ptrPiece afINET6) rest ++ suffix)) h1
    simp only [List.singleton_append] at this
    rw [this]
    have := splitDots_label [hexDigit (b.toNat / 16 % 16)] (List.flatMap (ptrPiece afINET6) rest ++ suffix) h2
    simp only [List.singleton_append] at this
    rw [this]
    rw [ih]

/-- nibble labels, most significant nibble first -/
def nibLabels (bs : List UInt8) : List Bytes :=
  bs.flatMap (fun b => [[hexDigit (b.toNat / 16 % 16)], [hexDigit (b.toNat % 16)]])

theorem reverse_nibbles (bs : List UInt8) :
    (bs.reverse.flatMap (fun b => [[hexDigit (b.toNat % 16)], [hexDigit (b.toNat / 16 % 16)]])).reverse =
      nibLabels bs := by
  induction bs with
  | nil => rfl
  | cons b rest ih =>
    simp only [List.reverse_cons, List.flatMap_append, List.flatMap_cons, List.flatMap_nil, List.append_nil,
      List.reverse_append, ih, nibLabels]
    rfl

theorem mapM_parseNibble (bs : List UInt8) :
    (nibLabels bs).mapM parseNibble = some (bs.flatMap (fun b => [b.toNat / 16 % 16, b.toNat % 16])) := by
  induction bs with
  | nil => rfl
  | cons b rest ih =>
    have h1 := hex_roundtrip (b.toNat / 16 % 16) (Nat.mod_lt _ (by decide))
    have h2 := hex_roundtrip (b.toNat % 16) (Nat.mod_lt _ (by decide))
    simp only [nibLabels, List.flatMap_cons, List.cons_append, List.nil_append, List.mapM_cons, h1, h2] at ih ⊢
    simp [ih]

theorem pairUp_nibbles (bs : List UInt8) :
    pairUp (bs.flatMap (fun b => [b.toNat / 16 % 16, b.toNat % 16])) = some bs := by
  induction bs with
  | nil => rfl
  | cons b rest ih =>
    simp only [List.flatMap_cons, List.cons_append, List.nil_append, pairUp, ih, Option.map_some]
    have hb : b.toNat < 256 := b.toNat_lt
    have : b.toNat / 16 % 16 * 16 + b.toNat % 16 = b.toNat := by omega
    rw [this, UInt8.ofNat_toNat]

theorem ptr_v6 (addr : Bytes) (h : addr.length = 16) :
    (addrToPtr afINET6 addr).bind parsePtrName = some (afINET6, addr) := by
  unfold addrToPtr
  have hne : afINET6 ≠ afINET := by decide
  simp only [ne_eq, hne, not_false_eq_true, not_true_eq_false, and_false, ↓reduceIte, Option.bind_some, ptrLoop_eq,
    List.nil_append]
  unfold parsePtrName
  simp only [splitDots_v6, splitDots_ip6Arpa]
  have hlen : (addr.reverse.flatMap (fun b => [[hexDigit (b.toNat % 16)], [hexDigit (b.toNat / 16 % 16)]])).length = 32 := by
    have : ∀ l : List UInt8, (l.flatMap (fun b => [[hexDigit (b.toNat % 16)], [hexDigit (b.toNat / 16 % 16)]])).length = 2 * l.length := by
      intro l; induction l with
      | nil => rfl
      | cons b r ih => simp only [List.flatMap_cons, List.length_append, ih, List.length_cons, List.length_nil]; omega
    rw [this]; simp [h]
  have hl : (addr.reverse.flatMap (fun b => [[hexDigit (b.toNat % 16)], [hexDigit (b.toNat / 16 % 16)]]) ++
      [lblIp6, lblArpa]).length = 34 := by simp [hlen]
  have hd : (addr.reverse.flatMap (fun b => [[hexDigit (b.toNat % 16)], [hexDigit (b.toNat / 16 % 16)]]) ++
      [lblIp6, lblArpa]).drop 32 = [lblIp6, lblArpa] := by
    rw [List.drop_append_of_le_length (by omega)]
    simp [List.drop_of_length_le, hlen]
  have ht : (addr.reverse.flatMap (fun b => [[hexDigit (b.toNat % 16)], [hexDigit (b.toNat / 16 % 16)]]) ++
      [lblIp6, lblArpa]).take 32 =
      addr.reverse.flatMap (fun b => [[hexDigit (b.toNat % 16)], [hexDigit (b.toNat / 16 % 16)]]) := by
    rw [List.take_append_of_le_length (by omega)]
    simp [List.take_of_length_le, hlen]
  have h6 : ¬ ((34 : Nat) = 6) := by decide
  simp only [hl, h6, false_and, ↓reduceIte, hd, and_self, ht, reverse_nibbles, mapM_parseNibble,
    Option.bind_some, pairUp_nibbles, Option.map_some]

end Cares.AddrInfo
