import CaresLemmas.ClientWalk
import CaresLemmas.ClientWalkHex
/-! The `search` client of the channel model simulates `searchLoop true` of model (A). -/
namespace Cares.ClientWalk
open Cares.Chan Cares.Text Cares.Proto

theorem soft_stMap (cand : Name) (h : Ser cand) (my : Chan.Status) :
    soft cand (stMap my) = softB (hex cand) my := by
  unfold soft softB
  rw [labelCnt_hex cand h]
  generalize (Cares.Proto.labelCnt cand == 1) = x
  cases my <;> cases x <;> rfl

/-- state of a search client whose request for `cand` is outstanding -/
structure SInv (c : Client) (cand : Name) (rest : List Name) (ever : Bool) (qt : Nat) : Prop where
  kind : c.kind = "search"
  names : c.names = rest.map hex
  last : c.lastName = hex cand
  ever : c.everNodata = ever
  qtype : c.qtype = qt

theorem SInv.setQids {c : Client} {cand rest ever qt} (h : SInv c cand rest ever qt) (q : Option (Nat × Nat)) :
    SInv (setQids c q) cand rest ever qt := by
  cases q with
  | none => exact h
  | some p => exact ⟨h.kind, h.names, h.last, h.ever, h.qtype⟩

theorem kind_search_ne : ("search" == "gai") = false ∧ ("search" == "query") = false := by decide

/-- `search_callback` with the reply status already computed -/
def searchCb (c : Client) (my : Chan.Status) (t : Nat) (dg : String) : Client × List ClientAct :=
  let c := { c with timeouts := c.timeouts + t }
  if !softB c.lastName my then (c, [.finish my c.timeouts dg]) else
  let c := if my == .nodata then { c with everNodata := true } else c
  if !c.names.isEmpty then searchNextAct c
  else if c.everNodata then (c, [.finish .nodata c.timeouts "-"])
  else (c, [.finish my c.timeouts "-"])

theorem clientOnCb_search (cfg : Cfg) (c : Client) (hk : c.kind = "search") (e : Ev) :
    clientOnCb cfg c e.st e.timeouts e.reply = searchCb c (searchStatus e) e.timeouts (digest e.reply) := by
  unfold clientOnCb searchCb searchStatus softB
  simp only [hk, kind_search_ne, Bool.false_eq_true, ↓reduceIte]
  cases e.reply <;> rfl

/-- hard outcome: the client finishes with it -/
theorem search_step_hard {c : Client} {cand rest ever qt} (h : SInv c cand rest ever qt) (my : Chan.Status) (t dg)
    (hs : softB (hex cand) my = false) :
    ∃ t' dg', (searchCb c my t dg).2 = [.finish my t' dg'] := by
  unfold searchCb
  simp only [h.last, hs, Bool.not_false, ↓reduceIte]
  exact ⟨_, _, rfl⟩

/-- soft outcome on the last candidate -/
theorem search_step_last {c : Client} {cand ever qt} (h : SInv c cand [] ever qt) (my : Chan.Status) (t dg)
    (hs : softB (hex cand) my = true) :
    ∃ t' dg', (searchCb c my t dg).2 = [.finish (if (ever || my == .nodata) then .nodata else my) t' dg'] := by
  unfold searchCb
  simp only [h.last, hs, Bool.not_true, Bool.false_eq_true, ↓reduceIte]
  have hn := h.names
  have he := h.ever
  by_cases hnd : my = Chan.Status.nodata
  · simp [hnd, hn]
  · cases ever <;> simp [hnd, hn, he]

/-- soft outcome with candidates left: the next one is sent -/
theorem search_step_next {c : Client} {cand n rest ever qt} (h : SInv c cand (n :: rest) ever qt) (my : Chan.Status) (t dg)
    (hs : softB (hex cand) my = true) :
    ∃ sp, (searchCb c my t dg).2 = [.send sp] ∧ sp.name = hex n ∧ sp.qtype = qt ∧
      SInv (searchCb c my t dg).1 n rest (ever || my == .nodata) qt := by
  unfold searchCb
  simp only [h.last, hs, Bool.not_true, Bool.false_eq_true, ↓reduceIte]
  have hn := h.names
  have he := h.ever
  have hq := h.qtype
  have hk := h.kind
  by_cases hnd : my = Chan.Status.nodata
  · simp only [hnd, beq_self_eq_true, ↓reduceIte, hn, List.map_cons, List.isEmpty_cons, Bool.not_false,
      searchNextAct, Bool.or_true]
    exact ⟨_, rfl, rfl, hq, ⟨hk, rfl, rfl, rfl, hq⟩⟩
  · have : (my == Chan.Status.nodata) = false := by simpa using hnd
    simp only [this, Bool.false_eq_true, ↓reduceIte, hn, List.map_cons, List.isEmpty_cons, Bool.not_false,
      searchNextAct, Bool.or_false]
    exact ⟨_, rfl, rfl, hq, ⟨hk, rfl, rfl, he, hq⟩⟩

/-! ### model (A)'s loop without the accumulator -/

theorem soft_timeout (cand : Name) : soft cand .etimeout = false := rfl

theorem searchLoop_acc (fixed : Bool) (names : List Name) (os : List Outcome) (ever : Bool) (sent : List Name) :
    searchLoop fixed names os ever sent =
      (sent ++ (searchLoop fixed names os ever []).1, (searchLoop fixed names os ever []).2) := by
  induction names generalizing os ever sent with
  | nil => simp [searchLoop]
  | cons n ns ih =>
    unfold searchLoop
    simp only [List.nil_append]
    split
    · simp
    · cases ns with
      | nil => cases fixed <;> simp
      | cons m ms =>
        simp only
        rw [ih, ih (sent := [n])]
        simp

theorem searchLoop_single (cand : Name) (o : Outcome) (os : List Outcome) (ever : Bool) :
    searchLoop true [cand] (o :: os) ever [] =
      ([cand], if !soft cand o then o else if (ever || o == .enodata) then .enodata else o) := by
  unfold searchLoop
  by_cases h : soft cand o = true <;> simp [h]

theorem searchLoop_cons_cons (cand m : Name) (ms : List Name) (o : Outcome) (os : List Outcome) (ever : Bool) :
    searchLoop true (cand :: m :: ms) (o :: os) ever [] =
      if !soft cand o then ([cand], o)
      else (cand :: (searchLoop true (m :: ms) os (ever || o == .enodata) []).1,
            (searchLoop true (m :: ms) os (ever || o == .enodata) []).2) := by
  conv => lhs; unfold searchLoop
  by_cases h : soft cand o = true
  · simp only [List.headD_cons, h, Bool.not_true, Bool.false_eq_true, ↓reduceIte, List.nil_append, List.drop_one,
      List.tail_cons]
    rw [searchLoop_acc]
    simp
  · simp [h]

theorem searchLoop_nil_os (cand : Name) (rest : List Name) (ever : Bool) :
    searchLoop true (cand :: rest) [] ever [] = ([cand], .etimeout) := by
  unfold searchLoop; simp [soft_timeout]

theorem stMap_beq_nodata (my : Chan.Status) : (stMap my == Text.Status.enodata) = (my == Chan.Status.nodata) := by
  cases my <;> rfl

/-- tag the candidate names of model (A) the way the fold records sub-requests -/
def tagNames (qt : Nat) (l : List Name) : List (String × Nat) := l.map fun n => (hex n, qt)

/-- the search client whose request for `cand` is outstanding, fed the completions `evs`, sends what
    `searchLoop true` sends and finishes with its status as soon as the completions suffice -/
theorem search_sim (cfg : Cfg) (qt : Nat) (rest : List Name) :
    ∀ (cand : Name) (c : Client) (ever : Bool) (evs : List Ev) (S : List (String × Nat)),
      Ser cand → (∀ n ∈ rest, Ser n) → SInv c cand rest ever qt →
      (walkFrom cfg c evs ⟨S ++ [(hex cand, qt)], none⟩).sent =
          S ++ tagNames qt (searchLoop true (cand :: rest) (evs.map searchOutcome) ever []).1 ∧
      (walkFrom cfg c evs ⟨S ++ [(hex cand, qt)], none⟩).fin.map (fun f => stMap f.1) =
          if (searchLoop true (cand :: rest) (evs.map searchOutcome) ever []).1.length ≤ evs.length
          then some (searchLoop true (cand :: rest) (evs.map searchOutcome) ever []).2 else none := by
  induction rest with
  | nil =>
    intro cand c ever evs S hc _ hinv
    cases evs with
    | nil => simp [walkFrom, searchLoop_nil_os, tagNames]
    | cons e es =>
      have hinv' := hinv.setQids e.qids
      simp only [walkFrom, Option.isSome_none, Bool.false_eq_true, ↓reduceIte,
        clientOnCb_search cfg _ hinv'.kind]
      simp only [searchLoop_single, List.map_cons, searchOutcome, soft_stMap cand hc]
      by_cases hs : softB (hex cand) (searchStatus e) = true
      · obtain ⟨t', dg', hacts⟩ := search_step_last hinv' (searchStatus e) e.timeouts (digest e.reply) hs
        rw [hacts]
        simp only [applyActs, walkFrom_fin, Option.isSome_some, hs, Bool.not_true, Bool.false_eq_true, ↓reduceIte,
          stMap_beq_nodata, tagNames]
        constructor
        · simp
        · simp only [Option.map_some, List.length_cons, List.length_nil]
          split <;> simp [stMap]
      · have hs' : softB (hex cand) (searchStatus e) = false := by simpa using hs
        obtain ⟨t', dg', hacts⟩ := search_step_hard hinv' (searchStatus e) e.timeouts (digest e.reply) hs'
        rw [hacts]
        simp [applyActs, walkFrom_fin, hs', tagNames]
  | cons n r ih =>
    intro cand c ever evs S hc hr hinv
    cases evs with
    | nil => simp [walkFrom, searchLoop_nil_os, tagNames]
    | cons e es =>
      have hinv' := hinv.setQids e.qids
      simp only [walkFrom, Option.isSome_none, Bool.false_eq_true, ↓reduceIte,
        clientOnCb_search cfg _ hinv'.kind]
      simp only [searchLoop_cons_cons, List.map_cons, searchOutcome, soft_stMap cand hc]
      by_cases hs : softB (hex cand) (searchStatus e) = true
      · obtain ⟨sp, hacts, hname, hqt, hnext⟩ :=
          search_step_next hinv' (searchStatus e) e.timeouts (digest e.reply) hs
        rw [hacts]
        simp only [applyActs, hname, hqt, hs, Bool.not_true, Bool.false_eq_true, ↓reduceIte, stMap_beq_nodata]
        have := ih n _ (ever || searchStatus e == .nodata) es (S ++ [(hex cand, qt)])
          (hr n (by simp)) (fun x hx => hr x (by simp [hx])) hnext
        refine ⟨?_, ?_⟩
        · rw [this.1]; simp [tagNames]
        · rw [this.2]; simp
      · have hs' : softB (hex cand) (searchStatus e) = false := by simpa using hs
        obtain ⟨t', dg', hacts⟩ := search_step_hard hinv' (searchStatus e) e.timeouts (digest e.reply) hs'
        rw [hacts]
        simp [applyActs, walkFrom_fin, hs', tagNames]

end Cares.ClientWalk
