import CaresLemmas.ClientCausalB4
/-!
# Causality — body lemmas V: `processTimeouts`, `flushRequeue`, `reactions`, `cancel`
-/
namespace Cares.Chan

variable {cid : Nat}

/-- an intermediate state of a body with the log so far -/
structure MidL (cid : Nat) (d : Nat → Nat) (s : St) (L : CLog) (s' : St) : Prop where
  mid : Mid d s s'
  lg : LG cid L 0 s'

/-- … unless the run is out of fuel -/
def MidLO (cid : Nat) (d : Nat → Nat) (s : St) (L : CLog) (s' : St) : Prop := s'.outOfFuel = true ∨ MidL cid d s L s'

theorem MidL.sk_eq {d s L s1 s2} (h : MidL cid d s L s1) (he : s2.sk = s1.sk) : MidL cid d s L s2 :=
  ⟨h.mid.sk_eq he, h.lg.sk_eq he⟩

/-- run a procedure from an intermediate state -/
theorem MidL.call {goC : GoC} (h : GoCz cid goC) {d s L s1} (hm : MidL cid d s L s1) (c' : Call) (hpre : Pre d s1 c')
    (hx : xtra cid c' = 0) (hf : exFd c' = none) (hi : exId c' = none) :
    MidLO cid d s (L ++ (goC c' s1).2) (goC c' s1).1.1 := by
  rcases h.call hpre (by rw [hx]; exact hm.lg) with hoof | ⟨hg, hL⟩
  · exact Or.inl hoof
  · exact Or.inr ⟨hm.mid.trans (hg.toMid hf hi), hL⟩

/-- finish a body with a tail call made from an intermediate state -/
theorem MidLO.tail {goC : GoC} (h : GoCz cid goC) {d c' s L s1} (hm : MidLO cid d s L s1)
    (hpre : MidL cid d s L s1 → Pre d s1 c') (hx : xtra cid c' = 0) : LGO cid L (goC c' s1) := by
  rcases hm with hoof | hm
  · exact Or.inl (h.oof hoof)
  · exact h.tail (hpre hm) (by rw [hx]; exact hm.lg)

theorem MidLO.done {d s L s'} {ret : Ret} (hm : MidLO cid d s L s') : LGO cid L ((s', ret), []) := by
  rcases hm with hoof | hm
  · exact Or.inl hoof
  · exact LGO.done hm.lg

theorem MidLO.bind {d s L L' s1 s2} (hm : MidLO cid d s L s1) (ho : s1.outOfFuel = true → s2.outOfFuel = true)
    (f : MidL cid d s L s1 → MidLO cid d s L' s2) : MidLO cid d s L' s2 := by
  rcases hm with hoof | hm
  · exact Or.inl (ho hoof)
  · exact f hm

theorem MidL.refl {d s L} (hw : Wf s) (hd : DebtOk none d s.sk) (hL : LG cid L 0 s) : MidL cid d s L s :=
  ⟨Mid.refl hw hd, hL⟩

/-! ### `processTimeouts` -/

theorem cz_processTimeouts {goC : GoC} (h : GoCz cid goC) {d s L} (hpre : Pre d s .processTimeouts)
    (hL : LG cid L (xtra cid .processTimeouts) s) : LGO cid L (bodyProcessTimeoutsC goC s) := by
  obtain ⟨hw, hd⟩ := hpre
  have hL0 : LG cid L 0 s := hL
  unfold bodyProcessTimeoutsC
  split
  · exact LGO.done hL0
  · rename_i key hkey
    have hkm : key ∈ s.sk.byTimeout := List.mem_of_mem_head? hkey
    obtain ⟨hki, fd, hkc⟩ := hw.t.btOk key hkm
    obtain ⟨q, hq, hqs⟩ := query?_of_idx hw hki
    simp only [hq]
    split
    · exact LGO.done hL0
    · have hqc : q.conn = some fd := Sk.qKC_unique hw.q.nodup (query?_sk hq).2.2 hkc
      obtain ⟨cc, hcc, hcfd, _⟩ := hw.c.qc _ hkc fd rfl
      have hlive : s.sk.liveConn fd := List.mem_map.mpr ⟨cc, hcc, hcfd⟩
      obtain ⟨c, hc⟩ := conn?_of_live hlive
      simp only [hqc, Option.bind_some, hc]
      have hsk1 : ((s.modQuery key fun q => { q with timeouts := q.timeouts + 1 }).incFailures c.srv q.usingTcp).sk = s.sk := by
        have h1 : (s.modQuery key fun q => { q with timeouts := q.timeouts + 1 }).sk = s.sk := by
          rw [sk_modQuery_same]; intro; rfl
        rw [sk_incFailures _ _ _ (by
          have : (s.modQuery key fun q => { q with timeouts := q.timeouts + 1 }).servers = s.servers := rfl
          rw [this]; exact server_ids_nodup hw), h1]
      generalize ((s.modQuery key fun q => { q with timeouts := q.timeouts + 1 }).incFailures c.srv q.usingTcp) = s1
        at hsk1
      have hm1 := ((MidL.refl hw hd hL0).sk_eq hsk1).call h (.requeue key .timeout true none false)
          ⟨by rw [hsk1]; exact WfS.weaken_hole hw, by unfold Sk.Idx; rw [hsk1]; exact hki, by rw [hsk1]; exact hd⟩
          rfl rfl rfl
      exact LGO.seq (hm1.tail h (c' := .processTimeouts) (fun hm => ⟨hm.mid.wf, hm.mid.debt⟩) rfl)

/-! ### `flushRequeue` -/

theorem cz_flushRequeue {goC : GoC} (h : GoCz cid goC) {d s L} (hpre : Pre d s .flushRequeue)
    (hL : LG cid L (xtra cid .flushRequeue) s) : LGO cid L (bodyFlushRequeueC goC s) := by
  obtain ⟨hw, hd⟩ := hpre
  have hL0 : LG cid L 0 s := hL
  unfold bodyFlushRequeueC
  split
  · exact LGO.done hL0
  · rename_i qid srv rest _
    have hm0 : MidL cid d s L { s with requeueArr := rest } := (MidL.refl hw hd hL0).sk_eq rfl
    simp only
    split
    · exact h.tail (d := d) (c := .flushRequeue) ⟨hm0.mid.wf, hm0.mid.debt⟩ hm0.lg
    · rename_i x key hfind
      have hki : key ∈ s.sk.idx := List.mem_map.mpr ⟨(x, key), List.mem_of_find?_eq_some hfind, rfl⟩
      have hm1 := hm0.call h (.sendQuery srv key) ⟨hm0.mid.wf, hki, hm0.mid.debt⟩ rfl rfl rfl
      exact LGO.seq (hm1.tail h (c' := .flushRequeue) (fun hm => ⟨hm.mid.wf, hm.mid.debt⟩) rfl)

/-! ### `reactions` -/

theorem reactOneC_mid {goC : GoC} (h : GoCz cid goC) {d s L} (hw : Wf s) (hd : DebtOk none d s.sk)
    (hL0 : LG cid L 0 s) (i : Nat) :
    MidLO cid d s (L ++ (reactOneC goC i s).2) (reactOneC goC i s).1 := by
  unfold reactOneC
  split
  · exact Or.inr (by rw [List.append_nil]; exact MidL.refl hw hd hL0)
  · split
    · exact ((MidL.refl hw hd hL0).sk_eq (s2 := s.emit "react(cancel)") rfl).call h .cancel
        ⟨Wf.of_sk_eq rfl hw, hd⟩ rfl rfl rfl
    · split
      · rename_i r _ _ _
        show MidLO cid d s (L ++ (goC (.sendNolock none false false { name := r.name, qtype := r.qtype }
          (.user (10000 + s.reactSeq)) r.react) (newTokSt s)).2) ((goC (.sendNolock none false false { name := r.name, qtype := r.qtype }
          (.user (10000 + s.reactSeq)) r.react) (newTokSt s)).1.1.emit _)
        have hsk1 := sk_newTokSt s
        generalize newTokSt s = s1 at hsk1
        have hm1 : MidL cid d s L s1 :=
          ⟨⟨by unfold Wf; rw [hsk1]; exact wf_newTok hw, by rw [hsk1]; exact debt_newTok hw hd,
           by rw [hsk1]; exact step_newTok⟩, hL0.congr (by rw [hsk1]; rfl) (by rw [hsk1]; rfl)⟩
        have hm2 := hm1.call h (.sendNolock none false false { name := r.name, qtype := r.qtype }
          (.user (10000 + s.reactSeq)) r.react)
          ⟨hm1.mid.wf, by rw [hsk1]; exact ownerFree_newTok hw, hm1.mid.debt⟩ rfl rfl rfl
        exact hm2.bind (fun h => by simpa using h) (fun hm => Or.inr (hm.sk_eq rfl))
      · exact Or.inr (by rw [List.append_nil]; exact MidL.refl hw hd hL0)

theorem cz_reactions {goC : GoC} (h : GoCz cid goC) {d l s L} (hpre : Pre d s (.reactions l))
    (hL : LG cid L (xtra cid (.reactions l)) s) : LGO cid L (bodyReactionsC goC l s) := by
  obtain ⟨hw, hd⟩ := hpre
  have hL0 : LG cid L 0 s := hL
  unfold bodyReactionsC
  split
  · exact LGO.done hL0
  · rename_i i rest
    split
    · exact LGO.done hL0
    · exact LGO.seq ((reactOneC_mid h hw hd hL0 i).tail h (c' := .reactions rest)
        (fun hm => ⟨hm.mid.wf, hm.mid.debt⟩) rfl)

/-! ### `cancel` -/

theorem cz_cancel {goC : GoC} (h : GoCz cid goC) {d s L} (hpre : Pre d s .cancel)
    (hL : LG cid L (xtra cid .cancel) s) : LGO cid L (bodyCancelC goC s) := by
  obtain ⟨hw, hd⟩ := hpre
  have hL0 : LG cid L 0 s := hL
  unfold bodyCancelC
  -- the state after the walk
  have hmid : MidLO cid d s (L ++ (if s.all.isEmpty then (s, ([] : CLog)) else
        ({ (goC (.cancelLoop .cancelled false) { s with listCopy := s.all :: s.listCopy, all := [] }).1.1 with
            listCopy := (goC (.cancelLoop .cancelled false) { s with listCopy := s.all :: s.listCopy, all := [] }).1.1.listCopy.drop 1 },
         (goC (.cancelLoop .cancelled false) { s with listCopy := s.all :: s.listCopy, all := [] }).2)).2)
      (if s.all.isEmpty then (s, ([] : CLog)) else
        ({ (goC (.cancelLoop .cancelled false) { s with listCopy := s.all :: s.listCopy, all := [] }).1.1 with
            listCopy := (goC (.cancelLoop .cancelled false) { s with listCopy := s.all :: s.listCopy, all := [] }).1.1.listCopy.drop 1 },
         (goC (.cancelLoop .cancelled false) { s with listCopy := s.all :: s.listCopy, all := [] }).2)).1 := by
    split
    · exact Or.inr (by rw [List.append_nil]; exact MidL.refl hw hd hL0)
    · simp only
      have hw1 : Wf ({ s with listCopy := s.all :: s.listCopy, all := [] } : St) :=
        (show WfS s.sk.pushLC none from wf_pushLC hw)
      have hd1 : DebtOk none d ({ s with listCopy := s.all :: s.listCopy, all := [] } : St).sk :=
        hd.congr rfl rfl rfl rfl rfl
      rcases h.call (d := d) (c := .cancelLoop .cancelled false) ⟨hw1, hd1⟩ (hL0.congr rfl rfl) with hoof | ⟨hg, hL1⟩
      · exact Or.inl hoof
      · exact Or.inr ⟨⟨show WfS (Sk.popLC _) none from wf_popLC hg.wf hg.post, hg.debt.congr rfl rfl rfl rfl rfl,
          StepS.sandwich_cancel (a := s.sk) hg.step⟩, hL1.congr rfl rfl⟩
  simp only
  exact LGO.seq (hmid.tail h (c' := .cleanupConns _) (fun hm => ⟨hm.mid.wf, hm.mid.debt⟩) rfl)

end Cares.Chan
