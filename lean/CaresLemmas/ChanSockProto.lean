import CaresLemmas.ChanSockBase
/-!
# The socket protocol of the channel model (C10): pure part

A *view* of the channel state — connections as `(fd, announced read interest, announced write interest)`, the log of
virtual socket calls, the log of socket-state notifications, the next descriptor number — and the invariant `SockInv`
over it, preserved by the view-level effect of each thing the model does to sockets.
-/
namespace Cares.Chan

/-! ## per-descriptor call protocol -/

inductive FdSt where
  | unused | opened | closed | bad
  deriving DecidableEq, Repr

def isIo (c : String) : Bool := c == "connect" || c == "send" || c == "recv"

/-- `open · (connect | send | recv)* · close?` as an automaton -/
def fdStep (st : FdSt) (call : String) : FdSt :=
  match st with
  | .unused => if call == "open" then .opened else .bad
  | .opened => if isIo call then .opened else if call == "close" then .closed else .bad
  | .closed => .bad
  | .bad => .bad

/-- state of descriptor `fd` after the calls of `log` -/
def fdState (log : List (Nat × String)) (fd : Nat) : FdSt :=
  log.foldl (fun st e => if e.1 == fd then fdStep st e.2 else st) .unused

theorem fdState_append (log : List (Nat × String)) (fd' : Nat) (c : String) (fd : Nat) :
    fdState (log ++ [(fd', c)]) fd = if fd' == fd then fdStep (fdState log fd) c else fdState log fd := by
  simp [fdState, List.foldl_append]

theorem fdState_append_ne (log : List (Nat × String)) (fd' : Nat) (c : String) (fd : Nat) (h : fd' ≠ fd) :
    fdState (log ++ [(fd', c)]) fd = fdState log fd := by
  rw [fdState_append]; simp [h]

theorem fdState_append_self (log : List (Nat × String)) (c : String) (fd : Nat) :
    fdState (log ++ [(fd, c)]) fd = fdStep (fdState log fd) c := by
  rw [fdState_append]; simp

/-- the calls made on `fd`, in order -/
def callsOn (log : List (Nat × String)) (fd : Nat) : List String := (log.filter (·.1 == fd)).map (·.2)

theorem foldl_fdStep_eq (fd : Nat) : ∀ (log : List (Nat × String)) (st : FdSt),
    log.foldl (fun st e => if e.1 == fd then fdStep st e.2 else st) st = (callsOn log fd).foldl fdStep st
  | [], _ => rfl
  | e :: rest, st => by
    simp only [List.foldl_cons, callsOn, List.filter_cons]
    by_cases h : (e.1 == fd) = true
    · simp only [h, ↓reduceIte, List.map_cons, List.foldl_cons]
      exact foldl_fdStep_eq fd rest _
    · simp only [h, Bool.false_eq_true, ↓reduceIte]
      exact foldl_fdStep_eq fd rest _

theorem fdState_eq_run (log : List (Nat × String)) (fd : Nat) :
    fdState log fd = (callsOn log fd).foldl fdStep .unused := foldl_fdStep_eq fd log .unused

theorem run_bad : ∀ l : List String, l.foldl fdStep .bad = .bad
  | [] => rfl
  | _ :: r => by simp only [List.foldl_cons, fdStep]; exact run_bad r

theorem run_closed : ∀ l : List String, l.foldl fdStep .closed ≠ .bad → l = []
  | [], _ => rfl
  | _ :: r, h => by simp only [List.foldl_cons, fdStep, run_bad] at h; exact absurd rfl h

/-- from the open state: not `bad` iff the calls are I/O calls followed by at most one `close` with nothing after -/
theorem run_opened : ∀ l : List String, l.foldl fdStep .opened ≠ .bad →
    (l.foldl fdStep .opened = .opened ∧ ∀ x ∈ l, isIo x = true) ∨
    (l.foldl fdStep .opened = .closed ∧ ∃ mid, l = mid ++ ["close"] ∧ ∀ x ∈ mid, isIo x = true)
  | [], _ => .inl ⟨rfl, by simp⟩
  | x :: r, h => by
    simp only [List.foldl_cons] at h ⊢
    by_cases hio : isIo x = true
    · have hs : fdStep .opened x = .opened := by simp [fdStep, hio]
      rw [hs] at h ⊢
      rcases run_opened r h with ⟨h1, h2⟩ | ⟨h1, mid, h2, h3⟩
      · exact .inl ⟨h1, by intro y hy; cases hy with | head => exact hio | tail _ hy => exact h2 y hy⟩
      · refine .inr ⟨h1, x :: mid, by rw [h2]; rfl, ?_⟩
        intro y hy; cases hy with | head => exact hio | tail _ hy => exact h3 y hy
    · by_cases hcl : (x == "close") = true
      · have hs : fdStep .opened x = .closed := by simp [fdStep, hio, hcl]
        rw [hs] at h ⊢
        have := run_closed r h
        subst this
        refine .inr ⟨rfl, [], ?_, by simp⟩
        simp only [beq_iff_eq] at hcl; simp [hcl]
      · have hs : fdStep .opened x = .bad := by simp [fdStep, hio, hcl]
        rw [hs, run_bad] at h; exact absurd rfl h

/-- **shape of a well-behaved descriptor's call sequence**: `open · (connect | send | recv)* · close?` -/
theorem callsOn_shape (log : List (Nat × String)) (fd : Nat) (h : fdState log fd ≠ .bad) :
    (fdState log fd = .unused ∧ callsOn log fd = []) ∨
    (fdState log fd = .opened ∧ ∃ mid, callsOn log fd = "open" :: mid ∧ ∀ x ∈ mid, isIo x = true) ∨
    (fdState log fd = .closed ∧ ∃ mid, callsOn log fd = "open" :: mid ++ ["close"] ∧ ∀ x ∈ mid, isIo x = true) := by
  rw [fdState_eq_run] at h ⊢
  cases hl : callsOn log fd with
  | nil => exact .inl ⟨rfl, rfl⟩
  | cons x r =>
    rw [hl] at h
    simp only [List.foldl_cons] at h ⊢
    by_cases ho : (x == "open") = true
    · have hs : fdStep .unused x = .opened := by simp [fdStep, ho]
      simp only [beq_iff_eq] at ho; subst ho
      rw [hs] at h ⊢
      rcases run_opened r h with ⟨h1, h2⟩ | ⟨h1, mid, h2, h3⟩
      · exact .inr (.inl ⟨h1, r, rfl, h2⟩)
      · exact .inr (.inr ⟨h1, mid, by rw [h2]; rfl, h3⟩)
    · have hs : fdStep .unused x = .bad := by simp [fdStep, ho]
      rw [hs, run_bad] at h; exact absurd rfl h

/-! ## per-descriptor notification stream -/

/-- notifications `(read, write)` made for `fd`, in order -/
def nproj (nl : List (Nat × Bool × Bool)) (fd : Nat) : List (Bool × Bool) := (nl.filter (·.1 == fd)).map (·.2)

theorem nproj_append (nl : List (Nat × Bool × Bool)) (fd' : Nat) (x : Bool × Bool) (fd : Nat) :
    nproj (nl ++ [(fd', x)]) fd = if fd' == fd then nproj nl fd ++ [x] else nproj nl fd := by
  simp only [nproj, List.filter_append, List.filter_cons, List.filter_nil]
  by_cases h : (fd' == fd) = true <;> simp [h]

/-- a well-formed notification stream: it does not start with `(false, false)`, no notification repeats its
    predecessor, and nothing follows a `(false, false)` — so `(false, false)` occurs at most once, last, after a
    non-zero interest -/
inductive NotifyOK : List (Bool × Bool) → Prop
  | nil : NotifyOK []
  | first (x : Bool × Bool) : x ≠ (false, false) → NotifyOK [x]
  | snoc (l : List (Bool × Bool)) (x y : Bool × Bool) :
      NotifyOK (l ++ [x]) → x ≠ (false, false) → y ≠ x → NotifyOK (l ++ [x] ++ [y])

/-- extend a stream whose last element (or `(false, false)` if there is none) is `last ≠ y`, and which does not
    contain `(false, false)` -/
theorem NotifyOK.extend {l : List (Bool × Bool)} (h : NotifyOK l) (y : Bool × Bool)
    (hne : y ≠ l.getLast?.getD (false, false)) (hff : (false, false) ∉ l) : NotifyOK (l ++ [y]) := by
  rcases List.eq_nil_or_concat l with rfl | ⟨l', x, rfl⟩
  · simp only [List.getLast?_nil, Option.getD_none] at hne
    exact .first y hne
  · simp only [List.concat_eq_append] at *
    simp only [List.getLast?_append, List.getLast?_singleton, Option.some_or, Option.getD_some] at hne
    refine .snoc l' x y h ?_ hne
    intro hx; apply hff; rw [hx]; simp

/-! ## the view and its invariant -/

structure SView where
  /-- connections: `(fd, announced read interest, announced write interest)` -/
  conns : List (Nat × Bool × Bool)
  log : List (Nat × String)
  nlog : List (Nat × Bool × Bool)
  nextFd : Nat

/-- `w = some (fd, l)`: additionally, `fd` is closed and its notification stream is `l` (used to show that nothing is
    announced for a descriptor after its `close`) -/
structure SockInv (w : Option (Nat × List (Bool × Bool))) (v : SView) : Prop where
  notBad : ∀ fd, fdState v.log fd ≠ .bad
  connOpen : ∀ k ∈ v.conns, fdState v.log k.1 = .opened
  fresh : ∀ fd, v.nextFd ≤ fd → fdState v.log fd = .unused ∧ nproj v.nlog fd = []
  nodup : (v.conns.map (·.1)).Nodup
  openHasConn : ∀ fd, fdState v.log fd = .opened → ∃ k ∈ v.conns, k.1 = fd
  nOK : ∀ fd, NotifyOK (nproj v.nlog fd)
  nLast : ∀ k ∈ v.conns, (nproj v.nlog k.1).getLast?.getD (false, false) = k.2
  nFinal : ∀ fd, (false, false) ∈ nproj v.nlog fd → ∀ k ∈ v.conns, k.1 ≠ fd
  frozen : ∀ p, w = some p → fdState v.log p.1 = .closed ∧ nproj v.nlog p.1 = p.2

theorem SockInv.conn_lt {w} {v : SView} (h : SockInv w v) : ∀ k ∈ v.conns, k.1 < v.nextFd := by
  intro k hk
  by_cases hlt : k.1 < v.nextFd
  · exact hlt
  · have := (h.fresh k.1 (by omega)).1
    rw [h.connOpen k hk] at this; cases this

/-- an I/O call on a connection's descriptor -/
theorem SockInv.io {w} {v : SView} (h : SockInv w v) (fd : Nat) (c : String) (hc : ∃ k ∈ v.conns, k.1 = fd)
    (hio : isIo c = true) : SockInv w { v with log := v.log ++ [(fd, c)] } := by
  obtain ⟨k, hk, rfl⟩ := hc
  have hop := h.connOpen k hk
  have hst : ∀ fd, fdState (v.log ++ [(k.1, c)]) fd = fdState v.log fd := by
    intro fd
    by_cases hfd : k.1 = fd
    · subst hfd; rw [fdState_append_self, hop]; simp [fdStep, hio]
    · exact fdState_append_ne _ _ _ _ hfd
  constructor
  · intro fd; simp only [hst]; exact h.notBad fd
  · intro k' hk'; simp only [hst]; exact h.connOpen k' hk'
  · intro fd hfd; simp only [hst]; exact h.fresh fd hfd
  · exact h.nodup
  · intro fd; simp only [hst]; exact h.openHasConn fd
  · exact h.nOK
  · exact h.nLast
  · exact h.nFinal
  · intro p hp; simp only [hst]; exact h.frozen p hp

/-! ### notification (`ares_conn_sock_state_cb_update`) -/

def setFlags (fd : Nat) (r w : Bool) (k : Nat × Bool × Bool) : Nat × Bool × Bool :=
  if k.1 == fd then (k.1, r, w) else k

/-- view-level effect of `St.notify` -/
def vnotify (v : SView) (fd : Nat) (r w : Bool) : SView :=
  match v.conns.find? (·.1 == fd) with
  | none => v
  | some k =>
    { v with conns := v.conns.map (setFlags fd r w),
             nlog := if k.2 ≠ (r, w) then v.nlog ++ [(fd, r, w)] else v.nlog }

theorem map_setFlags_fst (fd : Nat) (r w : Bool) (l : List (Nat × Bool × Bool)) :
    (l.map (setFlags fd r w)).map (·.1) = l.map (·.1) := by
  rw [List.map_map]
  apply List.map_congr_left
  intro k _
  simp only [Function.comp, setFlags]
  split <;> rfl

theorem find?_fst_mem {l : List (Nat × Bool × Bool)} {fd : Nat} {k : Nat × Bool × Bool}
    (h : l.find? (·.1 == fd) = some k) : k ∈ l ∧ k.1 = fd := by
  have h1 := List.mem_of_find?_eq_some h
  have h2 := List.find?_some h
  simp only [beq_iff_eq] at h2
  exact ⟨h1, h2⟩

/-- with distinct descriptors, the connection found for `fd` is the only one -/
theorem eq_of_nodup_fst {l : List (Nat × Bool × Bool)} (hn : (l.map (·.1)).Nodup) {a b : Nat × Bool × Bool}
    (ha : a ∈ l) (hb : b ∈ l) (hab : a.1 = b.1) : a = b := by
  induction l with
  | nil => cases ha
  | cons x r ih =>
    simp only [List.map_cons, List.nodup_cons, List.mem_map, not_exists, not_and] at hn
    cases ha with
    | head =>
      cases hb with
      | head => rfl
      | tail _ hb => exact absurd hab.symm (hn.1 b hb)
    | tail _ ha =>
      cases hb with
      | head => exact absurd hab (hn.1 a ha)
      | tail _ hb => exact ih hn.2 ha hb

/-- announcing a non-zero interest -/
theorem SockInv.notify {w} {v : SView} (h : SockInv w v) (fd : Nat) (r wr : Bool) (hnz : (r, wr) ≠ (false, false)) :
    SockInv w (vnotify v fd r wr) := by
  unfold vnotify
  cases hf : v.conns.find? (·.1 == fd) with
  | none => exact h
  | some k =>
    obtain ⟨hk, hkfd⟩ := find?_fst_mem hf
    subst hkfd
    simp only
    -- the notification stream of every other descriptor is unchanged
    have hnp : ∀ fd', fd' ≠ k.1 →
        nproj (if k.2 ≠ (r, wr) then v.nlog ++ [(k.1, r, wr)] else v.nlog) fd' = nproj v.nlog fd' := by
      intro fd' hne
      split
      · rw [nproj_append]; simp [Ne.symm hne]
      · rfl
    have hself : nproj (if k.2 ≠ (r, wr) then v.nlog ++ [(k.1, r, wr)] else v.nlog) k.1 =
        if k.2 ≠ (r, wr) then nproj v.nlog k.1 ++ [(r, wr)] else nproj v.nlog k.1 := by
      split
      · rw [nproj_append]; simp
      · rfl
    have hffk : (false, false) ∉ nproj v.nlog k.1 := fun hm => h.nFinal k.1 hm k hk rfl
    constructor
    · exact h.notBad
    · intro k' hk'
      simp only [List.mem_map] at hk'
      obtain ⟨k0, hk0, rfl⟩ := hk'
      have : (setFlags k.1 r wr k0).1 = k0.1 := by simp only [setFlags]; split <;> rfl
      rw [this]; exact h.connOpen k0 hk0
    · intro fd' hfd'
      have hlt := h.conn_lt k hk
      have hfd'' : v.nextFd ≤ fd' := hfd'
      refine ⟨(h.fresh fd' hfd'').1, ?_⟩
      rw [hnp fd' (by omega)]; exact (h.fresh fd' hfd'').2
    · simp only [map_setFlags_fst]; exact h.nodup
    · intro fd' ho
      obtain ⟨k0, hk0, hk0fd⟩ := h.openHasConn fd' ho
      refine ⟨setFlags k.1 r wr k0, List.mem_map_of_mem hk0, ?_⟩
      simp only [setFlags]; split <;> exact hk0fd
    · intro fd'
      by_cases hfd : fd' = k.1
      · subst hfd
        rw [hself]
        split
        · rename_i hne
          refine (h.nOK k.1).extend (r, wr) ?_ hffk
          rw [h.nLast k hk]; exact fun he => hne he.symm
        · exact h.nOK k.1
      · rw [hnp fd' hfd]; exact h.nOK fd'
    · intro k' hk'
      simp only [List.mem_map] at hk'
      obtain ⟨k0, hk0, rfl⟩ := hk'
      by_cases hfd : k0.1 = k.1
      · have hk0k : k0 = k := eq_of_nodup_fst h.nodup hk0 hk hfd
        subst hk0k
        have : setFlags k0.1 r wr k0 = (k0.1, r, wr) := by simp [setFlags]
        rw [this]
        simp only
        rw [hself]
        split
        · simp
        · rename_i he
          rw [h.nLast k0 hk0]
          simpa using he
      · have : setFlags k.1 r wr k0 = k0 := by simp [setFlags, hfd]
        rw [this, hnp k0.1 hfd]
        exact h.nLast k0 hk0
    · intro fd' hm k' hk'
      simp only [List.mem_map] at hk'
      obtain ⟨k0, hk0, rfl⟩ := hk'
      have hfst : (setFlags k.1 r wr k0).1 = k0.1 := by simp only [setFlags]; split <;> rfl
      rw [hfst]
      by_cases hfd : fd' = k.1
      · subst hfd
        rw [hself] at hm
        split at hm
        · simp only [List.mem_append, List.mem_singleton] at hm
          rcases hm with hm | hm
          · exact absurd hm hffk
          · exact absurd hm.symm hnz
        · exact absurd hm hffk
      · rw [hnp fd' hfd] at hm
        exact h.nFinal fd' hm k0 hk0
    · intro p hp
      obtain ⟨h1, h2⟩ := h.frozen p hp
      refine ⟨h1, ?_⟩
      have : p.1 ≠ k.1 := by
        intro he; rw [he, h.connOpen k hk] at h1; cases h1
      rw [hnp p.1 this]; exact h2

/-! ### `ares_open_connection` -/

/-- socket created and connected, connection object added (interest not yet announced) -/
def vopen (v : SView) : SView :=
  { conns := v.conns ++ [(v.nextFd, false, false)],
    log := v.log ++ [(v.nextFd, "open")] ++ [(v.nextFd, "connect")],
    nlog := v.nlog, nextFd := v.nextFd + 1 }

/-- socket created, `connect` attempted, then closed again on failure (no connection object) -/
def vopenFail (v : SView) : SView :=
  { v with log := v.log ++ [(v.nextFd, "open")] ++ [(v.nextFd, "connect")] ++ [(v.nextFd, "close")],
           nextFd := v.nextFd + 1 }

theorem fdState_open2 (v : SView) (hun : fdState v.log v.nextFd = .unused) (fd : Nat) :
    fdState (v.log ++ [(v.nextFd, "open")] ++ [(v.nextFd, "connect")]) fd =
      if fd = v.nextFd then .opened else fdState v.log fd := by
  by_cases hfd : fd = v.nextFd
  · subst hfd
    simp only [↓reduceIte, fdState_append_self, hun]
    decide
  · simp only [hfd, ↓reduceIte]
    rw [fdState_append_ne _ _ _ _ (Ne.symm hfd), fdState_append_ne _ _ _ _ (Ne.symm hfd)]

theorem SockInv.open {w} {v : SView} (h : SockInv w v) : SockInv w (vopen v) := by
  have hun := (h.fresh v.nextFd (Nat.le_refl _)).1
  have hnp := (h.fresh v.nextFd (Nat.le_refl _)).2
  have hst := fdState_open2 v hun
  unfold vopen
  constructor
  · intro fd; simp only [hst]; split
    · simp
    · exact h.notBad fd
  · intro k hk
    simp only [List.mem_append, List.mem_singleton] at hk
    simp only [hst]
    rcases hk with hk | rfl
    · have := h.conn_lt k hk
      simp only [show ¬ k.1 = v.nextFd by omega, ↓reduceIte]
      exact h.connOpen k hk
    · simp
  · intro fd hfd
    simp only at hfd
    simp only [hst, show ¬ fd = v.nextFd by omega, ↓reduceIte]
    exact h.fresh fd (by omega)
  · simp only [List.map_append, List.map_cons, List.map_nil]
    rw [List.nodup_append]
    refine ⟨h.nodup, by simp, ?_⟩
    intro a ha b hb
    simp only [List.mem_singleton] at hb
    subst hb
    simp only [List.mem_map] at ha
    obtain ⟨k, hk, rfl⟩ := ha
    have := h.conn_lt k hk
    omega
  · intro fd ho
    simp only [hst] at ho
    split at ho
    · rename_i hfd
      exact ⟨(v.nextFd, false, false), by simp, hfd.symm⟩
    · obtain ⟨k, hk, hkfd⟩ := h.openHasConn fd ho
      exact ⟨k, by simp [hk], hkfd⟩
  · exact h.nOK
  · intro k hk
    simp only [List.mem_append, List.mem_singleton] at hk
    rcases hk with hk | rfl
    · exact h.nLast k hk
    · simp only [hnp]; rfl
  · intro fd hm k hk
    simp only [List.mem_append, List.mem_singleton] at hk
    rcases hk with hk | rfl
    · exact h.nFinal fd hm k hk
    · simp only
      intro he; rw [← he, hnp] at hm; cases hm
  · intro p hp
    obtain ⟨h1, h2⟩ := h.frozen p hp
    refine ⟨?_, h2⟩
    simp only [hst]
    have : ¬ p.1 = v.nextFd := by intro he; rw [he, hun] at h1; cases h1
    simp only [this, ↓reduceIte]; exact h1

theorem SockInv.openFail {w} {v : SView} (h : SockInv w v) : SockInv w (vopenFail v) := by
  have hun := (h.fresh v.nextFd (Nat.le_refl _)).1
  have hst : ∀ fd, fdState (v.log ++ [(v.nextFd, "open")] ++ [(v.nextFd, "connect")] ++ [(v.nextFd, "close")]) fd =
      if fd = v.nextFd then .closed else fdState v.log fd := by
    intro fd
    by_cases hfd : fd = v.nextFd
    · subst hfd
      simp only [↓reduceIte, fdState_append_self, hun]
      decide
    · simp only [hfd, ↓reduceIte]
      rw [fdState_append_ne _ _ _ _ (Ne.symm hfd), fdState_append_ne _ _ _ _ (Ne.symm hfd),
        fdState_append_ne _ _ _ _ (Ne.symm hfd)]
  unfold vopenFail
  constructor
  · intro fd; simp only [hst]; split
    · simp
    · exact h.notBad fd
  · intro k hk
    have := h.conn_lt k hk
    simp only [hst, show ¬ k.1 = v.nextFd by omega, ↓reduceIte]
    exact h.connOpen k hk
  · intro fd hfd
    simp only at hfd
    simp only [hst, show ¬ fd = v.nextFd by omega, ↓reduceIte]
    exact h.fresh fd (by omega)
  · exact h.nodup
  · intro fd ho
    simp only [hst] at ho
    split at ho
    · cases ho
    · exact h.openHasConn fd ho
  · exact h.nOK
  · exact h.nLast
  · exact h.nFinal
  · intro p hp
    obtain ⟨h1, h2⟩ := h.frozen p hp
    refine ⟨?_, h2⟩
    simp only [hst]
    have : ¬ p.1 = v.nextFd := by intro he; rw [he, hun] at h1; cases h1
    simp only [this, ↓reduceIte]; exact h1

/-! ### `ares_close_connection`'s last step -/

/-- final notification `(0, 0)` (if an interest had been announced), `close`, connection object released -/
def vclose (v : SView) (fd : Nat) : SView :=
  let v1 := vnotify v fd false false
  { v1 with log := v1.log ++ [(fd, "close")], conns := v1.conns.filter (·.1 != fd) }

theorem SockInv.close {w} {v : SView} (h : SockInv w v) (fd : Nat) (hc : ∃ k ∈ v.conns, k.1 = fd) :
    SockInv w (vclose v fd) := by
  obtain ⟨k, hk, rfl⟩ := hc
  have hfind : v.conns.find? (·.1 == k.1) = some k := by
    cases hf : v.conns.find? (·.1 == k.1) with
    | none =>
      rw [List.find?_eq_none] at hf
      exact absurd (by simp) (hf k hk)
    | some k' =>
      obtain ⟨hk', hfd'⟩ := find?_fst_mem hf
      rw [eq_of_nodup_fst h.nodup hk' hk hfd']
  have hop := h.connOpen k hk
  have hst : ∀ fd, fdState (v.log ++ [(k.1, "close")]) fd = if fd = k.1 then .closed else fdState v.log fd := by
    intro fd
    by_cases hfd : fd = k.1
    · subst hfd; simp only [↓reduceIte, fdState_append_self, hop]; decide
    · simp only [hfd, ↓reduceIte]; exact fdState_append_ne _ _ _ _ (Ne.symm hfd)
  have hffk : (false, false) ∉ nproj v.nlog k.1 := fun hm => h.nFinal k.1 hm k hk rfl
  have hnp : ∀ fd', fd' ≠ k.1 →
      nproj (if k.2 ≠ (false, false) then v.nlog ++ [(k.1, false, false)] else v.nlog) fd' = nproj v.nlog fd' := by
    intro fd' hne
    split
    · rw [nproj_append]; simp [Ne.symm hne]
    · rfl
  have hself : nproj (if k.2 ≠ (false, false) then v.nlog ++ [(k.1, false, false)] else v.nlog) k.1 =
      if k.2 ≠ (false, false) then nproj v.nlog k.1 ++ [(false, false)] else nproj v.nlog k.1 := by
    split
    · rw [nproj_append]; simp
    · rfl
  have hmemf : ∀ k', k' ∈ (v.conns.map (setFlags k.1 false false)).filter (·.1 != k.1) ↔ (k' ∈ v.conns ∧ k'.1 ≠ k.1) := by
    intro k'
    simp only [List.mem_filter, List.mem_map, bne_iff_ne, ne_eq]
    constructor
    · rintro ⟨⟨k0, hk0, rfl⟩, hne⟩
      have hfst : (setFlags k.1 false false k0).1 = k0.1 := by simp only [setFlags]; split <;> rfl
      rw [hfst] at hne
      have : setFlags k.1 false false k0 = k0 := by simp [setFlags, hne]
      rw [this]; exact ⟨hk0, hne⟩
    · rintro ⟨hk0, hne⟩
      exact ⟨⟨k', hk0, by simp [setFlags, hne]⟩, hne⟩
  unfold vclose vnotify
  simp only [hfind]
  constructor
  · intro fd; simp only [hst]; split
    · simp
    · exact h.notBad fd
  · intro k' hk'
    rw [hmemf] at hk'
    simp only [hst, hk'.2, ↓reduceIte]
    exact h.connOpen k' hk'.1
  · intro fd hfd
    simp only at hfd
    have hlt := h.conn_lt k hk
    have hfd' : v.nextFd ≤ fd := hfd
    simp only [hst, show ¬ fd = k.1 by omega, ↓reduceIte]
    refine ⟨(h.fresh fd hfd').1, ?_⟩
    rw [hnp fd (by omega)]; exact (h.fresh fd hfd').2
  · have hsub : (((v.conns.map (setFlags k.1 false false)).filter (·.1 != k.1)).map (·.1)).Sublist
        ((v.conns.map (setFlags k.1 false false)).map (·.1)) := List.filter_sublist.map _
    rw [map_setFlags_fst] at hsub
    exact h.nodup.sublist hsub
  · intro fd ho
    simp only [hst] at ho
    split at ho
    · cases ho
    · rename_i hne
      obtain ⟨k0, hk0, hk0fd⟩ := h.openHasConn fd ho
      exact ⟨k0, (hmemf k0).2 ⟨hk0, by rw [hk0fd]; exact hne⟩, hk0fd⟩
  · intro fd'
    by_cases hfd : fd' = k.1
    · subst hfd
      simp only
      rw [hself]
      split
      · rename_i hne
        refine (h.nOK k.1).extend (false, false) ?_ hffk
        rw [h.nLast k hk]; exact fun he => hne he.symm
      · exact h.nOK k.1
    · simp only
      rw [hnp fd' hfd]; exact h.nOK fd'
  · intro k' hk'
    rw [hmemf] at hk'
    simp only
    rw [hnp k'.1 hk'.2]
    exact h.nLast k' hk'.1
  · intro fd' hm k' hk'
    rw [hmemf] at hk'
    simp only at hm
    by_cases hfd : fd' = k.1
    · subst hfd; exact hk'.2
    · rw [hnp fd' hfd] at hm
      exact h.nFinal fd' hm k' hk'.1
  · intro p hp
    obtain ⟨h1, h2⟩ := h.frozen p hp
    have hne : p.1 ≠ k.1 := by intro he; rw [he, hop] at h1; cases h1
    simp only [hst, hne, ↓reduceIte]
    refine ⟨h1, ?_⟩
    rw [hnp p.1 hne]; exact h2

/-- what `NotifyOK` says index-wise: consecutive notifications differ, and `(false, false)` can only be the last
    element and never the first -/
theorem NotifyOK.spec {l : List (Bool × Bool)} (h : NotifyOK l) :
    (∀ i x y, l[i]? = some x → l[i + 1]? = some y → x ≠ y) ∧
    (∀ i, l[i]? = some (false, false) → 0 < i ∧ i + 1 = l.length) := by
  induction h with
  | nil => simp
  | first x hx =>
    constructor
    · intro i a b _ h2; simp at h2
    · intro i hi
      cases i with
      | zero => simp at hi; exact absurd hi hx
      | succ n => simp at hi
  | snoc l x y hl hx hyx ih =>
    constructor
    · intro i a b h1 h2
      by_cases hlt : i + 1 < (l ++ [x]).length
      · rw [List.getElem?_append_left (by omega)] at h1
        rw [List.getElem?_append_left hlt] at h2
        exact ih.1 i a b h1 h2
      · simp only [List.length_append, List.length_cons, List.length_nil] at hlt
        have hi : i = l.length := by
          have := (List.getElem?_eq_some_iff.mp h2).1
          simp only [List.length_append, List.length_cons, List.length_nil] at this
          omega
        subst hi
        simp only [List.append_assoc, List.cons_append, List.nil_append] at h1 h2
        rw [List.getElem?_append_right (Nat.le_refl _)] at h1
        rw [List.getElem?_append_right (by omega)] at h2
        simp only [Nat.sub_self, List.getElem?_cons_zero, Option.some.injEq] at h1
        simp only [show l.length + 1 - l.length = 1 by omega, List.getElem?_cons_succ, List.getElem?_cons_zero,
          Option.some.injEq] at h2
        subst h1 h2; exact fun h => hyx h.symm
    · intro i hi
      by_cases hlt : i < (l ++ [x]).length
      · rw [List.getElem?_append_left hlt] at hi
        have := ih.2 i hi
        -- `(false, false)` would be the last element `x` of `l ++ [x]`
        exfalso
        have hlast : i = l.length := by simp only [List.length_append, List.length_cons, List.length_nil] at this; omega
        subst hlast
        rw [List.getElem?_append_right (Nat.le_refl _)] at hi
        simp only [Nat.sub_self, List.getElem?_cons_zero, Option.some.injEq] at hi
        exact hx hi
      · have hlen := (List.getElem?_eq_some_iff.mp hi).1
        simp only [List.length_append, List.length_cons, List.length_nil] at hlt hlen ⊢
        omega

end Cares.Chan
