import CaresLemmas.ChanWfTok
/-!
# C01 — compound-request records on the skeleton: bookkeeping update, creation, release
-/
namespace Cares.Chan

/-- the pure client logic updated the record of `id`; identity and token are unchanged -/
def Sk.setOut (a : Sk) (id n : Nat) : Sk :=
  { a with clients := a.clients.map fun e => if e.id == id then { e with out := n } else e }

def Sk.addClient (a : Sk) (e : KSk) : Sk :=
  { a with clients := a.clients ++ [e], nextClient := a.nextClient + 1 }

def Sk.dropClient (a : Sk) (id : Nat) : Sk :=
  { a with clients := a.clients.filter (·.id != id) }

theorem WfTokP.cl_congr {qKO idx pend done rs} {cl cl' : List KSk}
    (h : WfTokP qKO idx cl pend done rs)
    (h1 : ∀ c' ∈ cl', ∃ c ∈ cl, c.id = c'.id ∧ c.tok = c'.tok)
    (h2 : ∀ c ∈ cl, ∃ c' ∈ cl', c'.id = c.id ∧ c'.tok = c.tok) : WfTokP qKO idx cl' pend done rs where
  pN := h.pN
  dN := h.dN
  disj := h.disj
  pB := h.pB
  dB := h.dB
  tQ := fun p hp hpi tok ho => by
    obtain ⟨a1, a2, a3⟩ := h.tQ p hp hpi tok ho
    refine ⟨a1, a2, fun c' hc' => ?_⟩
    obtain ⟨c, hc, _, ht⟩ := h1 c' hc'
    rw [← ht]; exact a3 c hc
  tC := fun p hp hpi id ho => by
    obtain ⟨c, hc, hid, hp'⟩ := h.tC p hp hpi id ho
    obtain ⟨c', hc', hid', ht'⟩ := h2 c hc
    exact ⟨c', hc', by rw [hid', hid], by rw [ht']; exact hp'⟩
  tK := fun c' hc' => by
    obtain ⟨c, hc, _, ht⟩ := h1 c' hc'
    rw [← ht]; exact h.tK c hc
  tKU := fun c1' h1' c2' h2' he hp => by
    obtain ⟨c1, hc1, hi1, ht1⟩ := h1 c1' h1'
    obtain ⟨c2, hc2, hi2, ht2⟩ := h1 c2' h2'
    rw [← hi1, ← hi2]
    exact h.tKU c1 hc1 c2 hc2 (by rw [ht1, ht2]; exact he) (by rw [ht1]; exact hp)

section
variable {a : Sk} {id n : Nat}

theorem mem_setOut {c' : KSk} : c' ∈ (a.setOut id n).clients ↔
    ∃ c ∈ a.clients, c' = if c.id = id then { c with out := n } else c := by
  simp only [Sk.setOut, List.mem_map, beq_iff_eq]
  constructor
  · rintro ⟨c, hc, rfl⟩; exact ⟨c, hc, rfl⟩
  · rintro ⟨c, hc, rfl⟩; exact ⟨c, hc, rfl⟩

theorem setOut_ids : (a.setOut id n).clients.map (·.id) = a.clients.map (·.id) := by
  simp only [Sk.setOut, List.map_map]; apply List.map_congr_left; intro x _
  simp only [Function.comp]; split <;> rfl

theorem wf_setOut {hole} (h : WfS a hole) : WfS (a.setOut id n) hole := by
  refine ⟨h.q, h.i, h.t, h.c, h.s, ⟨?_, ?_⟩, ?_⟩
  · rw [setOut_ids]; exact h.k.nodup
  · intro c' hc'
    obtain ⟨c, hc, rfl⟩ := mem_setOut.mp hc'
    have := h.k.lt c hc
    split <;> exact this
  · apply h.tok.cl_congr
    · intro c' hc'
      obtain ⟨c, hc, rfl⟩ := mem_setOut.mp hc'
      exact ⟨c, hc, by split <;> rfl, by split <;> rfl⟩
    · intro c hc
      exact ⟨_, mem_setOut.mpr ⟨c, hc, rfl⟩, by split <;> rfl, by split <;> rfl⟩

theorem active_setOut {i : Nat} : (a.setOut id n).Active i ↔ a.Active i := by
  unfold Sk.Active
  constructor
  · rintro ⟨c', hc', hi, hp⟩
    obtain ⟨c, hc, rfl⟩ := mem_setOut.mp hc'
    refine ⟨c, hc, ?_, ?_⟩
    · rw [← hi]; split <;> rfl
    · have : (if c.id = id then { c with out := n } else c).tok = c.tok := by split <;> rfl
      rw [← this]; exact hp
  · rintro ⟨c, hc, hi, hp⟩
    refine ⟨_, mem_setOut.mpr ⟨c, hc, rfl⟩, ?_, ?_⟩
    · rw [← hi]; split <;> rfl
    · have : (if c.id = id then { c with out := n } else c).tok = c.tok := by split <;> rfl
      rw [this]; exact hp

theorem step_setOut {xf xi d} : StepS xf xi d a (a.setOut id n) where
  faults := rfl
  kMono := Nat.le_refl _
  keyMono := Nat.le_refl _
  idxNew := fun _ hx => Or.inl hx
  unl := fun _ q hm _ => ⟨q, hm, fun _ hx => hx⟩
  orphan := fun _ _ _ hn => hn
  debtAlive := fun _ ha _ => active_setOut.mpr ha
  prog := ProgS.of_same (fun _ h => h) rfl rfl rfl rfl rfl

/-- the debt invariant after the record of `id` was updated: every other record is untouched -/
theorem debt_setOut {x d d'} (hd : DebtOk none d a) (hf : ∀ i, a.nextClient ≤ i → d' i = 0)
    (hother : ∀ i, i ≠ id → d' i = d i)
    (hid : some id ≠ x → ∀ c ∈ a.clients, c.id = id → c.tok ∈ a.pendingToks → n = a.subs id + d' id) :
    DebtOk x d' (a.setOut id n) := by
  refine ⟨hf, ?_⟩
  intro c' hc' hp hx
  obtain ⟨c, hc, rfl⟩ := mem_setOut.mp hc'
  by_cases hci : c.id = id
  · simp only [hci, ↓reduceIte] at hp hx ⊢
    exact hid hx c hc hci hp
  · simp only [hci, ↓reduceIte] at hp hx ⊢
    rw [hother _ hci]
    exact hd.cnt c hc hp (fun hh => by cases hh)

end

/-! ### release -/

section
variable {a : Sk} {id : Nat}

theorem wf_dropClient (h : WfS a none) (hn : a.NoSub id) : WfS (a.dropClient id) none := by
  refine ⟨h.q, h.i, h.t, h.c, h.s, ⟨?_, fun c hc => h.k.lt c (List.mem_filter.mp hc).1⟩, ?_⟩
  · exact (List.Sublist.map _ List.filter_sublist).nodup h.k.nodup
  · have ht := h.tok
    show WfTokP a.qKO a.idx (a.clients.filter (·.id != id)) a.pendingToks a.doneToks a.reactSeq
    refine ⟨ht.pN, ht.dN, ht.disj, ht.pB, ht.dB, ?_, ?_, ?_, ?_⟩
    · intro p hp hpi tok ho
      obtain ⟨a1, a2, a3⟩ := ht.tQ p hp hpi tok ho
      exact ⟨a1, a2, fun c hc => a3 c (List.mem_filter.mp hc).1⟩
    · intro p hp hpi id' ho
      obtain ⟨c, hc, hid, hp'⟩ := ht.tC p hp hpi id' ho
      refine ⟨c, List.mem_filter.mpr ⟨hc, ?_⟩, hid, hp'⟩
      simp only [bne_iff_ne, ne_eq]
      intro he
      exact hn p hp hpi (by rw [ho, ← hid, he])
    · intro c hc; exact ht.tK c (List.mem_filter.mp hc).1
    · intro c hc c' hc'; exact ht.tKU c (List.mem_filter.mp hc).1 c' (List.mem_filter.mp hc').1

theorem debt_dropClient {x d} (hd : DebtOk x d a) : DebtOk x d (a.dropClient id) :=
  ⟨hd.fresh, fun c hc hp hx => hd.cnt c (List.mem_filter.mp hc).1 hp hx⟩

theorem step_dropClient {xf xi d} (hz : d id = 0) : StepS xf xi d a (a.dropClient id) where
  faults := rfl
  kMono := Nat.le_refl _
  keyMono := Nat.le_refl _
  idxNew := fun _ hx => Or.inl hx
  unl := fun _ q hm _ => ⟨q, hm, fun _ hx => hx⟩
  orphan := fun _ _ _ hn => hn
  debtAlive := fun i ha hpos => by
    obtain ⟨c, hc, hi, hp⟩ := ha
    refine ⟨c, List.mem_filter.mpr ⟨hc, ?_⟩, hi, hp⟩
    simp only [bne_iff_ne, ne_eq]
    intro he
    rw [← hi, he, hz] at hpos; omega
  prog := ProgS.of_same (fun _ h => h) rfl rfl rfl rfl rfl

end

/-! ### creation -/

section
variable {a : Sk} {e : KSk}

theorem wf_addClient (h : WfS a none) (hid : e.id = a.nextClient) (hp : e.tok ∈ a.pendingToks)
    (hq : ∀ p ∈ a.qKO, p.1 ∈ a.idx → p.2 ≠ .user e.tok) (hc : ∀ c ∈ a.clients, c.tok ≠ e.tok) :
    WfS (a.addClient e) none := by
  refine ⟨h.q, h.i, h.t, h.c, h.s, ⟨?_, ?_⟩, ?_⟩
  · show ((a.clients ++ [e]).map (·.id)).Nodup
    rw [List.map_append, List.nodup_append]
    refine ⟨h.k.nodup, by simp, ?_⟩
    intro x hx y hy
    obtain ⟨c, hcm, rfl⟩ := List.mem_map.mp hx
    simp only [List.map_cons, List.map_nil, List.mem_singleton] at hy
    have := h.k.lt c hcm
    omega
  · intro c hcm
    show c.id < a.nextClient + 1
    rcases List.mem_append.mp hcm with hcm | hcm
    · have := h.k.lt c hcm; omega
    · rw [List.mem_singleton.mp hcm]; omega
  · have ht := h.tok
    show WfTokP a.qKO a.idx (a.clients ++ [e]) a.pendingToks a.doneToks a.reactSeq
    refine ⟨ht.pN, ht.dN, ht.disj, ht.pB, ht.dB, ?_, ?_, ?_, ?_⟩
    · intro p hpm hpi tok ho
      obtain ⟨a1, a2, a3⟩ := ht.tQ p hpm hpi tok ho
      refine ⟨a1, a2, fun c hcm => ?_⟩
      rcases List.mem_append.mp hcm with hcm | hcm
      · exact a3 c hcm
      · rw [List.mem_singleton.mp hcm]
        intro he; exact hq p hpm hpi (he ▸ ho)
    · intro p hpm hpi id' ho
      obtain ⟨c, hcm, h1, h2⟩ := ht.tC p hpm hpi id' ho
      exact ⟨c, List.mem_append.mpr (Or.inl hcm), h1, h2⟩
    · intro c hcm
      rcases List.mem_append.mp hcm with hcm | hcm
      · exact ht.tK c hcm
      · rw [List.mem_singleton.mp hcm]; exact Or.inl hp
    · intro c hcm c' hcm' he hpe
      rcases List.mem_append.mp hcm with hcm | hcm <;> rcases List.mem_append.mp hcm' with hcm' | hcm'
      · exact ht.tKU c hcm c' hcm' he hpe
      · rw [List.mem_singleton.mp hcm'] at he; exact absurd he (hc c hcm)
      · rw [List.mem_singleton.mp hcm] at he; exact absurd he.symm (hc c' hcm')
      · rw [List.mem_singleton.mp hcm, List.mem_singleton.mp hcm']

/-- a compound request that does not exist yet has no sub-requests -/
theorem noSub_fresh (h : WfS a none) {i : Nat} (hi : a.nextClient ≤ i) : a.NoSub i := by
  intro p hpm hpi ho
  obtain ⟨c, hcm, h1, _⟩ := h.tok.tC p hpm hpi i ho
  have := h.k.lt c hcm
  omega

theorem step_addClient {xf xi d} : StepS xf xi d a (a.addClient e) where
  faults := rfl
  kMono := Nat.le_succ _
  keyMono := Nat.le_refl _
  idxNew := fun _ hx => Or.inl hx
  unl := fun _ q hm _ => ⟨q, hm, fun _ hx => hx⟩
  orphan := fun _ _ _ hn => hn
  debtAlive := fun i ha _ => by
    obtain ⟨c, hc, hi, hp⟩ := ha
    exact ⟨c, List.mem_append.mpr (Or.inl hc), hi, hp⟩
  prog := ProgS.of_same (fun _ h => h) rfl rfl rfl rfl rfl

theorem debt_addClient {x d d'} (h : WfS a none) (hd : DebtOk none d a) (hid : e.id = a.nextClient)
    (hother : ∀ i, i ≠ e.id → d' i = d i) (hf : ∀ i, a.nextClient + 1 ≤ i → d' i = 0)
    (he : some e.id ≠ x → e.out = d' e.id) : DebtOk x d' (a.addClient e) := by
  refine ⟨hf, ?_⟩
  intro c hcm hp hx
  rcases List.mem_append.mp hcm with hcm | hcm
  · have hlt := h.k.lt c hcm
    rw [hother c.id (by omega)]
    exact hd.cnt c hcm hp (fun hh => by cases hh)
  · rw [List.mem_singleton.mp hcm] at hx ⊢
    have : (a.addClient e).subs e.id = 0 := subsP_eq_zero.mpr (noSub_fresh h (by omega))
    rw [this, he hx]; omega

end

end Cares.Chan
