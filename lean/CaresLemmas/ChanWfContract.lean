import CaresLemmas.ChanWfDefs
/-!
# C01 — the client contract

The only file that looks inside `clientStart` / `clientOnCb` (the pure logic of the compound requests
`ares_query`, `ares_search`, `ares_getaddrinfo`).  The channel-level proofs use nothing but these facts, so a
new kind of compound request only has to re-establish them:

* the compound request keeps its identity and its user token;
* its own bookkeeping of outstanding sub-requests (`Client.outstanding`) is exact: handling one completion
  lowers it by one and raises it by the number of sub-requests started;
* it completes (`.finish`) only when nothing else is outstanding, and starts nothing in that step.
-/
namespace Cares.Chan

theorem hasFinish_append_finish (l : List ClientAct) (st t dg) (h : sends l = 0) :
    hasFinish (l ++ [.finish st t dg]) = true ∧ sends (l ++ [.finish st t dg]) = 0 := by
  induction l with
  | nil => exact ⟨rfl, rfl⟩
  | cons x r ih =>
    cases x with
    | send _ => simp [sends] at h
    | sendSlot _ _ => simp [sends] at h
    | noRetry _ => exact ih h
    | finish _ _ _ => exact ⟨rfl, rfl⟩

theorem hasFinish_append (l r : List ClientAct) (hl : hasFinish l = false) (hs : sends l = 0) :
    hasFinish (l ++ r) = hasFinish r ∧ sends (l ++ r) = sends r := by
  induction l with
  | nil => exact ⟨rfl, rfl⟩
  | cons x t ih =>
    cases x with
    | send _ => simp [sends] at hs
    | sendSlot _ _ => simp [sends] at hs
    | noRetry _ => exact ih hl hs
    | finish _ _ _ => simp [hasFinish] at hl

/-- result of one step of the getaddrinfo logic, relative to the `remaining` count `n` before it -/
def GaiOk (c : Client) (n : Nat) (r : Client × List ClientAct) : Prop :=
  r.1.kind = "gai" ∧ r.1.id = c.id ∧ r.1.tok = c.tok ∧
    (if hasFinish r.2 then sends r.2 = 0 else r.1.remaining = n + sends r.2)

theorem gaiNextDns_ok (cfg : Cfg) (c : Client) (hk : c.kind = "gai") (r) (h : gaiNextDns cfg c = some r) :
    GaiOk c c.remaining r := by
  unfold gaiNextDns at h
  split at h
  · cases h
  · simp only at h
    split at h
    · cases h; exact ⟨hk, rfl, rfl, by simp [hasFinish, sends]⟩
    · split at h
      · cases h; exact ⟨hk, rfl, rfl, by simp [hasFinish, sends]⟩
      · cases h; refine ⟨hk, rfl, rfl, ?_⟩; dsimp only [hasFinish, sends]; simp

theorem gaiNextLookup_ok (cfg : Cfg) (fuel : Nat) (c : Client) (st : Status) (hk : c.kind = "gai") :
    GaiOk c c.remaining (gaiNextLookup cfg fuel c st) := by
  induction fuel generalizing c with
  | zero => exact ⟨hk, rfl, rfl, by simp [hasFinish, sends]⟩
  | succ n ih =>
    unfold gaiNextLookup
    split
    · split
      · split
        · rename_i r hr; exact gaiNextDns_ok cfg c hk r hr
        · exact ih _ hk
      · exact ih _ hk
    · exact ih _ hk
    · exact ⟨hk, rfl, rfl, by simp [hasFinish, sends]⟩

end Cares.Chan
