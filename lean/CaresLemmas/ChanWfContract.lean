import CaresLemmas.ChanWfDefs
/-!
# C01 — the client contract

The only file that looks inside `clientStart` / `clientOnCb` (the pure logic of the compound requests
`ares_query`, `ares_search`, `ares_getaddrinfo`).  The channel-level proofs use nothing but these facts, so a
new kind of compound request only has to re-establish them:

* the compound request keeps its identity and its user token;
* its own bookkeeping of outstanding sub-requests (`Client.outstanding`) is exact: handling one completion
  lowers it by one and raises it by the number of sub-requests started;
* it completes (`.finish`) only when nothing else is outstanding, and starts nothing in that step.
-/
namespace Cares.Chan

theorem hasFinish_append_finish (l : List ClientAct) (st t dg) (h : sends l = 0) :
    hasFinish (l ++ [.finish st t dg]) = true ∧ sends (l ++ [.finish st t dg]) = 0 := by
  induction l with
  | nil => exact ⟨rfl, rfl⟩
  | cons x r ih =>
    cases x with
    | send _ => simp [sends] at h
    | sendSlot _ _ => simp [sends] at h
    | noRetry _ => exact ih h
    | finish _ _ _ => exact ⟨rfl, rfl⟩

theorem hasFinish_append (l r : List ClientAct) (hl : hasFinish l = false) (hs : sends l = 0) :
    hasFinish (l ++ r) = hasFinish r ∧ sends (l ++ r) = sends r := by
  induction l with
  | nil => exact ⟨rfl, rfl⟩
  | cons x t ih =>
    cases x with
    | send _ => simp [sends] at hs
    | sendSlot _ _ => simp [sends] at hs
    | noRetry _ => exact ih hl hs
    | finish _ _ _ => simp [hasFinish] at hl

/-- result of one step of the getaddrinfo logic, relative to the `remaining` count `n` before it -/
def GaiOk (c : Client) (n : Nat) (r : Client × List ClientAct) : Prop :=
  r.1.kind = "gai" ∧ r.1.id = c.id ∧ r.1.tok = c.tok ∧
    (if hasFinish r.2 then sends r.2 = 0 else r.1.remaining = n + sends r.2)

theorem gaiNextDns_ok (cfg : Cfg) (c : Client) (hk : c.kind = "gai") (r) (h : gaiNextDns cfg c = some r) :
    GaiOk c c.remaining r := by
  unfold gaiNextDns at h
  split at h
  · cases h
  · simp only at h
    split at h
    · cases h; exact ⟨hk, rfl, rfl, by simp [hasFinish, sends]⟩
    · split at h
      · cases h; exact ⟨hk, rfl, rfl, by simp [hasFinish, sends]⟩
      · cases h; refine ⟨hk, rfl, rfl, ?_⟩; dsimp only [hasFinish, sends]; simp

theorem gaiNextLookup_ok (cfg : Cfg) (fuel : Nat) (c : Client) (st : Status) (hk : c.kind = "gai") :
    GaiOk c c.remaining (gaiNextLookup cfg fuel c st) := by
  induction fuel generalizing c with
  | zero => unfold gaiNextLookup; exact ⟨hk, rfl, rfl, by simp [hasFinish, sends]⟩
  | succ n ih =>
    unfold gaiNextLookup
    split
    · split
      · split
        · rename_i r hr; exact gaiNextDns_ok cfg c hk r hr
        · exact ih _ hk
      · exact ih _ hk
    · exact ih _ hk
    · exact ⟨hk, rfl, rfl, by simp [hasFinish, sends]⟩

/-! #### `gaiOnCb`, split into its two halves (definitionally the code of `Client.lean`) -/

/-- ares_parse_into_addrinfo part of `gaiOnCb` -/
def gaiParse (c : Client) (st : Status) (rec : Option Reply) : Client × Status × List ClientAct :=
    match st, rec with
    | .ok, some r =>
      if r.an == 0 then (c, .nodata, []) else
      let isA := r.qtype == 1
      let isAAAA := r.qtype == 28
      if !isA && !isAAAA then
        let nodes := (List.range r.an).map fun i => s!"{answerAddr 1 r.mark i}/{r.ttls.getD i (r.ttls.getLastD 300)}"
        let c := { c with addrs := c.addrs ++ nodes, hasV4 := true,
                          aiName := if hexLower c.aiName == hexLower r.name && c.aiName != "" then c.aiName else r.name }
        (c, .ok, [])
      else
        let nodes := (List.range r.an).map fun i => s!"{answerAddr r.qtype r.mark i}/{r.ttls.getD i (r.ttls.getLastD 300)}"
        let c := { c with addrs := c.addrs ++ nodes, hasV4 := c.hasV4 || isA,
                          aiName := if hexLower c.aiName == hexLower r.name && c.aiName != "" then c.aiName else r.name }
        let other := if r.id == c.qidA then c.qidAAAA else c.qidA
        (c, .ok, if c.hasV4 && c.remaining != 0 then [.noRetry other] else [])
    | _, _ => (c, .ok, [])

/-- decision part of `gaiOnCb` -/
def gaiTail (cfg : Cfg) (st : Status) (x : Client × Status × List ClientAct) : Client × List ClientAct :=
  let (c, addinfo, acts) := x
  if c.remaining != 0 then (c, acts) else
  if st == .destruction || st == .cancelled then (c, acts ++ [.finish st c.timeouts "ai="])
  else if addinfo != .ok && addinfo != .nodata then (c, acts ++ [.finish addinfo c.timeouts "ai="])
  else if !c.addrs.isEmpty then (c, acts ++ [.finish .ok c.timeouts (gaiDigest c)])
  else if st == .notfound || st == .nodata || addinfo == .nodata then
    let c := if st == .nodata || addinfo == .nodata then { c with nodataCnt := c.nodataCnt + 1 } else c
    let (c, a) := gaiNextLookup cfg 8 c (if c.nodataCnt != 0 then .nodata else st)
    (c, acts ++ a)
  else if (st == .servfail || st == .refused) && labelCnt c.lastName == 1 then
    let (c, a) := gaiNextLookup cfg 8 c (if c.nodataCnt != 0 then .nodata else st)
    (c, acts ++ a)
  else (c, acts ++ [.finish st c.timeouts "ai="])

def gaiStatus (st0 : Status) (rec : Option Reply) : Status :=
  if st0 != .ok then st0 else
    match rec with
    | some r => replyToStatus r.rcode r.an
    | none => st0

theorem gaiOnCb_eq (cfg : Cfg) (c : Client) (st0 : Status) (timeouts : Nat) (rec : Option Reply) :
    gaiOnCb cfg c st0 timeouts rec =
      gaiTail cfg (gaiStatus st0 rec)
        (gaiParse { c with timeouts := c.timeouts + timeouts, remaining := c.remaining - 1 } (gaiStatus st0 rec) rec) :=
  rfl

theorem hasFinish_ite_noRetry (b : Bool) (x : Nat) :
    hasFinish (if b = true then [ClientAct.noRetry x] else []) = false := by cases b <;> rfl
theorem sends_ite_noRetry (b : Bool) (x : Nat) :
    sends (if b = true then [ClientAct.noRetry x] else []) = 0 := by cases b <;> rfl

/-- the parse half keeps the bookkeeping fields and asks for no sub-request -/
theorem gaiParse_ok (c : Client) (st : Status) (rec : Option Reply) :
    (gaiParse c st rec).1.kind = c.kind ∧ (gaiParse c st rec).1.id = c.id ∧ (gaiParse c st rec).1.tok = c.tok ∧
    (gaiParse c st rec).1.remaining = c.remaining ∧
    hasFinish (gaiParse c st rec).2.2 = false ∧ sends (gaiParse c st rec).2.2 = 0 := by
  unfold gaiParse
  split
  · split
    · exact ⟨rfl, rfl, rfl, rfl, rfl, rfl⟩
    · simp only
      split
      · exact ⟨rfl, rfl, rfl, rfl, rfl, rfl⟩
      · exact ⟨rfl, rfl, rfl, rfl, hasFinish_ite_noRetry _ _, sends_ite_noRetry _ _⟩
  · exact ⟨rfl, rfl, rfl, rfl, rfl, rfl⟩

theorem gaiTail_ok (cfg : Cfg) (st : Status) (c0 c : Client) (addinfo : Status) (acts : List ClientAct)
    (hk : c.kind = "gai") (hid : c.id = c0.id) (htok : c.tok = c0.tok)
    (hf : hasFinish acts = false) (hs : sends acts = 0) :
    GaiOk c0 c.remaining (gaiTail cfg st (c, addinfo, acts)) ∧
      (hasFinish (gaiTail cfg st (c, addinfo, acts)).2 = true → c.remaining = 0) := by
  have fin : ∀ st' t dg, GaiOk c0 c.remaining (c, acts ++ [.finish st' t dg]) := fun st' t dg =>
    ⟨hk, hid, htok, by simp [(hasFinish_append_finish acts st' t dg hs).1, (hasFinish_append_finish acts st' t dg hs).2]⟩
  have look : ∀ (c' : Client) st', c'.kind = "gai" → c'.id = c0.id → c'.tok = c0.tok → c'.remaining = c.remaining →
      GaiOk c0 c.remaining ((gaiNextLookup cfg 8 c' st').1, acts ++ (gaiNextLookup cfg 8 c' st').2) := by
    intro c' st' hk' hid' htok' hr'
    obtain ⟨g1, g2, g3, g4⟩ := gaiNextLookup_ok cfg 8 c' st' hk'
    refine ⟨g1, g2.trans hid', g3.trans htok', ?_⟩
    simp only [(hasFinish_append acts _ hf hs).1, (hasFinish_append acts _ hf hs).2]
    rw [hr'] at g4; exact g4
  unfold gaiTail
  simp only
  by_cases hr : c.remaining = 0
  · simp only [hr, bne_self_eq_false, Bool.false_eq_true, ↓reduceIte, implies_true, and_true]
    rw [← hr]
    repeat' split
    all_goals first
      | exact fin _ _ _
      | exact look _ _ (by first | exact hk | rfl) (by first | exact hid | rfl) (by first | exact htok | rfl) rfl
  · have : (c.remaining != 0) = true := by simpa using hr
    simp only [this, ↓reduceIte]
    exact ⟨⟨hk, hid, htok, by simp [hf, hs]⟩, fun h => by rw [hf] at h; cases h⟩

theorem outstanding_gai {c : Client} (h : c.kind = "gai") : c.outstanding = c.remaining := by
  unfold Client.outstanding; simp [h]
theorem outstanding_other {c : Client} (h : (c.kind == "gai") = false) : c.outstanding = 1 := by
  unfold Client.outstanding; simp [h]

/-! ### the contract -/

/-- what the completion callback of a sub-request may do -/
structure OnCbOk (c : Client) (r : Client × List ClientAct) : Prop where
  id : r.1.id = c.id
  tok : r.1.tok = c.tok
  count : if hasFinish r.2 then sends r.2 = 0 ∧ c.outstanding = 1
          else r.1.outstanding + 1 = c.outstanding + sends r.2

/-- `search_callback` (definitionally the last branch of `clientOnCb`) -/
def searchCb (c : Client) (st : Status) (timeouts : Nat) (rec : Option Reply) : Client × List ClientAct :=
    let c := { c with timeouts := c.timeouts + timeouts }
    let my : Status := match rec with
      | some r => replyToStatus r.rcode r.an
      | none => st
    let goOn : Bool :=
      my == .nodata || my == .notfound ||
      ((my == .servfail || my == .refused) && labelCnt c.lastName == 1)
    if !goOn then (c, [.finish my c.timeouts (digest rec)]) else
    let c := if my == .nodata then { c with everNodata := true } else c
    if !c.names.isEmpty then searchNextAct c
    else if c.everNodata then (c, [.finish .nodata c.timeouts "-"])
    else (c, [.finish my c.timeouts "-"])

theorem clientOnCb_search (cfg : Cfg) (c : Client) (st : Status) (timeouts : Nat) (rec : Option Reply)
    (h1 : (c.kind == "gai") = false) (h2 : (c.kind == "query") = false) :
    clientOnCb cfg c st timeouts rec = searchCb c st timeouts rec := by
  unfold clientOnCb
  rw [if_neg (by simp [h1]), if_neg (by simp [h2])]
  rfl

theorem searchTail_ok (c c2 : Client) (my : Status) (ho : c.outstanding = 1) (hk : c2.kind = c.kind)
    (hg : (c.kind == "gai") = false) (hi : c2.id = c.id) (ht : c2.tok = c.tok) :
    OnCbOk c (if !c2.names.isEmpty then searchNextAct c2
      else if c2.everNodata then (c2, [.finish .nodata c2.timeouts "-"])
      else (c2, [.finish my c2.timeouts "-"])) := by
  split
  · unfold searchNextAct
    split
    · exact ⟨hi, ht, by simp [hasFinish, sends, ho]⟩
    · refine ⟨hi, ht, ?_⟩
      have : ∀ (ns : List String) (ln : String), ({ c2 with names := ns, lastName := ln } : Client).outstanding = 1 :=
        fun _ _ => outstanding_other (by show (c2.kind == "gai") = false; rw [hk]; exact hg)
      simp [hasFinish, sends, ho, this]
  · split
    · exact ⟨hi, ht, by simp [hasFinish, sends, ho]⟩
    · exact ⟨hi, ht, by simp [hasFinish, sends, ho]⟩

theorem searchCb_ok (c : Client) (st : Status) (timeouts : Nat) (rec : Option Reply)
    (hg : (c.kind == "gai") = false) : OnCbOk c (searchCb c st timeouts rec) := by
  have ho := outstanding_other hg
  unfold searchCb
  generalize (match rec with
    | some r => replyToStatus r.rcode r.an
    | none => st) = my
  simp only
  split
  · exact ⟨rfl, rfl, by simp [hasFinish, sends, ho]⟩
  · apply searchTail_ok c _ _ ho
    · split <;> rfl
    · exact hg
    · split <;> rfl
    · split <;> rfl

theorem clientOnCb_ok (cfg : Cfg) (c : Client) (st : Status) (timeouts : Nat) (rec : Option Reply)
    (h1 : 1 ≤ c.outstanding) : OnCbOk c (clientOnCb cfg c st timeouts rec) := by
  by_cases hg : c.kind = "gai"
  · unfold clientOnCb
    simp only [hg, beq_self_eq_true, ↓reduceIte]
    rw [gaiOnCb_eq]
    rw [outstanding_gai hg] at h1
    obtain ⟨p1, p2, p3, p4, p5, p6⟩ :=
      gaiParse_ok { c with timeouts := c.timeouts + timeouts, remaining := c.remaining - 1 } (gaiStatus st rec) rec
    generalize gaiParse { c with timeouts := c.timeouts + timeouts, remaining := c.remaining - 1 }
      (gaiStatus st rec) rec = x at p1 p2 p3 p4 p5 p6
    obtain ⟨c1, addinfo, acts⟩ := x
    obtain ⟨⟨g1, g2, g3, g4⟩, g5⟩ := gaiTail_ok cfg (gaiStatus st rec) c c1 addinfo acts (p1.trans hg) p2 p3 p5 p6
    refine ⟨g2, g3, ?_⟩
    rw [outstanding_gai hg, outstanding_gai g1]
    simp only at p4
    split
    · rename_i hf
      rw [if_pos hf] at g4
      have := g5 hf
      exact ⟨g4, by omega⟩
    · rename_i hf
      rw [if_neg hf] at g4
      omega
  · have hg' : (c.kind == "gai") = false := by simpa using hg
    have ho := outstanding_other hg'
    by_cases hq : (c.kind == "query") = true
    · unfold clientOnCb
      simp only [hg', hq, Bool.false_eq_true, ↓reduceIte]
      exact ⟨rfl, rfl, by simp [hasFinish, sends, ho]⟩
    · rw [clientOnCb_search cfg c st timeouts rec hg' (by simpa using hq)]
      exact searchCb_ok c st timeouts rec hg'

/-- what an entry point may do -/
structure StartOk (id tok : Nat) (r : Client × List ClientAct) : Prop where
  id : r.1.id = id
  tok : r.1.tok = tok
  count : if hasFinish r.2 then sends r.2 = 0 else r.1.outstanding = sends r.2

theorem clientStart_ok (cfg : Cfg) (id : Nat) (kind : String) (tok : Nat) (react : List Nat) (spec : ReqSpec)
    (family : Nat) : StartOk id tok (clientStart cfg id kind tok react spec family) := by
  unfold clientStart
  split
  · -- getaddrinfo
    unfold gaiStart
    simp only
    split
    · exact ⟨rfl, rfl, by simp [hasFinish, sends]⟩
    · split
      · exact ⟨rfl, rfl, by simp [hasFinish, sends]⟩
      · split
        · exact ⟨rfl, rfl, by simp [hasFinish, sends]⟩
        · obtain ⟨g1, g2, g3, g4⟩ := gaiNextLookup_ok cfg 8
            { id := id, kind := "gai", tok := tok, react := react, name := spec.name, family := family,
              lookups := cfg.lookups.toList, names := searchNames cfg spec.name } .connrefused rfl
          refine ⟨g2, g3, ?_⟩
          rw [outstanding_gai g1]
          split
          · rename_i hf; rw [if_pos hf] at g4; exact g4
          · rename_i hf; rw [if_neg hf] at g4; simpa using g4
  · rename_i hg
    have hg' : (kind == "gai") = false := by simpa using hg
    split
    · exact ⟨rfl, rfl, by simp [hasFinish, sends, outstanding_other (c := { id := id, kind := kind, tok := tok, react := react }) hg']⟩
    · simp only
      split
      · exact ⟨rfl, rfl, by simp [hasFinish, sends]⟩
      · unfold searchNextAct
        split
        · exact ⟨rfl, rfl, by simp [hasFinish, sends]⟩
        · exact ⟨rfl, rfl, by simp [hasFinish, sends, Client.outstanding]⟩

/-- `ares_query_nolock`'s out parameter does not touch the bookkeeping -/
theorem sk_setQid (c : Client) (b : Bool) (x : Nat) :
    (if b = true then { c with qidA := x } else { c with qidAAAA := x }).sk = c.sk := by
  cases b <;> rfl

end Cares.Chan
