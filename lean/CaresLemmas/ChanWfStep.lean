import CaresLemmas.ChanWfRemove
/-!
# C01 — generic facts about the two-state relation `StepS` and the debt invariant `DebtOk`
-/
namespace Cares.Chan

/-! ### the progress relation -/

theorem forall2_sub_refl (l : List (List Nat)) : LcSub l l := by
  induction l with
  | nil => exact LcSub.nil
  | cons x r ih => exact LcSub.cons (fun _ h => h) ih

theorem forall2_sub_trans {a b c : List (List Nat)} (h1 : LcSub b a) (h2 : LcSub c b) : LcSub c a := by
  induction h2 generalizing a with
  | nil => cases h1; exact LcSub.nil
  | cons hx _ ih =>
    cases h1 with
    | cons hy ht => exact LcSub.cons (fun k hk => hy k (hx k hk)) (ih ht)

theorem LcSub.length {a b : List (List Nat)} (h : LcSub a b) : a.length = b.length := by
  induction h with
  | nil => rfl
  | cons _ _ ih => simp [ih]

theorem ProgS.refl (xt) (a : Sk) : ProgS xt a a where
  doneMono := fun _ h => h
  lcRel := forall2_sub_refl _
  allNew := fun _ h => Or.inl h
  keysLt := fun h => h
  ownKeep := fun _ _ hp _ => hp
  done6 := fun _ _ _ h hn => absurd h hn

theorem ProgS.trans {xt} {a b c : Sk} (h1 : ProgS xt a b) (h2 : ProgS xt b c) (hk : a.nextKey ≤ b.nextKey)
    (hi : ∀ x ∈ c.idx, x ∈ b.idx ∨ b.nextKey ≤ x) : ProgS xt a c where
  doneMono := fun t h => h2.doneMono t (h1.doneMono t h)
  lcRel := forall2_sub_trans h1.lcRel h2.lcRel
  allNew := fun k h => by
    rcases h2.allNew k h with h | h
    · exact h1.allNew k h
    · exact Or.inr (Nat.le_trans hk h)
  keysLt := fun h => h2.keysLt (h1.keysLt h)
  ownKeep := fun hl p hp hpi => by
    rcases hi _ hpi with h | h
    · exact h2.ownKeep (h1.keysLt hl) p (h1.ownKeep hl p hp h) hpi
    · have := hl p hp; omega
  done6 := fun hl p hp hpi hn tok ho => by
    by_cases hb : p.1 ∈ b.idx
    · exact h2.done6 (h1.keysLt hl) p (h1.ownKeep hl p hp hb) hb hn tok ho
    · rcases h1.done6 hl p hp hpi hb tok ho with h | h
      · exact Or.inl (h2.doneMono tok h)
      · exact Or.inr h

theorem ProgS.weaken {xt} {a b : Sk} (h : ProgS none a b) : ProgS xt a b where
  doneMono := h.doneMono
  lcRel := h.lcRel
  allNew := h.allNew
  keysLt := h.keysLt
  ownKeep := h.ownKeep
  done6 := fun hl p hp hpi hn tok ho => by
    rcases h.done6 hl p hp hpi hn tok ho with h' | h'
    · exact Or.inl h'
    · cases h'

/-- a step that leaves the request bookkeeping alone -/
theorem ProgS.of_same {xt} {a b : Sk} (hd : ∀ t ∈ a.doneToks, t ∈ b.doneToks) (hl : b.listCopy = a.listCopy)
    (ha : b.all = a.all) (hnk : b.nextKey = a.nextKey) (hq : b.qKO = a.qKO) (hi : b.idx = a.idx) : ProgS xt a b where
  doneMono := hd
  lcRel := by rw [hl]; exact forall2_sub_refl _
  allNew := fun k h => Or.inl (ha ▸ h)
  keysLt := fun h => by rw [hq, hnk]; exact h
  ownKeep := fun _ p hp _ => by rw [hq]; exact hp
  done6 := fun _ p _ hpi hn => absurd (hi ▸ hpi) hn

/-! ### the two-state relation -/

theorem StepS.refl (xf xi d) (a : Sk) : StepS xf xi d a a where
  faults := rfl
  kMono := Nat.le_refl _
  keyMono := Nat.le_refl _
  idxNew := fun _ h => Or.inl h
  unl := fun _ q h _ => ⟨q, h, fun _ hk => hk⟩
  orphan := fun _ _ _ h => h
  debtAlive := fun _ h _ => h
  prog := ProgS.refl _ _

theorem StepT.trans {xf xi xt d} {a b c : Sk} (h1 : StepT xf xi xt d a b) (h2 : StepT xf xi xt d b c) :
    StepT xf xi xt d a c where
  faults := h2.faults.trans h1.faults
  kMono := Nat.le_trans h1.kMono h2.kMono
  keyMono := Nat.le_trans h1.keyMono h2.keyMono
  idxNew := fun x hx => by
    rcases h2.idxNew x hx with h | h
    · exact h1.idxNew x h
    · exact Or.inr (Nat.le_trans h1.keyMono h)
  unl := fun fd q h hx => by
    obtain ⟨q1, hq1, s1⟩ := h1.unl fd q h hx
    obtain ⟨q2, hq2, s2⟩ := h2.unl fd q1 hq1 hx
    exact ⟨q2, hq2, fun k hk => s1 k (s2 k hk)⟩
  orphan := fun id hid hx hn =>
    h2.orphan id (Nat.lt_of_lt_of_le hid h1.kMono) hx (h1.orphan id hid hx hn)
  debtAlive := fun id ha hd => h2.debtAlive id (h1.debtAlive id ha hd) hd
  prog := h1.prog.trans h2.prog h1.keyMono h2.idxNew

theorem StepS.trans {xf xi d} {a b c : Sk} (h1 : StepS xf xi d a b) (h2 : StepS xf xi d b c) :
    StepS xf xi d a c := StepT.trans h1 h2

/-- exceptions may be added, the debt may be lowered -/
theorem StepT.weaken {xf xi xt d xf' xi' xt' d'} {a b : Sk} (h : StepT xf xi xt d a b)
    (hf : xf = none ∨ xf = xf') (hi : xi = none ∨ xi = xi') (ht : xt = none ∨ xt = xt') (hd : ∀ id, d' id ≤ d id) :
    StepT xf' xi' xt' d' a b where
  faults := h.faults
  kMono := h.kMono
  keyMono := h.keyMono
  idxNew := h.idxNew
  unl := fun fd q hm hx => h.unl fd q hm (by
    rcases hf with hf | hf
    · rw [hf]; exact fun hh => by cases hh
    · rw [hf]; exact hx)
  orphan := fun id hid hx hn => h.orphan id hid (by
    rcases hi with hi | hi
    · rw [hi]; exact fun hh => by cases hh
    · rw [hi]; exact hx) hn
  debtAlive := fun id ha hpos => h.debtAlive id ha (Nat.lt_of_lt_of_le hpos (hd id))
  prog := by
    rcases ht with ht | ht
    · subst ht; exact h.prog.weaken
    · subst ht; exact h.prog

theorem StepS.weaken {xf xi d xf' xi' d'} {a b : Sk} (h : StepS xf xi d a b)
    (hf : xf = none ∨ xf = xf') (hi : xi = none ∨ xi = xi') (hd : ∀ id, d' id ≤ d id) :
    StepS xf' xi' d' a b := StepT.weaken h hf hi (Or.inl rfl) hd

theorem StepS.weaken' {xf xi d} {a b : Sk} (h : StepS none none d a b) : StepS xf xi d a b :=
  h.weaken (Or.inl rfl) (Or.inl rfl) (fun _ => Nat.le_refl _)

theorem StepS.toT {xf xi xt d} {a b : Sk} (h : StepS xf xi d a b) : StepT xf xi xt d a b :=
  StepT.weaken h (Or.inr rfl) (Or.inr rfl) (Or.inl rfl) (fun _ => Nat.le_refl _)

/-- a step that leaves the ownership projections alone only has to account for the connection lists -/
theorem StepS.of_same {xf xi d} {a b : Sk} (hf : b.faults = a.faults) (hk : b.nextClient = a.nextClient)
    (hnk : b.nextKey = a.nextKey) (hq : b.qKO = a.qKO) (hi : b.idx = a.idx) (hc : b.clients = a.clients)
    (hp : b.pendingToks = a.pendingToks)
    (hu : ∀ fd q, (fd, true, q) ∈ a.cFUQ → some fd ≠ xf → ∃ q', (fd, true, q') ∈ b.cFUQ ∧ ∀ k ∈ q', k ∈ q)
    (hd : b.doneToks = a.doneToks := by rfl) (hl : b.listCopy = a.listCopy := by rfl)
    (ha : b.all = a.all := by rfl) : StepS xf xi d a b where
  faults := hf
  kMono := by rw [hk]; exact Nat.le_refl _
  keyMono := by rw [hnk]; exact Nat.le_refl _
  idxNew := fun x hx => Or.inl (hi ▸ hx)
  unl := hu
  orphan := fun id _ _ hn => by unfold Sk.NoSub at *; rw [hq, hi]; exact hn
  debtAlive := fun id ha _ => by unfold Sk.Active at *; rw [hc, hp]; exact ha
  prog := ProgS.of_same (fun t h => hd ▸ h) hl ha hnk hq hi

theorem DebtOk.congr {x d} {a b : Sk} (h : DebtOk x d a) (hk : b.nextClient = a.nextClient)
    (hq : b.qKO = a.qKO) (hi : b.idx = a.idx) (hc : b.clients = a.clients) (hp : b.pendingToks = a.pendingToks) :
    DebtOk x d b where
  fresh := by rw [hk]; exact h.fresh
  cnt := by unfold Sk.subs; rw [hc, hp, hq, hi]; exact h.cnt

theorem bump_zero (d : Nat → Nat) (id : Nat) : bump d id 0 = d := by
  funext i; unfold bump; split <;> rfl
theorem bump_self (d : Nat → Nat) (id n : Nat) : bump d id n id = d id + n := by simp [bump]
theorem bump_ne (d : Nat → Nat) {id i : Nat} (n : Nat) (h : i ≠ id) : bump d id n i = d i := by simp [bump, h]
theorem le_bump (d : Nat → Nat) (id n i : Nat) : d i ≤ bump d id n i := by
  unfold bump; split <;> omega
theorem bump_bump (d : Nat → Nat) (id m n : Nat) : bump (bump d id m) id n = bump d id (m + n) := by
  funext i; unfold bump; split <;> omega

theorem WfS.weaken_hole {a : Sk} {hole : Option Nat} (h : WfS a none) : WfS a hole :=
  ⟨h.q, h.i, h.t, ⟨h.c.nodup, h.c.lt, h.c.sock, h.c.qNodup, h.c.cq, fun p hp fd hfd => by
    obtain ⟨c, hc, h1, h2⟩ := h.c.qc p hp fd hfd
    exact ⟨c, hc, h1, h2.imp_right (fun hh => by cases hh)⟩⟩, h.s, h.k, h.tok⟩

/-! ### `removeFromConn` -/

theorem step_rfc {xf xi d} {a : Sk} {hole} {k : Nat} {e : QSk} (_h : WfS a hole) (hq : a.q? k = some e) :
    StepS xf xi d a (a.removeFromConn k) := by
  refine StepS.of_same (by simp) (by simp) (by simp) (by simp) (by simp) (by simp) (by simp) ?_ (by simp) (by simp)
    (by simp)
  intro fd q hm _
  rw [rfc_cFUQ hq]
  by_cases hcf : some fd = e.conn
  · exact ⟨q.erase k, mem_cfuqErase.mpr (Or.inr ⟨hcf, q, hm, rfl⟩), fun x hx => List.mem_of_mem_erase hx⟩
  · exact ⟨q, mem_cfuqErase.mpr (Or.inl ⟨hm, hcf⟩), fun _ hx => hx⟩

theorem debt_rfc {x d} {a : Sk} (k : Nat) (h : DebtOk x d a) : DebtOk x d (a.removeFromConn k) :=
  h.congr (by simp) (by simp) (by simp) (by simp) (by simp)

end Cares.Chan
