import CaresLemmas.ClientCausalB5
/-!
# Causality — body lemmas VI: `processAnswer`, `processRead`, `readAnswers`
-/
namespace Cares.Chan

variable {cid : Nat}

/-! ### `processAnswer` -/

theorem paPre_eq (s : St) (c : Conn) (key : Nat) (q : Query) (r : Reply) :
    paPre s c key q r = paS2 s c key (paVo s c q r) := rfl

theorem cookieCheck_eq (s : St) (c : Conn) (q : Query) (r : Reply) : cookieCheck s c q r = paVo s c q r := rfl

theorem cz_paDeliver {goC : GoC} (h : GoCz cid goC) {d fd r c key q s0 L s}
    (hm : MidL cid d s0 L s) (hki : key ∈ s.sk.idx) (hconn : ∀ q2, s.query? key = some q2 → q2.conn = some fd) :
    LGO cid L (paDeliverC goC fd r c key q s) := by
  unfold paDeliverC
  have hw := hm.mid.wf
  obtain ⟨q2, hq2, hq2s⟩ := query?_of_idx hw hki
  have hgetD : ((s.query? key).getD q).conn.getD fd = fd := by rw [hq2]; simp [hconn q2 hq2]
  simp only [hgetD]
  have hsk6 := sk_hole_st s fd key r
  generalize ((({ s with accepted := s.accepted ++ [(fd, key, r)] } : St).modConn fd fun c =>
      { c with queries := c.queries.erase key }).modQuery key fun q => { q with inConnList := false }) = s6
    at hsk6 ⊢
  have hw6 : WfS s6.sk (some key) := by rw [hsk6]; exact wf_hole hw
  have hd6 : DebtOk none d s6.sk := by rw [hsk6]; exact debt_hole hm.mid.debt
  have hk6 : s6.sk.Idx key := by unfold Sk.Idx; rw [hsk6]; exact hki
  have hq6 : s6.sk.q? key = some q2.sk := by rw [hsk6, hole_q?]; exact hq2s
  have hL6 : LG cid L 0 s6 := hm.lg.congr (by rw [hsk6]; rfl) (by rw [hsk6]; rfl)
  -- the two branches that put the query on the requeue list
  have viaRfc : ∀ (s8 : St) (ret : Ret), s8.sk = s6.sk.removeFromConn key → LGO cid L ((s8, ret), []) := by
    intro s8 ret h8
    exact LGO.done (hL6.congr (by rw [h8, rfc_qKO]) (by rw [h8, rfc_idx]))
  have hnd6 : (s6.servers.map (·.id)).Nodup := server_ids_nodup hw6
  split
  · refine viaRfc _ _ ?_
    show (St.modQuery _ _ _).sk = _
    rw [sk_modQuery_same, sk_removeFromConn]; intro; rfl
  · split
    · refine viaRfc _ _ ?_
      show (St.modQuery _ _ _).sk = _
      rw [sk_modQuery_same, sk_removeFromConn]; intro; rfl
    · split
      · have h7 := sk_incFailures s6 c.srv ((s.query? key).getD q).usingTcp hnd6
        exact h.tail (d := d) (c := .requeue key _ true (some r) true)
          ⟨by rw [h7]; exact hw6, by unfold Sk.Idx; rw [h7]; exact hk6, by rw [h7]; exact hd6⟩ (hL6.sk_eq h7)
      · have h7 : ((s6.cacheInsert ((s.query? key).getD q) r).setGood c.srv ((s.query? key).getD q).usingTcp).sk = s6.sk := by
          rw [sk_setGood, sk_cacheInsert]
          rw [servers_cacheInsert]; exact hnd6
        exact h.tail (d := d) (c := .endQuery (some c.srv) key .ok (some r))
          ⟨by rw [h7]; exact hw6, by unfold Sk.Idx; rw [h7]; exact hk6, by rw [h7]; exact hd6⟩ (hL6.sk_eq h7)

theorem cz_processAnswer {goC : GoC} (h : GoCz cid goC) {d fd r s L} (hpre : Pre d s (.processAnswer fd r))
    (hL : LG cid L (xtra cid (.processAnswer fd r)) s) : LGO cid L (bodyProcessAnswerC goC fd r s) := by
  obtain ⟨hw, hl, hd⟩ := hpre
  have hL0 : LG cid L 0 s := hL
  obtain ⟨c, hc⟩ := conn?_of_live hl
  unfold bodyProcessAnswerC
  simp only [hc]
  split
  · exact LGO.done hL0
  · split
    · exact LGO.done hL0
    · split
      · exact LGO.done hL0
      · rename_i x key hfind
        have hki : key ∈ s.sk.idx := List.mem_map.mpr ⟨(x, key), List.mem_of_find?_eq_some hfind, rfl⟩
        obtain ⟨q, hq, hqs⟩ := query?_of_idx hw hki
        simp only [hq]
        split
        · exact LGO.done hL0
        · rename_i hqc
          have hqc' : q.conn = some fd := by simpa using hqc
          split
          · exact LGO.done hL0
          · rw [paPre_eq, cookieCheck_eq]
            have hsk2 := sk_paS2 s c key (paVo s c q r)
            have hm2 : MidL cid d s L (paS2 s c key (paVo s c q r)) := (MidL.refl hw hd hL0).sk_eq hsk2
            by_cases hr : (paVo s c q r).requeue = true
            · have hdrop : (paVo s c q r).verdict = .drop := by
                unfold paVo at hr ⊢; exact validate_requeue_drop _ _ _ _ _ _ hr
              have hv : ((paVo s c q r).verdict == .drop) = true := by rw [hdrop]; rfl
              simp only [hr, hv, ↓reduceIte]
              exact h.tail (d := d) (c := .requeue key .ok false none true)
                ⟨WfS.weaken_hole hm2.mid.wf, by unfold Sk.Idx; rw [hsk2]; exact hki, hm2.mid.debt⟩ hm2.lg
            · have hr' : (paVo s c q r).requeue = false := by simpa using hr
              simp only [hr', Bool.false_eq_true, ↓reduceIte]
              split
              · exact LGO.done hm2.lg
              · refine LGO.seq (l1 := []) ?_
                rw [List.append_nil]
                refine cz_paDeliver h hm2 (by rw [hsk2]; exact hki) (fun q2 hq2 => ?_)
                have h1 := (query?_sk hq2).2.2
                rw [hsk2] at h1
                rw [← hqc']
                exact Sk.qKC_unique hw.q.nodup h1 (query?_sk hq).2.2

/-! ### `processRead` -/

theorem cz_processRead {goC : GoC} (h : GoCz cid goC) {d fd s L} (hpre : Pre d s (.processRead fd))
    (hL : LG cid L (xtra cid (.processRead fd)) s) : LGO cid L (bodyProcessReadC goC fd s) := by
  obtain ⟨hw, hd⟩ := hpre
  have hL0 : LG cid L 0 s := hL
  unfold bodyProcessReadC
  split
  · rename_i c v hc hv
    split
    · exact LGO.done hL0
    · rename_i hcu
      have hcu' : c.unlinked = false := by simpa using hcu
      have hlive := live_of_conn? hc
      have hhas : s.sk.hasConn fd false := by have := hasConn_of_conn? hc; rwa [hcu'] at this
      -- the three kinds of continuation, from any state with the same skeleton
      have toRA : ∀ s1 : St, s1.sk = s.sk → LGO cid L (goC (.readAnswers fd) s1) := by
        intro s1 h1
        exact h.tail (d := d) ⟨Wf.of_sk_eq h1 hw, by unfold Sk.liveConn; rw [h1]; exact hlive, by rw [h1]; exact hd⟩
          (hL0.sk_eq h1)
      have toPR : ∀ s1 : St, s1.sk = s.sk → LGO cid L (goC (.processRead fd) s1) := by
        intro s1 h1
        exact h.tail (d := d) (c := .processRead fd) ⟨Wf.of_sk_eq h1 hw, by rw [h1]; exact hd⟩ (hL0.sk_eq h1)
      have toCE : ∀ s1 : St, s1.sk = s.sk →
          LGO cid L (((goC (.connError fd true .connrefused) s1).1.1, Status.connrefused),
            (goC (.connError fd true .connrefused) s1).2) := by
        intro s1 h1
        exact h.tail (d := d) (c := .connError fd true .connrefused)
          ⟨Wf.of_sk_eq h1 hw, by rw [h1]; exact hhas, by rw [h1]; exact hd⟩ (hL0.sk_eq h1)
      have hsk0 := sk_fault s "recvfrom"
      generalize s.fault "recvfrom" = r0 at hsk0 ⊢
      obtain ⟨e, s0⟩ := r0
      simp only at hsk0
      split
      · -- UDP
        simp only
        split
        · split
          · exact toRA _ (by simp [hsk0])
          · exact toCE _ (by simp [hsk0])
        · split
          · exact toRA _ (by simp [hsk0])
          · split
            · exact toRA _ (by simp [hsk0])
            · refine toPR _ ?_
              rw [sk_modConn_same]
              · simp [hsk0]
              · intro; rfl
      · -- TCP
        simp only
        split
        · split
          · exact toRA _ (by simp [hsk0])
          · exact toCE _ (by simp [hsk0])
        · split
          · split
            · exact toCE _ (by simp [hsk0])
            · exact toRA _ (by simp [hsk0])
          · repeat' split
            all_goals
              refine toRA _ ?_
              first
                | (rw [sk_sock_conn]
                   · exact hsk0
                   · intro; rfl
                   · intro; rfl)
                | (rw [sk_sock_only]
                   · exact hsk0
                   · intro; rfl)
  · exact LGO.done hL0

/-! ### `readAnswers` -/

theorem cz_readAnswers {goC : GoC} (h : GoCz cid goC) {d fd s L} (hpre : Pre d s (.readAnswers fd))
    (hL : LG cid L (xtra cid (.readAnswers fd)) s) : LGO cid L (bodyReadAnswersC goC fd s) := by
  obtain ⟨hw, hl, hd⟩ := hpre
  have hL0 : LG cid L 0 s := hL
  obtain ⟨c, hc⟩ := conn?_of_live hl
  obtain ⟨v, hv⟩ := sock?_of_conn hw hc
  unfold bodyReadAnswersC
  simp only [hc, hv]
  -- continuation from an intermediate state
  have toFR : ∀ (s1 : St) (L1 : CLog), MidLO cid d s L1 s1 → LGO cid L1 (goC .flushRequeue s1) :=
    fun s1 L1 hm => hm.tail h (c' := .flushRequeue) (fun hm => ⟨hm.mid.wf, hm.mid.debt⟩) rfl
  split
  · exact toFR s L (Or.inr (MidL.refl hw hd hL0))
  · rename_i r _
    have hsk1 : (s.modConn fd fun c => { c with inMsgs := c.inMsgs.drop 1, inBytes := c.inBytes - (2 + r.len) }).sk = s.sk := by
      rw [sk_modConn_same]; intro; rfl
    generalize (s.modConn fd fun c => { c with inMsgs := c.inMsgs.drop 1, inBytes := c.inBytes - (2 + r.len) }) = s1
      at hsk1 ⊢
    have hm1 : MidL cid d s L s1 := (MidL.refl hw hd hL0).sk_eq hsk1
    have hm2 : MidLO cid d s (L ++ (goC (.processAnswer fd r) s1).2) (goC (.processAnswer fd r) s1).1.1 :=
      hm1.call h (.processAnswer fd r) ⟨hm1.mid.wf, by unfold Sk.liveConn; rw [hsk1]; exact hl, hm1.mid.debt⟩ rfl rfl rfl
    generalize goC (.processAnswer fd r) s1 = r2 at hm2 ⊢
    obtain ⟨⟨s2, st⟩, l2⟩ := r2
    simp only at hm2 ⊢
    split
    · exact LGO.seq (toFR s2 _ hm2)
    · rename_i c' hc'
      split
      · exact LGO.seq (toFR s2 _ hm2)
      · rename_i hcu
        have hcu' : c'.unlinked = false := by simpa using hcu
        split
        · refine LGO.seq ?_
          rw [← List.append_assoc]
          refine toFR _ _ (hm2.bind (h.oof (c := .connError fd true st)) (fun hm2 => ?_))
          exact hm2.call h (.connError fd true st)
            ⟨hm2.mid.wf, by have := hasConn_of_conn? hc'; rwa [hcu'] at this, hm2.mid.debt⟩ rfl rfl rfl
        · exact LGO.seq (hm2.tail h (c' := .readAnswers fd) (fun hm2 => ⟨hm2.mid.wf, live_of_conn? hc', hm2.mid.debt⟩) rfl)

end Cares.Chan
