import CaresLemmas.ChanPolicyExec
/-!
# Which fields the state helpers of the channel model touch

"Shape" lemmas: each helper of `Chan.Core` that is not a plain structure update is shown to equal a structure
update of a fixed set of fields.  An invariant that does not read those fields is then preserved definitionally
(`rw [shape]; exact h`).  Also the facts that server ids / query keys are never rewritten.
-/
namespace Cares.Chan

theorem notify_shape (s : St) (fd : Nat) (r w : Bool) :
    ∃ ev nl cs, s.notify fd r w = { s with ev := ev, notifyLog := nl, conns := cs } := by
  unfold St.notify
  split
  · exact ⟨_, _, _, rfl⟩
  · split <;> exact ⟨_, _, _, rfl⟩

theorem notify_conns (s : St) (fd : Nat) (r w : Bool) :
    (s.notify fd r w).conns = s.conns.map (fun c => if c.fd == fd then { c with notR := r, notW := w } else c) ∨
    (s.notify fd r w).conns = s.conns := by
  unfold St.notify
  split
  · exact Or.inr rfl
  · split <;> exact Or.inl rfl

theorem incFailures_shape (s : St) (id : Nat) (tcp : Bool) :
    ∃ ev sv, s.incFailures id tcp = { s with ev := ev, servers := sv } := by
  unfold St.incFailures
  split <;> exact ⟨_, _, rfl⟩

theorem setGood_shape (s : St) (id : Nat) (tcp : Bool) :
    ∃ ev sv, s.setGood id tcp = { s with ev := ev, servers := sv } := by
  unfold St.setGood
  split <;> exact ⟨_, _, rfl⟩

theorem metricsRecord_shape (s : St) (q : Query) (srv : Option Nat) (st : Status) (rec : Option Reply) :
    ∃ sv, s.metricsRecord q srv st rec = { s with servers := sv } := by
  unfold St.metricsRecord
  split
  · split <;> exact ⟨_, rfl⟩
  · exact ⟨_, rfl⟩

/-! server ids are never rewritten -/

theorem find?_id_eq {l : List Server} {id : Nat} {v : Server} (h : l.find? (·.id == id) = some v) : v.id = id := by
  have := List.find?_some h
  simpa using this

theorem map_setServer_ids (l : List Server) (v : Server) :
    (l.map fun x => if x.id == v.id then v else x).map (·.id) = l.map (·.id) := by
  rw [List.map_map]
  apply List.map_congr_left
  intro x _
  by_cases h : x.id == v.id
  · simp only [Function.comp, h, ↓reduceIte]; exact (beq_iff_eq.1 h).symm
  · simp [Function.comp, h]

theorem setServer_ids (s : St) (v : Server) : (s.setServer v).servers.map (·.id) = s.servers.map (·.id) :=
  map_setServer_ids s.servers v

theorem modServer_ids (s : St) (id : Nat) (f : Server → Server) (hf : ∀ v, (f v).id = v.id) :
    (s.modServer id f).servers.map (·.id) = s.servers.map (·.id) := by
  unfold St.modServer
  simp only [List.map_map]
  apply List.map_congr_left
  intro x _
  by_cases h : x.id == id <;> simp [Function.comp, h, hf]

theorem incFailures_ids (s : St) (id : Nat) (tcp : Bool) :
    (s.incFailures id tcp).servers.map (·.id) = s.servers.map (·.id) := by
  unfold St.incFailures
  split
  · rfl
  · exact setServer_ids s _

theorem setGood_ids (s : St) (id : Nat) (tcp : Bool) :
    (s.setGood id tcp).servers.map (·.id) = s.servers.map (·.id) := by
  unfold St.setGood
  split
  · rfl
  · exact setServer_ids s _

theorem metricsRecord_ids (s : St) (q : Query) (srv : Option Nat) (st : Status) (rec : Option Reply) :
    (s.metricsRecord q srv st rec).servers.map (·.id) = s.servers.map (·.id) := by
  unfold St.metricsRecord
  split
  · split
    · rfl
    · exact modServer_ids _ _ _ (fun _ => rfl)
  · rfl

theorem removeFromConn_shape (s : St) (k : Nat) :
    ∃ bt po cs qs, s.removeFromConn k = { s with byTimeout := bt, pendingOrder := po, conns := cs, qs := qs } := by
  unfold St.removeFromConn
  split
  · exact ⟨_, _, _, _, rfl⟩
  · split <;> exact ⟨_, _, _, _, rfl⟩

theorem detach_shape (s : St) (k : Nat) :
    ∃ bt po cs qs bq al lc, s.detach k =
      { s with byTimeout := bt, pendingOrder := po, conns := cs, qs := qs, byQid := bq, all := al, listCopy := lc } := by
  unfold St.detach
  split
  · exact ⟨_, _, _, _, _, _, _, rfl⟩
  · obtain ⟨bt, po, cs, qs, h⟩ := removeFromConn_shape s k
    simp only [h]
    exact ⟨_, _, _, _, _, _, _, rfl⟩

theorem freeQuery_shape (s : St) (k : Nat) :
    ∃ bt po cs qs bq al lc, s.freeQuery k =
      { s with byTimeout := bt, pendingOrder := po, conns := cs, qs := qs, byQid := bq, all := al, listCopy := lc } := by
  unfold St.freeQuery
  obtain ⟨bt, po, cs, qs, bq, al, lc, h⟩ := detach_shape s k
  simp only [h]
  exact ⟨_, _, _, _, _, _, _, rfl⟩

theorem fault_shape (s : St) (call : String) : ∃ fl, (s.fault call).2 = { s with faults := fl } :=
  ⟨_, rfl⟩

theorem draw1_shape (s : St) : ∃ o f, s.draw1.2 = { s with obs := o, obsFaults := f } := by
  unfold St.draw1
  split <;> exact ⟨_, _, rfl⟩

theorem draw2_shape (s : St) : ∃ o f, s.draw2.2 = { s with obs := o, obsFaults := f } := by
  unfold St.draw2
  split <;> exact ⟨_, _, rfl⟩

theorem pop8_shape (s : St) : ∃ o f, s.pop8 = { s with obs := o, obsFaults := f } := by
  unfold St.pop8
  split <;> exact ⟨_, _, rfl⟩

theorem genQid_shape (n : Nat) (s : St) : ∃ o f, (genQid n s).2 = { s with obs := o, obsFaults := f } := by
  induction n generalizing s with
  | zero => exact ⟨_, _, rfl⟩
  | succ n ih =>
    unfold genQid
    split
    · exact ⟨_, _, rfl⟩
    · obtain ⟨o, f, h⟩ := draw2_shape s
      dsimp only
      split
      · obtain ⟨o', f', h'⟩ := ih s.draw2.2
        rw [h', h]
        exact ⟨_, _, rfl⟩
      · exact ⟨o, f, h⟩

theorem ite_cache_shape (b : Prop) [Decidable b] (s : St) (X : List CacheEntry) :
    ∃ c, (if b then s else { s with cache := X }) = { s with cache := c } := by
  by_cases h : b
  · rw [if_pos h]; exact ⟨_, rfl⟩
  · rw [if_neg h]; exact ⟨_, rfl⟩

theorem cacheInsert_shape (s : St) (q : Query) (r : Reply) : ∃ c, s.cacheInsert q r = { s with cache := c } := by
  unfold St.cacheInsert
  split
  · exact ⟨_, rfl⟩
  split
  · exact ⟨_, rfl⟩
  split
  · exact ⟨_, rfl⟩
  exact ite_cache_shape _ s _

theorem userCallback_shape (s : St) (tok : Nat) (st : Status) (timeouts : Nat) (dg : String) :
    ∃ ev pt dt, s.userCallback tok st timeouts dg = { s with ev := ev, pendingToks := pt, doneToks := dt } := by
  unfold St.userCallback
  split <;> dsimp only <;> split <;> exact ⟨_, _, _, rfl⟩

/-- a query rewrite that touches at most the name (what `recordTx` does with the observed 0x20 spelling) -/
def NameOnly (g : Query → Query) : Prop := ∀ q, ∃ nm, g q = { q with name := nm }

theorem NameOnly.id_like (q : Query) : ∃ nm, q = { q with name := nm } := ⟨q.name, rfl⟩

theorem recordTx_shape (s : St) (fd : Nat) (tcp : Bool) (f : OutFrame) :
    ∃ t g ev sl, NameOnly g ∧ t.key = f.key ∧
      s.recordTx fd tcp f = { s with txs := s.txs ++ [t], sockLog := sl, qs := s.qs.map g, ev := ev } := by
  unfold St.recordTx St.modQuery St.slog St.emit
  refine ⟨_, _, _, _, ?_, ?_, rfl⟩
  · intro q
    dsimp only
    split
    · split
      · exact ⟨_, rfl⟩
      · exact ⟨q.name, rfl⟩
    · exact ⟨q.name, rfl⟩
  · rfl

theorem NameOnly.comp {g h : Query → Query} (hg : NameOnly g) (hh : NameOnly h) : NameOnly (g ∘ h) := by
  intro q
  obtain ⟨n1, e1⟩ := hh q
  obtain ⟨n2, e2⟩ := hg (h q)
  refine ⟨n2, ?_⟩
  show g (h q) = _
  rw [e2, e1]

theorem NameOnly.id : NameOnly (fun q => q) := fun q => ⟨q.name, rfl⟩

/-- `advanceOut`: connections' out queues shrink, transmissions are appended, names may be respelled -/
theorem advanceOut_shape (fuel fd : Nat) (s : St) (n : Nat) :
    ∃ cs tx qs ev sl,
      advanceOut fuel fd s n = { s with conns := cs, txs := tx, sockLog := sl, qs := qs, ev := ev } ∧
      (∃ l, tx = s.txs ++ l) ∧ (∃ g, NameOnly g ∧ qs = s.qs.map g) := by
  induction fuel generalizing s n with
  | zero => exact ⟨_, _, _, _, _, rfl, ⟨[], by simp⟩, ⟨_, NameOnly.id, by simp⟩⟩
  | succ k ih =>
    unfold advanceOut
    split
    · exact ⟨_, _, _, _, _, rfl, ⟨[], by simp⟩, ⟨_, NameOnly.id, by simp⟩⟩
    · split
      · exact ⟨_, _, _, _, _, rfl, ⟨[], by simp⟩, ⟨_, NameOnly.id, by simp⟩⟩
      · dsimp only
        split
        · rename_i c _ _ f rest _ _
          obtain ⟨t, g, ev, sl, hg, _, h⟩ := recordTx_shape
            (s.modConn fd fun c => { c with out := rest, outOff := 0 }) fd true f
          split
          · rw [h]; exact ⟨_, _, _, _, _, rfl, ⟨[t], rfl⟩, ⟨g, hg, rfl⟩⟩
          · obtain ⟨cs, tx, qs, ev', sl', h', ⟨l, hl⟩, ⟨g', hg', hq⟩⟩ := ih
              ((s.modConn fd fun c => { c with out := rest, outOff := 0 }).recordTx fd true f) (n - (f.len - c.outOff))
            rw [h', h]
            refine ⟨cs, tx, qs, ev', sl', rfl, ⟨t :: l, ?_⟩, ⟨g' ∘ g, hg'.comp hg, ?_⟩⟩
            · rw [hl, h]; simp [St.modConn]
            · rw [hq, h]; simp [St.modConn, List.map_map]
        · exact ⟨_, _, _, _, _, rfl, ⟨[], by simp⟩, ⟨_, NameOnly.id, by simp⟩⟩

/-! ### lookups through rewrites that keep the key -/

theorem find?_map_key {qs : List Query} {g : Query → Query} (hg : ∀ q, (g q).key = q.key) (k : Nat) :
    (qs.map g).find? (·.key == k) = (qs.find? (·.key == k)).map g := by
  induction qs with
  | nil => rfl
  | cons x r ih =>
    simp only [List.map_cons, List.find?_cons, hg]
    split
    · rfl
    · exact ih

theorem NameOnly.key {g : Query → Query} (hg : NameOnly g) (q : Query) : (g q).key = q.key := by
  obtain ⟨nm, e⟩ := hg q; rw [e]

theorem query?_key {s : St} {k : Nat} {q : Query} (h : s.query? k = some q) : q.key = k := by
  have := List.find?_some h
  simpa using this

theorem query?_mem {s : St} {k : Nat} {q : Query} (h : s.query? k = some q) : q ∈ s.qs :=
  List.mem_of_find?_eq_some h

/-! ### elimination forms: a predicate holds of the helper's result if it holds of every structure update of the
fields the helper may touch -/

section Elim
variable {P : St → Prop}

theorem notify_elim {s : St} {fd : Nat} {r w : Bool}
    (h : ∀ ev nl cs, P { s with ev := ev, notifyLog := nl, conns := cs }) : P (s.notify fd r w) := by
  obtain ⟨a, b, c, e⟩ := notify_shape s fd r w; rw [e]; exact h a b c

theorem incFailures_elim {s : St} {id : Nat} {tcp : Bool}
    (h : ∀ ev sv, P { s with ev := ev, servers := sv }) : P (s.incFailures id tcp) := by
  obtain ⟨a, b, e⟩ := incFailures_shape s id tcp; rw [e]; exact h a b

theorem setGood_elim {s : St} {id : Nat} {tcp : Bool}
    (h : ∀ ev sv, P { s with ev := ev, servers := sv }) : P (s.setGood id tcp) := by
  obtain ⟨a, b, e⟩ := setGood_shape s id tcp; rw [e]; exact h a b

theorem metricsRecord_elim {s : St} {q : Query} {srv : Option Nat} {st : Status} {rec : Option Reply}
    (h : ∀ sv, P { s with servers := sv }) : P (s.metricsRecord q srv st rec) := by
  obtain ⟨a, e⟩ := metricsRecord_shape s q srv st rec; rw [e]; exact h a

theorem removeFromConn_elim {s : St} {k : Nat}
    (h : ∀ bt po cs qs, P { s with byTimeout := bt, pendingOrder := po, conns := cs, qs := qs }) :
    P (s.removeFromConn k) := by
  obtain ⟨a, b, c, d, e⟩ := removeFromConn_shape s k; rw [e]; exact h a b c d

theorem detach_elim {s : St} {k : Nat}
    (h : ∀ bt po cs qs bq al lc, P { s with byTimeout := bt, pendingOrder := po, conns := cs, qs := qs,
                                            byQid := bq, all := al, listCopy := lc }) :
    P (s.detach k) := by
  obtain ⟨a, b, c, d, e1, e2, e3, e⟩ := detach_shape s k; rw [e]; exact h a b c d e1 e2 e3

theorem freeQuery_elim {s : St} {k : Nat}
    (h : ∀ bt po cs qs bq al lc, P { s with byTimeout := bt, pendingOrder := po, conns := cs, qs := qs,
                                            byQid := bq, all := al, listCopy := lc }) :
    P (s.freeQuery k) := by
  obtain ⟨a, b, c, d, e1, e2, e3, e⟩ := freeQuery_shape s k; rw [e]; exact h a b c d e1 e2 e3

theorem fault_elim {s : St} {call : String} (h : ∀ fl, P { s with faults := fl }) : P (s.fault call).2 := by
  obtain ⟨a, e⟩ := fault_shape s call; rw [e]; exact h a

theorem draw1_elim {s : St} (h : ∀ o f, P { s with obs := o, obsFaults := f }) : P s.draw1.2 := by
  obtain ⟨a, b, e⟩ := draw1_shape s; rw [e]; exact h a b

theorem draw2_elim {s : St} (h : ∀ o f, P { s with obs := o, obsFaults := f }) : P s.draw2.2 := by
  obtain ⟨a, b, e⟩ := draw2_shape s; rw [e]; exact h a b

theorem pop8_elim {s : St} (h : ∀ o f, P { s with obs := o, obsFaults := f }) : P s.pop8 := by
  obtain ⟨a, b, e⟩ := pop8_shape s; rw [e]; exact h a b

theorem genQid_elim {s : St} {n : Nat} (h : ∀ o f, P { s with obs := o, obsFaults := f }) : P (genQid n s).2 := by
  obtain ⟨a, b, e⟩ := genQid_shape n s; rw [e]; exact h a b

theorem cacheInsert_elim {s : St} {q : Query} {r : Reply} (h : ∀ c, P { s with cache := c }) :
    P (s.cacheInsert q r) := by
  obtain ⟨a, e⟩ := cacheInsert_shape s q r; rw [e]; exact h a

theorem userCallback_elim {s : St} {tok : Nat} {st : Status} {timeouts : Nat} {dg : String}
    (h : ∀ ev pt dt, P { s with ev := ev, pendingToks := pt, doneToks := dt }) :
    P (s.userCallback tok st timeouts dg) := by
  obtain ⟨a, b, c, e⟩ := userCallback_shape s tok st timeouts dg; rw [e]; exact h a b c

theorem recordTx_elim {s : St} {fd : Nat} {tcp : Bool} {f : OutFrame}
    (h : ∀ t g ev sl, NameOnly g → t.key = f.key →
      P { s with txs := s.txs ++ [t], sockLog := sl, qs := s.qs.map g, ev := ev }) :
    P (s.recordTx fd tcp f) := by
  obtain ⟨t, g, ev, sl, hg, hk, e⟩ := recordTx_shape s fd tcp f; rw [e]; exact h t g ev sl hg hk

theorem advanceOut_elim {s : St} {fuel fd n : Nat}
    (h : ∀ cs l g ev sl, NameOnly g →
      P { s with conns := cs, txs := s.txs ++ l, sockLog := sl, qs := s.qs.map g, ev := ev }) :
    P (advanceOut fuel fd s n) := by
  obtain ⟨cs, tx, qs, ev, sl, e, ⟨l, hl⟩, ⟨g, hg, hq⟩⟩ := advanceOut_shape fuel fd s n
  rw [e, hl, hq]; exact h cs l g ev sl hg

end Elim

end Cares.Chan
