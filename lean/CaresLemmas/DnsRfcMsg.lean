import CaresLemmas.DnsRfcRR
/-!
# Whole message: operational parser vs. RFC reference (helper lemmas for C04)
-/
namespace Cares.Dns
open Cares.Generated

/-- flag bits of the record API from the two flag octets, by division/modulo (RFC 1035 §4.1.1) -/
def rfcFlagWord (f1 f2 : Nat) : Nat :=
  (if f1 / 128 = 1 then Flag.qr else 0) + (if f1 / 4 % 2 = 1 then Flag.aa else 0) +
  (if f1 / 2 % 2 = 1 then Flag.tc else 0) + (if f1 % 2 = 1 then Flag.rd else 0) +
  (if f2 / 128 = 1 then Flag.ra else 0) + (if f2 / 32 % 2 = 1 then Flag.ad else 0) +
  (if f2 / 16 % 2 = 1 then Flag.cd else 0)

theorem hi_masks : ∀ f1, f1 < 256 →
    (((f1 <<< 8) &&& 0x8000 ≠ 0) ↔ f1 / 128 = 1) ∧ (((f1 <<< 8) &&& 0x400 ≠ 0) ↔ f1 / 4 % 2 = 1) ∧
    (((f1 <<< 8) &&& 0x200 ≠ 0) ↔ f1 / 2 % 2 = 1) ∧ (((f1 <<< 8) &&& 0x100 ≠ 0) ↔ f1 % 2 = 1) ∧
    (f1 <<< 8) &&& 0x80 = 0 ∧ (f1 <<< 8) &&& 0x20 = 0 ∧ (f1 <<< 8) &&& 0x10 = 0 ∧ (f1 <<< 8) &&& 0xf = 0 ∧
    ((f1 <<< 8) >>> 11) &&& 0xf = f1 / 8 % 16 := by decide +kernel

theorem lo_masks : ∀ f2, f2 < 256 →
    f2 &&& 0x8000 = 0 ∧ f2 &&& 0x400 = 0 ∧ f2 &&& 0x200 = 0 ∧ f2 &&& 0x100 = 0 ∧
    ((f2 &&& 0x80 ≠ 0) ↔ f2 / 128 = 1) ∧ ((f2 &&& 0x20 ≠ 0) ↔ f2 / 32 % 2 = 1) ∧
    ((f2 &&& 0x10 ≠ 0) ↔ f2 / 16 % 2 = 1) ∧ f2 &&& 0xf = f2 % 16 ∧ f2 >>> 11 = 0 := by decide +kernel

theorem header_bits (f1 f2 : Nat) (h1 : f1 < 256) (h2 : f2 < 256) :
    headerFlags (f1 * 256 + f2) = rfcFlagWord f1 f2 ∧ ((f1 * 256 + f2) >>> 11) &&& 0xf = f1 / 8 % 16 ∧
      (f1 * 256 + f2) &&& 0xf = f2 % 16 := by
  obtain ⟨a1, a2, a3, a4, a5, a6, a7, a8, a9⟩ := hi_masks f1 h1
  obtain ⟨b1, b2, b3, b4, b5, b6, b7, b8, b9⟩ := lo_masks f2 h2
  rw [← shl8_or f1 f2 h2]
  refine ⟨?_, ?_, ?_⟩
  · unfold headerFlags rfcFlagWord
    simp only [Nat.and_or_distrib_right, b1, b2, b3, b4, a5, a6, a7, Nat.or_zero, Nat.zero_or, a1, a2, a3, a4,
      b5, b6, b7]
    by_cases c1 : f1 / 128 = 1 <;> by_cases c2 : f1 / 4 % 2 = 1 <;> by_cases c3 : f1 / 2 % 2 = 1 <;>
      by_cases c4 : f1 % 2 = 1 <;> by_cases c5 : f2 / 128 = 1 <;> by_cases c6 : f2 / 32 % 2 = 1 <;>
      by_cases c7 : f2 / 16 % 2 = 1 <;>
      simp only [c1, c2, c3, c4, c5, c6, c7, ↓reduceIte] <;> decide
  · rw [Nat.shiftRight_or_distrib, Nat.and_or_distrib_right, a9, b9]; simp
  · rw [Nat.and_or_distrib_right, a8, b8]; simp

/-- extended-rcode bits contributed by a list of RRs, as `ares_dns_parse_rr_opt` ORs them in -/
def hiList (ms : List Rfc.RR) : Nat := ms.foldr (fun m acc => optHi m.type m.ttl ||| acc) 0

theorem parseRRs_sound {bs : Bytes} {sect : Sect} (n : Nat) :
    ∀ {p p' hi : Nat} {rrs : List RR}, p ≤ bs.size → parseRRs bs 0 sect n p = .ok (rrs, hi) p' →
      ∃ ms, Rfc.decodeRRs bs n p = some (ms, p') ∧ Rfc.rrsToRec ms = some rrs ∧
        ms.all Rfc.RR.supported = true ∧ hi = hiList ms ∧ p' ≤ bs.size := by
  induction n with
  | zero =>
    intro p p' hi rrs hp hr
    simp only [parseRRs, P.pure_apply] at hr
    injection hr with hr ho; injection hr with h1 h2
    subst h1; subst h2; subst ho
    exact ⟨[], rfl, rfl, rfl, rfl, hp⟩
  | succ n ih =>
    intro p p' hi rrs hp hr
    unfold parseRRs at hr
    obtain ⟨r1, o1, g1, hr⟩ := P.bind_eq_ok hr
    obtain ⟨rr, hi1⟩ := r1
    simp only at hr
    obtain ⟨r2, o2, g2, hr⟩ := P.bind_eq_ok hr
    obtain ⟨rest, hi2⟩ := r2
    simp only [P.pure_apply] at hr
    injection hr with hr ho; injection hr with h1 h2
    subst h1; subst h2; subst ho
    have b1 := (safe_parseRR 0 sect hp).ok g1
    obtain ⟨m, d1, t1, s1, e1⟩ := parseRR_sound hp g1
    obtain ⟨ms, d2, t2, s2, e2, hb⟩ := ih b1.2 g2
    refine ⟨m :: ms, ?_, ?_, ?_, ?_, hb⟩
    · simp only [Rfc.decodeRRs, d1, d2]
    · simp only [Rfc.rrsToRec, t1, t2]
    · simp only [List.all_cons, s1, s2, Bool.and_self]
    · simp only [hiList, List.foldr_cons, e1, e2]

theorem parseRRs_complete {bs : Bytes} {sect : Sect} (n : Nat) :
    ∀ {p p' : Nat} {ms : List Rfc.RR}, p ≤ bs.size → Rfc.decodeRRs bs n p = some (ms, p') →
      ms.all Rfc.RR.supported = true →
      ∃ rrs, parseRRs bs 0 sect n p = .ok (rrs, hiList ms) p' ∧ Rfc.rrsToRec ms = some rrs ∧ p' ≤ bs.size := by
  induction n with
  | zero =>
    intro p p' ms hp hd _
    simp only [Rfc.decodeRRs, Option.some.injEq, Prod.mk.injEq] at hd
    obtain ⟨rfl, rfl⟩ := hd
    exact ⟨[], rfl, rfl, hp⟩
  | succ n ih =>
    intro p p' ms hp hd hs
    simp only [Rfc.decodeRRs] at hd
    cases hd1 : Rfc.decodeRR bs p with
    | none => rw [hd1] at hd; simp at hd
    | some r =>
      obtain ⟨m, p1⟩ := r
      rw [hd1] at hd
      simp only at hd
      cases hd2 : Rfc.decodeRRs bs n p1 with
      | none => rw [hd2] at hd; simp at hd
      | some r2 =>
        obtain ⟨rest, p2⟩ := r2
        rw [hd2] at hd
        simp only [Option.some.injEq, Prod.mk.injEq] at hd
        obtain ⟨rfl, rfl⟩ := hd
        simp only [List.all_cons, Bool.and_eq_true] at hs
        obtain ⟨rr, hi, g1, t1, e1⟩ := parseRR_complete (sect := sect) hp hd1 hs.1
        have b1 := (safe_parseRR 0 sect hp).ok g1
        obtain ⟨rrs, g2, t2, hb⟩ := ih b1.2 hd2 hs.2
        refine ⟨rr :: rrs, ?_, ?_, hb⟩
        · unfold parseRRs
          rw [P.bind_ok g1]
          simp only
          rw [P.bind_ok g2]
          simp only [P.pure_apply, hiList, List.foldr_cons, e1]
        · simp only [Rfc.rrsToRec, t1, t2]

theorem mul16_eq_shl (x : Nat) : x * 16 = x <<< 4 := by rw [Nat.shiftLeft_eq]

theorem or_mul16 (x y : Nat) : (x ||| y) * 16 = x * 16 ||| y * 16 := by
  rw [mul16_eq_shl, mul16_eq_shl, mul16_eq_shl, Nat.shiftLeft_or_distrib]

/-- extended RCODE octet of a list of RRs, as `Rfc.Msg.extRcode` computes it -/
def extList (ms : List Rfc.RR) : Nat :=
  (ms.filter (·.type = Rfc.typeOPT)).foldl (fun acc rr => acc ||| rr.ttl / 16777216) 0

theorem foldl_or_init (l : List Rfc.RR) (a : Nat) :
    l.foldl (fun acc rr => acc ||| rr.ttl / 16777216) a =
      a ||| l.foldl (fun acc rr => acc ||| rr.ttl / 16777216) 0 := by
  induction l generalizing a with
  | nil => simp
  | cons x l ih =>
    simp only [List.foldl_cons]
    rw [ih (a ||| x.ttl / 16777216), ih (0 ||| x.ttl / 16777216), Nat.zero_or, Nat.or_assoc]

theorem extList_cons (m : Rfc.RR) (ms : List Rfc.RR) :
    extList (m :: ms) = (if m.type = 41 then m.ttl / 16777216 else 0) ||| extList ms := by
  unfold extList
  by_cases h : m.type = 41
  · simp only [List.filter_cons, Rfc.typeOPT, h, decide_true, ↓reduceIte, List.foldl_cons, Nat.zero_or]
    rw [foldl_or_init]
  · simp only [List.filter_cons, Rfc.typeOPT, h, decide_false, Bool.false_eq_true, ↓reduceIte, Nat.zero_or]

theorem hiList_eq (ms : List Rfc.RR) : hiList ms = extList ms * 16 := by
  induction ms with
  | nil => rfl
  | cons m ms ih =>
    rw [extList_cons, or_mul16, ← ih]
    simp only [hiList, List.foldr_cons, optHi]
    by_cases h : m.type = 41 <;> simp [h]

theorem hiList_append (a b : List Rfc.RR) : hiList (a ++ b) = hiList a ||| hiList b := by
  induction a with
  | nil => simp [hiList]
  | cons m a ih =>
    simp only [List.cons_append, hiList, List.foldr_cons] at ih ⊢
    rw [ih, Nat.or_assoc]

theorem rcode_or (rc4 e : Nat) (h : rc4 < 16) : rc4 ||| e * 16 = e * 16 + rc4 := by
  rw [mul16_eq_shl, Nat.or_comm]
  exact (Nat.shiftLeft_add_eq_or_of_lt (i := 4) h e).symm

/-- the header as the model reads it, in closed form -/
theorem parseHeader_eq {bs : Bytes} (h12 : 12 ≤ bs.size) :
    parseHeader bs 0 =
      if opcodeValid ((be16At bs 2 (by omega) >>> 11) &&& 0xf) = true then
        .ok { id := be16At bs 0 (by omega), flags := headerFlags (be16At bs 2 (by omega)),
              opcode := (be16At bs 2 (by omega) >>> 11) &&& 0xf, rawRcode := be16At bs 2 (by omega) &&& 0xf,
              qdcount := be16At bs 4 (by omega), ancount := be16At bs 6 (by omega),
              nscount := be16At bs 8 (by omega), arcount := be16At bs 10 (by omega) } 12
      else .err .eformerr := by
  unfold parseHeader
  have f : ∀ (o : Nat) (h : o + 2 ≤ bs.size), fetchBe16 bs o = .ok (be16At bs o h) (o + 2) := by
    intro o h; rw [fetchBe16_eq (by omega), dif_pos h]
  rw [P.bind_ok (f 0 (by omega)), P.bind_ok (f 2 (by omega)), P.bind_ok (f 4 (by omega)),
    P.bind_ok (f 6 (by omega)), P.bind_ok (f 8 (by omega)), P.bind_ok (f 10 (by omega))]
  have hr0 : rcodeValid 0 = true := by decide
  by_cases hop : opcodeValid ((be16At bs 2 (by omega) >>> 11) &&& 0xf) = true
  · rw [if_pos hop, if_neg (by simp [hop, hr0])]; rfl
  · rw [if_neg hop, if_pos (by simp [hop])]; rfl

theorem parseHeader_short {bs : Bytes} (h12 : ¬ 12 ≤ bs.size) : ∃ e, parseHeader bs 0 = .err e := by
  have hs := safe_parseHeader (bs := bs) (off := 0) (Nat.zero_le _)
  cases hr : parseHeader bs 0 with
  | err e => exact ⟨e, rfl⟩
  | fault k => exact (hs.not_fault hr).elim
  | ok hd o =>
    exfalso
    unfold parseHeader at hr
    obtain ⟨_, o1, g1, hr⟩ := P.bind_eq_ok hr
    obtain ⟨_, o2, g2, hr⟩ := P.bind_eq_ok hr
    obtain ⟨_, o3, g3, hr⟩ := P.bind_eq_ok hr
    obtain ⟨_, o4, g4, hr⟩ := P.bind_eq_ok hr
    obtain ⟨_, o5, g5, hr⟩ := P.bind_eq_ok hr
    obtain ⟨_, o6, g6, hr⟩ := P.bind_eq_ok hr
    have e1 := fetchBe16_ok g1
    have e2 := fetchBe16_ok g2
    have e3 := fetchBe16_ok g3
    have e4 := fetchBe16_ok g4
    have e5 := fetchBe16_ok g5
    have e6 := fetchBe16_ok g6
    omega

theorem classValid_query (c t : Nat) (ht : t < 65536) :
    classValid c t true = (decide (c = 1) || decide (c = 3) || decide (c = 4) || decide (c = 254) || decide (c = 255)) := by
  have h1 : t ≠ 65536 := by omega
  by_cases h24 : t = 24
  · subst h24
    simp [classValid, List.contains_eq_mem, List.mem_cons, Bool.or_assoc]
  · simp [classValid, List.contains_eq_mem, List.mem_cons, Bool.or_assoc, h24, h1]

theorem recTypeValid_query (t : Nat) (ht : t < 65536) : recTypeValid t true = true := by
  have h1 : t ≠ 65536 := by omega
  simp [recTypeValid, recTypeInvalidQuery, h1]

theorem parseQd_sound {bs : Bytes} {p p' : Nat} {q : Question} (hp : p ≤ bs.size)
    (hr : parseQd bs p = .ok q p') :
    ∃ rq, Rfc.decodeQuestion bs p = some (rq, p') ∧ rq.toRec = q ∧ p' ≤ bs.size ∧
      (rq.qclass = 1 ∨ rq.qclass = 3 ∨ rq.qclass = 4 ∨ rq.qclass = 254 ∨ rq.qclass = 255) := by
  have hb := (safe_parseQd hp).ok hr
  unfold parseQd at hr
  obtain ⟨name, o1, g1, hr⟩ := P.bind_eq_ok hr
  rw [parseName_eq_rfc bs p hp] at g1
  cases hn : Rfc.name bs p with
  | none => rw [hn] at g1; simp at g1
  | some r =>
    obtain ⟨labels, q1⟩ := r
    rw [hn] at g1
    injection g1 with g1 go; subst g1; subst go
    have hq := name_next_le hp hn
    obtain ⟨qtype, o2, g2, hr⟩ := P.bind_eq_ok hr
    obtain ⟨qclass, o3, g3, hr⟩ := P.bind_eq_ok hr
    obtain ⟨e2, l2⟩ := fetchBe16_ok g2
    subst e2
    obtain ⟨e3, l3⟩ := fetchBe16_ok g3
    subst e3
    rw [fetchBe16_eq hq.2, dif_pos (by omega)] at g2
    injection g2 with g2 _; subst g2
    rw [fetchBe16_eq (by omega), dif_pos (by omega)] at g3
    injection g3 with g3 _; subst g3
    split at hr
    · simp at hr
    · rename_i hvalid
      simp only [P.pure_apply] at hr
      injection hr with hr ho; subst hr; subst ho
      simp only [not_or, Bool.not_eq_true, Bool.not_eq_eq_eq_not, Bool.not_not, Bool.not_true,
        Bool.not_eq_false] at hvalid
      refine ⟨⟨labels, be16At bs q1 (by omega), be16At bs (q1 + 2) (by omega)⟩, ?_, rfl, by omega, ?_⟩
      · unfold Rfc.decodeQuestion
        rw [hn]
        simp only [u16At_eq]
        rw [dif_pos (by omega), dif_pos (by omega)]
      · have hc := hvalid.2
        have hlt := be16At_lt (bs := bs) (off := q1 + 2) (by omega)
        rw [classValid_query _ _ (be16At_lt _)] at hc
        simpa [Bool.or_eq_true, or_assoc] using hc

theorem parseQd_complete {bs : Bytes} {p p' : Nat} {rq : Rfc.Question} (hp : p ≤ bs.size)
    (hd : Rfc.decodeQuestion bs p = some (rq, p'))
    (hc : rq.qclass = 1 ∨ rq.qclass = 3 ∨ rq.qclass = 4 ∨ rq.qclass = 254 ∨ rq.qclass = 255) :
    parseQd bs p = .ok rq.toRec p' ∧ p' ≤ bs.size := by
  unfold Rfc.decodeQuestion at hd
  cases hn : Rfc.name bs p with
  | none => rw [hn] at hd; simp at hd
  | some r =>
    obtain ⟨labels, q1⟩ := r
    rw [hn] at hd
    simp only [u16At_eq] at hd
    have hq := name_next_le hp hn
    by_cases h4 : q1 + 2 + 2 ≤ bs.size
    · rw [dif_pos (by omega), dif_pos h4] at hd
      simp only [Option.some.injEq, Prod.mk.injEq] at hd
      obtain ⟨rfl, rfl⟩ := hd
      refine ⟨?_, by omega⟩
      unfold parseQd
      rw [P.bind_ok (by rw [parseName_eq_rfc bs p hp, hn]),
        P.bind_ok (by rw [fetchBe16_eq hq.2, dif_pos (by omega)]),
        P.bind_ok (by rw [fetchBe16_eq (by omega), dif_pos (by omega)])]
      have h1 : recTypeValid (be16At bs q1 (by omega)) true = true := recTypeValid_query _ (be16At_lt _)
      have h2 : classValid (be16At bs (q1 + 2) (by omega)) (be16At bs q1 (by omega)) true = true := by
        rw [classValid_query _ _ (be16At_lt _)]
        simp only at hc
        simp only [Bool.or_eq_true, decide_eq_true_eq]
        omega
      rw [if_neg (by simp [h1, h2])]
      rfl
    · rw [dif_neg h4] at hd
      split at hd
      · rename_i h1 h2; simp at h2
      · simp at hd

/-- the message the reference decoder builds from the header octets and the decoded sections -/
def refMsg (bs : Bytes) (h12 : 12 ≤ bs.size) (qs : List Rfc.Question) (an ns ar : List Rfc.RR) : Rfc.Msg :=
  { id := be16At bs 0 (by omega), qr := bs[2].toNat / 128 = 1, opcode := bs[2].toNat / 8 % 16,
    aa := bs[2].toNat / 4 % 2 = 1, tc := bs[2].toNat / 2 % 2 = 1, rd := bs[2].toNat % 2 = 1,
    ra := bs[3].toNat / 128 = 1, z := bs[3].toNat / 64 % 2 = 1, ad := bs[3].toNat / 32 % 2 = 1,
    cd := bs[3].toNat / 16 % 2 = 1, rcode := bs[3].toNat % 16,
    questions := qs, answers := an, authority := ns, additional := ar }

/-- the reference decoder on a message whose first 12 octets exist, in terms of the pieces -/
theorem decode_eq {bs : Bytes} (h12 : 12 ≤ bs.size) :
    Rfc.decode bs =
      match Rfc.decodeQuestions bs (be16At bs 4 (by omega)) 12 with
      | none => none
      | some (qs, p1) =>
        match Rfc.decodeRRs bs (be16At bs 6 (by omega)) p1 with
        | none => none
        | some (an, p2) =>
          match Rfc.decodeRRs bs (be16At bs 8 (by omega)) p2 with
          | none => none
          | some (ns, p3) =>
            match Rfc.decodeRRs bs (be16At bs 10 (by omega)) p3 with
            | none => none
            | some (ar, _) => some (refMsg bs h12 qs an ns ar) := by
  unfold Rfc.decode
  simp only [u16At_eq, byteAt_eq]
  rw [dif_pos (by omega), dif_pos (by omega), dif_pos (by omega), dif_pos (by omega), dif_pos (by omega),
    dif_pos (by omega), dif_pos (by omega)]
  rfl

theorem decode_short {bs : Bytes} (h12 : ¬ 12 ≤ bs.size) : Rfc.decode bs = none := by
  unfold Rfc.decode
  simp only [u16At_eq, byteAt_eq]
  by_cases h : 10 + 2 ≤ bs.size
  · omega
  · rw [dif_neg h]
    split <;> simp_all

theorem flagBits_eq (m : Rfc.Msg) (f1 f2 : Nat) (h1 : m.qr = decide (f1 / 128 = 1))
    (h2 : m.aa = decide (f1 / 4 % 2 = 1)) (h3 : m.tc = decide (f1 / 2 % 2 = 1)) (h4 : m.rd = decide (f1 % 2 = 1))
    (h5 : m.ra = decide (f2 / 128 = 1)) (h6 : m.ad = decide (f2 / 32 % 2 = 1))
    (h7 : m.cd = decide (f2 / 16 % 2 = 1)) : Rfc.flagBits m = rfcFlagWord f1 f2 := by
  unfold Rfc.flagBits rfcFlagWord
  rw [h1, h2, h3, h4, h5, h6, h7]
  simp only [decide_eq_true_eq]

theorem parse_sound_thm (bs : Bytes) (r : Rec) (h : parse bs 0 = .ok r) :
    ∃ m, Rfc.decode bs = some m ∧ m.toRec = some r ∧ Rfc.supported bs m = true := by
  unfold parse at h
  split at h
  · simp at h
  · split at h
    · simp at h
    · rename_i hne hsz
      split at h
      · rename_i r' o hr
        injection h with h
        subst h
        by_cases h12 : 12 ≤ bs.size
        · unfold parseMsg at hr
          obtain ⟨hd, o1, g1, hr⟩ := P.bind_eq_ok hr
          rw [parseHeader_eq h12] at g1
          split at g1
          · rename_i hop
            injection g1 with g1 go
            subst g1; subst go
            simp only at hr
            split at hr
            · simp at hr
            · split at hr
              · simp at hr
              · rename_i hq0 hq1
                have hqd : be16At bs 4 (by omega) = 1 := by omega
                obtain ⟨q, o2, g2, hr⟩ := P.bind_eq_ok hr
                obtain ⟨rq, dq, tq, bq, cq⟩ := parseQd_sound (by omega : 12 ≤ bs.size) g2
                obtain ⟨x1, o3, g3, hr⟩ := P.bind_eq_ok hr
                obtain ⟨an, hi1⟩ := x1
                simp only at hr
                obtain ⟨man, d1, t1, s1, e1, b1⟩ := parseRRs_sound _ bq g3
                obtain ⟨x2, o4, g4, hr⟩ := P.bind_eq_ok hr
                obtain ⟨ns, hi2⟩ := x2
                simp only at hr
                obtain ⟨mns, d2, t2, s2, e2, b2⟩ := parseRRs_sound _ b1 g4
                obtain ⟨x3, o5, g5, hr⟩ := P.bind_eq_ok hr
                obtain ⟨ar, hi3⟩ := x3
                simp only [P.pure_apply] at hr
                obtain ⟨mar, d3, t3, s3, e3, b3⟩ := parseRRs_sound _ b2 g5
                injection hr with hr _
                subst hr
                have hbits := header_bits bs[2].toNat bs[3].toNat bs[2].toNat_lt bs[3].toNat_lt
                rw [← be16At_eq (bs := bs) (p := 2) (by omega)] at hbits
                obtain ⟨hb1, hb2, hb3⟩ := hbits
                have hdq : Rfc.decodeQuestions bs (be16At bs 4 (by omega)) 12 = some ([rq], o2) := by
                  rw [hqd]
                  simp only [Rfc.decodeQuestions, dq]
                have hrc4 : bs[3].toNat % 16 < 16 := Nat.mod_lt _ (by decide)
                have hrc : (refMsg bs h12 [rq] man mns mar).fullRcode =
                    (be16At bs 2 (by omega) &&& 0xf) ||| hi1 ||| hi2 ||| hi3 := by
                  change extList (man ++ mns ++ mar) * 16 + bs[3].toNat % 16 = _
                  rw [hb3, Nat.or_assoc, Nat.or_assoc, e1, e2, e3, ← hiList_append, ← hiList_append,
                    ← List.append_assoc]
                  rw [hiList_eq (man ++ mns ++ mar), rcode_or _ _ hrc4]
                  
                refine ⟨refMsg bs h12 [rq] man mns mar, ?_, ?_, ?_⟩
                · rw [decode_eq h12, hdq]
                  simp only [d1, d2, d3]
                · have hfl : Rfc.flagBits (refMsg bs h12 [rq] man mns mar) = rfcFlagWord bs[2].toNat bs[3].toNat :=
                    flagBits_eq _ bs[2].toNat bs[3].toNat rfl rfl rfl rfl rfl rfl rfl
                  simp only [Rfc.Msg.toRec, hrc, hfl, hb1, hb2]
                  simp only [refMsg, List.map_cons, List.map_nil, tq, t1, t2, t3]
                · simp only [Rfc.supported, Rfc.Msg.rrs, refMsg, List.all_append, s1, s2, s3, Bool.and_true,
                    List.length_cons, List.length_nil, List.all_cons, List.all_nil]
                  have hsz' : bs.size ≤ 65535 := by omega
                  have hop' : opcodeValid (bs[2].toNat / 8 % 16) = true := by rw [← hb2]; exact hop
                  simp only [hsz', hop', decide_true, Bool.and_true, Bool.true_and]
                  rcases cq with c | c | c | c | c <;> simp [c]
          · simp at g1
        · obtain ⟨e, he⟩ := parseHeader_short h12
          unfold parseMsg at hr
          rw [P.bind_err he] at hr
          simp at hr
      · simp at h
      · simp at h

theorem parse_complete_thm (bs : Bytes) (m : Rfc.Msg) (hd : Rfc.decode bs = some m)
    (hs : Rfc.supported bs m = true) : ∃ r, parse bs 0 = .ok r ∧ m.toRec = some r := by
  by_cases h12 : 12 ≤ bs.size
  · rw [decode_eq h12] at hd
    cases hdq : Rfc.decodeQuestions bs (be16At bs 4 (by omega)) 12 with
    | none => rw [hdq] at hd; simp at hd
    | some x0 =>
      obtain ⟨qs, p1⟩ := x0
      rw [hdq] at hd
      simp only at hd
      cases hd1 : Rfc.decodeRRs bs (be16At bs 6 (by omega)) p1 with
      | none => rw [hd1] at hd; simp at hd
      | some x1 =>
        obtain ⟨man, p2⟩ := x1
        rw [hd1] at hd
        simp only at hd
        cases hd2 : Rfc.decodeRRs bs (be16At bs 8 (by omega)) p2 with
        | none => rw [hd2] at hd; simp at hd
        | some x2 =>
          obtain ⟨mns, p3⟩ := x2
          rw [hd2] at hd
          simp only at hd
          cases hd3 : Rfc.decodeRRs bs (be16At bs 10 (by omega)) p3 with
          | none => rw [hd3] at hd; simp at hd
          | some x3 =>
            obtain ⟨mar, p4⟩ := x3
            rw [hd3] at hd
            simp only [Option.some.injEq] at hd
            subst hd
            -- unpack `supported`
            simp only [Rfc.supported, Rfc.Msg.rrs, refMsg, List.all_append, Bool.and_eq_true,
              decide_eq_true_eq] at hs
            obtain ⟨⟨⟨⟨hsz, hop⟩, hql⟩, hqc⟩, ⟨hs1, hs2⟩, hs3⟩ := hs
            have hbits := header_bits bs[2].toNat bs[3].toNat bs[2].toNat_lt bs[3].toNat_lt
            rw [← be16At_eq (bs := bs) (p := 2) (by omega)] at hbits
            obtain ⟨hb1, hb2, hb3⟩ := hbits
            -- exactly one question
            have hlen : ∀ n p qs' p', Rfc.decodeQuestions bs n p = some (qs', p') → qs'.length = n := by
              intro n
              induction n with
              | zero => intro p qs' p' h; simp only [Rfc.decodeQuestions, Option.some.injEq, Prod.mk.injEq] at h; rw [← h.1]; rfl
              | succ n ih =>
                intro p qs' p' h
                simp only [Rfc.decodeQuestions] at h
                cases h1 : Rfc.decodeQuestion bs p with
                | none => rw [h1] at h; simp at h
                | some y =>
                  obtain ⟨q, pp⟩ := y
                  rw [h1] at h
                  simp only at h
                  cases h2 : Rfc.decodeQuestions bs n pp with
                  | none => rw [h2] at h; simp at h
                  | some z =>
                    obtain ⟨rest, ppp⟩ := z
                    rw [h2] at h
                    simp only [Option.some.injEq, Prod.mk.injEq] at h
                    rw [← h.1, List.length_cons, ih pp rest ppp h2]
            have hqd : be16At bs 4 (by omega) = 1 := by rw [← hlen _ _ _ _ hdq]; exact of_decide_eq_true hql
            rw [hqd] at hdq
            simp only [Rfc.decodeQuestions] at hdq
            cases hq1 : Rfc.decodeQuestion bs 12 with
            | none => rw [hq1] at hdq; simp at hdq
            | some y =>
              obtain ⟨rq, pq⟩ := y
              rw [hq1] at hdq
              simp only [Option.some.injEq, Prod.mk.injEq] at hdq
              obtain ⟨rfl, rfl⟩ := hdq
              simp only [List.all_cons, List.all_nil, Bool.and_true, Bool.or_eq_true, decide_eq_true_eq] at hqc
              obtain ⟨gq, bq⟩ := parseQd_complete (by omega : 12 ≤ bs.size) hq1 (by omega)
              obtain ⟨an, g3, t1, b1⟩ := parseRRs_complete (sect := .answer) _ bq hd1 hs1
              obtain ⟨ns, g4, t2, b2⟩ := parseRRs_complete (sect := .authority) _ b1 hd2 hs2
              obtain ⟨ar, g5, t3, b3⟩ := parseRRs_complete (sect := .additional) _ b2 hd3 hs3
              have hrc4 : bs[3].toNat % 16 < 16 := Nat.mod_lt _ (by decide)
              have hrc : (refMsg bs h12 [rq] man mns mar).fullRcode =
                  (be16At bs 2 (by omega) &&& 0xf) ||| hiList man ||| hiList mns ||| hiList mar := by
                change extList (man ++ mns ++ mar) * 16 + bs[3].toNat % 16 = _
                rw [hb3, Nat.or_assoc, Nat.or_assoc, ← hiList_append, ← hiList_append, ← List.append_assoc]
                rw [hiList_eq (man ++ mns ++ mar), rcode_or _ _ hrc4]
              have hfl : Rfc.flagBits (refMsg bs h12 [rq] man mns mar) = rfcFlagWord bs[2].toNat bs[3].toNat :=
                flagBits_eq _ bs[2].toNat bs[3].toNat rfl rfl rfl rfl rfl rfl rfl
              have hop' : opcodeValid ((be16At bs 2 (by omega) >>> 11) &&& 0xf) = true := by rw [hb2]; exact hop
              refine ⟨{ id := be16At bs 0 (by omega), flags := headerFlags (be16At bs 2 (by omega)),
                        opcode := (be16At bs 2 (by omega) >>> 11) &&& 0xf,
                        rcode := if rcodeValid ((be16At bs 2 (by omega) &&& 0xf) ||| hiList man ||| hiList mns |||
                            hiList mar) = true
                          then (be16At bs 2 (by omega) &&& 0xf) ||| hiList man ||| hiList mns ||| hiList mar else 2,
                        qd := [rq.toRec], an := an, ns := ns, ar := ar }, ?_, ?_⟩
              · unfold parse
                rw [if_neg (by omega), if_neg (by omega)]
                unfold parseMsg
                rw [P.bind_ok (by rw [parseHeader_eq h12, if_pos hop'])]
                simp only
                rw [if_neg (by omega), if_neg (by omega), P.bind_ok gq, P.bind_ok g3]
                simp only
                rw [P.bind_ok g4]
                simp only
                rw [P.bind_ok g5]
                rfl
              · simp only [Rfc.Msg.toRec, hrc, hfl, hb1, hb2]
                simp only [refMsg, List.map_cons, List.map_nil, t1, t2, t3]
  · rw [decode_short h12] at hd
    simp at hd

end Cares.Dns
