import CaresLemmas.DnsRfcRR
/-!
# Whole message: operational parser vs. RFC reference (helper lemmas for C04)
-/
namespace Cares.Dns
open Cares.Generated

/-- flag bits of the record API from the two flag octets, by division/modulo (RFC 1035 §4.1.1) -/
def rfcFlagWord (f1 f2 : Nat) : Nat :=
  (if f1 / 128 = 1 then Flag.qr else 0) + (if f1 / 4 % 2 = 1 then Flag.aa else 0) +
  (if f1 / 2 % 2 = 1 then Flag.tc else 0) + (if f1 % 2 = 1 then Flag.rd else 0) +
  (if f2 / 128 = 1 then Flag.ra else 0) + (if f2 / 32 % 2 = 1 then Flag.ad else 0) +
  (if f2 / 16 % 2 = 1 then Flag.cd else 0)

theorem hi_masks : ∀ f1, f1 < 256 →
    (((f1 <<< 8) &&& 0x8000 ≠ 0) ↔ f1 / 128 = 1) ∧ (((f1 <<< 8) &&& 0x400 ≠ 0) ↔ f1 / 4 % 2 = 1) ∧
    (((f1 <<< 8) &&& 0x200 ≠ 0) ↔ f1 / 2 % 2 = 1) ∧ (((f1 <<< 8) &&& 0x100 ≠ 0) ↔ f1 % 2 = 1) ∧
    (f1 <<< 8) &&& 0x80 = 0 ∧ (f1 <<< 8) &&& 0x20 = 0 ∧ (f1 <<< 8) &&& 0x10 = 0 ∧ (f1 <<< 8) &&& 0xf = 0 ∧
    ((f1 <<< 8) >>> 11) &&& 0xf = f1 / 8 % 16 := by decide +kernel

theorem lo_masks : ∀ f2, f2 < 256 →
    f2 &&& 0x8000 = 0 ∧ f2 &&& 0x400 = 0 ∧ f2 &&& 0x200 = 0 ∧ f2 &&& 0x100 = 0 ∧
    ((f2 &&& 0x80 ≠ 0) ↔ f2 / 128 = 1) ∧ ((f2 &&& 0x20 ≠ 0) ↔ f2 / 32 % 2 = 1) ∧
    ((f2 &&& 0x10 ≠ 0) ↔ f2 / 16 % 2 = 1) ∧ f2 &&& 0xf = f2 % 16 ∧ f2 >>> 11 = 0 := by decide +kernel

theorem header_bits (f1 f2 : Nat) (h1 : f1 < 256) (h2 : f2 < 256) :
    headerFlags (f1 * 256 + f2) = rfcFlagWord f1 f2 ∧ ((f1 * 256 + f2) >>> 11) &&& 0xf = f1 / 8 % 16 ∧
      (f1 * 256 + f2) &&& 0xf = f2 % 16 := by
  obtain ⟨a1, a2, a3, a4, a5, a6, a7, a8, a9⟩ := hi_masks f1 h1
  obtain ⟨b1, b2, b3, b4, b5, b6, b7, b8, b9⟩ := lo_masks f2 h2
  rw [← shl8_or f1 f2 h2]
  refine ⟨?_, ?_, ?_⟩
  · unfold headerFlags rfcFlagWord
    simp only [Nat.and_or_distrib_right, b1, b2, b3, b4, a5, a6, a7, Nat.or_zero, Nat.zero_or, a1, a2, a3, a4,
      b5, b6, b7]
    by_cases c1 : f1 / 128 = 1 <;> by_cases c2 : f1 / 4 % 2 = 1 <;> by_cases c3 : f1 / 2 % 2 = 1 <;>
      by_cases c4 : f1 % 2 = 1 <;> by_cases c5 : f2 / 128 = 1 <;> by_cases c6 : f2 / 32 % 2 = 1 <;>
      by_cases c7 : f2 / 16 % 2 = 1 <;>
      simp only [c1, c2, c3, c4, c5, c6, c7, ↓reduceIte] <;> decide
  · rw [Nat.shiftRight_or_distrib, Nat.and_or_distrib_right, a9, b9]; simp
  · rw [Nat.and_or_distrib_right, a8, b8]; simp

/-- extended-rcode bits contributed by a list of RRs, as `ares_dns_parse_rr_opt` ORs them in -/
def hiList (ms : List Rfc.RR) : Nat := ms.foldr (fun m acc => optHi m.type m.ttl ||| acc) 0

theorem parseRRs_sound {bs : Bytes} {sect : Sect} (n : Nat) :
    ∀ {p p' hi : Nat} {rrs : List RR}, p ≤ bs.size → parseRRs bs 0 sect n p = .ok (rrs, hi) p' →
      ∃ ms, Rfc.decodeRRs bs n p = some (ms, p') ∧ Rfc.rrsToRec ms = some rrs ∧
        ms.all Rfc.RR.supported = true ∧ hi = hiList ms ∧ p' ≤ bs.size := by
  induction n with
  | zero =>
    intro p p' hi rrs hp hr
    simp only [parseRRs, P.pure_apply] at hr
    injection hr with hr ho; injection hr with h1 h2
    subst h1; subst h2; subst ho
    exact ⟨[], rfl, rfl, rfl, rfl, hp⟩
  | succ n ih =>
    intro p p' hi rrs hp hr
    unfold parseRRs at hr
    obtain ⟨r1, o1, g1, hr⟩ := P.bind_eq_ok hr
    obtain ⟨rr, hi1⟩ := r1
    simp only at hr
    obtain ⟨r2, o2, g2, hr⟩ := P.bind_eq_ok hr
    obtain ⟨rest, hi2⟩ := r2
    simp only [P.pure_apply] at hr
    injection hr with hr ho; injection hr with h1 h2
    subst h1; subst h2; subst ho
    have b1 := (safe_parseRR 0 sect hp).ok g1
    obtain ⟨m, d1, t1, s1, e1⟩ := parseRR_sound hp g1
    obtain ⟨ms, d2, t2, s2, e2, hb⟩ := ih b1.2 g2
    refine ⟨m :: ms, ?_, ?_, ?_, ?_, hb⟩
    · simp only [Rfc.decodeRRs, d1, d2]
    · simp only [Rfc.rrsToRec, t1, t2]
    · simp only [List.all_cons, s1, s2, Bool.and_self]
    · simp only [hiList, List.foldr_cons, e1, e2]

theorem parseRRs_complete {bs : Bytes} {sect : Sect} (n : Nat) :
    ∀ {p p' : Nat} {ms : List Rfc.RR}, p ≤ bs.size → Rfc.decodeRRs bs n p = some (ms, p') →
      ms.all Rfc.RR.supported = true →
      ∃ rrs, parseRRs bs 0 sect n p = .ok (rrs, hiList ms) p' ∧ Rfc.rrsToRec ms = some rrs ∧ p' ≤ bs.size := by
  induction n with
  | zero =>
    intro p p' ms hp hd _
    simp only [Rfc.decodeRRs, Option.some.injEq, Prod.mk.injEq] at hd
    obtain ⟨rfl, rfl⟩ := hd
    exact ⟨[], rfl, rfl, hp⟩
  | succ n ih =>
    intro p p' ms hp hd hs
    simp only [Rfc.decodeRRs] at hd
    cases hd1 : Rfc.decodeRR bs p with
    | none => rw [hd1] at hd; simp at hd
    | some r =>
      obtain ⟨m, p1⟩ := r
      rw [hd1] at hd
      simp only at hd
      cases hd2 : Rfc.decodeRRs bs n p1 with
      | none => rw [hd2] at hd; simp at hd
      | some r2 =>
        obtain ⟨rest, p2⟩ := r2
        rw [hd2] at hd
        simp only [Option.some.injEq, Prod.mk.injEq] at hd
        obtain ⟨rfl, rfl⟩ := hd
        simp only [List.all_cons, Bool.and_eq_true] at hs
        obtain ⟨rr, hi, g1, t1, e1⟩ := parseRR_complete (sect := sect) hp hd1 hs.1
        have b1 := (safe_parseRR 0 sect hp).ok g1
        obtain ⟨rrs, g2, t2, hb⟩ := ih b1.2 hd2 hs.2
        refine ⟨rr :: rrs, ?_, ?_, hb⟩
        · unfold parseRRs
          rw [P.bind_ok g1]
          simp only
          rw [P.bind_ok g2]
          simp only [P.pure_apply, hiList, List.foldr_cons, e1]
        · simp only [Rfc.rrsToRec, t1, t2]

end Cares.Dns
