import CaresLemmas.SListPush
/-! Helper lemmas for the skip-list model, part 3: push / pop / insert / remove / reinsert against the invariant. -/
namespace Cares.Dsa.SList

/-- the invariant without the counter (push and pop alone do not touch `cnt`) -/
structure Core (s : SList) : Prop where
  nonempty : s.lv ≠ []
  sorted : Sorted s.key s.level0
  nodup : s.level0.Nodup
  sub : SubChain s.lv
  lvOk : LevelsOk s.nlv s.lv
  tailOk : s.tail = s.level0.getLast?

theorem Inv.core {s : SList} (h : Inv s) : Core s := ⟨h.nonempty, h.sorted, h.nodup, h.sub, h.lvOk, h.tailOk⟩

theorem not_mem_levels (s : SList) (h : SubChain s.lv) (n : Nat) (hn : n ∉ s.level0) : ∀ l ∈ s.lv, n ∉ l := by
  intro l hl hm
  exact hn ((sublist_level0 s.lv h l hl).subset hm)

/-- ares_slist_node_push of a node that is in none of the level lists -/
theorem push_core (s : SList) (n : Nat) (h : Core s) (hn : n ∉ s.level0) (hnl : 1 ≤ s.nlv n) :
    Core (s.push n) ∧ (s.push n).level0 = specInsert s.key (s.key n) n s.level0 ∧
      (s.push n).key = s.key ∧ (s.push n).nlv = s.nlv ∧ (s.push n).cnt = s.cnt := by
  have hg := allGood_of_level0 s.key s.lv h.sub h.sorted h.nodup
  have hfresh := not_mem_levels s h.sub n hn
  have e := pushLevels_eq s.key (s.key n) n (s.nlv n) s.lv none hg h.sub (fun x hx => by cases hx)
  have hl0 : (pushSpec s.key (s.key n) n (s.nlv n) s.lv).getLast?.getD [] = specInsert s.key (s.key n) n s.level0 := by
    rw [pushSpec_getLast _ _ _ _ _ hnl, if_neg h.nonempty]; rfl
  have hlevel0 : (s.push n).level0 = specInsert s.key (s.key n) n s.level0 := by
    unfold push level0; simp only; rw [e]; exact hl0
  refine ⟨⟨?_, ?_, ?_, ?_, ?_, ?_⟩, hlevel0, rfl, rfl, rfl⟩
  · unfold push; simp only; rw [e]
    intro hnil
    have := congrArg List.length hnil
    rw [pushSpec_length] at this
    exact h.nonempty (List.eq_nil_of_length_eq_zero this)
  · rw [hlevel0]; exact sorted_specInsert s.key (s.key n) n s.level0 h.sorted rfl
  · rw [hlevel0]; exact nodup_specInsert s.key (s.key n) n s.level0 h.nodup hn
  · unfold push; simp only; rw [e]; exact pushSpec_subChain s.key (s.key n) n (s.nlv n) s.lv hg h.sub
  · unfold push; simp only; rw [e]; exact pushSpec_levelsOk s.key (s.key n) n (s.nlv n) s.nlv s.lv h.lvOk rfl hfresh
  · rw [hlevel0]
    unfold push; simp only; rw [e, hl0]
    exact getLast_specInsert s.key (s.key n) n s.level0 s.tail h.tailOk

/-! ### pop -/

theorem popLevels_eq (n : Nat) (nlv : Nat → Nat) (lv : List (List Nat)) (h : LevelsOk nlv lv) :
    popLevels n (nlv n) lv = lv.map (·.erase n) := by
  induction lv with
  | nil => rfl
  | cons l below ih =>
    unfold popLevels
    rw [ih h.2, List.map_cons]
    congr 1
    by_cases hb : below.length < nlv n
    · rw [if_pos hb]
    · rw [if_neg hb]
      have : n ∉ l := fun hm => hb (h.1 n hm)
      exact (List.erase_of_not_mem this).symm

theorem map_erase_subChain (n : Nat) (lv : List (List Nat)) (h : SubChain lv) : SubChain (lv.map (·.erase n)) := by
  induction lv with
  | nil => trivial
  | cons hi rest ih =>
    cases rest with
    | nil => trivial
    | cons lo r => exact ⟨h.1.erase n, ih h.2⟩

theorem map_erase_levelsOk (n : Nat) (nlv : Nat → Nat) (lv : List (List Nat)) (h : LevelsOk nlv lv) :
    LevelsOk nlv (lv.map (·.erase n)) := by
  induction lv with
  | nil => trivial
  | cons l below ih =>
    refine ⟨?_, ih h.2⟩
    intro x hx
    rw [List.length_map]
    exact h.1 x (List.mem_of_mem_erase hx)

theorem map_erase_getLast (n : Nat) (lv : List (List Nat)) :
    (lv.map (·.erase n)).getLast?.getD [] = (lv.getLast?.getD []).erase n := by
  rw [List.getLast?_map]
  cases lv.getLast? <;> rfl

theorem level0_levelsOk (nlv : Nat → Nat) (lv : List (List Nat)) (h : LevelsOk nlv lv) :
    ∀ x ∈ lv.getLast?.getD [], 1 ≤ nlv x := by
  induction lv with
  | nil => intro x hx; simp at hx
  | cons l below ih =>
    cases below with
    | nil =>
      intro x hx
      simp only [List.getLast?_singleton, Option.getD_some] at hx
      have := h.1 x hx
      simp at this; omega
    | cons lo r =>
      rw [List.getLast?_cons_cons]; exact ih h.2

/-- the tail after unlinking: "if node->next[0] == NULL: tail = node->prev[0]" gives the new last node -/
theorem pop_tail (n : Nat) (l0 : List Nat) (old : Option Nat) (hold : old = l0.getLast?) (hn : n ∈ l0) (hnd : l0.Nodup) :
    (if (after n l0).isEmpty then prevOf n l0 else old) = (l0.erase n).getLast? := by
  obtain ⟨pre, post, e⟩ := List.append_of_mem hn
  have hpre : n ∉ pre := by
    rw [e] at hnd
    have := (List.nodup_append.1 hnd).2.2
    intro hm; exact this n hm n List.mem_cons_self rfl
  have her : l0.erase n = pre ++ post := by
    rw [e, List.erase_append_right _ hpre, List.erase_cons_head]
  rw [her, hold, e, after_split n pre post hpre, prevOf_split n pre post hpre]
  cases post with
  | nil => simp
  | cons p r =>
    simp only [List.isEmpty_cons, Bool.false_eq_true, ↓reduceIte]
    rw [List.getLast?_append, List.getLast?_append, List.getLast?_cons_cons]

/-- ares_slist_node_pop of a node of the list; only the order of the *other* nodes is needed -/
theorem pop_core (s : SList) (n : Nat) (hne : s.lv ≠ []) (hs : Sorted s.key (s.level0.erase n)) (hnd : s.level0.Nodup)
    (hsub : SubChain s.lv) (hlv : LevelsOk s.nlv s.lv) (htail : s.tail = s.level0.getLast?) (hn : n ∈ s.level0) :
    Core (s.pop n) ∧ (s.pop n).level0 = s.level0.erase n ∧ (s.pop n).key = s.key ∧ (s.pop n).nlv = s.nlv ∧
      (s.pop n).cnt = s.cnt ∧ n ∉ (s.pop n).level0 ∧ 1 ≤ s.nlv n := by
  have e := popLevels_eq n s.nlv s.lv hlv
  have hlevel0 : (s.pop n).level0 = s.level0.erase n := by
    unfold pop level0; simp only; rw [e]; exact map_erase_getLast n s.lv
  refine ⟨⟨?_, ?_, ?_, ?_, ?_, ?_⟩, hlevel0, rfl, rfl, rfl, ?_, level0_levelsOk s.nlv s.lv hlv n hn⟩
  · unfold pop; simp only; rw [e]
    intro hnil; exact hne (List.map_eq_nil_iff.1 hnil)
  · rw [hlevel0]; exact hs
  · rw [hlevel0]; exact hnd.sublist (List.erase_sublist)
  · unfold pop; simp only; rw [e]; exact map_erase_subChain n s.lv hsub
  · unfold pop; simp only; rw [e]; exact map_erase_levelsOk n s.nlv s.lv hlv
  · rw [hlevel0]
    unfold pop; simp only
    exact pop_tail n s.level0 s.tail htail hn hnd
  · rw [hlevel0]; exact hnd.not_mem_erase

/-! ### the operations -/

theorem calcLevel_ge (coins : List Bool) (level m : Nat) : level ≤ calcLevel coins level m := by
  induction coins generalizing level with
  | nil => exact Nat.le_refl _
  | cons c r ih =>
    cases c with
    | false => exact Nat.le_refl _
    | true =>
      unfold calcLevel
      split
      · exact Nat.le_trans (Nat.le_succ _) (ih (level + 1))
      · exact Nat.le_refl _

theorem subChain_replicate_nil (m : Nat) (lv : List (List Nat)) (h : SubChain lv) :
    SubChain (List.replicate m [] ++ lv) := by
  induction m with
  | zero => simpa using h
  | succ m ih =>
    rw [List.replicate_succ, List.cons_append]
    cases hr : List.replicate m ([] : List Nat) ++ lv with
    | nil => trivial
    | cons lo r => rw [hr] at ih; exact ⟨List.nil_sublist _, ih⟩

theorem levelsOk_replicate_nil (nlv : Nat → Nat) (m : Nat) (lv : List (List Nat)) (h : LevelsOk nlv lv) :
    LevelsOk nlv (List.replicate m [] ++ lv) := by
  induction m with
  | zero => simpa using h
  | succ m ih =>
    rw [List.replicate_succ, List.cons_append]
    exact ⟨fun x hx => by simp at hx, ih⟩

theorem getLast_replicate_append (m : Nat) (lv : List (List Nat)) (hne : lv ≠ []) :
    (List.replicate m ([] : List Nat) ++ lv).getLast? = lv.getLast? := by
  rw [List.getLast?_append]
  cases h : lv.getLast? with
  | none => exact absurd (List.getLast?_eq_none_iff.1 h) hne
  | some x => rfl

/-- ares_slist_insert of a fresh node, for every sequence of coin flips -/
theorem insert_spec (s : SList) (n k : Nat) (coins : List Bool) (h : Inv s) (hn : n ∉ s.level0) :
    Inv (s.insert n k coins) ∧ (s.insert n k coins).level0 = specInsert s.key k n s.level0 ∧
      (s.insert n k coins).key n = k ∧ (∀ x, x ≠ n → (s.insert n k coins).key x = s.key x) := by
  -- the state after the node is set up and the head array has grown, before the push
  generalize hnl : calcLevel coins 1 s.maxLevel = nl
  have hnl1 : 1 ≤ nl := by rw [← hnl]; exact calcLevel_ge coins 1 _
  let s1 : SList := { s with key := fun i => if i = n then k else s.key i,
                             nlv := fun i => if i = n then nl else s.nlv i,
                             lv := List.replicate (nl - s.lv.length) [] ++ s.lv }
  have hkey : ∀ x ∈ s.level0, s1.key x = s.key x := by
    intro x hx
    have : x ≠ n := fun e => hn (e ▸ hx)
    simp [s1, this]
  have hl0 : s1.level0 = s.level0 := by
    unfold level0; simp only [s1]; rw [getLast_replicate_append _ _ h.nonempty]
  have hfreshold := not_mem_levels s h.sub n hn
  have c1 : Core s1 := by
    refine ⟨?_, ?_, ?_, ?_, ?_, ?_⟩
    · simp only [s1]; intro hnil
      exact h.nonempty (List.append_eq_nil_iff.1 hnil).2
    · rw [hl0]; exact sorted_congr s.key s1.key s.level0 h.sorted hkey
    · rw [hl0]; exact h.nodup
    · exact subChain_replicate_nil _ _ h.sub
    · refine levelsOk_replicate_nil _ _ _ (levelsOk_congr s.nlv _ s.lv h.lvOk ?_)
      intro l hl x hx
      have : x ≠ n := fun e => hfreshold l hl (e ▸ hx)
      show (if x = n then nl else s.nlv x) = s.nlv x
      rw [if_neg this]
    · rw [hl0]; exact h.tailOk
  have hn1 : n ∉ s1.level0 := by rw [hl0]; exact hn
  have hnlv1 : 1 ≤ s1.nlv n := by simp [s1]; exact hnl1
  obtain ⟨c2, l2, k2, n2, cnt2⟩ := push_core s1 n c1 hn1 hnlv1
  have hins : s.insert n k coins = { s1.push n with cnt := (s1.push n).cnt + 1 } := by
    unfold insert; simp only [hnl]; rfl
  have hk1 : s1.key n = k := by simp [s1]
  have hl0' : (s.insert n k coins).level0 = specInsert s.key k n s.level0 := by
    rw [hins]
    show (s1.push n).level0 = _
    rw [l2, hl0, hk1]
    exact specInsert_congr s.key s1.key k n s.level0 hkey
  refine ⟨⟨?_, ?_, ?_, ?_, ?_, ?_, ?_⟩, hl0', ?_, ?_⟩
  · rw [hins]; exact c2.nonempty
  · rw [hins]; exact c2.sorted
  · rw [hins]; exact c2.nodup
  · rw [hins]; exact c2.sub
  · rw [hins]; exact c2.lvOk
  · rw [hins]; exact c2.tailOk
  · rw [hl0', length_specInsert, hins]
    show (s1.push n).cnt + 1 = _
    rw [cnt2]; show s.cnt + 1 = _; rw [h.cntOk]
  · rw [hins]; show (s1.push n).key n = k; rw [k2]; exact hk1
  · intro x hx; rw [hins]; show (s1.push n).key x = _; rw [k2]; simp [s1, hx]

/-- ares_slist_node_claim / _destroy -/
theorem remove_spec (s : SList) (n : Nat) (h : Inv s) (hn : n ∈ s.level0) :
    Inv (s.remove n) ∧ (s.remove n).level0 = s.level0.erase n ∧ (s.remove n).key = s.key := by
  obtain ⟨c, l, k, _, cnt, _, _⟩ := pop_core s n h.nonempty (h.sorted.sublist List.erase_sublist) h.nodup h.sub h.lvOk
    h.tailOk hn
  have hr : s.remove n = { s.pop n with cnt := (s.pop n).cnt - 1 } := rfl
  refine ⟨⟨?_, ?_, ?_, ?_, ?_, ?_, ?_⟩, ?_, ?_⟩
  · rw [hr]; exact c.nonempty
  · rw [hr]; exact c.sorted
  · rw [hr]; exact c.nodup
  · rw [hr]; exact c.sub
  · rw [hr]; exact c.lvOk
  · rw [hr]; exact c.tailOk
  · rw [hr]; show (s.pop n).cnt - 1 = (s.pop n).level0.length
    rw [cnt, l, h.cntOk, List.length_erase_of_mem hn]
  · rw [hr]; exact l
  · rw [hr]; exact k

/-- ares_slist_node_reinsert of a node whose key may have changed: the list is in order again -/
theorem reinsert_spec (s : SList) (n : Nat) (h : InvExcept s n) (hn : n ∈ s.level0) :
    Inv (s.reinsert n) ∧ (s.reinsert n).level0 = specInsert s.key (s.key n) n (s.level0.erase n) ∧
      (s.reinsert n).key = s.key := by
  obtain ⟨c, l, k, nl, cnt, hnot, hnl1⟩ := pop_core s n h.nonempty h.sorted h.nodup h.sub h.lvOk h.tailOk hn
  obtain ⟨c2, l2, k2, _, cnt2⟩ := push_core (s.pop n) n c hnot (by rw [nl]; exact hnl1)
  have hr : s.reinsert n = (s.pop n).push n := rfl
  have hl : (s.reinsert n).level0 = specInsert s.key (s.key n) n (s.level0.erase n) := by
    rw [hr, l2, l, k]
  refine ⟨⟨c2.nonempty, c2.sorted, c2.nodup, c2.sub, c2.lvOk, c2.tailOk, ?_⟩, hl, by rw [hr, k2, k]⟩
  rw [hl, length_specInsert, hr, cnt2, cnt, h.cntOk, List.length_erase_of_mem hn]
  have : 0 < s.level0.length := List.length_pos_of_mem hn
  omega

end Cares.Dsa.SList
