import CaresLemmas.HTableLookup
/-! Helper lemmas for the `ares_htable` model, part 3: the move loop of ares_htable_expand(). -/
namespace Cares.Dsa.HTable
open Cares.Generated
variable {K V : Type}

/-- invariant of the new bucket array while entries are being moved into it -/
structure XInv (ops : HOps K) (size : Nat) (x : XS K V) : Prop where
  len : x.nb.length = size
  placed : ∀ (j : Nat) (l : List (K × V)), x.nb[j]? = some (some l) → l ≠ [] ∧ ∀ e ∈ l, hidx ops size e.1 = j
  coll : x.coll = (x.nb.map bcoll).sum

/-- moving one node to the front of its destination bucket -/
theorem push_spec (ops : HOps K) (size : Nat) (x : XS K V) (hx : XInv ops size x) (e : K × V) (idx : Nat)
    (hi : hidx ops size e.1 = idx) (hlt : idx < size) (p : Nat) :
    XInv ops size { nb := x.nb.set idx (some (e :: bucketAt x.nb idx)), pre := p,
                    coll := x.coll + (if slotNull x.nb idx then 0 else 1) } ∧
    (ents (x.nb.set idx (some (e :: bucketAt x.nb idx)))).Perm (e :: ents x.nb) := by
  have hlen : idx < x.nb.length := by rw [hx.len]; exact hlt
  constructor
  · refine ⟨by simp [hx.len], ?_, ?_⟩
    · intro j l hj
      simp only at hj
      by_cases hji : idx = j
      · subst hji
        rw [List.getElem?_set_self hlen] at hj
        cases hj
        refine ⟨by simp, ?_⟩
        intro e' he'
        rcases List.mem_cons.1 he' with rfl | hm
        · exact hi
        · have hb : x.nb[idx]? = some (some (bucketAt x.nb idx)) := by
            unfold bucketAt at hm ⊢
            rw [List.getElem?_eq_getElem hlen] at hm ⊢
            cases hh : x.nb[idx] with
            | none => rw [hh] at hm; simp at hm
            | some b => rfl
          exact (hx.placed idx _ hb).2 e' hm
      · rw [List.getElem?_set_ne hji] at hj
        exact hx.placed j l hj
    · simp only
      have hs := sum_map_set bcoll x.nb idx hlen (some (e :: bucketAt x.nb idx))
      rw [hx.coll]
      unfold bucketAt slotNull at *
      rw [List.getElem?_eq_getElem hlen] at *
      cases hh : x.nb[idx] with
      | none => rw [hh] at hs; simp [bcoll] at hs ⊢; omega
      | some b =>
        rw [hh] at hs
        have hne : b ≠ [] := (hx.placed idx b (by rw [List.getElem?_eq_getElem hlen, hh])).1
        have : 0 < b.length := List.length_pos_iff.2 hne
        simp [bcoll] at hs ⊢; omega
  · obtain ⟨rest, h1, h2⟩ := ents_set_perm x.nb idx hlen (e :: bucketAt x.nb idx)
    exact h2.trans (List.Perm.cons e h1.symm)

/-- the slow path never runs out of pre-allocated llists when `length − 1` of them are available, moves
    every node, and hands back the llists it did not need -/
theorem drain_spec (ops : HOps K) (size : Nat) (l : List (K × V)) (x : XS K V)
    (hx : XInv ops size x) (hs : 0 < size) (hpre : l.length - 1 ≤ x.pre) :
    ∃ x', drain ops size l x = (x', none) ∧ XInv ops size x' ∧ (ents x'.nb).Perm (l ++ ents x.nb) ∧
      x.pre ≤ x'.pre + (l.length - 1) := by
  induction l generalizing x with
  | nil => exact ⟨x, rfl, hx, List.Perm.refl _, by omega⟩
  | cons e rest ih =>
    have hlt := hidx_lt ops size e.1 hs
    unfold drain
    simp only
    by_cases hnull : slotNull x.nb (hidx ops size e.1) = true
    · have hb := bucketAt_of_slotNull x.nb _ hnull
      have hp := push_spec ops size x hx e _ rfl hlt
      rw [hb] at hp
      simp only [hnull, ↓reduceIte, Nat.add_zero] at hp ⊢
      by_cases hr : rest.isEmpty = true
      · simp only [hr, ↓reduceIte]
        have hr' : rest = [] := List.isEmpty_iff.1 hr
        subst hr'
        obtain ⟨h1, h2⟩ := hp x.pre
        exact ⟨_, rfl, h1, h2, by simp⟩
      · simp only [hr, Bool.false_eq_true, ↓reduceIte]
        have hrl : 0 < rest.length := by
          cases rest with
          | nil => simp at hr
          | cons _ _ => simp
        simp only [List.length_cons] at hpre
        have hp0 : x.pre ≠ 0 := by omega
        simp only [hp0, ↓reduceIte]
        obtain ⟨h1, h2⟩ := hp (x.pre - 1)
        obtain ⟨x', e1, i1, p1, q1⟩ := ih _ h1 (by simp only; omega)
        refine ⟨x', e1, i1, ?_, ?_⟩
        · exact p1.trans ((List.Perm.append_left rest h2).trans List.perm_middle)
        · simp only at q1; simp only [List.length_cons]; omega
    · have hnull' : slotNull x.nb (hidx ops size e.1) = false := by simpa using hnull
      have hp := push_spec ops size x hx e _ rfl hlt x.pre
      simp only [hnull', Bool.false_eq_true, ↓reduceIte] at hp ⊢
      obtain ⟨h1, h2⟩ := hp
      simp only [List.length_cons] at hpre
      obtain ⟨x', e1, i1, p1, q1⟩ := ih _ h1 (by simp only; omega)
      refine ⟨x', e1, i1, ?_, ?_⟩
      · exact p1.trans ((List.Perm.append_left rest h2).trans List.perm_middle)
      · simp only at q1; simp only [List.length_cons]; omega

theorem moveBucket_spec (ops : HOps K) (size : Nat) (b : Option (List (K × V))) (x : XS K V)
    (hx : XInv ops size x) (hs : 0 < size) (hpre : bcoll b ≤ x.pre) :
    ∃ x', moveBucket ops size b x = (x', none) ∧ XInv ops size x' ∧ (ents x'.nb).Perm (b.getD [] ++ ents x.nb) ∧
      x.pre ≤ x'.pre + bcoll b := by
  cases b with
  | none => exact ⟨x, rfl, hx, List.Perm.refl _, by simp [bcoll]⟩
  | some l =>
    have hd := drain_spec ops size l x hx hs hpre
    match l, hd with
    | [], hd => simpa [moveBucket, bcoll] using hd
    | [e], hd =>
      unfold moveBucket
      by_cases hnull : slotNull x.nb (hidx ops size e.1) = true
      · simp only [hnull, ↓reduceIte]
        have hp := push_spec ops size x hx e _ rfl (hidx_lt ops size e.1 hs) x.pre
        rw [bucketAt_of_slotNull x.nb _ hnull] at hp
        simp only [hnull, ↓reduceIte, Nat.add_zero] at hp
        exact ⟨_, rfl, hp.1, hp.2, by simp [bcoll]⟩
      · simp only [hnull, Bool.false_eq_true, ↓reduceIte]
        exact hd
    | e1 :: e2 :: r, hd => simpa [moveBucket, bcoll] using hd

theorem moveAll_spec (ops : HOps K) (size : Nat) (bs : List (Option (List (K × V)))) (x : XS K V)
    (hx : XInv ops size x) (hs : 0 < size) (hpre : (bs.map bcoll).sum ≤ x.pre) :
    ∃ x', moveAll ops size bs x = (x', none) ∧ XInv ops size x' ∧ (ents x'.nb).Perm (ents bs ++ ents x.nb) := by
  induction bs generalizing x with
  | nil => exact ⟨x, rfl, hx, List.Perm.refl _⟩
  | cons b bs ih =>
    simp only [List.map_cons, List.sum_cons] at hpre
    obtain ⟨x1, e1, i1, p1, q1⟩ := moveBucket_spec ops size b x hx hs (by omega)
    obtain ⟨x2, e2, i2, p2⟩ := ih x1 i1 (by omega)
    refine ⟨x2, ?_, i2, ?_⟩
    · unfold moveAll; rw [e1]; exact e2
    · rw [ents_cons]
      refine p2.trans ?_
      refine (List.Perm.append_left (ents bs) p1).trans ?_
      rw [← List.append_assoc]
      exact List.Perm.append_right _ List.perm_append_comm

end Cares.Dsa.HTable
