import CaresLemmas.ChanSockRun
/-!
# `ares_destroy` closes every socket (C10) — given the ownership facts of C01

`ares_destroy` cancels every query, then closes every connection on the servers' lists.  That this reaches *every*
connection, and that closing them does not open new ones, needs two facts about the state after the cancel loop that
belong to the ownership invariant of C01 (every connection is on its server's list; no connection still lists a
query once all queries are gone).  Given these, everything is proved here.
-/
namespace Cares.Chan

theorem conns_modConn_ne (s : St) (fd : Nat) (f : Conn → Conn) (hf : ∀ c, (f c).fd = c.fd) :
    (s.modConn fd f).conns.filter (·.fd != fd) = s.conns.filter (·.fd != fd) := by
  simp only [St.modConn]
  induction s.conns with
  | nil => rfl
  | cons x r ih =>
    simp only [List.map_cons, List.filter_cons]
    by_cases hx : (x.fd == fd) = true
    · have h1 : ((f x).fd != fd) = false := by rw [hf]; simpa using hx
      have h2 : (x.fd != fd) = false := by simpa using hx
      simp only [hx, ↓reduceIte, h1, h2, Bool.false_eq_true]
      exact ih
    · have h2 : (x.fd != fd) = true := by simpa using hx
      simp only [hx, Bool.false_eq_true, ↓reduceIte, h2]
      rw [ih]

theorem conns_notify_ne (s : St) (fd : Nat) (r w : Bool) :
    (s.notify fd r w).conns.filter (·.fd != fd) = s.conns.filter (·.fd != fd) := by
  unfold St.notify
  split
  · rfl
  · split <;> exact conns_modConn_ne _ _ _ (fun _ => rfl)

theorem closeFinal_conns (s : St) (fd : Nat) : (closeFinal s fd).conns = s.conns.filter (·.fd != fd) := by
  unfold closeFinal
  simp only [chan_frame]
  exact conns_notify_ne s fd false false

theorem closeFinal_outOfFuel (s : St) (fd : Nat) : (closeFinal s fd).outOfFuel = s.outOfFuel := by
  unfold closeFinal
  simp only [chan_frame]

/-- closing a connection that lists no queries makes no recursive call besides `ares_requeue_queries`' (empty) loop:
    with two units of fuel it completes, removing exactly the connections with that descriptor -/
theorem exec_closeConn_idle (f : Nat) (fd : Nat) (st : Status) (t : St) (hq : ∀ c ∈ t.conns, c.queries = []) :
    (exec (f + 2) (.closeConn fd st) t).1.conns = t.conns.filter (·.fd != fd) ∧
      (exec (f + 2) (.closeConn fd st) t).1.outOfFuel = t.outOfFuel := by
  simp only [exec, execBody]
  unfold bodyCloseConn
  cases hc : t.conn? fd with
  | none =>
    simp only [chan_frame, and_true]
    -- no connection has this descriptor
    rw [List.filter_eq_self.mpr]
    intro c hcm
    have := List.find?_eq_none.mp hc c hcm
    simpa using this
  | some c =>
    simp only []
    generalize ht1 : ((t.modServer c.srv fun v =>
        { v with conns := v.conns.erase fd, tcpConn := if c.tcp then none else v.tcpConn }).modConn fd fun c =>
        { c with unlinked := true, out := [], outOff := 0, inBytes := 0, inMsgs := [] }) = t1
    have hc1 : ∃ c1, t1.conn? fd = some c1 ∧ c1.queries = [] := by
      rw [← ht1]
      have hm := List.mem_of_find?_eq_some hc
      refine ⟨_, conn?_modConn_self _ (by simpa only [St.conn?, chan_frame] using hc) rfl, ?_⟩
      exact hq c hm
    obtain ⟨c1, hc1, hq1⟩ := hc1
    unfold bodyCloseLoop
    simp only [hc1, hq1]
    have he : ∀ x : St × Ret, x = (closeFinal t1 fd, Status.ok) → x.1.conns = t.conns.filter (·.fd != fd) ∧
        x.1.outOfFuel = t.outOfFuel := by
      intro x hx
      subst hx
      rw [closeFinal_conns, closeFinal_outOfFuel, ← ht1]
      refine ⟨?_, by simp only [chan_frame]⟩
      rw [conns_modConn_ne]
      · simp only [chan_frame]
      · intro c; rfl
    exact he _ rfl

theorem filter_filter_ne (l : List Conn) (fd : Nat) (p : Conn → Bool) :
    (l.filter p).filter (·.fd != fd) = l.filter (fun c => p c && (c.fd != fd)) := by
  rw [List.filter_filter]
  congr 1
  funext c
  exact Bool.and_comm _ _

/-- closing the connections of a list of descriptors, one after the other -/
theorem foldl_closeConn_idle (f : Nat) : ∀ (fds : List Nat) (t : St), (∀ c ∈ t.conns, c.queries = []) →
    (fds.foldl (fun s fd => (exec (f + 2) (.closeConn fd .ok) s).1) t).conns =
        t.conns.filter (fun c => !fds.contains c.fd) ∧
      (fds.foldl (fun s fd => (exec (f + 2) (.closeConn fd .ok) s).1) t).outOfFuel = t.outOfFuel
  | [], t, _ => by
    refine ⟨?_, rfl⟩
    simp only [List.foldl_nil]
    exact (List.filter_eq_self.mpr (fun _ _ => by simp)).symm
  | fd :: rest, t, hq => by
    obtain ⟨h1, h2⟩ := exec_closeConn_idle f fd .ok t hq
    have hq' : ∀ c ∈ (exec (f + 2) (.closeConn fd .ok) t).1.conns, c.queries = [] := by
      intro c hc; rw [h1] at hc; exact hq c (List.mem_filter.mp hc).1
    obtain ⟨h3, h4⟩ := foldl_closeConn_idle f rest _ hq'
    simp only [List.foldl_cons]
    refine ⟨?_, by rw [h4, h2]⟩
    rw [h3, h1, List.filter_filter]
    apply List.filter_congr
    intro c _
    simp only [List.contains_cons, Bool.not_or, bne_iff_ne, ne_eq]
    by_cases hcf : c.fd = fd
    · simp [hcf]
    · have : (c.fd == fd) = false := by simpa using hcf
      simp [this, hcf]

/-- **`ares_destroy` closes every socket** (given the two ownership facts about the state `t` after the cancel loop) -/
theorem exec_destroy_closes_all (f : Nat) (s : St) (h : SInv none s)
    (hq : ∀ c ∈ (exec (f + 2) (.cancelLoop .destruction true) { s with destroying := true }).1.conns, c.queries = [])
    (hl : ∀ c ∈ (exec (f + 2) (.cancelLoop .destruction true) { s with destroying := true }).1.conns,
      c.fd ∈ ((exec (f + 2) (.cancelLoop .destruction true) { s with destroying := true }).1.sortedServers.map
        (·.conns)).flatten) :
    (exec (f + 3) .destroy s).1.conns = [] ∧
      (∀ fd, fdState (exec (f + 3) .destroy s).1.sockLog fd ≠ .opened) ∧
      (exec (f + 3) .destroy s).1.outOfFuel =
        (exec (f + 2) (.cancelLoop .destruction true) { s with destroying := true }).1.outOfFuel := by
  have hinv := exec_SInv none (f + 3) .destroy s h
  have hconns : (exec (f + 3) .destroy s).1.conns = [] ∧ (exec (f + 3) .destroy s).1.outOfFuel =
        (exec (f + 2) (.cancelLoop .destruction true) { s with destroying := true }).1.outOfFuel := by
    show (execBody (exec (f + 2)) .destroy s).1.conns = [] ∧ _
    simp only [execBody, bodyDestroy]
    obtain ⟨h1, h2⟩ := foldl_closeConn_idle f
      ((exec (f + 2) (.cancelLoop .destruction true) { s with destroying := true }).1.sortedServers.map (·.conns)).flatten
      _ hq
    refine ⟨?_, h2⟩
    rw [h1, List.filter_eq_nil_iff]
    intro c hc
    have := hl c hc
    simp only [Bool.not_eq_true, Bool.not_eq_false', List.contains_iff_mem]
    simpa using this
  refine ⟨hconns.1, ?_, hconns.2⟩
  intro fd ho
  obtain ⟨k, hk, _⟩ := hinv.openHasConn fd ho
  simp only [St.sview, hconns.1, List.map_nil] at hk
  cases hk

end Cares.Chan
