import CaresLemmas.ChanWfOofBodies
/-!
# C01 — the induction on fuel: every procedure other than `ares_destroy`, run with any fuel from a state
satisfying its precondition, either runs out of fuel or satisfies its guarantee
-/
namespace Cares.Chan

theorem oof_foldl_close {go : Call → St → St × Ret} (hm : ∀ c s, s.outOfFuel = true → (go c s).1.outOfFuel = true)
    (fds : List Nat) (s : St) (h : s.outOfFuel = true) :
    (fds.foldl (fun s fd => (go (.closeConn fd .ok) s).1) s).outOfFuel = true := by
  induction fds generalizing s with
  | nil => exact h
  | cons fd r ih => exact ih _ (hm _ _ h)

theorem oof_bodyDestroy {go : Call → St → St × Ret} (hm : ∀ c s, s.outOfFuel = true → (go c s).1.outOfFuel = true)
    {s : St} (h : s.outOfFuel = true) : (bodyDestroy go s).1.outOfFuel = true := by
  unfold bodyDestroy
  simp only
  exact oof_foldl_close hm _ _ (hm _ _ (by simpa using h))

theorem oofMono_execBody {go : Call → St → St × Ret} (hm : OofMono go) : OofMono (execBody go) := by
  intro c s h
  cases c <;> unfold execBody <;> simp only
  case sendNolock => exact oof_bodySendNolock hm h
  case sendQuery => exact oof_bodySendQuery hm h
  case requeue => exact oof_bodyRequeue hm h
  case endQuery => exact oof_bodyEndQuery hm h
  case callback => exact oof_bodyCallback hm h
  case reactions => exact oof_bodyReactions hm h
  case closeConn => exact oof_bodyCloseConn hm h
  case closeLoop => exact oof_bodyCloseLoop hm h
  case connError => exact oof_bodyConnError hm h
  case flush => exact oof_bodyFlush hm h
  case processWrite => exact oof_bodyProcessWrite hm h
  case processRead => exact oof_bodyProcessRead hm h
  case readAnswers => exact oof_bodyReadAnswers hm h
  case processAnswer => exact oof_bodyProcessAnswer hm h
  case flushRequeue => exact oof_bodyFlushRequeue hm h
  case processTimeouts => exact oof_bodyProcessTimeouts hm h
  case cleanupConns => exact oof_bodyCleanupConns hm h
  case cancel => exact oof_bodyCancel hm h
  case cancelLoop => exact oof_bodyCancelLoop hm h
  case destroy => exact oof_bodyDestroy hm h
  case probe => exact oof_bodyProbe hm h
  case clientStart => exact oof_bodyClientStart hm h
  case runActs => exact oof_bodyRunActs hm h
  case userCb => exact oof_bodyUserCb hm h

theorem goOk_execBody {go : Call → St → St × Ret} (hgo : GoOk go) : GoOk (execBody go) := by
  refine ⟨oofMono_execBody hgo.1, ?_⟩
  intro d c s hpre
  cases c <;> unfold execBody <;> simp only
  case sendNolock => exact good_sendNolock hgo hpre
  case sendQuery => exact good_sendQuery hgo hpre
  case requeue => exact good_requeue hgo hpre
  case endQuery => exact good_endQuery hgo hpre
  case callback => exact good_callback hgo hpre
  case reactions => exact good_reactions hgo hpre
  case closeConn => exact good_closeConn hgo hpre
  case closeLoop => exact good_closeLoop hgo hpre
  case connError => exact good_connError hgo hpre
  case flush => exact good_flush hgo hpre
  case processWrite => exact good_processWrite hgo hpre
  case processRead => exact good_processRead hgo hpre
  case readAnswers => exact good_readAnswers hgo hpre
  case processAnswer => exact good_processAnswer hgo hpre
  case flushRequeue => exact good_flushRequeue hgo hpre
  case processTimeouts => exact good_processTimeouts hgo hpre
  case cleanupConns => exact good_cleanupConns hgo hpre
  case cancel => exact good_cancel hgo hpre
  case cancelLoop => exact good_cancelLoop hgo hpre
  case destroy => exact absurd hpre (fun h => h)
  case probe => exact good_probe hgo hpre
  case clientStart => exact good_clientStart hgo hpre
  case runActs => exact good_runActs hgo hpre
  case userCb => exact good_userCb hgo hpre

/-- the main induction -/
theorem goOk_exec : ∀ n, GoOk (exec n)
  | 0 => ⟨fun _ _ _ => rfl, fun _ _ _ _ => Or.inl rfl⟩
  | n + 1 => goOk_execBody (goOk_exec n)

end Cares.Chan
