import CaresLemmas.HTableBasic
/-! Helper lemmas for the `ares_htable` model, part 2: the abstraction `abs` under the three ways an
    operation changes the multiset of nodes (add one, replace one, drop one), and bucket-local lookup. -/
namespace Cares.Dsa.HTable
open Cares.Generated
variable {K V : Type}

abbrev KeysDiffer (ops : HOps K) (l : List (K × V)) : Prop := l.Pairwise (fun a b => ops.eq a.1 b.1 = false)

theorem mem_ents (bs : List (Option (List (K × V)))) (e : K × V) :
    e ∈ ents bs ↔ ∃ (j : Nat) (l : List (K × V)), bs[j]? = some (some l) ∧ e ∈ l := by
  induction bs with
  | nil => simp [ents]
  | cons b bs ih =>
    rw [ents_cons, List.mem_append, ih]
    constructor
    · rintro (h | ⟨j, l, hj, hm⟩)
      · cases b with
        | none => simp at h
        | some l => exact ⟨0, l, rfl, h⟩
      · exact ⟨j + 1, l, by simpa using hj, hm⟩
    · rintro ⟨j, l, hj, hm⟩
      cases j with
      | zero =>
        simp at hj; subst hj; exact Or.inl hm
      | succ j => exact Or.inr ⟨j, l, by simpa using hj, hm⟩

theorem bucketAt_sublist (bs : List (Option (List (K × V)))) (i : Nat) : (bucketAt bs i).Sublist (ents bs) := by
  by_cases h : i < bs.length
  · rw [ents_split bs i h]
    exact (List.sublist_append_left _ _).trans (List.sublist_append_right _ _)
  · unfold bucketAt
    rw [List.getElem?_eq_none (by omega)]
    exact List.nil_sublist _

theorem bucketAt_of_getElem? (bs : List (Option (List (K × V)))) (i : Nat) (l) (h : bs[i]? = some (some l)) :
    bucketAt bs i = l := by
  unfold bucketAt; rw [h]

/-- ares_htable_get looks only into the bucket the key hashes to; that finds whatever a search through
    all nodes would find -/
theorem find_bucket_eq_find_all (ops : HOps K) (hl : Lawful ops) (bs : List (Option (List (K × V)))) (size : Nat)
    (placed : ∀ i l, bs[i]? = some (some l) → ∀ e ∈ l, hidx ops size e.1 = i)
    (hu : KeysDiffer ops (ents bs)) (q : K) :
    findIn ops q (bucketAt bs (hidx ops size q)) = (ents bs).find? (fun e => ops.eq q e.1) := by
  unfold findIn
  apply Option.ext
  intro e
  rw [find?_some_iff ops hl _ (hu.sublist (bucketAt_sublist bs _)), find?_some_iff ops hl _ hu]
  constructor
  · rintro ⟨hm, he⟩; exact ⟨(bucketAt_sublist bs _).subset hm, he⟩
  · rintro ⟨hm, he⟩
    refine ⟨?_, he⟩
    obtain ⟨j, l, hj, hml⟩ := (mem_ents bs e).1 hm
    have hji := placed j l hj e hml
    have : hidx ops size q = j := by
      rw [← hji]; unfold hidx; rw [hl.hash_eq _ _ he]
    rw [this, bucketAt_of_getElem? bs j l hj]; exact hml

/-! ### `find?` over a permutation with a distinguished node -/

theorem find?_cons_perm (ops : HOps K) (hl : Lawful ops) (es R : List (K × V)) (x : K × V) (hp : es.Perm (x :: R))
    (hu : KeysDiffer ops es) (q : K) :
    es.find? (fun e => ops.eq q e.1) = if ops.eq q x.1 then some x else R.find? (fun e => ops.eq q e.1) := by
  rw [find?_perm ops hl es (x :: R) hp hu q, List.find?_cons]
  cases ops.eq q x.1 <;> rfl

/-- nothing else in a duplicate-free node list has the key of `x` -/
theorem find?_rest_none (ops : HOps K) (hl : Lawful ops) (R : List (K × V)) (x : K × V)
    (hu : KeysDiffer ops (x :: R)) (q : K) (hq : ops.eq q x.1 = true) :
    R.find? (fun e => ops.eq q e.1) = none := by
  rw [List.find?_eq_none]
  intro e he
  have hu := List.pairwise_cons.1 hu
  have h1 := hu.1 e he
  intro h2
  have := hl.trans _ _ _ (hl.symm _ _ hq) (by simpa using h2)
  rw [this] at h1; cases h1

/-- swapping the node `old` for a node `new` with an equal key keeps the keys pairwise different -/
theorem keysDiffer_replace (ops : HOps K) (hl : Lawful ops) (R : List (K × V)) (old new : K × V)
    (hu : KeysDiffer ops (old :: R)) (he : ops.eq new.1 old.1 = true) : KeysDiffer ops (new :: R) := by
  have hu := List.pairwise_cons.1 hu
  refine List.pairwise_cons.2 ⟨?_, hu.2⟩
  intro e hm
  have h1 := hu.1 e hm
  cases h : ops.eq new.1 e.1 with
  | false => rfl
  | true =>
    have := hl.trans _ _ _ (hl.symm _ _ he) h
    rw [this] at h1; cases h1

/-- adding a node whose key is not present keeps the keys pairwise different -/
theorem keysDiffer_add (ops : HOps K) (R : List (K × V)) (new : K × V)
    (hu : KeysDiffer ops R) (hn : R.find? (fun e => ops.eq new.1 e.1) = none) : KeysDiffer ops (new :: R) := by
  refine List.pairwise_cons.2 ⟨?_, hu⟩
  intro e hm
  rw [List.find?_eq_none] at hn
  have := hn e hm
  simpa using this

/-! ### ares_htable_find inside one bucket -/

theorem findIn_some_split (ops : HOps K) (k : K) (l : List (K × V)) (old : K × V) (h : findIn ops k l = some old) :
    ops.eq k old.1 = true ∧ (l.Perm (old :: removeFirst ops k l)) ∧
      (∀ new, (replaceFirst ops k new l).Perm (new :: removeFirst ops k l)) ∧
      (∀ new, (replaceFirst ops k new l).length = l.length) ∧ (removeFirst ops k l).length + 1 = l.length ∧
      (∀ new e, e ∈ replaceFirst ops k new l → e = new ∨ e ∈ l) ∧ (∀ e, e ∈ removeFirst ops k l → e ∈ l) := by
  unfold findIn at h
  induction l with
  | nil => simp at h
  | cons a l ih =>
    by_cases ha : ops.eq k a.1 = true
    · rw [List.find?_cons_of_pos (by simpa using ha)] at h
      cases h
      refine ⟨ha, ?_⟩
      simp only [replaceFirst, removeFirst, ha, ↓reduceIte]
      refine ⟨List.Perm.refl _, fun _ => List.Perm.refl _, fun _ => by simp, rfl, ?_, ?_⟩
      · intro new e he; rcases List.mem_cons.1 he with h | h
        · exact Or.inl h
        · exact Or.inr (List.mem_cons_of_mem _ h)
      · intro e he; exact List.mem_cons_of_mem _ he
    · rw [List.find?_cons_of_neg (by simpa using ha)] at h
      obtain ⟨h1, h2, h3, h4, h5, h6, h7⟩ := ih h
      have ha' : ops.eq k a.1 = false := by simpa using ha
      simp only [replaceFirst, removeFirst, ha', Bool.false_eq_true, ↓reduceIte]
      refine ⟨h1, ?_, ?_, ?_, ?_, ?_, ?_⟩
      · exact (List.Perm.cons a h2).trans (List.Perm.swap _ _ _)
      · intro new; exact (List.Perm.cons a (h3 new)).trans (List.Perm.swap _ _ _)
      · intro new; simp [h4 new]
      · simp; omega
      · intro new e he
        rcases List.mem_cons.1 he with h | h
        · exact Or.inr (h ▸ List.mem_cons_self)
        · rcases h6 new e h with h | h
          · exact Or.inl h
          · exact Or.inr (List.mem_cons_of_mem _ h)
      · intro e he
        rcases List.mem_cons.1 he with h | h
        · exact h ▸ List.mem_cons_self
        · exact List.mem_cons_of_mem _ (h7 e h)

end Cares.Dsa.HTable
