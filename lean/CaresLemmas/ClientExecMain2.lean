import CaresLemmas.ClientExecMain
/-!
# `fold_of_replay`: a causal log that replays is the flat fold (pure main theorem)
-/
namespace Cares.Chan
open Cares.ClientWalk

/-- `cid` has not been created yet: ids are handed out in order, and nothing refers to an id not handed out -/
structure Fresh (cid : Nat) (r : RSt) : Prop where
  next : r.next ≤ cid
  ids : ∀ c ∈ r.clients, c.id < r.next
  frames : ∀ f ∈ r.stack, f.1 < r.next

/-- the two phases of a log with respect to `cid` -/
inductive Phase (cfg : Cfg) (cid : Nat) (L : CLog) (r : RSt) : Prop
  | before (hf : Fresh cid r) (h0 : startsOf cid L = []) (h1 : evsOf cid L = []) (h2 : sentOf cid L = [])
      (h3 : finsOf cid L = [])
  | after (k : String) (tok : Nat) (re : List Nat) (sp : ReqSpec) (f : Nat)
      (hs : startsOf cid L = [(k, tok, re, sp, f)]) (hn : cid < r.next)
      (hc : Core cfg (clientStart cfg cid k tok re sp f).1 (clientStart cfg cid k tok re sp f).2
        (evsOf cid L) (sentOf cid L) (finsOf cid L) (lproj cid r))

theorem evsOf_snoc (cid : Nat) (L : CLog) (i : CItem) : evsOf cid (L ++ [i]) = evsOf cid L ++ ev1 cid i := by
  simp [evsOf, List.flatMap_append]
theorem sentOf_snoc (cid : Nat) (L : CLog) (i : CItem) : sentOf cid (L ++ [i]) = sentOf cid L ++ sent1 cid i := by
  simp [sentOf, List.flatMap_append]
theorem finsOf_snoc (cid : Nat) (L : CLog) (i : CItem) : finsOf cid (L ++ [i]) = finsOf cid L ++ fin1 cid i := by
  simp [finsOf, List.flatMap_append]
theorem startsOf_snoc (cid : Nat) (L : CLog) (i : CItem) : startsOf cid (L ++ [i]) = startsOf cid L ++ start1 cid i := by
  simp [startsOf, List.flatMap_append]

theorem rstep_next_mono {cfg : Cfg} {r r1 : RSt} {i : CItem} (h : rstep cfg r i = some r1) : r.next ≤ r1.next := by
  cases i <;> simp only [rstep] at h
  case start id _ _ _ _ _ => split at h <;> cases h; rename_i e; rw [← e]; exact Nat.le_succ _
  case slot => cases h; exact Nat.le_refl _
  all_goals
    split at h
    · first
        | (split at h <;> cases h <;> exact Nat.le_refl _)
        | cases h
    · first
        | (split at h <;> cases h <;> exact Nat.le_refl _)
        | cases h

theorem mem_modC {l : List Client} {id : Nat} {f : Client → Client} {x : Client} (h : x ∈ modC l id f) :
    ∃ y ∈ l, x = y ∨ (y.id = id ∧ x = f y) := by
  unfold modC at h
  obtain ⟨y, hy, e⟩ := List.mem_map.mp h
  refine ⟨y, hy, ?_⟩
  split at e
  · rename_i hi; exact .inr ⟨by simpa using hi, e.symm⟩
  · exact .inl e.symm

theorem mem_afterAct {id : Nat} {a : ClientAct} {rest : List ClientAct} {f : Nat × Option (List ClientAct)}
    (h : f ∈ afterAct id a rest) : f.1 = id := by
  unfold afterAct at h
  split at h <;> simp at h <;> rcases h with h | h <;> first | (rw [h]) | skip
  all_goals first | rfl | (rw [h])

/-- while `cid` has not been created, an event other than a creation does not concern it -/
theorem fresh_other {cfg : Cfg} {cid : Nat} {r r1 : RSt} {i : CItem} (hf : Fresh cid r)
    (h : rstep cfg r i = some r1) (hs : i.isStart = false) :
    ev1 cid i = [] ∧ sent1 cid i = [] ∧ fin1 cid i = [] ∧ start1 cid i = [] ∧ Fresh cid r1 := by
  have key : ∀ id, id < r.next → id ≠ cid := fun id h e => by have := hf.next; omega
  cases i with
  | start => cases hs
  | cb id st t rec qa qb =>
    simp only [rstep] at h
    split at h
    · cases h
    · rename_i c hc
      have hmem := List.mem_of_find?_eq_some hc
      have hid0 := List.find?_some hc
      have hid : c.id = id := by simpa using hid0
      have hlt : id < r.next := hid ▸ hf.ids c hmem
      split at h
      · cases h
        obtain ⟨p1, p2, p3, p4⟩ := proj_other (cid := cid) (i := .cb id st t rec qa qb) (key id hlt)
        refine ⟨p1, p2, p3, p4, hf.next, ?_, ?_⟩
        · intro x hx
          obtain ⟨y, hy, e | ⟨_, e⟩⟩ := mem_modC hx
          · rw [e]; exact hf.ids y hy
          · rw [e, clientOnCb_id, hid]; exact hlt
        · intro f hfm
          rcases List.mem_cons.mp hfm with e | e
          · rw [e]; exact hlt
          · exact hf.frames f e
      · cases h
  | act id a =>
    simp only [rstep] at h
    split at h
    · rename_i id' a' rest σ hst
      split at h
      · rename_i hh
        cases h
        obtain ⟨rfl, rfl⟩ := hh
        have hlt : id' < r.next := hf.frames (id', some (a' :: rest)) (by rw [hst]; exact List.mem_cons_self ..)
        obtain ⟨p1, p2, p3, p4⟩ := proj_other (cid := cid) (i := .act id' a') (key id' hlt)
        refine ⟨p1, p2, p3, p4, hf.next, hf.ids, ?_⟩
        intro f hfm
        rcases List.mem_append.mp hfm with e | e
        · rw [mem_afterAct e]; exact hlt
        · exact hf.frames f (by rw [hst]; exact List.mem_cons_of_mem _ e)
      · cases h
    · cases h
  | slot id slot qid =>
    simp only [rstep] at h
    cases h
    refine ⟨rfl, rfl, rfl, rfl, hf.next, ?_, hf.frames⟩
    intro x hx
    obtain ⟨y, hy, e | ⟨_, e⟩⟩ := mem_modC hx
    · rw [e]; exact hf.ids y hy
    · rw [e, setSlot_id]; exact hf.ids y hy
  | lost id =>
    simp only [rstep] at h
    split at h
    · rename_i id' st t dg rest σ hst
      split at h
      · rename_i hh
        cases h
        obtain ⟨rfl, _⟩ := hh
        have hlt : id' < r.next := hf.frames (id', _) (by rw [hst]; exact List.mem_cons_self ..)
        obtain ⟨p1, p2, p3, p4⟩ := proj_other (cid := cid) (i := .lost id') (key id' hlt)
        refine ⟨p1, p2, p3, p4, hf.next, hf.ids, ?_⟩
        intro f hfm
        rcases List.mem_cons.mp hfm with e | e
        · rw [e]; exact hlt
        · exact hf.frames f (by rw [hst]; exact List.mem_cons_of_mem _ e)
      · cases h
    · cases h
  | rel id =>
    simp only [rstep] at h
    split at h
    · rename_i id' σ hst
      split at h
      · rename_i hh
        cases h
        subst hh
        have hlt : id' < r.next := hf.frames (id', _) (by rw [hst]; exact List.mem_cons_self ..)
        obtain ⟨p1, p2, p3, p4⟩ := proj_other (cid := cid) (i := .rel id') (key id' hlt)
        refine ⟨p1, p2, p3, p4, hf.next, fun x hx => hf.ids x (List.mem_filter.mp hx).1, ?_⟩
        intro f hfm
        exact hf.frames f (by rw [hst]; exact List.mem_cons_of_mem _ hfm)
      · cases h
    · cases h
  | ret id =>
    simp only [rstep] at h
    split at h
    · rename_i id' σ hst
      split at h
      · rename_i hh
        cases h
        subst hh
        have hlt : id' < r.next := hf.frames (id', _) (by rw [hst]; exact List.mem_cons_self ..)
        obtain ⟨p1, p2, p3, p4⟩ := proj_other (cid := cid) (i := .ret id') (key id' hlt)
        refine ⟨p1, p2, p3, p4, hf.next, hf.ids, ?_⟩
        intro f hfm
        exact hf.frames f (by rw [hst]; exact List.mem_cons_of_mem _ hfm)
      · cases h
    · cases h

end Cares.Chan
