import CaresLemmas.ChanWfBody4
/-!
# C01 — body lemmas V: `processTimeouts`, `flushRequeue`, `reactions`, `cancel`
-/
namespace Cares.Chan

/-- an intermediate state of a body: invariant, debt and an ordinary step from the entry state -/
structure Mid (d : Nat → Nat) (s s' : St) : Prop where
  wf : Wf s'
  debt : DebtOk none d s'.sk
  step : StepS none none d s.sk s'.sk

theorem Mid.refl {d s} (hw : Wf s) (hd : DebtOk none d s.sk) : Mid d s s := ⟨hw, hd, StepS.refl _ _ _ _⟩

theorem Mid.of_sk_eq {d s s'} (hw : Wf s) (hd : DebtOk none d s.sk) (h : s'.sk = s.sk) : Mid d s s' :=
  ⟨Wf.of_sk_eq h hw, by rw [h]; exact hd, by rw [h]; exact StepS.refl _ _ _ _⟩

theorem Good.toMid {d c s r} (hg : Good d c s r) (hf : exFd c = none) (hi : exId c = none) : Mid d s r.1 :=
  ⟨hg.wf, hg.debt, by have := hg.step; rwa [hf, hi] at this⟩

theorem Mid.trans {d s s1 s2} (h1 : Mid d s s1) (h2 : Mid d s1 s2) : Mid d s s2 :=
  ⟨h2.wf, h2.debt, h1.step.trans h2.step⟩

theorem Mid.sk_eq {d s s1 s2} (h1 : Mid d s s1) (h : s2.sk = s1.sk) : Mid d s s2 :=
  ⟨Wf.of_sk_eq h h1.wf, by rw [h]; exact h1.debt, by rw [h]; exact h1.step⟩

/-- finish a body with a tail call made from an intermediate state -/
theorem Mid.tail {d c c' s s1} {r : St × Ret} (hm : Mid d s s1) (hg : GoodO d c' s1 r)
    (hf : exFd c' = none ∨ exFd c' = exFd c) (hi : exId c' = none ∨ exId c' = exId c) (hp : Post s r c) :
    GoodO d c s r :=
  Good.tail' hg hm.step.weaken' hf hi (fun _ => hp)

/-- an intermediate state, unless the run is out of fuel -/
def MidO (d : Nat → Nat) (s s' : St) : Prop := s'.outOfFuel = true ∨ Mid d s s'

/-- run a procedure from an intermediate state -/
theorem Mid.call {go} (hgo : GoOk go) {d s s1} (hm : Mid d s s1) (c' : Call) (hpre : Pre d s1 c')
    (hf : exFd c' = none) (hi : exId c' = none) : MidO d s (go c' s1).1 := by
  rcases hgo.2 d c' s1 hpre with hoof | hg
  · exact Or.inl hoof
  · exact Or.inr (hm.trans (hg.toMid hf hi))

/-- finish a body with a tail call made from an intermediate state -/
theorem MidO.tail {go} (hgo : GoOk go) {d c c' s s1} (hm : MidO d s s1) (hpre : Mid d s s1 → Pre d s1 c')
    (hf : exFd c' = none ∨ exFd c' = exFd c) (hi : exId c' = none ∨ exId c' = exId c)
    (hp : ∀ r, Post s r c) : GoodO d c s (go c' s1) := by
  rcases hm with hoof | hm
  · exact Or.inl (hgo.1 _ _ hoof)
  · exact hm.tail (hgo.2 d _ _ (hpre hm)) hf hi (hp _)

theorem MidO.good {d c s s'} {ret : Ret} (hm : MidO d s s') (hp : Post s (s', ret) c) : GoodO d c s (s', ret) := by
  rcases hm with hoof | hm
  · exact Or.inl hoof
  · exact Or.inr ⟨hm.wf, hm.debt, hm.step.weaken', hp⟩

/-- continue from an intermediate state with a step that keeps the fuel flag -/
theorem MidO.bind {d s s1 s2} (hm : MidO d s s1) (ho : s1.outOfFuel = true → s2.outOfFuel = true)
    (f : Mid d s s1 → MidO d s s2) : MidO d s s2 := by
  rcases hm with hoof | hm
  · exact Or.inl (ho hoof)
  · exact f hm

theorem query?_sk {s : St} {k : Nat} {q : Query} (h : s.query? k = some q) :
    q.key = k ∧ q.sk ∈ s.sk.qs ∧ (k, q.conn) ∈ s.sk.qKC := by
  have h1 : q.key = k := by simpa using List.find?_some h
  have h2 : q.sk ∈ s.sk.qs := List.mem_map.mpr ⟨q, List.mem_of_find?_eq_some h, rfl⟩
  exact ⟨h1, h2, List.mem_map.mpr ⟨q.sk, h2, by rw [← h1]; rfl⟩⟩

/-! ### `processTimeouts` -/

theorem good_processTimeouts {go} (hgo : GoOk go) {d s} (hpre : Pre d s .processTimeouts) :
    GoodO d .processTimeouts s (bodyProcessTimeouts go s) := by
  obtain ⟨hw, hd⟩ := hpre
  unfold bodyProcessTimeouts
  split
  · exact Good.of_sk_eq hw hd rfl trivial
  · rename_i key hkey
    have hkm : key ∈ s.sk.byTimeout := List.mem_of_mem_head? hkey
    obtain ⟨hki, fd, hkc⟩ := hw.t.btOk key hkm
    obtain ⟨q, hq, hqs⟩ := query?_of_idx hw hki
    simp only [hq]
    split
    · exact Good.of_sk_eq hw hd rfl trivial
    · -- the query has a live connection
      have hqc : q.conn = some fd := Sk.qKC_unique hw.q.nodup (query?_sk hq).2.2 hkc
      obtain ⟨cc, hcc, hcfd, _⟩ := hw.c.qc _ hkc fd rfl
      have hlive : s.sk.liveConn fd := List.mem_map.mpr ⟨cc, hcc, hcfd⟩
      obtain ⟨c, hc⟩ := conn?_of_live hlive
      simp only [hqc, Option.bind_some, hc]
      have hsk1 : ((s.modQuery key fun q => { q with timeouts := q.timeouts + 1 }).incFailures c.srv q.usingTcp).sk = s.sk := by
        have h1 : (s.modQuery key fun q => { q with timeouts := q.timeouts + 1 }).sk = s.sk := by
          rw [sk_modQuery_same]; intro; rfl
        rw [sk_incFailures _ _ _ (by
          have : (s.modQuery key fun q => { q with timeouts := q.timeouts + 1 }).servers = s.servers := rfl
          rw [this]; exact server_ids_nodup hw), h1]
      generalize ((s.modQuery key fun q => { q with timeouts := q.timeouts + 1 }).incFailures c.srv q.usingTcp) = s1
        at hsk1
      have hm1 : MidO d s (go (.requeue key .timeout true none false) s1).1 :=
        (Mid.of_sk_eq hw hd hsk1).call hgo (.requeue key .timeout true none false)
          ⟨by rw [hsk1]; exact WfS.weaken_hole hw, by unfold Sk.Idx; rw [hsk1]; exact hki, by rw [hsk1]; exact hd⟩
          rfl rfl
      exact hm1.tail hgo (fun hm => ⟨hm.wf, hm.debt⟩) (Or.inl rfl) (Or.inl rfl) (fun _ => trivial)

/-! ### `flushRequeue` -/

theorem good_flushRequeue {go} (hgo : GoOk go) {d s} (hpre : Pre d s .flushRequeue) :
    GoodO d .flushRequeue s (bodyFlushRequeue go s) := by
  obtain ⟨hw, hd⟩ := hpre
  unfold bodyFlushRequeue
  split
  · exact Good.of_sk_eq hw hd rfl trivial
  · rename_i qid srv rest _
    have hm0 : Mid d s { s with requeueArr := rest } := Mid.of_sk_eq hw hd rfl
    simp only
    split
    · exact hm0.tail (hgo.2 d _ _ ⟨hm0.wf, hm0.debt⟩) (Or.inl rfl) (Or.inl rfl) trivial
    · rename_i x key hfind
      have hki : key ∈ s.sk.idx := List.mem_map.mpr ⟨(x, key), List.mem_of_find?_eq_some hfind, rfl⟩
      have hm1 := hm0.call hgo (.sendQuery srv key) ⟨hm0.wf, hki, hm0.debt⟩ rfl rfl
      exact hm1.tail hgo (fun hm => ⟨hm.wf, hm.debt⟩) (Or.inl rfl) (Or.inl rfl) (fun _ => trivial)

/-! ### `reactions` -/

/-- state in which a reaction of kind `send` calls `ares_send` -/
def newTokSt (s : St) : St :=
  { ({ s with reactSeq := s.reactSeq + 1 } : St).emit s!"react(send,{10000 + s.reactSeq})" with
    pendingToks := s.pendingToks ++ [10000 + s.reactSeq] }

theorem sk_newTokSt (s : St) : (newTokSt s).sk = s.sk.newTok := rfl

theorem good_reactions {go} (hgo : GoOk go) {d l s} (hpre : Pre d s (.reactions l)) :
    GoodO d (.reactions l) s (bodyReactions go l s) := by
  obtain ⟨hw, hd⟩ := hpre
  unfold bodyReactions
  split
  · exact Good.of_sk_eq hw hd rfl trivial
  · rename_i i rest
    split
    · exact Good.of_sk_eq hw hd rfl trivial
    · -- the state after reaction `i`
      have hmid : MidO d s (match s.reactions.find? (·.1 == i) with
          | none => s
          | some (_, r) =>
            if r.kind == "cancel" then (go .cancel (s.emit "react(cancel)")).1
            else if r.kind == "send" then
              let tok := 10000 + s.reactSeq
              let s := { s with reactSeq := s.reactSeq + 1 }
              let s := s.emit s!"react(send,{tok})"
              let s := { s with pendingToks := s.pendingToks ++ [tok] }
              let (s, st) := go (.sendNolock none false false { name := r.name, qtype := r.qtype } (.user tok) r.react) s
              s.emit s!"ret({tok},{st.name})"
            else s) := by
        split
        · exact Or.inr (Mid.refl hw hd)
        · split
          · exact (Mid.of_sk_eq (s' := s.emit "react(cancel)") hw hd rfl).call hgo .cancel
              ⟨Wf.of_sk_eq rfl hw, hd⟩ rfl rfl
          · split
            · rename_i r _ _ _
              show MidO d s ((go (.sendNolock none false false { name := r.name, qtype := r.qtype }
                (.user (10000 + s.reactSeq)) r.react) (newTokSt s)).1.emit _)
              have hsk1 := sk_newTokSt s
              generalize newTokSt s = s1 at hsk1
              have hm1 : Mid d s s1 :=
                ⟨by unfold Wf; rw [hsk1]; exact wf_newTok hw, by rw [hsk1]; exact debt_newTok hw hd,
                 by rw [hsk1]; exact step_newTok⟩
              have hm2 := hm1.call hgo (.sendNolock none false false { name := r.name, qtype := r.qtype }
                (.user (10000 + s.reactSeq)) r.react)
                ⟨hm1.wf, by rw [hsk1]; exact ownerFree_newTok hw, hm1.debt⟩ rfl rfl
              exact hm2.bind (fun h => by simpa using h) (fun hm => Or.inr (hm.sk_eq rfl))
            · exact Or.inr (Mid.refl hw hd)
      exact hmid.tail hgo (fun hm => ⟨hm.wf, hm.debt⟩) (Or.inl rfl) (Or.inl rfl) (fun _ => trivial)

/-! ### `cancel` -/

/-- `ares_cancel` swaps the list heads: the walk sees only the queries present on entry -/
def Sk.pushLC (a : Sk) : Sk := { a with listCopy := a.all :: a.listCopy, all := [] }
def Sk.popLC (a : Sk) : Sk := { a with listCopy := a.listCopy.drop 1 }

theorem wf_pushLC {a : Sk} (h : WfS a none) : WfS a.pushLC none := by
  refine ⟨h.q, ?_, h.t, h.c, h.s, h.k, h.tok⟩
  have hi := h.i
  refine ⟨hi.qidLive, List.nodup_nil, fun _ hk => (by cases hk), fun l hl => ?_, ?_, ?_⟩
  · rcases List.mem_cons.mp hl with rfl | hl
    · exact ⟨hi.allNodup, hi.allIdx⟩
    · exact hi.lcOk l hl
  · show ([] ++ (a.all :: a.listCopy).flatten).Nodup
    simpa using hi.disj
  · intro k hk
    rcases hi.nl k hk with h' | ⟨l, hl, hkl⟩
    · exact Or.inr ⟨a.all, List.mem_cons_self, h'⟩
    · exact Or.inr ⟨l, List.mem_cons_of_mem _ hl, hkl⟩

/-- the list on top of the stack has been walked to the end, so it can be dropped -/
theorem wf_popLC {a : Sk} (h : WfS a none) (hh : (a.listCopy.head?).bind (·.head?) = none) : WfS a.popLC none := by
  refine ⟨h.q, ?_, h.t, h.c, h.s, h.k, h.tok⟩
  have hi := h.i
  refine ⟨hi.qidLive, hi.allNodup, hi.allIdx, fun l hl => hi.lcOk l (List.mem_of_mem_drop hl), ?_, ?_⟩
  · show (a.all ++ (a.listCopy.drop 1).flatten).Nodup
    refine (List.Sublist.append (List.Sublist.refl _) ?_).nodup hi.disj
    cases a.listCopy with
    | nil => exact List.Sublist.refl _
    | cons x r => simp
  · intro k hk
    rcases hi.nl k hk with h' | ⟨l, hl, hkl⟩
    · exact Or.inl h'
    · right
      show ∃ l ∈ a.listCopy.drop 1, k ∈ l
      cases hlc : a.listCopy with
      | nil => rw [hlc] at hl; cases hl
      | cons x r =>
        rw [hlc] at hl hh
        rcases List.mem_cons.mp hl with rfl | hl
        · simp only [List.head?_cons, Option.bind_some] at hh
          cases l with
          | nil => cases hkl
          | cons y t => simp at hh
        · exact ⟨l, by simpa using hl, hkl⟩

/-- the walk of `ares_cancel`, seen from outside the list swap -/
theorem StepS.sandwich_cancel {xf xi d} {a b : Sk} (h : StepS xf xi d a.pushLC b) : StepS xf xi d a b.popLC where
  faults := h.faults
  kMono := h.kMono
  keyMono := h.keyMono
  idxNew := h.idxNew
  unl := h.unl
  orphan := h.orphan
  debtAlive := h.debtAlive
  prog := {
    doneMono := h.prog.doneMono
    lcRel := by
      have := h.prog.lcRel
      show LcSub (b.listCopy.drop 1) a.listCopy
      cases hb : b.listCopy with
      | nil => rw [hb] at this; cases this
      | cons x r =>
        rw [hb] at this
        cases this with
        | cons _ ht => exact ht
    allNew := fun k hk => by
      rcases h.prog.allNew k hk with h' | h'
      · cases h'
      · exact Or.inr h'
    keysLt := h.prog.keysLt
    ownKeep := h.prog.ownKeep
    done6 := h.prog.done6 }

theorem LcSub.mem {a b : List (List Nat)} (h : LcSub a b) {l : List Nat} (hl : l ∈ a) :
    ∃ l0 ∈ b, ∀ k ∈ l, k ∈ l0 := by
  induction h with
  | nil => cases hl
  | cons hx _ ih =>
    rcases List.mem_cons.mp hl with rfl | hl
    · exact ⟨_, List.mem_cons_self, hx⟩
    · obtain ⟨l0, h0, hs⟩ := ih hl
      exact ⟨l0, List.mem_cons_of_mem _ h0, hs⟩

theorem WfS.keysLt {a : Sk} {hole} (h : WfS a hole) : ∀ p ∈ a.qKO, p.1 < a.nextKey := by
  intro p hp
  obtain ⟨e, he, rfl⟩ := List.mem_map.mp hp
  exact h.q.lt e.key (List.mem_map.mpr ⟨e, he, rfl⟩)

/-- the walk over the swapped list: every request of the application that was in `all_queries` has had its
    callback when the walk returns -/
theorem cancel_walk_done {d} {s : St} {r : St × Ret} (hw : Wf s)
    (hg : Good d (.cancelLoop .cancelled false) { s with listCopy := s.all :: s.listCopy, all := [] } r) :
    ∀ k ∈ s.all, ∀ tok, (k, Owner.user tok) ∈ s.sk.qKO → tok ∈ r.1.doneToks := by
  have hw1 : Wf ({ s with listCopy := s.all :: s.listCopy, all := [] } : St) :=
    (show WfS s.sk.pushLC none from wf_pushLC hw)
  obtain ⟨s2, ret⟩ := r
  intro k hk tok hko
  have hki : k ∈ s.sk.idx := hw.i.allIdx k hk
  have hklt : k < s.sk.nextKey := key_lt_of_idx hw hki
  have hp := hg.step.prog
  -- `k` is no longer linked
  have hnot : k ∉ s2.sk.idx := by
    intro hin
    rcases hg.wf.i.nl k hin with ha | ⟨l, hl, hkl⟩
    · rcases hp.allNew k ha with h' | h'
      · cases h'
      · exact absurd h' (by show ¬ s.sk.nextKey ≤ k; omega)
    · have hrel : LcSub s2.listCopy (s.all :: s.listCopy) := hp.lcRel
      have hpost : (s2.listCopy.head?).bind (·.head?) = none := hg.post
      change l ∈ s2.listCopy at hl
      cases hlc : s2.listCopy with
      | nil => rw [hlc] at hl; cases hl
      | cons h2 t2 =>
        rw [hlc] at hrel hl hpost
        cases hrel with
        | cons hx ht =>
          rcases List.mem_cons.mp hl with rfl | hl
          · simp only [List.head?_cons, Option.bind_some] at hpost
            cases l with
            | nil => cases hkl
            | cons y t => simp at hpost
          · obtain ⟨l0, h0, hs⟩ := ht.mem hl
            have hd' := hw.i.disj
            rw [List.nodup_append] at hd'
            exact hd'.2.2 k hk k (List.mem_flatten.mpr ⟨l0, h0, hs k hkl⟩) rfl
  rcases hp.done6 hw1.keysLt (k, .user tok) hko hki hnot tok rfl with h' | h'
  · exact h'
  · cases h'

theorem good_cancel {go} (hgo : GoOk go) {d s} (hpre : Pre d s .cancel) :
    GoodO d .cancel s (bodyCancel go s) := by
  obtain ⟨hw, hd⟩ := hpre
  unfold bodyCancel
  -- the state after the walk, with the completion of everything that was in `all_queries`
  have hmid : (if s.all.isEmpty then s else
      let s := { s with listCopy := s.all :: s.listCopy, all := [] }
      let (s, _) := go (.cancelLoop .cancelled false) s
      { s with listCopy := s.listCopy.drop 1 }).outOfFuel = true ∨
    (Mid d s (if s.all.isEmpty then s else
      let s := { s with listCopy := s.all :: s.listCopy, all := [] }
      let (s, _) := go (.cancelLoop .cancelled false) s
      { s with listCopy := s.listCopy.drop 1 }) ∧
     ∀ k ∈ s.all, ∀ tok, (k, Owner.user tok) ∈ s.sk.qKO →
      tok ∈ (if s.all.isEmpty then s else
        let s := { s with listCopy := s.all :: s.listCopy, all := [] }
        let (s, _) := go (.cancelLoop .cancelled false) s
        { s with listCopy := s.listCopy.drop 1 }).doneToks) := by
    split
    · rename_i hemp
      refine Or.inr ⟨Mid.refl hw hd, fun k hk => ?_⟩
      have : s.all = [] := List.isEmpty_iff.mp hemp
      rw [this] at hk; cases hk
    · simp only
      have hw1 : Wf ({ s with listCopy := s.all :: s.listCopy, all := [] } : St) :=
        (show WfS s.sk.pushLC none from wf_pushLC hw)
      have hd1 : DebtOk none d ({ s with listCopy := s.all :: s.listCopy, all := [] } : St).sk :=
        hd.congr rfl rfl rfl rfl rfl
      rcases hgo.2 d (.cancelLoop .cancelled false) _ ⟨hw1, hd1⟩ with hoof | hg
      · exact Or.inl hoof
      · refine Or.inr ⟨⟨show WfS (Sk.popLC _) none from wf_popLC hg.wf hg.post, hg.debt.congr rfl rfl rfl rfl rfl,
          StepS.sandwich_cancel (a := s.sk) hg.step⟩, ?_⟩
        exact cancel_walk_done hw hg
  rcases hmid with hoof | ⟨hm, hdone⟩
  · exact Or.inl (hgo.1 _ _ hoof)
  · rcases hgo.2 d (.cleanupConns _) _ (show Pre d _ (.cleanupConns _) from ⟨hm.wf, hm.debt⟩) with hoof | hg
    · exact Or.inl hoof
    · exact Or.inr ⟨hg.wf, hg.debt, hm.step.trans hg.step,
        fun k hk tok hko => hg.step.prog.doneMono tok (hdone k hk tok hko)⟩

end Cares.Chan
