import CaresLemmas.ChanWfBody4
/-!
# C01 — body lemmas V: `processTimeouts`, `flushRequeue`, `reactions`, `cancel`
-/
namespace Cares.Chan

/-- an intermediate state of a body: invariant, debt and an ordinary step from the entry state -/
structure Mid (d : Nat → Nat) (s s' : St) : Prop where
  wf : Wf s'
  debt : DebtOk none d s'.sk
  step : StepS none none d s.sk s'.sk

theorem Mid.refl {d s} (hw : Wf s) (hd : DebtOk none d s.sk) : Mid d s s := ⟨hw, hd, StepS.refl _ _ _ _⟩

theorem Mid.of_sk_eq {d s s'} (hw : Wf s) (hd : DebtOk none d s.sk) (h : s'.sk = s.sk) : Mid d s s' :=
  ⟨Wf.of_sk_eq h hw, by rw [h]; exact hd, by rw [h]; exact StepS.refl _ _ _ _⟩

theorem Good.toMid {d c s r} (hg : Good d c s r) (hf : exFd c = none) (hi : exId c = none) : Mid d s r.1 :=
  ⟨hg.wf, hg.debt, by have := hg.step; rwa [hf, hi] at this⟩

theorem Mid.trans {d s s1 s2} (h1 : Mid d s s1) (h2 : Mid d s1 s2) : Mid d s s2 :=
  ⟨h2.wf, h2.debt, h1.step.trans h2.step⟩

theorem Mid.sk_eq {d s s1 s2} (h1 : Mid d s s1) (h : s2.sk = s1.sk) : Mid d s s2 :=
  ⟨Wf.of_sk_eq h h1.wf, by rw [h]; exact h1.debt, by rw [h]; exact h1.step⟩

/-- finish a body with a tail call made from an intermediate state -/
theorem Mid.tail {d c c' s s1} {r : St × Ret} (hm : Mid d s s1) (hg : GoodO d c' s1 r)
    (hf : exFd c' = none ∨ exFd c' = exFd c) (hi : exId c' = none ∨ exId c' = exId c) (hp : Post s r c) :
    GoodO d c s r :=
  Good.tail' hg hm.step.weaken' hf hi (fun _ => hp)

/-- an intermediate state, unless the run is out of fuel -/
def MidO (d : Nat → Nat) (s s' : St) : Prop := s'.outOfFuel = true ∨ Mid d s s'

/-- run a procedure from an intermediate state -/
theorem Mid.call {go} (hgo : GoOk go) {d s s1} (hm : Mid d s s1) (c' : Call) (hpre : Pre d s1 c')
    (hf : exFd c' = none) (hi : exId c' = none) : MidO d s (go c' s1).1 := by
  rcases hgo.2 d c' s1 hpre with hoof | hg
  · exact Or.inl hoof
  · exact Or.inr (hm.trans (hg.toMid hf hi))

/-- finish a body with a tail call made from an intermediate state -/
theorem MidO.tail {go} (hgo : GoOk go) {d c c' s s1} (hm : MidO d s s1) (hpre : Mid d s s1 → Pre d s1 c')
    (hf : exFd c' = none ∨ exFd c' = exFd c) (hi : exId c' = none ∨ exId c' = exId c)
    (hp : ∀ r, Post s r c) : GoodO d c s (go c' s1) := by
  rcases hm with hoof | hm
  · exact Or.inl (hgo.1 _ _ hoof)
  · exact hm.tail (hgo.2 d _ _ (hpre hm)) hf hi (hp _)

theorem MidO.good {d c s s'} {ret : Ret} (hm : MidO d s s') (hp : Post s (s', ret) c) : GoodO d c s (s', ret) := by
  rcases hm with hoof | hm
  · exact Or.inl hoof
  · exact Or.inr ⟨hm.wf, hm.debt, hm.step.weaken', hp⟩

/-- continue from an intermediate state with a step that keeps the fuel flag -/
theorem MidO.bind {d s s1 s2} (hm : MidO d s s1) (ho : s1.outOfFuel = true → s2.outOfFuel = true)
    (f : Mid d s s1 → MidO d s s2) : MidO d s s2 := by
  rcases hm with hoof | hm
  · exact Or.inl (ho hoof)
  · exact f hm

theorem query?_sk {s : St} {k : Nat} {q : Query} (h : s.query? k = some q) :
    q.key = k ∧ q.sk ∈ s.sk.qs ∧ (k, q.conn) ∈ s.sk.qKC := by
  have h1 : q.key = k := by simpa using List.find?_some h
  have h2 : q.sk ∈ s.sk.qs := List.mem_map.mpr ⟨q, List.mem_of_find?_eq_some h, rfl⟩
  exact ⟨h1, h2, List.mem_map.mpr ⟨q.sk, h2, by rw [← h1]; rfl⟩⟩

/-! ### `processTimeouts` -/

theorem good_processTimeouts {go} (hgo : GoOk go) {d s} (hpre : Pre d s .processTimeouts) :
    GoodO d .processTimeouts s (bodyProcessTimeouts go s) := by
  obtain ⟨hw, hd⟩ := hpre
  unfold bodyProcessTimeouts
  split
  · exact Good.of_sk_eq hw hd rfl trivial
  · rename_i key hkey
    have hkm : key ∈ s.sk.byTimeout := List.mem_of_mem_head? hkey
    obtain ⟨hki, fd, hkc⟩ := hw.t.btOk key hkm
    obtain ⟨q, hq, hqs⟩ := query?_of_idx hw hki
    simp only [hq]
    split
    · exact Good.of_sk_eq hw hd rfl trivial
    · -- the query has a live connection
      have hqc : q.conn = some fd := Sk.qKC_unique hw.q.nodup (query?_sk hq).2.2 hkc
      obtain ⟨cc, hcc, hcfd, _⟩ := hw.c.qc _ hkc fd rfl
      have hlive : s.sk.liveConn fd := List.mem_map.mpr ⟨cc, hcc, hcfd⟩
      obtain ⟨c, hc⟩ := conn?_of_live hlive
      simp only [hqc, Option.bind_some, hc]
      have hsk1 : ((s.modQuery key fun q => { q with timeouts := q.timeouts + 1 }).incFailures c.srv q.usingTcp).sk = s.sk := by
        have h1 : (s.modQuery key fun q => { q with timeouts := q.timeouts + 1 }).sk = s.sk := by
          rw [sk_modQuery_same]; intro; rfl
        rw [sk_incFailures _ _ _ (by
          have : (s.modQuery key fun q => { q with timeouts := q.timeouts + 1 }).servers = s.servers := rfl
          rw [this]; exact server_ids_nodup hw), h1]
      generalize ((s.modQuery key fun q => { q with timeouts := q.timeouts + 1 }).incFailures c.srv q.usingTcp) = s1
        at hsk1
      have hm1 : MidO d s (go (.requeue key .timeout true none false) s1).1 :=
        (Mid.of_sk_eq hw hd hsk1).call hgo (.requeue key .timeout true none false)
          ⟨by rw [hsk1]; exact WfS.weaken_hole hw, by unfold Sk.Idx; rw [hsk1]; exact hki, by rw [hsk1]; exact hd⟩
          rfl rfl
      exact hm1.tail hgo (fun hm => ⟨hm.wf, hm.debt⟩) (Or.inl rfl) (Or.inl rfl) (fun _ => trivial)

/-! ### `flushRequeue` -/

theorem good_flushRequeue {go} (hgo : GoOk go) {d s} (hpre : Pre d s .flushRequeue) :
    GoodO d .flushRequeue s (bodyFlushRequeue go s) := by
  obtain ⟨hw, hd⟩ := hpre
  unfold bodyFlushRequeue
  split
  · exact Good.of_sk_eq hw hd rfl trivial
  · rename_i qid srv rest _
    have hm0 : Mid d s { s with requeueArr := rest } := Mid.of_sk_eq hw hd rfl
    simp only
    split
    · exact hm0.tail (hgo.2 d _ _ ⟨hm0.wf, hm0.debt⟩) (Or.inl rfl) (Or.inl rfl) trivial
    · rename_i x key hfind
      have hki : key ∈ s.sk.idx := List.mem_map.mpr ⟨(x, key), List.mem_of_find?_eq_some hfind, rfl⟩
      have hm1 := hm0.call hgo (.sendQuery srv key) ⟨hm0.wf, hki, hm0.debt⟩ rfl rfl
      exact hm1.tail hgo (fun hm => ⟨hm.wf, hm.debt⟩) (Or.inl rfl) (Or.inl rfl) (fun _ => trivial)

/-! ### `reactions` -/

/-- state in which a reaction of kind `send` calls `ares_send` -/
def newTokSt (s : St) : St :=
  { ({ s with reactSeq := s.reactSeq + 1 } : St).emit s!"react(send,{10000 + s.reactSeq})" with
    pendingToks := s.pendingToks ++ [10000 + s.reactSeq] }

theorem sk_newTokSt (s : St) : (newTokSt s).sk = s.sk.newTok := rfl

theorem good_reactions {go} (hgo : GoOk go) {d l s} (hpre : Pre d s (.reactions l)) :
    GoodO d (.reactions l) s (bodyReactions go l s) := by
  obtain ⟨hw, hd⟩ := hpre
  unfold bodyReactions
  split
  · exact Good.of_sk_eq hw hd rfl trivial
  · rename_i i rest
    split
    · exact Good.of_sk_eq hw hd rfl trivial
    · -- the state after reaction `i`
      have hmid : MidO d s (match s.reactions.find? (·.1 == i) with
          | none => s
          | some (_, r) =>
            if r.kind == "cancel" then (go .cancel (s.emit "react(cancel)")).1
            else if r.kind == "send" then
              let tok := 10000 + s.reactSeq
              let s := { s with reactSeq := s.reactSeq + 1 }
              let s := s.emit s!"react(send,{tok})"
              let s := { s with pendingToks := s.pendingToks ++ [tok] }
              let (s, st) := go (.sendNolock none false false { name := r.name, qtype := r.qtype } (.user tok) r.react) s
              s.emit s!"ret({tok},{st.name})"
            else s) := by
        split
        · exact Or.inr (Mid.refl hw hd)
        · split
          · exact (Mid.of_sk_eq (s' := s.emit "react(cancel)") hw hd rfl).call hgo .cancel
              ⟨Wf.of_sk_eq rfl hw, hd⟩ rfl rfl
          · split
            · rename_i r _ _ _
              show MidO d s ((go (.sendNolock none false false { name := r.name, qtype := r.qtype }
                (.user (10000 + s.reactSeq)) r.react) (newTokSt s)).1.emit _)
              have hsk1 := sk_newTokSt s
              generalize newTokSt s = s1 at hsk1
              have hm1 : Mid d s s1 :=
                ⟨by unfold Wf; rw [hsk1]; exact wf_newTok hw, by rw [hsk1]; exact debt_newTok hw hd,
                 by rw [hsk1]; exact step_newTok⟩
              have hm2 := hm1.call hgo (.sendNolock none false false { name := r.name, qtype := r.qtype }
                (.user (10000 + s.reactSeq)) r.react)
                ⟨hm1.wf, by rw [hsk1]; exact ownerFree_newTok hw, hm1.debt⟩ rfl rfl
              exact hm2.bind (fun h => by simpa using h) (fun hm => Or.inr (hm.sk_eq rfl))
            · exact Or.inr (Mid.refl hw hd)
      exact hmid.tail hgo (fun hm => ⟨hm.wf, hm.debt⟩) (Or.inl rfl) (Or.inl rfl) (fun _ => trivial)

/-! ### `cancel` -/

/-- `ares_cancel` swaps the list heads: the walk sees only the queries present on entry -/
def Sk.pushLC (a : Sk) : Sk := { a with listCopy := a.all :: a.listCopy, all := [] }
def Sk.popLC (a : Sk) : Sk := { a with listCopy := a.listCopy.drop 1 }

theorem wf_pushLC {a : Sk} (h : WfS a none) : WfS a.pushLC none := by
  refine ⟨h.q, ?_, h.t, h.c, h.s, h.k, h.tok⟩
  have hi := h.i
  refine ⟨hi.qidLive, List.nodup_nil, fun _ hk => (by cases hk), fun l hl => ?_⟩
  rcases List.mem_cons.mp hl with rfl | hl
  · exact ⟨hi.allNodup, hi.allIdx⟩
  · exact hi.lcOk l hl

theorem wf_popLC {a : Sk} (h : WfS a none) : WfS a.popLC none := by
  refine ⟨h.q, ?_, h.t, h.c, h.s, h.k, h.tok⟩
  have hi := h.i
  exact ⟨hi.qidLive, hi.allNodup, hi.allIdx, fun l hl => hi.lcOk l (List.mem_of_mem_drop hl)⟩

theorem mid_of_same {d s s'} (hd : DebtOk none d s.sk) (hw' : Wf s') (hf : s'.sk.faults = s.sk.faults)
    (hk : s'.sk.nextClient = s.sk.nextClient) (hnk : s'.sk.nextKey = s.sk.nextKey) (hq : s'.sk.qKO = s.sk.qKO)
    (hi : s'.sk.idx = s.sk.idx) (hc : s'.sk.clients = s.sk.clients) (hp : s'.sk.pendingToks = s.sk.pendingToks)
    (hu : s'.sk.cFUQ = s.sk.cFUQ) : Mid d s s' :=
  ⟨hw', hd.congr hk hq hi hc hp, StepS.of_same hf hk hnk hq hi hc hp
    (fun fd q hm _ => ⟨q, by rw [hu]; exact hm, fun _ hx => hx⟩)⟩

theorem good_cancel {go} (hgo : GoOk go) {d s} (hpre : Pre d s .cancel) :
    GoodO d .cancel s (bodyCancel go s) := by
  obtain ⟨hw, hd⟩ := hpre
  unfold bodyCancel
  have hmid : MidO d s (if s.all.isEmpty then s else
      let s := { s with listCopy := s.all :: s.listCopy, all := [] }
      let (s, _) := go (.cancelLoop .cancelled false) s
      { s with listCopy := s.listCopy.drop 1 }) := by
    split
    · exact Or.inr (Mid.refl hw hd)
    · simp only
      have hm1 : Mid d s { s with listCopy := s.all :: s.listCopy, all := [] } :=
        mid_of_same hd (show WfS s.sk.pushLC none from wf_pushLC hw) rfl rfl rfl rfl rfl rfl rfl rfl
      have hm2 := hm1.call hgo (.cancelLoop .cancelled false) ⟨hm1.wf, hm1.debt⟩ rfl rfl
      refine hm2.bind (fun h => h) (fun hm2 => Or.inr (hm2.trans ?_))
      exact mid_of_same hm2.debt (show WfS (Sk.popLC _) none from wf_popLC hm2.wf) rfl rfl rfl rfl rfl rfl rfl rfl
  exact hmid.tail hgo (fun hm => ⟨hm.wf, hm.debt⟩) (Or.inl rfl) (Or.inl rfl) (fun _ => trivial)

end Cares.Chan
