import CaresLemmas.WriteParseName
import CaresLemmas.DnsShape
import CaresModel.Dns.Write
/-!
# Field level: the parser model reads back what each writer helper wrote

One lemma per `FieldKind` (`parseField` after `writeField`), then the generic lemma for whole scripts:
`compatible parseScript writeScript → parseFields (writeFields v) = canon v`.
-/
namespace Cares.Dns.Write
open Cares.Dns Cares.Dns.NameW Cares.Dns.Build

/-! ## names -/

/-- a written name, read back in place: the parser returns the canonical spelling and stops behind it;
    the offset-list invariant carries over to the longer message -/
theorem parseName_nameWrite (out rest : BStr) (names : List NameOff) (useList v : Bool) (name : BStr)
    (o : NameOut) (hinv : NInv names out) (h : nameWrite out.length names useList v name = .ok o) :
    parseName (out ++ o.bytes ++ rest).toArray false out.length =
        .ok (canonName name) (out.length + o.bytes.length) ∧
      NInv o.names (out ++ o.bytes) ∧ o.trunc = false := by
  obtain ⟨⟨ls, hu, _, hd, ht⟩, hinv'⟩ := nameWrite_spec out names useList v name o hinv h
  refine ⟨?_, hinv', ht⟩
  rw [parseName_of_decodes (hd.append rest)]
  simp [canonName, hu]

/-! ## fixed-width numbers -/

theorem or_eq_add (a b i : Nat) (h : b < 2 ^ i) : (a <<< i) ||| b = a * 2 ^ i + b := by
  rw [← Nat.shiftLeft_add_eq_or_of_lt h, Nat.shiftLeft_eq]

theorem be32_val (a b c d : Nat) (hb : b < 256) (hc : c < 256) (hd : d < 256) :
    (a <<< 24) ||| (b <<< 16) ||| (c <<< 8) ||| d = ((a * 256 + b) * 256 + c) * 256 + d := by
  have e1 : (a <<< 24) ||| (b <<< 16) = ((a <<< 8) ||| b) <<< 16 := by
    rw [Nat.shiftLeft_or_distrib, ← Nat.shiftLeft_add]
  have e2 : (((a <<< 8) ||| b) <<< 16) ||| (c <<< 8) = ((((a <<< 8) ||| b) <<< 8) ||| c) <<< 8 := by
    rw [Nat.shiftLeft_or_distrib (a := (a <<< 8 ||| b) <<< 8), ← Nat.shiftLeft_add]
  rw [e1, e2, or_eq_add a b 8 (by omega), or_eq_add _ c 8 (by omega), or_eq_add _ d 8 (by omega)]

/-- byte `i` of a piece placed behind `out` -/
theorem getElem_piece (out b rest : BStr) (i : Nat) (hi : i < b.length)
    (h : out.length + i < (out ++ b ++ rest).toArray.size) :
    (out ++ b ++ rest).toArray[out.length + i] = b[i] := by
  simp [List.getElem_append_right, List.getElem_append_left, hi]

theorem size_piece (out b rest : BStr) : (out ++ b ++ rest).toArray.size = out.length + b.length + rest.length := by
  simp; omega

theorem fetchBe16_written (out rest : BStr) (n : Nat) (hn : n < 65536) :
    fetchBe16 (out ++ be16 n ++ rest).toArray out.length = .ok n (out.length + 2) := by
  have hsz := size_piece out (be16 n) rest
  have hl : (be16 n).length = 2 := rfl
  rw [fetchBe16_eq (by omega), dif_pos (by omega)]
  congr 1
  unfold be16At
  have h0 := getElem_piece out (be16 n) rest 0 (by omega) (by omega)
  have h1 := getElem_piece out (be16 n) rest 1 (by omega) (by omega)
  simp only [Nat.add_zero] at h0
  rw [h0, h1]
  simp only [be16, List.getElem_cons_zero, List.getElem_cons_succ]
  rw [ofNat_toNat_lt _ (by omega), ofNat_toNat_lt _ (by omega), or_eq_add _ _ 8 (by omega)]
  omega

theorem fetchBe32_written (out rest : BStr) (n : Nat) (hn : n < 4294967296) :
    fetchBe32 (out ++ be32 n ++ rest).toArray out.length = .ok n (out.length + 4) := by
  have hsz := size_piece out (be32 n) rest
  have hl : (be32 n).length = 4 := rfl
  rw [fetchBe32_eq (by omega), dif_pos (by omega)]
  congr 1
  unfold be32At
  have h0 := getElem_piece out (be32 n) rest 0 (by omega) (by omega)
  have h1 := getElem_piece out (be32 n) rest 1 (by omega) (by omega)
  have h2 := getElem_piece out (be32 n) rest 2 (by omega) (by omega)
  have h3 := getElem_piece out (be32 n) rest 3 (by omega) (by omega)
  simp only [Nat.add_zero] at h0
  rw [h0, h1, h2, h3]
  simp only [be32, List.getElem_cons_zero, List.getElem_cons_succ]
  rw [ofNat_toNat_lt _ (by omega), ofNat_toNat_lt _ (by omega), ofNat_toNat_lt _ (by omega),
    ofNat_toNat_lt _ (by omega), be32_val _ _ _ _ (by omega) (by omega) (by omega)]
  omega

theorem fetchByte_written (out rest : BStr) (c : UInt8) :
    fetchByte (out ++ [c] ++ rest).toArray out.length = .ok c (out.length + 1) := by
  have hsz := size_piece out [c] rest
  rw [fetchByte_eq (by simp), dif_pos (by simp)]
  congr 1
  simp

theorem fetchBytes_written (out b rest : BStr) (hb : b.length ≠ 0) :
    fetchBytes (out ++ b ++ rest).toArray b.length out.length = .ok b (out.length + b.length) := by
  have hsz := size_piece out b rest
  rw [fetchBytes_eq (by omega), if_pos ⟨hb, by omega⟩]
  congr 1
  rw [slice_toArray]
  simp [List.append_assoc]

/-! ## RDATA bookkeeping -/

/-- `ares_dns_rr_remaining_len` in closed form: `S` is where RDATA starts, `origLen` the buffer length
    there -/
theorem rrRemainingLen_eq (A : Bytes) (S origLen rdlength p : Nat) (hp : p ≤ A.size) (hS : S ≤ p)
    (ho : origLen = A.size - S) :
    rrRemainingLen A origLen rdlength p = .ok (rdlength - (p - S)) p := by
  unfold rrRemainingLen
  rw [P.bind_ok (bufLen_eq hp)]
  have hsub : subChecked origLen (A.size - p) p = .ok (origLen - (A.size - p)) p := by
    simp [subChecked]; omega
  rw [P.bind_ok hsub]
  have : origLen - (A.size - p) = p - S := by omega
  rw [this]
  split
  · simp; omega
  · rfl

theorem used_eq (A : Bytes) (S origLen p : Nat) (hp : p ≤ A.size) (hS : S ≤ p) (ho : origLen = A.size - S) :
    (bufLen A >>= subChecked origLen) p = .ok (p - S) p := by
  rw [P.bind_ok (bufLen_eq hp)]
  simp only [subChecked]
  rw [if_pos (by omega)]
  congr 1
  omega

/-! ## character-strings -/

theorem isPrint_generated (n : Nat) : Cares.Generated.isPrint n = (0x20 ≤ n && n ≤ 0x7E) := by
  simp [Cares.Generated.isPrint, Cares.Generated.inRanges]

theorem allPrintable_generated (s : BStr) :
    (s.all fun c => Cares.Generated.isPrint c.toNat) = allPrintable s := by
  simp [allPrintable, isPrint_generated]

/-- `<len> s` read back by `ares_buf_parse_dns_str` -/
theorem parseDnsBinstr_written (out s rest : BStr) (rem : Nat) (hlen : s.length ≤ 255)
    (hrem : s.length + 1 ≤ rem) (hp : allPrintable s = true) :
    parseDnsBinstr (out ++ (UInt8.ofNat s.length :: s) ++ rest).toArray rem true out.length =
      .ok s (out.length + (s.length + 1)) := by
  have hsz := size_piece out (UInt8.ofNat s.length :: s) rest
  simp only [List.length_cons] at hsz
  unfold parseDnsBinstr
  rw [if_neg (by omega)]
  have hmsg : out ++ (UInt8.ofNat s.length :: s) ++ rest = out ++ [UInt8.ofNat s.length] ++ (s ++ rest) := by
    simp
  have hfb : fetchByte (out ++ (UInt8.ofNat s.length :: s) ++ rest).toArray out.length =
      .ok (UInt8.ofNat s.length) (out.length + 1) := by
    rw [hmsg]; exact fetchByte_written out (s ++ rest) _
  rw [P.bind_ok hfb]
  have hc : (UInt8.ofNat s.length).toNat = s.length := ofNat_toNat_lt _ (by omega)
  rw [hc, if_neg (by omega)]
  by_cases h0 : s.length = 0
  · have : s = [] := List.eq_nil_of_length_eq_zero h0
    subst this
    simp
  · rw [if_pos h0]
    have hmsg2 : out ++ (UInt8.ofNat s.length :: s) ++ rest = (out ++ [UInt8.ofNat s.length]) ++ s ++ rest := by
      simp
    have hfs : fetchBytes (out ++ (UInt8.ofNat s.length :: s) ++ rest).toArray s.length (out.length + 1) =
        .ok s (out.length + (s.length + 1)) := by
      have := fetchBytes_written (out ++ [UInt8.ofNat s.length]) s rest h0
      rw [hmsg2]
      simpa [Nat.add_assoc, Nat.add_comm 1] using this
    rw [P.bind_ok (bufLen_eq (by omega))]
    rw [if_pos ⟨rfl, by omega⟩]
    have hsl : rawSlice (out ++ (UInt8.ofNat s.length :: s) ++ rest).toArray s.length (out.length + 1) =
        .ok s (out.length + 1) := by
      rw [rawSlice_eq (by omega), slice_toArray]
      congr 1
      simp [List.append_assoc]
    rw [P.bind_ok hsl]
    have : (!s.all fun c => Cares.Generated.isPrint c.toNat) = false := by
      rw [allPrintable_generated, hp]; rfl
    rw [this]
    simpa using hfs

/-! ## option lists -/

theorem optStep_written (out rest v : BStr) (id : Nat) (hid : id < 65536) (hv : v.length < 65536) :
    optStep (out ++ (be16 id ++ be16 v.length ++ v) ++ rest).toArray out.length =
      .ok (id, v) (out.length + (4 + v.length)) := by
  unfold optStep
  have m1 : out ++ (be16 id ++ be16 v.length ++ v) ++ rest = out ++ be16 id ++ (be16 v.length ++ v ++ rest) := by
    simp [List.append_assoc]
  have m2 : out ++ (be16 id ++ be16 v.length ++ v) ++ rest =
      (out ++ be16 id) ++ be16 v.length ++ (v ++ rest) := by simp [List.append_assoc]
  have m3 : out ++ (be16 id ++ be16 v.length ++ v) ++ rest =
      (out ++ be16 id ++ be16 v.length) ++ v ++ rest := by simp [List.append_assoc]
  have f1 : fetchBe16 (out ++ (be16 id ++ be16 v.length ++ v) ++ rest).toArray out.length =
      .ok id (out.length + 2) := by rw [m1]; exact fetchBe16_written out _ id hid
  have f2 : fetchBe16 (out ++ (be16 id ++ be16 v.length ++ v) ++ rest).toArray (out.length + 2) =
      .ok v.length (out.length + 2 + 2) := by
    have := fetchBe16_written (out ++ be16 id) (v ++ rest) v.length hv
    rw [m2]; simpa [be16] using this
  rw [P.bind_ok f1, P.bind_ok f2]
  by_cases h0 : v.length = 0
  · have : v = [] := List.eq_nil_of_length_eq_zero h0
    subst this
    simp
  · rw [if_pos h0]
    have f3 : fetchBytes (out ++ (be16 id ++ be16 v.length ++ v) ++ rest).toArray v.length (out.length + 2 + 2) =
        .ok v (out.length + 2 + 2 + v.length) := by
      have := fetchBytes_written (out ++ be16 id ++ be16 v.length) v rest h0
      rw [m3]; simpa [be16, Nat.add_assoc] using this
    rw [P.bind_ok f3]
    simp only [P.pure_apply]
    congr 1
    omega

/-- applying the setter to every pair, as the parser's loop does -/
def setOpts (acc : List (Nat × BStr)) (l : List (Nat × BStr)) : List (Nat × BStr) :=
  l.foldl (fun a p => setOpt a p.1 p.2) acc

theorem writeOpts_cons (id : Nat) (v : BStr) (l : List (Nat × BStr)) :
    (writeOpts ((id, v) :: l)).1 = be16 (id % 65536) ++ (u16t v.length).1 ++ v ++ (writeOpts l).1 := by
  simp [writeOpts]

theorem optLoop_written (l : List (Nat × BStr)) :
    ∀ (out post : BStr) (S origLen rdlength : Nat) (acc : List (Nat × BStr)),
      (∀ p ∈ l, p.1 < 65536 ∧ p.2.length < 65536) → S ≤ out.length →
      origLen = (out ++ (writeOpts l).1 ++ post).length - S →
      rdlength = out.length - S + (writeOpts l).1.length →
      optLoop (out ++ (writeOpts l).1 ++ post).toArray origLen rdlength acc out.length =
        .ok (setOpts acc l) (out.length + (writeOpts l).1.length) := by
  induction l with
  | nil =>
    intro out post S origLen rdlength acc _ hS ho hr
    rw [optLoop]
    have hrem := rrRemainingLen_eq (out ++ (writeOpts []).1 ++ post).toArray S origLen rdlength out.length
      (by simp) hS (by simpa using ho)
    simp only [hrem]
    have : rdlength - (out.length - S) = 0 := by simp [writeOpts] at hr; omega
    simp [this, setOpts, writeOpts]
  | cons pv l ih =>
    obtain ⟨id, v⟩ := pv
    intro out post S origLen rdlength acc hval hS ho hr
    obtain ⟨hid, hv⟩ := hval (id, v) List.mem_cons_self
    have hidm : id % 65536 = id := Nat.mod_eq_of_lt hid
    have hu : (u16t v.length).1 = be16 v.length := by simp [u16t, Nat.mod_eq_of_lt hv]
    have hw : (writeOpts ((id, v) :: l)).1 = (be16 id ++ be16 v.length ++ v) ++ (writeOpts l).1 := by
      rw [writeOpts_cons, hidm, hu]
    have hwl : (writeOpts ((id, v) :: l)).1.length = 4 + v.length + (writeOpts l).1.length := by
      rw [hw]; simp [be16]; omega
    rw [optLoop]
    have hrem := rrRemainingLen_eq (out ++ (writeOpts ((id, v) :: l)).1 ++ post).toArray S origLen rdlength out.length
      (by simp) hS (by simpa using ho)
    simp only [hrem]
    have hne : rdlength - (out.length - S) ≠ 0 := by omega
    rw [if_pos hne]
    have hmsg : out ++ (writeOpts ((id, v) :: l)).1 ++ post =
        out ++ (be16 id ++ be16 v.length ++ v) ++ ((writeOpts l).1 ++ post) := by
      rw [hw]; simp [List.append_assoc]
    have hstep : optStep (out ++ (writeOpts ((id, v) :: l)).1 ++ post).toArray out.length =
        .ok (id, v) (out.length + (4 + v.length)) := by
      rw [hmsg]; exact optStep_written out _ v id hid hv
    split
    · rename_i e he; rw [hstep] at he; cases he
    · rename_i k he; rw [hstep] at he; cases he
    · rename_i o pos1 he
      rw [hstep] at he
      injection he with h1 h2
      subst h1; subst h2
      have hmsg2 : out ++ (writeOpts ((id, v) :: l)).1 ++ post =
          (out ++ (be16 id ++ be16 v.length ++ v)) ++ (writeOpts l).1 ++ post := by
        rw [hw]; simp [List.append_assoc]
      have hlen2 : (out ++ (be16 id ++ be16 v.length ++ v)).length = out.length + (4 + v.length) := by
        simp [be16]; omega
      have := ih (out ++ (be16 id ++ be16 v.length ++ v)) post S origLen rdlength (setOpt acc id v)
        (fun p hp => hval p (List.mem_cons_of_mem _ hp)) (by omega)
        (by rw [← hmsg2]; exact ho) (by rw [hlen2]; omega)
      rw [← hmsg2, hlen2] at this
      rw [this, hwl]
      simp only [setOpts, List.foldl_cons]
      congr 1
      omega

theorem setOpt_fresh (acc : List (Nat × BStr)) (id : Nat) (v : BStr) (h : ∀ p ∈ acc, p.1 ≠ id) :
    setOpt acc id v = acc ++ [(id, v)] := by
  induction acc with
  | nil => rfl
  | cons a r ih =>
    obtain ⟨i, w⟩ := a
    have hi : i ≠ id := h (i, w) List.mem_cons_self
    simp only [setOpt, hi, ↓reduceIte, List.cons_append]
    rw [ih (fun p hp => h p (List.mem_cons_of_mem _ hp))]

/-- with pairwise different ids the parser's list is the written list -/
theorem setOpts_nodup (l acc : List (Nat × BStr)) (h : ((acc ++ l).map (·.1)).Nodup) :
    setOpts acc l = acc ++ l := by
  induction l generalizing acc with
  | nil => simp [setOpts]
  | cons p r ih =>
    obtain ⟨id, v⟩ := p
    simp only [setOpts, List.foldl_cons]
    have hfresh : ∀ q ∈ acc, q.1 ≠ id := by
      intro q hq hc
      rw [List.map_append, List.nodup_append] at h
      exact h.2.2 q.1 (List.mem_map_of_mem hq) id (by simp) hc
    rw [setOpt_fresh acc id v hfresh]
    have := ih (acc ++ [(id, v)]) (by simpa [List.append_assoc] using h)
    simpa [setOpts, List.append_assoc] using this

/-! ## character-string sequences (TXT) -/

/-- one character-string on the wire -/
def encChunk (c : BStr) : BStr := UInt8.ofNat c.length :: c

theorem split255_spec (bs : BStr) :
    binstr bs = ((split255 bs).map encChunk).flatten ∧ (∀ c ∈ split255 bs, c.length ≤ 255) ∧ split255 bs ≠ [] := by
  induction h : bs.length using Nat.strongRecOn generalizing bs with
  | _ n ih =>
    rw [binstr, split255]
    by_cases hle : bs.length ≤ 255
    · simp [hle, encChunk]
    · simp only [hle, ↓reduceDIte]
      obtain ⟨h1, h2, _⟩ := ih (bs.drop 255).length (by simp; omega) (bs.drop 255) rfl
      refine ⟨?_, ?_, by simp⟩
      · rw [h1]
        have : (bs.take 255).length = 255 := by simp; omega
        simp [encChunk, this]
      · intro c hc
        rcases List.mem_cons.1 hc with rfl | hc
        · simp; omega
        · exact h2 c hc

theorem multistringStep_written (out c rest : BStr) (hc : c.length ≤ 255) :
    multistringStep (out ++ encChunk c ++ rest).toArray false out.length =
      .ok c (out.length + (c.length + 1)) := by
  have hsz := size_piece out (encChunk c) rest
  simp only [encChunk, List.length_cons] at hsz
  unfold multistringStep
  have hmsg : out ++ encChunk c ++ rest = out ++ [UInt8.ofNat c.length] ++ (c ++ rest) := by simp [encChunk]
  have hfb : fetchByte (out ++ encChunk c ++ rest).toArray out.length =
      .ok (UInt8.ofNat c.length) (out.length + 1) := by
    rw [hmsg]; exact fetchByte_written out (c ++ rest) _
  rw [P.bind_ok hfb]
  have hsz' : (out ++ encChunk c ++ rest).toArray.size = out.length + (c.length + 1) + rest.length := by
    simp [encChunk]; omega
  rw [P.bind_ok (bufLen_eq (by omega))]
  have hcn : (UInt8.ofNat c.length).toNat = c.length := ofNat_toNat_lt _ (by omega)
  rw [hcn]
  rw [if_neg (by simp)]
  by_cases h0 : c.length = 0
  · have : c = [] := List.eq_nil_of_length_eq_zero h0
    subst this
    simp
  · rw [if_pos h0]
    have hmsg2 : out ++ encChunk c ++ rest = (out ++ [UInt8.ofNat c.length]) ++ c ++ rest := by simp [encChunk]
    have := fetchBytes_written (out ++ [UInt8.ofNat c.length]) c rest h0
    rw [hmsg2]
    simpa [Nat.add_assoc, Nat.add_comm 1] using this

theorem multistringLoop_written (cs : List BStr) :
    ∀ (out post : BStr) (S origLen rdlength : Nat) (acc : List BStr) (ran : Bool),
      (∀ c ∈ cs, c.length ≤ 255) → S ≤ out.length →
      origLen = (out ++ (cs.map encChunk).flatten ++ post).length - S →
      rdlength = out.length - S + (cs.map encChunk).flatten.length →
      (ran = true ∨ cs ≠ []) →
      multistringLoop (out ++ (cs.map encChunk).flatten ++ post).toArray origLen rdlength false acc ran out.length =
        .ok (acc ++ cs) (out.length + (cs.map encChunk).flatten.length) := by
  induction cs with
  | nil =>
    intro out post S origLen rdlength acc ran _ hS ho hr hran
    rw [multistringLoop]
    have hused := used_eq (out ++ (([] : List BStr).map encChunk).flatten ++ post).toArray S origLen out.length
      (by simp) hS (by rw [List.size_toArray]; exact ho)
    simp only [hused]
    have hran' : ran = true := by
      rcases hran with h | h
      · exact h
      · exact absurd rfl h
    have hz : ¬ (out.length - S < rdlength) := by simp at hr; omega
    simp [hran', hz]
  | cons c cs ih =>
    intro out post S origLen rdlength acc ran hlen hS ho hr _
    have hc := hlen c List.mem_cons_self
    have hfl : ((c :: cs).map encChunk).flatten = encChunk c ++ (cs.map encChunk).flatten := by simp
    have hel : (encChunk c).length = c.length + 1 := by simp [encChunk]
    rw [multistringLoop]
    have hused := used_eq (out ++ ((c :: cs).map encChunk).flatten ++ post).toArray S origLen out.length
      (by simp) hS (by rw [List.size_toArray]; exact ho)
    simp only [hused]
    have hlt : out.length - S < rdlength := by rw [hr, hfl, List.length_append, hel]; omega
    rw [if_pos hlt]
    have hmsg : out ++ ((c :: cs).map encChunk).flatten ++ post =
        out ++ encChunk c ++ ((cs.map encChunk).flatten ++ post) := by rw [hfl]; simp [List.append_assoc]
    have hstep : multistringStep (out ++ ((c :: cs).map encChunk).flatten ++ post).toArray false out.length =
        .ok c (out.length + (c.length + 1)) := by
      rw [hmsg]; exact multistringStep_written out c _ hc
    split
    · rename_i e he; rw [hstep] at he; cases he
    · rename_i k he; rw [hstep] at he; cases he
    · rename_i s pos1 he
      rw [hstep] at he
      injection he with h1 h2
      subst h1; subst h2
      have hmsg2 : out ++ ((c :: cs).map encChunk).flatten ++ post =
          (out ++ encChunk c) ++ (cs.map encChunk).flatten ++ post := by rw [hfl]; simp [List.append_assoc]
      have hlen2 : (out ++ encChunk c).length = out.length + (c.length + 1) := by simp [hel]
      have := ih (out ++ encChunk c) post S origLen rdlength (acc ++ [c]) true
        (fun x hx => hlen x (List.mem_cons_of_mem _ hx)) (by omega)
        (by rw [← hmsg2]; exact ho) (by rw [hlen2, hr, hfl, List.length_append, hel]; omega) (Or.inl rfl)
      rw [← hmsg2, hlen2] at this
      rw [this, hfl, List.length_append, hel]
      simp only [List.append_assoc, List.singleton_append]
      congr 1
      omega

/-! ## one helper call: `parseField` after `writeField` -/

theorem fetchStrDup_written (out s rest : BStr) (h0 : s.length ≠ 0) (hp : allPrintable s = true) :
    fetchStrDup (out ++ s ++ rest).toArray s.length out.length = .ok s (out.length + s.length) := by
  have hsz := size_piece out s rest
  unfold fetchStrDup
  rw [P.bind_ok (bufLen_eq (by omega))]
  rw [if_neg (by omega)]
  have hsl : rawSlice (out ++ s ++ rest).toArray s.length out.length = .ok s out.length := by
    rw [rawSlice_eq (by omega), slice_toArray]
    congr 1
    simp [List.append_assoc]
  rw [P.bind_ok hsl]
  have : (!s.all fun c => Cares.Generated.isPrint c.toNat) = false := by
    rw [allPrintable_generated, hp]; rfl
  rw [this]
  simp only [Bool.false_eq_true, ↓reduceIte]
  rw [P.bind_ok (by rw [consume_eq (by omega), if_pos (by omega)])]
  rfl

/-- the common frame of a field inside an RDATA: `S` = where the RDATA starts, the field's bytes sit at
    `out.length`, the RDATA ends at or behind the field -/
structure Frame (out b post : BStr) (S origLen rdlength : Nat) : Prop where
  hS : S ≤ out.length
  horig : origLen = (out ++ b ++ post).length - S
  hrd : out.length - S + b.length ≤ rdlength

theorem parseField_writeField (pk wk : FieldKind) (key : Nat) (hm : kindMatch pk wk = true)
    (out post : BStr) (S origLen rdlength : Nat) (names : List NameOff) (comp : Bool) (rr : RR) (p : Piece)
    (hw : writeField out.length names comp rr wk key = .ok p) (hinv : NInv names out)
    (hok : fieldOk rr pk key = true) (hf : Frame out p.bytes post S origLen rdlength)
    (hlast : isRest pk = true → rdlength = out.length - S + p.bytes.length) :
    parseField (out ++ p.bytes ++ post).toArray origLen rdlength pk out.length =
        .ok (canonVal rr wk key) (out.length + p.bytes.length) ∧
      NInv p.names (out ++ p.bytes) ∧ p.trunc = false := by
  obtain ⟨hS, horig, hrd⟩ := hf
  obtain ⟨pb, pn, pt⟩ := p
  dsimp only at horig hrd hlast ⊢
  have hsz := size_piece out pb post
  have hrem : ∀ q, q ≤ (out ++ pb ++ post).toArray.size → S ≤ q →
      rrRemainingLen (out ++ pb ++ post).toArray origLen rdlength q = .ok (rdlength - (q - S)) q :=
    fun q hq hSq => rrRemainingLen_eq _ S origLen rdlength q hq hSq (by rw [List.size_toArray]; exact horig)
  cases pk <;> cases wk <;> simp only [kindMatch] at hm <;> try (cases hm)
  · -- be16
    simp only [writeField] at hw
    split at hw
    · cases hw
      simp only [fieldOk, decide_eq_true_eq] at hok
      refine ⟨?_, hinv.append _, rfl⟩
      simp only [parseField, canonVal]
      rw [P.bind_ok (by rw [Nat.mod_eq_of_lt hok]; exact fetchBe16_written out post _ hok)]
      rfl
    · cases hw
  · -- be32
    simp only [writeField] at hw
    split at hw
    · cases hw
      simp only [fieldOk, decide_eq_true_eq] at hok
      refine ⟨?_, hinv.append _, rfl⟩
      simp only [parseField, canonVal]
      rw [P.bind_ok (by rw [Nat.mod_eq_of_lt hok]; exact fetchBe32_written out post _ hok)]
      rfl
    · cases hw
  · -- u8
    simp only [writeField] at hw
    split at hw
    · cases hw
      simp only [fieldOk, decide_eq_true_eq] at hok
      refine ⟨?_, hinv.append _, rfl⟩
      simp only [parseField, canonVal]
      rw [P.bind_ok (fetchByte_written out post _)]
      simp [Nat.mod_eq_of_lt hok, ofNat_toNat_lt _ hok]
    · cases hw
  · -- name
    rename_i ph wh
    cases ph <;> try (cases hm)
    simp only [writeField] at hw
    cases hg : getStr rr key with
    | none => simp [hg] at hw
    | some n =>
      simp only [hg] at hw
      cases hn : nameWrite out.length names comp wh n with
      | error e => simp [hn] at hw
      | ok o =>
        simp only [hn, Except.ok.injEq] at hw
        cases hw
        obtain ⟨h1, h2, h3⟩ := parseName_nameWrite out post names comp wh n o hinv hn
        refine ⟨?_, h2, h3⟩
        simp only [parseField, canonVal, hg, Option.map_some]
        rw [P.bind_ok h1]
        rfl
  · -- str
    rename_i pb wb
    simp only [writeField] at hw
    cases hg : getStr rr key with
    | none => simp [hg] at hw
    | some s =>
      simp only [hg] at hw
      split at hw
      · cases hw
      · rename_i hlen
        cases hw
        simp only [fieldOk, hg, Bool.and_eq_true, Bool.or_eq_true, Bool.not_eq_true',
          List.isEmpty_eq_false_iff] at hok
        simp only [List.length_cons] at hrd hsz
        refine ⟨?_, hinv.append _, rfl⟩
        simp only [parseField, canonVal, hg]
        rw [P.bind_ok (hrem out.length (by omega) hS)]
        rw [P.bind_ok (parseDnsBinstr_written out s post _ (by omega) (by omega) hok.1)]
        have : ¬ ((!pb) = true ∧ s.length = 0) := by
          intro ⟨h1, h2⟩
          rcases hok.2 with h | h
          · simp [h] at h1
          · exact h (List.eq_nil_of_length_eq_zero h2)
        simp only [this, ↓reduceIte]
        simp
  · -- addr4
    simp only [writeField] at hw
    cases hg : getAddr rr key with
    | none => simp [hg] at hw
    | some b =>
      simp only [hg, Except.ok.injEq] at hw
      cases hw
      simp only [fieldOk, hg, beq_iff_eq] at hok
      refine ⟨?_, hinv.append _, rfl⟩
      simp only [parseField, canonVal, hg, Option.getD_some]
      have := fetchBytes_written out pb post (by omega)
      rw [hok] at this
      rw [P.bind_ok this]
      simp [hok]
  · -- addr6
    simp only [writeField] at hw
    cases hg : getAddr rr key with
    | none => simp [hg] at hw
    | some b =>
      simp only [hg, Except.ok.injEq] at hw
      cases hw
      simp only [fieldOk, hg, beq_iff_eq] at hok
      refine ⟨?_, hinv.append _, rfl⟩
      simp only [parseField, canonVal, hg, Option.getD_some]
      have := fetchBytes_written out pb post (by omega)
      rw [hok] at this
      rw [P.bind_ok this]
      simp [hok]
  · -- binRest
    simp only [writeField] at hw
    cases hg : getBin rr key with
    | none => simp [hg] at hw
    | some b =>
      simp only [hg] at hw
      split at hw
      · cases hw
      · rename_i h0
        cases hw
        have hl := hlast rfl
        refine ⟨?_, hinv.append _, rfl⟩
        simp only [parseField, canonVal, hg]
        rw [P.bind_ok (hrem out.length (by omega) hS)]
        have hlen : rdlength - (out.length - S) = pb.length := by omega
        rw [hlen, if_neg h0, P.bind_ok (fetchBytes_written out pb post h0)]
        rfl
  · -- strRest
    simp only [writeField] at hw
    cases hg : getStr rr key with
    | none => simp [hg] at hw
    | some s =>
      simp only [hg] at hw
      split at hw
      · cases hw
      · rename_i h0
        cases hw
        have hl := hlast rfl
        simp only [fieldOk, hg] at hok
        refine ⟨?_, hinv.append _, rfl⟩
        simp only [parseField, canonVal, hg]
        rw [P.bind_ok (hrem out.length (by omega) hS)]
        have hlen : rdlength - (out.length - S) = pb.length := by omega
        rw [hlen, if_neg h0, P.bind_ok (fetchStrDup_written out pb post h0 hok)]
        rfl
  · -- opts
    simp only [writeField] at hw
    cases hw
    have hl := hlast rfl
    simp only [fieldOk, Bool.and_eq_true, List.all_eq_true, decide_eq_true_eq] at hok
    refine ⟨?_, hinv.append _, ?_⟩
    · simp only [parseField, canonVal]
      have := optLoop_written (getOpts rr key) out post S origLen rdlength []
        (fun q hq => by have := hok.1 q hq; simpa using this) hS horig hl
      rw [P.bind_ok this, setOpts_nodup _ [] (by simpa using hok.2)]
      rfl
    · -- no length was masked
      have : ∀ l : List (Nat × BStr), (∀ q ∈ l, q.1 < 65536 ∧ q.2.length < 65536) → (writeOpts l).2 = false := by
        intro l
        induction l with
        | nil => intro _; rfl
        | cons a r ih =>
          intro h
          obtain ⟨id, v⟩ := a
          have hv := (h (id, v) List.mem_cons_self).2
          dsimp only at hv
          simp only [writeOpts, u16t, Bool.or_eq_false_iff, decide_eq_false_iff_not]
          exact ⟨by omega, ih (fun q hq => h q (List.mem_cons_of_mem _ hq))⟩
      exact this _ (fun q hq => by have := hok.1 q hq; simpa using this)

/-! ## whole scripts -/

theorem compatibleSeq_nil_right {ps : Script} (h : compatibleSeq ps [] = true) : ps = [] := by
  cases ps with
  | nil => rfl
  | cons a r => simp [compatibleSeq] at h

/-- **generic lemma for scripted RR types**: if the parse script and the write script of a type are
    compatible, parsing the fields that were written gives the canonical values back, the offset-list
    invariant is kept, and no length was masked -/
theorem parseFields_writeFields (ps : Script) :
    ∀ (ws : Script), compatibleSeq ps ws = true →
    ∀ (out post : BStr) (S origLen rdlength : Nat) (names : List NameOff) (comp : Bool) (rr : RR) (p : Piece),
      writeFields out.length names comp rr ws = .ok p → NInv names out → fieldsOk rr ps = true →
      S ≤ out.length → origLen = (out ++ p.bytes ++ post).length - S →
      rdlength = out.length - S + p.bytes.length →
      parseFields (out ++ p.bytes ++ post).toArray origLen rdlength ps out.length =
          .ok (canonFields rr ws) (out.length + p.bytes.length) ∧
        NInv p.names (out ++ p.bytes) ∧ p.trunc = false := by
  induction ps with
  | nil =>
    intro ws hc out post S origLen rdlength names comp rr p hw hinv _ _ _ _
    cases ws with
    | nil =>
      simp only [writeFields, Except.ok.injEq] at hw
      subst hw
      simp [parseFields, canonFields, hinv]
    | cons a r => simp [compatibleSeq] at hc
  | cons pe ps ih =>
    obtain ⟨pk, pkey⟩ := pe
    intro ws hc out post S origLen rdlength names comp rr p hw hinv hok hS horig hrd
    cases ws with
    | nil => simp [compatibleSeq] at hc
    | cons we ws =>
      obtain ⟨wk, wkey⟩ := we
      simp only [compatibleSeq, Bool.and_eq_true, beq_iff_eq, Bool.or_eq_true, Bool.not_eq_true',
        List.isEmpty_iff] at hc
      obtain ⟨⟨⟨hkey, hkm⟩, hrest⟩, hcs⟩ := hc
      subst hkey
      simp only [fieldsOk, List.all_cons, Bool.and_eq_true] at hok
      simp only [writeFields] at hw
      cases h1 : writeField out.length names comp rr wk pkey with
      | error e => simp [h1] at hw
      | ok p1 =>
        simp only [h1] at hw
        cases h2 : writeFields (out.length + p1.bytes.length) p1.names comp rr ws with
        | error e => simp [h2] at hw
        | ok q =>
          simp only [h2, Except.ok.injEq] at hw
          subst hw
          dsimp only at horig hrd ⊢
          have hmsg : out ++ (p1.bytes ++ q.bytes) ++ post = out ++ p1.bytes ++ (q.bytes ++ post) := by
            simp [List.append_assoc]
          have hqnil : isRest pk = true → q.bytes = [] := by
            intro hr
            rcases hrest with h | h
            · rw [h] at hr; cases hr
            · subst h
              have hws : ws = [] := by
                cases ws with
                | nil => rfl
                | cons a r => simp [compatibleSeq] at hcs
              subst hws
              simp only [writeFields, Except.ok.injEq] at h2
              subst h2
              rfl
          obtain ⟨f1, f2, f3⟩ := parseField_writeField pk wk pkey hkm out (q.bytes ++ post) S origLen rdlength
            names comp rr p1 h1 hinv hok.1
            ⟨hS, by rw [← hmsg]; exact horig, by rw [hrd, List.length_append]; omega⟩
            (by intro hr; rw [hrd, hqnil hr]; simp)
          have hlen : (out ++ p1.bytes).length = out.length + p1.bytes.length := by simp
          have hmsg2 : out ++ (p1.bytes ++ q.bytes) ++ post = (out ++ p1.bytes) ++ q.bytes ++ post := by
            simp [List.append_assoc]
          obtain ⟨g1, g2, g3⟩ := ih ws hcs (out ++ p1.bytes) post S origLen rdlength p1.names comp rr q
            (by rw [hlen]; exact h2) f2 hok.2 (by omega) (by rw [← hmsg2]; exact horig)
            (by rw [hlen, hrd, List.length_append]; omega)
          refine ⟨?_, by rw [← List.append_assoc]; exact g2, by simp [f3, g3]⟩
          simp only [parseFields]
          rw [hmsg, P.bind_ok f1]
          rw [← hmsg, hmsg2, ← hlen, P.bind_ok g1]
          simp [canonFields, List.length_append, Nat.add_assoc]

/-! ## TXT: the character-string sequence is the whole RDATA -/

theorem binstr_chunks (chunks : List BStr) :
    (chunks.map binstr).flatten = ((chunks.flatMap split255).map encChunk).flatten ∧
      (∀ c ∈ chunks.flatMap split255, c.length ≤ 255) ∧ (chunks ≠ [] → chunks.flatMap split255 ≠ []) := by
  induction chunks with
  | nil => simp
  | cons c r ih =>
    obtain ⟨h1, h2, h3⟩ := split255_spec c
    obtain ⟨i1, i2, _⟩ := ih
    refine ⟨by simp [h1, i1], ?_, ?_⟩
    · intro x hx
      simp only [List.flatMap_cons, List.mem_append] at hx
      rcases hx with hx | hx
      · exact h2 x hx
      · exact i2 x hx
    · intro _
      simp only [List.flatMap_cons, ne_eq, List.append_eq_nil_iff, not_and]
      intro hc; exact absurd hc h3

theorem parseFields_writeFields_abin (key : Nat) (wflag : Bool) (out post : BStr) (origLen rdlength : Nat)
    (names : List NameOff) (comp : Bool) (rr : RR) (p : Piece)
    (hw : writeFields out.length names comp rr [(.abin wflag, key)] = .ok p) (hinv : NInv names out)
    (horig : origLen = (out ++ p.bytes ++ post).length - out.length) (hrd : rdlength = p.bytes.length) :
    parseFields (out ++ p.bytes ++ post).toArray origLen rdlength [(.abin false, key)] out.length =
        .ok (canonFields rr [(.abin wflag, key)]) (out.length + p.bytes.length) ∧
      NInv p.names (out ++ p.bytes) ∧ p.trunc = false := by
  have hw1 : writeField out.length names comp rr (.abin wflag) key =
      (if (getAbin rr key).length = 0 then .error .formerr
       else .ok ⟨((getAbin rr key).map binstr).flatten, names, false⟩) := by
    simp only [writeField]
  simp only [writeFields, hw1] at hw
  by_cases hne : (getAbin rr key).length = 0
  · simp [hne] at hw
  · simp only [hne, ↓reduceIte, Except.ok.injEq] at hw
    subst hw
    dsimp only at horig hrd ⊢
    simp only [List.append_nil, Bool.or_false] at horig hrd ⊢
    obtain ⟨e1, e2, e3⟩ := binstr_chunks (getAbin rr key)
    have hcs : getAbin rr key ≠ [] := by
      intro hc; rw [hc] at hne; simp at hne
    refine ⟨?_, hinv.append _, trivial⟩
    have hbl : bufLen (out ++ (List.map binstr (getAbin rr key)).flatten ++ post).toArray out.length =
        .ok ((out ++ (List.map binstr (getAbin rr key)).flatten ++ post).length - out.length) out.length := by
      rw [bufLen_eq (by simp), List.size_toArray]
    have hpos : rdlength ≠ 0 := by
      rw [hrd, e1]
      obtain ⟨c, r, hcr⟩ := List.exists_cons_of_ne_nil (e3 hcs)
      rw [hcr]; simp [encChunk]
    have hloop := multistringLoop_written ((getAbin rr key).flatMap split255) out post out.length
      ((out ++ (List.map binstr (getAbin rr key)).flatten ++ post).length - out.length) rdlength [] false e2
      (Nat.le_refl _) (by rw [e1]) (by rw [hrd, e1]; omega) (Or.inr (e3 hcs))
    rw [← e1] at hloop
    have hms : parseMultistring (out ++ (List.map binstr (getAbin rr key)).flatten ++ post).toArray rdlength false
        out.length = .ok ((getAbin rr key).flatMap split255)
          (out.length + (List.map binstr (getAbin rr key)).flatten.length) := by
      unfold parseMultistring
      rw [P.bind_ok hbl, if_neg hpos]
      simpa using hloop
    have hpf : parseField (out ++ (List.map binstr (getAbin rr key)).flatten ++ post).toArray origLen rdlength
        (.abin false) out.length = .ok (.abin ((getAbin rr key).flatMap split255))
          (out.length + (List.map binstr (getAbin rr key)).flatten.length) := by
      simp only [parseField]
      rw [P.bind_ok hms]
      rfl
    simp only [parseFields]
    rw [P.bind_ok hpf]
    simp only [canonFields, canonVal, List.map_cons, List.map_nil]
    rfl

end Cares.Dns.Write
