import CaresLemmas.ChanWfSendQ
/-!
# C01 — the pieces of `ares_send_query`: what each does to the skeleton
-/
namespace Cares.Chan

/-! ### server choice -/

theorem mem_insertServer {v x : Server} {l : List Server} : x ∈ insertServer v l → x = v ∨ x ∈ l := by
  induction l with
  | nil => intro h; exact Or.inl (List.mem_singleton.mp h)
  | cons y r ih =>
    unfold insertServer
    split
    · intro h
      rcases List.mem_cons.mp h with h | h
      · exact Or.inl h
      · exact Or.inr h
    · intro h
      rcases List.mem_cons.mp h with h | h
      · exact Or.inr (h ▸ List.mem_cons_self)
      · rcases ih h with h | h
        · exact Or.inl h
        · exact Or.inr (List.mem_cons_of_mem _ h)

theorem mem_foldl_insertServer (l acc : List Server) {x : Server}
    (h : x ∈ l.foldl (fun acc v => insertServer v acc) acc) : x ∈ l ∨ x ∈ acc := by
  induction l generalizing acc with
  | nil => exact Or.inr h
  | cons y r ih =>
    rcases ih _ h with h | h
    · exact Or.inl (List.mem_cons_of_mem _ h)
    · rcases mem_insertServer h with h | h
      · exact Or.inl (h ▸ List.mem_cons_self)
      · exact Or.inr h

theorem mem_sortedServers {s : St} {x : Server} (h : x ∈ s.sortedServers) : x ∈ s.servers := by
  rcases mem_foldl_insertServer _ _ h with h | h
  · exact h
  · cases h

theorem sqPick_sk (s : St) (reqSrv : Option Nat) : (sqPick s reqSrv).2.sk = s.sk := by
  unfold sqPick
  split
  · rfl
  · split
    · simp only
      split
      · rfl
      · exact sk_draw1 s
    · rfl

theorem sqPick_mem {s : St} {reqSrv : Option Nat} {srv : Server} (h : (sqPick s reqSrv).1 = some srv) :
    srv ∈ s.servers := by
  unfold sqPick at h
  split at h
  · exact List.mem_of_find?_eq_some h
  · split at h
    · simp only at h
      split at h
      · cases h
      · exact mem_sortedServers (List.mem_of_getElem? h)
    · exact mem_sortedServers (List.mem_of_mem_head? h)

/-! ### an existing connection -/

theorem hasConn_of_cF4 {a : Sk} {fd v : Nat} {u t : Bool} (h : (fd, u, v, t) ∈ a.cF4) : a.hasConn fd u := by
  obtain ⟨c, hc, he⟩ := mem_cF4.mp h
  simp only [Prod.mk.injEq] at he
  exact ⟨c.queries, mem_cFUQ.mpr ⟨c, hc, by rw [he.1, he.2.1]⟩⟩

theorem sqExisting_hasConn {s : St} {q : Query} {srv : Server} {fd : Nat} (hw : Wf s) (hsrv : srv ∈ s.servers)
    (h : sqExisting s q srv = some fd) : s.sk.hasConn fd false := by
  have hm : srv.sk ∈ s.sk.servers := List.mem_map.mpr ⟨srv, hsrv, rfl⟩
  unfold sqExisting at h
  split at h
  · exact hasConn_of_cF4 (hw.s.tcp srv.sk hm fd h)
  · split at h
    · cases h
    · rename_i fd' hhead
      split at h
      · cases h
      · split at h
        · cases h
        · split at h
          · cases h
          · cases h
            obtain ⟨t, ht⟩ := hw.s.conns srv.sk hm fd (List.mem_of_mem_head? hhead)
            exact hasConn_of_cF4 ht

/-! ### opening a connection -/

theorem sk_addSock_st (s : St) (pw : List Nat) (v : VSock) (hv : v.fd = s.nextFd) :
    ({ s with nextFd := s.nextFd + 1, pendingWl := pw, socks := s.socks ++ [v] } : St).sk = s.sk.addSock := by
  unfold St.sk Sk.addSock
  simp only [List.map_append, List.map_cons, List.map_nil, hv]

theorem sk_addConn_st (s : St) (c : Conn) (hq : c.queries = []) (hu : c.unlinked = false) :
    (({ s with conns := s.conns ++ [c] } : St).modServer c.srv fun v =>
        { v with conns := if c.tcp then v.conns ++ [c.fd] else c.fd :: v.conns,
                 tcpConn := if c.tcp then some c.fd else v.tcpConn }).sk = s.sk.addConn c.fd c.srv c.tcp := by
  rw [sk_modServer _ _ _ (fun v => { v with conns := (if c.tcp then v.conns ++ [c.fd] else c.fd :: v.conns), tcpConn := (if c.tcp then some c.fd else v.tcpConn) }) (fun _ => rfl)]
  unfold Sk.addConn St.sk
  simp only [List.map_append, List.map_cons, List.map_nil]
  unfold Conn.sk
  rw [hq, hu]

/-- result of `ares_open_connection`: an ordinary step; on success the new connection is linked -/
theorem sqOpen_ok {d} {s : St} (q : Query) (srv : Server) (hw : Wf s) (hd : DebtOk none d s.sk) :
    Mid d s (sqOpen s q srv).2 ∧ ∀ fd, (sqOpen s q srv).1 = .ok fd → (sqOpen s q srv).2.sk.hasConn fd false := by
  unfold sqOpen
  simp only
  have hsk0 := sk_fault s "socket"
  generalize s.fault "socket" = r0 at hsk0 ⊢
  obtain ⟨f0, s0⟩ := r0
  simp only at hsk0 ⊢
  have hnf : s0.nextFd = s.sk.nextFd := by rw [← hsk0]; rfl
  split
  · exact ⟨Mid.of_sk_eq hw hd (by simp [hsk0]), fun fd h => by cases h⟩
  · -- the socket exists from here on
    have hskA := sk_addSock_st s0 (if q.usingTcp = true then [] else s0.pendingWl)
      { fd := s0.nextFd, tcp := q.usingTcp, wl := if q.usingTcp = true then s0.pendingWl else [] } rfl
    rw [hsk0] at hskA
    generalize ({ s0 with nextFd := s0.nextFd + 1, pendingWl := (if q.usingTcp = true then [] else s0.pendingWl), socks := s0.socks ++ [({ fd := s0.nextFd, tcp := q.usingTcp, wl := (if q.usingTcp = true then s0.pendingWl else []) } : VSock)] } : St) = sA
      at hskA ⊢
    have hmA : ∀ s' : St, s'.sk = sA.sk → Mid d s s' := fun s' h' =>
      ⟨by unfold Wf; rw [h', hskA]; exact wf_addSock hw, by rw [h', hskA]; exact debt_addSock hd,
       by rw [h', hskA]; exact step_addSock⟩
    have hskB : ∀ (e : String) (f : VSock → VSock), (∀ v, (f v).fd = v.fd) →
        (((sA.emit e).slog s0.nextFd "open").modSock s0.nextFd f).sk = sA.sk := by
      intro e f hf; rw [sk_modSock _ _ _ hf]; rfl
    generalize hB : (((sA.emit s!"sock({s0.nextFd},{if q.usingTcp = true then "tcp" else "udp"},4)").slog s0.nextFd "open").modSock
        s0.nextFd fun v => { v with peer := srv.addr, port := if q.usingTcp = true then srv.tcpPort else srv.udpPort }) = sB
    have hskB' : sB.sk = sA.sk := by rw [← hB]; exact hskB _ _ (fun _ => rfl)
    have hsk1 := sk_fault sB "connect"
    generalize sB.fault "connect" = r1 at hsk1 ⊢
    obtain ⟨f1, s1⟩ := r1
    simp only at hsk1 ⊢
    have hskC : (match f1 with
        | some _ => (s1.slog s0.nextFd "connect").emit
            s!"conn!({s0.nextFd},{srv.addr}#{if q.usingTcp = true then srv.tcpPort else srv.udpPort})"
        | none => (s1.slog s0.nextFd "connect").emit
            s!"conn({s0.nextFd},{srv.addr}#{if q.usingTcp = true then srv.tcpPort else srv.udpPort})").sk = sA.sk := by
      split <;> simp [hsk1, hskB']
    generalize (match f1 with
        | some _ => (s1.slog s0.nextFd "connect").emit
            s!"conn!({s0.nextFd},{srv.addr}#{if q.usingTcp = true then srv.tcpPort else srv.udpPort})"
        | none => (s1.slog s0.nextFd "connect").emit
            s!"conn({s0.nextFd},{srv.addr}#{if q.usingTcp = true then srv.tcpPort else srv.udpPort})") = sC at hskC ⊢
    have closeSk : ∀ sX : St, sX.sk = sA.sk →
        (((sX.modSock s0.nextFd fun v => { v with isOpen := false }).emit s!"close({s0.nextFd})").slog
          s0.nextFd "close").sk = sA.sk := by
      intro sX hX
      simp only [sk_slog, sk_emit]
      rw [sk_modSock]
      · exact hX
      · intro; rfl
    split
    · exact ⟨hmA _ (closeSk sC hskC), fun fd h => by cases h⟩
    · have hsk2 := sk_fault sC "getsockname"
      generalize sC.fault "getsockname" = r2 at hsk2 ⊢
      obtain ⟨f2, s2⟩ := r2
      simp only at hsk2 ⊢
      split
      · exact ⟨hmA _ (closeSk s2 (hsk2.trans hskC)), fun fd h => by cases h⟩
      · -- success
        have hskD := sk_addConn_st s2
          { fd := s0.nextFd, srv := srv.id, tcp := q.usingTcp, selfIp := s2.selfVariant } rfl rfl
        simp only at hskD
        rw [hsk2, hskC, hskA] at hskD
        have hfin : ((({ s2 with conns := s2.conns ++ [({ fd := s0.nextFd, srv := srv.id, tcp := q.usingTcp,
              selfIp := s2.selfVariant } : Conn)] } : St).modServer srv.id fun v =>
            { v with conns := if q.usingTcp = true then v.conns ++ [s0.nextFd] else s0.nextFd :: v.conns,
                     tcpConn := if q.usingTcp = true then some s0.nextFd else v.tcpConn }).notify s0.nextFd true
              q.usingTcp).sk = s.sk.addSock.addConn s0.nextFd srv.id q.usingTcp := by
          rw [sk_notify]; exact hskD
        have hwA : WfS s.sk.addSock none := wf_addSock hw
        have hwD : WfS (s.sk.addSock.addConn s0.nextFd srv.id q.usingTcp) none := by
          refine wf_addConn hwA ?_ ?_ ?_
          · show s0.nextFd < s.sk.nextFd + 1; omega
          · show s0.nextFd ∈ s.sk.socks ++ [s.sk.nextFd]
            rw [hnf]; exact List.mem_append.mpr (Or.inr (List.mem_singleton.mpr rfl))
          · intro c hc
            have := hw.c.lt c hc
            show c.1 ≠ s0.nextFd
            omega
        refine ⟨⟨by unfold Wf; rw [hfin]; exact hwD, by rw [hfin]; exact debt_addConn (debt_addSock hd),
          by rw [hfin]; exact step_addSock.trans step_addConn⟩, fun fd h => ?_⟩
        have : fd = s0.nextFd := by injection h with h; exact h.symm
        rw [this, hfin]; exact hasConn_addConn

end Cares.Chan
