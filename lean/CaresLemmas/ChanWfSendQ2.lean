import CaresLemmas.ChanWfSendQ
/-!
# C01 — the pieces of `ares_send_query`: what each does to the skeleton
-/
namespace Cares.Chan

/-! ### server choice -/

theorem mem_insertServer {v x : Server} {l : List Server} : x ∈ insertServer v l → x = v ∨ x ∈ l := by
  induction l with
  | nil => intro h; exact Or.inl (List.mem_singleton.mp h)
  | cons y r ih =>
    unfold insertServer
    split
    · intro h
      rcases List.mem_cons.mp h with h | h
      · exact Or.inl h
      · exact Or.inr h
    · intro h
      rcases List.mem_cons.mp h with h | h
      · exact Or.inr (h ▸ List.mem_cons_self)
      · rcases ih h with h | h
        · exact Or.inl h
        · exact Or.inr (List.mem_cons_of_mem _ h)

theorem mem_foldl_insertServer (l acc : List Server) {x : Server}
    (h : x ∈ l.foldl (fun acc v => insertServer v acc) acc) : x ∈ l ∨ x ∈ acc := by
  induction l generalizing acc with
  | nil => exact Or.inr h
  | cons y r ih =>
    rcases ih _ h with h | h
    · exact Or.inl (List.mem_cons_of_mem _ h)
    · rcases mem_insertServer h with h | h
      · exact Or.inl (h ▸ List.mem_cons_self)
      · exact Or.inr h

theorem mem_sortedServers {s : St} {x : Server} (h : x ∈ s.sortedServers) : x ∈ s.servers := by
  rcases mem_foldl_insertServer _ _ h with h | h
  · exact h
  · cases h

theorem sqPick_sk (s : St) (reqSrv : Option Nat) : (sqPick s reqSrv).2.sk = s.sk := by
  unfold sqPick
  split
  · rfl
  · split
    · simp only
      split
      · rfl
      · exact sk_draw1 s
    · rfl

theorem sqPick_mem {s : St} {reqSrv : Option Nat} {srv : Server} (h : (sqPick s reqSrv).1 = some srv) :
    srv ∈ s.servers := by
  unfold sqPick at h
  split at h
  · exact List.mem_of_find?_eq_some h
  · split at h
    · simp only at h
      split at h
      · cases h
      · exact mem_sortedServers (List.mem_of_getElem? h)
    · exact mem_sortedServers (List.mem_of_mem_head? h)

/-! ### an existing connection -/

theorem hasConn_of_cF4 {a : Sk} {fd v : Nat} {u t : Bool} (h : (fd, u, v, t) ∈ a.cF4) : a.hasConn fd u := by
  obtain ⟨c, hc, he⟩ := mem_cF4.mp h
  simp only [Prod.mk.injEq] at he
  exact ⟨c.queries, mem_cFUQ.mpr ⟨c, hc, by rw [he.1, he.2.1]⟩⟩

theorem sqExisting_hasConn {s : St} {q : Query} {srv : Server} {fd : Nat} (hw : Wf s) (hsrv : srv ∈ s.servers)
    (h : sqExisting s q srv = some fd) : s.sk.hasConn fd false := by
  have hm : srv.sk ∈ s.sk.servers := List.mem_map.mpr ⟨srv, hsrv, rfl⟩
  unfold sqExisting at h
  split at h
  · exact hasConn_of_cF4 (hw.s.tcp srv.sk hm fd h)
  · split at h
    · cases h
    · rename_i fd' hhead
      split at h
      · cases h
      · split at h
        · cases h
        · split at h
          · cases h
          · cases h
            obtain ⟨t, ht⟩ := hw.s.conns srv.sk hm fd (List.mem_of_mem_head? hhead)
            exact hasConn_of_cF4 ht

/-! ### opening a connection -/

theorem sk_addSock_st (s : St) (pw : List Nat) (v : VSock) (hv : v.fd = s.nextFd) :
    ({ s with nextFd := s.nextFd + 1, pendingWl := pw, socks := s.socks ++ [v] } : St).sk = s.sk.addSock := by
  unfold St.sk Sk.addSock
  simp only [List.map_append, List.map_cons, List.map_nil, hv]

theorem sk_addConn_st (s : St) (c : Conn) (hq : c.queries = []) (hu : c.unlinked = false) :
    (({ s with conns := s.conns ++ [c] } : St).modServer c.srv fun v =>
        { v with conns := if c.tcp then v.conns ++ [c.fd] else c.fd :: v.conns,
                 tcpConn := if c.tcp then some c.fd else v.tcpConn }).sk = s.sk.addConn c.fd c.srv c.tcp := by
  rw [sk_modServer _ _ _ (fun v => { v with conns := (if c.tcp then v.conns ++ [c.fd] else c.fd :: v.conns), tcpConn := (if c.tcp then some c.fd else v.tcpConn) }) (fun _ => rfl)]
  unfold Sk.addConn St.sk
  simp only [List.map_append, List.map_cons, List.map_nil]
  unfold Conn.sk
  rw [hq, hu]

theorem sk_sqOpenA (s : St) (q : Query) (srv : Server) : (sqOpenA s q srv).sk = s.sk.addSock := by
  unfold sqOpenA
  simp only
  rw [sk_modSock]
  · simp only [sk_slog, sk_emit]
    exact sk_addSock_st s _ _ rfl
  · intro; rfl

theorem sk_sqOpenC (s : St) (q : Query) (srv : Server) (fd : Nat) : (sqOpenC s q srv fd).2.sk = s.sk := by
  unfold sqOpenC
  simp only
  split <;> rfl

theorem sk_sqClose (s : St) (fd : Nat) : (sqClose s fd).sk = s.sk := by
  unfold sqClose
  simp only [sk_slog, sk_emit]
  rw [sk_modSock]; intro; rfl

theorem sk_sqOpenD (s : St) (q : Query) (srv : Server) (fd : Nat) :
    (sqOpenD s q srv fd).sk = s.sk.addConn fd srv.id q.usingTcp := by
  unfold sqOpenD
  simp only
  rw [sk_notify]
  exact sk_addConn_st s { fd := fd, srv := srv.id, tcp := q.usingTcp, selfIp := s.selfVariant } rfl rfl

/-- result of `ares_open_connection`: an ordinary step; on success the new connection is linked -/
theorem sqOpen_ok {d} {s : St} (q : Query) (srv : Server) (hw : Wf s) (hd : DebtOk none d s.sk)
    (hsrv : srv ∈ s.servers) :
    Mid d s (sqOpen s q srv).2 ∧ ∀ fd, (sqOpen s q srv).1 = .ok fd → (sqOpen s q srv).2.sk.hasConn fd false := by
  unfold sqOpen
  simp only
  have hsk0 := sk_fault s "socket"
  generalize s.fault "socket" = r0 at hsk0 ⊢
  obtain ⟨f0, s0⟩ := r0
  simp only at hsk0 ⊢
  have hnf : s0.nextFd = s.sk.nextFd := by rw [← hsk0]; rfl
  split
  · exact ⟨Mid.of_sk_eq hw hd (by simp [hsk0]), fun fd h => by cases h⟩
  · have hskA := sk_sqOpenA s0 q srv
    rw [hsk0] at hskA
    generalize sqOpenA s0 q srv = sA at hskA ⊢
    have hmA : ∀ s' : St, s'.sk = sA.sk → Mid d s s' := fun s' h' =>
      ⟨by unfold Wf; rw [h', hskA]; exact wf_addSock hw, by rw [h', hskA]; exact debt_addSock hd,
       by rw [h', hskA]; exact step_addSock⟩
    -- the tail: getsockname, then the connection object
    have tail : ∀ sC : St, sC.sk = sA.sk → Mid d s (sqOpenT sC q srv s0.nextFd).2 ∧
        ∀ fd, (sqOpenT sC q srv s0.nextFd).1 = .ok fd → (sqOpenT sC q srv s0.nextFd).2.sk.hasConn fd false := by
      intro sC hskC
      unfold sqOpenT
      have hsk2 := sk_fault sC "getsockname"
      generalize sC.fault "getsockname" = r2 at hsk2 ⊢
      obtain ⟨f2, s2⟩ := r2
      simp only at hsk2 ⊢
      split
      · exact ⟨hmA _ ((sk_sqClose s2 _).trans (hsk2.trans hskC)), fun fd h => by cases h⟩
      · have hfin : (sqOpenD s2 q srv s0.nextFd).sk = s.sk.addSock.addConn s0.nextFd srv.id q.usingTcp := by
          rw [sk_sqOpenD, hsk2, hskC, hskA]
        have hwA : WfS s.sk.addSock none := wf_addSock hw
        have hwD : WfS (s.sk.addSock.addConn s0.nextFd srv.id q.usingTcp) none := by
          refine wf_addConn hwA ?_ ?_ ?_ ⟨srv.sk, List.mem_map.mpr ⟨srv, hsrv, rfl⟩, rfl⟩
          · show s0.nextFd < s.sk.nextFd + 1; omega
          · show s0.nextFd ∈ s.sk.socks ++ [s.sk.nextFd]
            rw [hnf]; exact List.mem_append.mpr (Or.inr (List.mem_singleton.mpr rfl))
          · intro c hc
            have := hw.c.lt c hc
            show c.1 ≠ s0.nextFd
            omega
        refine ⟨⟨by unfold Wf; rw [hfin]; exact hwD, by rw [hfin]; exact debt_addConn (debt_addSock hd),
          by rw [hfin]; exact step_addSock.trans step_addConn⟩, fun fd h => ?_⟩
        have : fd = s0.nextFd := by injection h with h; exact h.symm
        rw [this, hfin]; exact hasConn_addConn
    have hskC := sk_sqOpenC sA q srv s0.nextFd
    generalize sqOpenC sA q srv s0.nextFd = rC at hskC ⊢
    obtain ⟨f1, sC⟩ := rC
    simp only at hskC ⊢
    cases f1 with
    | none =>
      simp only [Bool.false_eq_true, ↓reduceIte]
      exact tail sC hskC
    | some e1 =>
      simp only
      split
      · exact ⟨hmA _ ((sk_sqClose sC _).trans hskC), fun fd h => by cases h⟩
      · exact tail sC hskC

/-! ### the write -/

theorem sk_ite_pop8 (s : St) (p : Prop) [Decidable p] : (if p then s.pop8 else s).sk = s.sk := by
  split
  · exact sk_pop8 s
  · rfl

theorem sk_sqPrep (s : St) (q : Query) (srv : Server) (key fd : Nat) : (sqPrep s q srv key fd).1.sk = s.sk := by
  unfold sqPrep
  simp only
  rw [sk_set_writeLog, sk_modConn_same, sk_modQuery_same, sk_modServer_same]
  · exact sk_ite_pop8 s _
  all_goals (intro; rfl)

theorem sqPrep_q (s : St) (q : Query) (srv : Server) (key fd : Nat) :
    (sqPrep s q srv key fd).2.qid = q.qid ∧ (sqPrep s q srv key fd).2.usingTcp = q.usingTcp := ⟨rfl, rfl⟩

/-- the write leaves the skeleton alone -/
theorem sqWrite_sk {go} (hgo : GoOk go) {d} {s : St} {fd : Nat} (hw : Wf s) (hd : DebtOk none d s.sk)
    (hl : s.sk.liveConn fd) : (sqWrite go s fd).2.outOfFuel = true ∨ (sqWrite go s fd).2.sk = s.sk := by
  unfold sqWrite
  simp only
  split
  · exact Or.inr rfl
  · split
    · exact Or.inr rfl
    · rcases hgo.2 d (.flush fd) s ⟨hw, hl, hd⟩ with hoof | hg
      · exact Or.inl hoof
      · exact Or.inr hg.post

/-! ### the query is put on the connection -/

theorem sk_attach_st (s' : St) (key fd : Nat) (oldc : Option Nat) (f1 f3 : Conn → Conn) (f2 : Query → Query)
    (h1 : ∀ c, (f1 c).sk = { c.sk with queries := c.sk.queries.erase key })
    (h2 : ∀ q, (f2 q).sk = { q.sk with conn := some fd })
    (h3 : ∀ c, (f3 c).sk = { c.sk with queries := c.sk.queries.erase key ++ [key] }) :
    (({ ((match oldc with
          | some old => ({ s' with byTimeout := s'.byTimeout.erase key } : St).modConn old f1
          | none => { s' with byTimeout := s'.byTimeout.erase key }).modQuery key f2) with
        pendingOrder := s'.pendingOrder.erase key ++ [key] } : St).modConn fd f3).sk =
      s'.sk.attach key fd oldc := by
  rw [sk_modConn _ _ _ (fun c => { c with queries := c.queries.erase key ++ [key] }) h3]
  unfold Sk.attach
  congr 1
  have e1 : ∀ (X : St) (po : List Nat), ({ X with pendingOrder := po } : St).sk = { X.sk with pendingOrder := po } :=
    fun _ _ => rfl
  rw [e1, sk_modQuery _ _ _ (fun e => { e with conn := some fd }) h2]
  unfold Sk.attach2
  cases oldc with
  | none => rfl
  | some old =>
    simp only
    rw [sk_modConn _ _ _ (fun c => { c with queries := c.queries.erase key }) h1]
    rfl

theorem sk_sqAttachSt (s : St) (q : Query) (srv : Server) (key fd : Nat) :
    (sqAttachSt s q srv key fd).sk = s.sk.attach key fd q.conn := by
  unfold sqAttachSt
  simp only
  -- the deadline computation only draws a random number
  generalize hdl : (if q.tryCount / s.servers.length > 0 then _ else _ : Deadline × St) = r
  have hr : r.2.sk = s.sk := by
    rw [← hdl]
    split
    · exact sk_draw2 s
    · rfl
  obtain ⟨dl, s'⟩ := r
  simp only at hr ⊢
  rw [← hr]
  cases q.conn with
  | none =>
    exact sk_attach_st s' key fd none (fun c => { c with queries := c.queries.erase key })
      (fun c => { c with queries := c.queries.erase key ++ [key], total := c.total + 1 })
      (fun q0 => { q0 with ts := s'.now, deadline := dl, conn := some fd, inConnList := true })
      (fun _ => rfl) (fun _ => rfl) (fun _ => rfl)
  | some old =>
    exact sk_attach_st s' key fd (some old) (fun c => { c with queries := c.queries.erase key })
      (fun c => { c with queries := c.queries.erase key ++ [key], total := c.total + 1 })
      (fun q0 => { q0 with ts := s'.now, deadline := dl, conn := some fd, inConnList := true })
      (fun _ => rfl) (fun _ => rfl) (fun _ => rfl)

/-! ### opening a connection does not touch the qid table -/

theorem byQid_notify (s : St) (fd : Nat) (r w : Bool) : (s.notify fd r w).byQid = s.byQid := by
  unfold St.notify
  split
  · rfl
  · simp only
    split <;> rfl

theorem byQid_sqOpenT (s : St) (q : Query) (srv : Server) (fd : Nat) : (sqOpenT s q srv fd).2.byQid = s.byQid := by
  unfold sqOpenT
  simp only
  split
  · rfl
  · unfold sqOpenD; simp only; rw [byQid_notify]; rfl

theorem byQid_sqOpenC (s : St) (q : Query) (srv : Server) (fd : Nat) : (sqOpenC s q srv fd).2.byQid = s.byQid := by
  unfold sqOpenC
  simp only
  split <;> rfl

theorem byQid_sqOpen (s : St) (q : Query) (srv : Server) : (sqOpen s q srv).2.byQid = s.byQid := by
  unfold sqOpen
  simp only
  split
  · rfl
  · have hC := byQid_sqOpenC (sqOpenA (s.fault "socket").2 q srv) q srv (s.fault "socket").2.nextFd
    generalize sqOpenC (sqOpenA (s.fault "socket").2 q srv) q srv (s.fault "socket").2.nextFd = rC at hC ⊢
    obtain ⟨f1, sC⟩ := rC
    simp only at hC ⊢
    have hA : (sqOpenA (s.fault "socket").2 q srv).byQid = s.byQid := rfl
    have hT := byQid_sqOpenT sC q srv (s.fault "socket").2.nextFd
    cases f1 with
    | none =>
      simp only [Bool.false_eq_true, ↓reduceIte]
      rw [hT, hC, hA]
    | some e1 =>
      simp only
      split
      · show sC.byQid = _; rw [hC, hA]
      · rw [hT, hC, hA]

end Cares.Chan
