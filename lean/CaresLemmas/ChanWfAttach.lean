import CaresLemmas.ChanWfConn
/-!
# C01 — a query is put on a connection (`ares_send_query`, after the write succeeded)
-/
namespace Cares.Chan

/-- the query leaves the by-timeout index and whatever connection list it was still in -/
def Sk.attach1 (a : Sk) (key : Nat) (oldc : Option Nat) : Sk :=
  match oldc with
  | some old => ({ a with byTimeout := a.byTimeout.erase key } : Sk).modC old fun c =>
      { c with queries := c.queries.erase key }
  | none => { a with byTimeout := a.byTimeout.erase key }

def Sk.attach2 (a : Sk) (key fd : Nat) (oldc : Option Nat) : Sk :=
  { (a.attach1 key oldc).modQ key fun e => { e with conn := some fd } with
    pendingOrder := a.pendingOrder.erase key ++ [key] }

/-- the skeleton of the state update at the end of `ares_send_query`; `oldc` is the connection the query
    still named (it may have been sent before and not yet been taken off) -/
def Sk.attach (a : Sk) (key fd : Nat) (oldc : Option Nat) : Sk :=
  (a.attach2 key fd oldc).modC fd fun c => { c with queries := c.queries.erase key ++ [key] }

/-- append `key` to the list of connection `fd` -/
def cfqPut (l : List (Nat × List Nat)) (fd key : Nat) : List (Nat × List Nat) :=
  l.map fun c => if c.1 == fd then (c.1, c.2.erase key ++ [key]) else c
def cfuqPut (l : List (Nat × Bool × List Nat)) (fd key : Nat) : List (Nat × Bool × List Nat) :=
  l.map fun c => if c.1 == fd then (c.1, c.2.1, c.2.2.erase key ++ [key]) else c

theorem mem_cfqPut {l : List (Nat × List Nat)} {fd key : Nat} {c : Nat × List Nat} :
    c ∈ cfqPut l fd key ↔ (c ∈ l ∧ c.1 ≠ fd) ∨ (c.1 = fd ∧ ∃ q, (fd, q) ∈ l ∧ c.2 = q.erase key ++ [key]) := by
  simp only [cfqPut, List.mem_map, beq_iff_eq]
  constructor
  · rintro ⟨q, hq, rfl⟩
    by_cases h : q.1 = fd
    · right; simp only [h, ↓reduceIte, true_and]; exact ⟨q.2, by rw [← h]; exact hq, rfl⟩
    · left; simp [h, hq]
  · rintro (⟨h1, h2⟩ | ⟨h1, q, hq, h2⟩)
    · exact ⟨c, h1, by rw [if_neg h2]⟩
    · refine ⟨(fd, q), hq, ?_⟩
      simp only [↓reduceIte]; rw [← h2, ← h1]

theorem cfqPut_fst (l : List (Nat × List Nat)) (fd key : Nat) : (cfqPut l fd key).map (·.1) = l.map (·.1) := by
  simp only [cfqPut, List.map_map]; apply List.map_congr_left; intro x _; simp only [Function.comp]; split <;> rfl

section
variable {a : Sk} {key fd : Nat} {oldc : Option Nat}

theorem attach1_qs : (a.attach1 key oldc).qs = a.qs := by cases oldc <;> rfl
theorem attach1_cFQ : (a.attach1 key oldc).cFQ = cfqErase a.cFQ oldc key := by
  cases oldc with
  | none => rfl
  | some old => exact cFQ_modC_queries _ old (·.erase key)
theorem attach1_cFUQ : (a.attach1 key oldc).cFUQ = cfuqErase a.cFUQ oldc key := by
  cases oldc with
  | none => rfl
  | some old => exact cFUQ_modC_queries _ old (·.erase key)
theorem attach1_conns_proj {β} (π : CSk → β) (hπ : ∀ (c : CSk) q, π { c with queries := q } = π c) :
    (a.attach1 key oldc).conns.map π = a.conns.map π := by
  cases oldc with
  | none => rfl
  | some old => exact proj_modC _ _ _ π (fun c => hπ c _)

theorem attach1_other :
    (a.attach1 key oldc).byQid = a.byQid ∧ (a.attach1 key oldc).all = a.all ∧
    (a.attach1 key oldc).listCopy = a.listCopy ∧ (a.attach1 key oldc).servers = a.servers ∧
    (a.attach1 key oldc).clients = a.clients ∧ (a.attach1 key oldc).socks = a.socks ∧
    (a.attach1 key oldc).nextKey = a.nextKey ∧ (a.attach1 key oldc).nextFd = a.nextFd ∧
    (a.attach1 key oldc).nextClient = a.nextClient ∧ (a.attach1 key oldc).reactSeq = a.reactSeq ∧
    (a.attach1 key oldc).pendingToks = a.pendingToks ∧ (a.attach1 key oldc).doneToks = a.doneToks ∧
    (a.attach1 key oldc).faults = a.faults ∧ (a.attach1 key oldc).byTimeout = a.byTimeout.erase key := by
  cases oldc <;> exact ⟨rfl, rfl, rfl, rfl, rfl, rfl, rfl, rfl, rfl, rfl, rfl, rfl, rfl, rfl⟩

theorem attach_qs_proj {β} (π : QSk → β) (hπ : ∀ (e : QSk) v, π { e with conn := v } = π e) :
    (a.attach key fd oldc).qs.map π = a.qs.map π := by
  show (Sk.modQ (a.attach1 key oldc) key _).qs.map π = _
  rw [proj_modQ _ _ _ π (fun e => hπ e _), attach1_qs]

theorem attach_conns_proj {β} (π : CSk → β) (hπ : ∀ (c : CSk) q, π { c with queries := q } = π c) :
    (a.attach key fd oldc).conns.map π = a.conns.map π := by
  unfold Sk.attach
  rw [proj_modC _ _ _ π (fun c => hπ c _)]
  exact attach1_conns_proj π hπ

theorem attach_qK : (a.attach key fd oldc).qK = a.qK := attach_qs_proj _ (fun _ _ => rfl)
theorem attach_qKQ : (a.attach key fd oldc).qKQ = a.qKQ := attach_qs_proj _ (fun _ _ => rfl)
theorem attach_qKO : (a.attach key fd oldc).qKO = a.qKO := attach_qs_proj _ (fun _ _ => rfl)
theorem attach_cF4 : (a.attach key fd oldc).cF4 = a.cF4 := attach_conns_proj _ (fun _ _ => rfl)

theorem attach_other :
    (a.attach key fd oldc).byQid = a.byQid ∧ (a.attach key fd oldc).all = a.all ∧
    (a.attach key fd oldc).listCopy = a.listCopy ∧ (a.attach key fd oldc).servers = a.servers ∧
    (a.attach key fd oldc).clients = a.clients ∧ (a.attach key fd oldc).socks = a.socks ∧
    (a.attach key fd oldc).nextKey = a.nextKey ∧ (a.attach key fd oldc).nextFd = a.nextFd ∧
    (a.attach key fd oldc).nextClient = a.nextClient ∧ (a.attach key fd oldc).reactSeq = a.reactSeq ∧
    (a.attach key fd oldc).pendingToks = a.pendingToks ∧ (a.attach key fd oldc).doneToks = a.doneToks ∧
    (a.attach key fd oldc).faults = a.faults ∧ (a.attach key fd oldc).byTimeout = a.byTimeout.erase key ∧
    (a.attach key fd oldc).pendingOrder = a.pendingOrder.erase key ++ [key] := by
  obtain ⟨h1, h2, h3, h4, h5, h6, h7, h8, h9, h10, h11, h12, h13, h14⟩ := attach1_other (a := a) (key := key) (oldc := oldc)
  exact ⟨h1, h2, h3, h4, h5, h6, h7, h8, h9, h10, h11, h12, h13, h14, rfl⟩

theorem attach_idx : (a.attach key fd oldc).idx = a.idx := by unfold Sk.idx; rw [attach_other.1]

theorem attach_qKC :
    (a.attach key fd oldc).qKC = a.qKC.map fun p => if p.1 == key then (p.1, some fd) else p := by
  show (Sk.modQ (a.attach1 key oldc) key fun e => { e with conn := some fd }).qKC = _
  rw [qKC_modQ_conn]
  unfold Sk.qKC; rw [attach1_qs]

theorem attach_cFQ : (a.attach key fd oldc).cFQ = cfqPut (cfqErase a.cFQ oldc key) fd key := by
  unfold Sk.attach
  rw [cFQ_modC_queries _ fd (fun l => l.erase key ++ [key])]
  show cfqPut (a.attach1 key oldc).cFQ fd key = _
  rw [attach1_cFQ]

theorem attach_cFUQ : (a.attach key fd oldc).cFUQ = cfuqPut (cfuqErase a.cFUQ oldc key) fd key := by
  unfold Sk.attach
  rw [cFUQ_modC_queries _ fd (fun l => l.erase key ++ [key])]
  show cfuqPut (a.attach1 key oldc).cFUQ fd key = _
  rw [attach1_cFUQ]

end

/-! ### the invariant after `attach` -/

section
variable {a : Sk} {key fd : Nat} {e : QSk}

theorem wf_attach (h : WfS a none) (hq : a.q? key = some e) (hk : key ∈ a.idx) (hfd : ∃ l, (fd, l) ∈ a.cFQ) :
    WfS (a.attach key fd e.conn) none := by
  have hb := wf_rfc h (Or.inl rfl) hq
  have hnl := rfc_not_listed h hq
  rw [rfc_cFQ hq] at hnl
  have hbc := hb.c
  rw [rfc_cFQ hq, rfc_qKC hq, rfc_idx, rfc_nextFd, rfc_socks] at hbc
  have hkc := (Sk.q?_mem_proj hq).1
  obtain ⟨hbyQ, hall, hlc, hsrv, hcl, hsock, hnk, hnfd, hncl, hrs, hpt, hdt, hflt, hbt, hpo⟩ :=
    attach_other (a := a) (key := key) (fd := fd) (oldc := e.conn)
  -- membership in the new (key, conn) projection
  have mC : ∀ p : Nat × Option Nat, p ∈ (a.attach key fd e.conn).qKC ↔
      (p ∈ a.qKC ∧ p.1 ≠ key) ∨ (p.2 = some fd ∧ p.1 = key) := by
    intro p
    rw [attach_qKC, mem_map_ifkey]
    constructor
    · rintro (h1 | ⟨h1, h2, _⟩)
      · exact Or.inl h1
      · exact Or.inr ⟨h1, h2⟩
    · rintro (h1 | ⟨h1, h2⟩)
      · exact Or.inl h1
      · exact Or.inr ⟨h1, h2, e.conn, hkc⟩
  -- an old entry for another key is an entry of the intermediate state too
  have mB : ∀ p : Nat × Option Nat, p ∈ a.qKC → p.1 ≠ key →
      p ∈ a.qKC.map (fun p => if p.1 == key then (p.1, (none : Option Nat)) else p) :=
    fun p hp hne => mem_map_ifkey.mpr (Or.inl ⟨hp, hne⟩)
  have mB' : ∀ p : Nat × Option Nat, p ∈ a.qKC.map (fun p => if p.1 == key then (p.1, (none : Option Nat)) else p) →
      p.2 ≠ none → p ∈ a.qKC ∧ p.1 ≠ key := by
    intro p hp hne
    rcases mem_map_ifkey.mp hp with h1 | ⟨h1, _⟩
    · exact h1
    · exact absurd h1 hne
  refine ⟨by rw [attach_qK, hnk]; exact h.q, by rw [attach_qKQ, hbyQ, hall, hlc]; exact h.i, ?_, ?_,
    by rw [attach_cF4, hsrv]; exact h.s, by rw [hcl, hncl]; exact h.k,
    by rw [attach_qKO, attach_idx, hcl, hpt, hdt, hrs]; exact h.tok⟩
  · -- by-timeout group
    rw [attach_idx, hbt, hpo]
    have ht := h.t
    refine ⟨ht.btNodup.erase key, fun k hk' => ?_, ?_, fun k hk' => ?_⟩
    · have := (List.Nodup.mem_erase_iff ht.btNodup).mp hk'
      obtain ⟨h1, fd', h2⟩ := ht.btOk k this.2
      exact ⟨h1, fd', (mC _).mpr (Or.inl ⟨h2, this.1⟩)⟩
    · rw [List.nodup_append]
      refine ⟨ht.poNodup.erase key, by simp, fun x hx y hy => ?_⟩
      rw [List.mem_singleton.mp hy]
      exact ((List.Nodup.mem_erase_iff ht.poNodup).mp hx).1
    · rcases List.mem_append.mp hk' with hk' | hk'
      · have := (List.Nodup.mem_erase_iff ht.poNodup).mp hk'
        obtain ⟨h1, ⟨fd', h2⟩, h3⟩ := ht.poOk k this.2
        exact ⟨h1, ⟨fd', (mC _).mpr (Or.inl ⟨h2, this.1⟩)⟩, fun hm => h3 (List.mem_of_mem_erase hm)⟩
      · rw [List.mem_singleton.mp hk']
        exact ⟨hk, ⟨fd, (mC _).mpr (Or.inr ⟨rfl, rfl⟩)⟩,
          fun hm => ((List.Nodup.mem_erase_iff ht.btNodup).mp hm).1 rfl⟩
  · -- connection group
    rw [attach_idx, attach_cFQ, hnfd, hsock]
    -- the descriptor is live in the intermediate state
    obtain ⟨l0, hl0⟩ := hfd
    have hfdL : ∃ l, (fd, l) ∈ cfqErase a.cFQ e.conn key := by
      by_cases hcf : some fd = e.conn
      · exact ⟨l0.erase key, mem_cfqErase.mpr (Or.inr ⟨hcf, l0, hl0, rfl⟩)⟩
      · exact ⟨l0, mem_cfqErase.mpr (Or.inl ⟨hl0, hcf⟩)⟩
    have key' : ∀ c' ∈ cfqPut (cfqErase a.cFQ e.conn key) fd key,
        ∃ c ∈ cfqErase a.cFQ e.conn key, c'.1 = c.1 ∧
          (c'.2 = c.2 ∨ (c'.1 = fd ∧ c'.2 = c.2.erase key ++ [key])) := by
      intro c' hc'
      rcases mem_cfqPut.mp hc' with ⟨h1, _⟩ | ⟨h1, q, hq', h2⟩
      · exact ⟨c', h1, rfl, Or.inl rfl⟩
      · exact ⟨(fd, q), hq', h1, Or.inr ⟨h1, h2⟩⟩
    constructor
    · rw [cfqPut_fst]; exact hbc.nodup
    · intro c' hc'; obtain ⟨c, hcm, h1, _⟩ := key' c' hc'; rw [h1]; exact hbc.lt c hcm
    · intro c' hc'; obtain ⟨c, hcm, h1, _⟩ := key' c' hc'; rw [h1]; exact hbc.sock c hcm
    · intro c' hc'
      obtain ⟨c, hcm, _, h2 | ⟨_, h2⟩⟩ := key' c' hc'
      · rw [h2]; exact hbc.qNodup c hcm
      · rw [h2, List.nodup_append]
        refine ⟨(hbc.qNodup c hcm).erase key, by simp, fun x hx y hy => ?_⟩
        rw [List.mem_singleton.mp hy]
        exact ((List.Nodup.mem_erase_iff (hbc.qNodup c hcm)).mp hx).1
    · intro c' hc' x hx
      obtain ⟨c, hcm, h1, h2⟩ := key' c' hc'
      -- `x` other than `key` comes from the intermediate list
      have old : x ∈ c.2 → x ∈ a.idx ∧ (x, some c'.1) ∈ (a.attach key fd e.conn).qKC := by
        intro hxc
        obtain ⟨hi, hm⟩ := hbc.cq c hcm x hxc
        have := mB' _ hm (by simp)
        exact ⟨hi, (mC _).mpr (Or.inl ⟨by rw [h1]; exact this.1, this.2⟩)⟩
      rcases h2 with h2 | ⟨h2f, h2⟩
      · rw [h2] at hx; exact old hx
      · rw [h2] at hx
        rcases List.mem_append.mp hx with hx | hx
        · exact old (List.mem_of_mem_erase hx)
        · rw [List.mem_singleton.mp hx]
          exact ⟨hk, (mC _).mpr (Or.inr ⟨by rw [h2f], rfl⟩)⟩
    · intro p hp fd' hfd'
      rcases (mC p).mp hp with ⟨h1, h2⟩ | ⟨h1, h2⟩
      · obtain ⟨c, hcm, hcfd, hor⟩ := hbc.qc p (mB p h1 h2) fd' hfd'
        have hin : p.1 ∈ c.2 := by
          rcases hor with hin | hh
          · exact hin
          · cases hh
        by_cases hcf : c.1 = fd
        · refine ⟨(fd, c.2.erase key ++ [key]), mem_cfqPut.mpr (Or.inr ⟨rfl, c.2, by rw [← hcf]; exact hcm, rfl⟩),
            by rw [← hcfd, hcf], Or.inl ?_⟩
          exact List.mem_append.mpr (Or.inl ((List.mem_erase_of_ne h2).mpr hin))
        · exact ⟨c, mem_cfqPut.mpr (Or.inl ⟨hcm, hcf⟩), hcfd, Or.inl hin⟩
      · obtain ⟨l, hl⟩ := hfdL
        rw [h1] at hfd'
        have hff : fd' = fd := (Option.some.inj hfd').symm
        refine ⟨(fd, l.erase key ++ [key]), mem_cfqPut.mpr (Or.inr ⟨rfl, l, hl, rfl⟩), hff.symm, Or.inl ?_⟩
        rw [h2]; exact List.mem_append.mpr (Or.inr (List.mem_singleton.mpr rfl))

theorem step_attach {xf xi d} (hl : ∀ q, (fd, true, q) ∉ a.cFUQ) :
    StepS xf xi d a (a.attach key fd e.conn) := by
  obtain ⟨hbyQ, hall, hlc, hsrv, hcl, hsock, hnk, hnfd, hncl, hrs, hpt, hdt, hflt, hbt, hpo⟩ :=
    attach_other (a := a) (key := key) (fd := fd) (oldc := e.conn)
  refine StepS.of_same hflt hncl hnk attach_qKO attach_idx hcl hpt ?_ hdt hlc hall
  intro fd' q hm _
  rw [attach_cFUQ]
  have hne : fd' ≠ fd := fun he => hl q (he ▸ hm)
  -- image in the intermediate table
  have : ∃ q1, (fd', true, q1) ∈ cfuqErase a.cFUQ e.conn key ∧ ∀ x ∈ q1, x ∈ q := by
    by_cases hcf : some fd' = e.conn
    · exact ⟨q.erase key, mem_cfuqErase.mpr (Or.inr ⟨hcf, q, hm, rfl⟩), fun x hx => List.mem_of_mem_erase hx⟩
    · exact ⟨q, mem_cfuqErase.mpr (Or.inl ⟨hm, hcf⟩), fun _ hx => hx⟩
  obtain ⟨q1, hq1, hsub⟩ := this
  refine ⟨q1, ?_, hsub⟩
  unfold cfuqPut
  refine List.mem_map.mpr ⟨(fd', true, q1), hq1, ?_⟩
  have : ((fd', true, q1).1 == fd) = false := by simpa using hne
  simp only [this, Bool.false_eq_true, ↓reduceIte]

theorem debt_attach {x d} (hd : DebtOk x d a) : DebtOk x d (a.attach key fd e.conn) := by
  obtain ⟨hbyQ, hall, hlc, hsrv, hcl, hsock, hnk, hnfd, hncl, hrs, hpt, hdt, hflt, hbt, hpo⟩ :=
    attach_other (a := a) (key := key) (fd := fd) (oldc := e.conn)
  exact hd.congr hncl attach_qKO attach_idx hcl hpt

end

end Cares.Chan
