import CaresLemmas.LListOps
/-! Helper lemmas for the pointer-level `ares_llist` model, part 3: the heap-wide invariant under allocation,
    release, attach and detach. -/
namespace Cares.Dsa.LHeap

/-- replace the sequence of one list -/
def absSet (abs : Nat → Option (List Nat)) (L : Nat) (l : List Nat) : Nat → Option (List Nat) :=
  fun L' => if L' = L then some l else abs L'

/-- a node whose parent pointer is NULL is in no list -/
theorem GInv.not_member {h : LHeap} {abs : Nat → Option (List Nat)} (g : GInv h abs) (n : Nat)
    (hn : ∀ nd, h.nodes n = some nd → nd.parent = none) : ∀ L2 l2, abs L2 = some l2 → n ∉ l2 := by
  intro L2 l2 h2 hm
  obtain ⟨nd, e, p⟩ := (g.repr L2 l2 h2).node_of_mem n hm
  have := hn nd e
  rw [p] at this; cases this

/-- allocation of a node (`ares_malloc_zero`: all pointers NULL) -/
theorem ginv_alloc (h : LHeap) (abs : Nat → Option (List Nat)) (n : Nat) (g : GInv h abs) (hn : h.nodes n = none) :
    GInv (h.setNode n (some { prev := none, next := none, parent := none })) abs := by
  have hnm := g.not_member n (fun nd e => by rw [hn] at e; cases e)
  refine ⟨g.lists, ?_, ?_⟩
  · intro L l hl
    have r := g.repr L l hl
    refine ⟨r.hdr, r.nodup, ?_⟩
    intro i x hx
    have : x ≠ n := fun e => hnm L l hl (e ▸ List.mem_of_getElem? hx)
    rw [setNode_nodes, if_neg this]; exact r.link i x hx
  · intro x nd L hx hp
    rw [setNode_nodes] at hx
    by_cases hxn : x = n
    · rw [if_pos hxn] at hx; cases hx; cases hp
    · rw [if_neg hxn] at hx; exact g.owner x nd L hx hp

/-- release of a detached node -/
theorem ginv_free (h : LHeap) (abs : Nat → Option (List Nat)) (n : Nat) (g : GInv h abs)
    (hn : ∀ nd, h.nodes n = some nd → nd.parent = none) : GInv (h.setNode n none) abs := by
  have hnm := g.not_member n hn
  refine ⟨g.lists, ?_, ?_⟩
  · intro L l hl
    have r := g.repr L l hl
    refine ⟨r.hdr, r.nodup, ?_⟩
    intro i x hx
    have : x ≠ n := fun e => hnm L l hl (e ▸ List.mem_of_getElem? hx)
    rw [setNode_nodes, if_neg this]; exact r.link i x hx
  · intro x nd L hx hp
    rw [setNode_nodes] at hx
    by_cases hxn : x = n
    · rw [if_pos hxn] at hx; cases hx
    · rw [if_neg hxn] at hx; exact g.owner x nd L hx hp

theorem ginv_detach (h : LHeap) (abs : Nat → Option (List Nat)) (L : Nat) (l : List Nat) (j : Nat) (g : GInv h abs)
    (hl : abs L = some l) (hj : j < l.length) :
    GInv (detach h l[j]) (absSet abs L (l.eraseIdx j)) ∧
      (∀ nd, (detach h l[j]).nodes l[j] = some nd → nd.parent = none) := by
  obtain ⟨r', hlists, hframe, hself⟩ := detach_spec h L l j (g.repr L l hl) hj
  refine ⟨?_, fun nd e => by rw [hself] at e; cases e; rfl⟩
  refine ginv_update h _ abs L l (l.eraseIdx j) (fun y => y ∈ l) g hl hlists (fun y hy => hframe y hy)
    (fun y hy => Or.inl hy) r' ?_ (fun y hy hny => absurd hy hny)
  intro y hy
  by_cases hyj : y = l[j]
  · right; intro nd e; rw [hyj, hself] at e; cases e; rfl
  · left
    obtain ⟨i, hi, e⟩ := List.getElem_of_mem hy
    have hij : i ≠ j := fun hh => hyj (by subst hh; exact e.symm)
    rw [← e, List.mem_iff_getElem?]
    by_cases hlt : i < j
    · exact ⟨i, by rw [List.getElem?_eraseIdx, if_pos hlt, List.getElem?_eq_getElem hi]⟩
    · refine ⟨i - 1, ?_⟩
      rw [List.getElem?_eraseIdx, if_neg (by omega), show i - 1 + 1 = i by omega, List.getElem?_eq_getElem hi]

theorem ginv_attach_head (lp : Bool) (h : LHeap) (abs : Nat → Option (List Nat)) (L : Nat) (l : List Nat)
    (a : Option Nat) (n : Nat) (nd0 : LNode) (g : GInv h abs) (hl : abs L = some l) (hn : h.nodes n = some nd0)
    (hp : nd0.parent = none) : GInv (attachAt lp h L .head a n) (absSet abs L (n :: l)) := by
  have hnm := g.not_member n (fun nd e => by rw [hn] at e; cases e; exact hp)
  obtain ⟨r', hlists, hframe⟩ := attach_head_spec lp h L l a n nd0 (g.repr L l hl) hn (hnm L l hl)
  refine ginv_update h _ abs L l (n :: l) (fun y => y = n ∨ y ∈ l) g hl hlists ?_ ?_ r' ?_ ?_
  · intro y hy; exact hframe y (fun e => hy (Or.inl e)) (fun e => hy (Or.inr e))
  · intro y hy
    rcases hy with rfl | hy
    · exact Or.inr hnm
    · exact Or.inl hy
  · intro y hy
    left
    rcases hy with rfl | hy
    · exact List.mem_cons_self
    · exact List.mem_cons_of_mem _ hy
  · intro y hy _; exact List.mem_cons_of_mem _ hy

theorem ginv_attach_tail (lp : Bool) (h : LHeap) (abs : Nat → Option (List Nat)) (L : Nat) (l : List Nat)
    (a : Option Nat) (n : Nat) (nd0 : LNode) (g : GInv h abs) (hl : abs L = some l) (hn : h.nodes n = some nd0)
    (hp : nd0.parent = none) : GInv (attachAt lp h L .tail a n) (absSet abs L (l ++ [n])) := by
  have hnm := g.not_member n (fun nd e => by rw [hn] at e; cases e; exact hp)
  obtain ⟨r', hlists, hframe⟩ := attach_tail_spec lp h L l a n nd0 (g.repr L l hl) hn (hnm L l hl)
  refine ginv_update h _ abs L l (l ++ [n]) (fun y => y = n ∨ y ∈ l) g hl hlists ?_ ?_ r' ?_ ?_
  · intro y hy; exact hframe y (fun e => hy (Or.inl e)) (fun e => hy (Or.inr e))
  · intro y hy
    rcases hy with rfl | hy
    · exact Or.inr hnm
    · exact Or.inl hy
  · intro y hy
    left
    rcases hy with rfl | hy
    · simp
    · simp [hy]
  · intro y hy _; simp [hy]

theorem ginv_attach_before (h : LHeap) (abs : Nat → Option (List Nat)) (L : Nat) (l : List Nat) (j n : Nat)
    (nd0 : LNode) (g : GInv h abs) (hl : abs L = some l) (hj : j < l.length) (hj0 : 0 < j)
    (hn : h.nodes n = some nd0) (hp : nd0.parent = none) :
    GInv (attachAt true h L .before (some l[j]) n) (absSet abs L (l.insertIdx j n)) := by
  have hnm := g.not_member n (fun nd e => by rw [hn] at e; cases e; exact hp)
  obtain ⟨r', hlists, hframe⟩ := attach_before_spec h L l j n nd0 (g.repr L l hl) hj hj0 hn (hnm L l hl)
  have hmem : ∀ y, y = n ∨ y ∈ l → y ∈ l.insertIdx j n := by
    intro y hy
    have hp' : (l.insertIdx j n).Perm (n :: l) := List.perm_insertIdx n l (by omega)
    rw [hp'.mem_iff, List.mem_cons]; exact hy
  refine ginv_update h _ abs L l (l.insertIdx j n) (fun y => y = n ∨ y ∈ l) g hl hlists ?_ ?_ r' ?_ ?_
  · intro y hy; exact hframe y (fun e => hy (Or.inl e)) (fun e => hy (Or.inr e))
  · intro y hy
    rcases hy with rfl | hy
    · exact Or.inr hnm
    · exact Or.inl hy
  · intro y hy; exact Or.inl (hmem y hy)
  · intro y hy _; exact hmem y (Or.inr hy)

end Cares.Dsa.LHeap
