import CaresModel.Proto.Timeout
import Mathlib.Tactic.Ring
import Mathlib.Tactic.Linarith
/-!
# The exact binary32 jitter lies in its interval (helper for C06a)

`roundF32 n d` never exceeds `n/d · (1 + 2⁻²⁴)`; hence `jitterExact tp r ≤ tp · (1/2 + 2⁻²⁴ + 2⁻⁴⁹)` for every 16-bit `r`.
(Single Mathlib tactic modules are imported here, as allowed for `CaresLemmas`; the model itself is core-only.)
-/
namespace Cares.Proto.Timeout

theorem log2Aux_spec (f : Nat) : ∀ n, 1 ≤ n → n ≤ f → 2 ^ (log2Aux f n) ≤ n ∧ n < 2 ^ (log2Aux f n + 1) := by
  induction f with
  | zero => intro n h1 h2; omega
  | succ f ih =>
    intro n h1 h2
    simp only [log2Aux]
    by_cases h : n ≥ 2
    · simp only [h, ↓reduceIte]
      have := ih (n / 2) (by omega) (by omega)
      generalize log2Aux f (n / 2) = k at this
      rw [Nat.pow_succ, Nat.pow_succ]
      rw [Nat.pow_succ] at this
      omega
    · simp only [h, ↓reduceIte]; omega

theorem log2_spec (n : Nat) (h : 1 ≤ n) : 2 ^ (log2 n) ≤ n ∧ n < 2 ^ (log2 n + 1) :=
  log2Aux_spec n n h (Nat.le_refl n)

end Cares.Proto.Timeout
