import CaresModel.Proto.Timeout
import Mathlib.Tactic.Ring
import Mathlib.Tactic.Linarith
/-!
# The exact binary32 jitter lies in its interval (helper for C06a)

`log2_spec`, `floorLog2Ratio_spec` (the exponent brackets the ratio), `roundF32_le` (rounding to nearest adds at most the
relative error 2⁻²⁴), `mul_leRat`, `trunc_le`, `fr_le_one`, and the result `jitterExact_ok`:
`jitterExact tp r · 2⁴⁹ ≤ tp · (2²⁴+1)²` for every `tp` and every 16-bit `r`.
(Single Mathlib tactic modules — `ring`, `nlinarith` — are imported here, as allowed for `CaresLemmas`; the model is core-only.)
-/
namespace Cares.Proto.Timeout

theorem log2Aux_spec (f : Nat) : ∀ n, 1 ≤ n → n ≤ f → 2 ^ (log2Aux f n) ≤ n ∧ n < 2 ^ (log2Aux f n + 1) := by
  induction f with
  | zero => intro n h1 h2; omega
  | succ f ih =>
    intro n h1 h2
    simp only [log2Aux]
    by_cases h : n ≥ 2
    · simp only [h, ↓reduceIte]
      have := ih (n / 2) (by omega) (by omega)
      generalize log2Aux f (n / 2) = k at this
      rw [Nat.pow_succ, Nat.pow_succ]
      rw [Nat.pow_succ] at this
      omega
    · simp only [h, ↓reduceIte]; omega

theorem log2_spec (n : Nat) (h : 1 ≤ n) : 2 ^ (log2 n) ≤ n ∧ n < 2 ^ (log2 n + 1) :=
  log2Aux_spec n n h (Nat.le_refl n)

/-- `floorLog2Ratio n d = L` brackets the ratio: `2^L ≤ n/d < 2^(L+1)`, written without division -/
def Brackets (n d : Nat) (L : Int) : Prop :=
  if L ≥ 0 then d * 2 ^ L.toNat ≤ n ∧ n < d * 2 ^ (L.toNat + 1)
  else d ≤ n * 2 ^ (-L).toNat ∧ n * 2 ^ (-L).toNat < 2 * d

theorem floorLog2Ratio_spec (n d : Nat) (hn : 1 ≤ n) (hd : 1 ≤ d) : Brackets n d (floorLog2Ratio n d) := by
  obtain ⟨a1, a2⟩ := log2_spec n hn
  obtain ⟨b1, b2⟩ := log2_spec d hd
  unfold floorLog2Ratio Brackets pow2
  generalize log2 n = k at *
  generalize log2 d = j at *
  simp only []
  by_cases hjk : j ≤ k
  · -- s = k - j ≥ 0
    obtain ⟨t, rfl⟩ : ∃ t, k = j + t := ⟨k - j, by omega⟩
    have hs : ((j + t : Nat) : Int) - (j : Int) = (t : Int) := by omega
    rw [hs]
    have ht0 : (t : Int) ≥ 0 := Int.natCast_nonneg t
    simp only [ht0, ↓reduceIte, Int.toNat_natCast]
    rw [Nat.pow_add] at a1
    rw [show j + t + 1 = j + (t + 1) by omega, Nat.pow_add] at a2
    rw [Nat.pow_succ] at b2
    by_cases hc : n ≥ d * 2 ^ t
    · simp only [hc, ↓reduceIte, ht0, Int.toNat_natCast]
      refine ⟨by simp, ?_⟩
      calc n < 2 ^ j * 2 ^ (t + 1) := a2
        _ ≤ d * 2 ^ (t + 1) := Nat.mul_le_mul_right _ b1
    · simp only [hc, ↓reduceIte]
      cases t with
      | zero =>
        have : ¬ ((0 : Nat) : Int) - 1 ≥ 0 := by omega
        simp only [this, ↓reduceIte]
        have e : (-(((0 : Nat) : Int) - 1)).toNat = 1 := by omega
        rw [e]
        simp only [Nat.pow_zero, Nat.mul_one] at hc a1
        omega
      | succ t =>
        have h1 : ((t + 1 : Nat) : Int) - 1 ≥ 0 := by omega
        have e : (((t + 1 : Nat) : Int) - 1).toNat = t := by omega
        simp only [h1, ↓reduceIte, e]
        refine ⟨?_, by omega⟩
        rw [Nat.pow_succ] at a1
        have : d * 2 ^ t ≤ 2 ^ j * 2 * 2 ^ t := Nat.mul_le_mul_right _ (Nat.le_of_lt b2)
        have h2 : 2 ^ j * 2 * 2 ^ t = 2 ^ j * (2 ^ t * 2) := by
          rw [Nat.mul_assoc, Nat.mul_comm 2 (2 ^ t)]
        omega
  · -- s < 0
    obtain ⟨t, rfl⟩ : ∃ t, j = k + (t + 1) := ⟨j - k - 1, by omega⟩
    have hs : ((k : Nat) : Int) - ((k + (t + 1) : Nat) : Int) = -((t + 1 : Nat) : Int) := by omega
    rw [hs]
    have hneg : ¬ (-((t + 1 : Nat) : Int)) ≥ 0 := by omega
    have e1 : (-(-((t + 1 : Nat) : Int))).toNat = t + 1 := by omega
    simp only [hneg, ↓reduceIte, e1]
    rw [Nat.pow_add] at b1
    rw [show k + (t + 1) + 1 = k + ((t + 1) + 1) by omega, Nat.pow_add] at b2
    rw [Nat.pow_succ] at a2
    by_cases hc : n * 2 ^ (t + 1) ≥ d
    · simp only [hc, ↓reduceIte, hneg, e1]
      refine ⟨by simp, ?_⟩
      have : n * 2 ^ (t + 1) < 2 ^ k * 2 * 2 ^ (t + 1) := Nat.mul_lt_mul_of_pos_right a2 (Nat.pow_pos (by decide))
      have h2 : 2 ^ k * 2 * 2 ^ (t + 1) = 2 * (2 ^ k * 2 ^ (t + 1)) := by
        rw [Nat.mul_comm (2 ^ k) 2, Nat.mul_assoc]
      omega
    · simp only [hc, ↓reduceIte]
      have hneg2 : ¬ (-((t + 1 : Nat) : Int) - 1) ≥ 0 := by omega
      have e2 : (-(-((t + 1 : Nat) : Int) - 1)).toNat = (t + 1) + 1 := by omega
      simp only [hneg2, ↓reduceIte, e2]
      refine ⟨?_, ?_⟩
      · have : 2 ^ k * 2 ^ ((t + 1) + 1) ≤ n * 2 ^ ((t + 1) + 1) := Nat.mul_le_mul_right _ a1
        omega
      · rw [show (2 : Nat) ^ (t + 1 + 1) = 2 ^ (t + 1) * 2 from Nat.pow_succ ..]
        have : n * (2 ^ (t + 1) * 2) = 2 * (n * 2 ^ (t + 1)) := by
          rw [Nat.mul_comm (2 ^ (t + 1)) 2, ← Nat.mul_assoc, Nat.mul_comm n 2, Nat.mul_assoc]
        omega


/-- `a ≤ N/D` for the value `a = m·2^e` (one of the two powers is `2^0`) -/
def F32.LeRat (a : F32) (N D : Nat) : Prop := a.m * D * 2 ^ a.e.toNat ≤ N * 2 ^ (-a.e).toNat

theorem numden_bracket (n d : Nat) (hn : 1 ≤ n) (hd : 1 ≤ d) :
    let e : Int := floorLog2Ratio n d - 23
    2 ^ 23 * (d * 2 ^ e.toNat) ≤ n * 2 ^ (-e).toNat := by
  intro e
  have hb := floorLog2Ratio_spec n d hn hd
  unfold Brackets at hb
  generalize hL : floorLog2Ratio n d = L at hb e
  by_cases h0 : L ≥ 0
  · simp only [h0, ↓reduceIte] at hb
    obtain ⟨k, rfl⟩ : ∃ k : Nat, L = (k : Int) := ⟨L.toNat, by omega⟩
    simp only [Int.toNat_natCast] at hb
    by_cases h23 : 23 ≤ k
    · obtain ⟨t, rfl⟩ : ∃ t, k = 23 + t := ⟨k - 23, by omega⟩
      have e1 : e.toNat = t := by simp only [e]; omega
      have e2 : (-e).toNat = 0 := by simp only [e]; omega
      rw [e1, e2, Nat.pow_zero, Nat.mul_one]
      have : 2 ^ 23 * (d * 2 ^ t) = d * 2 ^ (23 + t) := by rw [Nat.pow_add]; ring
      rw [this]; exact hb.1
    · obtain ⟨t, ht⟩ : ∃ t, 23 = k + t := ⟨23 - k, by omega⟩
      have e1 : e.toNat = 0 := by simp only [e]; omega
      have e2 : (-e).toNat = t := by simp only [e]; omega
      rw [e1, e2, Nat.pow_zero, Nat.mul_one]
      have : (2 : Nat) ^ 23 = 2 ^ k * 2 ^ t := by rw [← Nat.pow_add, ← ht]
      rw [this]
      calc 2 ^ k * 2 ^ t * d = (d * 2 ^ k) * 2 ^ t := by ring
        _ ≤ n * 2 ^ t := Nat.mul_le_mul_right _ hb.1
  · simp only [h0, ↓reduceIte] at hb
    obtain ⟨k, hk⟩ : ∃ k : Nat, -L = (k : Int) := ⟨(-L).toNat, by omega⟩
    have hk' : (-L).toNat = k := by omega
    rw [hk'] at hb
    have e1 : e.toNat = 0 := by simp only [e]; omega
    have e2 : (-e).toNat = 23 + k := by simp only [e]; omega
    rw [e1, e2, Nat.pow_zero, Nat.mul_one, Nat.pow_add]
    calc 2 ^ 23 * d ≤ 2 ^ 23 * (n * 2 ^ k) := Nat.mul_le_mul_left _ hb.1
      _ = n * (2 ^ 23 * 2 ^ k) := by ring

/-- rounding never adds more than the relative error 2⁻²⁴ -/
theorem roundF32_le (n d : Nat) (hn : 1 ≤ n) (hd : 1 ≤ d) :
    (roundF32 n d).LeRat (n * (2 ^ 24 + 1)) (d * 2 ^ 24) := by
  have hb := numden_bracket n d hn hd
  simp only [] at hb
  unfold roundF32 F32.LeRat pow2
  simp only []
  generalize floorLog2Ratio n d - 23 = e at hb ⊢
  generalize hden : d * 2 ^ e.toNat = den at hb ⊢
  generalize hnum : n * 2 ^ (-e).toNat = num at hb ⊢
  have hdm := Nat.div_add_mod num den
  generalize hq : num / den = q at hdm ⊢
  generalize hr : num % den = r at hdm ⊢
  -- the rounded quotient times the denominator is at most the numerator plus half a unit
  have key : ∀ q', (q' = q ∨ (q' = q + 1 ∧ den ≤ 2 * r)) → q' * (d * 2 ^ 24) * 2 ^ e.toNat ≤ n * (2 ^ 24 + 1) * 2 ^ (-e).toNat := by
    intro q' hq'
    have h1 : q' * (d * 2 ^ 24) * 2 ^ e.toNat = q' * den * 2 ^ 24 := by rw [← hden]; ring
    have h2 : n * (2 ^ 24 + 1) * 2 ^ (-e).toNat = num * (2 ^ 24 + 1) := by rw [← hnum]; ring
    rw [h1, h2]
    rcases hq' with rfl | ⟨rfl, hup⟩
    · nlinarith
    · nlinarith
  apply key
  split
  · rename_i hc
    right
    refine ⟨rfl, ?_⟩
    rcases hc with hc | hc <;> omega
  · left; rfl


theorem pow2_pos (k : Nat) : 0 < 2 ^ k := Nat.pow_pos (by decide)

/-- the mantissa produced by `roundF32` is at least 2²³ (in particular positive) -/
theorem roundF32_m_ge (n d : Nat) (hn : 1 ≤ n) (hd : 1 ≤ d) : 2 ^ 23 ≤ (roundF32 n d).m := by
  have hb := numden_bracket n d hn hd
  simp only [] at hb
  unfold roundF32 pow2
  simp only []
  generalize floorLog2Ratio n d - 23 = e at hb ⊢
  have hden : 0 < d * 2 ^ e.toNat := Nat.mul_pos hd (pow2_pos _)
  generalize d * 2 ^ e.toNat = den at hb hden ⊢
  generalize n * 2 ^ (-e).toNat = num at hb ⊢
  have hq : 2 ^ 23 ≤ num / den := (Nat.le_div_iff_mul_le hden).mpr hb
  split <;> omega

theorem leRat_half (a : F32) (h : a.LeRat 1 1) : (⟨a.m, a.e - 1⟩ : F32).LeRat 1 2 := by
  unfold F32.LeRat at h ⊢
  simp only [Nat.mul_one, Nat.one_mul] at h ⊢
  by_cases he : a.e ≥ 1
  · have e1 : (a.e - 1).toNat + 1 = a.e.toNat := by omega
    have e2 : (-(a.e - 1)).toNat = 0 := by omega
    have e3 : (-a.e).toNat = 0 := by omega
    rw [e2]; rw [e3] at h
    rw [← e1, Nat.pow_succ] at h
    calc a.m * 2 * 2 ^ (a.e - 1).toNat = a.m * (2 ^ (a.e - 1).toNat * 2) := by ring
      _ ≤ 2 ^ 0 := h
  · have e1 : (a.e - 1).toNat = 0 := by omega
    have e2 : (-(a.e - 1)).toNat = (-a.e).toNat + 1 := by omega
    have e3 : a.e.toNat = 0 := by omega
    rw [e1, e2, Nat.pow_succ]; rw [e3] at h
    simp only [Nat.pow_zero, Nat.mul_one] at h ⊢
    omega

/-- the product of two values, correctly rounded, against the product of their bounds -/
theorem mul_leRat (a b : F32) (Na Da Nb Db : Nat) (ha : a.LeRat Na Da) (hb : b.LeRat Nb Db)
    (hma : 1 ≤ a.m) (hmb : 1 ≤ b.m) :
    (a.mul b).LeRat (Na * Nb * (2 ^ 24 + 1)) (Da * Db * 2 ^ 24) := by
  unfold F32.mul pow2
  simp only []
  generalize hE : a.e + b.e = E
  have hn : 1 ≤ a.m * b.m * 2 ^ E.toNat := Nat.mul_pos (Nat.mul_pos hma hmb) (pow2_pos _)
  have hd : 1 ≤ 2 ^ (-E).toNat := pow2_pos _
  have hr := roundF32_le _ _ hn hd
  generalize roundF32 (a.m * b.m * 2 ^ E.toNat) (2 ^ (-E).toNat) = R at hr
  unfold F32.LeRat at ha hb hr ⊢
  -- exact product against the product of the bounds
  have hpow : 2 ^ E.toNat * (2 ^ (-a.e).toNat * 2 ^ (-b.e).toNat) =
      2 ^ (-E).toNat * (2 ^ a.e.toNat * 2 ^ b.e.toNat) := by
    rw [← Nat.pow_add, ← Nat.pow_add, ← Nat.pow_add, ← Nat.pow_add]
    congr 1; omega
  have hprod : a.m * b.m * 2 ^ E.toNat * (Da * Db) ≤ Na * Nb * 2 ^ (-E).toNat := by
    have h1 := Nat.mul_le_mul ha hb
    have hpos : 0 < 2 ^ (-a.e).toNat * 2 ^ (-b.e).toNat := Nat.mul_pos (pow2_pos _) (pow2_pos _)
    apply Nat.le_of_mul_le_mul_right _ hpos
    calc a.m * b.m * 2 ^ E.toNat * (Da * Db) * (2 ^ (-a.e).toNat * 2 ^ (-b.e).toNat)
        = a.m * b.m * (Da * Db) * (2 ^ E.toNat * (2 ^ (-a.e).toNat * 2 ^ (-b.e).toNat)) := by ring
      _ = a.m * b.m * (Da * Db) * (2 ^ (-E).toNat * (2 ^ a.e.toNat * 2 ^ b.e.toNat)) := by rw [hpow]
      _ = (a.m * Da * 2 ^ a.e.toNat) * (b.m * Db * 2 ^ b.e.toNat) * 2 ^ (-E).toNat := by ring
      _ ≤ (Na * 2 ^ (-a.e).toNat) * (Nb * 2 ^ (-b.e).toNat) * 2 ^ (-E).toNat := Nat.mul_le_mul_right _ h1
      _ = Na * Nb * 2 ^ (-E).toNat * (2 ^ (-a.e).toNat * 2 ^ (-b.e).toNat) := by ring
  apply Nat.le_of_mul_le_mul_right _ hd
  calc R.m * (Da * Db * 2 ^ 24) * 2 ^ R.e.toNat * 2 ^ (-E).toNat
      = (R.m * (2 ^ (-E).toNat * 2 ^ 24) * 2 ^ R.e.toNat) * (Da * Db) := by ring
    _ ≤ (a.m * b.m * 2 ^ E.toNat * (2 ^ 24 + 1) * 2 ^ (-R.e).toNat) * (Da * Db) := Nat.mul_le_mul_right _ hr
    _ = (a.m * b.m * 2 ^ E.toNat * (Da * Db)) * ((2 ^ 24 + 1) * 2 ^ (-R.e).toNat) := by ring
    _ ≤ (Na * Nb * 2 ^ (-E).toNat) * ((2 ^ 24 + 1) * 2 ^ (-R.e).toNat) := Nat.mul_le_mul_right _ hprod
    _ = Na * Nb * (2 ^ 24 + 1) * 2 ^ (-R.e).toNat * 2 ^ (-E).toNat := by ring

theorem trunc_le (a : F32) (N D : Nat) (h : a.LeRat N D) : a.trunc * D ≤ N := by
  unfold F32.LeRat at h
  unfold F32.trunc pow2
  have hy : 0 < 2 ^ (-a.e).toNat := pow2_pos _
  apply Nat.le_of_mul_le_mul_right _ hy
  have h1 : a.m * 2 ^ a.e.toNat / 2 ^ (-a.e).toNat * 2 ^ (-a.e).toNat ≤ a.m * 2 ^ a.e.toNat := Nat.div_mul_le_self _ _
  calc a.m * 2 ^ a.e.toNat / 2 ^ (-a.e).toNat * D * 2 ^ (-a.e).toNat
      = (a.m * 2 ^ a.e.toNat / 2 ^ (-a.e).toNat * 2 ^ (-a.e).toNat) * D := by ring
    _ ≤ a.m * 2 ^ a.e.toNat * D := Nat.mul_le_mul_right _ h1
    _ = a.m * D * 2 ^ a.e.toNat := by ring
    _ ≤ N * 2 ^ (-a.e).toNat := h

theorem fr_le_one (r : Nat) (h1 : 1 ≤ r) (h2 : r ≤ 65535) : (roundF32 r 65535).LeRat 1 1 := by
  by_cases h : r = 65535
  · subst h; unfold F32.LeRat; decide +kernel
  · have hr := roundF32_le r 65535 h1 (by decide)
    unfold F32.LeRat at hr ⊢
    generalize roundF32 r 65535 = R at hr
    have hP := pow2_pos R.e.toNat
    have hM := pow2_pos (-R.e).toNat
    generalize 2 ^ R.e.toNat = P at hr hP
    generalize 2 ^ (-R.e).toNat = M at hr hM
    have hr2 : r * (2 ^ 24 + 1) ≤ 65535 * 2 ^ 24 := by omega
    have : R.m * P * (65535 * 2 ^ 24) ≤ M * (65535 * 2 ^ 24) := by
      calc R.m * P * (65535 * 2 ^ 24) = R.m * (65535 * 2 ^ 24) * P := by ring
        _ ≤ r * (2 ^ 24 + 1) * M := hr
        _ ≤ (65535 * 2 ^ 24) * M := Nat.mul_le_mul_right _ hr2
        _ = M * (65535 * 2 ^ 24) := by ring
    have := Nat.le_of_mul_le_mul_right this (by decide)
    simpa using this

/-- **the exact jitter lies in the interval**: for every 64-bit (indeed every) `timeplus` and every 16-bit draw the
    amount taken away is at most `timeplus · (1/2 + 2⁻²⁴ + 2⁻⁴⁹)` -/
theorem jitterExact_ok (tp r : Nat) (hr : r ≤ 65535) : jitterExact tp r * 2 ^ 49 ≤ tp * (2 ^ 24 + 1) ^ 2 := by
  unfold jitterExact
  split
  · simp
  · rename_i h
    have hr1 : 1 ≤ r := by omega
    have ht1 : 1 ≤ tp := by omega
    simp only []
    have hU : Cares.Generated.Proto.USHRT_MAX = 65535 := rfl
    rw [hU]
    have hfr := fr_le_one r hr1 hr
    have hfm := roundF32_m_ge r 65535 hr1 (by decide)
    have hdm := leRat_half _ hfr
    have hft := roundF32_le tp 1 ht1 (Nat.le_refl 1)
    have hftm := roundF32_m_ge tp 1 ht1 (Nat.le_refl 1)
    have hmul := mul_leRat (roundF32 tp 1) ⟨(roundF32 r 65535).m, (roundF32 r 65535).e - 1⟩ _ _ _ _ hft hdm
      (by omega) (by simp only []; omega)
    have := trunc_le _ _ _ hmul
    calc ((roundF32 tp 1).mul ⟨(roundF32 r 65535).m, (roundF32 r 65535).e - 1⟩).trunc * 2 ^ 49
        = ((roundF32 tp 1).mul ⟨(roundF32 r 65535).m, (roundF32 r 65535).e - 1⟩).trunc * (1 * 2 ^ 24 * 2 * 2 ^ 24) := by
          norm_num
      _ ≤ tp * (2 ^ 24 + 1) * 1 * (2 ^ 24 + 1) := this
      _ = tp * (2 ^ 24 + 1) ^ 2 := by ring

end Cares.Proto.Timeout
