import CaresModel.Dns.Escape
/-!
# Presentation-format names: unescaping the escaped form gives back the label bytes (helper lemmas for C04)
-/
namespace Cares.Dns
open Cares.Generated

/-- shape of the presentation form of one byte, as a decidable check over the generated character
    tables: plain (and then neither `.` nor `\`), `\c` with `c` not a digit, or `\DDD` with value `c` -/
def byteShapeOk (c : UInt8) : Bool :=
  match escapeByte c with
  | [x] => x == c && c != chDot && c != chBackslash
  | [b, x] => b == chBackslash && x == c && !isDigit c.toNat
  | [b, d1, d2, d3] =>
    b == chBackslash && isDigit d1.toNat && isDigit d2.toNat && isDigit d3.toNat &&
      ((d1.toNat - 48) * 100 + (d2.toNat - 48) * 10 + (d3.toNat - 48) == c.toNat)
  | _ => false

/-- table obligation: holds for every byte (kernel evaluation over the 256 bytes) -/
theorem byteShape_all : ∀ n, n < 256 → byteShapeOk n.toUInt8 = true := by decide +kernel

theorem byteShape (c : UInt8) : byteShapeOk c = true := by
  have := byteShape_all c.toNat c.toNat_lt
  simpa using this

theorem splitLoop_escapeByte (c : UInt8) (rest : BStr) (st : SplitSt) :
    splitLoop false (escapeByte c ++ rest) st = splitLoop false rest { st with cur := st.cur ++ [c] } := by
  have h := byteShape c
  unfold byteShapeOk at h
  split at h
  · rename_i x hx
    simp only [Bool.and_eq_true, beq_iff_eq, bne_iff_ne, ne_eq] at h
    obtain ⟨⟨rfl, h1⟩, h2⟩ := h
    rw [hx]
    simp only [List.cons_append, List.nil_append]
    rw [splitLoop]
    simp [h1, h2]
  · rename_i b x hx
    simp only [Bool.and_eq_true, beq_iff_eq, Bool.not_eq_eq_eq_not, Bool.not_true] at h
    obtain ⟨⟨rfl, rfl⟩, h3⟩ := h
    rw [hx]
    simp only [List.cons_append, List.nil_append]
    rw [splitLoop]
    have hbd : chBackslash ≠ chDot := by decide
    have hp : parseEscape false (x :: rest) = .ok (x, rest) := by
      simp [parseEscape, h3]
    simp only [if_neg hbd, ↓reduceIte]
    split
    · rename_i e he; rw [hp] at he; simp at he
    · rename_i b' rest' he
      rw [hp] at he
      injection he with he; injection he with h1 h2
      subst h1; subst h2; rfl
  · rename_i b d1 d2 d3 hx
    simp only [Bool.and_eq_true, beq_iff_eq] at h
    obtain ⟨⟨⟨⟨rfl, h1⟩, h2⟩, h3⟩, h4⟩ := h
    rw [hx]
    simp only [List.cons_append, List.nil_append]
    rw [splitLoop]
    have hbd : chBackslash ≠ chDot := by decide
    have hv : ¬ (c.toNat > 255) := by have := c.toNat_lt; omega
    have hp : parseEscape false (d1 :: d2 :: d3 :: rest) = .ok (c, rest) := by
      simp [parseEscape, h1, h2, h3, h4, hv]
    simp only [if_neg hbd, ↓reduceIte]
    split
    · rename_i e he; rw [hp] at he; simp at he
    · rename_i b' rest' he
      rw [hp] at he
      injection he with he; injection he with h1 h2
      subst h1; subst h2; rfl
  · simp at h

theorem splitLoop_escapeLabel (l : BStr) (rest : BStr) (st : SplitSt) :
    splitLoop false (escapeLabel l ++ rest) st = splitLoop false rest { st with cur := st.cur ++ l } := by
  induction l generalizing st with
  | nil => simp [escapeLabel]
  | cons c l ih =>
    simp only [escapeLabel, List.flatMap_cons, List.append_assoc]
    rw [splitLoop_escapeByte]
    have := ih (st := { st with cur := st.cur ++ [c] })
    simp only [escapeLabel] at this
    rw [this]
    simp

theorem escapeName_nil : escapeName [] = [] := by simp [escapeName]
theorem escapeName_single (l : BStr) : escapeName [l] = escapeLabel l := by simp [escapeName]
theorem escapeName_cons₂ (l l' : BStr) (ls : List BStr) :
    escapeName (l :: l' :: ls) = escapeLabel l ++ chDot :: escapeName (l' :: ls) := by
  simp [escapeName, List.intercalate]

/-- scanning the presentation form of non-empty labels `l :: ls` from state `(done, cur)` -/
theorem splitLoop_escapeName (l : BStr) (ls : List BStr) (st : SplitSt) :
    splitLoop false (escapeName (l :: ls)) st =
      .ok { done := st.done ++ ((st.cur ++ l) :: ls).dropLast, cur := ((st.cur ++ l) :: ls).getLast (by simp) } := by
  induction ls generalizing l st with
  | nil =>
    rw [escapeName_single]
    have := splitLoop_escapeLabel l [] st
    simp only [List.append_nil] at this
    rw [this, splitLoop]
    simp
  | cons l' ls ih =>
    rw [escapeName_cons₂, splitLoop_escapeLabel, splitLoop]
    simp only [↓reduceIte]
    rw [ih]
    simp

theorem unescape_escapeName (labels : List BStr) (hne : ∀ l ∈ labels, l ≠ []) :
    unescapeName false (escapeName labels) = .ok labels := by
  unfold unescapeName
  cases labels with
  | nil =>
    rw [escapeName_nil, splitLoop]
    simp [Except.map, splitFinish]
  | cons l ls =>
    rw [splitLoop_escapeName]
    simp only [Except.map, List.nil_append]
    have hd : (l :: ls).dropLast ++ [(l :: ls).getLast (by simp)] = l :: ls :=
      List.dropLast_concat_getLast (by simp)
    have hlast : (l :: ls).getLast (by simp) ≠ [] := hne _ (List.getLast_mem _)
    congr 1
    unfold splitFinish
    simp only [hd]
    have h1 : (l :: ls).getLast?.map List.length ≠ some 0 := by
      rw [List.getLast?_eq_some_getLast (by simp)]
      simp only [Option.map_some, ne_eq, Option.some.injEq]
      intro h0
      exact hlast (List.eq_nil_of_length_eq_zero h0)
    simp [h1]
end Cares.Dns
