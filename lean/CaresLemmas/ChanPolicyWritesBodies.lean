import CaresLemmas.ChanPolicyWritesSend
/-!
# C06 — the accounting through `ares_send_nolock`, `ares_requeue_query`, `process_answer`, the deferred-requeue flush;
  `exec` keeps `CInv`
-/
namespace Cares.Chan
set_option linter.unusedVariables false

section
variable {tr ns : Nat}

theorem bodySendQuery_c {go : Call → St → St × Ret} (hgo : GoC tr ns go) (reqSrv : Option Nat) (key : Nat) (s : St)
    (h : CInv tr ns (some key) none s) : CInv tr ns none none (bodySendQuery go reqSrv key s).1 := by
  rw [bodySendQuery_eq]; exact sendQueryBlocks_c hgo reqSrv key s h

/-! ### `ares_send_nolock` -/

theorem cproj_draw1 (s : St) : cproj s.draw1.2 = cproj s ∧ s.draw1.2.outOfFuel = s.outOfFuel := by
  unfold St.draw1; split <;> exact ⟨rfl, rfl⟩

/-- the new query enters the tables -/
theorem newQuery_step {s s3 s4 : St} {qid : Nat} {q : Query} {r3 : List Nat}
    (h : CInv tr ns none none s)
    (h3 : cproj s3 = { cproj s with rnd2 := r3 }) (o3 : s3.outOfFuel = s.outOfFuel) (hsub : r3.Sublist s.obs.rnd2)
    (hqid : (qid ∈ s.obs.rnd2 ∧ (s.obs.rnd2.Nodup → qid ∉ r3)) ∨ qid = 70000 + s.nextKey)
    (hq : q.key = s.nextKey ∧ q.qid = qid ∧ q.cookieTry = 0 ∧ q.conn = none)
    (h4 : cproj s4 = { cproj s3 with qs := s3.qs ++ [q], nextKey := q.key + 1,
                                     byQid := s3.byQid ++ [(qid, q.key)] })
    (o4 : s4.outOfFuel = s3.outOfFuel) : CInv tr ns (some q.key) none s4 := by
  rcases h with h | hok
  · exact Or.inl (by rw [o4, o3]; exact h)
  · right
    obtain ⟨hk, hqq, hck, hcn⟩ := hq
    have hok3 : COk tr ns none none (cproj s3) := by rw [h3]; exact COk.shrinkRnd hsub hok
    have hnk : (cproj s3).nextKey = s.nextKey := by rw [h3]; rfl
    have hr3 : (cproj s3).rnd2 = r3 := by rw [h3]
    have hx1 : q.qid ∉ (cproj s3).rnd2 := by
      rw [hr3, hqq]
      rcases hqid with ⟨_, hn⟩ | hf
      · exact hn hok.rndNodup
      · intro hm
        have := hok.rndLt qid (hsub.subset hm)
        omega
    have hx2 : q.qid < 70000 + (cproj s3).nextKey + 1 := by
      rw [hnk, hqq]
      rcases hqid with ⟨hm, _⟩ | hf
      · have := hok.rndLt qid hm; omega
      · omega
    have hx3 : ∀ e ∈ (cproj s3).req, e.1 ≠ q.qid := by
      intro e he
      have he' : e ∈ (cproj s).req := by rw [h3] at he; exact he
      have := hok.reqFresh e he'
      rw [hqq]
      rcases hqid with ⟨hm, _⟩ | hf
      · intro e'; exact this.1 (e' ▸ hm)
      · have h2 : e.1 < 70000 + s.nextKey := this.2
        omega
    have hx4 : ∀ a ∈ (cproj s3).qs, a.qid ≠ q.qid := by
      intro a ha
      have ha' : a ∈ (cproj s).qs := by rw [h3] at ha; exact ha
      have := hok.qidFresh a ha'
      rw [hqq]
      rcases hqid with ⟨hm, _⟩ | hf
      · intro e'; exact this.1 (e' ▸ hm)
      · have h2 : a.qid < 70000 + s.nextKey := this.2
        omega
    have := COk.newQuery q (by rw [hnk]; exact hk) hx1 hx2 hx3 hx4 hck hcn hok3
    rw [h4]
    rw [hqq] at this
    have e : q.key + 1 = (cproj s3).nextKey + 1 := by rw [hnk, hk]
    rw [e]
    exact this

theorem bodySendNolock_c {go : Call → St → St × Ret} (hgo : GoC tr ns go) (reqSrv : Option Nat)
    (nocache noretry : Bool) (spec : ReqSpec) (owner : Owner) (react : List Nat) (s : St)
    (h : CInv tr ns none none s) :
    CInv tr ns none none (bodySendNolock go reqSrv nocache noretry spec owner react s).1 := by
  unfold bodySendNolock
  split
  rename_i qid s1 hg
  have h1 : CInv tr ns none none s1 := by have := CInv.genQid h; rw [hg] at this; exact this
  split
  · repeat' (c_step hgo)
  · extract_lets s2 key usingTcp sentName nbytes s3 q s4
    have h2 : CInv tr ns none none s2 := by
      show CInv tr ns none none (if nocache = true then s1 else s1.cacheExpire)
      split
      · exact h1
      · exact CInv.cacheExpire h1
    split
    · extract_lets dec
      repeat' (c_step hgo)
    · split
      · repeat' (c_step hgo)
      · -- the state up to the draws
        have hlen : s.outOfFuel = true ∨ s.obs.rnd2.length < 70000 := by
          rcases h with h | hok
          · exact Or.inl h
          · exact Or.inr hok.rndLen
        rcases hlen with hoof | hlen
        · -- out of fuel already: the flag survives
          have o1 : s1.outOfFuel = s.outOfFuel := by
            obtain ⟨o, f, e⟩ := genQid_shape 70000 s
            have : s1 = (genQid 70000 s).2 := by rw [hg]
            rw [this, e]
          have o3 : s3.outOfFuel = s2.outOfFuel := by
            dsimp only [s3]
            split
            · split
              · exact (cproj_draw1 s2).2
              · split
                · exact (cproj_draw2 s2).2
                · rfl
            · rfl
          have o2 : s2.outOfFuel = s1.outOfFuel := by
            show (if nocache = true then s1 else s1.cacheExpire).outOfFuel = _
            split <;> rfl
          exact hgo.inv (.sendQuery reqSrv key) s4 (Or.inl (by
            show s3.outOfFuel = true
            rw [o3, o2, o1]; exact hoof))
        · obtain ⟨r1, hsub1, hw1, ho1, hx⟩ := genQid_spec 70000 s hlen
          rw [hg] at hw1 ho1 hx
          have e2 : cproj s2 = cproj s1 ∧ s2.outOfFuel = s1.outOfFuel := by
            show cproj (if nocache = true then s1 else s1.cacheExpire) = _ ∧
              (if nocache = true then s1 else s1.cacheExpire).outOfFuel = _
            split <;> exact ⟨rfl, rfl⟩
          have e3 : ∃ r3 : List Nat, r3.Sublist r1 ∧ cproj s3 = { cproj s with rnd2 := r3 } ∧ s3.outOfFuel = s.outOfFuel := by
            have hr2 : s2.obs.rnd2 = r1 := by
              have := congrArg CP.rnd2 (e2.1.trans hw1); exact this
            dsimp only [s3]
            split
            · split
              · exact ⟨r1, List.Sublist.refl _, by rw [(cproj_draw1 s2).1, e2.1, hw1],
                  by rw [(cproj_draw1 s2).2, e2.2, ho1]⟩
              · split
                · refine ⟨r1.tail, List.tail_sublist _, ?_, by rw [(cproj_draw2 s2).2, e2.2, ho1]⟩
                  rw [(cproj_draw2 s2).1, e2.1, hw1, hr2]
                · exact ⟨r1, List.Sublist.refl _, by rw [e2.1, hw1], by rw [e2.2, ho1]⟩
            · exact ⟨r1, List.Sublist.refl _, by rw [e2.1, hw1], by rw [e2.2, ho1]⟩
          obtain ⟨r3, hsub3, h3, o3⟩ := e3
          have hkey : key = s.nextKey := by
            show s2.nextKey = s.nextKey
            have := congrArg CP.nextKey (e2.1.trans hw1); exact this
          have hqid : (qid ∈ s.obs.rnd2 ∧ (s.obs.rnd2.Nodup → qid ∉ r3)) ∨ qid = 70000 + s.nextKey := by
            rcases hx with ⟨hm, hn⟩ | hf
            · exact Or.inl ⟨hm, fun hnd hm3 => hn hnd (hsub3.subset hm3)⟩
            · exact Or.inr hf
          have := newQuery_step (q := q) (s4 := s4) h h3 o3 (hsub3.trans hsub1) hqid ⟨hkey, rfl, rfl, rfl⟩ rfl rfl
          exact hgo.inv (.sendQuery reqSrv key) s4 this

/-! ### rewriting one query, at the level of states -/

theorem COk.push' {ex : Option Nat} {p : CP} (q0 : Query) (hq0 : q0 ∈ p.qs) (srv : Option Nat) (k : Nat)
    (hk : q0.key = k) (h : COk tr ns (some k) ex p) :
    COk tr ns none ex { p with req := p.req ++ [(q0.qid, srv)] } := by
  subst hk; exact COk.push q0 hq0 srv h


theorem COk.dropEx {cw : Option Nat} {p : CP} (k : Nat) (hno : ∀ q ∈ p.qs, q.key ≠ k)
    (h : COk tr ns cw (some k) p) : COk tr ns cw none p :=
  { h with
    ckR := fun q hq _ h3 => h.ckR q hq (fun e => hno q hq (Option.some.inj e).symm) h3
    attTcp := fun q hq _ hu fd hc => h.attTcp q hq (fun e => hno q hq (Option.some.inj e).symm) hu fd hc }

theorem CInv.modKey {cw ex cw' ex' : Option Nat} {s : St} {key : Nat} {q0 : Query} (hq : s.query? key = some q0)
    (f : Query → Query) (hf : (f q0).key = q0.key ∧ (f q0).qid = q0.qid)
    (hcw : cw = none ∨ cw = some key) (hcw' : cw' = none ∨ cw' = some key)
    (hex : ex = none ∨ ex = some key) (hex' : ex' = none ∨ ex' = some key)
    (h : CInv tr ns cw ex s)
    (ob : COk tr ns cw ex (cproj s) →
      (∀ c : Nat, c + cr1 cw key ≤ potP (cproj s) q0 → c + cr1 cw' key ≤ potP (cproj s) (f q0)) ∧
      (f q0).cookieTry ≤ 3 ∧
      (3 ≤ (f q0).cookieTry → (f q0).usingTcp = true) ∧
      (ex' ≠ some key → 3 ≤ (f q0).cookieTry → (f q0).reqCookie = none ∨ (f q0).conn = none) ∧
      (ex' ≠ some key → (f q0).usingTcp = true → ∀ fd, (f q0).conn = some fd → TcpIfAny (cproj s).kinds fd) ∧
      (∀ fd, (f q0).conn = some fd → fd < (cproj s).nextFd)) :
    CInv tr ns cw' ex' (s.modQuery key f) := by
  refine CInv.lift h rfl ?_
  intro hok
  have hk : q0.key = key := query?_key hq
  subst hk
  obtain ⟨o2, o3, o4, o5, o6, o7⟩ := ob hok
  exact COk.modKey q0 (query?_mem hq) f cw' ex' hf hcw hcw' hex hex' hok o2 o3 o4 o5 o6 o7

/-- the lookup after `removeFromConn` -/
theorem query?_after_remove {s : St} {key : Nat} {q0 : Query} (hq : s.query? key = some q0) :
    (s.removeFromConn key).query? key = some (unlinkQ q0) := by
  rw [query?_removeFromConn_self, hq]; rfl

/-! ### `ares_requeue_query` -/

theorem bodyRequeue_c {go : Call → St → St × Ret} (hgo : GoC tr ns go) (key : Nat) (st : Status) (inc : Bool)
    (rec : Option Reply) (deferred : Bool) (s : St) (h : PreC tr ns (.requeue key st inc rec deferred) s) :
    CInv tr ns none none (bodyRequeue go key st inc rec deferred s).1 := by
  -- the credit the call comes with
  have hpre : CInv tr ns (if inc = true then none else some key) (if inc = true then none else some key) s := by
    cases inc
    · exact h
    · exact h
  unfold bodyRequeue
  split
  · -- the query does not exist
    rename_i hnone
    apply CInv.mfault
    refine CInv.lift hpre rfl ?_
    intro hok
    have hno : ∀ q ∈ (cproj s).qs, q.key ≠ key := by
      intro q hq e
      unfold St.query? at hnone
      rw [List.find?_eq_none] at hnone
      exact hnone q hq (by simpa using e)
    cases inc
    · exact COk.dropEx key hno hok.dropW
    · exact hok
  · rename_i q0 hq0
    extract_lets maxTries s1 s2 q es s3
    -- detached: the exemption is settled
    have h1 : CInv tr ns (if inc = true then none else some key) none s1 := by
      apply CInv.removeFromConn' _ hpre
      cases inc
      · exact Or.inr rfl
      · exact Or.inl rfl
    have hq1 : s1.query? key = some (unlinkQ q0) := query?_after_remove hq0
    have hq2 : s2.query? key = some
        { unlinkQ q0 with errorStatus := if st != .ok then st else q0.errorStatus,
                          tryCount := if inc then q0.tryCount + 1 else q0.tryCount } := by
      show (s1.modQuery key _).query? key = _
      rw [query?_modQuery_self, hq1]
      · rfl
      · intro _; rfl
    have hqe : q = { unlinkQ q0 with errorStatus := if st != .ok then st else q0.errorStatus,
                                      tryCount := if inc then q0.tryCount + 1 else q0.tryCount } := by
      show (s2.query? key).getD default = _
      rw [hq2]; rfl
    have hM : COk tr ns (if inc = true then none else some key) none (cproj s1) →
        maxTries = (cproj s1).nsrv * (cproj s1).tries := by
      intro hok
      show s.servers.length * s.cfg.tries = (cproj (s.removeFromConn key)).nsrv * (cproj (s.removeFromConn key)).tries
      rw [(cproj_removeFromConn s key).1]
      rfl
    split
    · -- retry: the budget allows one more write
      rename_i hcond
      have hlt : q.tryCount < maxTries := by
        simp only [Bool.and_eq_true, decide_eq_true_eq] at hcond; exact hcond.1
      have h2 : CInv tr ns (some key) none s2 := by
        refine CInv.modKey hq1 _ ⟨rfl, rfl⟩ ?_ (Or.inr rfl) (Or.inl rfl) (Or.inl rfl) h1 ?_
        · cases inc
          · exact Or.inr rfl
          · exact Or.inl rfl
        · intro hok
          have hM' := hM hok
          refine ⟨?_, hok.ck3 (unlinkQ q0) (query?_mem hq1), hok.ck3tcp (unlinkQ q0) (query?_mem hq1),
            fun _ _ => Or.inr rfl, fun _ _ fd hc => (by cases hc), fun fd hc => (by cases hc)⟩
          intro c hc
          cases inc
          · -- the credit came with the call
            simp only [Bool.false_eq_true, ↓reduceIte] at hc ⊢
            exact hc
          · -- the try is counted: one more write is paid for
            simp only [↓reduceIte] at hc ⊢
            rw [cr1_none] at hc
            rw [cr1_self]
            rw [hqe] at hlt
            have hlt' : q0.tryCount + 1 < maxTries := by simpa [unlinkQ] using hlt
            have e : potP (cproj s1)
                { unlinkQ q0 with errorStatus := if st != .ok then st else (unlinkQ q0).errorStatus,
                                  tryCount := (unlinkQ q0).tryCount + 1 } =
                potP (cproj s1) (unlinkQ q0) + 1 := by
              unfold potP
              dsimp only [unlinkQ]
              rw [← hM', bud_succ maxTries q0.tryCount hlt']
              omega
            rw [e]
            omega
      split
      · -- deferred: an entry in the requeue array
        have hqm : q ∈ s2.qs := by rw [hqe]; exact query?_mem hq2
        have hqk : q.key = key := by rw [hqe]; exact query?_key hq2
        refine CInv.lift h2 rfl ?_
        intro hok
        exact COk.push' q hqm none key hqk hok
      · exact hgo.inv (.sendQuery none key) s2 h2
    · -- the query ends
      have h2 : CInv tr ns none none s2 := by
        refine CInv.modKey hq1 _ ⟨rfl, rfl⟩ ?_ (Or.inl rfl) (Or.inl rfl) (Or.inl rfl) h1 ?_
        · cases inc
          · exact Or.inr rfl
          · exact Or.inl rfl
        · intro hok
          refine ⟨?_, hok.ck3 (unlinkQ q0) (query?_mem hq1), hok.ck3tcp (unlinkQ q0) (query?_mem hq1),
            fun _ _ => Or.inr rfl, fun _ _ fd hc => (by cases hc), fun fd hc => (by cases hc)⟩
          intro c hc
          rw [cr1_none]
          have hmono : potP (cproj s1) (unlinkQ q0) ≤ potP (cproj s1)
              { unlinkQ q0 with errorStatus := if st != .ok then st else (unlinkQ q0).errorStatus,
                                tryCount := if inc then (unlinkQ q0).tryCount + 1 else (unlinkQ q0).tryCount } := by
            unfold potP
            dsimp only [unlinkQ]
            have : q0.tryCount ≤ (if inc then q0.tryCount + 1 else q0.tryCount) := by
              split <;> omega
            have := bud_mono ((cproj s1).nsrv * (cproj s1).tries) this
            omega
          have : c ≤ potP (cproj s1) (unlinkQ q0) := by omega
          exact Nat.le_trans this hmono
      have h3 : CInv tr ns none none s3 := by
        show CInv tr ns none none (s2.modQuery key _)
        exact CInv.modQuery (fun _ => ⟨rfl, rfl, rfl, rfl, rfl, rfl, rfl, rfl⟩) h2
      split
      rename_i s4 r4 he
      have := hgo.inv (.endQuery none key es rec) s3 h3
      rw [he] at this
      exact this

/-! ### the deferred-requeue flush of `read_answers` -/

theorem bodyFlushRequeue_c {go : Call → St → St × Ret} (hgo : GoC tr ns go) (s : St)
    (h : CInv tr ns none none s) : CInv tr ns none none (bodyFlushRequeue go s).1 := by
  unfold bodyFlushRequeue
  split
  · exact h
  · rename_i qid srv rest hreq
    extract_lets s1
    have hpop : ∀ hok : COk tr ns none none (cproj s),
        COk tr ns none none (cproj s1) ∧
        ∀ qid' key, (qid', key) ∈ s.byQid → qid' = qid → COk tr ns (some key) none (cproj s1) := by
      intro hok
      exact COk.pop (qid, srv) rest hreq hok
    have h1 : CInv tr ns none none s1 := CInv.lift h rfl (fun hok => (hpop hok).1)
    split
    · exact hgo.inv .flushRequeue s1 h1
    · rename_i qid' key hfind
      have hmem : (qid', key) ∈ s.byQid := List.mem_of_find?_eq_some hfind
      have hqid : qid' = qid := by
        have := List.find?_some hfind
        simpa using this
      have h1' : CInv tr ns (some key) none s1 :=
        CInv.lift h rfl (fun hok => (hpop hok).2 qid' key hmem hqid)
      split
      rename_i s2 r2 he
      have h2 : CInv tr ns none none s2 := by
        have := hgo.inv (.sendQuery srv key) s1 h1'; rw [he] at this; exact this
      exact hgo.inv .flushRequeue s2 h2

/-! ### `process_answer` -/

open Cares.Proto.Cookie in
/-- what `ares_cookie_validate` does to the per-query counters: it re-queues only for a BADCOOKIE reply to a request
    that carried a cookie; then the verdict is "drop", the resend counter goes up by one and TCP is forced from the
    third resend on; otherwise the counters are untouched -/
theorem validate_counters (c : CookieSt) (qs : QState) (reqCookie respCookie : Option (List UInt8)) (rcode : Nat)
    (now : TimeVal) :
    ((validate c qs reqCookie respCookie rcode now).requeue = true →
      (validate c qs reqCookie respCookie rcode now).verdict = .drop ∧
      (validate c qs reqCookie respCookie rcode now).q.cookieTry = qs.cookieTry + 1 ∧
      (validate c qs reqCookie respCookie rcode now).q.usingTcp = (qs.usingTcp || decide (qs.cookieTry + 1 ≥ 3)) ∧
      reqCookie ≠ none) ∧
    ((validate c qs reqCookie respCookie rcode now).requeue = false →
      (validate c qs reqCookie respCookie rcode now).q = qs) := by
  cases reqCookie with
  | none =>
    unfold validate validateWith
    dsimp only
    repeat' split
    all_goals exact ⟨fun h => (by cases h), fun _ => rfl⟩
  | some rq =>
    unfold validate validateWith
    dsimp only
    repeat' split
    all_goals first
      | exact ⟨fun h => (by cases h), fun _ => rfl⟩
      | exact ⟨fun _ => ⟨rfl, rfl, rfl, by simp⟩, fun h => (by cases h)⟩

/-- EDNS downgrade: detach, clear `edns`, append the deferred entry -/
theorem edns_push {s6 : St} {key : Nat} {q6 : Query} (qid : Nat) (srv : Option Nat)
    (h : CInv tr ns none none s6) (hq : s6.query? key = some q6) (he : q6.edns = true) (hqid : qid = q6.qid) :
    CInv tr ns none none
      { ((s6.removeFromConn key).modQuery key fun q => { q with edns := false, reqCookie := none, cookie := "-" }) with
        requeueArr := ((s6.removeFromConn key).modQuery key fun q =>
          { q with edns := false, reqCookie := none, cookie := "-" }).requeueArr ++ [(qid, srv)] } := by
  have h7 : CInv tr ns none none (s6.removeFromConn key) := CInv.removeFromConn h
  have hq7 := query?_after_remove hq
  have h8 : CInv tr ns (some key) none ((s6.removeFromConn key).modQuery key
      fun q => { q with edns := false, reqCookie := none, cookie := "-" }) := by
    refine CInv.modKey hq7 _ ⟨rfl, rfl⟩ (Or.inl rfl) (Or.inr rfl) (Or.inl rfl) (Or.inl rfl) h7 ?_
    intro hok
    refine ⟨?_, hok.ck3 (unlinkQ q6) (query?_mem hq7), hok.ck3tcp (unlinkQ q6) (query?_mem hq7),
      fun _ _ => Or.inl rfl, fun _ _ fd hc => (by cases hc), fun fd hc => (by cases hc)⟩
    intro c hc
    rw [cr1_none] at hc
    rw [cr1_self]
    unfold potP at hc ⊢
    dsimp only [unlinkQ] at hc ⊢
    simp only [he, ↓reduceIte, Bool.false_eq_true] at hc ⊢
    omega
  have hq8 : ((s6.removeFromConn key).modQuery key
      fun q => { q with edns := false, reqCookie := none, cookie := "-" }).query? key =
      some { unlinkQ q6 with edns := false, reqCookie := none, cookie := "-" } := by
    rw [query?_modQuery_self, hq7]
    · rfl
    · intro _; rfl
  refine CInv.lift h8 rfl ?_
  intro hok
  have hk := query?_key hq8
  have hm := query?_mem hq8
  have hp := COk.push' _ hm srv key hk hok
  rw [hqid]
  exact hp

/-- UDP→TCP upgrade: detach, set `using_tcp`, append the deferred entry -/
theorem tc_push {s6 : St} {key : Nat} {q6 : Query} (qid : Nat) (srv : Option Nat)
    (h : CInv tr ns none none s6) (hq : s6.query? key = some q6) (hu : q6.usingTcp = false) (hqid : qid = q6.qid) :
    CInv tr ns none none
      { ((s6.removeFromConn key).modQuery key fun q => { q with usingTcp := true }) with
        requeueArr := ((s6.removeFromConn key).modQuery key fun q => { q with usingTcp := true }).requeueArr ++
          [(qid, srv)] } := by
  have h7 : CInv tr ns none none (s6.removeFromConn key) := CInv.removeFromConn h
  have hq7 := query?_after_remove hq
  have h8 : CInv tr ns (some key) none ((s6.removeFromConn key).modQuery key fun q => { q with usingTcp := true }) := by
    refine CInv.modKey hq7 _ ⟨rfl, rfl⟩ (Or.inl rfl) (Or.inr rfl) (Or.inl rfl) (Or.inl rfl) h7 ?_
    intro hok
    refine ⟨?_, hok.ck3 (unlinkQ q6) (query?_mem hq7), fun _ => rfl,
      fun _ _ => Or.inr rfl, fun _ _ fd hc => (by cases hc), fun fd hc => (by cases hc)⟩
    intro c hc
    rw [cr1_none] at hc
    rw [cr1_self]
    unfold potP at hc ⊢
    dsimp only [unlinkQ] at hc ⊢
    simp only [hu, ↓reduceIte, Bool.false_eq_true] at hc ⊢
    omega
  have hq8 : ((s6.removeFromConn key).modQuery key fun q => { q with usingTcp := true }).query? key =
      some { unlinkQ q6 with usingTcp := true } := by
    rw [query?_modQuery_self, hq7]
    · rfl
    · intro _; rfl
  refine CInv.lift h8 rfl ?_
  intro hok
  have hk := query?_key hq8
  have hm := query?_mem hq8
  have hp := COk.push' _ hm srv key hk hok
  rw [hqid]
  exact hp

theorem bodyProcessAnswer_c {go : Call → St → St × Ret} (hgo : GoC tr ns go) (fd : Nat) (r : Reply) (s : St)
    (h : CInv tr ns none none s) : CInv tr ns none none (bodyProcessAnswer go fd r s).1 := by
  rcases h with hoof | hok0
  · exact Or.inl (bodyProcessAnswer_oof (go := go) hgo.oof fd r s hoof)
  have h : CInv tr ns none none s := Or.inr hok0
  unfold bodyProcessAnswer
  split
  · exact CInv.mfault h
  rename_i c hc
  split
  · exact h
  split
  · exact h
  split
  · exact h
  rename_i qid key hfind
  split
  · exact CInv.mfault h
  rename_i q hq
  split
  · exact h
  rename_i hconn
  have hcn : q.conn = some fd := by simpa using hconn
  extract_lets sameQ srvNow respCk vo s1 s2
  split
  · exact h
  have hv := validate_counters srvNow.cookie { cookieTry := q.cookieTry, usingTcp := q.usingTcp }
    (if q.edns then q.reqCookie else none) respCk r.rcode s.tv
  have h1 : CInv tr ns none none s1 := CInv.modServer (fun _ => Or.inl rfl) h
  have hq1 : s1.query? key = some q := hq
  split
  rename_i s3 r3 he3
  cases hrq : vo.requeue with
  | true =>
    obtain ⟨hvd, hvc, hvu, hvr⟩ := hv.1 hrq
    dsimp only at hvc hvu
    have h2 : CInv tr ns (some key) (some key) s2 := by
      refine CInv.modKey hq1 _ ⟨rfl, rfl⟩ (Or.inl rfl) (Or.inr rfl) (Or.inl rfl) (Or.inr rfl) h1 ?_
      intro hok
      have hqm := query?_mem hq1
      have hlt : q.cookieTry < 3 := by
        apply Decidable.byContradiction
        intro hge
        rcases hok.ckR q hqm (by simp) (by omega) with hrc | hcn'
        · apply hvr
          rw [hrc]; split <;> rfl
        · rw [hcn] at hcn'; cases hcn'
      refine ⟨?_, ?_, ?_, fun hne => absurd rfl hne, fun hne => absurd rfl hne, fun fd' hc' => hok.attLt q hqm fd' hc'⟩
      · intro c0 hc0
        rw [cr1_none] at hc0
        rw [cr1_self]
        have e : potP (cproj s1) q + 1 ≤
            potP (cproj s1) { q with cookieTry := vo.q.cookieTry, usingTcp := vo.q.usingTcp } := by
          unfold potP
          dsimp only
          rw [hvc, hvu]
          have : (if q.usingTcp = true then 1 else 0) ≤
              (if (q.usingTcp || decide (q.cookieTry + 1 ≥ 3)) = true then 1 else 0) := by
            cases q.usingTcp
            · simp only [Bool.false_eq_true, ↓reduceIte, Bool.false_or]; exact Nat.zero_le _
            · simp
          omega
        omega
      · show vo.q.cookieTry ≤ 3
        rw [hvc]; omega
      · show 3 ≤ vo.q.cookieTry → vo.q.usingTcp = true
        rw [hvc, hvu]
        intro h3
        have : decide (q.cookieTry + 1 ≥ 3) = true := by simpa using h3
        rw [this]; simp
    rw [hrq] at he3
    simp only [↓reduceIte] at he3
    have h3 : CInv tr ns none none s3 := by
      have := hgo.inv (.requeue key .ok false none true) s2 h2
      rw [he3] at this; exact this
    split
    · exact h3
    · rename_i hnd
      exact absurd (by rw [hvd]; rfl) hnd
  | false =>
    have hvq := hv.2 hrq
    have hvc : vo.q.cookieTry = q.cookieTry := by rw [hvq]
    have hvu : vo.q.usingTcp = q.usingTcp := by rw [hvq]
    have h2 : CInv tr ns none none s2 := by
      refine CInv.modKey hq1 _ ⟨rfl, rfl⟩ (Or.inl rfl) (Or.inl rfl) (Or.inl rfl) (Or.inl rfl) h1 ?_
      intro hok
      have hqm := query?_mem hq1
      refine ⟨?_, ?_, ?_, ?_, ?_, fun fd' hc' => hok.attLt q hqm fd' hc'⟩
      · intro c0 hc0
        have e : potP (cproj s1) { q with cookieTry := vo.q.cookieTry, usingTcp := vo.q.usingTcp } =
            potP (cproj s1) q := by
          unfold potP
          dsimp only
          rw [hvc, hvu]
        rw [e]; exact hc0
      · show vo.q.cookieTry ≤ 3
        rw [hvc]; exact hok.ck3 q hqm
      · show 3 ≤ vo.q.cookieTry → vo.q.usingTcp = true
        rw [hvc, hvu]; exact hok.ck3tcp q hqm
      · intro _
        show 3 ≤ vo.q.cookieTry → q.reqCookie = none ∨ q.conn = none
        rw [hvc]; exact hok.ckR q hqm (by simp)
      · intro _
        show vo.q.usingTcp = true → ∀ fd', q.conn = some fd' → _
        rw [hvu]; exact hok.attTcp q hqm (by simp)
    rw [hrq] at he3
    simp only [Bool.false_eq_true, ↓reduceIte, Prod.mk.injEq] at he3
    obtain ⟨rfl, _⟩ := he3
    split
    · exact h2
    · -- the reply is accepted
      have hq2 : s2.query? key = some { q with cookieTry := vo.q.cookieTry, usingTcp := vo.q.usingTcp } := by
        show (s1.modQuery key _).query? key = _
        rw [query?_modQuery_self, hq1]
        · rfl
        · intro _; rfl
      extract_lets q' s4 s5 s6 ednsIssue
      have hq'e : q' = { q with cookieTry := vo.q.cookieTry, usingTcp := vo.q.usingTcp } := by
        show (s2.query? key).getD q = _
        rw [hq2]; rfl
      have h6 : CInv tr ns none none s6 := by
        show CInv tr ns none none (s5.modQuery key _)
        refine CInv.modQuery (fun _ => ⟨rfl, rfl, rfl, rfl, rfl, rfl, rfl, rfl⟩) ?_
        show CInv tr ns none none (s4.modConn _ _)
        refine CInv.modConn (fun _ => ⟨rfl, rfl⟩) ?_
        exact CInv.congr (s := s2) rfl rfl rfl h2
      have hq6 : s6.query? key = some { q' with inConnList := false } := by
        show (s5.modQuery key _).query? key = _
        rw [query?_modQuery_self]
        · show Option.map _ (s2.query? key) = _
          rw [hq2, hq'e]; rfl
        · intro _; rfl
      split
      · -- EDNS downgrade
        rename_i hed
        have hedns : ({ q' with inConnList := false } : Query).edns = true := by
          have hed' : (r.rcode == 1 && q'.edns && (!r.hasOpt || (q'.reqCookie.isSome && r.hasOpt))) = true := hed
          simp only [Bool.and_eq_true] at hed'
          exact hed'.1.2
        exact edns_push q'.qid (some c.srv) h6 hq6 hedns rfl
      · split
        · -- truncated over UDP: upgrade to TCP
          rename_i htc
          have hctcp : c.tcp = false := by
            simp only [Bool.and_eq_true, Bool.not_eq_eq_eq_not, Bool.not_true] at htc
            exact htc.1.2
          have hnu : ({ q' with inConnList := false } : Query).usingTcp = false := by
            show q'.usingTcp = false
            rw [hq'e]
            show vo.q.usingTcp = false
            rw [hvu]
            -- a query that uses TCP is attached to TCP connections only
            have hok := hok0
            · apply Decidable.byContradiction
              intro hne
              have hu : q.usingTcp = true := by simpa using hne
              have := hok.attTcp q (query?_mem hq) (by simp) hu fd hcn c.tcp (by
                rw [kindOf_conn?, hc]; rfl)
              rw [hctcp] at this; cases this
          exact tc_push q'.qid none h6 hq6 hnu rfl
        · split
          · repeat' (c_step hgo)
          · repeat' (c_step hgo)

/-! ### every procedure, any fuel -/

theorem execBody_c {go : Call → St → St × Ret} (hgo : GoC tr ns go) (c : Call) (s : St) (h : PreC tr ns c s) :
    CInv tr ns none none (execBody go c s).1 := by
  cases c <;> (unfold execBody; dsimp only)
  case sendNolock a1 a2 a3 a4 a5 a6 => exact bodySendNolock_c hgo a1 a2 a3 a4 a5 a6 s h
  case sendQuery a1 a2 => exact bodySendQuery_c hgo a1 a2 s h
  case requeue a1 a2 a3 a4 a5 => exact bodyRequeue_c hgo a1 a2 a3 a4 a5 s h
  case endQuery a1 a2 a3 a4 => exact bodyEndQuery_c hgo a1 a2 a3 a4 s h
  case callback a1 a2 a3 a4 a5 => exact bodyCallback_c hgo a1 a2 a3 a4 a5 s h
  case reactions a1 => exact bodyReactions_c hgo a1 s h
  case closeConn a1 a2 => exact bodyCloseConn_c hgo a1 a2 s h
  case closeLoop a1 a2 => exact bodyCloseLoop_c hgo a1 a2 s h
  case connError a1 a2 a3 => exact bodyConnError_c hgo a1 a2 a3 s h
  case flush a1 => exact bodyFlush_c hgo a1 s h
  case processWrite a1 => exact bodyProcessWrite_c hgo a1 s h
  case processRead a1 => exact bodyProcessRead_c hgo a1 s h
  case readAnswers a1 => exact bodyReadAnswers_c hgo a1 s h
  case processAnswer a1 a2 => exact bodyProcessAnswer_c hgo a1 a2 s h
  case flushRequeue => exact bodyFlushRequeue_c hgo s h
  case processTimeouts => exact bodyProcessTimeouts_c hgo s h
  case cleanupConns a1 => exact bodyCleanupConns_c hgo a1 s h
  case cancel => exact bodyCancel_c hgo s h
  case cancelLoop a1 a2 => exact bodyCancelLoop_c hgo a1 a2 s h
  case destroy => exact bodyDestroy_c hgo s h
  case probe a1 a2 => exact bodyProbe_c hgo a1 a2 s h
  case clientStart a1 a2 a3 a4 a5 => exact bodyClientStart_c hgo a1 a2 a3 a4 a5 s h
  case runActs a1 a2 => exact bodyRunActs_c hgo a1 a2 s h
  case userCb a1 a2 a3 a4 a5 => exact bodyUserCb_c hgo a1 a2 a3 a4 a5 s h

theorem exec_goc (n : Nat) : GoC tr ns (exec n) := by
  induction n with
  | zero =>
    exact { inv := fun c s _ => Or.inl rfl
            flush := fun fd s0 s h => exec_flush_rel 0 fd s0 s h
            oof := fun c s _ => rfl }
  | succ n ih =>
    exact { inv := fun c s h => execBody_c ih c s h
            flush := fun fd s0 s h => exec_flush_rel (n + 1) fd s0 s h
            oof := fun c s h => exec_oof (n + 1) c s h }

/-- **the accounting invariant is kept by every procedure run** -/
theorem exec_c (fuel : Nat) (c : Call) (s : St) (h : PreC tr ns c s) : CInv tr ns none none (exec fuel c s).1 :=
  (exec_goc fuel).inv c s h

end
end Cares.Chan
