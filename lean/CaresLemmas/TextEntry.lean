import CaresLemmas.TextCsv
import CaresLemmas.TextPton
/-! Helper lemmas for C16: the per-entry round trip (`entryOk`) proved for every IPv4 server with equal
    UDP/TCP ports — render `a.b.c.d:port`, reject it as a URI, parse it with `parse_nameserver`. -/
namespace Cares.Text

/-- the decimal digits of a number below 100000, explicitly -/
theorem showDec_5 (n : Nat) (h : n < 100000) :
    showDec n = if n < 10 then [48 + n] else if n < 100 then [48 + n / 10, 48 + n % 10]
      else if n < 1000 then [48 + n / 100, 48 + n / 10 % 10, 48 + n % 10]
      else if n < 10000 then [48 + n / 1000, 48 + n / 100 % 10, 48 + n / 10 % 10, 48 + n % 10]
      else [48 + n / 10000, 48 + n / 1000 % 10, 48 + n / 100 % 10, 48 + n / 10 % 10, 48 + n % 10] := by
  unfold showDec
  rw [show (40 : Nat) = 35 + 1 + 1 + 1 + 1 + 1 from rfl, showDecAux_step, showDecAux_step, showDecAux_step,
      showDecAux_step, showDecAux_step]
  simp only [Nat.div_div_eq_div_mul, Nat.reduceMul]
  by_cases h1 : n < 10
  · simp only [h1, ↓reduceIte]
  · by_cases h2 : n < 100
    · have : n / 10 < 10 := by omega
      simp only [h1, h2, this, ↓reduceIte]
    · have a1 : ¬ n / 10 < 10 := by omega
      by_cases h3 : n < 1000
      · have a2 : n / 100 < 10 := by omega
        simp only [h1, h2, h3, a1, a2, ↓reduceIte]
      · have a2 : ¬ n / 100 < 10 := by omega
        by_cases h4 : n < 10000
        · have a3 : n / 1000 < 10 := by omega
          simp only [h1, h2, h3, h4, a1, a2, a3, ↓reduceIte]
        · have a3 : ¬ n / 1000 < 10 := by omega
          have a4 : n / 10000 < 10 := by omega
          simp only [h1, h2, h3, h4, a1, a2, a3, a4, ↓reduceIte]

/-- what is needed about the text of a port number -/
theorem showDec_port (n : Nat) (h : n < 65536) :
    (showDec n).all isDigit = true ∧ showDec n ≠ [] ∧ (showDec n).length ≤ 5 ∧ decVal (showDec n) = n := by
  rw [showDec_5 n (by omega)]
  by_cases h1 : n < 10
  · simp only [h1, ↓reduceIte, List.all_cons, List.all_nil, Bool.and_true, isDigit_add n h1]
    refine ⟨trivial, by simp, by simp, ?_⟩
    simp [decVal]
  · by_cases h2 : n < 100
    · simp only [h1, h2, ↓reduceIte, List.all_cons, List.all_nil, Bool.and_true, isDigit_add (n / 10) (by omega),
        isDigit_add (n % 10) (by omega)]
      refine ⟨trivial, by simp, by simp, ?_⟩
      simp [decVal]; omega
    · by_cases h3 : n < 1000
      · simp only [h1, h2, h3, ↓reduceIte, List.all_cons, List.all_nil, Bool.and_true, isDigit_add (n / 100) (by omega),
          isDigit_add (n / 10 % 10) (by omega), isDigit_add (n % 10) (by omega)]
        refine ⟨trivial, by simp, by simp, ?_⟩
        simp [decVal]; omega
      · by_cases h4 : n < 10000
        · simp only [h1, h2, h3, h4, ↓reduceIte, List.all_cons, List.all_nil, Bool.and_true, isDigit_add (n / 1000) (by omega),
            isDigit_add (n / 100 % 10) (by omega), isDigit_add (n / 10 % 10) (by omega), isDigit_add (n % 10) (by omega)]
          refine ⟨trivial, by simp, by simp, ?_⟩
          simp [decVal]; omega
        · simp only [h1, h2, h3, h4, ↓reduceIte, List.all_cons, List.all_nil, Bool.and_true, isDigit_add (n / 10000) (by omega),
            isDigit_add (n / 1000 % 10) (by omega), isDigit_add (n / 100 % 10) (by omega), isDigit_add (n / 10 % 10) (by omega),
            isDigit_add (n % 10) (by omega)]
          refine ⟨trivial, by simp, by simp, ?_⟩
          simp [decVal]; omega

theorem takeWhile_append_stop {α} (p : α → Bool) (xs : List α) (y : α) (ys : List α)
    (hx : xs.all p = true) (hy : p y = false) : (xs ++ y :: ys).takeWhile p = xs ∧ (xs ++ y :: ys).dropWhile p = y :: ys := by
  induction xs with
  | nil => simp [hy]
  | cons x r ih =>
    simp only [List.all_cons, Bool.and_eq_true] at hx
    simp [hx.1, ih hx.2]

theorem takeWhile_all {α} (p : α → Bool) (xs : List α) (hx : xs.all p = true) :
    xs.takeWhile p = xs ∧ xs.dropWhile p = [] := by
  induction xs with
  | nil => simp
  | cons x r ih =>
    simp only [List.all_cons, Bool.and_eq_true] at hx
    simp [hx.1, ih hx.2]

theorem showDec_octet (n : Nat) (h : n < 256) :
    (showDec n).all isDigit = true ∧ 1 ≤ (showDec n).length ∧ (showDec n).length ≤ 3 := by
  rw [showDec_small n (by omega)]
  by_cases h1 : n < 10
  · simp [h1, isDigit_add n h1]
  · by_cases h2 : n < 100
    · simp [h1, h2, isDigit_add (n / 10) (by omega), isDigit_add (n % 10) (by omega)]
    · simp [h1, h2, isDigit_add (n / 100) (by omega), isDigit_add (n / 10 % 10) (by omega), isDigit_add (n % 10) (by omega)]

theorem isDigit_props (c : Nat) (h : isDigit c = true) :
    inCharset ipv4Charset c = true ∧ isPrint c = true ∧ c ≠ 46 ∧ c ≠ 47 ∧ c ≠ 58 ∧ c ≠ 32 ∧ c ≠ 44 ∧ c ≠ 91 ∧
    isWs true c = false ∧ c ≠ 45 ∧ c ≠ 43 ∧ isSpace c = false := by
  unfold isDigit at h
  simp only [Bool.and_eq_true, decide_eq_true_eq] at h
  have h48 : 48 ≤ c := h.1
  have h57 : c ≤ 57 := h.2
  have hcs : c = 48 ∨ c = 49 ∨ c = 50 ∨ c = 51 ∨ c = 52 ∨ c = 53 ∨ c = 54 ∨ c = 55 ∨ c = 56 ∨ c = 57 := by omega
  refine ⟨?_, ?_, by omega, by omega, by omega, by omega, by omega, by omega, ?_, by omega, by omega, ?_⟩
  · rcases hcs with h | h | h | h | h | h | h | h | h | h <;> subst h <;> decide
  · unfold isPrint; simp; omega
  · rcases hcs with h | h | h | h | h | h | h | h | h | h <;> subst h <;> decide
  · rcases hcs with h | h | h | h | h | h | h | h | h | h <;> subst h <;> decide

theorem takeWhile_prefix {α} (p : α → Bool) (xs ys : List α) (h : (xs.takeWhile p).length < xs.length) :
    (xs ++ ys).takeWhile p = xs.takeWhile p := by
  induction xs with
  | nil => simp at h
  | cons x r ih =>
    by_cases hx : p x = true
    · simp only [List.cons_append, List.takeWhile_cons, hx, ↓reduceIte, List.cons.injEq, true_and]
      apply ih
      simpa [List.takeWhile_cons, hx] using h
    · simp [List.takeWhile_cons, hx]

/-- `parse_nameserver` on `<dotted IPv4 text>:<digits>` -/
theorem parseNameserver_plain (T P : Bytes) (d0 : Nat) (T' : Bytes) (hT0 : T = d0 :: T') (hd0 : isDigit d0 = true)
    (hT : T.all (inCharset ipv4Charset) = true) (hTlen : T.length ≤ 45) (hTprint : allPrint T = true)
    (hpre : (T.takeWhile (· != 46)).length < T.length ∧ 0 < (T.takeWhile (· != 46)).length ∧ (T.takeWhile (· != 46)).length < 4)
    (hP : P.all isDigit = true) (hPne : P ≠ []) (hPlen : P.length ≤ 5) (addr : Addr) (hpton : dnsPton .unspec T = some addr) :
    parseNameserver (T ++ 58 :: P) = .ok { addr := addr, udp := atoiU16 P, tcp := atoiU16 P, iface := [] } := by
  have hdp := isDigit_props d0 hd0
  have hE0 : T ++ 58 :: P = d0 :: (T' ++ 58 :: P) := by rw [hT0]; rfl
  have hws : (T ++ 58 :: P).dropWhile (isWs true) = T ++ 58 :: P := by
    rw [hE0]; simp [List.dropWhile_cons, hdp.2.2.2.2.2.2.2.2.1]
  have hprePfx : (T ++ 58 :: P).takeWhile (· != 46) = T.takeWhile (· != 46) := takeWhile_prefix _ _ _ hpre.1
  have h58 : inCharset ipv4Charset 58 = false := by decide
  obtain ⟨htok, hrest⟩ := takeWhile_append_stop (inCharset ipv4Charset) T 58 P hT h58
  have hnsIp : nsIp (T ++ 58 :: P) = .ok (T, 58 :: P) := by
    unfold nsIp
    rw [hE0]
    split
    · rename_i r heq
      simp only [List.cons.injEq] at heq
      exact absurd heq.1 hdp.2.2.2.2.2.2.2.1
    · rw [← hE0]
      simp only [hprePfx]
      have hfound : decide ((T.takeWhile (· != 46)).length < (T ++ 58 :: P).length) = true := by
        simp only [List.length_append, List.length_cons, decide_eq_true_eq]; omega
      have hgt : decide ((T.takeWhile (· != 46)).length > 0) = true := by simpa using hpre.2.1
      have hlt : decide ((T.takeWhile (· != 46)).length < 4) = true := by simpa using hpre.2.2
      simp only [hfound, hgt, hlt, Bool.and_self, ↓reduceIte, htok, hrest]
      have hne : T.isEmpty = false := by rw [hT0]; rfl
      simp only [hne, Bool.false_eq_true, ↓reduceIte]
      have hf : fetchString 46 T = .ok T := by
        unfold fetchString
        have : ¬ (46 - 1 < T.length) := by omega
        simp [this, hTprint]
      rw [hf]
  have hPtake := takeWhile_all isDigit P hP
  have hPprint : allPrint P = true := by
    unfold allPrint
    rw [List.all_eq_true] at hP ⊢
    intro x hx
    exact (isDigit_props x (hP x hx)).2.1
  have hnsPort : nsPort (58 :: P) = .ok (atoiU16 P, []) := by
    unfold nsPort
    simp only [hPtake.1, hPtake.2]
    have hne : P.isEmpty = false := by cases P <;> simp_all
    simp only [hne, Bool.false_eq_true, ↓reduceIte]
    have hf : fetchString 6 P = .ok P := by
      unfold fetchString
      have : ¬ (6 - 1 < P.length) := by omega
      simp [this, hPprint]
    rw [hf]
  unfold parseNameserver
  rw [hws, hnsIp]
  simp only [hpton, hnsPort]
  simp [nsIface]

theorem atoiU16_digits (P : Bytes) (hP : P.all isDigit = true) (hne : P ≠ []) (hv : decVal P < 65536) :
    atoiU16 P = decVal P := by
  obtain ⟨c, r, rfl⟩ : ∃ c r, P = c :: r := by cases P with
    | nil => exact absurd rfl hne
    | cons c r => exact ⟨c, r, rfl⟩
  have hc : isDigit c = true := by simp only [List.all_cons, Bool.and_eq_true] at hP; exact hP.1
  have hdp := isDigit_props c hc
  have htw := (takeWhile_all isDigit (c :: r) hP).1
  unfold atoiU16 atoi strtol10
  simp only [List.dropWhile_cons, hdp.2.2.2.2.2.2.2.2.2.2.2, Bool.false_eq_true, ↓reduceIte]
  have hmatch : splitSign (c :: r) = (false, c :: r) := by
    unfold splitSign
    split
    · rename_i r' heq; simp only [List.cons.injEq] at heq; exact absurd heq.1 hdp.2.2.2.2.2.2.2.2.2.1
    · rename_i r' heq; simp only [List.cons.injEq] at heq; exact absurd heq.1 hdp.2.2.2.2.2.2.2.2.2.2.1
    · rfl
  rw [hmatch]
  simp only [htw, Bool.false_eq_true, ↓reduceIte]
  have h1 : ¬ (decVal (c :: r) > 9223372036854775807) := by omega
  simp only [h1, ↓reduceIte]
  have h2 : ((decVal (c :: r) : Int) % 18446744073709551616).toNat = decVal (c :: r) := by
    rw [Int.emod_eq_of_lt (by omega) (by omega)]; simp
  rw [h2, toInt32_small _ (by omega)]
  have h3 : ((decVal (c :: r) : Int) % 65536) = decVal (c :: r) := Int.emod_eq_of_lt (by omega) (by omega)
  rw [h3]; simp

theorem findSeq_none (t : Bytes) (h : ∀ c ∈ t, c ≠ 47) : findSeq [58, 47, 47] t = none := by
  induction t with
  | nil => simp [findSeq]
  | cons c r ih =>
    unfold findSeq
    have hne : ((c :: r).take [58, 47, 47].length == [58, 47, 47]) = false := by
      cases r with
      | nil => simp
      | cons c2 r2 =>
        have h2 : c2 ≠ 47 := h c2 (by simp)
        cases r2 with
        | nil => simp
        | cons c3 r3 => simp [h2]
    simp only [hne, Bool.false_eq_true, ↓reduceIte, ih (fun x hx => h x (List.mem_cons_of_mem _ hx)), Option.map_none]

theorem parseNameserverUri_noslash (t : Bytes) (h : ∀ c ∈ t, c ≠ 47) : ∃ e, parseNameserverUri t = .error e := by
  unfold parseNameserverUri uriParse
  rw [findSeq_none t h]
  exact ⟨_, rfl⟩

/-- shape of a rendered IPv4 address -/
theorem ntop4_shape (a b c d : Nat) (ha : a < 256) (hb : b < 256) (hc : c < 256) (hd : d < 256) :
    ∃ d0 T', ntop4 [a, b, c, d] = d0 :: T' ∧ isDigit d0 = true ∧
      (ntop4 [a, b, c, d]).all (inCharset ipv4Charset) = true ∧ (ntop4 [a, b, c, d]).length ≤ 15 ∧
      allPrint (ntop4 [a, b, c, d]) = true ∧
      ((ntop4 [a, b, c, d]).takeWhile (· != 46)).length < (ntop4 [a, b, c, d]).length ∧
      0 < ((ntop4 [a, b, c, d]).takeWhile (· != 46)).length ∧ ((ntop4 [a, b, c, d]).takeWhile (· != 46)).length < 4 ∧
      (∀ x ∈ ntop4 [a, b, c, d], x ≠ 47 ∧ x ≠ 32 ∧ x ≠ 44 ∧ x ≠ 58) := by
  obtain ⟨a1, a2, a3⟩ := showDec_octet a ha
  obtain ⟨b1, b2, b3⟩ := showDec_octet b hb
  obtain ⟨c1, c2, c3⟩ := showDec_octet c hc
  obtain ⟨d1, d2, d3⟩ := showDec_octet d hd
  have hT : ntop4 [a, b, c, d] = showDec a ++ 46 :: (showDec b ++ 46 :: (showDec c ++ 46 :: showDec d)) := by
    simp [ntop4]
  rw [hT]
  generalize showDec a = A at a1 a2 a3
  generalize showDec b = B at b1 b2 b3
  generalize showDec c = C at c1 c2 c3
  generalize showDec d = D at d1 d2 d3
  have hdig : ∀ (L : Bytes), L.all isDigit = true → ∀ x ∈ L, inCharset ipv4Charset x = true ∧ isPrint x = true ∧
      x ≠ 46 ∧ x ≠ 47 ∧ x ≠ 32 ∧ x ≠ 44 ∧ x ≠ 58 := by
    intro L hL x hx
    have := isDigit_props x (List.all_eq_true.mp hL x hx)
    exact ⟨this.1, this.2.1, this.2.2.1, this.2.2.2.1, this.2.2.2.2.2.1, this.2.2.2.2.2.2.1, this.2.2.2.2.1⟩
  have hmem : ∀ x ∈ A ++ 46 :: (B ++ 46 :: (C ++ 46 :: D)), x = 46 ∨ isDigit x = true := by
    intro x hx
    simp only [List.mem_append, List.mem_cons] at hx
    rcases hx with h | h | h | h | h | h | h
    · exact Or.inr (List.all_eq_true.mp a1 x h)
    · exact Or.inl h
    · exact Or.inr (List.all_eq_true.mp b1 x h)
    · exact Or.inl h
    · exact Or.inr (List.all_eq_true.mp c1 x h)
    · exact Or.inl h
    · exact Or.inr (List.all_eq_true.mp d1 x h)
  obtain ⟨x0, A', rfl⟩ : ∃ x0 A', A = x0 :: A' := by cases A with
    | nil => simp at a2
    | cons x0 A' => exact ⟨x0, A', rfl⟩
  have hx0 : isDigit x0 = true := by simp only [List.all_cons, Bool.and_eq_true] at a1; exact a1.1
  have hA46 : (x0 :: A').all (· != 46) = true := by
    rw [List.all_eq_true]
    intro x hx
    have := (hdig _ a1 x hx).2.2.1
    simpa using this
  obtain ⟨tw, _⟩ := takeWhile_append_stop (· != 46) (x0 :: A') 46 (B ++ 46 :: (C ++ 46 :: D)) hA46 (by decide)
  refine ⟨x0, A' ++ 46 :: (B ++ 46 :: (C ++ 46 :: D)), rfl, hx0, ?_, ?_, ?_, ?_, ?_, ?_, ?_⟩
  · rw [List.all_eq_true]
    intro x hx
    rcases hmem x hx with h | h
    · subst h; decide
    · exact (isDigit_props x h).1
  · simp only [List.length_append, List.length_cons] at a3 ⊢; omega
  · unfold allPrint
    rw [List.all_eq_true]
    intro x hx
    rcases hmem x hx with h | h
    · subst h; decide
    · exact (isDigit_props x h).2.1
  · rw [tw]; simp only [List.length_append, List.length_cons]; omega
  · rw [tw]; simp
  · rw [tw]; exact Nat.lt_succ_of_le a3
  · intro x hx
    rcases hmem x hx with h | h
    · subst h; decide
    · have := isDigit_props x h
      exact ⟨this.2.2.2.1, this.2.2.2.2.2.1, this.2.2.2.2.2.2.1, this.2.2.2.2.1⟩

/-- **the per-entry hypothesis holds for every IPv4 server with equal UDP/TCP ports**: rendering it as
    `a.b.c.d:port` and parsing the text gives the server back -/
theorem entryOk_v4_plain (ifs : Ifaces) (a b c d p : Nat) (ha : a < 256) (hb : b < 256) (hc : c < 256) (hd : d < 256)
    (hp : p < 65536) :
    entryOk ifs { addr := .v4 [a, b, c, d], udp := p, tcp := p, iface := [], scope := 0 } = true := by
  obtain ⟨d0, T', hT0, hd0, hTall, hTlen, hTprint, hpre1, hpre2, hpre3, hTmem⟩ := ntop4_shape a b c d ha hb hc hd
  obtain ⟨hPd, hPne, hPlen, hPval⟩ := showDec_port p hp
  have hstr : serverAddrStr { addr := .v4 [a, b, c, d], udp := p, tcp := p, iface := [], scope := 0 } =
      some (ntop4 [a, b, c, d] ++ 58 :: showDec p) := by
    simp [serverAddrStr, ntop, Addr.isV6]
  have hparse := parseNameserver_plain (ntop4 [a, b, c, d]) (showDec p) d0 T' hT0 hd0 hTall (by omega) hTprint
    ⟨hpre1, hpre2, hpre3⟩ hPd hPne hPlen (.v4 [a, b, c, d]) (dnsPton_ntop_v4 a b c d ha hb hc hd)
  rw [atoiU16_digits _ hPd hPne (by omega), hPval] at hparse
  have hmemE : ∀ x ∈ ntop4 [a, b, c, d] ++ 58 :: showDec p, x ≠ 47 ∧ x ≠ 32 ∧ x ≠ 44 := by
    intro x hx
    simp only [List.mem_append, List.mem_cons] at hx
    rcases hx with h | h | h
    · exact ⟨(hTmem x h).1, (hTmem x h).2.1, (hTmem x h).2.2.1⟩
    · subst h; decide
    · have := isDigit_props x (List.all_eq_true.mp hPd x h)
      exact ⟨this.2.2.2.1, this.2.2.2.2.2.1, this.2.2.2.2.2.2.1⟩
  obtain ⟨e, huri⟩ := parseNameserverUri_noslash _ (fun x hx => (hmemE x hx).1)
  have hentry : parseServerEntry (ntop4 [a, b, c, d] ++ 58 :: showDec p) =
      .ok { addr := .v4 [a, b, c, d], udp := p, tcp := p, iface := [] } := by
    unfold parseServerEntry
    rw [huri]
    exact hparse
  have hclean : cleanEntry (ntop4 [a, b, c, d] ++ 58 :: showDec p) = true := by
    unfold cleanEntry
    simp only [Bool.and_eq_true, Bool.not_eq_eq_eq_not, Bool.not_true]
    constructor
    · rw [hT0]; rfl
    · rw [List.all_eq_true]
      intro x hx
      have := hmemE x hx
      simp [isDigit, isDelim, this.2.1, this.2.2]
  unfold entryOk
  rw [hstr]
  simp only [hclean, Bool.true_and, hentry]
  simp [sconfigAppend, isBlacklisted, isLinkLocal, sconfigOf]

end Cares.Text
