import CaresLemmas.ChanWfStep
/-!
# C01 — `detach` and `freeQuery` on the skeleton
-/
namespace Cares.Chan

/-! ### shrinking the set of linked keys / live queries keeps the groups that only mention them in
hypotheses -/

theorem WfTokP.shrink {qKO qKO' : List (Nat × Owner)} {idx idx' : List Nat} {cl pend done rs}
    (h : WfTokP qKO idx cl pend done rs) (hq : ∀ p ∈ qKO', p ∈ qKO) (hi : ∀ x ∈ idx', x ∈ idx) :
    WfTokP qKO' idx' cl pend done rs where
  pN := h.pN
  dN := h.dN
  disj := h.disj
  pB := h.pB
  dB := h.dB
  tQ := fun p hp hpi tok ho => by
    obtain ⟨h1, h2, h3⟩ := h.tQ p (hq p hp) (hi _ hpi) tok ho
    exact ⟨h1, fun p' hp' hpi' ho' => h2 p' (hq p' hp') (hi _ hpi') ho', h3⟩
  tC := fun p hp hpi id ho => h.tC p (hq p hp) (hi _ hpi) id ho
  tK := h.tK
  tKU := h.tKU

theorem NoSubP.shrink {qKO qKO' : List (Nat × Owner)} {idx idx' : List Nat} {id : Nat}
    (h : NoSubP qKO idx id) (hq : ∀ p ∈ qKO', p ∈ qKO) (hi : ∀ x ∈ idx', x ∈ idx) : NoSubP qKO' idx' id :=
  fun p hp hpi => h p (hq p hp) (hi _ hpi)

section
variable {a : Sk} {hole : Option Nat} {k : Nat} {e : QSk}

theorem Sk.detach_eq (hq : a.q? k = some e) :
    a.detach k = { a.removeFromConn k with
      byQid := a.byQid.filter (fun (p : Nat × Nat) => !(p.1 == e.qid && p.2 == k)),
      all := a.all.erase k, listCopy := a.listCopy.map (·.erase k) } := by
  unfold Sk.detach; rw [hq]; simp only [rfc_byQid, rfc_all, rfc_listCopy]

/-- linked after `detach k` = linked before and different from `k` -/
theorem mem_idx_detach (h : WfS a hole) (hq : a.q? k = some e) {x : Nat} :
    x ∈ (a.detach k).idx ↔ x ∈ a.idx ∧ x ≠ k := by
  rw [Sk.detach_eq hq]
  simp only [Sk.idx, List.mem_map, List.mem_filter, Bool.not_eq_true', Bool.and_eq_false_iff, beq_eq_false_iff_ne]
  constructor
  · rintro ⟨p, ⟨hp, hne⟩, rfl⟩
    refine ⟨⟨p, hp, rfl⟩, fun hk => ?_⟩
    rcases hne with hne | hne
    · have h1 := h.i.qidLive p hp
      rw [hk] at h1
      exact hne (Sk.qKQ_unique h.q.nodup h1 (Sk.q?_mem_proj hq).2.2.1)
    · exact hne hk
  · rintro ⟨⟨p, hp, rfl⟩, hne⟩
    exact ⟨p, ⟨hp, Or.inr hne⟩, rfl⟩

theorem flatten_map_erase_sublist (l : List (List Nat)) (k : Nat) :
    (l.map (·.erase k)).flatten.Sublist l.flatten := by
  induction l with
  | nil => exact List.Sublist.refl _
  | cons x r ih =>
    simp only [List.map_cons, List.flatten_cons]
    exact List.Sublist.append List.erase_sublist ih

/-- everything except the three index lists is as after `removeFromConn` -/
theorem detach_same (hq : a.q? k = some e) :
    (a.detach k).qs = (a.removeFromConn k).qs ∧ (a.detach k).conns = (a.removeFromConn k).conns ∧
    (a.detach k).byTimeout = a.byTimeout.erase k ∧ (a.detach k).pendingOrder = a.pendingOrder.erase k ∧
    (a.detach k).servers = a.servers ∧ (a.detach k).clients = a.clients ∧ (a.detach k).socks = a.socks ∧
    (a.detach k).nextKey = a.nextKey ∧ (a.detach k).nextFd = a.nextFd ∧
    (a.detach k).nextClient = a.nextClient ∧ (a.detach k).reactSeq = a.reactSeq ∧
    (a.detach k).pendingToks = a.pendingToks ∧ (a.detach k).doneToks = a.doneToks ∧
    (a.detach k).faults = a.faults ∧ (a.detach k).all = a.all.erase k ∧
    (a.detach k).listCopy = a.listCopy.map (·.erase k) ∧
    (a.detach k).byQid = a.byQid.filter (fun (p : Nat × Nat) => !(p.1 == e.qid && p.2 == k)) := by
  rw [Sk.detach_eq hq]
  simp only [rfc_servers, rfc_clients, rfc_socks, rfc_nextKey, rfc_nextFd, rfc_nextClient, rfc_reactSeq,
    rfc_pendingToks, rfc_doneToks, rfc_faults, rfc_bt hq, rfc_po hq, and_self]

theorem wf_detach (h : WfS a hole) (hh : hole = none ∨ hole = some k) (hq : a.q? k = some e) :
    WfS (a.detach k) none := by
  have h1 := wf_rfc h hh hq
  have hs := detach_same hq
  have hidx : ∀ x, x ∈ (a.detach k).idx ↔ x ∈ a.idx ∧ x ≠ k := fun x => mem_idx_detach h hq
  have eqK : (a.detach k).qK = a.qK := by unfold Sk.qK; rw [hs.1]; exact rfc_qK a k
  have eqKQ : (a.detach k).qKQ = a.qKQ := by unfold Sk.qKQ; rw [hs.1]; exact rfc_qKQ a k
  have eqKO : (a.detach k).qKO = a.qKO := by unfold Sk.qKO; rw [hs.1]; exact rfc_qKO a k
  have eqKC : (a.detach k).qKC = (a.removeFromConn k).qKC := by unfold Sk.qKC; rw [hs.1]
  have eqFQ : (a.detach k).cFQ = (a.removeFromConn k).cFQ := by unfold Sk.cFQ; rw [hs.2.1]
  have eqF4 : (a.detach k).cF4 = a.cF4 := by unfold Sk.cF4; rw [hs.2.1]; exact rfc_cF4 a k
  constructor
  · rw [eqK, hs.2.2.2.2.2.2.2.1]; exact h.q
  · rw [eqKQ, hs.2.2.2.2.2.2.2.2.2.2.2.2.2.2.1, hs.2.2.2.2.2.2.2.2.2.2.2.2.2.2.2.1,
      hs.2.2.2.2.2.2.2.2.2.2.2.2.2.2.2.2]
    have hi := h.i
    have hidx' : ∀ x, x ∈ (a.byQid.filter (fun (p : Nat × Nat) => !(p.1 == e.qid && p.2 == k))).map (·.2) ↔
        x ∈ a.idx ∧ x ≠ k := by
      intro x; rw [← hs.2.2.2.2.2.2.2.2.2.2.2.2.2.2.2.2]; exact hidx x
    constructor
    · intro p hp; exact hi.qidLive p (List.mem_filter.mp hp).1
    · exact hi.allNodup.erase k
    · intro x hx
      have := (List.Nodup.mem_erase_iff hi.allNodup).mp hx
      exact (hidx' x).mpr ⟨hi.allIdx x this.2, this.1⟩
    · intro l' hl'
      obtain ⟨l, hl, rfl⟩ := List.mem_map.mp hl'
      obtain ⟨hn, hm⟩ := hi.lcOk l hl
      refine ⟨hn.erase k, fun x hx => ?_⟩
      have := (List.Nodup.mem_erase_iff hn).mp hx
      exact (hidx' x).mpr ⟨hm x this.2, this.1⟩
    · exact (List.Sublist.append List.erase_sublist (flatten_map_erase_sublist _ _)).nodup hi.disj
    · intro x hx
      obtain ⟨hxi, hne⟩ := (hidx' x).mp hx
      rcases hi.nl x hxi with h' | ⟨l, hl, hxl⟩
      · exact Or.inl ((List.mem_erase_of_ne hne).mpr h')
      · exact Or.inr ⟨l.erase k, List.mem_map.mpr ⟨l, hl, rfl⟩, (List.mem_erase_of_ne hne).mpr hxl⟩
  · rw [eqKC, hs.2.2.1, hs.2.2.2.1]
    have ht := h1.t
    rw [rfc_bt hq, rfc_po hq, rfc_idx] at ht
    refine ⟨ht.btNodup, fun x hx => ?_, ht.poNodup, fun x hx => ?_⟩
    · obtain ⟨hi, hc⟩ := ht.btOk x hx
      exact ⟨(hidx x).mpr ⟨hi, ((List.Nodup.mem_erase_iff h.t.btNodup).mp hx).1⟩, hc⟩
    · obtain ⟨hi, hc⟩ := ht.poOk x hx
      exact ⟨(hidx x).mpr ⟨hi, ((List.Nodup.mem_erase_iff h.t.poNodup).mp hx).1⟩, hc⟩
  · rw [eqKC, eqFQ, hs.2.2.2.2.2.2.2.2.1, hs.2.2.2.2.2.2.1]
    have hc := h1.c
    rw [rfc_idx, rfc_nextFd, rfc_socks] at hc
    have hnl := rfc_not_listed h hq
    refine ⟨hc.nodup, hc.lt, hc.sock, hc.qNodup, fun c hcm x hx => ?_, hc.qc⟩
    obtain ⟨hi, hm⟩ := hc.cq c hcm x hx
    exact ⟨(hidx x).mpr ⟨hi, fun hxk => hnl c hcm (hxk ▸ hx)⟩, hm⟩
  · rw [eqF4, hs.2.2.2.2.1]; exact h.s
  · rw [hs.2.2.2.2.2.1, hs.2.2.2.2.2.2.2.2.2.1]; exact h.k
  · rw [eqKO, hs.2.2.2.2.2.1, hs.2.2.2.2.2.2.2.2.2.2.2.1, hs.2.2.2.2.2.2.2.2.2.2.2.2.1,
      hs.2.2.2.2.2.2.2.2.2.2.1]
    exact h.tok.shrink (fun _ hp => hp) (fun x hx => ((hidx x).mp hx).1)

end

/-! ### counting sub-requests -/

theorem countP_split_key (l : List (Nat × Owner)) (hn : (l.map (·.1)).Nodup) {k : Nat} {o : Owner}
    (hm : (k, o) ∈ l) (P P' : Nat × Owner → Bool) (hP' : ∀ p ∈ l, p.1 ≠ k → P' p = P p)
    (hk : P' (k, o) = false) : l.countP P = l.countP P' + (if P (k, o) then 1 else 0) := by
  induction l with
  | nil => cases hm
  | cons x r ih =>
    simp only [List.map_cons, List.nodup_cons] at hn
    rcases List.mem_cons.mp hm with hx | hr
    · subst hx
      have hr : r.countP P = r.countP P' := by
        apply List.countP_congr
        intro p hp
        have hne : p.1 ≠ k := fun he => hn.1 (he ▸ List.mem_map.mpr ⟨p, hp, rfl⟩)
        rw [hP' p (List.mem_cons_of_mem _ hp) hne]
      rw [List.countP_cons, List.countP_cons, hr, hk]
      simp
    · have hne : x.1 ≠ k := fun he => hn.1 (he ▸ List.mem_map.mpr ⟨(k, o), hr, rfl⟩)
      have := ih hn.2 hr (fun p hp => hP' p (List.mem_cons_of_mem _ hp))
      rw [List.countP_cons, List.countP_cons, this, hP' x List.mem_cons_self hne]
      omega

theorem subsP_eq_zero {qKO : List (Nat × Owner)} {idx : List Nat} {id : Nat} :
    subsP qKO idx id = 0 ↔ NoSubP qKO idx id := by
  unfold subsP NoSubP
  rw [List.countP_eq_zero]
  simp only [Bool.and_eq_true, decide_eq_true_eq, not_and]

/-- unlinking the query `k` owned by `o` lowers the count of `o`'s compound request by one and leaves the
    other counts alone -/
theorem subsP_unlink {qKO : List (Nat × Owner)} {idx idx' : List Nat} {k : Nat} {o : Owner}
    (hn : (qKO.map (·.1)).Nodup) (hm : (k, o) ∈ qKO) (hk : k ∈ idx)
    (hidx : ∀ x, x ∈ idx' ↔ x ∈ idx ∧ x ≠ k) (id : Nat) :
    subsP qKO idx id = subsP qKO idx' id + (if o = .client id then 1 else 0) := by
  unfold subsP
  rw [countP_split_key qKO hn hm _ (fun p => decide (p.1 ∈ idx') && decide (p.2 = Owner.client id))]
  · simp only [hk, decide_true, Bool.true_and, decide_eq_true_eq]
  · intro p _ hne
    have : (p.1 ∈ idx') = (p.1 ∈ idx) := propext ⟨fun h => ((hidx _).mp h).1, fun h => (hidx _).mpr ⟨h, hne⟩⟩
    simp only [this]
  · have : ¬ k ∈ idx' := fun h => ((hidx _).mp h).2 rfl
    simp [this]

section
variable {a : Sk} {hole : Option Nat} {k : Nat} {e : QSk}

theorem detach_qKO (hq : a.q? k = some e) : (a.detach k).qKO = a.qKO := by
  unfold Sk.qKO; rw [(detach_same hq).1]; exact rfc_qKO a k
theorem detach_cFUQ (hq : a.q? k = some e) : (a.detach k).cFUQ = (a.removeFromConn k).cFUQ := by
  unfold Sk.cFUQ; rw [(detach_same hq).2.1]

/-- the token of the callback that is in flight once a query of the application has been unlinked -/
def ownerTok : Owner → Option Nat
  | .user tok => some tok
  | _ => none

theorem LcSub.map_erase (l : List (List Nat)) (k : Nat) : LcSub (l.map (·.erase k)) l := by
  induction l with
  | nil => exact LcSub.nil
  | cons x r ih => exact LcSub.cons (fun _ h => List.mem_of_mem_erase h) ih

theorem step_detach {xf xi d} (h : WfS a hole) (hq : a.q? k = some e) :
    StepT xf xi (ownerTok e.owner) d a (a.detach k) := by
  have hs := detach_same hq
  have h1 : StepS xf xi d a (a.removeFromConn k) := step_rfc h hq
  refine ⟨hs.2.2.2.2.2.2.2.2.2.2.2.2.2.1, by rw [hs.2.2.2.2.2.2.2.2.2.1]; exact Nat.le_refl _,
    by rw [hs.2.2.2.2.2.2.2.1]; exact Nat.le_refl _,
    fun x hx => Or.inl ((mem_idx_detach h hq).mp hx).1, ?_, ?_, ?_, ?_⟩
  · rw [detach_cFUQ hq]; exact h1.unl
  · intro id _ _ hn
    unfold Sk.NoSub at *
    rw [detach_qKO hq]
    exact hn.shrink (fun _ hp => hp) (fun x hx => ((mem_idx_detach h hq).mp hx).1)
  · intro id ha _
    unfold Sk.Active at *
    rw [hs.2.2.2.2.2.1, hs.2.2.2.2.2.2.2.2.2.2.2.1]; exact ha
  · refine ⟨by rw [hs.2.2.2.2.2.2.2.2.2.2.2.2.1]; exact fun _ h => h, ?_, ?_, ?_, ?_, ?_⟩
    · rw [hs.2.2.2.2.2.2.2.2.2.2.2.2.2.2.2.1]; exact LcSub.map_erase _ _
    · intro x hx; rw [hs.2.2.2.2.2.2.2.2.2.2.2.2.2.2.1] at hx; exact Or.inl (List.mem_of_mem_erase hx)
    · intro hl; rw [detach_qKO hq, hs.2.2.2.2.2.2.2.1]; exact hl
    · intro _ p hp _; rw [detach_qKO hq]; exact hp
    · intro _ p hp hpi hn tok ho
      right
      have hpk : p.1 = k := by
        by_cases he : p.1 = k
        · exact he
        · exact absurd ((mem_idx_detach h hq).mpr ⟨hpi, he⟩) hn
      have hn' : a.qK.Nodup := h.q.nodup
      have : p.2 = e.owner := Sk.qKO_unique hn' (by rw [← hpk]; exact hp) (Sk.q?_mem_proj hq).2.1
      rw [← this, ho]; rfl

/-- after unlinking a linked query its owner's callback is free to be handed over, and the query counts as
    one outstanding completion of its compound request -/
theorem owner_detach {d} (h : WfS a hole) (hq : a.q? k = some e) (hk : k ∈ a.idx) (hd : DebtOk none d a) :
    (a.detach k).OwnerFree e.owner ∧ (a.detach k).DebtFor d e.owner := by
  have hs := detach_same hq
  have hidx : ∀ x, x ∈ (a.detach k).idx ↔ x ∈ a.idx ∧ x ≠ k := fun x => mem_idx_detach h hq
  have hko := (Sk.q?_mem_proj hq).2.1
  have hn : (a.qKO.map (·.1)).Nodup := by
    have : a.qKO.map (·.1) = a.qK := by unfold Sk.qKO Sk.qK; rw [List.map_map]; rfl
    rw [this]; exact h.q.nodup
  have hsub : ∀ id, a.subs id = (a.detach k).subs id + (if e.owner = .client id then 1 else 0) := by
    intro id; unfold Sk.subs; rw [detach_qKO hq]; exact subsP_unlink hn hko hk hidx id
  have hdebt : ∀ x d', (∀ c ∈ a.clients, c.tok ∈ a.pendingToks → some c.id ≠ x →
      a.subs c.id + d c.id = (a.detach k).subs c.id + d' c.id) → (∀ id, a.nextClient ≤ id → d' id = 0) →
      DebtOk x d' (a.detach k) := by
    intro x d' hc hf
    refine ⟨by rw [hs.2.2.2.2.2.2.2.2.2.1]; exact hf, ?_⟩
    rw [hs.2.2.2.2.2.1, hs.2.2.2.2.2.2.2.2.2.2.2.1]
    intro c hcm hp hx
    rw [← hc c hcm hp hx]
    exact hd.cnt c hcm hp (fun hh => by cases hh)
  cases ho : e.owner with
  | probe =>
    refine ⟨trivial, hdebt none d (fun c _ _ _ => ?_) hd.fresh⟩
    rw [hsub c.id, ho]; simp
  | user tok =>
    obtain ⟨t1, t2, t3⟩ := h.tok.tQ (k, e.owner) hko hk tok ho
    refine ⟨⟨by rw [hs.2.2.2.2.2.2.2.2.2.2.2.1]; exact t1, ?_, by rw [hs.2.2.2.2.2.1]; exact t3⟩,
      hdebt none d (fun c _ _ _ => ?_) hd.fresh⟩
    · rw [detach_qKO hq]
      intro p hp hpi hpo
      have := (hidx _).mp hpi
      exact this.2 (t2 p hp this.1 hpo)
    · rw [hsub c.id, ho]; simp
  | client id =>
    obtain ⟨c, hcm, hcid, hcp⟩ := h.tok.tC (k, e.owner) hko hk id ho
    refine ⟨⟨c, by rw [hs.2.2.2.2.2.1]; exact hcm, hcid, by rw [hs.2.2.2.2.2.2.2.2.2.2.2.1]; exact hcp⟩,
      hdebt none (bump d id 1) (fun c' _ _ _ => ?_) (fun i hi => ?_)⟩
    · rw [hsub c'.id, ho]
      by_cases hcc : c'.id = id
      · rw [hcc, bump_self]; simp; omega
      · rw [bump_ne _ _ hcc]; simp [Ne.symm hcc]
    · have hlt := h.k.lt c hcm
      rw [bump_ne _ _ (by omega), hd.fresh i hi]

theorem not_idx_detach (h : WfS a hole) (hq : a.q? k = some e) : k ∉ (a.detach k).idx :=
  fun hk => ((mem_idx_detach h hq).mp hk).2 rfl

end

end Cares.Chan
