import CaresLemmas.ChanWfStep
/-!
# C01 — `detach` and `freeQuery` on the skeleton
-/
namespace Cares.Chan

/-! ### shrinking the set of linked keys / live queries keeps the groups that only mention them in
hypotheses -/

theorem WfTokP.shrink {qKO qKO' : List (Nat × Owner)} {idx idx' : List Nat} {cl pend done rs}
    (h : WfTokP qKO idx cl pend done rs) (hq : ∀ p ∈ qKO', p ∈ qKO) (hi : ∀ x ∈ idx', x ∈ idx) :
    WfTokP qKO' idx' cl pend done rs where
  pN := h.pN
  dN := h.dN
  disj := h.disj
  pB := h.pB
  dB := h.dB
  tQ := fun p hp hpi tok ho => by
    obtain ⟨h1, h2, h3⟩ := h.tQ p (hq p hp) (hi _ hpi) tok ho
    exact ⟨h1, fun p' hp' hpi' ho' => h2 p' (hq p' hp') (hi _ hpi') ho', h3⟩
  tC := fun p hp hpi id ho => h.tC p (hq p hp) (hi _ hpi) id ho
  tK := h.tK
  tKU := h.tKU

theorem NoSubP.shrink {qKO qKO' : List (Nat × Owner)} {idx idx' : List Nat} {id : Nat}
    (h : NoSubP qKO idx id) (hq : ∀ p ∈ qKO', p ∈ qKO) (hi : ∀ x ∈ idx', x ∈ idx) : NoSubP qKO' idx' id :=
  fun p hp hpi => h p (hq p hp) (hi _ hpi)

section
variable {a : Sk} {hole : Option Nat} {k : Nat} {e : QSk}

theorem Sk.detach_eq (hq : a.q? k = some e) :
    a.detach k = { a.removeFromConn k with
      byQid := a.byQid.filter (fun (p : Nat × Nat) => !(p.1 == e.qid && p.2 == k)),
      all := a.all.erase k, listCopy := a.listCopy.map (·.erase k) } := by
  unfold Sk.detach; rw [hq]; simp only [rfc_byQid, rfc_all, rfc_listCopy]

/-- linked after `detach k` = linked before and different from `k` -/
theorem mem_idx_detach (h : WfS a hole) (hq : a.q? k = some e) {x : Nat} :
    x ∈ (a.detach k).idx ↔ x ∈ a.idx ∧ x ≠ k := by
  rw [Sk.detach_eq hq]
  simp only [Sk.idx, List.mem_map, List.mem_filter, Bool.not_eq_true', Bool.and_eq_false_iff, beq_eq_false_iff_ne]
  constructor
  · rintro ⟨p, ⟨hp, hne⟩, rfl⟩
    refine ⟨⟨p, hp, rfl⟩, fun hk => ?_⟩
    rcases hne with hne | hne
    · have h1 := h.i.qidLive p hp
      rw [hk] at h1
      exact hne (Sk.qKQ_unique h.q.nodup h1 (Sk.q?_mem_proj hq).2.2.1)
    · exact hne hk
  · rintro ⟨⟨p, hp, rfl⟩, hne⟩
    exact ⟨p, ⟨hp, Or.inr hne⟩, rfl⟩

/-- everything except the three index lists is as after `removeFromConn` -/
theorem detach_same (hq : a.q? k = some e) :
    (a.detach k).qs = (a.removeFromConn k).qs ∧ (a.detach k).conns = (a.removeFromConn k).conns ∧
    (a.detach k).byTimeout = a.byTimeout.erase k ∧ (a.detach k).pendingOrder = a.pendingOrder.erase k ∧
    (a.detach k).servers = a.servers ∧ (a.detach k).clients = a.clients ∧ (a.detach k).socks = a.socks ∧
    (a.detach k).nextKey = a.nextKey ∧ (a.detach k).nextFd = a.nextFd ∧
    (a.detach k).nextClient = a.nextClient ∧ (a.detach k).reactSeq = a.reactSeq ∧
    (a.detach k).pendingToks = a.pendingToks ∧ (a.detach k).doneToks = a.doneToks ∧
    (a.detach k).faults = a.faults ∧ (a.detach k).all = a.all.erase k ∧
    (a.detach k).listCopy = a.listCopy.map (·.erase k) ∧
    (a.detach k).byQid = a.byQid.filter (fun (p : Nat × Nat) => !(p.1 == e.qid && p.2 == k)) := by
  rw [Sk.detach_eq hq]
  simp only [rfc_servers, rfc_clients, rfc_socks, rfc_nextKey, rfc_nextFd, rfc_nextClient, rfc_reactSeq,
    rfc_pendingToks, rfc_doneToks, rfc_faults, rfc_bt hq, rfc_po hq, and_self]

theorem wf_detach (h : WfS a hole) (hh : hole = none ∨ hole = some k) (hq : a.q? k = some e) :
    WfS (a.detach k) none := by
  have h1 := wf_rfc h hh hq
  have hs := detach_same hq
  have hidx : ∀ x, x ∈ (a.detach k).idx ↔ x ∈ a.idx ∧ x ≠ k := fun x => mem_idx_detach h hq
  have eqK : (a.detach k).qK = a.qK := by unfold Sk.qK; rw [hs.1]; exact rfc_qK a k
  have eqKQ : (a.detach k).qKQ = a.qKQ := by unfold Sk.qKQ; rw [hs.1]; exact rfc_qKQ a k
  have eqKO : (a.detach k).qKO = a.qKO := by unfold Sk.qKO; rw [hs.1]; exact rfc_qKO a k
  have eqKC : (a.detach k).qKC = (a.removeFromConn k).qKC := by unfold Sk.qKC; rw [hs.1]
  have eqFQ : (a.detach k).cFQ = (a.removeFromConn k).cFQ := by unfold Sk.cFQ; rw [hs.2.1]
  have eqF4 : (a.detach k).cF4 = a.cF4 := by unfold Sk.cF4; rw [hs.2.1]; exact rfc_cF4 a k
  constructor
  · rw [eqK, hs.2.2.2.2.2.2.2.1]; exact h.q
  · rw [eqKQ, hs.2.2.2.2.2.2.2.2.2.2.2.2.2.2.1, hs.2.2.2.2.2.2.2.2.2.2.2.2.2.2.2.1,
      hs.2.2.2.2.2.2.2.2.2.2.2.2.2.2.2.2]
    have hi := h.i
    have hidx' : ∀ x, x ∈ (a.byQid.filter (fun (p : Nat × Nat) => !(p.1 == e.qid && p.2 == k))).map (·.2) ↔
        x ∈ a.idx ∧ x ≠ k := by
      intro x; rw [← hs.2.2.2.2.2.2.2.2.2.2.2.2.2.2.2.2]; exact hidx x
    constructor
    · intro p hp; exact hi.qidLive p (List.mem_filter.mp hp).1
    · exact hi.allNodup.erase k
    · intro x hx
      have := (List.Nodup.mem_erase_iff hi.allNodup).mp hx
      exact (hidx' x).mpr ⟨hi.allIdx x this.2, this.1⟩
    · intro l' hl'
      obtain ⟨l, hl, rfl⟩ := List.mem_map.mp hl'
      obtain ⟨hn, hm⟩ := hi.lcOk l hl
      refine ⟨hn.erase k, fun x hx => ?_⟩
      have := (List.Nodup.mem_erase_iff hn).mp hx
      exact (hidx' x).mpr ⟨hm x this.2, this.1⟩
  · rw [eqKC, hs.2.2.1, hs.2.2.2.1]
    have ht := h1.t
    rw [rfc_bt hq, rfc_po hq, rfc_idx] at ht
    refine ⟨ht.btNodup, fun x hx => ?_, ht.poNodup, fun x hx => ?_⟩
    · obtain ⟨hi, hc⟩ := ht.btOk x hx
      exact ⟨(hidx x).mpr ⟨hi, ((List.Nodup.mem_erase_iff h.t.btNodup).mp hx).1⟩, hc⟩
    · obtain ⟨hi, hc⟩ := ht.poOk x hx
      exact ⟨(hidx x).mpr ⟨hi, ((List.Nodup.mem_erase_iff h.t.poNodup).mp hx).1⟩, hc⟩
  · rw [eqKC, eqFQ, hs.2.2.2.2.2.2.2.2.1, hs.2.2.2.2.2.2.1]
    have hc := h1.c
    rw [rfc_idx, rfc_nextFd, rfc_socks] at hc
    have hnl := rfc_not_listed h hq
    refine ⟨hc.nodup, hc.lt, hc.sock, hc.qNodup, fun c hcm x hx => ?_, hc.qc⟩
    obtain ⟨hi, hm⟩ := hc.cq c hcm x hx
    exact ⟨(hidx x).mpr ⟨hi, fun hxk => hnl c hcm (hxk ▸ hx)⟩, hm⟩
  · rw [eqF4, hs.2.2.2.2.1]; exact h.s
  · rw [hs.2.2.2.2.2.1, hs.2.2.2.2.2.2.2.2.2.1]; exact h.k
  · rw [eqKO, hs.2.2.2.2.2.1, hs.2.2.2.2.2.2.2.2.2.2.2.1, hs.2.2.2.2.2.2.2.2.2.2.2.2.1,
      hs.2.2.2.2.2.2.2.2.2.2.1]
    exact h.tok.shrink (fun _ hp => hp) (fun x hx => ((hidx x).mp hx).1)

end

end Cares.Chan
