import CaresLemmas.ClientExecLog
/-!
# The client events of a channel run — instrumented executor, part 2: connections, reads, answers, time-outs,
cancel / destroy, and the three client procedures
-/
namespace Cares.Chan

def bodyConnErrorC (goC : GoC) (fd : Nat) (critical : Bool) (st : Status) (s : St) : (St × Ret) × CLog :=
  match s.conn? fd with
  | none => ((s.mfault s!"uaf-conn({fd}) in handle_conn_error", .other), [])
  | some c =>
    let s := if critical then s.incFailures c.srv c.tcp else s
    goC (.closeConn fd st) s

def bodyCloseConnC (goC : GoC) (fd : Nat) (st : Status) (s : St) : (St × Ret) × CLog :=
  match s.conn? fd with
  | none => ((s.mfault s!"uaf-conn({fd}) in ares_close_connection", .other), [])
  | some c =>
    let s := s.modServer c.srv fun v =>
      { v with conns := v.conns.erase fd, tcpConn := if c.tcp then none else v.tcpConn }
    let s := s.modConn fd fun c => { c with unlinked := true, out := [], outOff := 0, inBytes := 0, inMsgs := [] }
    goC (.closeLoop fd st) s

def bodyCloseLoopC (goC : GoC) (fd : Nat) (st : Status) (s : St) : (St × Ret) × CLog :=
  match s.conn? fd with
  | none => ((s.mfault s!"uaf-conn({fd}) in ares_requeue_queries", .other), [])
  | some c =>
    match c.queries with
    | k :: _ =>
      let p := goC (.requeue k st true none false) s
      let q := goC (.closeLoop fd st) (p.1.1.modConn fd fun c => { c with queries := c.queries.erase k })
      (q.1, p.2 ++ q.2)
    | [] =>
      let s := s.notify fd false false
      let s := ((s.modSock fd fun v => { v with isOpen := false }).emit s!"close({fd})").slog fd "close"
      (({ s with conns := s.conns.filter (·.fd != fd) }, .ok), [])

def bodyProcessWriteC (goC : GoC) (fd : Nat) (s : St) : (St × Ret) × CLog :=
  match s.conn? fd with
  | none => ((s, .ok), [])
  | some c =>
    if c.unlinked then ((s, .ok), []) else
    let p := goC (.flush fd) (s.modConn fd fun c => { c with connected := true })
    if p.1.2 != .ok then
      let q := goC (.connError fd true p.1.2) p.1.1
      (q.1, p.2 ++ q.2)
    else ((p.1.1, .ok), p.2)

def bodyProcessReadC (goC : GoC) (fd : Nat) (s : St) : (St × Ret) × CLog :=
  match s.conn? fd, s.sock? fd with
  | some c, some v =>
    if c.unlinked then ((s, .ok), []) else
    if !c.tcp then
      let (e, s) := s.fault "recvfrom"
      let s := s.slog fd "recv"
      match e with
      | some errno =>
        let s := s.emit s!"recv!({fd})"
        if isWouldBlock errno then goC (.readAnswers fd) s
        else
          let p := goC (.connError fd true .connrefused) s
          ((p.1.1, .connrefused), p.2)
      | none =>
        match v.rx with
        | [] => goC (.readAnswers fd) s
        | r :: rest =>
          let s := s.modSock fd fun v => { v with rx := rest }
          if r.wrongsrc then goC (.readAnswers fd) s
          else
            let s := s.modConn fd fun c =>
              { c with inMsgs := c.inMsgs ++ [(c.inBytes + 2 + r.len, r)], inBytes := c.inBytes + 2 + r.len,
                       connected := true }
            goC (.processRead fd) s
    else
      let (e, s) := s.fault "recvfrom"
      let s := s.slog fd "recv"
      match e with
      | some errno =>
        let s := s.emit s!"recv!({fd})"
        if isWouldBlock errno then goC (.readAnswers fd) s
        else
          let p := goC (.connError fd true .connrefused) s
          ((p.1.1, .connrefused), p.2)
      | none =>
        let avail := v.slen - v.spos
        if avail == 0 then
          if v.reset || v.eof then
            let p := goC (.connError fd true .connrefused) s
            ((p.1.1, .connrefused), p.2)
          else goC (.readAnswers fd) s
        else
          let (n, chunks, again) : Nat × List Nat × Bool :=
            match v.chunks with
            | [] => (avail, [], false)
            | c :: r => if c == 0 then (0, r, true) else (min c avail, r, false)
          if again then
            goC (.readAnswers fd) (s.modSock fd fun v => { v with chunks := chunks })
          else
            let s := s.modSock fd fun v => { v with chunks := chunks, spos := v.spos + n }
            let s := s.modConn fd fun c => { c with inBytes := c.inBytes + n, connected := true }
            goC (.readAnswers fd) s
  | _, _ => ((s, .ok), [])

def bodyReadAnswersC (goC : GoC) (fd : Nat) (s : St) : (St × Ret) × CLog :=
  match s.conn? fd, s.sock? fd with
  | some c, some v =>
    let next : Option Reply :=
      if !c.tcp then (c.inMsgs.head?).map (·.2)
      else nextTcpFrame v.stream v.spos c.inBytes
    match next with
    | none => goC .flushRequeue s
    | some r =>
      let s := s.modConn fd fun c =>
        { c with inMsgs := c.inMsgs.drop 1, inBytes := c.inBytes - (2 + r.len) }
      let p := goC (.processAnswer fd r) s
      match p.1.1.conn? fd with
      | none =>
        let q := goC .flushRequeue p.1.1
        (q.1, p.2 ++ q.2)
      | some c' =>
        if c'.unlinked then
          let q := goC .flushRequeue p.1.1
          (q.1, p.2 ++ q.2)
        else if p.1.2 != .ok then
          let e := goC (.connError fd true p.1.2) p.1.1
          let q := goC .flushRequeue e.1.1
          (q.1, p.2 ++ e.2 ++ q.2)
        else
          let q := goC (.readAnswers fd) p.1.1
          (q.1, p.2 ++ q.2)
  | _, _ => ((s.mfault s!"uaf-conn({fd}) in read_answers", .other), [])

def bodyFlushRequeueC (goC : GoC) (s : St) : (St × Ret) × CLog :=
  match s.requeueArr with
  | [] => ((s, .ok), [])
  | (qid, srv) :: rest =>
    let s := { s with requeueArr := rest }
    match s.byQid.find? (·.1 == qid) with
    | none => goC .flushRequeue s
    | some (_, key) =>
      let p := goC (.sendQuery srv key) s
      let q := goC .flushRequeue p.1.1
      (q.1, p.2 ++ q.2)

/-- `paDeliver` with its log -/
def paDeliverC (goC : GoC) (fd : Nat) (r : Reply) (c : Conn) (key : Nat) (q0 : Query) (s : St) : (St × Ret) × CLog :=
  let q := (s.query? key).getD q0
  let s := { s with accepted := s.accepted ++ [(fd, key, r)] }
  let s := s.modConn (q.conn.getD fd) fun c => { c with queries := c.queries.erase key }
  let s := s.modQuery key fun q => { q with inConnList := false }
  let ednsIssue := r.rcode == 1 && q.edns &&
    (!r.hasOpt || (q.reqCookie.isSome && r.hasOpt))
  if ednsIssue then
    let s := s.removeFromConn key
    let s := s.modQuery key fun q => { q with edns := false, reqCookie := none, cookie := "-" }
    (({ s with requeueArr := s.requeueArr ++ [(q.qid, some c.srv)] }, .ok), [])
  else if r.tc && !c.tcp && !s.cfg.igntc then
    let s := s.removeFromConn key
    let s := s.modQuery key fun q => { q with usingTcp := true }
    (({ s with requeueArr := s.requeueArr ++ [(q.qid, none)] }, .ok), [])
  else if !s.cfg.nocheckresp && (r.rcode == 2 || r.rcode == 4 || r.rcode == 5) then
    let st : Status := if r.rcode == 2 then .servfail else if r.rcode == 4 then .notimp else .refused
    let s := s.incFailures c.srv q.usingTcp
    let p := goC (.requeue key st true (some r) true) s
    ((p.1.1, .ok), p.2)
  else
    let s := s.cacheInsert q r
    let s := s.setGood c.srv q.usingTcp
    let p := goC (.endQuery (some c.srv) key .ok (some r)) s
    ((p.1.1, .ok), p.2)

/-- `bodyProcessAnswer` (in the staged form of `bodyProcessAnswer_stages`) with its log -/
def bodyProcessAnswerC (goC : GoC) (fd : Nat) (r : Reply) (s : St) : (St × Ret) × CLog :=
  match s.conn? fd with
  | none => ((s.mfault s!"uaf-conn({fd}) in process_answer", .other), [])
  | some c =>
    if r.empty then ((s, .ok), []) else
    if r.garbage then ((s, .badresp), []) else
    match s.byQid.find? (·.1 == r.id) with
    | none => ((s, .ok), [])
    | some (_, key) =>
      match s.query? key with
      | none => ((s.mfault s!"dangling-qid({r.id})", .other), [])
      | some q =>
        if q.conn != some fd then ((s, .ok), []) else
        if !sameQuestion s.cfg q r then ((s, .ok), []) else
        let a : St × CLog :=
          if (cookieCheck s c q r).requeue then
            let p := goC (.requeue key .ok false none true) (paPre s c key q r)
            (p.1.1, p.2)
          else (paPre s c key q r, [])
        if (cookieCheck s c q r).verdict == .drop then ((a.1, .ok), a.2)
        else
          let p := paDeliverC goC fd r c key q a.1
          (p.1, a.2 ++ p.2)

def bodyProcessTimeoutsC (goC : GoC) (s : St) : (St × Ret) × CLog :=
  match s.byTimeout.head? with
  | none => ((s, .ok), [])
  | some key =>
    match s.query? key with
    | none => ((s.mfault s!"dangling-timeout({key})", .other), [])
    | some q =>
      if !expired s.now q.deadline then ((s, .ok), []) else
      match q.conn.bind s.conn? with
      | none => ((s.mfault s!"timeout-without-conn({key})", .other), [])
      | some c =>
        let s := s.modQuery key fun q => { q with timeouts := q.timeouts + 1 }
        let s := s.incFailures c.srv q.usingTcp
        let p := goC (.requeue key .timeout true none false) s
        let q := goC .processTimeouts p.1.1
        (q.1, p.2 ++ q.2)

def bodyCleanupConnsC (goC : GoC) (todo : List Nat) (s : St) : (St × Ret) × CLog :=
  match todo with
  | [] => ((s, .ok), [])
  | fd :: rest =>
    match s.conn? fd with
    | none => goC (.cleanupConns rest) s
    | some c =>
      let failures := ((s.server? c.srv).map (·.failures)).getD 0
      let doit := c.queries.isEmpty && !c.unlinked &&
        (!s.cfg.stayopen || failures > 0 || (!c.tcp && s.cfg.udpMax > 0 && c.total ≥ s.cfg.udpMax))
      let a : St × CLog := if doit then ((goC (.closeConn fd .ok) s).1.1, (goC (.closeConn fd .ok) s).2) else (s, [])
      let p := goC (.cleanupConns rest) a.1
      (p.1, a.2 ++ p.2)

/-- `bodyClientStart` with its log: the creation of the compound request is recorded -/
def bodyClientStartC (goC : GoC) (kind : String) (tok : Nat) (react : List Nat) (spec : ReqSpec) (family : Nat)
    (s : St) : (St × Ret) × CLog :=
  let id := s.nextClient
  let p := goC (.runActs id (clientStart s.cfg id kind tok react spec family).2)
    { s with clients := s.clients ++ [(clientStart s.cfg id kind tok react spec family).1], nextClient := id + 1 }
  (p.1, .start id kind tok react spec family :: p.2)

/-- `bodyRunActs` with its log: every action executed is recorded -/
def bodyRunActsC (goC : GoC) (id : Nat) (acts : List ClientAct) (s : St) : (St × Ret) × CLog :=
  match acts with
  | [] => ((s, .ok), [.ret id])
  | .send spec :: rest =>
    let p := goC (.sendNolock none false false spec (.client id) []) s
    let q := goC (.runActs id rest) p.1.1
    ((q.1.1, if rest.isEmpty then p.1.2 else q.1.2), .act id (.send spec) :: p.2 ++ q.2)
  | .sendSlot spec slot :: rest =>
    let qid := (genQid 70000 s).1
    let p := goC (.sendNolock none false false spec (.client id) []) s
    let s := if p.1.2 == .ok && p.1.1.byQid.any (·.1 == qid) then p.1.1.modClient id fun c =>
        if slot == 0 then { c with qidA := qid } else { c with qidAAAA := qid } else p.1.1
    let q := goC (.runActs id rest) s
    ((q.1.1, if rest.isEmpty then p.1.2 else q.1.2),
      .act id (.sendSlot spec slot) :: p.2 ++ (if p.1.2 == .ok && p.1.1.byQid.any (·.1 == qid) then [.slot id slot qid] else []) ++ q.2)
  | .noRetry qid :: rest =>
    let s := match s.byQid.find? (·.1 == qid) with
      | some (_, key) => s.modQuery key fun q => { q with noRetries := true }
      | none => s
    let q := goC (.runActs id rest) s
    (q.1, .act id (.noRetry qid) :: q.2)
  | .finish st timeouts dg :: _ =>
    match s.client? id with
    | none => ((s.mfault s!"uaf-client({id}) at completion", .other), [.lost id, .ret id])
    | some c =>
      let p := goC (.userCb c.tok c.react st timeouts dg) s
      (({ p.1.1 with clients := p.1.1.clients.filter (·.id != id) }, st),
        .act id (.finish st timeouts dg) :: p.2 ++ [.rel id, .ret id])

def bodyCancelC (goC : GoC) (s : St) : (St × Ret) × CLog :=
  let a : St × CLog := if s.all.isEmpty then (s, []) else
    let p := goC (.cancelLoop .cancelled false) { s with listCopy := s.all :: s.listCopy, all := [] }
    ({ p.1.1 with listCopy := p.1.1.listCopy.drop 1 }, p.2)
  let fds := (a.1.sortedServers.map (·.conns)).flatten
  let p := goC (.cleanupConns fds) a.1
  (p.1, a.2 ++ p.2)

def bodyCancelLoopC (goC : GoC) (st : Status) (fromAll : Bool) (s : St) : (St × Ret) × CLog :=
  match (if fromAll then s.all.head? else (s.listCopy.head?).bind (·.head?)) with
  | none => ((s, .ok), [])
  | some key =>
    match s.query? key with
    | none => ((s.mfault s!"uaf-query({key}) in cancel/destroy walk", .other), [])
    | some q =>
      let p := goC (.callback q.owner q.react st 0 none) (s.freeQuery key)
      let r := goC (.cancelLoop st fromAll) p.1.1
      (r.1, p.2 ++ r.2)

/-- the closing loop of `bodyDestroy` with its log -/
def closeAllC (goC : GoC) : List Nat → St → St × CLog
  | [], s => (s, [])
  | fd :: rest, s =>
    let p := goC (.closeConn fd .ok) s
    let r := closeAllC goC rest p.1.1
    (r.1, p.2 ++ r.2)

def bodyDestroyC (goC : GoC) (s : St) : (St × Ret) × CLog :=
  let p := goC (.cancelLoop .destruction true) { s with destroying := true }
  let fds := (p.1.1.sortedServers.map (·.conns)).flatten
  let r := closeAllC goC fds p.1.1
  (({ r.1 with destroyed := true, destroying := false, alive := false }, .ok), p.2 ++ r.2)

end Cares.Chan
