import CaresModel.Dsa.SList
/-! Helper lemmas for the skip-list model, part 1: one level list. -/
namespace Cares.Dsa.SList

/-- "smaller than the new key" -/
abbrev Lt (key : Nat → Nat) (k : Nat) : Nat → Bool := fun x => decide (key x < k)

theorem takeWhile_dropWhile_nil (p : Nat → Bool) (l : List Nat) : (l.dropWhile p).takeWhile p = [] := by
  induction l with
  | nil => rfl
  | cons a l ih =>
    by_cases h : p a = true
    · rw [List.dropWhile_cons_of_pos h]; exact ih
    · rw [List.dropWhile_cons_of_neg h, List.takeWhile_cons_of_neg h]

theorem mem_takeWhile_pos (p : Nat → Bool) (l : List Nat) (a : Nat) (h : a ∈ l.takeWhile p) : p a = true := by
  induction l with
  | nil => simp at h
  | cons b l ih =>
    by_cases hb : p b = true
    · rw [List.takeWhile_cons_of_pos hb] at h
      rcases List.mem_cons.1 h with rfl | h
      · exact hb
      · exact ih h
    · rw [List.takeWhile_cons_of_neg hb] at h; simp at h

theorem sorted_tail {key : Nat → Nat} {a : Nat} {l : List Nat} (h : Sorted key (a :: l)) : Sorted key l :=
  (List.pairwise_cons.1 h).2

/-- in a sorted list the nodes smaller than `k` are a prefix -/
theorem takeWhile_eq_filter (key : Nat → Nat) (k : Nat) (l : List Nat) (hs : Sorted key l) :
    l.takeWhile (Lt key k) = l.filter (Lt key k) ∧ l.dropWhile (Lt key k) = l.filter (fun x => !Lt key k x) := by
  induction l with
  | nil => exact ⟨rfl, rfl⟩
  | cons a l ih =>
    have hp := List.pairwise_cons.1 hs
    obtain ⟨i1, i2⟩ := ih hp.2
    by_cases h : Lt key k a = true
    · rw [List.takeWhile_cons_of_pos h, List.dropWhile_cons_of_pos h, List.filter_cons_of_pos h,
        List.filter_cons_of_neg (by simp [h]), i1, i2]
      exact ⟨rfl, rfl⟩
    · have hall : ∀ b ∈ l, Lt key k b = false := by
        intro b hb
        have := hp.1 b hb
        simp only [Lt, decide_eq_true_eq, Nat.not_lt, decide_eq_false_iff_not] at h ⊢
        omega
      rw [List.takeWhile_cons_of_neg h, List.dropWhile_cons_of_neg h, List.filter_cons_of_neg h,
        List.filter_cons_of_pos (by simpa using h)]
      have f1 : l.filter (Lt key k) = [] := by
        rw [List.filter_eq_nil_iff]; intro b hb; rw [hall b hb]; simp
      have f2 : l.filter (fun x => !Lt key k x) = l := by
        rw [List.filter_eq_self]; intro b hb; rw [hall b hb]; rfl
      rw [f1, f2]; exact ⟨rfl, rfl⟩

theorem getLast?_cons_getD (x : Nat) (t : List Nat) : (x :: t).getLast? = some (t.getLast?.getD x) := by
  cases t with
  | nil => rfl
  | cons y r => rw [List.getLast?_cons_cons]; cases h : (y :: r).getLast? with
    | none => simp at h
    | some z => rfl

/-- walking forward from `cur` over `post` stops at the last node of the run of smaller nodes -/
theorem advanceGo_eq (key : Nat → Nat) (k cur : Nat) (post : List Nat) :
    advanceGo key k cur post = ((post.takeWhile (Lt key k)).getLast?).getD cur := by
  induction post generalizing cur with
  | nil => rfl
  | cons x r ih =>
    unfold advanceGo
    by_cases h : key x < k
    · rw [if_pos h, ih x, List.takeWhile_cons_of_pos (by simpa [Lt] using h), getLast?_cons_getD]
      rfl
    · rw [if_neg h, List.takeWhile_cons_of_neg (by simpa [Lt] using h)]; rfl

theorem after_split (x : Nat) (pre post : List Nat) (h : x ∉ pre) : after x (pre ++ x :: post) = post := by
  unfold after
  induction pre with
  | nil => simp
  | cons a l ih =>
    have ha : a ≠ x := fun e => h (e ▸ List.mem_cons_self)
    rw [List.cons_append, List.dropWhile_cons_of_pos (by simpa using ha)]
    exact ih (fun hm => h (List.mem_cons_of_mem _ hm))

theorem insertAfter_split (x n : Nat) (pre post : List Nat) (h : x ∉ pre) :
    insertAfter x n (pre ++ x :: post) = pre ++ x :: n :: post := by
  induction pre with
  | nil => simp [insertAfter]
  | cons a l ih =>
    have ha : a ≠ x := fun e => h (e ▸ List.mem_cons_self)
    rw [List.cons_append, insertAfter, if_neg ha, ih (fun hm => h (List.mem_cons_of_mem _ hm))]
    rfl

theorem prevOf_split (x : Nat) (pre post : List Nat) (h : x ∉ pre) : prevOf x (pre ++ x :: post) = pre.getLast? := by
  unfold prevOf
  congr 1
  induction pre with
  | nil => simp
  | cons a l ih =>
    have ha : a ≠ x := fun e => h (e ▸ List.mem_cons_self)
    rw [List.cons_append, List.takeWhile_cons_of_pos (by simpa using ha), ih (fun hm => h (List.mem_cons_of_mem _ hm))]

theorem specInsert_eq (key : Nat → Nat) (k n : Nat) (l : List Nat) :
    specInsert key k n l = l.takeWhile (Lt key k) ++ n :: l.dropWhile (Lt key k) := rfl

/-- one level of ares_slist_node_push: whatever `left` was carried down from the level above (a node of this
    level with a smaller key, or NULL), the node is linked in front of the first node that is not smaller -/
theorem level_step (key : Nat → Nat) (k n : Nat) (l : List Nat) (hs : Sorted key l) (hnd : l.Nodup)
    (left : Option Nat) (hleft : ∀ x, left = some x → x ∈ l ∧ key x < k) :
    linkLevel ((setLeft key k l left).map (advance key k l)) n l = specInsert key k n l ∧
    (∀ y, (setLeft key k l left).map (advance key k l) = some y → y ∈ l ∧ key y < k) := by
  have htd := List.takeWhile_append_dropWhile (p := Lt key k) (l := l)
  generalize hl1 : setLeft key k l left = left1
  generalize hl2 : left1.map (advance key k l) = left2
  -- left1 is NULL only if no node is smaller; otherwise it is a smaller node of this level
  have h1 : (left1 = none ∧ l.takeWhile (Lt key k) = []) ∨ (∃ x, left1 = some x ∧ x ∈ l ∧ key x < k) := by
    rw [← hl1]
    cases left with
    | some x => right; exact ⟨x, rfl, hleft x rfl⟩
    | none =>
      cases l with
      | nil => left; exact ⟨rfl, rfl⟩
      | cons h r =>
        by_cases hk : k > key h
        · right; exact ⟨h, by simp [setLeft, hk], List.mem_cons_self, hk⟩
        · left; refine ⟨by simp [setLeft, hk], ?_⟩
          rw [List.takeWhile_cons_of_neg (by simpa [Lt] using hk)]
  rcases h1 with ⟨e1, etw⟩ | ⟨x, e1, hxl, hxk⟩
  · have e2 : left2 = none := by rw [← hl2, e1]; rfl
    rw [e2]
    refine ⟨?_, fun y hy => by cases hy⟩
    unfold linkLevel
    rw [specInsert_eq, etw]
    have : l.dropWhile (Lt key k) = l := by have h := htd; rw [etw, List.nil_append] at h; exact h
    rw [this]; rfl
  · -- x is among the smaller nodes, which are a prefix
    have hxt : x ∈ l.takeWhile (Lt key k) := by
      rw [(takeWhile_eq_filter key k l hs).1, List.mem_filter]
      exact ⟨hxl, by simpa [Lt] using hxk⟩
    obtain ⟨pre, post, etw⟩ := List.append_of_mem hxt
    have hndt : (l.takeWhile (Lt key k)).Nodup := hnd.sublist (List.takeWhile_sublist _)
    have hxpre : x ∉ pre := by
      rw [etw] at hndt
      have := (List.nodup_append.1 hndt).2.2
      intro hm; exact this x hm x List.mem_cons_self rfl
    have el : l = pre ++ x :: (post ++ l.dropWhile (Lt key k)) := by
      conv => lhs; rw [← htd, etw]
      simp
    have hafter : after x l = post ++ l.dropWhile (Lt key k) := by
      conv => lhs; rw [el]
      exact after_split x pre _ hxpre
    have hpostP : ∀ a ∈ post, Lt key k a = true := by
      intro a ha
      have : a ∈ l.takeWhile (Lt key k) := by rw [etw]; simp [ha]
      exact mem_takeWhile_pos _ _ _ this
    have htwp : (post ++ l.dropWhile (Lt key k)).takeWhile (Lt key k) = post := by
      rw [List.takeWhile_append_of_pos hpostP, takeWhile_dropWhile_nil, List.append_nil]
    have hadv : advance key k l x = (post.getLast?).getD x := by
      unfold advance; rw [hafter, advanceGo_eq, htwp]
    -- y = the last of the smaller nodes
    have hy : (l.takeWhile (Lt key k)).getLast? = some ((post.getLast?).getD x) := by
      rw [etw, List.getLast?_append, getLast?_cons_getD]; rfl
    have e2 : left2 = some ((post.getLast?).getD x) := by rw [← hl2, e1, Option.map_some, hadv]
    rw [e2]
    obtain ⟨init, einit⟩ : ∃ init, l.takeWhile (Lt key k) = init ++ [(post.getLast?).getD x] := by
      have hne : l.takeWhile (Lt key k) ≠ [] := by rw [etw]; simp
      refine ⟨(l.takeWhile (Lt key k)).dropLast, ?_⟩
      have h2 := List.getLast?_eq_some_getLast hne
      rw [hy] at h2
      rw [Option.some.inj h2]
      exact (List.dropLast_concat_getLast hne).symm
    have hyinit : (post.getLast?).getD x ∉ init := by
      rw [einit] at hndt
      have := (List.nodup_append.1 hndt).2.2
      intro hm; exact this _ hm _ (List.mem_singleton.2 rfl) rfl
    have hymem : (post.getLast?).getD x ∈ l.takeWhile (Lt key k) := by rw [einit]; simp
    refine ⟨?_, ?_⟩
    · unfold linkLevel
      simp only
      have el2 : l = init ++ (post.getLast?).getD x :: l.dropWhile (Lt key k) := by
        conv => lhs; rw [← htd, einit]
        simp
      conv => lhs; rw [el2]
      rw [insertAfter_split _ n init _ hyinit, specInsert_eq, einit]
      simp
    · intro y hy'
      cases hy'
      refine ⟨(List.takeWhile_sublist _).subset hymem, ?_⟩
      have := mem_takeWhile_pos _ _ _ hymem
      simpa [Lt] using this

end Cares.Dsa.SList
