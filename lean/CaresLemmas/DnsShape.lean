import CaresLemmas.DnsSafe
/-!
# Shape of a successfully parsed record (helper lemmas and predicates for C02 `result_shape`)
-/
namespace Cares.Dns
open Cares.Generated

theorem P.bind_eq_ok {α β : Type} {m : P α} {f : α → P β} {off off2 : Nat} {b : β}
    (h : (m >>= f) off = .ok b off2) : ∃ a off1, m off = .ok a off1 ∧ f a off1 = .ok b off2 := by
  cases hm : m off with
  | ok a off1 => exact ⟨a, off1, rfl, by rw [P.bind_ok hm] at h; exact h⟩
  | err e => rw [P.bind_err hm] at h; cases h
  | fault k => rw [P.bind_fault hm] at h; cases h

theorem slice_length {bs : Bytes} {off len : Nat} (h : off + len ≤ bs.size) : (slice bs off len).length = len := by
  unfold slice
  rw [Array.length_toList, Array.size_extract]
  omega

theorem be16At_lt {bs : Bytes} {off : Nat} (h : off + 2 ≤ bs.size) : be16At bs off h < 65536 := by
  unfold be16At
  have h1 := bs[off].toNat_lt
  have h2 := bs[off + 1].toNat_lt
  apply Nat.or_lt_two_pow (n := 16)
  · rw [Nat.shiftLeft_eq]; omega
  · omega

theorem be32At_lt {bs : Bytes} {off : Nat} (h : off + 4 ≤ bs.size) : be32At bs off h < 4294967296 := by
  unfold be32At
  have h1 := bs[off].toNat_lt
  have h2 := bs[off + 1].toNat_lt
  have h3 := bs[off + 2].toNat_lt
  have h4 := bs[off + 3].toNat_lt
  apply Nat.or_lt_two_pow (n := 32)
  · apply Nat.or_lt_two_pow (n := 32)
    · apply Nat.or_lt_two_pow (n := 32)
      · rw [Nat.shiftLeft_eq]; omega
      · rw [Nat.shiftLeft_eq]; omega
    · rw [Nat.shiftLeft_eq]; omega
  · omega

/-- what a successfully parsed field of each script kind looks like -/
def ValOk : FieldKind → Val → Prop
  | .be16, .u16 n => n < 65536
  | .be32, .u32 n => n < 4294967296
  | .u8, .u8 n => n < 256
  | .name _, .name (some _) => True
  | .str _, .str (some s) => s.length ≤ 255
  | .addr4, .addr b => b.length = 4
  | .addr6, .addr6 b => b.length = 16
  | .abin _, .abin l => l ≠ []
  | .binRest, .bin (some b) => b ≠ []
  | .strRest, .name (some s) => s ≠ []
  | .opts, .opt _ => True
  | _, _ => False

theorem fetchBytes_val {bs : Bytes} {off off' len : Nat} {v : BStr} (h : off ≤ bs.size)
    (hr : fetchBytes bs len off = .ok v off') : v.length = len ∧ len ≠ 0 ∧ v = slice bs off len := by
  rw [fetchBytes_eq h] at hr
  split at hr
  · rename_i hc
    injection hr with h1 h2
    subst h1
    exact ⟨slice_length hc.2, hc.1, rfl⟩
  · simp at hr

theorem multistringLoop_nonempty (bs : Bytes) (origLen rem : Nat) (v : Bool) (acc : List BStr) (ran : Bool)
    (pos : Nat) (hacc : ran = true → acc ≠ []) {l : List BStr} {p : Nat}
    (hr : multistringLoop bs origLen rem v acc ran pos = .ok l p) : l ≠ [] := by
  fun_induction multistringLoop bs origLen rem v acc ran pos
  all_goals (try (simp at hr; done))
  case case5 =>
    rename_i ih
    exact ih (by simp) hr
  case case6 =>
    injection hr with h1 _
    subst h1
    exact hacc rfl

theorem parseDnsBinstr_len {bs : Bytes} {off off' rem : Nat} {vp : Bool} {s : BStr} (h : off ≤ bs.size)
    (hr : parseDnsBinstr bs rem vp off = .ok s off') : s.length ≤ 255 := by
  unfold parseDnsBinstr at hr
  split at hr
  · simp at hr
  · obtain ⟨len, o1, h1, hr⟩ := P.bind_eq_ok hr
    have hle1 := ((safe_fetchByte h).ok h1).2
    have hl := len.toNat_lt
    split at hr
    · simp at hr
    · split at hr
      · rw [P.bind_ok (bufLen_eq hle1)] at hr
        split at hr
        · obtain ⟨d, o3, h3, hr⟩ := P.bind_eq_ok hr
          rename_i hc
          rw [rawSlice_eq (by omega)] at h3
          injection h3 with _ h3b
          subst h3b
          split at hr
          · simp at hr
          · have := fetchBytes_val hle1 hr; omega
        · have := fetchBytes_val hle1 hr; omega
      · simp only [P.pure_apply] at hr
        injection hr with h1 _
        subst h1
        simp

theorem parseField_valOk {bs : Bytes} {off off' origLen rdlength : Nat} {kind : FieldKind} {v : Val}
    (h : off ≤ bs.size) (ho : bs.size - off ≤ origLen)
    (hr : parseField bs origLen rdlength kind off = .ok v off') : ValOk kind v := by
  cases kind with
  | be16 =>
    obtain ⟨a, o1, h1, h2⟩ := P.bind_eq_ok hr
    simp only [P.pure_apply] at h2
    injection h2 with h2 _
    subst h2
    rw [fetchBe16_eq h] at h1
    split at h1
    · injection h1 with h1 _; subst h1; exact be16At_lt _
    · simp at h1
  | be32 =>
    obtain ⟨a, o1, h1, h2⟩ := P.bind_eq_ok hr
    simp only [P.pure_apply] at h2
    injection h2 with h2 _
    subst h2
    rw [fetchBe32_eq h] at h1
    split at h1
    · injection h1 with h1 _; subst h1; exact be32At_lt _
    · simp at h1
  | u8 =>
    obtain ⟨a, o1, h1, h2⟩ := P.bind_eq_ok hr
    simp only [P.pure_apply] at h2
    injection h2 with h2 _
    subst h2
    exact a.toNat_lt
  | name isHost =>
    obtain ⟨a, o1, h1, h2⟩ := P.bind_eq_ok hr
    simp only [P.pure_apply] at h2
    injection h2 with h2 _
    subst h2
    trivial
  | str blank =>
    obtain ⟨rem, o1, h1, h2⟩ := P.bind_eq_ok hr
    obtain ⟨s, o2, h3, h4⟩ := P.bind_eq_ok h2
    have hle1 := ((safe_rrRemainingLen origLen rdlength h ho).ok h1).2
    split at h4
    · simp at h4
    · simp only [P.pure_apply] at h4
      injection h4 with h4 _
      subst h4
      exact parseDnsBinstr_len hle1 h3
  | addr4 =>
    obtain ⟨a, o1, h1, h2⟩ := P.bind_eq_ok hr
    simp only [P.pure_apply] at h2
    injection h2 with h2 _
    subst h2
    exact (fetchBytes_val h h1).1
  | addr6 =>
    obtain ⟨a, o1, h1, h2⟩ := P.bind_eq_ok hr
    simp only [P.pure_apply] at h2
    injection h2 with h2 _
    subst h2
    exact (fetchBytes_val h h1).1
  | abin vp =>
    obtain ⟨l, o1, h1, h2⟩ := P.bind_eq_ok hr
    simp only [P.pure_apply] at h2
    injection h2 with h2 _
    subst h2
    unfold parseMultistring at h1
    rw [P.bind_ok (bufLen_eq h)] at h1
    split at h1
    · simp at h1
    · exact multistringLoop_nonempty _ _ _ _ _ _ _ (by simp) h1
  | binRest =>
    obtain ⟨len, o1, h1, h2⟩ := P.bind_eq_ok hr
    have hle1 := ((safe_rrRemainingLen origLen rdlength h ho).ok h1).2
    split at h2
    · simp at h2
    · obtain ⟨b, o2, h3, h4⟩ := P.bind_eq_ok h2
      simp only [P.pure_apply] at h4
      injection h4 with h4 _
      subst h4
      have := fetchBytes_val hle1 h3
      intro hb
      rw [hb] at this
      simp at this
      omega
  | strRest =>
    obtain ⟨len, o1, h1, h2⟩ := P.bind_eq_ok hr
    have hle1 := ((safe_rrRemainingLen origLen rdlength h ho).ok h1).2
    split at h2
    · simp at h2
    · obtain ⟨s, o2, h3, h4⟩ := P.bind_eq_ok h2
      simp only [P.pure_apply] at h4
      injection h4 with h4 _
      subst h4
      unfold fetchStrDup at h3
      rw [P.bind_ok (bufLen_eq hle1)] at h3
      split at h3
      · simp at h3
      · rename_i hc
        rw [P.bind_ok (rawSlice_eq (by omega))] at h3
        split at h3
        · simp at h3
        · obtain ⟨_, o3, _, h5⟩ := P.bind_eq_ok h3
          simp only [P.pure_apply] at h5
          injection h5 with h5 _
          subst h5
          intro hb
          have := slice_length (bs := bs) (off := o1) (len := len) (by omega)
          rw [hb] at this
          simp at this
          omega
  | opts =>
    obtain ⟨l, o1, h1, h2⟩ := P.bind_eq_ok hr
    simp only [P.pure_apply] at h2
    injection h2 with h2 _
    subst h2
    trivial
/-- does a script kind fill a key of datatype `dt` (`ares_dns_datatype_t`)? -/
def kindDatatypeOk : FieldKind → Nat → Bool
  | .be16, 4 | .be32, 5 | .u8, 3 | .name _, 6 | .str _, 7 | .addr4, 1 | .addr6, 2 | .abin _, 11
  | .binRest, 8 | .binRest, 9 | .strRest, 6 | .opts, 10 => true
  | _, _ => false

/-- a value is set (non-NULL) and fits the datatype of its key -/
def Val.datatypeOk : Val → Nat → Bool
  | .addr b, 1 => b.length == 4
  | .addr6 b, 2 => b.length == 16
  | .u8 n, 3 => n < 256
  | .u16 n, 4 => n < 65536
  | .u32 n, 5 => n < 4294967296
  | .name (some _), 6 => true
  | .str (some _), 7 => true
  | .bin (some _), 8 => true
  | .bin (some _), 9 => true
  | .opt _, 10 => true
  | .abin _, 11 => true
  | _, _ => false

/-- generated-table obligation: every script lists exactly the keys `ares_dns_rr_get_keys` reports for
    its type, in that order, and each script element fills a key of a matching datatype -/
def scriptTableOk : Bool :=
  parseScript.all fun p =>
    (p.2.map (·.2) == rrKeys p.1) && p.2.all fun kk => kindDatatypeOk kk.1 (keyDatatype kk.2)

theorem scriptTable_ok : scriptTableOk = true := by decide

theorem ValOk.datatypeOk {kind : FieldKind} {v : Val} {dt : Nat} (h : ValOk kind v)
    (hk : kindDatatypeOk kind dt = true) : v.datatypeOk dt = true := by
  cases kind <;> cases v <;> simp only [ValOk] at h <;>
    (try (rename_i o; cases o <;> simp only [ValOk] at h)) <;>
    simp only [kindDatatypeOk] at hk <;> (try (split at hk <;> simp_all [Val.datatypeOk]))

theorem scriptOf_ok {type : Nat} {script : Script} (h : scriptOf parseScript type = some script) :
    script.map (·.2) = rrKeys type ∧ ∀ kk ∈ script, kindDatatypeOk kk.1 (keyDatatype kk.2) = true := by
  unfold scriptOf at h
  cases hf : parseScript.find? (·.1 == type) with
  | none => rw [hf] at h; simp at h
  | some p =>
    rw [hf] at h
    simp only [Option.map_some, Option.some.injEq] at h
    have hmem := List.mem_of_find?_eq_some hf
    have hty := List.find?_some hf
    have htab := scriptTable_ok
    unfold scriptTableOk at htab
    rw [List.all_eq_true] at htab
    have := htab p hmem
    simp only [Bool.and_eq_true, beq_iff_eq, List.all_eq_true] at this hty
    subst h
    rw [← hty]
    exact this

theorem parseFields_shape {bs : Bytes} {origLen rdlength : Nat} (script : Script) :
    ∀ {off off' : Nat} {fs : List (Nat × Val)}, off ≤ bs.size → bs.size - off ≤ origLen →
      parseFields bs origLen rdlength script off = .ok fs off' →
      fs.map (·.1) = script.map (·.2) ∧ ∀ kv ∈ fs, ∃ kind, (kind, kv.1) ∈ script ∧ ValOk kind kv.2 := by
  induction script with
  | nil =>
    intro off off' fs _ _ hr
    simp only [parseFields, P.pure_apply] at hr
    injection hr with h1 _
    subst h1
    simp
  | cons kk rest ih =>
    intro off off' fs h ho hr
    obtain ⟨kind, key⟩ := kk
    unfold parseFields at hr
    obtain ⟨v, o1, h1, hr⟩ := P.bind_eq_ok hr
    obtain ⟨vs, o2, h2, hr⟩ := P.bind_eq_ok hr
    simp only [P.pure_apply] at hr
    injection hr with hr _
    subst hr
    have hb := (safe_parseField origLen rdlength kind h ho).ok h1
    obtain ⟨ihk, ihv⟩ := ih hb.2 (by omega) h2
    refine ⟨by simp [ihk], ?_⟩
    intro kv hkv
    rcases List.mem_cons.1 hkv with rfl | hm
    · exact ⟨kind, by simp, parseField_valOk h ho h1⟩
    · obtain ⟨k, hk, hv⟩ := ihv kv hm
      exact ⟨k, by simp [hk], hv⟩

/-- a fully formed RR: every key of its type is present in `ares_dns_rr_get_keys` order, set, and of the
    key's datatype; type and class pass the validity checks; the type is a real one -/
def RR.WF (rr : RR) : Prop :=
  rr.fields.map (·.1) = rrKeys rr.type ∧
  (∀ kv ∈ rr.fields, kv.2.datatypeOk (keyDatatype kv.1) = true) ∧
  recTypeValid rr.type false = true ∧ classValid rr.cls rr.type false = true ∧
  rr.type ≠ RecType.any ∧ rr.ttl < 4294967296

theorem and_lt_of_mask (x m : Nat) : x &&& m ≤ m := Nat.and_le_right

theorem parseRRData_shape {bs : Bytes} {off off' rdlength type rawType rawClass rawTtl hi : Nat}
    {fs : List (Nat × Val)} (h : off ≤ bs.size) (hc : rawClass < 65536) (ht : rawType < 65536)
    (hr : parseRRData bs rdlength type rawType rawClass rawTtl off = .ok (fs, hi) off') :
    fs.map (·.1) = rrKeys type ∧ (∀ kv ∈ fs, kv.2.datatypeOk (keyDatatype kv.1) = true) ∧
      type ≠ RecType.any := by
  unfold parseRRData at hr
  split at hr
  · simp at hr
  · rename_i hany
    split at hr
    · rename_i hopt
      subst hopt
      unfold parseRROpt at hr
      rw [P.bind_ok (bufLen_eq h)] at hr
      obtain ⟨opts, o1, _, hr⟩ := P.bind_eq_ok hr
      simp only [P.pure_apply] at hr
      injection hr with hr _
      injection hr with hr _
      subst hr
      have h1 : (rawTtl >>> 16) &&& 0xFF ≤ 0xFF := Nat.and_le_right
      have h2 : rawTtl &&& 0xFFFF ≤ 0xFFFF := Nat.and_le_right
      refine ⟨by simp only [List.map_cons, List.map_nil]; decide, ?_, hany⟩
      intro kv hkv
      simp only [List.mem_cons, List.not_mem_nil, or_false] at hkv
      rcases hkv with rfl | rfl | rfl | rfl
      · have : keyDatatype Key.optUdpSize = 4 := by decide
        simp only [this, Val.datatypeOk]; exact decide_eq_true hc
      · have : keyDatatype Key.optVersion = 3 := by decide
        simp only [this, Val.datatypeOk]; exact decide_eq_true (by omega)
      · have : keyDatatype Key.optFlags = 4 := by decide
        simp only [this, Val.datatypeOk]; exact decide_eq_true (by omega)
      · have : keyDatatype Key.optOptions = 10 := by decide
        simp only [this, Val.datatypeOk]
    · split at hr
      · rename_i hraw
        subst hraw
        obtain ⟨f, o1, h1, hr⟩ := P.bind_eq_ok hr
        simp only [P.pure_apply] at hr
        injection hr with hr _
        injection hr with hr _
        subst hr
        unfold parseRRRaw at h1
        have hk : keyDatatype Key.rawRRType = 4 := by decide
        split at h1
        · simp only [P.pure_apply] at h1
          injection h1 with h1 _
          subst h1
          refine ⟨by simp only [List.map_cons, List.map_nil]; decide, ?_, hany⟩
          intro kv hkv
          simp only [List.mem_cons, List.not_mem_nil, or_false] at hkv
          rcases hkv with rfl | rfl
          · simp only [hk, Val.datatypeOk]; exact decide_eq_true ht
          · have : keyDatatype Key.rawRRData = 8 := by decide
            simp only [this, Val.datatypeOk]
        · obtain ⟨b, o2, _, h1⟩ := P.bind_eq_ok h1
          simp only [P.pure_apply] at h1
          injection h1 with h1 _
          subst h1
          refine ⟨by simp only [List.map_cons, List.map_nil]; decide, ?_, hany⟩
          intro kv hkv
          simp only [List.mem_cons, List.not_mem_nil, or_false] at hkv
          rcases hkv with rfl | rfl
          · simp only [hk, Val.datatypeOk]; exact decide_eq_true ht
          · have : keyDatatype Key.rawRRData = 8 := by decide
            simp only [this, Val.datatypeOk]
      · cases hs : scriptOf parseScript type with
        | none => rw [hs] at hr; simp at hr
        | some script =>
          rw [hs] at hr
          simp only at hr
          rw [P.bind_ok (bufLen_eq h)] at hr
          obtain ⟨f, o1, h1, hr⟩ := P.bind_eq_ok hr
          simp only [P.pure_apply] at hr
          injection hr with hr _
          injection hr with hr _
          subst hr
          obtain ⟨hkeys, hvals⟩ := parseFields_shape script h (by omega) h1
          obtain ⟨tk, td⟩ := scriptOf_ok hs
          refine ⟨by rw [hkeys, tk], ?_, hany⟩
          intro kv hkv
          obtain ⟨kind, hmem, hv⟩ := hvals kv hkv
          exact hv.datatypeOk (td (kind, kv.1) hmem)

theorem fetchBe16_lt {bs : Bytes} {off off' v : Nat} (h : off ≤ bs.size) (hr : fetchBe16 bs off = .ok v off') :
    v < 65536 ∧ off ≤ off' ∧ off' ≤ bs.size := by
  have hb := (safe_fetchBe16 h).ok hr
  rw [fetchBe16_eq h] at hr
  split at hr
  · injection hr with h1 _; subst h1; exact ⟨be16At_lt _, hb⟩
  · simp at hr

theorem fetchBe32_lt {bs : Bytes} {off off' v : Nat} (h : off ≤ bs.size) (hr : fetchBe32 bs off = .ok v off') :
    v < 4294967296 ∧ off ≤ off' ∧ off' ≤ bs.size := by
  have hb := (safe_fetchBe32 h).ok hr
  rw [fetchBe32_eq h] at hr
  split at hr
  · injection hr with h1 _; subst h1; exact ⟨be32At_lt _, hb⟩
  · simp at hr

theorem parseRR_shape {bs : Bytes} {off off' flags hi : Nat} {sect : Sect} {rr : RR} (h : off ≤ bs.size)
    (hr : parseRR bs flags sect off = .ok (rr, hi) off') : rr.WF := by
  unfold parseRR at hr
  obtain ⟨name, o1, h1, hr⟩ := P.bind_eq_ok hr
  have b1 := (safe_parseName false h).ok h1
  obtain ⟨rawType, o2, h2, hr⟩ := P.bind_eq_ok hr
  obtain ⟨lt2, _, b2⟩ := fetchBe16_lt b1.2 h2
  obtain ⟨qclass, o3, h3, hr⟩ := P.bind_eq_ok hr
  obtain ⟨lt3, _, b3⟩ := fetchBe16_lt b2 h3
  obtain ⟨ttl, o4, h4, hr⟩ := P.bind_eq_ok hr
  obtain ⟨lt4, _, b4⟩ := fetchBe32_lt b3 h4
  obtain ⟨rdlength, o5, h5, hr⟩ := P.bind_eq_ok hr
  obtain ⟨lt5, _, b5⟩ := fetchBe16_lt b4 h5
  simp only at hr
  rw [P.bind_ok (bufLen_eq b5)] at hr
  split at hr
  · simp at hr
  · split at hr
    · simp at hr
    · rename_i hvalid
      rw [P.bind_ok (bufLen_eq b5)] at hr
      obtain ⟨fr, o6, h6, hr⟩ := P.bind_eq_ok hr
      obtain ⟨fields, hi'⟩ := fr
      simp only at hr
      obtain ⟨hkeys, hvals, hany⟩ := parseRRData_shape b5 lt3 lt2 h6
      have hwf : (⟨name, effectiveType flags sect rawType, rrClass (effectiveType flags sect rawType) qclass,
          rrTtl (effectiveType flags sect rawType) ttl, fields⟩ : RR).WF := by
        simp only [Bool.not_eq_true, Bool.not_eq_eq_eq_not, Bool.not_not, Bool.not_true,
          Bool.not_eq_false] at hvalid
        unfold rrAddValid at hvalid
        rw [Bool.and_eq_true] at hvalid
        refine ⟨hkeys, hvals, hvalid.1, hvalid.2, hany, ?_⟩
        simp only [rrTtl]; split <;> omega
      obtain ⟨bl2, o7, h7, hr⟩ := P.bind_eq_ok hr
      obtain ⟨processed, o8, h8, hr⟩ := P.bind_eq_ok hr
      split at hr
      · simp at hr
      · split at hr
        · obtain ⟨_, o9, _, hr⟩ := P.bind_eq_ok hr
          simp only [P.pure_apply] at hr
          injection hr with hr _; injection hr with hr _; subst hr; exact hwf
        · simp only [P.pure_apply] at hr
          injection hr with hr _; injection hr with hr _; subst hr; exact hwf

theorem parseRRs_shape {bs : Bytes} {flags : Nat} {sect : Sect} (n : Nat) :
    ∀ {off off' hi : Nat} {rrs : List RR}, off ≤ bs.size →
      parseRRs bs flags sect n off = .ok (rrs, hi) off' →
      rrs.length = n ∧ (∀ rr ∈ rrs, rr.WF) ∧ off' ≤ bs.size := by
  induction n with
  | zero =>
    intro off off' hi rrs h hr
    simp only [parseRRs, P.pure_apply] at hr
    injection hr with hr ho; injection hr with hr _
    subst hr; subst ho
    simp [h]
  | succ n ih =>
    intro off off' hi rrs h hr
    unfold parseRRs at hr
    obtain ⟨r1, o1, h1, hr⟩ := P.bind_eq_ok hr
    obtain ⟨rr, hi1⟩ := r1
    simp only at hr
    obtain ⟨r2, o2, h2, hr⟩ := P.bind_eq_ok hr
    obtain ⟨rest, hi2⟩ := r2
    simp only [P.pure_apply] at hr
    injection hr with hr ho; injection hr with hr _
    subst hr; subst ho
    have b1 := (safe_parseRR flags sect h).ok h1
    obtain ⟨hl, hw, hb⟩ := ih b1.2 h2
    refine ⟨by simp [hl], ?_, hb⟩
    intro x hx
    rcases List.mem_cons.1 hx with rfl | hm
    · exact parseRR_shape h h1
    · exact hw x hm

/-- a fully formed record for the message whose header is `h` -/
structure Rec.WF (r : Rec) (h : Header) : Prop where
  qdcount : r.qd.length = h.qdcount ∧ h.qdcount = 1
  ancount : r.an.length = h.ancount
  nscount : r.ns.length = h.nscount
  arcount : r.ar.length = h.arcount
  questions : ∀ q ∈ r.qd, recTypeValid q.qtype true = true ∧ classValid q.qclass q.qtype true = true
  rrs : ∀ rr ∈ r.an ++ r.ns ++ r.ar, rr.WF
  header : r.id = h.id ∧ r.flags = h.flags ∧ r.opcode = h.opcode ∧ opcodeValid r.opcode = true ∧
    rcodeValid r.rcode = true ∧ r.id < 65536

theorem parseMsg_shape {bs : Bytes} {flags off' : Nat} {r : Rec} (hr : parseMsg bs flags 0 = .ok r off') :
    ∃ h o, parseHeader bs 0 = .ok h o ∧ r.WF h := by
  unfold parseMsg at hr
  obtain ⟨hd, o1, h1, hr⟩ := P.bind_eq_ok hr
  have b1 := (safe_parseHeader (Nat.zero_le _)).ok h1
  refine ⟨hd, o1, h1, ?_⟩
  split at hr
  · simp at hr
  · split at hr
    · simp at hr
    · rename_i hq0 hq1
      obtain ⟨q, o2, h2, hr⟩ := P.bind_eq_ok hr
      have b2 := (safe_parseQd b1.2).ok h2
      obtain ⟨r1, o3, h3, hr⟩ := P.bind_eq_ok hr
      obtain ⟨an, hi1⟩ := r1
      simp only at hr
      obtain ⟨l1, w1, b3⟩ := parseRRs_shape _ b2.2 h3
      obtain ⟨r2, o4, h4, hr⟩ := P.bind_eq_ok hr
      obtain ⟨ns, hi2⟩ := r2
      simp only at hr
      obtain ⟨l2, w2, b4⟩ := parseRRs_shape _ b3 h4
      obtain ⟨r3, o5, h5, hr⟩ := P.bind_eq_ok hr
      obtain ⟨ar, hi3⟩ := r3
      simp only [P.pure_apply] at hr
      obtain ⟨l3, w3, b5⟩ := parseRRs_shape _ b4 h5
      injection hr with hr _
      subst hr
      -- the header
      unfold parseHeader at h1
      obtain ⟨id, p1, g1, h1⟩ := P.bind_eq_ok h1
      obtain ⟨lid, _, c1⟩ := fetchBe16_lt (Nat.zero_le _) g1
      obtain ⟨u16, p2, g2, h1⟩ := P.bind_eq_ok h1
      obtain ⟨qd, p3, g3, h1⟩ := P.bind_eq_ok h1
      obtain ⟨anc, p4, g4, h1⟩ := P.bind_eq_ok h1
      obtain ⟨nsc, p5, g5, h1⟩ := P.bind_eq_ok h1
      obtain ⟨arc, p6, g6, h1⟩ := P.bind_eq_ok h1
      simp only at h1
      split at h1
      · simp at h1
      · rename_i hop
        simp only [P.pure_apply] at h1
        injection h1 with h1 _
        subst h1
        simp only [not_or, Bool.not_eq_true, Bool.not_eq_eq_eq_not, Bool.not_not, Bool.not_true,
          Bool.not_eq_false] at hop
        -- the question
        unfold parseQd at h2
        obtain ⟨qn, q1, k1, h2⟩ := P.bind_eq_ok h2
        obtain ⟨qt, q2, k2, h2⟩ := P.bind_eq_ok h2
        obtain ⟨qc, q3, k3, h2⟩ := P.bind_eq_ok h2
        split at h2
        · simp at h2
        · rename_i hqv
          simp only [P.pure_apply] at h2
          injection h2 with h2 _
          subst h2
          simp only [not_or, Bool.not_eq_true, Bool.not_eq_eq_eq_not, Bool.not_not, Bool.not_true,
            Bool.not_eq_false] at hqv
          simp only at hq0 hq1
          refine ⟨⟨by simp only [List.length_cons, List.length_nil]; omega, by simp only; omega⟩, l1, l2, l3, ?_, ?_, ?_⟩
          · intro q hq
            simp only [List.mem_cons, List.not_mem_nil, or_false] at hq
            subst hq
            exact ⟨by simpa using hqv.1, by simpa using hqv.2⟩
          · intro rr hrr
            simp only [List.mem_append] at hrr
            rcases hrr with (hrr | hrr) | hrr
            · exact w1 rr hrr
            · exact w2 rr hrr
            · exact w3 rr hrr
          · refine ⟨rfl, rfl, rfl, by simpa using hop.1, ?_, lid⟩
            simp only
            split
            · assumption
            · decide

end Cares.Dns
