import CaresLemmas.ChanAlignExec
import CaresLemmas.ChanSockUnl
/-!
# TCP read alignment (C20) — the invariant in terms of the state, and what whole calls do to one connection

* `Aligned s` — the invariant stated with `St.conn?` / `St.sock?`;
* `exec_Aligned` — kept by every completed call;
* `exec_read_frame` — a completed call that is not a read call on `fd` leaves the inbound side of a live connection `fd`
  untouched, and a connection that is live afterwards was live before;
* `exec_fresh_unread` — connections opened by a call have not read anything when it returns.
-/
namespace Cares.Chan

/-- **TCP read alignment.**  Descriptors of virtual sockets are below `nextFd`; every connection has a virtual socket;
    every socket's stream is as the virtual server builds it (`WfStream`), `slen` is its length and `spos ≤ slen`; and
    for every TCP connection that is not being closed, the position `spos - inBytes` up to which it has consumed its
    socket's stream is a message boundary (`Boundary`: the start, or the end offset of a message). -/
structure Aligned (s : St) : Prop where
  fresh : ∀ fd v, s.sock? fd = some v → fd < s.nextFd
  hasSock : ∀ fd c, s.conn? fd = some c → ∃ v, s.sock? fd = some v
  stream : ∀ fd v, s.sock? fd = some v → StreamOk (vflag v)
  aligned : ∀ fd c v, s.conn? fd = some c → s.sock? fd = some v → c.tcp = true → c.unlinked = false →
    AlignedV (vflag v) (rflag c)

theorem conn?_fd {s : St} {fd : Nat} {c : Conn} (h : s.conn? fd = some c) : c.fd = fd := by
  have := List.find?_some h; simpa using this
theorem sock?_fd {s : St} {fd : Nat} {v : VSock} (h : s.sock? fd = some v) : v.fd = fd := by
  have := List.find?_some h; simpa using this

/-- `Aligned` together with a side property of the live connections is the `AlCore` of the lookup functions -/
theorem alCore_of_aligned {Q : Nat → SV → CV → Prop} {N0 : Nat} {s : St} (h : Aligned s) (hn : N0 ≤ s.nextFd)
    (hq : ∀ fd c v, s.conn? fd = some c → s.sock? fd = some v → c.unlinked = false → Q fd (vflag v) (rflag c)) :
    AlCore Q N0 (pfind (s.conns.map rk)) (pfind (s.socks.map vk)) s.nextFd := by
  refine ⟨hn, ?_, ?_, ?_, ?_, ?_⟩
  · intro fd x hx
    rw [pfind_socks] at hx
    cases hv : s.sock? fd with
    | none => rw [hv] at hx; cases hx
    | some v => exact h.fresh fd v hv
  · intro fd y hy
    rw [pfind_conns] at hy
    cases hc : s.conn? fd with
    | none => rw [hc] at hy; cases hy
    | some c =>
      obtain ⟨v, hv⟩ := h.hasSock fd c hc
      exact ⟨vflag v, by rw [pfind_socks, hv]; rfl⟩
  · intro fd x hx
    rw [pfind_socks] at hx
    cases hv : s.sock? fd with
    | none => rw [hv] at hx; cases hx
    | some v => rw [hv] at hx; cases hx; exact h.stream fd v hv
  · intro fd y x hy hx ht hu
    rw [pfind_conns] at hy
    rw [pfind_socks] at hx
    cases hc : s.conn? fd with
    | none => rw [hc] at hy; cases hy
    | some c =>
      cases hv : s.sock? fd with
      | none => rw [hv] at hx; cases hx
      | some v =>
        rw [hc] at hy; rw [hv] at hx; cases hy; cases hx
        exact h.aligned fd c v hc hv ht hu
  · intro fd y x hy hx hu
    rw [pfind_conns] at hy
    rw [pfind_socks] at hx
    cases hc : s.conn? fd with
    | none => rw [hc] at hy; cases hy
    | some c =>
      cases hv : s.sock? fd with
      | none => rw [hv] at hx; cases hx
      | some v =>
        rw [hc] at hy; rw [hv] at hx; cases hy; cases hx
        exact hq fd c v hc hv hu

theorem aligned_of_alCore {Q : Nat → SV → CV → Prop} {N0 : Nat} {s : St}
    (h : AlCore Q N0 (pfind (s.conns.map rk)) (pfind (s.socks.map vk)) s.nextFd) : Aligned s := by
  refine ⟨?_, ?_, ?_, ?_⟩
  · intro fd v hv
    exact h.fresh fd (vflag v) (by rw [pfind_socks, hv]; rfl)
  · intro fd c hc
    obtain ⟨x, hx⟩ := h.hasSock fd (rflag c) (by rw [pfind_conns, hc]; rfl)
    rw [pfind_socks] at hx
    cases hv : s.sock? fd with
    | none => rw [hv] at hx; cases hx
    | some v => exact ⟨v, rfl⟩
  · intro fd v hv
    exact h.stream fd (vflag v) (by rw [pfind_socks, hv]; rfl)
  · intro fd c v hc hv ht hu
    exact h.al fd (rflag c) (vflag v) (by rw [pfind_conns, hc]; rfl) (by rw [pfind_socks, hv]; rfl) ht hu

theorem alCore_q {Q : Nat → SV → CV → Prop} {N0 : Nat} {s : St}
    (h : AlCore Q N0 (pfind (s.conns.map rk)) (pfind (s.socks.map vk)) s.nextFd) {fd : Nat} {c : Conn} {v : VSock}
    (hc : s.conn? fd = some c) (hv : s.sock? fd = some v) (hu : c.unlinked = false) : Q fd (vflag v) (rflag c) :=
  h.q fd (rflag c) (vflag v) (by rw [pfind_conns, hc]; rfl) (by rw [pfind_socks, hv]; rfl) hu

/-- a state without connections and sockets (a fresh channel) is aligned -/
theorem aligned_init (s : St) (hc : s.conns = []) (hs : s.socks = []) : Aligned s := by
  refine ⟨?_, ?_, ?_, ?_⟩
  · intro fd v hv; simp [St.sock?, hs] at hv
  · intro fd c h; simp [St.conn?, hc] at h
  · intro fd v hv; simp [St.sock?, hs] at hv
  · intro fd c v h; simp [St.conn?, hc] at h

theorem okCall_true (call : Call) : okCall (fun _ _ _ => True) call := by
  cases call <;> simp only [okCall]
  all_goals (intro _ _ _ _ _; trivial)

/-- **the alignment invariant is kept by every completed call** -/
theorem exec_Aligned (fuel : Nat) (call : Call) (s : St) (h : Aligned s)
    (hf : (exec fuel call s).1.outOfFuel = false) : Aligned (exec fuel call s).1 := by
  have h0 : Al (fun _ _ _ => True) 0 s := fun _ => alCore_of_aligned h (Nat.zero_le _) (fun _ _ _ _ _ _ => trivial)
  exact aligned_of_alCore (exec_Al (fun _ _ _ => trivial) fuel call s (okCall_true call) h0 hf)

/-- the consumed position of an aligned TCP connection splits its stream (`Split` of `ChanSockFrame.lean`): the messages
    before it have been taken, the others follow it without gap -/
theorem Aligned.split {s : St} (h : Aligned s) {fd : Nat} {c : Conn} {v : VSock} (hc : s.conn? fd = some c)
    (hv : s.sock? fd = some v) (ht : c.tcp = true) (hu : c.unlinked = false) :
    c.inBytes ≤ v.spos ∧ ∃ done todo, Split v.stream (v.spos - c.inBytes) done todo :=
  ⟨(h.aligned fd c v hc hv ht hu).le, (h.aligned fd c v hc hv ht hu).split (h.stream fd v hv)⟩

/-- `call` is `read_conn_packets` or `read_answers` on descriptor `fd` -/
def Call.readsFd : Call → Nat → Prop
  | .processRead fd', fd => fd' = fd
  | .readAnswers fd', fd => fd' = fd
  | _, _ => False

theorem okCall_of_not_reads {Q : Nat → SV → CV → Prop} {call : Call}
    (h : ∀ fd, call.readsFd fd → QRead Q fd) : okCall Q call := by
  cases call <;> simp only [okCall]
  case processRead fd => exact h fd rfl
  case readAnswers fd => exact h fd rfl

/-- **Frame.**  A completed call that is not a read call on `fd` does not touch the inbound side of connection `fd`: if
    `fd` names a connection that is not being closed afterwards, it did so before, with the same stream, the same read
    position and the same number of buffered bytes.  (Descriptors are never reused: `fd < s.nextFd`.) -/
theorem exec_read_frame (fuel : Nat) (call : Call) (s : St) (h : Aligned s) (fd : Nat) (hfd : fd < s.nextFd)
    (hcall : ¬ call.readsFd fd) (hf : (exec fuel call s).1.outOfFuel = false) {c' : Conn} {v' : VSock}
    (hc' : (exec fuel call s).1.conn? fd = some c') (hv' : (exec fuel call s).1.sock? fd = some v')
    (hu' : c'.unlinked = false) :
    ∃ c v, s.conn? fd = some c ∧ s.sock? fd = some v ∧ c.unlinked = false ∧ vflag v' = vflag v ∧ rflag c' = rflag c := by
  let Q : Nat → SV → CV → Prop := fun fd' x y =>
    fd' = fd → ∃ c v, s.conn? fd = some c ∧ s.sock? fd = some v ∧ c.unlinked = false ∧ x = vflag v ∧ y = rflag c
  have hQ : QFresh Q (fd + 1) := by
    intro fd' hle tcp he; omega
  have h0 : Al Q (fd + 1) s := fun _ => alCore_of_aligned h hfd (by
    intro fd' c v hc hv hu he
    subst he
    exact ⟨c, v, hc, hv, hu, rfl, rfl⟩)
  have hok : okCall Q call := okCall_of_not_reads (by
    intro fd' hr x y _ _ _ he
    subst he
    exact absurd hr hcall)
  have := alCore_q (exec_Al hQ fuel call s hok h0 hf) hc' hv' hu' rfl
  exact this

/-- … in particular a descriptor that names no live connection before names none afterwards -/
theorem exec_dead_stays (fuel : Nat) (call : Call) (s : St) (h : Aligned s) (fd : Nat) (hfd : fd < s.nextFd)
    (hcall : ¬ call.readsFd fd) (hf : (exec fuel call s).1.outOfFuel = false)
    (hdead : ∀ c, s.conn? fd = some c → c.unlinked = true) :
    ∀ c', (exec fuel call s).1.conn? fd = some c' → c'.unlinked = true := by
  intro c' hc'
  cases hu' : c'.unlinked with
  | true => rfl
  | false =>
    have hal := exec_Aligned fuel call s h hf
    obtain ⟨v', hv'⟩ := hal.hasSock fd c' hc'
    obtain ⟨c, v, hc, _, hu, _⟩ := exec_read_frame fuel call s h fd hfd hcall hf hc' hv' hu'
    rw [hdead c hc] at hu; cases hu

/-- **Connections opened by a call have read nothing when it returns** (no read call on a descriptor that does not
    exist yet can be part of it) -/
theorem exec_fresh_unread (fuel : Nat) (call : Call) (s : St) (h : Aligned s)
    (hcall : ∀ fd, call.readsFd fd → fd < s.nextFd) (hf : (exec fuel call s).1.outOfFuel = false) (fd : Nat)
    (hfd : s.nextFd ≤ fd) {c' : Conn} {v' : VSock} (hc' : (exec fuel call s).1.conn? fd = some c')
    (hv' : (exec fuel call s).1.sock? fd = some v') (hu' : c'.unlinked = false) :
    v'.spos = 0 ∧ c'.inBytes = 0 := by
  let Q : Nat → SV → CV → Prop := fun fd' x y => s.nextFd ≤ fd' → x.spos = 0 ∧ y.inBytes = 0
  have hQ : QFresh Q 0 := fun _ _ _ _ => ⟨rfl, rfl⟩
  have h0 : Al Q 0 s := fun _ => alCore_of_aligned h (Nat.zero_le _) (by
    intro fd' c v hc hv _ hle
    obtain ⟨v0, hv0⟩ := h.hasSock fd' c hc
    have := h.fresh fd' v0 hv0
    omega)
  have hok : okCall Q call := okCall_of_not_reads (by
    intro fd' hr x y _ _ _ hle
    have := hcall fd' hr
    omega)
  exact alCore_q (exec_Al hQ fuel call s hok h0 hf) hc' hv' hu' hfd

/-- **No call changes what a connection is.**  Whatever the call (read calls included): if `fd` names a connection that
    is not being closed afterwards, it did so before, of the same kind (TCP / UDP), with the same peer stream. -/
theorem exec_conn_kind (fuel : Nat) (call : Call) (s : St) (h : Aligned s) (fd : Nat) (hfd : fd < s.nextFd)
    (hf : (exec fuel call s).1.outOfFuel = false) {c' : Conn} {v' : VSock}
    (hc' : (exec fuel call s).1.conn? fd = some c') (hv' : (exec fuel call s).1.sock? fd = some v')
    (hu' : c'.unlinked = false) :
    ∃ c v, s.conn? fd = some c ∧ s.sock? fd = some v ∧ c.unlinked = false ∧ c'.tcp = c.tcp ∧
      v'.stream = v.stream ∧ v'.slen = v.slen := by
  let Q : Nat → SV → CV → Prop := fun fd' x y =>
    fd' = fd → ∃ c v, s.conn? fd = some c ∧ s.sock? fd = some v ∧ c.unlinked = false ∧ y.tcp = c.tcp ∧
      x.stream = v.stream ∧ x.slen = v.slen
  have hQ : QFresh Q (fd + 1) := by
    intro fd' hle tcp he; omega
  have h0 : Al Q (fd + 1) s := fun _ => alCore_of_aligned h hfd (by
    intro fd' c v hc hv hu he
    subst he
    exact ⟨c, v, hc, hv, hu, rfl, rfl, rfl⟩)
  have hok : okCall Q call := okCall_of_not_reads (by
    intro fd' _ x y _ _ hq he
    exact hq he)
  exact alCore_q (exec_Al hQ fuel call s hok h0 hf) hc' hv' hu' rfl

theorem Aligned.of_views {s s' : St} (h : Aligned s) (hc : s'.conns.map rk = s.conns.map rk)
    (hs : s'.socks.map vk = s.socks.map vk) (hn : s'.nextFd = s.nextFd) : Aligned s' := by
  apply aligned_of_alCore (Q := fun _ _ _ => True) (N0 := 0)
  rw [hc, hs, hn]
  exact alCore_of_aligned h (Nat.zero_le _) (fun _ _ _ _ _ _ => trivial)

theorem exec_oof_back (fuel : Nat) (call : Call) (s : St) (hf : (exec fuel call s).1.outOfFuel = false) :
    s.outOfFuel = false := by
  cases h : s.outOfFuel with
  | false => rfl
  | true => have := exec_oof_sticky fuel call s h; rw [hf] at this; cases this

end Cares.Chan
