import CaresLemmas.ChanWfSk
/-!
# C01 — frame lemmas: which helpers of `Chan.Core` leave the skeleton alone
-/
namespace Cares.Chan

@[simp] theorem sk_emit (s : St) (e : String) : (s.emit e).sk = s.sk := rfl
@[simp] theorem sk_slog (s : St) (fd : Nat) (c : String) : (s.slog fd c).sk = s.sk := rfl
@[simp] theorem sk_ofault (s : St) (e : String) : (s.ofault e).sk = s.sk := rfl
theorem sk_mfault (s : St) (e : String) : (s.mfault e).sk = { s.sk with faults := s.sk.faults ++ [e] } := rfl
@[simp] theorem sk_oof (s : St) : s.oof.1.sk = s.sk := rfl

@[simp] theorem sk_set_ev (s : St) (x) : ({ s with ev := x } : St).sk = s.sk := rfl
@[simp] theorem sk_set_obs (s : St) (x) : ({ s with obs := x } : St).sk = s.sk := rfl
@[simp] theorem sk_set_faults (s : St) (x) : ({ s with faults := x } : St).sk = s.sk := rfl
@[simp] theorem sk_set_cache (s : St) (x) : ({ s with cache := x } : St).sk = s.sk := rfl
@[simp] theorem sk_set_picks (s : St) (x) : ({ s with picks := x } : St).sk = s.sk := rfl
@[simp] theorem sk_set_writeLog (s : St) (x) : ({ s with writeLog := x } : St).sk = s.sk := rfl
@[simp] theorem sk_set_notifyLog (s : St) (x) : ({ s with notifyLog := x } : St).sk = s.sk := rfl
@[simp] theorem sk_set_accepted (s : St) (x) : ({ s with accepted := x } : St).sk = s.sk := rfl
@[simp] theorem sk_set_requeueArr (s : St) (x) : ({ s with requeueArr := x } : St).sk = s.sk := rfl
@[simp] theorem sk_set_notifyPending (s : St) (x) : ({ s with notifyPending := x } : St).sk = s.sk := rfl
@[simp] theorem sk_set_txs (s : St) (x) : ({ s with txs := x } : St).sk = s.sk := rfl
@[simp] theorem sk_set_destroying (s : St) (x) : ({ s with destroying := x } : St).sk = s.sk := rfl
@[simp] theorem sk_set_pendingWl (s : St) (x) : ({ s with pendingWl := x } : St).sk = s.sk := rfl

@[simp] theorem sk_fault (s : St) (c : String) : (s.fault c).2.sk = s.sk := rfl
@[simp] theorem sk_draw1 (s : St) : s.draw1.2.sk = s.sk := by unfold St.draw1; split <;> rfl
@[simp] theorem sk_draw2 (s : St) : s.draw2.2.sk = s.sk := by unfold St.draw2; split <;> rfl
@[simp] theorem sk_pop8 (s : St) : s.pop8.sk = s.sk := by unfold St.pop8; split <;> rfl
@[simp] theorem sk_cacheExpire (s : St) : s.cacheExpire.sk = s.sk := rfl
@[simp] theorem sk_cacheInsert (s : St) (q : Query) (r : Reply) : (s.cacheInsert q r).sk = s.sk := by
  unfold St.cacheInsert
  simp only
  repeat' split
  all_goals rfl

@[simp] theorem sk_genQid (n : Nat) (s : St) : (genQid n s).2.sk = s.sk := by
  induction n generalizing s with
  | zero => rfl
  | succ n ih =>
    unfold genQid
    split
    · rfl
    · simp only
      split
      · rw [ih]; exact sk_draw2 s
      · exact sk_draw2 s

@[simp] theorem sk_notify (s : St) (fd : Nat) (r w : Bool) : (s.notify fd r w).sk = s.sk := by
  unfold St.notify
  split
  · rfl
  · simp only
    rw [sk_modConn_same]
    · split <;> rfl
    · intro; rfl

@[simp] theorem sk_metricsRecord (s : St) (q : Query) (srv : Option Nat) (st : Status) (rec : Option Reply) :
    (s.metricsRecord q srv st rec).sk = s.sk := by
  unfold St.metricsRecord
  split
  · split
    · rfl
    · rw [sk_modServer_same]; intro; rfl
  · rfl

@[simp] theorem sk_recordTx (s : St) (fd : Nat) (tcp : Bool) (f : OutFrame) : (s.recordTx fd tcp f).sk = s.sk := by
  unfold St.recordTx
  simp only [sk_emit]
  rw [sk_modQuery_same]
  · rfl
  · intro q; split <;> rfl

@[simp] theorem sk_advanceOut (n fd : Nat) (s : St) (m : Nat) : (advanceOut n fd s m).sk = s.sk := by
  induction n generalizing s m with
  | zero => rfl
  | succ n ih =>
    unfold advanceOut
    split
    · rfl
    · split
      · rfl
      · simp only
        split
        · split
          · rw [sk_recordTx, sk_modConn_same]; intro; rfl
          · rw [ih, sk_recordTx, sk_modConn_same]; intro; rfl
        · rw [sk_modConn_same]; intro; rfl

theorem eq_of_nodup_map {α β} (f : α → β) : ∀ (l : List α), (l.map f).Nodup → ∀ x ∈ l, ∀ y ∈ l, f x = f y → x = y
  | [], _, _, hx, _, _, _ => by cases hx
  | a :: r, h, x, hx, y, hy, e => by
    simp only [List.map_cons, List.nodup_cons, List.mem_map, not_exists, not_and] at h
    rcases List.mem_cons.mp hx with rfl | hx' <;> rcases List.mem_cons.mp hy with rfl | hy'
    · rfl
    · exact absurd e.symm (h.1 y hy')
    · exact absurd e (h.1 x hx')
    · exact eq_of_nodup_map f r h.2 x hx' y hy' e

theorem sk_setServer_same (s : St) (v v' : Server) (hn : (s.servers.map (·.id)).Nodup)
    (hv : s.server? v'.id = some v) (hsk : v'.sk = v.sk) : (s.setServer v').sk = s.sk := by
  unfold St.setServer St.sk
  simp only [List.map_map, Sk.mk.injEq, true_and, and_true]
  apply List.map_congr_left
  intro x hx
  simp only [Function.comp]
  split
  · rename_i h
    have hv' := List.find?_some hv
    have hm := List.mem_of_find?_eq_some hv
    have : x = v := eq_of_nodup_map (·.id) s.servers hn x hx v hm (by
      simp only [beq_iff_eq] at h hv'; omega)
    rw [this, hsk]
  · rfl

theorem sk_incFailures (s : St) (id : Nat) (tcp : Bool) (hn : (s.servers.map (·.id)).Nodup) :
    (s.incFailures id tcp).sk = s.sk := by
  unfold St.incFailures
  split
  · rfl
  · rename_i v hv
    rw [sk_emit]
    have hid : v.id = id := by simpa using List.find?_some hv
    exact sk_setServer_same s v _ hn (by simpa [hid] using hv) rfl

theorem sk_setGood (s : St) (id : Nat) (tcp : Bool) (hn : (s.servers.map (·.id)).Nodup) :
    (s.setGood id tcp).sk = s.sk := by
  unfold St.setGood
  split
  · rfl
  · rename_i v hv
    rw [sk_emit]
    have hid : v.id = id := by simpa using List.find?_some hv
    exact sk_setServer_same s v _ hn (by simpa [hid] using hv) rfl

theorem sk_userCallback (s : St) (tok : Nat) (st : Status) (t : Nat) (dg : String) :
    (s.userCallback tok st t dg).sk =
      { s.sk with pendingToks := s.sk.pendingToks.erase tok, doneToks := s.sk.doneToks ++ [tok] } := by
  unfold St.userCallback
  simp only [sk_emit]
  split <;> split <;> rfl

end Cares.Chan
