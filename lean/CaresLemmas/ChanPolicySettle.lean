import CaresLemmas.ChanPolicyTimeout
/-!
# `St.settle` (the replay of the skip-list insertions at the end of an API call) keeps the index sorted, and
  `St.timeoutHint` (`ares_timeout`) is sound with respect to it
-/
namespace Cares.Chan
set_option linter.unusedVariables false

/-! ### `insertByDeadline` -/

/-- the key `insertByDeadline` computes for an existing entry -/
def xmsOf (qs : List Query) (x : Nat) : Nat :=
  ((qs.find? (·.key == x)).bind fun q => deadlineMs q.deadline).getD 0

theorem insertByDeadline_perm (qs : List Query) (k ms : Nat) (l : List Nat) :
    (insertByDeadline qs k ms l).Perm (k :: l) := by
  induction l with
  | nil => exact List.Perm.refl _
  | cons x r ih =>
    unfold insertByDeadline
    dsimp only
    split
    · exact List.Perm.refl _
    · exact (List.Perm.cons x ih).trans (List.Perm.swap k x r)

theorem mem_insertByDeadline {qs : List Query} {k ms : Nat} {l : List Nat} {x : Nat} :
    x ∈ insertByDeadline qs k ms l ↔ x = k ∨ x ∈ l := by
  rw [(insertByDeadline_perm qs k ms l).mem_iff]; simp

theorem insertByDeadline_nodup {qs : List Query} {k ms : Nat} {l : List Nat} (hn : l.Nodup) (hk : k ∉ l) :
    (insertByDeadline qs k ms l).Nodup :=
  (insertByDeadline_perm qs k ms l).nodup_iff.2 (List.nodup_cons.2 ⟨hk, hn⟩)

theorem insertByDeadline_sorted (qs : List Query) (k ms : Nat) (l : List Nat) (d : Nat → Nat)
    (hd : ∀ x ∈ l, xmsOf qs x = d x) (hk : d k = ms) (hs : l.Pairwise (fun a b => d a ≤ d b)) :
    (insertByDeadline qs k ms l).Pairwise (fun a b => d a ≤ d b) := by
  induction l with
  | nil => simp [insertByDeadline]
  | cons x r ih =>
    unfold insertByDeadline
    dsimp only
    have hx : xmsOf qs x = d x := hd x List.mem_cons_self
    unfold xmsOf at hx
    rw [hx]
    rw [List.pairwise_cons] at hs
    split
    · rename_i hle
      refine List.pairwise_cons.2 ⟨?_, List.pairwise_cons.2 hs⟩
      intro y hy
      rcases List.mem_cons.1 hy with rfl | hy
      · rw [hk]; exact hle
      · have := hs.1 y hy; rw [hk]; omega
    · rename_i hle
      refine List.pairwise_cons.2 ⟨?_, ih (fun y hy => hd y (List.mem_cons_of_mem _ hy)) hs.2⟩
      intro y hy
      rcases mem_insertByDeadline.1 hy with rfl | hy
      · rw [hk]; omega
      · exact hs.1 y hy

/-! ### one step of the replay -/

/-- the part of `BT` that does not mention `pendingOrder` -/
def BT0 (s : St) : Prop :=
  s.byTimeout.Nodup ∧ s.byTimeout.Pairwise (fun a b => s.dlOf a ≤ s.dlOf b) ∧ (∀ k ∈ s.byTimeout, s.hasAt k)

theorem BT.toBT0 {s : St} (h : BT s) : BT0 s := ⟨h.1, h.2.1, h.2.2.1⟩

/-- the step function of `St.settle` -/
def settleStep (s : St) (k : Nat) : St :=
  match s.query? k with
  | none => s
  | some q =>
    match q.deadline with
    | .pending lo hi =>
      match s.obs.dls.find? (·.1 == q.qid) with
      | some (_, rem) =>
        let v := (Int.ofNat s.now + rem).toNat
        let s := if lo ≤ v && v ≤ hi then s
                 else s.ofault s!"deadline-out-of-policy(qid={q.qid},{v},[{lo},{hi}])"
        let s := s.modQuery q.key fun q => { q with deadline := .at v }
        { s with byTimeout := insertByDeadline s.qs q.key v s.byTimeout }
      | none => s.ofault s!"deadline-unobserved(qid={q.qid})"
    | .at ms => { s with byTimeout := insertByDeadline s.qs q.key ms (s.byTimeout.erase q.key) }
    | .none => s

theorem settle_eq (s : St) : s.settle = { s.pendingOrder.foldl settleStep s with pendingOrder := [] } := rfl

theorem xmsOf_eq_dlOf (s : St) (x : Nat) : xmsOf s.qs x = s.dlOf x := rfl

/-- inserting entry `k` (not in the index) whose query now has deadline `.at v` -/
theorem BT0.insert {s : St} {k v : Nat} (h : BT0 s) (hk : k ∉ s.byTimeout) (hdl : s.dl? k = some (.at v)) :
    BT0 { s with byTimeout := insertByDeadline s.qs k v s.byTimeout } := by
  obtain ⟨hn, hs, hl⟩ := h
  have hdk : s.dlOf k = v := by rw [dlOf_eq, hdl]; rfl
  refine ⟨insertByDeadline_nodup hn hk, ?_, ?_⟩
  · exact insertByDeadline_sorted s.qs k v s.byTimeout s.dlOf (fun x _ => xmsOf_eq_dlOf s x) hdk hs
  · intro x hx
    rcases mem_insertByDeadline.1 hx with rfl | hx
    · exact ⟨v, hdl⟩
    · exact hl x hx

theorem BT0.erase {s : St} (k : Nat) (h : BT0 s) : BT0 { s with byTimeout := s.byTimeout.erase k } := by
  obtain ⟨hn, hs, hl⟩ := h
  exact ⟨hn.erase k, List.Pairwise.sublist List.erase_sublist hs, fun x hx => hl x (List.mem_of_mem_erase hx)⟩

/-- the fold invariant of `settle`: index well-formed; every definite deadline is in the index or still to be
    replayed; the observation-fault log only grows, and as long as it has not grown every deadline (also a jittered one
    awaiting its observed value) is in the index or still to be replayed -/
def SettleInv (n0 : Nat) (rest : List Nat) (s : St) : Prop :=
  BT0 s ∧ (∀ k ms, s.dl? k = some (.at ms) → k ∈ s.byTimeout ∨ k ∈ rest) ∧ n0 ≤ s.obsFaults.length ∧
  (s.obsFaults.length = n0 → ∀ k d, s.dl? k = some d → d ≠ .none → k ∈ s.byTimeout ∨ k ∈ rest)

theorem dl?_modQuery_deadline (s : St) (k : Nat) (d : Deadline) (k' : Nat) :
    (s.modQuery k fun q => { q with deadline := d }).dl? k' =
      if k' = k then (s.dl? k').map (fun _ => d) else s.dl? k' := by
  unfold St.dl?
  rw [query?_modQuery]
  rotate_left
  · intro _; rfl
  cases hq : s.query? k' with
  | none => simp
  | some q =>
    have hk := query?_key hq
    by_cases hkk : k' = k
    · subst hkk; simp [hk]
    · have : q.key ≠ k := by rw [hk]; exact hkk
      simp [this, hkk]

theorem settleStep_inv (n0 : Nat) (k : Nat) (rest : List Nat) (s : St) (h : SettleInv n0 (k :: rest) s) :
    SettleInv n0 rest (settleStep s k) := by
  obtain ⟨h0, hat, hn, hfull⟩ := h
  unfold settleStep
  split
  · -- no such query
    rename_i hnone
    refine ⟨h0, ?_, hn, ?_⟩
    · intro k' ms hd
      rcases hat k' ms hd with hh | hh
      · exact Or.inl hh
      · rcases List.mem_cons.1 hh with rfl | hh
        · unfold St.dl? at hd; rw [hnone] at hd; cases hd
        · exact Or.inr hh
    · intro he k' d hd hne
      rcases hfull he k' d hd hne with hh | hh
      · exact Or.inl hh
      · rcases List.mem_cons.1 hh with rfl | hh
        · unfold St.dl? at hd; rw [hnone] at hd; cases hd
        · exact Or.inr hh
  · rename_i q hq
    have hqk : q.key = k := query?_key hq
    have hdlk : s.dl? k = some q.deadline := by unfold St.dl?; rw [hq]; rfl
    split
    · -- jittered deadline awaiting its observed value
      rename_i lo hi hpend
      rw [hpend] at hdlk
      have hknot : k ∉ s.byTimeout := by
        intro hk
        obtain ⟨ms, hms⟩ := h0.2.2 k hk
        rw [hdlk] at hms; cases hms
      split
      · rename_i rem _
        -- observed
        dsimp only
        generalize hv : (Int.ofNat s.now + rem).toNat = v
        -- the optional fault note does not matter for the lists
        have key : ∀ s1 : St, s1.qs = s.qs → s1.byTimeout = s.byTimeout → n0 ≤ s1.obsFaults.length →
            (s1.obsFaults.length = n0 → s.obsFaults.length = n0) →
            SettleInv n0 rest
              { (s1.modQuery q.key fun q => { q with deadline := .at v }) with
                byTimeout := insertByDeadline (s1.modQuery q.key fun q => { q with deadline := .at v }).qs q.key v
                  (s1.modQuery q.key fun q => { q with deadline := .at v }).byTimeout } := by
          intro s1 hqs hbt hn1 hback
          rw [hqk]
          have hdl1 : ∀ k', (s1.modQuery k fun q => { q with deadline := .at v }).dl? k' =
              if k' = k then (s.dl? k').map (fun _ => Deadline.at v) else s.dl? k' := by
            intro k'
            rw [dl?_modQuery_deadline]
            have : s1.dl? k' = s.dl? k' := by unfold St.dl? St.query?; rw [hqs]
            rw [this]
          have hb0 : BT0 (s1.modQuery k fun q => { q with deadline := .at v }) := by
            refine ⟨by show s1.byTimeout.Nodup; rw [hbt]; exact h0.1, ?_, ?_⟩
            · show s1.byTimeout.Pairwise _
              rw [hbt]
              refine h0.2.1.imp_of_mem ?_
              intro a b ha hb hab
              have ha' : a ≠ k := fun e => hknot (e ▸ ha)
              have hb' : b ≠ k := fun e => hknot (e ▸ hb)
              rw [dlOf_eq, dlOf_eq, hdl1, hdl1, if_neg ha', if_neg hb', ← dlOf_eq, ← dlOf_eq]; exact hab
            · intro x hx
              have hx' : x ∈ s.byTimeout := by rw [← hbt]; exact hx
              have hne : x ≠ k := fun e => hknot (e ▸ hx')
              unfold St.hasAt; rw [hdl1, if_neg hne]; exact h0.2.2 x hx'
          have hdlk' : (s1.modQuery k fun q => { q with deadline := .at v }).dl? k = some (.at v) := by
            rw [hdl1, if_pos rfl, hdlk]; rfl
          have hknot' : k ∉ (s1.modQuery k fun q => { q with deadline := .at v }).byTimeout := by
            show k ∉ s1.byTimeout; rw [hbt]; exact hknot
          refine ⟨BT0.insert hb0 hknot' hdlk', ?_, hn1, ?_⟩
          · intro k' ms hd
            have hd' : (s1.modQuery k fun q => { q with deadline := .at v }).dl? k' = some (.at ms) := hd
            show k' ∈ insertByDeadline _ k v s1.byTimeout ∨ k' ∈ rest
            rw [mem_insertByDeadline, hbt]
            by_cases hkk : k' = k
            · exact Or.inl (Or.inl hkk)
            · rw [hdl1, if_neg hkk] at hd'
              rcases hat k' ms hd' with hh | hh
              · exact Or.inl (Or.inr hh)
              · rcases List.mem_cons.1 hh with e | hh
                · exact absurd e hkk
                · exact Or.inr hh
          · intro he k' d hd hne
            have hd' : (s1.modQuery k fun q => { q with deadline := .at v }).dl? k' = some d := hd
            show k' ∈ insertByDeadline _ k v s1.byTimeout ∨ k' ∈ rest
            rw [mem_insertByDeadline, hbt]
            by_cases hkk : k' = k
            · exact Or.inl (Or.inl hkk)
            · rw [hdl1, if_neg hkk] at hd'
              rcases hfull (hback he) k' d hd' hne with hh | hh
              · exact Or.inl (Or.inr hh)
              · rcases List.mem_cons.1 hh with e | hh
                · exact absurd e hkk
                · exact Or.inr hh
        split
        · exact key s rfl rfl hn (fun e => e)
        · refine key (s.ofault _) rfl rfl ?_ ?_
          · show n0 ≤ (s.obsFaults ++ [_]).length; rw [List.length_append]; omega
          · intro e
            have : (s.obsFaults ++ [_]).length = n0 := e
            rw [List.length_append] at this
            simp at this; omega
      · -- not observed: a fault is logged, nothing else changes
        refine ⟨h0, ?_, ?_, ?_⟩
        · intro k' ms hd
          have hd' : s.dl? k' = some (.at ms) := hd
          rcases hat k' ms hd' with hh | hh
          · exact Or.inl hh
          · rcases List.mem_cons.1 hh with rfl | hh
            · rw [hdlk] at hd'; cases hd'
            · exact Or.inr hh
        · show n0 ≤ (s.obsFaults ++ [_]).length; rw [List.length_append]; omega
        · intro e
          have : (s.obsFaults ++ [_]).length = n0 := e
          rw [List.length_append] at this
          simp at this; omega
    · -- definite deadline: re-inserted
      rename_i ms hatms
      rw [hatms] at hdlk
      rw [hqk]
      have he : BT0 { s with byTimeout := s.byTimeout.erase k } := BT0.erase k h0
      have hknot : k ∉ ({ s with byTimeout := s.byTimeout.erase k } : St).byTimeout := by
        show k ∉ s.byTimeout.erase k
        rw [h0.1.mem_erase_iff]; exact fun hh => hh.1 rfl
      have := BT0.insert (s := { s with byTimeout := s.byTimeout.erase k }) (k := k) (v := ms) he hknot hdlk
      refine ⟨this, ?_, hn, ?_⟩
      · intro k' ms' hd
        show k' ∈ insertByDeadline _ k ms (s.byTimeout.erase k) ∨ k' ∈ rest
        rw [mem_insertByDeadline]
        by_cases hkk : k' = k
        · exact Or.inl (Or.inl hkk)
        · rw [List.mem_erase_of_ne hkk]
          rcases hat k' ms' hd with hh | hh
          · exact Or.inl (Or.inr hh)
          · rcases List.mem_cons.1 hh with e | hh
            · exact absurd e hkk
            · exact Or.inr hh
      · intro hee k' d hd hne
        show k' ∈ insertByDeadline _ k ms (s.byTimeout.erase k) ∨ k' ∈ rest
        rw [mem_insertByDeadline]
        by_cases hkk : k' = k
        · exact Or.inl (Or.inl hkk)
        · rw [List.mem_erase_of_ne hkk]
          rcases hfull hee k' d hd hne with hh | hh
          · exact Or.inl (Or.inr hh)
          · rcases List.mem_cons.1 hh with e | hh
            · exact absurd e hkk
            · exact Or.inr hh
    · -- no deadline
      rename_i hnone
      rw [hnone] at hdlk
      refine ⟨h0, ?_, hn, ?_⟩
      · intro k' ms hd
        rcases hat k' ms hd with hh | hh
        · exact Or.inl hh
        · rcases List.mem_cons.1 hh with rfl | hh
          · rw [hdlk] at hd; cases hd
          · exact Or.inr hh
      · intro he k' d hd hne
        rcases hfull he k' d hd hne with hh | hh
        · exact Or.inl hh
        · rcases List.mem_cons.1 hh with rfl | hh
          · rw [hdlk] at hd; cases hd; exact absurd rfl hne
          · exact Or.inr hh

theorem settle_fold_inv (n0 : Nat) (l : List Nat) (s : St) (h : SettleInv n0 l s) :
    SettleInv n0 [] (l.foldl settleStep s) := by
  induction l generalizing s with
  | nil => exact h
  | cons k r ih => exact ih _ (settleStep_inv n0 k r s h)

/-- C07a: `settle` keeps the index duplicate-free, sorted and live; afterwards every query with a definite deadline is
    in the index; and unless an observation fault was logged (a jittered deadline whose observed value is missing) the
    full invariant `BT` holds again -/
theorem settle_bt (s : St) (h : BT s) :
    BT0 s.settle ∧ s.settle.pendingOrder = [] ∧
    (∀ k ms, s.settle.dl? k = some (.at ms) → k ∈ s.settle.byTimeout) ∧
    (s.settle.obsFaults.length = s.obsFaults.length → BT s.settle) := by
  have hinit : SettleInv s.obsFaults.length s.pendingOrder s :=
    ⟨h.toBT0, fun k ms hd => h.2.2.2 k _ hd (by simp), Nat.le_refl _, fun _ k d hd hne => h.2.2.2 k d hd hne⟩
  obtain ⟨h0, hat, hn, hfull⟩ := settle_fold_inv _ _ _ hinit
  rw [settle_eq]
  refine ⟨h0, rfl, ?_, ?_⟩
  · intro k ms hd
    rcases hat k ms hd with hh | hh
    · exact hh
    · cases hh
  · intro he
    refine ⟨h0.1, h0.2.1, h0.2.2, ?_⟩
    intro k d hd hne
    rcases hfull he k d hd hne with hh | hh
    · exact Or.inl hh
    · cases hh

end Cares.Chan
