import CaresLemmas.WriteRR2
/-!
# Message level: `ares_dns_parse` after `ares_dns_write`
-/
namespace Cares.Dns.Write
open Cares.Dns Cares.Dns.NameW Cares.Dns.Build

/-- what `parseRRs` ORs together for a section -/
def hiOfRRs (rcode : Nat) : List RR → Nat
  | [] => 0
  | rr :: rest => hiOfRR rcode rr ||| hiOfRRs rcode rest

theorem parseRRs_writeRRs (rcode : Nat) (hrc : rcodeValid rcode = true) (sect : Sect) (rrs : List RR) :
    ∀ (out post : BStr) (names : List NameOff) (p : Piece),
      (∀ rr ∈ rrs, rrOk rr = true) → writeRRs rcode 0 out.length names rrs = .ok p → NInv names out →
      (out ++ p.bytes ++ post).length ≤ 65535 →
      parseRRs (out ++ p.bytes ++ post).toArray 0 sect rrs.length out.length =
          .ok (rrs.map canonRR, hiOfRRs rcode rrs) (out.length + p.bytes.length) ∧
        NInv p.names (out ++ p.bytes) ∧ p.trunc = false := by
  induction rrs with
  | nil =>
    intro out post names p _ hw hinv _
    simp only [writeRRs, Except.ok.injEq] at hw
    subst hw
    simp [parseRRs, hiOfRRs, hinv]
  | cons rr rest ih =>
    intro out post names p hok hw hinv hsize
    simp only [writeRRs] at hw
    cases h1 : writeRR rcode 0 out.length names rr with
    | error e => simp [h1] at hw
    | ok p1 =>
      simp only [h1] at hw
      cases h2 : writeRRs rcode 0 (out.length + p1.bytes.length) p1.names rest with
      | error e => simp [h2] at hw
      | ok q =>
        simp only [h2, Except.ok.injEq] at hw
        subst hw
        dsimp only at hsize ⊢
        have hmsg : out ++ (p1.bytes ++ q.bytes) ++ post = out ++ p1.bytes ++ (q.bytes ++ post) := by
          simp [List.append_assoc]
        have hmsg2 : out ++ (p1.bytes ++ q.bytes) ++ post = (out ++ p1.bytes) ++ q.bytes ++ post := by
          simp [List.append_assoc]
        obtain ⟨f1, f2, f3⟩ := parseRR_writeRR rcode hrc sect rr (hok rr List.mem_cons_self) out (q.bytes ++ post)
          names p1 h1 hinv (by rw [← hmsg]; exact hsize)
        have hlen : (out ++ p1.bytes).length = out.length + p1.bytes.length := by simp
        obtain ⟨g1, g2, g3⟩ := ih (out ++ p1.bytes) post p1.names q
          (fun x hx => hok x (List.mem_cons_of_mem _ hx)) (by rw [hlen]; exact h2) f2 (by rw [← hmsg2]; exact hsize)
        refine ⟨?_, by rw [← List.append_assoc]; exact g2, by simp [f3, g3]⟩
        simp only [List.length_cons, parseRRs]
        rw [hmsg, P.bind_ok f1]
        simp only
        rw [← hmsg, hmsg2, ← hlen, P.bind_ok g1]
        simp [hiOfRRs, List.length_append, Nat.add_assoc]

/-! ## header -/

/-- the flag word as a function of the three header fields it carries -/
def flagWordOf (fl op rc : Nat) : Nat :=
  (if (fl &&& Flag.qr != 0) = true then 0x8000 else 0) + (op % 16) * 2048 +
  (if (fl &&& Flag.aa != 0) = true then 0x400 else 0) + (if (fl &&& Flag.tc != 0) = true then 0x200 else 0) +
  (if (fl &&& Flag.rd != 0) = true then 0x100 else 0) + (if (fl &&& Flag.ra != 0) = true then 0x80 else 0) +
  (if (fl &&& Flag.ad != 0) = true then 0x20 else 0) + (if (fl &&& Flag.cd != 0) = true then 0x10 else 0) + rc

set_option maxRecDepth 100000 in
/-- the header bit fields survive the round trip (exhaustive over flags × opcodes × low rcode bits) -/
theorem flagWord_fields : ∀ fl, fl < 128 → ∀ op ∈ [0, 1, 2, 4, 5], ∀ rc, rc < 16 →
    headerFlags (flagWordOf fl op rc) = fl ∧ (flagWordOf fl op rc >>> 11) &&& 0xf = op ∧
      flagWordOf fl op rc &&& 0xf = rc ∧ flagWordOf fl op rc < 65536 := by
  decide +kernel

theorem flagsValid_lt (fl : Nat) (h : flagsValid fl = true) (h16 : fl < 65536) : fl < 128 := by
  simp only [flagsValid, decide_eq_true_eq] at h
  have h2 : fl = (fl / 128) * 128 + fl % 128 := by omega
  by_cases hc : fl < 128
  · exact hc
  exfalso
  have hq : fl / 128 ≠ 0 := by omega
  -- bit 7.. of fl is non-zero, so fl &&& 0xFF80 ≠ 0
  have : fl &&& 0xFF80 = (fl / 128 % 512) * 128 := by
    have e : (0xFF80 : Nat) = (2 ^ 9 - 1) <<< 7 := by decide
    have e2 : fl = (fl / 128) <<< 7 ||| (fl % 128) := by
      rw [← Nat.shiftLeft_add_eq_or_of_lt (by omega), Nat.shiftLeft_eq]; omega
    rw [e]
    conv => lhs; rw [e2]
    rw [Nat.and_comm, Nat.and_or_distrib_left, ← Nat.shiftLeft_and_distrib, Nat.and_comm _ (fl / 128),
      Nat.and_two_pow_sub_one_eq_mod]
    have : (2 ^ 9 - 1) <<< 7 &&& fl % 128 = 0 := by
      have : ∀ x, x < 128 → (2 ^ 9 - 1) <<< 7 &&& x = 0 := by decide
      exact this _ (by omega)
    rw [this, Nat.or_zero, Nat.shiftLeft_eq]
  rw [this] at h
  omega

theorem parseHeader_written (id w qd an ns ar : Nat) (rest : BStr)
    (h1 : id < 65536) (h2 : w < 65536) (h3 : qd < 65536) (h4 : an < 65536) (h5 : ns < 65536) (h6 : ar < 65536)
    (hop : Cares.Generated.opcodeValid ((w >>> 11) &&& 0xf) = true) :
    parseHeader (be16 id ++ be16 w ++ be16 qd ++ be16 an ++ be16 ns ++ be16 ar ++ rest).toArray 0 =
      .ok { id := id, flags := headerFlags w, opcode := (w >>> 11) &&& 0xf, rawRcode := w &&& 0xf,
            qdcount := qd, ancount := an, nscount := ns, arcount := ar } 12 := by
  let msg := be16 id ++ be16 w ++ be16 qd ++ be16 an ++ be16 ns ++ be16 ar ++ rest
  have f1 : fetchBe16 msg.toArray 0 = .ok id 2 := by
    have := fetchBe16_at msg [] (be16 w ++ be16 qd ++ be16 an ++ be16 ns ++ be16 ar ++ rest) id h1
      (by simp [msg, List.append_assoc])
    simpa using this
  have f2 : fetchBe16 msg.toArray 2 = .ok w 4 := by
    have := fetchBe16_at msg (be16 id) (be16 qd ++ be16 an ++ be16 ns ++ be16 ar ++ rest) w h2
      (by simp [msg, List.append_assoc])
    simpa [be16] using this
  have f3 : fetchBe16 msg.toArray 4 = .ok qd 6 := by
    have := fetchBe16_at msg (be16 id ++ be16 w) (be16 an ++ be16 ns ++ be16 ar ++ rest) qd h3
      (by simp [msg, List.append_assoc])
    simpa [be16] using this
  have f4 : fetchBe16 msg.toArray 6 = .ok an 8 := by
    have := fetchBe16_at msg (be16 id ++ be16 w ++ be16 qd) (be16 ns ++ be16 ar ++ rest) an h4
      (by simp [msg, List.append_assoc])
    simpa [be16] using this
  have f5 : fetchBe16 msg.toArray 8 = .ok ns 10 := by
    have := fetchBe16_at msg (be16 id ++ be16 w ++ be16 qd ++ be16 an) (be16 ar ++ rest) ns h5
      (by simp [msg, List.append_assoc])
    simpa [be16] using this
  have f6 : fetchBe16 msg.toArray 10 = .ok ar 12 := by
    have := fetchBe16_at msg (be16 id ++ be16 w ++ be16 qd ++ be16 an ++ be16 ns) rest ar h6
      (by simp [msg, List.append_assoc])
    simpa [be16] using this
  show parseHeader msg.toArray 0 = _
  unfold parseHeader
  rw [P.bind_ok f1, P.bind_ok f2, P.bind_ok f3, P.bind_ok f4, P.bind_ok f5, P.bind_ok f6]
  have hr0 : Cares.Generated.rcodeValid 0 = true := by decide
  simp [hop, hr0]

/-! ## question -/

theorem parseQd_written (out post : BStr) (q : Question) (p : Piece)
    (hq : recTypeValid q.qtype true = true ∧ classValid q.qclass q.qtype true = true)
    (hw : writeQuestions out.length [] [q] = .ok p) :
    parseQd (out ++ p.bytes ++ post).toArray out.length = .ok (canonQ q) (out.length + p.bytes.length) ∧
      NInv p.names (out ++ p.bytes) ∧ p.trunc = false := by
  obtain ⟨hqt, hqc⟩ := hq
  obtain ⟨hqt', hqt16⟩ := recTypeValid_query_imp q.qtype hqt
  have hqc' := classValid_imp _ _ _ hqc
  have hqc16 : q.qclass < 65536 := by
    have := classValid_lt q.qclass q.qtype true hqc (by simp only [RecType.rawRR]; omega)
    omega
  simp only [writeQuestions] at hw
  cases hn : nameWrite out.length [] true true q.name with
  | error e => simp [hn] at hw
  | ok n =>
    simp only [hn, u16t_small _ hqt16, u16t_small _ hqc16, Except.ok.injEq] at hw
    subst hw
    dsimp only
    obtain ⟨hname, hinvN, htrN⟩ := parseName_nameWrite out (be16 q.qtype ++ be16 q.qclass ++ post) [] true true
      q.name n (NInv.nil out) hn
    have m0 : out ++ (n.bytes ++ be16 q.qtype ++ be16 q.qclass ++ []) ++ post =
        out ++ n.bytes ++ (be16 q.qtype ++ be16 q.qclass ++ post) := by simp [List.append_assoc]
    have m1 : out ++ (n.bytes ++ be16 q.qtype ++ be16 q.qclass ++ []) ++ post =
        (out ++ n.bytes) ++ be16 q.qtype ++ (be16 q.qclass ++ post) := by simp [List.append_assoc]
    have m2 : out ++ (n.bytes ++ be16 q.qtype ++ be16 q.qclass ++ []) ++ post =
        (out ++ n.bytes ++ be16 q.qtype) ++ be16 q.qclass ++ post := by simp [List.append_assoc]
    rw [← m0] at hname
    have f1 := fetchBe16_at _ _ _ q.qtype hqt16 m1
    have f2 := fetchBe16_at _ _ _ q.qclass hqc16 m2
    have l1 : (out ++ n.bytes).length = out.length + n.bytes.length := by simp
    have l2 : (out ++ n.bytes ++ be16 q.qtype).length = out.length + n.bytes.length + 2 := by simp [be16]; omega
    rw [l1] at f1
    rw [l2] at f2
    refine ⟨?_, ?_, ?_⟩
    · unfold parseQd
      rw [P.bind_ok hname, P.bind_ok f1, P.bind_ok f2]
      simp only [hqt', hqc', Bool.not_true, Bool.false_eq_true, or_self, ↓reduceIte, P.pure_apply]
      congr 1
      simp [be16]; omega
    · have := hinvN.append (be16 q.qtype ++ be16 q.qclass ++ [])
      simpa [List.append_assoc] using this
    · simp [htrN]

/-! ## whole message -/

theorem hiOfRRs_eq (rcode : Nat) (rrs : List RR) :
    hiOfRRs rcode rrs = if rrs.any (·.type = RecType.opt) then optHi rcode else 0 := by
  induction rrs with
  | nil => rfl
  | cons rr rest ih =>
    simp only [hiOfRRs, ih, hiOfRR, List.any_cons, Bool.or_eq_true, decide_eq_true_eq]
    by_cases h1 : rr.type = RecType.opt <;> by_cases h2 : (rest.any fun x => decide (x.type = RecType.opt)) = true <;>
      simp [h1, h2]

theorem writeRR_length (rcode pos : Nat) (names : List NameOff) (rr : RR) (p : Piece)
    (h : writeRR rcode 0 pos names rr = .ok p) : 10 ≤ p.bytes.length := by
  unfold writeRR at h
  cases hn : nameWrite pos names true true rr.name with
  | error e => simp [hn] at h
  | ok n =>
    simp only [hn] at h
    cases hd : writeRData (pos + n.bytes.length + 10) n.names rr with
    | error e => simp [hd] at h
    | ok d =>
      simp only [hd, Except.ok.injEq] at h
      subst h
      simp only [List.length_append]
      have h8 : (rrFixed rcode 0 rr).1.length = 8 := by
        unfold rrFixed; split <;> simp [be16, be32]
      have h2 : (u16t d.bytes.length).1.length = 2 := by simp [u16t, be16]
      omega

theorem writeRRs_length (rcode : Nat) (rrs : List RR) : ∀ (pos : Nat) (names : List NameOff) (p : Piece),
    writeRRs rcode 0 pos names rrs = .ok p → 10 * rrs.length ≤ p.bytes.length := by
  induction rrs with
  | nil => intro pos names p h; simp
  | cons rr rest ih =>
    intro pos names p h
    simp only [writeRRs] at h
    cases h1 : writeRR rcode 0 pos names rr with
    | error e => simp [h1] at h
    | ok p1 =>
      simp only [h1] at h
      cases h2 : writeRRs rcode 0 (pos + p1.bytes.length) p1.names rest with
      | error e => simp [h2] at h
      | ok q =>
        simp only [h2, Except.ok.injEq] at h
        subst h
        have := writeRR_length _ _ _ _ _ h1
        have := ih _ _ _ h2
        simp only [List.length_append, List.length_cons]
        omega

theorem rcode_or (c : Nat) (hc : c < 16) (x y : Nat) (hx : x = 0 ∨ x = 16) (hy : y = 0 ∨ y = 16) :
    c ||| x ||| y ||| 16 = c + 16 := by
  have : ∀ c, c < 16 → ∀ x ∈ [0, 16], ∀ y ∈ [0, 16], c ||| x ||| y ||| 16 = c + 16 := by decide
  exact this c hc x (by rcases hx with h | h <;> simp [h]) y (by rcases hy with h | h <;> simp [h])

/-- **write then parse**: for a record in the claimed class the parser model returns the canonical form of
    the record from the bytes the writer model produced, and those bytes fit into 65535 -/
theorem parse_writeMsg (r : Rec) (bs : BStr) (tr : Bool) (hok : recOk r = true)
    (hw : writeMsg 0 r = .ok (bs, tr)) :
    bs.length ≤ 65535 ∧ parse bs.toArray 0 = .ok (canon r) ∧ tr = false := by
  simp only [recOk, Bool.and_eq_true, decide_eq_true_eq, Bool.or_eq_true, List.all_eq_true] at hok
  obtain ⟨⟨⟨⟨⟨⟨⟨⟨⟨⟨hid, hfl16⟩, hfl⟩, hop⟩, hrc⟩, hqd1⟩, hqok⟩, hext⟩, han⟩, hns⟩, har⟩ := hok
  -- unfold the writer
  simp only [writeMsg] at hw
  cases hs : writeSections 0 r with
  | error e => simp [hs] at hw
  | ok mt =>
    obtain ⟨msg, t⟩ := mt
    simp only [hs] at hw
    by_cases hbig : msg.length > 65535
    · simp [hbig] at hw
    simp only [hbig, ↓reduceIte, Except.ok.injEq, Prod.mk.injEq] at hw
    obtain ⟨hw1, hw2⟩ := hw
    subst hw1; subst hw2
    refine ⟨by omega, ?_⟩
    obtain ⟨q0, hq0⟩ : ∃ q, r.qd = [q] := by
      match r.qd, hqd1 with
      | [q], _ => exact ⟨q, rfl⟩
    unfold writeSections at hs
    simp only [hq0] at hs
    cases hq : writeQuestions (writeHeader r).1.length [] [q0] with
    | error e => simp [hq] at hs
    | ok qp =>
      simp only [hq] at hs
      cases ha : writeRRs r.rcode 0 ((writeHeader r).1.length + qp.bytes.length) qp.names r.an with
      | error e => simp [ha] at hs
      | ok ap =>
        simp only [ha] at hs
        cases hn : writeRRs r.rcode 0 ((writeHeader r).1.length + qp.bytes.length + ap.bytes.length) ap.names r.ns with
        | error e => simp [hn] at hs
        | ok np =>
          simp only [hn] at hs
          cases hx : writeRRs r.rcode 0 ((writeHeader r).1.length + qp.bytes.length + ap.bytes.length + np.bytes.length)
              np.names r.ar with
          | error e => simp [hx] at hs
          | ok xp =>
            simp only [hx, Except.ok.injEq, Prod.mk.injEq] at hs
            obtain ⟨hmsg, htr⟩ := hs
            -- sizes
            have hla := writeRRs_length _ _ _ _ _ ha
            have hln := writeRRs_length _ _ _ _ _ hn
            have hlx := writeRRs_length _ _ _ _ _ hx
            have hmlen : msg.length = (writeHeader r).1.length + qp.bytes.length + ap.bytes.length + np.bytes.length +
                xp.bytes.length := by rw [← hmsg]; simp only [List.length_append]
            have hcnt : r.an.length < 65536 ∧ r.ns.length < 65536 ∧ r.ar.length < 65536 := by omega
            -- header bytes
            have hfl128 := flagsValid_lt r.flags hfl hfl16
            have hopm : r.opcode ∈ [0, 1, 2, 4, 5] := by
              simp only [opcodeValid, Bool.or_eq_true, decide_eq_true_eq] at hop
              simp only [List.mem_cons, List.not_mem_nil, or_false]
              omega
            have hrc4 : (if (decide (r.rcode > 15) && !hasOpt r) = true then 2 else r.rcode % 16) = r.rcode % 16 := by
              rcases hext with h | h
              · have : ¬ r.rcode > 15 := by omega
                simp [this]
              · simp [h]
            have hfw : flagWord r = flagWordOf r.flags r.opcode (r.rcode % 16) := by
              unfold flagWord flagWordOf Rec.hasFlag
              rw [hrc4]
            obtain ⟨w1, w2, w3, w4⟩ := flagWord_fields r.flags hfl128 r.opcode hopm (r.rcode % 16) (by omega)
            rw [← hfw] at w1 w2 w3 w4
            have hH : (writeHeader r).1 = be16 r.id ++ be16 (flagWord r) ++ be16 1 ++ be16 r.an.length ++
                be16 r.ns.length ++ be16 r.ar.length := by
              unfold writeHeader
              simp only [hq0, List.length_singleton, u16t_small _ hcnt.1, u16t_small _ hcnt.2.1,
                u16t_small _ hcnt.2.2, u16t_small 1 (by decide), Nat.mod_eq_of_lt hid]
            have hH12 : (writeHeader r).1.length = 12 := by rw [hH]; simp [be16]
            have hhdr := parseHeader_written r.id (flagWord r) 1 r.an.length r.ns.length r.ar.length
              (qp.bytes ++ ap.bytes ++ np.bytes ++ xp.bytes) hid w4 (by decide) hcnt.1 hcnt.2.1 hcnt.2.2
              (by rw [w2, ← opcodeValid_eq]; exact hop)
            have hmsgH : be16 r.id ++ be16 (flagWord r) ++ be16 1 ++ be16 r.an.length ++ be16 r.ns.length ++
                be16 r.ar.length ++ (qp.bytes ++ ap.bytes ++ np.bytes ++ xp.bytes) = msg := by
              rw [← hmsg, hH]; simp [List.append_assoc]
            rw [hmsgH] at hhdr
            -- question
            have hq0ok := hqok q0 (by rw [hq0]; simp)
            obtain ⟨q1, q2, q3⟩ := parseQd_written (writeHeader r).1 (ap.bytes ++ np.bytes ++ xp.bytes) q0 qp hq0ok hq
            have hmsgQ : (writeHeader r).1 ++ qp.bytes ++ (ap.bytes ++ np.bytes ++ xp.bytes) = msg := by
              rw [← hmsg]; simp [List.append_assoc]
            rw [hmsgQ, hH12] at q1
            -- answer section
            have lQ : ((writeHeader r).1 ++ qp.bytes).length = (writeHeader r).1.length + qp.bytes.length := by simp
            obtain ⟨a1, a2, a3⟩ := parseRRs_writeRRs r.rcode hrc .answer r.an ((writeHeader r).1 ++ qp.bytes)
              (np.bytes ++ xp.bytes) qp.names ap (fun rr h => han rr h) (by rw [lQ]; exact ha) q2
              (by rw [show (writeHeader r).1 ++ qp.bytes ++ ap.bytes ++ (np.bytes ++ xp.bytes) = msg by
                    rw [← hmsg]; simp [List.append_assoc]]; omega)
            have hmsgA : (writeHeader r).1 ++ qp.bytes ++ ap.bytes ++ (np.bytes ++ xp.bytes) = msg := by
              rw [← hmsg]; simp [List.append_assoc]
            rw [hmsgA, lQ, hH12] at a1
            -- authority section
            have lA : ((writeHeader r).1 ++ qp.bytes ++ ap.bytes).length =
                (writeHeader r).1.length + qp.bytes.length + ap.bytes.length := by simp [Nat.add_assoc]
            obtain ⟨n1, n2, n3⟩ := parseRRs_writeRRs r.rcode hrc .authority r.ns ((writeHeader r).1 ++ qp.bytes ++ ap.bytes)
              xp.bytes ap.names np (fun rr h => hns rr h) (by rw [lA]; exact hn) a2
              (by rw [show (writeHeader r).1 ++ qp.bytes ++ ap.bytes ++ np.bytes ++ xp.bytes = msg from hmsg]; omega)
            rw [hmsg, lA, hH12] at n1
            -- additional section
            have lN : ((writeHeader r).1 ++ qp.bytes ++ ap.bytes ++ np.bytes).length =
                (writeHeader r).1.length + qp.bytes.length + ap.bytes.length + np.bytes.length := by
              simp [Nat.add_assoc]
            obtain ⟨x1, x2, x3⟩ := parseRRs_writeRRs r.rcode hrc .additional r.ar
              ((writeHeader r).1 ++ qp.bytes ++ ap.bytes ++ np.bytes) [] np.names xp (fun rr h => har rr h)
              (by rw [lN]; exact hx) n2 (by simp only [List.append_nil]; rw [hmsg]; omega)
            simp only [List.append_nil] at x1
            rw [hmsg, lN, hH12] at x1
            -- put the message parser together
            have hsz : msg.toArray.size = msg.length := List.size_toArray
            unfold parse
            have hne : msg.toArray.size ≠ 0 := by rw [hsz, hmlen, hH12]; omega
            rw [if_neg hne, if_neg (by rw [hsz]; omega)]
            have hpm : parseMsg msg.toArray 0 0 = .ok (canon r) (12 + qp.bytes.length + ap.bytes.length + np.bytes.length + xp.bytes.length) := by
              unfold parseMsg
              rw [P.bind_ok hhdr]
              simp only [show ¬ ((1 : Nat) = 0) by decide, show ¬ ((1 : Nat) > 1) by decide, ↓reduceIte]
              rw [P.bind_ok q1, P.bind_ok a1]
              simp only
              rw [P.bind_ok n1]
              simp only
              rw [P.bind_ok x1]
              simp only [P.pure_apply]
              congr 1
              -- the record
              have hraw : (flagWord r &&& 0xf) ||| hiOfRRs r.rcode r.an ||| hiOfRRs r.rcode r.ns ||| hiOfRRs r.rcode r.ar
                  = r.rcode := by
                rw [w3, hiOfRRs_eq, hiOfRRs_eq, hiOfRRs_eq]
                have hsmall := rcodeValid_small r.rcode hrc
                rcases hext with h | h
                · have h0 : optHi r.rcode = 0 := by unfold optHi; omega
                  simp only [h0, ite_self, Nat.or_zero]
                  omega
                · have hx3 : (r.ar.any fun x => decide (x.type = RecType.opt)) = true := by
                    simpa [hasOpt] using h
                  simp only [hx3, ↓reduceIte]
                  by_cases hle : r.rcode ≤ 15
                  · have h0 : optHi r.rcode = 0 := by unfold optHi; omega
                    simp only [h0, ite_self, Nat.or_zero]
                    omega
                  · have h16 : optHi r.rcode = 16 := by unfold optHi; omega
                    rw [h16]
                    have := rcode_or (r.rcode % 16) (by omega)
                      (if (r.an.any fun x => decide (x.type = RecType.opt)) = true then 16 else 0)
                      (if (r.ns.any fun x => decide (x.type = RecType.opt)) = true then 16 else 0)
                      (by split <;> simp) (by split <;> simp)
                    rw [this]; omega
              rw [hraw, w1, w2]
              have hrcv : Cares.Generated.rcodeValid r.rcode = true := by rw [← rcodeValid_eq]; exact hrc
              simp only [hrcv, ↓reduceIte, canon, hq0, List.map_cons, List.map_nil]
            rw [hpm]
            refine ⟨rfl, ?_⟩
            rw [← htr, q3, a3, n3, x3]
            unfold writeHeader
            simp only [hq0, List.length_singleton, u16t_small _ hcnt.1, u16t_small _ hcnt.2.1,
              u16t_small _ hcnt.2.2, u16t_small 1 (by decide), Bool.or_self]

/-- `ares_dns_write` then `ares_dns_parse` -/
theorem parse_write (r : Rec) (bs : BStr) (hok : recOk r = true) (hw : write r = .ok bs) :
    bs.length ≤ 65535 ∧ parse bs.toArray 0 = .ok (canon r) := by
  simp only [write, Except.map] at hw
  cases h : writeMsg 0 r with
  | error e => simp [h] at hw
  | ok mt =>
    obtain ⟨msg, t⟩ := mt
    simp only [h, Except.ok.injEq] at hw
    subst hw
    obtain ⟨h1, h2, _⟩ := parse_writeMsg r msg t hok h
    exact ⟨h1, h2⟩

end Cares.Dns.Write
