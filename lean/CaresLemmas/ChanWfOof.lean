import CaresModel.Chan.Core
/-!
# C01 — the out-of-fuel flag is only ever set (by `St.oof`): every helper of `Chan.Core` leaves it alone
-/
namespace Cares.Chan

@[simp] theorem oof_emit (s : St) (e : String) : (s.emit e).outOfFuel = s.outOfFuel := rfl
@[simp] theorem oof_slog (s : St) (fd : Nat) (c : String) : (s.slog fd c).outOfFuel = s.outOfFuel := rfl
@[simp] theorem oof_ofault (s : St) (e : String) : (s.ofault e).outOfFuel = s.outOfFuel := rfl
@[simp] theorem oof_mfault (s : St) (e : String) : (s.mfault e).outOfFuel = s.outOfFuel := rfl
@[simp] theorem oof_oof (s : St) : s.oof.1.outOfFuel = true := rfl
@[simp] theorem oof_modQuery (s : St) (k : Nat) (f) : (s.modQuery k f).outOfFuel = s.outOfFuel := rfl
@[simp] theorem oof_modConn (s : St) (k : Nat) (f) : (s.modConn k f).outOfFuel = s.outOfFuel := rfl
@[simp] theorem oof_modServer (s : St) (k : Nat) (f) : (s.modServer k f).outOfFuel = s.outOfFuel := rfl
@[simp] theorem oof_modSock (s : St) (k : Nat) (f) : (s.modSock k f).outOfFuel = s.outOfFuel := rfl
@[simp] theorem oof_modClient (s : St) (k : Nat) (f) : (s.modClient k f).outOfFuel = s.outOfFuel := rfl
@[simp] theorem oof_setSock (s : St) (v) : (s.setSock v).outOfFuel = s.outOfFuel := rfl
@[simp] theorem oof_setServer (s : St) (v) : (s.setServer v).outOfFuel = s.outOfFuel := rfl
@[simp] theorem oof_fault (s : St) (c : String) : (s.fault c).2.outOfFuel = s.outOfFuel := rfl
@[simp] theorem oof_draw1 (s : St) : s.draw1.2.outOfFuel = s.outOfFuel := by unfold St.draw1; split <;> rfl
@[simp] theorem oof_draw2 (s : St) : s.draw2.2.outOfFuel = s.outOfFuel := by unfold St.draw2; split <;> rfl
@[simp] theorem oof_pop8 (s : St) : s.pop8.outOfFuel = s.outOfFuel := by unfold St.pop8; split <;> rfl
@[simp] theorem oof_cacheExpire (s : St) : s.cacheExpire.outOfFuel = s.outOfFuel := rfl
@[simp] theorem oof_cacheInsert (s : St) (q : Query) (r : Reply) : (s.cacheInsert q r).outOfFuel = s.outOfFuel := by
  unfold St.cacheInsert
  simp only
  repeat' split
  all_goals rfl
@[simp] theorem oof_incFailures (s : St) (id : Nat) (tcp : Bool) : (s.incFailures id tcp).outOfFuel = s.outOfFuel := by
  unfold St.incFailures; split <;> rfl
@[simp] theorem oof_setGood (s : St) (id : Nat) (tcp : Bool) : (s.setGood id tcp).outOfFuel = s.outOfFuel := by
  unfold St.setGood; split <;> rfl
@[simp] theorem oof_metricsRecord (s : St) (q : Query) (srv : Option Nat) (st : Status) (rec : Option Reply) :
    (s.metricsRecord q srv st rec).outOfFuel = s.outOfFuel := by
  unfold St.metricsRecord
  split
  · split <;> rfl
  · rfl
@[simp] theorem oof_notify (s : St) (fd : Nat) (r w : Bool) : (s.notify fd r w).outOfFuel = s.outOfFuel := by
  unfold St.notify
  split
  · rfl
  · simp only; split <;> rfl
@[simp] theorem oof_removeFromConn (s : St) (k : Nat) : (s.removeFromConn k).outOfFuel = s.outOfFuel := by
  unfold St.removeFromConn
  split
  · rfl
  · simp only; split <;> rfl
@[simp] theorem oof_detach (s : St) (k : Nat) : (s.detach k).outOfFuel = s.outOfFuel := by
  unfold St.detach
  split
  · rfl
  · exact oof_removeFromConn s k
@[simp] theorem oof_freeQuery (s : St) (k : Nat) : (s.freeQuery k).outOfFuel = s.outOfFuel := by
  unfold St.freeQuery; exact oof_detach s k
@[simp] theorem oof_recordTx (s : St) (fd : Nat) (tcp : Bool) (f : OutFrame) :
    (s.recordTx fd tcp f).outOfFuel = s.outOfFuel := rfl
@[simp] theorem oof_genQid (n : Nat) (s : St) : (genQid n s).2.outOfFuel = s.outOfFuel := by
  induction n generalizing s with
  | zero => rfl
  | succ n ih =>
    unfold genQid
    split
    · rfl
    · simp only
      split
      · rw [ih]; exact oof_draw2 s
      · exact oof_draw2 s
@[simp] theorem oof_advanceOut (n fd : Nat) (s : St) (m : Nat) : (advanceOut n fd s m).outOfFuel = s.outOfFuel := by
  induction n generalizing s m with
  | zero => rfl
  | succ n ih =>
    unfold advanceOut
    split
    · rfl
    · split
      · rfl
      · simp only
        split
        · split
          · rfl
          · rw [ih]; rfl
        · rfl
@[simp] theorem oof_userCallback (s : St) (tok : Nat) (st : Status) (t : Nat) (dg : String) :
    (s.userCallback tok st t dg).outOfFuel = s.outOfFuel := by
  unfold St.userCallback
  simp only [oof_emit]
  split <;> split <;> rfl

/-- the recursive calls never clear the flag -/
def OofMono (go : Call → St → St × Ret) : Prop := ∀ c s, s.outOfFuel = true → (go c s).1.outOfFuel = true

end Cares.Chan
