import CaresModel.Dsa.HTable
/-! Helper lemmas for the hash functions of ares_htable.c. -/
namespace Cares.Dsa
open Cares.Generated

theorem fnvShiftAdd_eq_mul (hv : Nat) : fnvShiftAdd hv = (hv * 16777619) % 2 ^ 32 := by
  unfold fnvShiftAdd u32
  simp only [Nat.shiftLeft_eq, Nat.reducePow]
  omega

theorem fnv1aCase_foldl_congr (a b : List Nat) (hv : Nat)
    (ha : ∀ c ∈ a, tolower c ≠ 0) (hb : ∀ c ∈ b, tolower c ≠ 0) (h : strCaseEq a b = true) :
    a.foldl (fun hv c => fnvStep hv (tolower c)) hv = b.foldl (fun hv c => fnvStep hv (tolower c)) hv := by
  induction a generalizing b hv with
  | nil =>
    cases b with
    | nil => rfl
    | cons y ys =>
      simp only [strCaseEq, beq_iff_eq] at h
      exact absurd h.symm (hb y List.mem_cons_self)
  | cons x xs ih =>
    cases b with
    | nil =>
      simp only [strCaseEq, beq_iff_eq] at h
      exact absurd h (ha x List.mem_cons_self)
    | cons y ys =>
      simp only [strCaseEq, Bool.and_eq_true, beq_iff_eq] at h
      simp only [List.foldl_cons, h.1]
      exact ih ys _ (fun c hc => ha c (List.mem_cons_of_mem _ hc)) (fun c hc => hb c (List.mem_cons_of_mem _ hc)) h.2

end Cares.Dsa
