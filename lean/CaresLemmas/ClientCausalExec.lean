import CaresLemmas.ClientCausalB7
/-!
# Causality — the induction on fuel

`goCz_execC : ∀ n, GoCz cid (execC n)`: every procedure other than `ares_destroy`, run by the instrumented executor
from a state satisfying its C01 precondition, either runs out of fuel or satisfies C01's guarantee *and* keeps the
log invariant `LG` (hence the log stays causal for every compound request).
-/
namespace Cares.Chan

variable {cid : Nat}

theorem fst_execCBody (goC : GoC) : GoC.fst (execCBody goC) = execBody goC.fst :=
  funext fun c => funext fun s => execCBody_fst goC c s

/-- one procedure: the log invariant, from the body lemmas -/
theorem lgo_execCBody {goC : GoC} (h : GoCz cid goC) {d c s L} (hpre : Pre d s c) (hL : LG cid L (xtra cid c) s) :
    LGO cid L (execCBody goC c s) := by
  cases c <;> simp only [execCBody]
  case sendNolock => exact cz_sendNolock h hpre hL
  case sendQuery => exact cz_sendQuery h hpre hL
  case requeue => exact cz_requeue h hpre hL
  case endQuery => exact cz_endQuery h hpre hL
  case callback => exact cz_callback h hpre hL
  case reactions => exact cz_reactions h hpre hL
  case closeConn => exact cz_closeConn h hpre hL
  case closeLoop => exact cz_closeLoop h hpre hL
  case connError => exact cz_connError h hpre hL
  case flush => exact cz_flush h hpre hL
  case processWrite => exact cz_processWrite h hpre hL
  case processRead => exact cz_processRead h hpre hL
  case readAnswers => exact cz_readAnswers h hpre hL
  case processAnswer => exact cz_processAnswer h hpre hL
  case flushRequeue => exact cz_flushRequeue h hpre hL
  case processTimeouts => exact cz_processTimeouts h hpre hL
  case cleanupConns => exact cz_cleanupConns h hpre hL
  case cancel => exact cz_cancel h hpre hL
  case cancelLoop => exact cz_cancelLoop h hpre hL
  case destroy => exact absurd hpre (fun h => h)
  case probe => exact cz_probe h hpre hL
  case clientStart => exact cz_clientStart h hpre hL
  case runActs => exact cz_runActs h hpre hL
  case userCb => exact cz_userCb h hpre hL

theorem goCz_execCBody {goC : GoC} (h : GoCz cid goC) : GoCz cid (execCBody goC) := by
  have hgo : GoOk (execBody goC.fst) := goOk_execBody h.goOk
  refine ⟨by rw [fst_execCBody]; exact hgo.1, fun d c s hpre => ?_⟩
  have hg : GoodO d c s (execCBody goC c s).1 := by rw [execCBody_fst]; exact hgo.2 d c s hpre
  by_cases ho : (execCBody goC c s).1.1.outOfFuel = true
  · exact Or.inl ho
  · refine Or.inr ⟨hg.resolve_left ho, fun L hL => ?_⟩
    exact (lgo_execCBody h hpre hL).resolve_left ho

/-- **the main induction** -/
theorem goCz_execC : ∀ n, GoCz cid (execC n)
  | 0 => ⟨fun _ _ _ => rfl, fun _ _ _ _ => Or.inl rfl⟩
  | n + 1 => by
    have h := goCz_execCBody (cid := cid) (goCz_execC n)
    exact ⟨fun c s ho => h.1 c s ho, fun d c s hp => h.2 d c s hp⟩

/-- a completed call from a state satisfying its precondition extends the log invariant -/
theorem execC_lg (fuel : Nat) {d : Nat → Nat} {c : Call} {s : St} {L : CLog} (hpre : Pre d s c)
    (hL : LG cid L (xtra cid c) s) (hf : (exec fuel c s).1.outOfFuel = false) :
    LG cid (L ++ (execC fuel c s).2) 0 (exec fuel c s).1 := by
  rcases (goCz_execC (cid := cid) fuel).call hpre hL with hoof | ⟨_, hg⟩
  · rw [execC_fst, hf] at hoof; cases hoof
  · rw [execC_fst] at hg; exact hg

end Cares.Chan
