import CaresLemmas.ChanWfBody1
/-!
# C01 — creating a query (`ares_send_nolock`)
-/
namespace Cares.Chan

/-- a fresh query, linked into `all_queries` and the qid table, not yet on a connection -/
def Sk.addQuery (a : Sk) (qid : Nat) (owner : Owner) : Sk :=
  { a with nextKey := a.nextKey + 1, qs := a.qs ++ [⟨a.nextKey, qid, owner, none⟩],
           all := a.all ++ [a.nextKey], byQid := a.byQid ++ [(qid, a.nextKey)] }

section
variable {a : Sk} {qid : Nat} {owner : Owner}

theorem addQuery_qK : (a.addQuery qid owner).qK = a.qK ++ [a.nextKey] := by simp [Sk.addQuery, Sk.qK]
theorem addQuery_qKQ : (a.addQuery qid owner).qKQ = a.qKQ ++ [(a.nextKey, qid)] := by simp [Sk.addQuery, Sk.qKQ]
theorem addQuery_qKC : (a.addQuery qid owner).qKC = a.qKC ++ [(a.nextKey, none)] := by simp [Sk.addQuery, Sk.qKC]
theorem addQuery_qKO : (a.addQuery qid owner).qKO = a.qKO ++ [(a.nextKey, owner)] := by simp [Sk.addQuery, Sk.qKO]
theorem addQuery_idx : (a.addQuery qid owner).idx = a.idx ++ [a.nextKey] := by simp [Sk.addQuery, Sk.idx]

theorem idx_lt (h : WfS a none) {x : Nat} (hx : x ∈ a.idx) : x < a.nextKey := key_lt_of_idx h hx

theorem qKO_lt (h : WfS a none) {p : Nat × Owner} (hp : p ∈ a.qKO) : p.1 < a.nextKey := by
  obtain ⟨e, he, rfl⟩ := List.mem_map.mp hp
  exact h.q.lt e.key (List.mem_map.mpr ⟨e, he, rfl⟩)

theorem wf_addQuery (h : WfS a none) (hof : a.OwnerFree owner) : WfS (a.addQuery qid owner) none := by
  have hfresh : a.nextKey ∉ a.idx := fun hm => by have := idx_lt h hm; omega
  refine ⟨?_, ?_, ?_, ?_, h.s, h.k, ?_⟩
  · rw [addQuery_qK]
    refine ⟨?_, ?_⟩
    · rw [List.nodup_append]
      refine ⟨h.q.nodup, by simp, fun x hx y hy => ?_⟩
      rw [List.mem_singleton.mp hy]
      have := h.q.lt x hx; omega
    · intro k hk
      show k < a.nextKey + 1
      rcases List.mem_append.mp hk with hk | hk
      · have := h.q.lt k hk; omega
      · rw [List.mem_singleton.mp hk]; omega
  · rw [addQuery_qKQ]
    show WfIP _ (a.byQid ++ [(qid, a.nextKey)]) (a.all ++ [a.nextKey]) a.listCopy
    have hi := h.i
    refine ⟨?_, ?_, ?_, ?_, ?_, ?_⟩
    · intro p hp
      rcases List.mem_append.mp hp with hp | hp
      · exact List.mem_append.mpr (Or.inl (hi.qidLive p hp))
      · rw [List.mem_singleton.mp hp]; exact List.mem_append.mpr (Or.inr (List.mem_singleton.mpr rfl))
    · rw [List.nodup_append]
      refine ⟨hi.allNodup, by simp, fun x hx y hy => ?_⟩
      rw [List.mem_singleton.mp hy]
      exact fun he => hfresh (he ▸ hi.allIdx x hx)
    · intro k hk
      rw [List.map_append]
      rcases List.mem_append.mp hk with hk | hk
      · exact List.mem_append.mpr (Or.inl (hi.allIdx k hk))
      · rw [List.mem_singleton.mp hk]; exact List.mem_append.mpr (Or.inr (by simp))
    · intro l hl
      obtain ⟨h1, h2⟩ := hi.lcOk l hl
      exact ⟨h1, fun k hk => by rw [List.map_append]; exact List.mem_append.mpr (Or.inl (h2 k hk))⟩
    · -- the fresh key is in none of the lists
      have hnf : a.nextKey ∉ a.listCopy.flatten := by
        intro hm
        obtain ⟨l, hl, hkl⟩ := List.mem_flatten.mp hm
        exact hfresh ((hi.lcOk l hl).2 _ hkl)
      have hna : a.nextKey ∉ a.all := fun hm => hfresh (hi.allIdx _ hm)
      have hd := hi.disj
      rw [List.nodup_append] at hd ⊢
      obtain ⟨d1, d2, d3⟩ := hd
      refine ⟨?_, d2, ?_⟩
      · rw [List.nodup_append]
        exact ⟨d1, by simp, fun x hx y hy => by rw [List.mem_singleton.mp hy]; exact fun he => hna (he ▸ hx)⟩
      · intro x hx y hy
        rcases List.mem_append.mp hx with hx | hx
        · exact d3 x hx y hy
        · rw [List.mem_singleton.mp hx]; exact fun he => hnf (he ▸ hy)
    · intro k hk
      rw [List.map_append] at hk
      rcases List.mem_append.mp hk with hk | hk
      · rcases hi.nl k hk with h' | h'
        · exact Or.inl (List.mem_append.mpr (Or.inl h'))
        · exact Or.inr h'
      · simp only [List.map_cons, List.map_nil, List.mem_singleton] at hk
        exact Or.inl (List.mem_append.mpr (Or.inr (List.mem_singleton.mpr hk)))
  · rw [addQuery_qKC, addQuery_idx]
    have ht := h.t
    refine ⟨ht.btNodup, fun k hk => ?_, ht.poNodup, fun k hk => ?_⟩
    · obtain ⟨h1, fd, h2⟩ := ht.btOk k hk
      exact ⟨List.mem_append.mpr (Or.inl h1), fd, List.mem_append.mpr (Or.inl h2)⟩
    · obtain ⟨h1, ⟨fd, h2⟩, h3⟩ := ht.poOk k hk
      exact ⟨List.mem_append.mpr (Or.inl h1), ⟨fd, List.mem_append.mpr (Or.inl h2)⟩, h3⟩
  · rw [addQuery_qKC, addQuery_idx]
    have hc := h.c
    refine ⟨hc.nodup, hc.lt, hc.sock, hc.qNodup, fun c hcm k hk => ?_, fun p hp fd hfd => ?_⟩
    · obtain ⟨h1, h2⟩ := hc.cq c hcm k hk
      exact ⟨List.mem_append.mpr (Or.inl h1), List.mem_append.mpr (Or.inl h2)⟩
    · rcases List.mem_append.mp hp with hp | hp
      · exact hc.qc p hp fd hfd
      · rw [List.mem_singleton.mp hp] at hfd; cases hfd
  · rw [addQuery_qKO, addQuery_idx]
    have ht := h.tok
    -- an old entry is linked after iff it was linked before
    have old : ∀ p ∈ a.qKO, p.1 ∈ a.idx ++ [a.nextKey] → p.1 ∈ a.idx := by
      intro p hp hpi
      rcases List.mem_append.mp hpi with hpi | hpi
      · exact hpi
      · have := qKO_lt h hp; rw [List.mem_singleton.mp hpi] at this; omega
    refine ⟨ht.pN, ht.dN, ht.disj, ht.pB, ht.dB, ?_, ?_, ht.tK, ht.tKU⟩
    · intro p hp hpi tok ho
      rcases List.mem_append.mp hp with hp | hp
      · obtain ⟨a1, a2, a3⟩ := ht.tQ p hp (old p hp hpi) tok ho
        refine ⟨a1, fun p' hp' hpi' ho' => ?_, a3⟩
        rcases List.mem_append.mp hp' with hp' | hp'
        · exact a2 p' hp' (old p' hp' hpi') ho'
        · exfalso
          rw [List.mem_singleton.mp hp'] at ho'
          simp only at ho'
          rw [ho'] at hof
          exact hof.2.1 p hp (old p hp hpi) ho
      · rw [List.mem_singleton.mp hp] at ho ⊢
        simp only at ho
        rw [ho] at hof
        refine ⟨hof.1, fun p' hp' hpi' ho' => ?_, hof.2.2⟩
        rcases List.mem_append.mp hp' with hp' | hp'
        · exact absurd ho' (hof.2.1 p' hp' (old p' hp' hpi'))
        · rw [List.mem_singleton.mp hp']
    · intro p hp hpi id ho
      rcases List.mem_append.mp hp with hp | hp
      · exact ht.tC p hp (old p hp hpi) id ho
      · rw [List.mem_singleton.mp hp] at ho
        simp only at ho
        rw [ho] at hof
        exact hof

theorem subs_addQuery (h : WfS a none) (id : Nat) :
    (a.addQuery qid owner).subs id = a.subs id + (if owner = .client id then 1 else 0) := by
  unfold Sk.subs subsP
  rw [addQuery_qKO, addQuery_idx, List.countP_append]
  congr 1
  · apply List.countP_congr
    intro p hp
    have hlt := qKO_lt h hp
    have : (p.1 ∈ a.idx ++ [a.nextKey]) = (p.1 ∈ a.idx) := by
      apply propext
      rw [List.mem_append, List.mem_singleton]
      constructor
      · rintro (h1 | h1)
        · exact h1
        · omega
      · exact Or.inl
    simp only [this]
  · simp [List.countP_cons]

theorem debt_addQuery {d} (h : WfS a none) (hof : a.OwnerFree owner) (hd : a.DebtFor d owner) :
    DebtOk none d (a.addQuery qid owner) := by
  cases owner with
  | probe =>
    refine ⟨hd.fresh, fun c hc hp hx => ?_⟩
    rw [subs_addQuery h]; simpa using hd.cnt c hc hp hx
  | user tok =>
    refine ⟨hd.fresh, fun c hc hp hx => ?_⟩
    rw [subs_addQuery h]; simpa using hd.cnt c hc hp hx
  | client id =>
    obtain ⟨c0, hc0, hid0, _⟩ := hof
    have hlt := h.k.lt c0 hc0
    have hd' : DebtOk none (bump d id 1) a := hd
    refine ⟨fun i hi => ?_, fun c hc hp hx => ?_⟩
    · have := hd'.fresh i hi
      rwa [bump_ne _ _ (by show i ≠ id; change a.nextClient ≤ i at hi; omega)] at this
    · rw [subs_addQuery h]
      have := hd'.cnt c hc hp hx
      by_cases hci : c.id = id
      · rw [hci, bump_self] at this; rw [hci]; simp; omega
      · rw [bump_ne _ _ hci] at this
        have : Owner.client id ≠ Owner.client c.id := fun hh => hci (by injection hh with hh; exact hh.symm)
        simp [this]; omega

theorem step_addQuery {d} (h : WfS a none) : StepS none (ownerId owner) d a (a.addQuery qid owner) where
  faults := rfl
  kMono := Nat.le_refl _
  keyMono := Nat.le_succ _
  idxNew := fun x hx => by
    rw [addQuery_idx] at hx
    rcases List.mem_append.mp hx with hx | hx
    · exact Or.inl hx
    · rw [List.mem_singleton.mp hx]; exact Or.inr (Nat.le_refl _)
  unl := fun _ q hm _ => ⟨q, hm, fun _ hx => hx⟩
  orphan := fun id _ hx hn => by
    unfold Sk.NoSub
    rw [addQuery_qKO, addQuery_idx]
    intro p hp hpi ho
    rcases List.mem_append.mp hp with hp | hp
    · rcases List.mem_append.mp hpi with hpi | hpi
      · exact hn p hp hpi ho
      · have := qKO_lt h hp
        rw [List.mem_singleton.mp hpi] at this; omega
    · rw [List.mem_singleton.mp hp] at ho
      simp only at ho
      rw [ho] at hx
      exact hx rfl
  debtAlive := fun _ ha _ => ha
  prog := {
    doneMono := fun _ h => h
    lcRel := forall2_sub_refl _
    allNew := fun k hk => by
      rcases List.mem_append.mp hk with hk | hk
      · exact Or.inl hk
      · rw [List.mem_singleton.mp hk]; exact Or.inr (Nat.le_refl _)
    keysLt := fun hl p hp => by
      rw [addQuery_qKO] at hp
      show p.1 < a.nextKey + 1
      rcases List.mem_append.mp hp with hp | hp
      · have := hl p hp; omega
      · rw [List.mem_singleton.mp hp]; exact Nat.lt_succ_self _
    ownKeep := fun _ p hp _ => by rw [addQuery_qKO]; exact List.mem_append.mpr (Or.inl hp)
    done6 := fun _ p _ hpi hn => absurd (by rw [addQuery_idx]; exact List.mem_append.mpr (Or.inl hpi)) hn }

theorem idx_addQuery : (a.addQuery qid owner).Idx a.nextKey := by
  unfold Sk.Idx; rw [addQuery_idx]; exact List.mem_append.mpr (Or.inr (List.mem_singleton.mpr rfl))

end

end Cares.Chan
