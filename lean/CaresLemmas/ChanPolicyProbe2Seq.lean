import CaresLemmas.ChanPolicyFrame
/-!
# C09 — without configured reactions no callback starts a request: `reactSeq` never moves (every procedure, every fuel)
-/
namespace Cares.Chan
set_option linter.unusedVariables false

/-- no reaction is configured, and `c` requests have been started by reactions so far -/
def NoReact (c : Nat) (s : St) : Prop := s.reactions = [] ∧ s.reactSeq = c

theorem NoReact.congr {c : Nat} {s s' : St} (h0 : s'.reactions = s.reactions) (h1 : s'.reactSeq = s.reactSeq)
    (h : NoReact c s) : NoReact c s' := by
  unfold NoReact at *; rw [h0, h1]; exact h

section
variable {c : Nat}
chan_simple_lemmas NoReact : (NoReact c) =>
  emit slog ofault mfault oofSt setQuery setConn setServer setSock modQuery modConn modServer modSock modClient
  cacheExpire
end

macro "nr_congr" : tactic => `(tactic| (
  refine NoReact.congr (s := ?s0) ?h0 ?h1 ?hI
  case h0 => (dsimp only; exact rfl)
  case h1 => exact rfl))

macro "nr_spec" : tactic => `(tactic| with_reducible (first
  | apply NoReact.emit | apply NoReact.slog | apply NoReact.ofault | apply NoReact.mfault | apply NoReact.oof
  | apply NoReact.setQuery | apply NoReact.setConn | apply NoReact.setServer | apply NoReact.setSock
  | apply NoReact.modQuery | apply NoReact.modConn | apply NoReact.modServer | apply NoReact.modSock
  | apply NoReact.modClient | apply NoReact.cacheExpire))

macro "nr_step " hgo:term : tactic => `(tactic| chan_step $hgo, nr_spec, nr_congr)

section
variable {c : Nat}

theorem bodyReactions_nr {go : Call → St → St × Ret} (hgo : GoInv (NoReact c) go) (a1 : List Nat) (s : St)
    (h : NoReact c s) : NoReact c (bodyReactions go a1 s).1 := by
  unfold bodyReactions
  split
  · exact h
  · split
    · exact h
    · have hr : ∀ i, s.reactions.find? (·.1 == i) = none := by
        intro i; rw [h.1]; rfl
      rw [hr]
      exact hgo _ _ h

chan_invariant nr : (NoReact c) oofBy (fun _ h => h)
  leafBy (repeat' (first
                  | nr_step hgo
                  | with_reducible apply sqChoose_nr hgo
                  | with_reducible apply sqOpen_nr hgo
                  | with_reducible apply sqPrep_nr hgo
                  | with_reducible apply sqWrite_nr hgo
                  | with_reducible apply sqDeadline_nr hgo
                  | with_reducible apply sqCommit_nr hgo
                  | with_reducible apply sqAfter_nr hgo
                  | (with_reducible apply foldl_inv; intro _ _ _)))
  exceptBodies bodyReactions

end

/-- without configured reactions, a run starts no request from a callback reaction -/
theorem exec_reactSeq (fuel : Nat) (c : Call) (s : St) (h : s.reactions = []) :
    (exec fuel c s).1.reactions = [] ∧ (exec fuel c s).1.reactSeq = s.reactSeq :=
  exec_nr fuel c s ⟨h, rfl⟩

end Cares.Chan
