import CaresModel.Dns.Rfc
import CaresLemmas.DnsName
import CaresLemmas.DnsShape
import CaresLemmas.DnsEscape
/-!
# The operational name parser equals the declarative RFC name decoder (helper lemmas for C04)
-/
namespace Cares.Dns
open Cares.Generated

/-! ### byte classification: masks (C) vs. ranges (RFC) — kernel evaluation over all 256 bytes -/
theorem byte_ptr_iff_all : ∀ n, n < 256 → ((n.toUInt8 &&& 0xC0 = 0xC0) ↔ 192 ≤ n) := by decide +kernel
theorem byte_lab_iff_all : ∀ n, n < 256 → ((n.toUInt8 &&& 0xC0 = 0) ↔ n < 64) := by decide +kernel
theorem byte_low6_all : ∀ n, n < 256 → 192 ≤ n → (n &&& 0x3F) = n - 192 := by decide +kernel

theorem byte_ptr_iff (c : UInt8) : (c &&& 0xC0 = 0xC0) ↔ 192 ≤ c.toNat := by
  have := byte_ptr_iff_all c.toNat c.toNat_lt
  simpa using this

theorem byte_lab_iff (c : UInt8) : (c &&& 0xC0 = 0) ↔ c.toNat < 64 := by
  have := byte_lab_iff_all c.toNat c.toNat_lt
  simpa using this

theorem ptrOffset_eq (c c2 : UInt8) (h : 192 ≤ c.toNat) : ptrOffset c c2 = (c.toNat - 192) * 256 + c2.toNat := by
  unfold ptrOffset
  rw [byte_low6_all c.toNat c.toNat_lt h, ← Nat.shiftLeft_add_eq_or_of_lt (i := 8) c2.toNat_lt, Nat.shiftLeft_eq]

/-! ### the remaining one-iteration cases: the ways a name can be malformed -/

theorem nameLoop_eof {bs : Bytes} {isHost : Bool} {pos ls save : Nat} {acc : BStr} {iters : Nat}
    {jumps : List (Nat × Nat × Nat)} (h : pos = bs.size) :
    nameLoop bs isHost pos ls save acc iters jumps = ⟨.err .ebadresp, iters + 1, jumps⟩ := by
  rw [nameLoop]
  have hf : fetchByte bs pos = .err .ebadresp := by
    rw [fetchByte_eq (by omega), dif_neg (by omega)]
  simp only
  split
  · rename_i e he; rw [hf] at he; injection he with he; subst he; rfl
  · rename_i e he; rw [hf] at he; simp at he
  · rename_i c pos1 he; rw [hf] at he; simp at he

theorem nameLoop_reserved {bs : Bytes} {isHost : Bool} {pos ls save : Nat} {acc : BStr} {iters : Nat}
    {jumps : List (Nat × Nat × Nat)} (h : pos < bs.size) (hc1 : ¬ (bs[pos] &&& 0xC0 = 0xC0))
    (hc2 : bs[pos] &&& 0xC0 ≠ 0) :
    nameLoop bs isHost pos ls save acc iters jumps = ⟨.err .ebadname, iters + 1, jumps⟩ := by
  rw [nameLoop]
  have hf : fetchByte bs pos = .ok bs[pos] (pos + 1) := by
    rw [fetchByte_eq (by omega), dif_pos h]
  simp only
  split
  · rename_i e he; rw [hf] at he; simp at he
  · rename_i e he; rw [hf] at he; simp at he
  · rename_i c pos1 he
    rw [hf] at he
    injection he with h1 h2
    subst h1; subst h2
    rw [if_neg hc1, if_pos hc2]

theorem nameLoop_label_cut {bs : Bytes} {isHost : Bool} {pos ls save : Nat} {acc : BStr} {iters : Nat}
    {jumps : List (Nat × Nat × Nat)} (h : pos < bs.size) (hc0 : bs[pos] ≠ 0) (hc1 : bs[pos] &&& 0xC0 = 0)
    (hfit : ¬ (pos + 1 + bs[pos].toNat ≤ bs.size)) :
    nameLoop bs isHost pos ls save acc iters jumps = ⟨.err .ebadresp, iters + 1, jumps⟩ := by
  rw [nameLoop]
  have hf : fetchByte bs pos = .ok bs[pos] (pos + 1) := by
    rw [fetchByte_eq (by omega), dif_pos h]
  have hl : fetchLabel bs isHost bs[pos].toNat (pos + 1) = .err .ebadresp := by
    rw [fetchLabel_eq (by omega), if_neg (by omega)]
  simp only
  split
  · rename_i e he; rw [hf] at he; simp at he
  · rename_i e he; rw [hf] at he; simp at he
  · rename_i c pos1 he
    rw [hf] at he
    injection he with h1 h2
    subst h1; subst h2
    have hcc : ¬ (bs[pos] &&& 0xC0 = 0xC0) := by rw [hc1]; decide
    rw [if_neg hcc, if_neg (by simpa using hc1), if_neg hc0]
    split
    · rename_i e he; rw [hl] at he; injection he with he; subst he; rfl
    · rename_i e he; rw [hl] at he; simp at he
    · rename_i lab pos3 he; rw [hl] at he; simp at he

theorem nameLoop_ptr_cut {bs : Bytes} {isHost : Bool} {pos ls save : Nat} {acc : BStr} {iters : Nat}
    {jumps : List (Nat × Nat × Nat)} (h : pos < bs.size) (hc : bs[pos] &&& 0xC0 = 0xC0)
    (hcut : ¬ (pos + 1 < bs.size)) :
    nameLoop bs isHost pos ls save acc iters jumps = ⟨.err .ebadresp, iters + 1, jumps⟩ := by
  rw [nameLoop]
  have hf : fetchByte bs pos = .ok bs[pos] (pos + 1) := by
    rw [fetchByte_eq (by omega), dif_pos h]
  have hf2 : fetchByte bs (pos + 1) = .err .ebadresp := by
    rw [fetchByte_eq (by omega), dif_neg hcut]
  simp only
  split
  · rename_i e he; rw [hf] at he; simp at he
  · rename_i e he; rw [hf] at he; simp at he
  · rename_i c pos1 he
    rw [hf] at he
    injection he with h1 h2
    subst h1; subst h2
    rw [if_pos hc]
    split
    · rename_i e he; rw [hf2] at he; injection he with he; subst he; rfl
    · rename_i e he; rw [hf2] at he; simp at he
    · rename_i c2 pos2 he; rw [hf2] at he; simp at he
/-! ### one run of labels, then the whole name -/

/-- append one more label to the text accumulated so far (output side of one loop iteration) -/
def accAdd (acc : BStr) (lab : BStr) : BStr :=
  (if acc.length ≠ 0 then acc ++ [chDot] else acc) ++ escapeLabel lab

def accAddAll (acc : BStr) (labs : List BStr) : BStr := labs.foldl accAdd acc

/-- `fail:` of `ares_dns_name_parse`: EBADRESP becomes EBADNAME -/
def mapErr (r : Res BStr) : Res BStr :=
  match r with
  | .err .ebadresp => .err .ebadname
  | r => r

theorem lsNext_of_le {L p : Nat} (h : L ≤ p) : lsNext L p = L := by
  unfold lsNext; split <;> omega

/-- what one run of the loop does, given how the declarative `labelRun` reads the same bytes -/
def RunSpec (bs : Bytes) (L save : Nat) (acc : BStr) (r : Option (List Rfc.Label × Rfc.Term))
    (out : Res BStr) : Prop :=
  match r with
  | none => mapErr out = .err .ebadname
  | some (ls, .zero next) => out = .ok (accAddAll acc ls) (if save ≠ 0 then save else next)
  | some (ls, .ptr tgt next) =>
    (tgt < L → ∃ it' j', out =
      (nameLoop bs false tgt L (if save = 0 then next else save) (accAddAll acc ls) it' j').out) ∧
    (¬ tgt < L → out = .err .ebadname)

theorem nameLoop_run (bs : Bytes) (p : Nat) (L : Nat) (hL : L ≤ p) (hp : p ≤ bs.size) :
    ∀ save acc it j, RunSpec bs L save acc (Rfc.labelRun bs p) (nameLoop bs false p L save acc it j).out := by
  fun_induction Rfc.labelRun bs p
  all_goals intro save acc it j
  case case1 p hlt c hc =>
    have hc0 : bs[p] = 0 := UInt8.toNat_inj.1 (by simpa using hc)
    rw [nameLoop_end hlt hc0]
    simp [RunSpec, accAddAll]
  case case2 p hlt c hc0 hc64 hfit ls t hrec ih =>
    have hne : bs[p] ≠ 0 := by intro h0; apply hc0; simp [c, h0]
    have hlab : bs[p] &&& 0xC0 = 0 := (byte_lab_iff _).2 hc64
    rw [nameLoop_label hlt hne hlab hfit (by simp), lsNext_of_le hL]
    have := ih (by omega) (by omega) save (accAdd acc (slice bs (p + 1) c)) (it + 1) j
    rw [hrec] at this
    unfold RunSpec at this ⊢
    cases t with
    | zero next => simpa [accAddAll, accAdd] using this
    | ptr tgt next => simpa [accAddAll, accAdd] using this
  case case3 p hlt c hc0 hc64 hfit hrec ih =>
    have hne : bs[p] ≠ 0 := by intro h0; apply hc0; simp [c, h0]
    have hlab : bs[p] &&& 0xC0 = 0 := (byte_lab_iff _).2 hc64
    rw [nameLoop_label hlt hne hlab hfit (by simp), lsNext_of_le hL]
    have := ih (by omega) (by omega) save (accAdd acc (slice bs (p + 1) c)) (it + 1) j
    rw [hrec] at this
    exact this
  case case4 p hlt c hc0 hc64 hfit =>
    have hne : bs[p] ≠ 0 := by intro h0; apply hc0; simp [c, h0]
    have hlab : bs[p] &&& 0xC0 = 0 := (byte_lab_iff _).2 hc64
    rw [nameLoop_label_cut hlt hne hlab hfit]
    simp [RunSpec, mapErr]
  case case5 p hlt c hc0 hc64 hc192 h2 =>
    have hptr : bs[p] &&& 0xC0 = 0xC0 := (byte_ptr_iff _).2 hc192
    have hoff := ptrOffset_eq bs[p] bs[p + 1] hc192
    unfold RunSpec
    simp only
    refine ⟨?_, ?_⟩
    · intro htgt
      rw [nameLoop_ptr h2 hptr (by rw [lsNext_of_le hL, hoff]; exact htgt), lsNext_of_le hL, hoff]
      exact ⟨_, _, rfl⟩
    · intro htgt
      rw [nameLoop_ptr_reject h2 hptr (by rw [lsNext_of_le hL, hoff]; omega)]
  case case6 p hlt c hc0 hc64 hc192 h2 =>
    have hptr : bs[p] &&& 0xC0 = 0xC0 := (byte_ptr_iff _).2 hc192
    rw [nameLoop_ptr_cut hlt hptr h2]
    simp [RunSpec, mapErr]
  case case7 p hlt c hc0 hc64 hc192 =>
    have h1 : ¬ (bs[p] &&& 0xC0 = 0xC0) := fun h => hc192 ((byte_ptr_iff _).1 h)
    have h2 : bs[p] &&& 0xC0 ≠ 0 := fun h => hc64 ((byte_lab_iff _).1 h)
    rw [nameLoop_reserved hlt h1 h2]
    simp [RunSpec, mapErr]
  case case8 p hlt =>
    rw [nameLoop_eof (by omega)]
    simp [RunSpec, mapErr]

theorem nameLoop_ls_norm (bs : Bytes) (isHost : Bool) (p L save : Nat) (acc : BStr) (it : Nat)
    (j : List (Nat × Nat × Nat)) :
    nameLoop bs isHost p L save acc it j = nameLoop bs isHost p (lsNext L p) save acc it j := by
  have h : (if lsNext L p > p then p else lsNext L p) = (if L > p then p else L) := by
    unfold lsNext; split <;> (try split) <;> omega
  rw [nameLoop]
  conv => rhs; rw [nameLoop]
  simp only [h]

theorem mapErr_ok {a : BStr} {o : Nat} : mapErr (.ok a o) = .ok a o := rfl

theorem accAddAll_append (acc : BStr) (l1 l2 : List BStr) :
    accAddAll (accAddAll acc l1) l2 = accAddAll acc (l1 ++ l2) := by
  simp [accAddAll, List.foldl_append]

theorem nameLoop_norm_run (bs : Bytes) (p L : Nat) (hL : p ≤ L) (hp : p ≤ bs.size) (save : Nat) (acc : BStr)
    (it : Nat) (j : List (Nat × Nat × Nat)) :
    RunSpec bs p save acc (Rfc.labelRun bs p) (nameLoop bs false p L save acc it j).out := by
  rw [nameLoop_ls_norm]
  have hn : lsNext L p = p := by unfold lsNext; split <;> omega
  rw [hn]
  exact nameLoop_run bs p p (Nat.le_refl _) hp save acc it j

/-- a pointer's "offset after it" is never 0 -/
theorem labelRun_ptr_next {bs : Bytes} {p : Nat} {ls : List Rfc.Label} {tgt next : Nat}
    (h : Rfc.labelRun bs p = some (ls, .ptr tgt next)) : next ≠ 0 := by
  fun_induction Rfc.labelRun bs p generalizing ls
  all_goals (try (simp at h; done))
  case case2 ih =>
    rename_i hrec
    simp only [Option.some.injEq, Prod.mk.injEq] at h
    obtain ⟨_, ht⟩ := h
    subst ht
    exact ih hrec
  case case5 =>
    simp only [Option.some.injEq, Prod.mk.injEq, Rfc.Term.ptr.injEq] at h
    omega

/-- **the operational loop computes the declarative name** (any accumulator / saved cursor) -/
theorem nameLoop_name (bs : Bytes) (p : Nat) (hp : p ≤ bs.size) :
    ∀ L, p ≤ L → ∀ save acc it j, mapErr (nameLoop bs false p L save acc it j).out =
      match Rfc.name bs p with
      | some (ls, next) => .ok (accAddAll acc ls) (if save ≠ 0 then save else next)
      | none => .err .ebadname := by
  induction p using Nat.strongRecOn with
  | _ p ih =>
    intro L hL save acc it j
    have hrun := nameLoop_norm_run bs p L hL hp save acc it j
    rw [Rfc.name]
    cases hlr : Rfc.labelRun bs p with
    | none =>
      rw [hlr] at hrun
      exact hrun
    | some r =>
      obtain ⟨ls, t⟩ := r
      rw [hlr] at hrun
      cases t with
      | zero next =>
        unfold RunSpec at hrun
        simp only at hrun ⊢
        rw [hrun]; rfl
      | ptr tgt next =>
        unfold RunSpec at hrun
        simp only at hrun ⊢
        by_cases htgt : tgt < p
        · rw [dif_pos htgt]
          obtain ⟨it', j', ho⟩ := hrun.1 htgt
          rw [ho, ih tgt htgt (by omega) p (by omega)]
          have hnext := labelRun_ptr_next hlr
          cases hrec : Rfc.name bs tgt with
          | none => rfl
          | some r2 =>
            obtain ⟨ls', x⟩ := r2
            simp only [accAddAll_append]
            congr 1
            by_cases hs : save = 0 <;> simp [hs, hnext]
        · rw [dif_neg htgt, hrun.2 htgt]; rfl

/-! ### accumulated text = presentation form of the labels -/

theorem escapeByte_ne_nil (c : UInt8) : escapeByte c ≠ [] := by
  unfold escapeByte
  split
  · simp
  · split <;> simp

theorem escapeLabel_ne_nil {l : BStr} (h : l ≠ []) : escapeLabel l ≠ [] := by
  cases l with
  | nil => exact (h rfl).elim
  | cons c l =>
    simp only [escapeLabel, List.flatMap_cons]
    intro h0
    exact escapeByte_ne_nil c (List.append_eq_nil_iff.1 h0).1

theorem escapeName_ne_nil {l : BStr} {ls : List BStr} (h : l ≠ []) : escapeName (l :: ls) ≠ [] := by
  cases ls with
  | nil => rw [escapeName_single]; exact escapeLabel_ne_nil h
  | cons l' ls =>
    rw [escapeName_cons₂]
    intro h0
    exact escapeLabel_ne_nil h (List.append_eq_nil_iff.1 h0).1

theorem escapeName_snoc (pre : List BStr) (l : BStr) (hpre : pre ≠ []) :
    escapeName (pre ++ [l]) = escapeName pre ++ chDot :: escapeLabel l := by
  induction pre with
  | nil => exact (hpre rfl).elim
  | cons a rest ih =>
    cases rest with
    | nil => simp [escapeName_cons₂, escapeName_single]
    | cons b rest' =>
      have := ih (by simp)
      simp only [List.cons_append] at this ⊢
      rw [escapeName_cons₂, this, escapeName_cons₂]
      simp

theorem accAdd_escapeName (pre : List BStr) (l : BStr) (hne : ∀ x ∈ pre, x ≠ []) :
    accAdd (escapeName pre) l = escapeName (pre ++ [l]) := by
  cases pre with
  | nil => simp [accAdd, escapeName_nil, escapeName_single]
  | cons a rest =>
    have h1 : escapeName (a :: rest) ≠ [] := escapeName_ne_nil (hne a (by simp))
    have h2 : (escapeName (a :: rest)).length ≠ 0 := by
      intro h0; exact h1 (List.eq_nil_of_length_eq_zero h0)
    rw [escapeName_snoc _ _ (by simp)]
    simp [accAdd, h2]

theorem accAddAll_escapeName (ls pre : List BStr) (hne : ∀ x ∈ pre ++ ls, x ≠ []) :
    accAddAll (escapeName pre) ls = escapeName (pre ++ ls) := by
  induction ls generalizing pre with
  | nil => simp [accAddAll]
  | cons l ls ih =>
    have h1 : accAdd (escapeName pre) l = escapeName (pre ++ [l]) :=
      accAdd_escapeName pre l (fun x hx => hne x (by simp [hx]))
    have := ih (pre ++ [l]) (by intro x hx; apply hne; simp at hx ⊢; exact hx)
    simp only [accAddAll, List.foldl_cons] at this ⊢
    rw [h1, this]
    simp

theorem labelRun_labels_ne {bs : Bytes} {p : Nat} {ls : List Rfc.Label} {t : Rfc.Term}
    (h : Rfc.labelRun bs p = some (ls, t)) : ∀ l ∈ ls, l ≠ [] := by
  fun_induction Rfc.labelRun bs p generalizing ls t
  all_goals (try (simp at h; done))
  case case1 =>
    simp only [Option.some.injEq, Prod.mk.injEq] at h
    obtain ⟨h1, _⟩ := h; subst h1; simp
  case case2 p hlt c hc0 hc64 hfit ls' t' hrec ih =>
    simp only [Option.some.injEq, Prod.mk.injEq] at h
    obtain ⟨h1, _⟩ := h
    subst h1
    intro l hl
    rcases List.mem_cons.1 hl with rfl | hm
    · intro h0
      have := slice_length (bs := bs) (off := p + 1) (len := c) hfit
      rw [h0] at this
      simp at this
      omega
    · exact ih hrec l hm
  case case5 =>
    simp only [Option.some.injEq, Prod.mk.injEq] at h
    obtain ⟨h1, _⟩ := h; subst h1; simp

theorem name_labels_ne {bs : Bytes} {p : Nat} : ∀ {ls : List Rfc.Label} {next : Nat},
    Rfc.name bs p = some (ls, next) → ∀ l ∈ ls, l ≠ [] := by
  induction p using Nat.strongRecOn with
  | _ p ih =>
    intro ls next h
    rw [Rfc.name] at h
    cases hlr : Rfc.labelRun bs p with
    | none => rw [hlr] at h; simp at h
    | some r =>
      obtain ⟨ls1, t⟩ := r
      rw [hlr] at h
      cases t with
      | zero nx =>
        simp only [Option.some.injEq, Prod.mk.injEq] at h
        obtain ⟨h1, _⟩ := h; subst h1
        exact labelRun_labels_ne hlr
      | ptr tgt nx =>
        simp only at h
        by_cases htgt : tgt < p
        · rw [dif_pos htgt] at h
          cases hrec : Rfc.name bs tgt with
          | none => rw [hrec] at h; simp at h
          | some r2 =>
            obtain ⟨ls2, x⟩ := r2
            rw [hrec] at h
            simp only [Option.some.injEq, Prod.mk.injEq] at h
            obtain ⟨h1, _⟩ := h; subst h1
            intro l hl
            rcases List.mem_append.1 hl with hm | hm
            · exact labelRun_labels_ne hlr l hm
            · exact ih tgt htgt hrec l hm
        · rw [dif_neg htgt] at h; simp at h

/-- **`ares_dns_name_parse` equals the declarative name decoder**: same acceptance, the text is the
    presentation form of the decoded labels, the cursor ends right after the wire form -/
theorem parseName_eq_rfc (bs : Bytes) (p : Nat) (hp : p ≤ bs.size) :
    parseName bs false p = match Rfc.name bs p with
      | some (ls, next) => .ok (escapeName ls) next
      | none => .err .ebadname := by
  have h := nameLoop_name bs p hp p (Nat.le_refl _) 0 [] 0 []
  have hpn : parseName bs false p = mapErr (nameLoop bs false p p 0 [] 0 []).out := by
    unfold parseName parseNameRun mapErr
    rfl
  rw [hpn, h]
  cases hn : Rfc.name bs p with
  | none => rfl
  | some r =>
    obtain ⟨ls, next⟩ := r
    have := accAddAll_escapeName ls [] (by simpa using name_labels_ne hn)
    rw [escapeName_nil] at this
    simp [this]

end Cares.Dns
