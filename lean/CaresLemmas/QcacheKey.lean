import CaresModel.Proto.Qcache
/-!
# Lemmas about the cache key (`ares_qcache_calc_key`): separators, case folding, decimal rendering (helpers for C08)
-/
namespace Cares.Proto.Qcache
open Cares.Generated.Proto

theorem lower_bar_table : (List.range 256).all (fun c => decide (lower c = bar ↔ c = bar)) = true := by decide +kernel
theorem lower_digit_table : (List.range 10).all (fun i => decide (lower (48 + i) = 48 + i)) = true := by decide +kernel
theorem tolower_len : LIBC_TOLOWER.length = 256 := by decide +kernel

theorem lower_big (c : Nat) (h : 256 ≤ c) : lower c = c := by
  unfold lower
  rw [List.getD_eq_getElem?_getD, List.getElem?_eq_none (by rw [tolower_len]; exact h)]
  rfl

theorem lower_eq_bar (c : Nat) : lower c = bar ↔ c = bar := by
  by_cases h : c < 256
  · exact of_decide_eq_true (List.all_eq_true.mp lower_bar_table c (List.mem_range.mpr h))
  · rw [lower_big c (by omega)]

theorem lower_digit (i : Nat) (h : i < 10) : lower (48 + i) = 48 + i :=
  of_decide_eq_true (List.all_eq_true.mp lower_digit_table i (List.mem_range.mpr h))

theorem lowerAll_append (a b : Chars) : lowerAll (a ++ b) = lowerAll a ++ lowerAll b := by simp [lowerAll]
theorem lowerAll_cons (a : Nat) (b : Chars) : lowerAll (a :: b) = lower a :: lowerAll b := by simp [lowerAll]
theorem lower_bar : lower bar = bar := (lower_eq_bar bar).mpr rfl

theorem bar_mem_lowerAll (s : Chars) : bar ∈ lowerAll s ↔ bar ∈ s := by
  simp only [lowerAll, List.mem_map]
  constructor
  · rintro ⟨c, hc, h⟩; rw [(lower_eq_bar c).mp h] at hc; exact hc
  · intro h; exact ⟨bar, h, lower_bar⟩

/-- splitting at the first separator is unique -/
theorem split_bar (x y r s : Chars) (hx : bar ∉ x) (hy : bar ∉ y) (h : x ++ bar :: r = y ++ bar :: s) :
    x = y ∧ r = s := by
  induction x generalizing y with
  | nil =>
    cases y with
    | nil => simp at h; exact ⟨rfl, h⟩
    | cons b y' =>
      simp only [List.nil_append, List.cons_append, List.cons.injEq] at h
      exact absurd (by rw [← h.1]; exact List.mem_cons_self) hy
  | cons a x' ih =>
    cases y with
    | nil =>
      simp only [List.nil_append, List.cons_append, List.cons.injEq] at h
      exact absurd (by rw [h.1]; exact List.mem_cons_self) hx
    | cons b y' =>
      simp only [List.cons_append, List.cons.injEq] at h
      have hx' : bar ∉ x' := fun hm => hx (List.mem_cons_of_mem _ hm)
      have hy' : bar ∉ y' := fun hm => hy (List.mem_cons_of_mem _ hm)
      obtain ⟨e1, e2⟩ := ih y' hx' hy' h.2
      exact ⟨by rw [h.1, e1], e2⟩

/-! decimal rendering -/
theorem decAux_digits (f n : Nat) : ∀ c ∈ decAux f n, 48 ≤ c ∧ c ≤ 57 := by
  induction f generalizing n with
  | zero => intro c hc; simp [decAux] at hc
  | succ f ih =>
    intro c hc
    simp only [decAux] at hc
    split at hc
    · simp only [List.mem_singleton] at hc; omega
    · simp only [List.mem_append, List.mem_singleton] at hc
      rcases hc with hc | hc
      · exact ih _ c hc
      · omega

theorem decChars_digits (n : Nat) : ∀ c ∈ decChars n, 48 ≤ c ∧ c ≤ 57 := decAux_digits _ _

theorem bar_not_mem_dec (n : Nat) : bar ∉ decChars n := by
  intro h; have := decChars_digits n bar h; simp [bar] at this

theorem lowerAll_dec (n : Nat) : lowerAll (decChars n) = decChars n := by
  have h := decChars_digits n
  generalize decChars n = l at h
  induction l with
  | nil => rfl
  | cons a l ih =>
    rw [lowerAll_cons, ih (fun c hc => h c (List.mem_cons_of_mem _ hc))]
    have := h a List.mem_cons_self
    have e : a = 48 + (a - 48) := by omega
    rw [e, lower_digit _ (by omega)]

/-- with enough fuel the rendering does not depend on the fuel -/
theorem decAux_fuel (f1 : Nat) : ∀ (f2 n : Nat), n < f1 → n < f2 → decAux f1 n = decAux f2 n := by
  induction f1 with
  | zero => intro f2 n h; omega
  | succ f1 ih =>
    intro f2 n h1 h2
    cases f2 with
    | zero => omega
    | succ f2 =>
      simp only [decAux]
      by_cases h10 : n < 10
      · simp [h10]
      · simp only [h10, ↓reduceIte]
        rw [ih f2 (n / 10) (by omega) (by omega)]

theorem decChars_eq (n : Nat) : decChars n = if n < 10 then [48 + n] else decChars (n / 10) ++ [48 + n % 10] := by
  unfold decChars
  conv => lhs; unfold decAux
  by_cases h10 : n < 10
  · simp [h10]
  · simp only [h10, ↓reduceIte]
    rw [decAux_fuel n (n / 10 + 1) (n / 10) (by omega) (by omega)]

theorem decChars_ne_nil (n : Nat) : decChars n ≠ [] := by
  rw [decChars_eq]; split <;> simp

theorem decChars_inj : ∀ (a b : Nat), decChars a = decChars b → a = b := by
  intro a
  induction a using Nat.strongRecOn with
  | ind a ih =>
    intro b h
    rw [decChars_eq a, decChars_eq b] at h
    by_cases ha : a < 10 <;> by_cases hb : b < 10
    · simp only [ha, hb, ↓reduceIte, List.cons.injEq, and_true] at h; omega
    · simp only [ha, hb, ↓reduceIte] at h
      have := congrArg List.length h
      simp only [List.length_singleton, List.length_append] at this
      have hne := decChars_ne_nil (b / 10)
      have : (decChars (b / 10)).length = 0 := by omega
      exact absurd (List.eq_nil_of_length_eq_zero this) hne
    · simp only [ha, hb, ↓reduceIte] at h
      have := congrArg List.length h
      simp only [List.length_singleton, List.length_append] at this
      have hne := decChars_ne_nil (a / 10)
      have : (decChars (a / 10)).length = 0 := by omega
      exact absurd (List.eq_nil_of_length_eq_zero this) hne
    · simp only [ha, hb, ↓reduceIte] at h
      have h' := List.append_inj' h rfl
      have e1 := ih (a / 10) (by omega) (b / 10) h'.1
      have e2 : 48 + a % 10 = 48 + b % 10 := by simpa using h'.2
      omega
end Cares.Proto.Qcache

namespace Cares.Proto.Qcache
open Cares.Generated.Proto

/-- what the key retains of a question: type, class, and the name folded to lower case without one trailing dot -/
def qnorm (q : Question) : Nat × Nat × Chars := (q.qtype, q.qclass, lowerAll (stripDot q.name))

/-- the property's notion of "the same request" -/
def sameCacheClass (a b : Req) : Prop :=
  a.opcode = b.opcode ∧ a.rd = b.rd ∧ a.cd = b.cd ∧ a.questions.map qnorm = b.questions.map qnorm

def nkey : List (Nat × Nat × Chars) → Chars
  | [] => []
  | (t, c, n) :: r => bar :: (decChars t ++ bar :: (decChars c ++ bar :: (n ++ nkey r)))

theorem lowerAll_questionsKey (qs : List Question) : lowerAll (questionsKey true qs) = nkey (qs.map qnorm) := by
  induction qs with
  | nil => rfl
  | cons q qs ih =>
    simp only [questionsKey, questionKey, typeChars, classChars, ↓reduceIte, List.map_cons, qnorm, nkey]
    simp only [List.cons_append, lowerAll_cons, lowerAll_append, lower_bar, lowerAll_dec, ih, List.append_assoc]

def opPart (r : Req) : Chars := lowerAll (strChars (opcodeStr r.opcode))
def flagPart (r : Req) : Chars := lowerAll (flagChars r.rd r.cd)

theorem lowerAll_calcKey (r : Req) :
    lowerAll (calcKeyWith true r) = opPart r ++ bar :: (flagPart r ++ nkey (r.questions.map qnorm)) := by
  simp only [calcKeyWith, lowerAll_append, lowerAll_cons, lower_bar, lowerAll_questionsKey, opPart, flagPart,
    List.cons_append, List.append_assoc]

/-! table facts about opcodes and flags -/
theorem opcode_table :
    OPCODE_VALID.all (fun a => OPCODE_VALID.all (fun b =>
      decide (lowerAll (strChars (opcodeStr a)) = lowerAll (strChars (opcodeStr b)) → a = b))) = true := by
  decide +kernel

theorem opcode_nobar : OPCODE_VALID.all (fun a => decide (bar ∉ lowerAll (strChars (opcodeStr a)))) = true := by
  decide +kernel

theorem flag_table : [false, true].all (fun a => [false, true].all (fun b => [false, true].all (fun c =>
    [false, true].all (fun d => decide (lowerAll (flagChars a b) = lowerAll (flagChars c d) → a = c ∧ b = d))))) = true := by
  decide +kernel

theorem flag_nobar (a b : Bool) : bar ∉ lowerAll (flagChars a b) := by
  cases a <;> cases b <;> decide +kernel

theorem flag_inj (a b c d : Bool) (h : lowerAll (flagChars a b) = lowerAll (flagChars c d)) : a = c ∧ b = d := by
  revert h; cases a <;> cases b <;> cases c <;> cases d <;> decide +kernel

/-- a request as the library can put it on the wire and get an answer for: one question (`ares_dns_parse` refuses
    responses with QDCOUNT ≠ 1), a name without `|` (`ares_dns_write` validates question names against the host name
    character set, which has no `|`), an opcode the record API accepts -/
def WireReq (r : Req) : Prop :=
  (∃ q, r.questions = [q] ∧ bar ∉ q.name) ∧ r.opcode ∈ OPCODE_VALID

/-- any request record built with the public API -/
def ApiReq (r : Req) : Prop := r.opcode ∈ OPCODE_VALID

theorem stripDot_nobar (n : Chars) (h : bar ∉ n) : bar ∉ stripDot n := by
  unfold stripDot; split
  · intro hm; exact h ((List.dropLast_sublist n).subset hm)
  · exact h

theorem nkey_class (a b : Req) (ha : WireReq a) (hb : ApiReq b)
    (h : lowerAll (calcKeyWith true a) = lowerAll (calcKeyWith true b)) : sameCacheClass a b := by
  obtain ⟨⟨qa, hqa, hna⟩, hoa⟩ := ha
  rw [lowerAll_calcKey, lowerAll_calcKey] at h
  have hba : bar ∉ opPart a := of_decide_eq_true (List.all_eq_true.mp opcode_nobar _ hoa)
  have hbb : bar ∉ opPart b := of_decide_eq_true (List.all_eq_true.mp opcode_nobar _ hb)
  obtain ⟨h1, h2⟩ := split_bar _ _ _ _ hba hbb h
  have hop : a.opcode = b.opcode :=
    of_decide_eq_true (List.all_eq_true.mp (List.all_eq_true.mp opcode_table _ hoa) _ hb) h1
  rw [hqa] at h2
  simp only [List.map_cons, List.map_nil, qnorm, nkey, List.append_nil] at h2
  -- the other request has at least one question
  cases hqb : b.questions with
  | nil =>
    rw [hqb] at h2
    simp only [List.map_nil, nkey, List.append_nil] at h2
    exact absurd (by unfold flagPart at h2; rw [← h2]; simp) (flag_nobar b.rd b.cd)
  | cons qb rest =>
    rw [hqb] at h2
    simp only [List.map_cons, qnorm, nkey] at h2
    obtain ⟨f1, f2⟩ := split_bar _ _ _ _ (flag_nobar _ _) (flag_nobar _ _) h2
    obtain ⟨hrd, hcd⟩ := flag_inj _ _ _ _ f1
    obtain ⟨t1, t2⟩ := split_bar _ _ _ _ (bar_not_mem_dec _) (bar_not_mem_dec _) f2
    obtain ⟨c1, c2⟩ := split_bar _ _ _ _ (bar_not_mem_dec _) (bar_not_mem_dec _) t2
    have hnb : bar ∉ lowerAll (stripDot qa.name) := by
      rw [bar_mem_lowerAll]; exact stripDot_nobar _ hna
    cases rest with
    | nil =>
      simp only [List.map_nil, nkey, List.append_nil] at c2
      refine ⟨hop, hrd, hcd, ?_⟩
      rw [hqa, hqb]
      simp only [List.map_cons, List.map_nil, qnorm, decChars_inj _ _ t1, decChars_inj _ _ c1, c2]
    | cons q2 rest2 =>
      exfalso
      apply hnb
      rw [c2]
      simp [nkey]
end Cares.Proto.Qcache
