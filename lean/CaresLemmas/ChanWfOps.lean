import CaresLemmas.ChanWfDefs
/-!
# C01 — the skeleton-changing helpers (`removeFromConn`, `detach`, `freeQuery`) on the skeleton
-/
namespace Cares.Chan

def Sk.q? (a : Sk) (k : Nat) : Option QSk := a.qs.find? (·.key == k)
def Sk.c? (a : Sk) (fd : Nat) : Option CSk := a.conns.find? (·.fd == fd)

theorem sk_q? (s : St) (k : Nat) : s.sk.q? k = (s.query? k).map Query.sk := by
  unfold Sk.q? St.query? St.sk
  simp only [List.find?_map]
  rfl
theorem sk_c? (s : St) (fd : Nat) : s.sk.c? fd = (s.conn? fd).map Conn.sk := by
  unfold Sk.c? St.conn? St.sk
  simp only [List.find?_map]
  rfl

theorem Sk.q?_some {a : Sk} {k : Nat} {e : QSk} (h : a.q? k = some e) : e ∈ a.qs ∧ e.key = k :=
  ⟨List.mem_of_find?_eq_some h, by simpa using List.find?_some h⟩
theorem Sk.c?_some {a : Sk} {fd : Nat} {e : CSk} (h : a.c? fd = some e) : e ∈ a.conns ∧ e.fd = fd :=
  ⟨List.mem_of_find?_eq_some h, by simpa using List.find?_some h⟩
theorem Sk.q?_none {a : Sk} {k : Nat} (h : a.q? k = none) : ∀ e ∈ a.qs, e.key ≠ k := by
  intro e he hk
  have := List.find?_eq_none.mp h e he
  simp [hk] at this
theorem Sk.c?_none {a : Sk} {fd : Nat} (h : a.c? fd = none) : ∀ e ∈ a.conns, e.fd ≠ fd := by
  intro e he hk
  have := List.find?_eq_none.mp h e he
  simp [hk] at this

theorem Sk.q?_of_mem {a : Sk} (hn : (a.qs.map (·.key)).Nodup) {e : QSk} (he : e ∈ a.qs) : a.q? e.key = some e := by
  cases h : a.q? e.key with
  | none => exact absurd rfl (Sk.q?_none h e he)
  | some e' =>
    have := Sk.q?_some h
    rw [eq_of_nodup_map (·.key) a.qs hn e' this.1 e he this.2]
theorem Sk.c?_of_mem {a : Sk} (hn : (a.conns.map (·.fd)).Nodup) {e : CSk} (he : e ∈ a.conns) : a.c? e.fd = some e := by
  cases h : a.c? e.fd with
  | none => exact absurd rfl (Sk.c?_none h e he)
  | some e' =>
    have := Sk.c?_some h
    rw [eq_of_nodup_map (·.fd) a.conns hn e' this.1 e he this.2]

/-- ares_query_remove_from_conn on the skeleton -/
def Sk.removeFromConn (a : Sk) (k : Nat) : Sk :=
  match a.q? k with
  | none => a
  | some e =>
    let a := { a with byTimeout := a.byTimeout.erase k, pendingOrder := a.pendingOrder.erase k }
    let a := match e.conn with
      | some fd => a.modC fd fun c => { c with queries := c.queries.erase k }
      | none => a
    a.modQ k fun e => { e with conn := none }

def Sk.detach (a : Sk) (k : Nat) : Sk :=
  match a.q? k with
  | none => a
  | some e =>
    let a := a.removeFromConn k
    { a with byQid := a.byQid.filter (fun (p : Nat × Nat) => !(p.1 == e.qid && p.2 == k)),
             all := a.all.erase k, listCopy := a.listCopy.map (·.erase k) }

def Sk.freeQuery (a : Sk) (k : Nat) : Sk :=
  let a := a.detach k
  { a with qs := a.qs.filter (·.key != k) }

theorem sk_removeFromConn (s : St) (k : Nat) : (s.removeFromConn k).sk = s.sk.removeFromConn k := by
  unfold St.removeFromConn Sk.removeFromConn
  rw [sk_q?]
  cases hq : s.query? k with
  | none => rfl
  | some q =>
    simp only [Option.map_some]
    rw [sk_modQuery _ _ _ (fun e => { e with conn := none }) (fun _ => rfl)]
    congr 1
    show _ = match q.conn with | some fd => _ | none => _
    cases q.conn with
    | none => rfl
    | some fd => exact sk_modConn _ _ _ (fun c => { c with queries := c.queries.erase k }) (fun _ => rfl)

theorem sk_detach (s : St) (k : Nat) : (s.detach k).sk = s.sk.detach k := by
  unfold St.detach Sk.detach
  rw [sk_q?]
  cases hq : s.query? k with
  | none => rfl
  | some q =>
    simp only [Option.map_some]
    rw [← sk_removeFromConn]
    rfl

theorem sk_freeQuery (s : St) (k : Nat) : (s.freeQuery k).sk = s.sk.freeQuery k := by
  unfold St.freeQuery Sk.freeQuery
  simp only
  rw [← sk_detach]
  unfold St.sk
  simp only [Sk.mk.injEq, true_and, and_true, List.filter_map]
  rfl

/-! ### projections of the generic updates -/

theorem proj_modQ {β} (a : Sk) (k : Nat) (g : QSk → QSk) (π : QSk → β) (h : ∀ e, π (g e) = π e) :
    (a.modQ k g).qs.map π = a.qs.map π := by
  unfold Sk.modQ; simp only [List.map_map]; apply List.map_congr_left; intro x _
  simp only [Function.comp]; split <;> simp [h]
theorem proj_modC {β} (a : Sk) (fd : Nat) (g : CSk → CSk) (π : CSk → β) (h : ∀ e, π (g e) = π e) :
    (a.modC fd g).conns.map π = a.conns.map π := by
  unfold Sk.modC; simp only [List.map_map]; apply List.map_congr_left; intro x _
  simp only [Function.comp]; split <;> simp [h]

theorem qKC_modQ_conn (a : Sk) (k : Nat) (v : Option Nat) :
    (a.modQ k fun e => { e with conn := v }).qKC = a.qKC.map fun p => if p.1 == k then (p.1, v) else p := by
  unfold Sk.modQ Sk.qKC; simp only [List.map_map]; apply List.map_congr_left; intro x _
  simp only [Function.comp]; split <;> rfl
theorem cFQ_modC_queries (a : Sk) (fd : Nat) (h : List Nat → List Nat) :
    (a.modC fd fun c => { c with queries := h c.queries }).cFQ =
      a.cFQ.map fun c => if c.1 == fd then (c.1, h c.2) else c := by
  unfold Sk.modC Sk.cFQ; simp only [List.map_map]; apply List.map_congr_left; intro x _
  simp only [Function.comp]; split <;> rfl
theorem cFUQ_modC_queries (a : Sk) (fd : Nat) (h : List Nat → List Nat) :
    (a.modC fd fun c => { c with queries := h c.queries }).cFUQ =
      a.cFUQ.map fun c => if c.1 == fd then (c.1, c.2.1, h c.2.2) else c := by
  unfold Sk.modC Sk.cFUQ; simp only [List.map_map]; apply List.map_congr_left; intro x _
  simp only [Function.comp]; split <;> rfl

/-- description of `removeFromConn` when the query is live -/
theorem Sk.removeFromConn_eq (a : Sk) (k : Nat) (e : QSk) (h : a.q? k = some e) :
    a.removeFromConn k =
      { ((match e.conn with
         | some fd => a.modC fd fun c => { c with queries := c.queries.erase k }
         | none => a).modQ k fun e => { e with conn := none }) with
        byTimeout := a.byTimeout.erase k, pendingOrder := a.pendingOrder.erase k } := by
  unfold Sk.removeFromConn; rw [h]; simp only [Sk.modQ, Sk.modC]; cases e.conn <;> rfl

end Cares.Chan
