import CaresModel.Chan.Client
import CaresLemmas.TextSearch
/-!
Bridge between the two name representations: model (A) (`Cares.Proto`, C12) works on byte lists
(`Name = List Nat`), the channel model (B) (`Cares.Chan`) on the lower-case hex text of the bytes.
`hex` is the serialisation; it is faithful for byte values `< 256` (`Ser`).
-/
namespace Cares.ClientWalk
open Cares.Chan Cares.Text Cares.Proto

def hexDigit (n : Nat) : Char := if n < 10 then Char.ofNat (48 + n) else Char.ofNat (87 + n)
def hexByte (b : Nat) : List Char := [hexDigit (b / 16), hexDigit (b % 16)]
def hexChars (n : Bytes) : List Char := n.flatMap hexByte
/-- lower-case hex text of a byte string (two digits per byte) -/
def hex (n : Bytes) : String := String.ofList (hexChars n)

/-- the byte string serialises: every element is a byte -/
def Ser (n : Bytes) : Prop := ∀ b ∈ n, b < 256

instance (n : Bytes) : Decidable (Ser n) := by unfold Ser; infer_instance

theorem hexByte_dot : ∀ b, b < 256 →
    ((hexDigit (b / 16) == '2' && hexDigit (b % 16) == 'e') = (b == 46)) := by
  decide +kernel

theorem hexChars_cons (b : Nat) (n : Bytes) :
    hexChars (b :: n) = hexDigit (b / 16) :: hexDigit (b % 16) :: hexChars n := by
  simp [hexChars, hexByte]

theorem hexChars_append (a b : Bytes) : hexChars (a ++ b) = hexChars a ++ hexChars b := by
  simp [hexChars]

theorem hexChars_length (n : Bytes) : (hexChars n).length = 2 * n.length := by
  induction n with
  | nil => rfl
  | cons b n ih => rw [hexChars_cons]; simp only [List.length_cons, ih]; omega

theorem toList_hex (n : Bytes) : (hex n).toList = hexChars n := by simp [hex]

theorem length_hex (n : Bytes) : (hex n).length = 2 * n.length := by
  rw [← String.length_toList, toList_hex, hexChars_length]

theorem hex_append (a b : Bytes) : hex (a ++ b) = hex a ++ hex b := by
  apply String.ext; simp [toList_hex, hexChars_append]

theorem hex_dot : hex [46] = "2e" := by decide

theorem Ser.cons {b : Nat} {n : Bytes} (h : Ser (b :: n)) : b < 256 ∧ Ser n :=
  ⟨h b (by simp), fun x hx => h x (by simp [hx])⟩

theorem hexDots_go (n : Bytes) (h : Ser n) : hexDots.go (hexChars n) = dots n := by
  induction n with
  | nil => rfl
  | cons b n ih =>
    obtain ⟨hb, hn⟩ := h.cons
    rw [hexChars_cons, hexDots.go, ih hn, hexByte_dot b hb]
    unfold dots
    rw [List.count_cons]
    by_cases h46 : b = 46 <;> simp [h46] <;> omega

theorem hexDots_hex (n : Bytes) (h : Ser n) : hexDots (hex n) = dots n := by
  unfold hexDots; rw [toList_hex]; exact hexDots_go n h

theorem labelCnt_hex (n : Bytes) (h : Ser n) : Cares.Chan.labelCnt (hex n) = Cares.Proto.labelCnt n := by
  unfold Cares.Chan.labelCnt Cares.Proto.labelCnt; rw [hexDots_hex n h]

theorem hexChars_eq_dot (d : Bytes) (h : Ser d) : (hexChars d = ['2', 'e']) ↔ d = [46] := by
  match d, h with
  | [], _ => simp [hexChars]
  | [b], h =>
    have hb := hexByte_dot b (h b (by simp))
    rw [hexChars_cons]
    by_cases h46 : b = 46
    · subst h46; simp [hexChars]; decide
    · have hb' : (b == 46) = false := by simp [h46]
      rw [hb'] at hb
      simp only [hexChars, List.flatMap_nil, List.cons.injEq, and_true, h46, iff_false, not_and]
      intro h1 h2; simp [h1, h2] at hb
  | a :: b :: r, _ =>
    constructor
    · intro hh
      have := congrArg List.length hh
      rw [hexChars_length] at this; simp at this; omega
    · intro hh; simp at hh

theorem hex_beq_dot (d : Bytes) (h : Ser d) : (hex d == "2e") = (d == [46]) := by
  have : (hex d = "2e") ↔ d = [46] := by
    rw [← String.toList_inj, toList_hex]; exact hexChars_eq_dot d h
  by_cases hd : d = [46]
  · simp [hd, hex_dot]
  · have := mt this.mp hd
    rw [beq_eq_false_iff_ne.mpr this, beq_eq_false_iff_ne.mpr hd]

/-- `name` ends in a dot, as `searchNames` tests it on the hex text -/
theorem endsDot_hex (n : Bytes) (h : Ser n) :
    (decide ((hex n).length ≥ 2) && ((hex n).drop ((hex n).length - 2)).toString == "2e") =
      (n.getLast? == some 46) := by
  rcases List.eq_nil_or_concat n with rfl | ⟨i, l, rfl⟩
  · decide
  · rw [List.concat_eq_append] at h ⊢
    have hl : Ser [l] := fun x hx => h x (by simp at hx ⊢; exact Or.inr hx)
    have e1 : ((hex (i ++ [l])).drop ((hex (i ++ [l])).length - 2)).toString = hex [l] := by
      apply String.ext
      simp only [String.Slice.toString, String.toList_copy_drop, toList_hex, length_hex, hexChars_append]
      have : 2 * (i ++ [l]).length - 2 = (hexChars i).length := by
        rw [hexChars_length]; simp; omega
      rw [this, List.drop_left]
    rw [e1, hex_beq_dot [l] hl, length_hex]
    simp
    omega

/-- the channel configuration `cfg` carries the search settings of the C12 configuration `c` -/
structure CfgMatches (cfg : Cfg) (c : Config) : Prop where
  ndots : cfg.ndots = c.ndots
  domains : cfg.domains = c.domains.map hex
  nosearch : cfg.nosearch = c.noSearch
  domSer : ∀ d ∈ c.domains, Ser d

theorem Ser.catDomain {name d : Bytes} (hn : Ser name) (hd : Ser d) : Ser (catDomain name d) := by
  intro b hb
  unfold Cares.Proto.catDomain at hb
  simp only [List.mem_append, List.mem_singleton] at hb
  rcases hb with (hb | rfl) | hb
  · exact hn b hb
  · decide
  · split at hb
    · simp at hb
    · exact hd b hb

theorem cat_hex (name d : Bytes) (hd : Ser d) :
    hex name ++ "2e" ++ (if hex d == "2e" then "" else hex d) = hex (catDomain name d) := by
  unfold Cares.Proto.catDomain
  rw [hex_beq_dot d hd, hex_append, hex_append, hex_dot]
  by_cases h : d = [46]
  · subst h; simp [show hex [] = "" by decide]
  · simp [h]

/-- `searchNames` (B) computes the hex texts of `nameList` (A) when no host alias applies -/
theorem searchNames_hex (cfg : Cfg) (c : Config) (hm : CfgMatches cfg c) (name : Name) (hs : Ser name)
    (hal : lookupHostaliases c.noAliases c.aliases name = .error .enotfound) :
    ∃ names, nameList c name = .ok names ∧ searchNames cfg (hex name) = names.map hex ∧
      (∀ n ∈ names, Ser n) := by
  unfold nameList searchNames
  rw [hal]
  simp only [endsDot_hex name hs, labelCnt_hex name hs, hm.ndots, hm.domains, hm.nosearch, eligible]
  have hmap : List.map (fun d => hex name ++ "2e" ++ if (d == "2e") = true then "" else d) (c.domains.map hex) =
      (c.domains.map (catDomain name)).map hex := by
    rw [List.map_map, List.map_map]
    apply List.map_congr_left
    intro d hd
    exact cat_hex name d (hm.domSer d hd)
  have hser : ∀ n ∈ c.domains.map (catDomain name), Ser n := by
    intro n hn
    obtain ⟨d, hd, rfl⟩ := List.mem_map.mp hn
    exact hs.catDomain (hm.domSer d hd)
  rw [hmap]
  by_cases he : (name.getLast? == some 46 || c.noSearch) = true
  · refine ⟨[name], ?_, ?_, ?_⟩
    · have : (!(name.getLast? == some 46) && !c.noSearch) = false := by
        rw [← Bool.not_or, he]; rfl
      simp [this]
    · simp [he]
    · intro n hn; simp at hn; subst hn; exact hs
  · have he' : (name.getLast? == some 46 || c.noSearch) = false := by simpa using he
    have : (!(name.getLast? == some 46) && !c.noSearch) = true := by
      rw [← Bool.not_or, he']; rfl
    simp only [this, he', Bool.not_true, Bool.false_eq_true, ↓reduceIte]
    refine ⟨_, rfl, ?_, ?_⟩
    · by_cases hd : Cares.Proto.labelCnt name - 1 ≥ c.ndots
      · have : ¬ Cares.Proto.labelCnt name - 1 < c.ndots := by omega
        simp [hd, this]
      · have : Cares.Proto.labelCnt name - 1 < c.ndots := by omega
        simp [hd, this]
    · intro n hn
      simp only [List.mem_append] at hn
      rcases hn with (hn | hn) | hn
      · split at hn <;> simp at hn; subst hn; exact hs
      · exact hser n hn
      · split at hn <;> simp at hn; subst hn; exact hs


end Cares.ClientWalk
