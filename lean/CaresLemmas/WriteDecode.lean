import CaresLemmas.WriteName
/-!
# Name layer of the writer: what the written bytes denote

* `Decodes.append`: appending to a message never changes what an earlier name decodes to;
* `decodes_encodeLabels`, `decodes_pointer`: labels in place, then a terminator or a pointer;
* `findOff_spec`: a match of `ares_nameoffset_find` is a stored name that is a whole-label tail;
* `NInv` / `nameWrite_spec`: the offset-list invariant ("every stored `(name, idx)` decodes at `idx` to
  `name`'s labels, reading only bytes already written, and `idx` fits into 14 bits") is preserved by
  `ares_dns_name_write`, the bytes it appends decode to the labels of the name, and the 14-bit mask
  never drops a bit.
-/
namespace Cares.Dns.NameW
open Cares.Dns

theorem Decodes.pos_lt {msg : BStr} {lo pos e : Nat} {ls : List BStr} (h : Decodes msg lo pos ls e) :
    pos < msg.length := by
  cases h with
  | root h => exact (List.getElem?_eq_some_iff.1 h).1
  | label h => exact (List.getElem?_eq_some_iff.1 h).1
  | ptr h => exact (List.getElem?_eq_some_iff.1 h).1

/-- appending never changes an earlier name -/
theorem Decodes.append {msg : BStr} {lo pos e : Nat} {ls : List BStr} (more : BStr)
    (h : Decodes msg lo pos ls e) : Decodes (msg ++ more) lo pos ls e := by
  induction h with
  | root h =>
    exact .root (by rw [List.getElem?_append_left (List.getElem?_eq_some_iff.1 h).1]; exact h)
  | @label lo pos e c lab rest h h0 h63 hl hlen _ ih =>
    have hp := (List.getElem?_eq_some_iff.1 h).1
    refine .label (by rw [List.getElem?_append_left hp]; exact h) h0 h63 ?_ hlen ih
    subst hl
    have : pos + 1 + c.toNat ≤ msg.length := by
      rw [List.length_take, List.length_drop] at hlen; omega
    rw [List.drop_append_of_le_length (by omega), List.take_append_of_le_length]
    rw [List.length_drop]; omega
  | @ptr lo pos e' c d ls h hc hd hlt _ ih =>
    have hp := (List.getElem?_eq_some_iff.1 h).1
    have hp1 := (List.getElem?_eq_some_iff.1 hd).1
    exact .ptr (by rw [List.getElem?_append_left hp]; exact h) hc
      (by rw [List.getElem?_append_left hp1]; exact hd) hlt ih

theorem Decodes.mono_lo {msg : BStr} {lo lo' pos e : Nat} {ls : List BStr} (hle : lo ≤ lo')
    (h : Decodes msg lo pos ls e) : Decodes msg lo' pos ls e := by
  induction h generalizing lo' with
  | root h => exact .root h
  | label h h0 h63 hl hlen _ ih => exact .label h h0 h63 hl hlen (ih hle)
  | ptr h hc hd hlt hr _ => exact .ptr h hc hd (by omega) hr

/-! ## labels in place -/

theorem wireLabels_cons {l : BStr} {ls : List BStr} :
    wireLabels (l :: ls) = true ↔ (0 < l.length ∧ l.length ≤ 63) ∧ wireLabels ls = true := by
  simp [wireLabels]

theorem getElem?_mid (pre : BStr) (x : UInt8) (post : BStr) : (pre ++ x :: post)[pre.length]? = some x := by
  simp

/-- labels written one after the other decode to themselves, followed by whatever the rest denotes -/
theorem decodes_encodeLabels (ls : List BStr) (hw : wireLabels ls = true) (pre tail : BStr) (lo : Nat)
    (rest : List BStr) (e : Nat)
    (h : Decodes (pre ++ encodeLabels ls ++ tail) lo (pre.length + (encodeLabels ls).length) rest e) :
    Decodes (pre ++ encodeLabels ls ++ tail) lo pre.length (ls ++ rest) e := by
  induction ls generalizing pre with
  | nil => simpa [encodeLabels] using h
  | cons l r ih =>
    obtain ⟨⟨h0, h63⟩, hr⟩ := wireLabels_cons.1 hw
    have hmod : l.length % 256 = l.length := by omega
    -- the message seen with the first label moved into the prefix
    have hmsg : pre ++ encodeLabels (l :: r) ++ tail =
        (pre ++ UInt8.ofNat (l.length % 256) :: l) ++ encodeLabels r ++ tail := by
      simp [encodeLabels, List.append_assoc]
    have hlen : (pre ++ UInt8.ofNat (l.length % 256) :: l).length + (encodeLabels r).length =
        pre.length + (encodeLabels (l :: r)).length := by
      simp [encodeLabels]; omega
    rw [hmsg] at h ⊢
    rw [← hlen] at h
    have ih' := ih hr (pre ++ UInt8.ofNat (l.length % 256) :: l) h
    have hc : (UInt8.ofNat (l.length % 256)).toNat = l.length := by
      rw [ofNat_toNat_lt _ (by omega), hmod]
    refine .label (c := UInt8.ofNat (l.length % 256)) ?_ (by omega) (by omega) ?_ (by omega) ?_
    · simp [List.append_assoc]
    · rw [hc]
      simp [List.append_assoc, List.drop_append, List.take_append]
    · rw [hc]
      have : pre.length + 1 + l.length = (pre ++ UInt8.ofNat (l.length % 256) :: l).length := by
        simp; omega
      rw [this]
      exact ih'

/-- the two bytes of `0xC000 | idx` -/
theorem ptrOff_be16 (idx : Nat) (h : idx < 0x4000) :
    ∃ c d : UInt8, be16 (0xC000 + idx % 0x4000) = [c, d] ∧ 192 ≤ c.toNat ∧ ptrOff c d = idx := by
  refine ⟨_, _, rfl, ?_, ?_⟩
  · rw [ofNat_toNat_lt _ (by omega)]; omega
  · unfold ptrOff
    rw [ofNat_toNat_lt _ (by omega), ofNat_toNat_lt _ (by omega)]; omega

theorem decodes_pointer (pre tail : BStr) (idx lo e' : Nat) (ls : List BStr) (h14 : idx < 0x4000)
    (hlo : idx < lo)
    (h : Decodes (pre ++ be16 (0xC000 + idx % 0x4000) ++ tail) idx idx ls e') :
    Decodes (pre ++ be16 (0xC000 + idx % 0x4000) ++ tail) lo pre.length ls (pre.length + 2) := by
  obtain ⟨c, d, hb, hc, hp⟩ := ptrOff_be16 idx h14
  rw [hb] at h ⊢
  rw [← hp] at h hlo
  refine .ptr (c := c) (d := d) ?_ hc ?_ hlo h
  · simp [List.append_assoc]
  · simp [List.append_assoc]

theorem decodes_root (pre tail : BStr) (lo : Nat) :
    Decodes (pre ++ [0] ++ tail) lo pre.length [] (pre.length + 1) :=
  .root (by simp [List.append_assoc])

/-! ## `ares_nameoffset_find` -/

/-- what a match guarantees -/
def IsTail (name : BStr) (o : NameOff) : Prop :=
  o.name.length ≤ name.length ∧ name.drop (name.length - o.name.length) = o.name ∧
    (name.length - o.name.length ≠ 0 → name[name.length - o.name.length - 1]? = some dot)

theorem findStep_spec (names : List NameOff) (name : BStr) (best : Option NameOff) (v : NameOff)
    (hv : v ∈ names) (hb : ∀ o, best = some o → o ∈ names ∧ IsTail name o) :
    ∀ o, findStep name best v = some o → o ∈ names ∧ IsTail name o := by
  intro o ho
  unfold findStep at ho
  by_cases c1 : v.name.length > name.length
  · rw [if_pos c1] at ho; exact hb o ho
  rw [if_neg c1] at ho
  have hstep : ∀ (c : Bool), (if c = true then best else
        (have prefixLen := name.length - v.name.length;
        if name.drop prefixLen ≠ v.name then best
        else if (decide (prefixLen ≠ 0) && decide (name[prefixLen - 1]? ≠ some dot)) = true then best
        else if (decide (prefixLen ≠ 0) && decide (backslashesBefore name (prefixLen - 1) % 2 ≠ 0)) = true then best
        else some v)) = some o → o ∈ names ∧ IsTail name o := by
    intro c ho
    by_cases c2 : c = true
    · rw [if_pos c2] at ho; exact hb o ho
    rw [if_neg c2] at ho
    dsimp only at ho
    by_cases c3 : name.drop (name.length - v.name.length) ≠ v.name
    · rw [if_pos c3] at ho; exact hb o ho
    rw [if_neg c3] at ho
    by_cases c4 : (decide (name.length - v.name.length ≠ 0) &&
        decide (name[name.length - v.name.length - 1]? ≠ some dot)) = true
    · rw [if_pos c4] at ho; exact hb o ho
    rw [if_neg c4] at ho
    by_cases c5 : (decide (name.length - v.name.length ≠ 0) &&
        decide (backslashesBefore name (name.length - v.name.length - 1) % 2 ≠ 0)) = true
    · rw [if_pos c5] at ho; exact hb o ho
    rw [if_neg c5] at ho
    cases ho
    refine ⟨hv, by omega, by simpa using c3, ?_⟩
    intro hne
    simpa [hne] using c4
  exact hstep _ ho

theorem findOff_spec (names : List NameOff) (name : BStr) (o : NameOff) (h : findOff names name = some o) :
    o ∈ names ∧ IsTail name o := by
  unfold findOff at h
  split at h
  · cases h
  · have key : ∀ (l : List NameOff) (best : Option NameOff), (∀ v ∈ l, v ∈ names) →
        (∀ o, best = some o → o ∈ names ∧ IsTail name o) →
        ∀ o, l.foldl (findStep name) best = some o → o ∈ names ∧ IsTail name o := by
      intro l
      induction l with
      | nil => intro best _ hb o ho; exact hb o ho
      | cons v rest ih =>
        intro best hl hb o ho
        simp only [List.foldl_cons] at ho
        exact ih (findStep name best v) (fun w hw => hl w (List.mem_cons_of_mem _ hw))
          (findStep_spec names name best v (hl v (List.mem_cons_self)) hb) o ho
    exact key names none (fun v hv => hv) (fun o ho => by cases ho) o h

/-- a proper tail match splits the text at an (unescaped or not) dot -/
theorem IsTail.split {name : BStr} {o : NameOff} (h : IsTail name o) (hne : o.name.length ≠ name.length) :
    name = name.take (name.length - (o.name.length + 1)) ++ dot :: o.name := by
  obtain ⟨hle, hd, hdot⟩ := h
  have hk : name.length - o.name.length ≠ 0 := by omega
  have h1 := hdot hk
  have hlt : name.length - o.name.length - 1 < name.length := by omega
  have h2 : name.drop (name.length - o.name.length - 1) = dot :: name.drop (name.length - o.name.length) := by
    rw [List.drop_eq_getElem_cons hlt]
    have : name[name.length - o.name.length - 1] = dot := by
      have := List.getElem?_eq_some_iff.1 h1
      exact this.2
    rw [this]
    congr 2
    omega
  have h3 : name.length - (o.name.length + 1) = name.length - o.name.length - 1 := by omega
  rw [h3]
  conv => lhs; rw [← List.take_append_drop (name.length - o.name.length - 1) name]
  rw [h2, hd]

/-! ## trailing-dot rule over a split at a separator -/

theorem trimLabels_append (rp ro : List BStr) (hp : ∀ l ∈ rp, l ≠ []) (hne : rp ≠ [])
    (hro : ro ≠ []) (hlo : trimLabels ro ≠ []) : trimLabels (rp ++ ro) = rp ++ trimLabels ro := by
  have hx : ∀ t : List BStr, rp ++ t ≠ [[]] := by
    intro t hc
    obtain ⟨a, r, rfl⟩ := List.exists_cons_of_ne_nil hne
    simp only [List.cons_append, List.cons.injEq] at hc
    exact hp a List.mem_cons_self hc.1
  have hlast : (rp ++ ro).getLast? = ro.getLast? := by
    rw [List.getLast?_append]
    cases h : ro.getLast? with
    | none => exact absurd (List.getLast?_eq_none_iff.1 h) hro
    | some x => rfl
  unfold trimLabels at hlo ⊢
  rw [hlast]
  by_cases hl : ro.getLast? = some []
  · simp only [hl, ↓reduceIte] at hlo ⊢
    rw [List.dropLast_append_of_ne_nil hro]
    simp only [hx, ↓reduceIte]
    split at hlo
    · exact absurd rfl hlo
    · rename_i h; rw [if_neg h]
  · simp only [hl, ↓reduceIte] at hlo ⊢
    simp only [hx, ↓reduceIte]
    split at hlo
    · exact absurd rfl hlo
    · rename_i h; rw [if_neg h]

theorem splitRaw_ne_nil (v : Bool) (n : BStr) (ls : List BStr) (h : splitRaw v n = .ok ls) : ls ≠ [] := by
  obtain ⟨s, _, _, h3⟩ := (splitRaw_ok_iff _ _ _).1 h
  simp [h3]

theorem unescape_of_split (v : Bool) (n : BStr) (ls : List BStr) (h : splitDnsName v n true = .ok ls) :
    unescape n = .ok ls ∧ wireLabels ls = true := by
  have h' := splitDnsName_mono v true n ls h
  unfold splitDnsName at h'
  unfold unescape
  cases hr : splitRaw false n with
  | error e => simp [hr] at h'
  | ok r =>
    simp only [hr, ↓reduceIte] at h' ⊢
    split at h'
    · rename_i hok
      cases h'
      refine ⟨rfl, ?_⟩
      simp only [labelsOk, Bool.and_eq_true] at hok
      exact hok.1
    · cases h'

/-- labels of `p ++ "." ++ m` when `p` is accepted as the text in front of a pointer -/
theorem unescape_tail (v : Bool) (p m : BStr) (lp lm : List BStr)
    (hp : splitDnsName v p false = .ok lp) (hm : unescape m = .ok lm) (hlm : lm ≠ []) :
    unescape (p ++ dot :: m) = .ok (lp ++ lm) ∧ wireLabels lp = true ∧ lp ≠ [] := by
  have hp' := splitDnsName_mono v false p lp hp
  unfold splitDnsName at hp'
  unfold unescape at hm ⊢
  cases hrp : splitRaw false p with
  | error e => simp [hrp] at hp'
  | ok rp' =>
    simp only [hrp, Bool.false_eq_true, ↓reduceIte] at hp'
    split at hp'
    · rename_i hok
      have hrl : rp' = lp := by injection hp'
      rw [hrl] at hrp hok
      cases hrm : splitRaw false m with
      | error e => simp [hrm] at hm
      | ok rm =>
        simp only [hrm, Except.ok.injEq] at hm
        subst hm
        rw [splitRaw_append_dot p m lp rm hrp hrm]
        have hne := splitRaw_ne_nil _ _ _ hrp
        refine ⟨?_, ?_, hne⟩
        · simp only [trimLabels_append lp rm (labelsOk_nonempty lp hok) hne (splitRaw_ne_nil _ _ _ hrm) hlm]
        · simp only [labelsOk, Bool.and_eq_true] at hok
          exact hok.1
    · cases hp'

/-! ## the offset-list invariant -/

/-- every stored `(name, idx)`: `idx` fits into 14 bits and the message decodes at `idx` to the
    (non-empty) labels of `name` -/
def NInv (names : List NameOff) (out : BStr) : Prop :=
  ∀ o ∈ names, o.idx < 0x4000 ∧ ∃ ls e, ls ≠ [] ∧ unescape o.name = .ok ls ∧ wireLabels ls = true ∧
    Decodes out o.idx o.idx ls e

theorem NInv.nil (out : BStr) : NInv [] out := by intro o ho; cases ho

theorem NInv.append {names : List NameOff} {out : BStr} (more : BStr) (h : NInv names out) :
    NInv names (out ++ more) := by
  intro o ho
  obtain ⟨h1, ls, e, h2, h3, h4, h5⟩ := h o ho
  exact ⟨h1, ls, e, h2, h3, h4, h5.append more⟩

/-- what one successful `ares_dns_name_write` establishes: the appended bytes decode (at the position
    where they start) to the labels of the name, and the 14-bit mask dropped nothing -/
def NameSpec (out : BStr) (name : BStr) (o : NameOut) : Prop :=
  ∃ ls, unescape name = .ok ls ∧ wireLabels ls = true ∧
    Decodes (out ++ o.bytes) out.length out.length ls (out.length + o.bytes.length) ∧ o.trunc = false

theorem remember_spec (out bytes : BStr) (names names' : List NameOff) (name : BStr) (nameLen : Nat)
    (lsw ls : List BStr) (hinv : NInv names out)
    (hr : remember out.length names name nameLen lsw = .ok names')
    (hne : lsw ≠ [] → ls ≠ []) (hu : unescape name = .ok ls) (hw : wireLabels ls = true) (e : Nat)
    (hd : Decodes (out ++ bytes) out.length out.length ls e) : NInv names' (out ++ bytes) := by
  unfold remember at hr
  split at hr
  · rename_i hc
    split at hr
    · cases hr
    · cases hr
      simp only [Bool.and_eq_true, decide_eq_true_eq, Bool.not_eq_true', List.isEmpty_eq_false_iff] at hc
      intro o ho
      rcases List.mem_append.1 ho with ho | ho
      · exact (hinv.append bytes) o ho
      · simp only [List.mem_singleton] at ho
        subst ho
        exact ⟨by simp only; omega, ls, e, hne hc.1.2, hu, hw, hd⟩
  · cases hr
    exact hinv.append bytes

theorem ptrBytes_length (o : NameOff) : (ptrBytes o).1.length = 2 := rfl

/-- **offset-list invariant**: `ares_dns_name_write` keeps it, and what it appends denotes the name -/
theorem nameWrite_spec (out : BStr) (names : List NameOff) (useList v : Bool) (name : BStr) (o : NameOut)
    (hinv : NInv names out) (h : nameWrite out.length names useList v name = .ok o) :
    NameSpec out name o ∧ NInv o.names (out ++ o.bytes) := by
  unfold nameWrite at h
  split at h
  · cases h
  · split at h
    · -- no earlier name usable: all labels, terminator
      unfold nameWriteFull at h
      cases hs : splitDnsName v name true with
      | error e => simp [hs] at h
      | ok ls =>
        obtain ⟨hu, hw⟩ := unescape_of_split v name ls hs
        have hdec : Decodes (out ++ (encodeLabels ls ++ [0])) out.length out.length ls
            (out.length + (encodeLabels ls ++ [0]).length) := by
          have h0 := decodes_root (out ++ encodeLabels ls) [] out.length
          have h1 := decodes_encodeLabels ls hw out ([0] ++ []) out.length [] _
            (by simpa [List.append_assoc] using h0)
          simpa [List.append_assoc, Nat.add_assoc] using h1
        simp only [hs] at h
        split at h
        · cases hrem : remember out.length names name name.length ls with
          | error e => simp [hrem] at h
          | ok names' =>
            simp only [hrem, Except.ok.injEq] at h
            subst h
            exact ⟨⟨ls, hu, hw, hdec, rfl⟩,
              remember_spec out _ names names' name name.length ls ls hinv hrem id hu hw _ hdec⟩
        · simp only [Except.ok.injEq] at h
          subst h
          exact ⟨⟨ls, hu, hw, hdec, rfl⟩, hinv.append _⟩
    · rename_i o' hoff
      have hfind : findOff names name = some o' := by
        split at hoff
        · exact hoff
        · cases hoff
      obtain ⟨hmem, htail⟩ := findOff_spec names name o' hfind
      obtain ⟨h14, ls', e', hne', hu', hw', hd'⟩ := hinv o' hmem
      have hlt : o'.idx < out.length := hd'.pos_lt
      split at h
      · -- exact match: pointer only
        rename_i hlen
        simp only [Except.ok.injEq] at h
        subst h
        have hname : name = o'.name := by
          have := htail.2.1
          rw [hlen] at this
          simpa using this
        refine ⟨⟨ls', by rw [hname]; exact hu', hw', ?_, ?_⟩, hinv.append _⟩
        · have := decodes_pointer out [] o'.idx out.length e' ls' h14 hlt
            (by simpa using hd'.append (be16 (0xC000 + o'.idx % 0x4000)))
          simpa [nameWriteExact, ptrBytes, be16] using this
        · simp only [nameWriteExact, ptrBytes, decide_eq_false_iff_not]; omega
      · -- proper tail: labels in front, then pointer
        rename_i hlen
        unfold nameWriteTail at h
        dsimp only at h
        cases hs : splitDnsName v (name.take (name.length - (o'.name.length + 1))) false with
        | error e => simp [hs] at h
        | ok lp =>
          have hsplit := htail.split hlen
          obtain ⟨hu, hwp, hnep⟩ := unescape_tail v _ o'.name lp ls' hs hu' hne'
          rw [← hsplit] at hu
          have hw : wireLabels (lp ++ ls') = true := by
            simp only [wireLabels, List.all_append, Bool.and_eq_true] at hwp hw' ⊢
            exact ⟨hwp, hw'⟩
          have hdec : Decodes (out ++ (encodeLabels lp ++ (ptrBytes o').1)) out.length out.length (lp ++ ls')
              (out.length + (encodeLabels lp ++ (ptrBytes o').1).length) := by
            have hp := decodes_pointer (out ++ encodeLabels lp) [] o'.idx out.length e' ls' h14 hlt
              (by simpa [List.append_assoc] using hd'.append (encodeLabels lp ++ be16 (0xC000 + o'.idx % 0x4000)))
            have h1 := decodes_encodeLabels lp hwp out ((ptrBytes o').1 ++ []) out.length ls' _
              (by simpa [List.append_assoc, ptrBytes] using hp)
            simpa [List.append_assoc, Nat.add_assoc, ptrBytes_length] using h1
          simp only [hs] at h
          cases hrem : remember out.length names name (name.length - (o'.name.length + 1)) lp with
          | error e => simp [hrem] at h
          | ok names' =>
            simp only [hrem, Except.ok.injEq] at h
            subst h
            refine ⟨⟨lp ++ ls', hu, hw, hdec, ?_⟩,
              remember_spec out _ names names' name _ lp (lp ++ ls') hinv hrem (fun _ => by simp [hnep]) hu hw _ hdec⟩
            simp only [ptrBytes, decide_eq_false_iff_not]; omega

end Cares.Dns.NameW
