import CaresLemmas.ChanWfClient
import CaresLemmas.ChanWfContract
/-!
# C01 — body lemmas I: `userCb`, `callback`, `endQuery`, `cancelLoop`

Each lemma has the shape `GoOk go → Pre d s call → Good d call s (bodyXxx go … s)`.
-/
namespace Cares.Chan

theorem Wf.of_sk_eq {s s' : St} (h : s'.sk = s.sk) (hw : Wf s) : Wf s' := by
  unfold Wf; rw [h]; exact hw

theorem query?_of_idx {s : St} {hole} {k : Nat} (hw : WfS s.sk hole) (hk : k ∈ s.sk.idx) :
    ∃ q, s.query? k = some q ∧ s.sk.q? k = some q.sk := by
  obtain ⟨e, he⟩ := hw.live_of_idx hk
  rw [sk_q?] at he
  cases hq : s.query? k with
  | none => rw [hq] at he; cases he
  | some q => exact ⟨q, rfl, by rw [sk_q?, hq]; rfl⟩

/-- a linked key is below the allocation counter -/
theorem key_lt_of_idx {a : Sk} {hole} {k : Nat} (hw : WfS a hole) (hk : k ∈ a.idx) : k < a.nextKey := by
  obtain ⟨e, he⟩ := hw.live_of_idx hk
  exact hw.q.lt k (Sk.q?_mem_proj he).2.2.2

/-- the callback of a compound request's sub-request is an exception of `orphan` only for a compound request
    that has a sub-request in the first place -/
theorem StepS.drop_xi {xf xt d} {a b : Sk} {id : Nat} (h : StepT xf (some id) xt d a b) (hno : ¬ a.NoSub id) :
    StepT xf none xt d a b where
  faults := h.faults
  kMono := h.kMono
  keyMono := h.keyMono
  idxNew := h.idxNew
  unl := h.unl
  debtAlive := h.debtAlive
  prog := h.prog
  orphan := fun i hi _ hn => by
    by_cases he : i = id
    · exact absurd (he ▸ hn) hno
    · exact h.orphan i hi (fun hh => he (Option.some.inj hh)) hn

def ownerId : Owner → Option Nat
  | .client id => some id
  | _ => none

theorem exId_callback (o : Owner) (r st t rec) : exId (.callback o r st t rec) = ownerId o := by
  cases o <;> rfl

theorem post_callback_user {s : St} {r : St × Ret} {o : Owner} {react st t rec}
    (h : Post s r (.callback o react st t rec)) : ∀ tok, o = .user tok → tok ∈ r.1.sk.doneToks := by
  intro tok ho; subst ho; exact h

/-- a step made on behalf of the owner of a linked query `k`, after which the owner's callback has been made, is
    an ordinary step -/
theorem StepS.drop_owner {xf d} {a b : Sk} {hole} {k : Nat} {e : QSk} (_hw : WfS a hole) (hq : a.q? k = some e)
    (hk : k ∈ a.idx) (h : StepT xf (ownerId e.owner) (ownerTok e.owner) d a b)
    (hdone : ∀ tok, e.owner = .user tok → tok ∈ b.doneToks) : StepS xf none d a b := by
  cases ho : e.owner with
  | client id =>
    rw [ho] at h
    refine StepS.drop_xi h (fun hn => ?_)
    exact hn (k, e.owner) (Sk.q?_mem_proj hq).2.1 hk ho
  | probe => rw [ho] at h; exact h
  | user tok =>
    rw [ho] at h
    have hp := h.prog
    exact ⟨h.faults, h.kMono, h.keyMono, h.idxNew, h.unl, h.orphan, h.debtAlive,
      ⟨hp.doneMono, hp.lcRel, hp.allNew, hp.keysLt, hp.ownKeep, fun hl p hpm hpi hn tok' ho' => by
        rcases hp.done6 hl p hpm hpi hn tok' ho' with h' | h'
        · exact Or.inl h'
        · have : tok' = tok := Option.some.inj h'
          exact Or.inl (this ▸ hdone tok ho)⟩⟩

theorem sk_userCallback' (s : St) (tok : Nat) (st : Status) (t : Nat) (dg : String) :
    (s.userCallback tok st t dg).sk = s.sk.userCb tok := sk_userCallback s tok st t dg

/-! ### `userCb` -/

theorem good_userCb {go} (hgo : GoOk go) {d tok react st timeouts dg s}
    (hpre : Pre d s (.userCb tok react st timeouts dg)) :
    GoodO d (.userCb tok react st timeouts dg) s (bodyUserCb go tok react st timeouts dg s) := by
  obtain ⟨hw, ⟨x, hd, hx⟩, hp, hq, hc⟩ := hpre
  have hsk := sk_userCallback' s tok st timeouts dg
  have hw1 : Wf (s.userCallback tok st timeouts dg) := by
    unfold Wf; rw [hsk]; exact wf_userCb hw hp hq (fun c hcm he => (hc c hcm he).1)
  have hd1 : DebtOk none d (s.userCallback tok st timeouts dg).sk := by rw [hsk]; exact debt_userCb' hw hd hx
  have hs1 : StepS none none d s.sk (s.userCallback tok st timeouts dg).sk := by
    rw [hsk]; exact step_userCb hw (fun c hcm he => (hc c hcm he).2)
  unfold bodyUserCb
  simp only
  have hdone1 : tok ∈ (s.userCallback tok st timeouts dg).sk.doneToks := by
    rw [hsk]; exact List.mem_append.mpr (Or.inr (List.mem_singleton.mpr rfl))
  split
  · exact Or.inr ⟨hw1, hd1, hs1, hdone1⟩
  · rcases hgo.2 d (.reactions react) _ (show Wf _ ∧ DebtOk none d _ from ⟨hw1, hd1⟩) with hoof | hg
    · exact Or.inl hoof
    · exact Or.inr ⟨hg.wf, hg.debt, hs1.trans hg.step, hg.step.prog.doneMono tok hdone1⟩

/-! ### `callback` -/

theorem client_ids (s : St) : s.sk.clients.map (·.id) = s.clients.map (·.id) := by
  unfold St.sk; simp only [List.map_map]; rfl

theorem client?_of_active {s : St} {id : Nat} (hw : Wf s) (h : s.sk.Active id) :
    ∃ c0, s.client? id = some c0 ∧ c0.id = id ∧ c0.sk ∈ s.sk.clients ∧ c0.tok ∈ s.sk.pendingToks ∧
      ∀ x ∈ s.clients, x.id = id → x = c0 := by
  obtain ⟨e, he, hid, hp⟩ := h
  obtain ⟨c1, hc1, rfl⟩ := List.mem_map.mp he
  have hn : (s.clients.map (·.id)).Nodup := by rw [← client_ids]; exact hw.k.nodup
  cases hf : s.client? id with
  | none =>
    have := List.find?_eq_none.mp hf c1 hc1
    simp only [beq_iff_eq] at this
    exact absurd hid this
  | some c0 =>
    have hm := List.mem_of_find?_eq_some hf
    have hi : c0.id = id := by simpa using List.find?_some hf
    have huniq : ∀ x ∈ s.clients, x.id = id → x = c0 := fun x hx hxi =>
      eq_of_nodup_map (·.id) s.clients hn x hx c0 hm (by show x.id = c0.id; omega)
    have : c1 = c0 := huniq c1 hc1 hid
    subst this
    exact ⟨c1, rfl, hi, he, hp, huniq⟩

theorem sk_modClient_set {s : St} {id : Nat} {c0 c' : Client} (hu : ∀ x ∈ s.clients, x.id = id → x = c0)
    (hid : c'.id = c0.id) (htok : c'.tok = c0.tok) (h0 : c0.id = id) :
    (s.modClient id fun _ => c').sk = s.sk.setOut id c'.outstanding := by
  unfold St.modClient St.sk Sk.setOut
  simp only [List.map_map, Sk.mk.injEq, true_and, and_true]
  apply List.map_congr_left
  intro x hx
  simp only [Function.comp]
  by_cases hxi : x.id = id
  · have := hu x hx hxi
    subst this
    have e1 : (x.id == id) = true := by simpa using hxi
    have e2 : (x.sk.id == id) = true := e1
    rw [if_pos e1, if_pos e2]
    unfold Client.sk
    rw [hid, htok]
  · have e1 : (x.id == id) = false := by simpa using hxi
    have e2 : (x.sk.id == id) = false := e1
    simp only [e1, e2, Bool.false_eq_true, ↓reduceIte]

theorem good_callback {go} (hgo : GoOk go) {d owner react st timeouts rec s}
    (hpre : Pre d s (.callback owner react st timeouts rec)) :
    GoodO d (.callback owner react st timeouts rec) s (bodyCallback go owner react st timeouts rec s) := by
  obtain ⟨hw, hof, hdf⟩ := hpre
  unfold bodyCallback
  cases owner with
  | probe pid =>
    -- `server_probe_cb` only resets `probe_pending`, which the skeleton does not see
    have hsk : (s.modServer pid fun v => { v with probePending := false }).sk = s.sk := by
      rw [sk_modServer_same]; intro; rfl
    exact Or.inr ⟨Wf.of_sk_eq hsk hw, by rw [hsk]; exact hdf, by rw [hsk]; exact StepS.refl _ _ _ _, trivial⟩
  | user tok =>
    obtain ⟨h1, h2, h3⟩ := hof
    rcases hgo.2 d (.userCb tok react st timeouts (digest rec)) s
      ⟨hw, ⟨none, hdf, fun _ _ he => by cases he⟩, h1, h2, fun c hc he => absurd he (h3 c hc)⟩ with hoof | hg
    · exact Or.inl hoof
    · exact Or.inr ⟨hg.wf, hg.debt, hg.step, hg.post⟩
  | client id =>
    obtain ⟨c0, hc0, hid0, hm0, hp0, hu0⟩ := client?_of_active hw hof
    simp only [hc0]
    have hd1 : DebtOk none (bump d id 1) s.sk := hdf
    have hcnt := hd1.cnt c0.sk hm0 hp0 (fun hh => by cases hh)
    have hcid : c0.sk.id = id := hid0
    rw [hcid, bump_self] at hcnt
    have hout : c0.outstanding = s.sk.subs id + d id + 1 := by
      have : c0.sk.out = c0.outstanding := rfl
      omega
    have hk := clientOnCb_ok s.cfg c0 st timeouts rec (by omega)
    generalize clientOnCb s.cfg c0 st timeouts rec = r at hk
    obtain ⟨c', acts⟩ := r
    obtain ⟨k1, k2, k3⟩ := hk
    simp only at k1 k2 k3 ⊢
    have hsk := sk_modClient_set (c' := c') hu0 k1 k2 hid0
    have hw1 : Wf (s.modClient id fun _ => c') := by unfold Wf; rw [hsk]; exact wf_setOut hw
    have hlt : id < s.sk.nextClient := by have := hw.k.lt c0.sk hm0; omega
    have hfresh : ∀ n i, s.sk.nextClient ≤ i → bump d id n i = 0 := by
      intro n i hi
      rw [bump_ne _ _ (by omega)]
      have := hd1.fresh i hi
      rw [bump_ne _ _ (by omega)] at this; exact this
    have hfresh0 : ∀ i, s.sk.nextClient ≤ i → d i = 0 := by
      intro i hi; have := hfresh 0 i hi; rwa [bump_zero] at this
    have hpre1 : Pre d (s.modClient id fun _ => c') (.runActs id acts) := by
      refine ⟨hw1, ?_⟩
      rw [hsk]
      split
      · rename_i hf
        rw [if_pos hf] at k3
        have hs0 : s.sk.subs id = 0 ∧ d id = 0 := by omega
        refine ⟨active_setOut.mpr hof, k3.1, subsP_eq_zero.mp hs0.1, hs0.2, ?_⟩
        refine debt_setOut hd1 hfresh0 (fun i hi => (bump_ne _ _ hi).symm) (fun hx => absurd rfl hx)
      · rename_i hf
        rw [if_neg hf] at k3
        refine ⟨?_, fun _ => active_setOut.mpr hof⟩
        refine debt_setOut hd1 (hfresh _) (fun i hi => by rw [bump_ne _ _ hi, bump_ne _ _ hi]) ?_
        intro _ c hc hci hp
        rw [bump_self]
        show c'.outstanding = _
        have : (Sk.subs s.sk id) = s.sk.subs id := rfl
        omega
    rcases hgo.2 d (.runActs id acts) _ hpre1 with hoof | hg
    · exact Or.inl hoof
    refine Or.inr ⟨hg.wf, hg.debt, ?_, trivial⟩
    have hs1 : StepS none (some id) d s.sk (s.modClient id fun _ => c').sk := by rw [hsk]; exact step_setOut
    exact hs1.trans hg.step

/-! ### `endQuery` -/

/-- state handed to the callback by `end_query` -/
def endQueryPre (s : St) (srv : Option Nat) (key : Nat) (st : Status) (rec : Option Reply) (q : Query) : St :=
  ((match srv with
    | some id => s.modServer id fun v => { v with probePending := false }
    | none => s).metricsRecord q srv st rec).detach key

theorem bodyEndQuery_eq (go) (srv : Option Nat) (key : Nat) (st : Status) (rec : Option Reply) (s : St) (q : Query)
    (hq : s.query? key = some q) :
    bodyEndQuery go srv key st rec s =
      ((go (.callback q.owner q.react st q.timeouts rec) (endQueryPre s srv key st rec q)).1.freeQuery key, .ok) := by
  unfold bodyEndQuery endQueryPre
  simp only [hq]
  rfl

theorem sk_endQueryPre (s : St) (srv : Option Nat) (key : Nat) (st : Status) (rec : Option Reply) (q : Query) :
    (endQueryPre s srv key st rec q).sk = s.sk.detach key := by
  unfold endQueryPre
  rw [sk_detach, sk_metricsRecord]
  cases srv with
  | none => rfl
  | some id => simp only; rw [sk_modServer_same]; intro; rfl

theorem good_endQuery {go} (hgo : GoOk go) {d srv key st rec s} (hpre : Pre d s (.endQuery srv key st rec)) :
    GoodO d (.endQuery srv key st rec) s (bodyEndQuery go srv key st rec s) := by
  obtain ⟨hw, hk, hd⟩ := hpre
  obtain ⟨q, hq, hqs⟩ := query?_of_idx hw hk
  rw [bodyEndQuery_eq go srv key st rec s q hq]
  have hsk3 := sk_endQueryPre s srv key st rec q
  generalize endQueryPre s srv key st rec q = s3 at hsk3
  have hw3 : Wf s3 := by unfold Wf; rw [hsk3]; exact wf_detach hw (Or.inr rfl) hqs
  obtain ⟨hof, hdf⟩ := owner_detach hw hqs hk hd
  have hg := hgo.2 d (.callback q.owner q.react st q.timeouts rec) s3 ⟨hw3, by rw [hsk3]; exact hof, by rw [hsk3]; exact hdf⟩
  generalize go (.callback q.owner q.react st q.timeouts rec) s3 = r at hg
  obtain ⟨s4, ret⟩ := r
  rcases hg with hoof | hg
  · exact Or.inl (by simpa using hoof)
  right
  have hnk : key ∉ s4.sk.idx := by
    intro hin
    rcases hg.step.idxNew key hin with h | h
    · rw [hsk3] at h; exact not_idx_detach hw hqs h
    · rw [hsk3] at h
      have : (s.sk.detach key).nextKey = s.sk.nextKey := (detach_same hqs).2.2.2.2.2.2.2.1
      have := key_lt_of_idx hw hk
      omega
  refine ⟨?_, ?_, ?_, trivial⟩
  · show Wf (s4.freeQuery key)
    unfold Wf; rw [sk_freeQuery]; exact wf_freeQuery hg.wf
  · show DebtOk none d (s4.freeQuery key).sk
    rw [sk_freeQuery]; exact debt_freeQuery_unlinked hg.wf hnk hg.debt
  · show StepS none none d s.sk (s4.freeQuery key).sk
    rw [sk_freeQuery]
    have hs := hg.step
    rw [exId_callback, hsk3] at hs
    have h03 : StepT none (ownerId q.sk.owner) (ownerTok q.sk.owner) d s.sk s4.sk :=
      (step_detach hw hqs).trans hs.toT
    have h04 : StepS none none d s.sk s4.sk := StepS.drop_owner hw hqs hk h03 (post_callback_user hg.post)
    have h45 : StepS none none d s4.sk (s4.sk.freeQuery key) := by
      have := step_freeQuery (xf := none) (xi := none) (d := d) (k := key) hg.wf
      -- the query is no longer linked, so no callback is in flight
      refine ⟨this.faults, this.kMono, this.keyMono, this.idxNew, this.unl, this.orphan, this.debtAlive, ?_⟩
      have hp := this.prog
      exact ⟨hp.doneMono, hp.lcRel, hp.allNew, hp.keysLt, hp.ownKeep,
        fun _ p _ hpi hn => absurd hpi (fun hpi' => by
          -- a key that leaves the table by releasing `key` is `key`, which is not in the table
          by_cases he : p.1 = key
          · exact hnk (he ▸ hpi')
          · apply hn
            rw [Sk.freeQuery_eq]
            show p.1 ∈ ((s4.sk.detach key).dropQ key).idx
            cases hq4 : s4.sk.q? key with
            | none => rw [detach_none hq4]; exact hpi'
            | some e4 => exact (mem_idx_detach hg.wf hq4).mpr ⟨hpi', he⟩)⟩
    exact h04.trans h45

/-! ### `cancelLoop` -/

theorem bodyCancelLoop_none (go) (st : Status) (fromAll : Bool) (s : St) (h : cancelHead s fromAll = none) :
    bodyCancelLoop go st fromAll s = (s, .ok) := by
  unfold bodyCancelLoop; unfold cancelHead at h; simp only [h]

theorem bodyCancelLoop_some (go) (st : Status) (fromAll : Bool) (s : St) (key : Nat) (q : Query)
    (h : cancelHead s fromAll = some key) (hq : s.query? key = some q) :
    bodyCancelLoop go st fromAll s =
      go (.cancelLoop st fromAll) (go (.callback q.owner q.react st 0 none) (s.freeQuery key)).1 := by
  unfold bodyCancelLoop; unfold cancelHead at h; simp only [h, hq]

theorem cancelHead_idx {s : St} {fromAll : Bool} {key : Nat} (hw : Wf s) (h : cancelHead s fromAll = some key) :
    key ∈ s.sk.idx := by
  unfold cancelHead at h
  cases fromAll with
  | true =>
    simp only [↓reduceIte] at h
    exact hw.i.allIdx key (List.mem_of_mem_head? h)
  | false =>
    simp only [Bool.false_eq_true, ↓reduceIte] at h
    cases hl : s.listCopy.head? with
    | none => rw [hl] at h; cases h
    | some l =>
      rw [hl] at h
      exact (hw.i.lcOk l (List.mem_of_mem_head? hl)).2 key (List.mem_of_mem_head? h)

theorem good_cancelLoop {go} (hgo : GoOk go) {d st fromAll s} (hpre : Pre d s (.cancelLoop st fromAll)) :
    GoodO d (.cancelLoop st fromAll) s (bodyCancelLoop go st fromAll s) := by
  obtain ⟨hw, hd⟩ := hpre
  cases hh : cancelHead s fromAll with
  | none =>
    rw [bodyCancelLoop_none go st fromAll s hh]
    exact Or.inr ⟨hw, hd, StepS.refl _ _ _ _, hh⟩
  | some key =>
    have hk := cancelHead_idx hw hh
    obtain ⟨q, hq, hqs⟩ := query?_of_idx hw hk
    rw [bodyCancelLoop_some go st fromAll s key q hh hq]
    have hsk1 := sk_freeQuery s key
    generalize s.freeQuery key = s1 at hsk1
    have hw1 : Wf s1 := by unfold Wf; rw [hsk1]; exact wf_freeQuery hw
    obtain ⟨hof, hdf⟩ := owner_freeQuery hw hqs hk hd
    have hg := hgo.2 d (.callback q.owner q.react st 0 none) s1
      ⟨hw1, by rw [hsk1]; exact hof, by rw [hsk1]; exact hdf⟩
    generalize go (.callback q.owner q.react st 0 none) s1 = r at hg
    obtain ⟨s2, ret⟩ := r
    rcases hg with hoof | hg
    · exact Or.inl (hgo.1 _ _ hoof)
    rcases hgo.2 d (.cancelLoop st fromAll) s2 ⟨hg.wf, hg.debt⟩ with hoof2 | hg2
    · exact Or.inl hoof2
    refine Or.inr ⟨hg2.wf, hg2.debt, ?_, hg2.post⟩
    have hs := hg.step
    rw [exId_callback, hsk1] at hs
    have hft : freeTok s.sk key = ownerTok q.sk.owner := by unfold freeTok; rw [hqs]
    have h01 : StepT none (ownerId q.sk.owner) (ownerTok q.sk.owner) d s.sk (s.sk.freeQuery key) := by
      have := step_freeQuery (xf := none) (xi := ownerId q.sk.owner) (d := d) (k := key) hw
      rwa [hft] at this
    have h02 : StepT none (ownerId q.sk.owner) (ownerTok q.sk.owner) d s.sk s2.sk := h01.trans hs.toT
    exact (StepS.drop_owner hw hqs hk h02 (post_callback_user hg.post)).trans hg2.step

end Cares.Chan
