import CaresLemmas.DnsName
import CaresLemmas.WriteDecode
/-!
# Bridge: what the parser model (`Cares.Dns.parseName`, C02/C04 slice) reads where the writer's bytes
`Decode`

`parseName_of_decodes`: if a message decodes at `pos` to the labels `ls` (the writer-side relation, proved for
every name the writer emits), then `ares_dns_name_parse` of the parser model, started at `pos`, succeeds,
returns the canonical presentation text `escapeName ls`, and leaves the cursor behind the name.
-/
namespace Cares.Dns.NameW
open Cares.Dns

/-! ## the hand-written character classes are the regenerated tables -/

theorem escapeByte_eq_parser (c : UInt8) : Cares.Dns.escapeByte c = escapeByte c := by
  have h : ∀ n, n < 256 → Cares.Dns.escapeByte (UInt8.ofNat n) = escapeByte (UInt8.ofNat n) := by
    decide +kernel
  have := h c.toNat c.toNat_lt
  rwa [UInt8.ofNat_toNat] at this

theorem escapeLabel_eq_parser (l : BStr) : Cares.Dns.escapeLabel l = escapeLabel l := by
  unfold Cares.Dns.escapeLabel escapeLabel
  induction l with
  | nil => rfl
  | cons c r ih => simp [List.flatMap_cons, escapeByte_eq_parser, ih]

theorem isHostnameCh_eq_generated (c : UInt8) : isHostnameCh c = Cares.Generated.isHostnameCh c.toNat := by
  have h : ∀ n, n < 256 → isHostnameCh (UInt8.ofNat n) = Cares.Generated.isHostnameCh (UInt8.ofNat n).toNat := by
    decide +kernel
  have := h c.toNat c.toNat_lt
  rwa [UInt8.ofNat_toNat] at this

theorem and_c0_label (c : UInt8) (h : c.toNat < 64) : c &&& 0xC0 = 0 := by
  have h' : ∀ n, n < 256 → n < 64 → (UInt8.ofNat n) &&& 0xC0 = 0 := by decide +kernel
  have := h' c.toNat c.toNat_lt h
  rwa [UInt8.ofNat_toNat] at this

theorem and_c0_ptr (c : UInt8) (h : 192 ≤ c.toNat) : c &&& 0xC0 = 0xC0 := by
  have h' : ∀ n, n < 256 → 192 ≤ n → (UInt8.ofNat n) &&& 0xC0 = 0xC0 := by decide +kernel
  have := h' c.toNat c.toNat_lt h
  rwa [UInt8.ofNat_toNat] at this

theorem ptrOffset_eq (c d : UInt8) : ptrOffset c d = ptrOff c d := by
  unfold ptrOffset ptrOff
  have h1 : c.toNat &&& 0x3F = c.toNat % 64 := Nat.and_two_pow_sub_one_eq_mod c.toNat 6
  rw [h1, ← Nat.shiftLeft_add_eq_or_of_lt (i := 8) (by simpa using d.toNat_lt), Nat.shiftLeft_eq]

/-! ## list view of the parser's byte array -/

theorem toArray_getElem (msg : BStr) (i : Nat) (h : i < msg.toArray.size) (c : UInt8)
    (hc : msg[i]? = some c) : msg.toArray[i] = c := by
  have := List.getElem?_eq_some_iff.1 hc
  simp [this.2]

theorem slice_toArray (msg : BStr) (off len : Nat) : slice msg.toArray off len = (msg.drop off).take len := by
  unfold slice
  rw [Array.toList_extract, List.extract_eq_take_drop]
  simp

/-! ## the accumulator of `ares_dns_name_parse` -/

/-- the output buffer after the labels `ls` were appended to `acc` (a dot in front of every label
    but the first of the whole name) -/
def joinOnto (acc : BStr) : List BStr → BStr
  | [] => acc
  | l :: rest => joinOnto ((if acc.length ≠ 0 then acc ++ [dot] else acc) ++ escapeLabel l) rest

theorem joinOnto_nonempty (acc : BStr) (hacc : acc ≠ []) (ls : List BStr) :
    joinOnto acc ls = acc ++ (ls.map fun l => dot :: escapeLabel l).flatten := by
  induction ls generalizing acc with
  | nil => simp [joinOnto]
  | cons l r ih =>
    have : acc.length ≠ 0 := by simpa using hacc
    simp only [joinOnto, this, ne_eq, not_false_eq_true, ↓reduceIte]
    rw [ih _ (by simp [hacc])]
    simp [List.append_assoc]

theorem escapeLabel_ne_nil (l : BStr) (h : l ≠ []) : escapeLabel l ≠ [] := by
  obtain ⟨c, r, rfl⟩ := List.exists_cons_of_ne_nil h
  simp only [escapeLabel, List.map_cons, List.flatten_cons, ne_eq, List.append_eq_nil_iff, not_and]
  intro hc
  exfalso
  unfold escapeByte at hc
  split at hc
  · cases hc
  · split at hc <;> cases hc

theorem escapeName_cons (l : BStr) (r : List BStr) :
    escapeName (l :: r) = escapeLabel l ++ (r.map fun x => dot :: escapeLabel x).flatten := by
  induction r generalizing l with
  | nil => simp [escapeName]
  | cons l2 r ih => simp [escapeName, ih]

/-- started with an empty buffer the loop produces the canonical text -/
theorem joinOnto_nil (ls : List BStr) (h : ∀ l ∈ ls, l ≠ []) : joinOnto [] ls = escapeName ls := by
  cases ls with
  | nil => rfl
  | cons l r =>
    simp only [joinOnto, List.length_nil, ne_eq, not_true_eq_false, ↓reduceIte, List.nil_append]
    rw [joinOnto_nonempty _ (escapeLabel_ne_nil l (h l List.mem_cons_self)), escapeName_cons]

/-! ## the decompression loop on a name that `Decodes` -/

theorem Decodes.labels_nonempty {msg : BStr} {lo pos e : Nat} {ls : List BStr} (h : Decodes msg lo pos ls e) :
    ∀ l ∈ ls, l ≠ [] := by
  induction h with
  | root _ => intro l hl; cases hl
  | label _ h0 _ _ hlen _ ih =>
    intro l hl
    rcases List.mem_cons.1 hl with rfl | hl
    · intro hc; rw [hc] at hlen; simp at hlen; omega
    · exact ih l hl
  | ptr _ _ _ _ _ ih => exact ih

theorem lsNext_le {ls pos lo : Nat} (h1 : lo ≤ ls) (h2 : lo ≤ pos) : lo ≤ lsNext ls pos := by
  unfold lsNext; split <;> omega

theorem nameLoop_of_decodes {msg : BStr} {lo pos e : Nat} {ls : List BStr} (h : Decodes msg lo pos ls e) :
    ∀ (lsC save : Nat) (acc : BStr) (iters : Nat) (jumps : List (Nat × Nat × Nat)),
      lo ≤ lsC → lo ≤ pos →
      (nameLoop msg.toArray false pos lsC save acc iters jumps).out =
        .ok (joinOnto acc ls) (if save ≠ 0 then save else e) := by
  induction h with
  | @root lo pos h =>
    intro lsC save acc iters jumps _ _
    have hp : pos < msg.toArray.size := by simpa using (List.getElem?_eq_some_iff.1 h).1
    rw [nameLoop_end hp (toArray_getElem msg pos hp 0 h)]
    rfl
  | @label lo pos e c lab rest h h0 h63 hl hlen _ ih =>
    intro lsC save acc iters jumps hls hpos
    have hp : pos < msg.toArray.size := by simpa using (List.getElem?_eq_some_iff.1 h).1
    have hc : msg.toArray[pos] = c := toArray_getElem msg pos hp c h
    have hfit : pos + 1 + c.toNat ≤ msg.length := by
      rw [hl, List.length_take, List.length_drop] at hlen; omega
    rw [nameLoop_label hp (by rw [hc]; intro h0'; rw [h0'] at h0; simp at h0)
      (by rw [hc]; exact and_c0_label c h63) (by rw [hc]; simpa using hfit) (by simp)]
    rw [hc, ih _ _ _ _ _ (lsNext_le hls hpos) (by omega)]
    simp only [joinOnto, slice_toArray, ← hl, escapeLabel_eq_parser]
    rfl
  | @ptr lo pos e' c d ls h hc hd hlt _ ih =>
    intro lsC save acc iters jumps hls hpos
    have hp1 : pos + 1 < msg.toArray.size := by simpa using (List.getElem?_eq_some_iff.1 hd).1
    have hp : pos < msg.toArray.size := by omega
    have hcc : msg.toArray[pos] = c := toArray_getElem msg pos hp c h
    have hdd : msg.toArray[pos + 1] = d := toArray_getElem msg (pos + 1) hp1 d hd
    have hback : ptrOffset msg.toArray[pos] msg.toArray[pos + 1] < lsNext lsC pos := by
      rw [hcc, hdd, ptrOffset_eq]
      exact Nat.lt_of_lt_of_le hlt (lsNext_le hls hpos)
    rw [nameLoop_ptr hp1 (by rw [hcc]; exact and_c0_ptr c hc) hback]
    rw [hcc, hdd, ptrOffset_eq] at hback ⊢
    rw [ih _ _ _ _ _ (by omega) (Nat.le_refl _)]
    by_cases hs : save = 0
    · simp [hs]
    · simp [hs]

/-- **bridge**: the parser model reads the canonical text of the labels a name decodes to and continues
    behind the name -/
theorem parseName_of_decodes {msg : BStr} {pos e : Nat} {ls : List BStr} (h : Decodes msg pos pos ls e) :
    parseName msg.toArray false pos = .ok (escapeName ls) e := by
  unfold parseName parseNameRun
  rw [nameLoop_of_decodes h pos 0 [] 0 [] (Nat.le_refl _) (Nat.le_refl _)]
  simp [joinOnto_nil ls h.labels_nonempty]

end Cares.Dns.NameW
