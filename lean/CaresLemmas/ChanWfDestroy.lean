import CaresLemmas.ChanWfSettle
/-!
# C01 — `ares_destroy`

`ares_destroy` is not called by any other procedure, so it is treated outside the induction on fuel: the walk over
`all_queries` (`cancelLoop … true`) and the closing of the connections are sub-calls covered by `GoOk`.
-/
namespace Cares.Chan

/-! ### the servers in slist order are a permutation of the servers -/

theorem perm_insertServer (v : Server) (l : List Server) : (insertServer v l).Perm (v :: l) := by
  induction l with
  | nil => exact List.Perm.refl _
  | cons y r ih =>
    unfold insertServer
    split
    · exact List.Perm.refl _
    · exact ((List.Perm.cons y ih).trans (List.Perm.swap v y r))

theorem perm_foldl_insertServer (l acc : List Server) :
    (l.foldl (fun acc v => insertServer v acc) acc).Perm (l ++ acc) := by
  induction l generalizing acc with
  | nil => exact List.Perm.refl _
  | cons y r ih =>
    refine (ih _).trans ?_
    have h1 : (r ++ insertServer y acc).Perm (r ++ y :: acc) := List.Perm.append_left r (perm_insertServer y acc)
    exact h1.trans List.perm_middle

theorem perm_sortedServers (s : St) : s.sortedServers.Perm s.servers := by
  have := perm_foldl_insertServer s.servers []
  simpa [St.sortedServers] using this

/-! ### the descriptors on the servers' lists -/

def St.listedFds (s : St) : List Nat := (s.sortedServers.map (·.conns)).flatten

theorem mem_listedFds {s : St} {fd : Nat} : fd ∈ s.listedFds ↔ ∃ v ∈ s.servers, fd ∈ v.conns := by
  unfold St.listedFds
  simp only [List.mem_flatten, List.mem_map]
  constructor
  · rintro ⟨l, ⟨v, hv, rfl⟩, hfd⟩
    exact ⟨v, (perm_sortedServers s).mem_iff.mp hv, hfd⟩
  · rintro ⟨v, hv, hfd⟩
    exact ⟨v.conns, ⟨v, (perm_sortedServers s).mem_iff.mpr hv, rfl⟩, hfd⟩

theorem nodup_flatten_conns {a : Sk} (hw : WfS a none) : ∀ (l : List SSk), (∀ v ∈ l, v ∈ a.servers) →
    (l.map (·.id)).Nodup → (l.map (·.conns)).flatten.Nodup
  | [], _, _ => List.nodup_nil
  | v :: r, hm, hn => by
    simp only [List.map_cons, List.flatten_cons, List.nodup_cons] at hn ⊢
    rw [List.nodup_append]
    refine ⟨hw.s.connsNodup v (hm v List.mem_cons_self),
      nodup_flatten_conns hw r (fun w hw' => hm w (List.mem_cons_of_mem _ hw')) hn.2, ?_⟩
    intro x hx y hy hxy
    subst hxy
    obtain ⟨l, hl, hxl⟩ := List.mem_flatten.mp hy
    obtain ⟨w, hwr, rfl⟩ := List.mem_map.mp hl
    obtain ⟨t1, h1⟩ := hw.s.conns v (hm v List.mem_cons_self) x hx
    obtain ⟨t2, h2⟩ := hw.s.conns w (hm w (List.mem_cons_of_mem _ hwr)) x hxl
    obtain ⟨c1, hc1, e1⟩ := mem_cF4.mp h1
    obtain ⟨c2, hc2, e2⟩ := mem_cF4.mp h2
    simp only [Prod.mk.injEq] at e1 e2
    have := hw.conn_unique hc1 hc2 (by rw [← e1.1, ← e2.1])
    subst this
    exact hn.1 (List.mem_map.mpr ⟨w, hwr, by rw [e2.2.2.1, ← e1.2.2.1]⟩)

theorem nodup_listedFds {s : St} (hw : Wf s) : s.listedFds.Nodup := by
  have hp : (s.sortedServers.map (·.conns)).flatten.Perm (s.servers.map (·.conns)).flatten :=
    ((perm_sortedServers s).map _).flatten
  unfold St.listedFds
  rw [hp.nodup_iff]
  have := nodup_flatten_conns hw s.sk.servers (fun _ h => h) hw.s.nodup
  have e : s.sk.servers.map (·.conns) = s.servers.map (·.conns) := by
    unfold St.sk; simp only [List.map_map]; rfl
  rwa [e] at this

theorem listedFds_linked {s : St} (hw : Wf s) {fd : Nat} (h : fd ∈ s.listedFds) : s.sk.hasConn fd false := by
  obtain ⟨v, hv, hfd⟩ := mem_listedFds.mp h
  obtain ⟨t, ht⟩ := hw.s.conns v.sk (List.mem_map.mpr ⟨v, hv, rfl⟩) fd hfd
  exact hasConn_of_cF4 ht

/-- a connection that has not been unlinked is on a server's list -/
theorem linked_listed {s : St} (hw : Wf s) {fd : Nat} {q : List Nat} (h : (fd, false, q) ∈ s.sk.cFUQ) :
    fd ∈ s.listedFds := by
  obtain ⟨c, hc, he⟩ := mem_cFUQ.mp h
  simp only [Prod.mk.injEq] at he
  obtain ⟨v, hv, _, hfd⟩ := hw.s.linked c.fd c.srv c.tcp (mem_cF4.mpr ⟨c, hc, by rw [← he.2.1]⟩)
  obtain ⟨v0, hv0, rfl⟩ := List.mem_map.mp hv
  exact mem_listedFds.mpr ⟨v0, hv0, by rw [he.1]; exact hfd⟩

/-! ### closing every listed connection when no query is linked -/

def closeAll (go : Call → St → St × Ret) (fds : List Nat) (s : St) : St :=
  fds.foldl (fun s fd => (go (.closeConn fd .ok) s).1) s

theorem good_closeAll {go} (hgo : GoOk go) {d} : ∀ (fds : List Nat) (s : St), fds.Nodup → Wf s →
    DebtOk none d s.sk → s.sk.idx = [] → (∀ fd ∈ fds, s.sk.hasConn fd false) →
    (closeAll go fds s).outOfFuel = true ∨
      (Mid d s (closeAll go fds s) ∧ (closeAll go fds s).sk.idx = [] ∧
        (closeAll go fds s).sk.cFUQ = s.sk.cFUQ.filter (fun x => !fds.contains x.1))
  | [], s, _, hw, hd, hi, _ => Or.inr ⟨Mid.refl hw hd, hi, by
    show s.sk.cFUQ = _
    exact (List.filter_eq_self.mpr (fun _ _ => rfl)).symm⟩
  | fd :: rest, s, hn, hw, hd, hi, hl => by
    have hn' := List.nodup_cons.mp hn
    have e : closeAll go (fd :: rest) s = closeAll go rest (go (.closeConn fd .ok) s).1 := rfl
    rw [e]
    rcases hgo.2 d (.closeConn fd .ok) s ⟨hw, hl fd List.mem_cons_self, hd⟩ with hoof | hg
    · exact Or.inl (oof_foldl_close hgo.1 rest _ hoof)
    · obtain ⟨hc1, hi1⟩ := hg.post hi
      generalize go (.closeConn fd .ok) s = r1 at hg hc1 hi1 ⊢
      obtain ⟨s1, ret1⟩ := r1
      simp only at hc1 hi1 ⊢
      have hl1 : ∀ fd' ∈ rest, s1.sk.hasConn fd' false := by
        intro fd' hfd'
        obtain ⟨q, hq⟩ := hl fd' (List.mem_cons_of_mem _ hfd')
        refine ⟨q, ?_⟩
        rw [hc1]
        refine List.mem_filter.mpr ⟨hq, ?_⟩
        simp only [bne_iff_ne, ne_eq]
        exact fun he => hn'.1 (he ▸ hfd')
      rcases good_closeAll hgo rest s1 hn'.2 hg.wf hg.debt hi1 hl1 with hoof | ⟨hm, hi2, hc2⟩
      · exact Or.inl hoof
      · refine Or.inr ⟨(hg.toMid rfl rfl).trans hm, hi2, ?_⟩
        show (closeAll go rest s1).sk.cFUQ = _
        rw [hc2, hc1, List.filter_filter]
        apply List.filter_congr
        intro x _
        simp only [List.contains_cons, Bool.not_or, bne, Bool.and_comm]

/-- `ares_destroy`, called between API calls (no walk in progress) -/
theorem good_destroy {go} (hgo : GoOk go) {d} {s : St} (hw : Wf s) (hd : DebtOk none d s.sk) (hlc : s.listCopy = []) :
    (bodyDestroy go s).1.outOfFuel = true ∨
      (Mid d s (bodyDestroy go s).1 ∧ (bodyDestroy go s).1.all = [] ∧ (bodyDestroy go s).1.byQid = [] ∧
        (∀ c ∈ (bodyDestroy go s).1.conns, c.unlinked = true) ∧
        (bodyDestroy go s).1.alive = false ∧ (bodyDestroy go s).1.destroyed = true ∧
        ∀ k ∈ s.sk.idx, ∀ tok, (k, Owner.user tok) ∈ s.sk.qKO → tok ∈ (bodyDestroy go s).1.doneToks) := by
  unfold bodyDestroy
  simp only
  have hm1 : Mid d s { s with destroying := true } := Mid.of_sk_eq hw hd rfl
  rcases hgo.2 d (.cancelLoop .destruction true) { s with destroying := true } ⟨hm1.wf, hm1.debt⟩ with hoof | hg
  · left
    exact oof_foldl_close hgo.1 _ _ hoof
  generalize go (.cancelLoop .destruction true) { s with destroying := true } = r2 at hg ⊢
  obtain ⟨s2, ret2⟩ := r2
  simp only at hg ⊢
  have hw2 : Wf s2 := hg.wf
  -- after the walk nothing is linked
  have hall2 : s2.all = [] := by
    have : cancelHead s2 true = none := hg.post
    unfold cancelHead at this
    simp only [↓reduceIte] at this
    cases hs : s2.all with
    | nil => rfl
    | cons x r => rw [hs] at this; cases this
  have hlc2 : s2.listCopy = [] := by
    have := hg.step.prog.lcRel
    change LcSub s2.listCopy s.listCopy at this
    rw [hlc] at this
    exact List.length_eq_zero_iff.mp this.length
  have hidx2 : s2.sk.idx = [] := by
    cases hi : s2.sk.idx with
    | nil => rfl
    | cons k r =>
      exfalso
      have hk : k ∈ s2.sk.idx := by rw [hi]; exact List.mem_cons_self
      rcases hw2.i.nl k hk with h' | ⟨l, hl, _⟩
      · change k ∈ s2.all at h'; rw [hall2] at h'; cases h'
      · change l ∈ s2.listCopy at hl; rw [hlc2] at hl; cases hl
  have hdone2 : ∀ k ∈ s.sk.idx, ∀ tok, (k, Owner.user tok) ∈ s.sk.qKO → tok ∈ s2.doneToks := by
    intro k hk tok hko
    rcases hg.step.prog.done6 (WfS.keysLt hm1.wf) (k, .user tok) hko hk (by rw [hidx2]; simp) tok rfl with h' | h'
    · exact h'
    · cases h'
  -- close the listed connections
  rcases good_closeAll hgo s2.listedFds s2 (nodup_listedFds hw2) hw2 hg.debt hidx2
    (fun fd hfd => listedFds_linked hw2 hfd) with hoof | ⟨hm3, hidx3, hc3⟩
  · exact Or.inl hoof
  have hm2 : Mid d s s2 := hm1.trans (hg.toMid rfl rfl)
  have hm : Mid d s (closeAll go s2.listedFds s2) := hm2.trans hm3
  refine Or.inr ⟨hm.sk_eq rfl, ?_, ?_, ?_, trivial, trivial, ?_⟩
  · -- `all` only holds linked keys
    show (closeAll go s2.listedFds s2).all = []
    cases ha : (closeAll go s2.listedFds s2).all with
    | nil => rfl
    | cons k r =>
      have := hm3.wf.i.allIdx k (by show k ∈ (closeAll go s2.listedFds s2).all; rw [ha]; exact List.mem_cons_self)
      change k ∈ (closeAll go s2.listedFds s2).sk.idx at this
      rw [hidx3] at this; cases this
  · show (closeAll go s2.listedFds s2).byQid = []
    have : (closeAll go s2.listedFds s2).byQid.map (·.2) = [] := hidx3
    exact List.map_eq_nil_iff.mp this
  · intro c hc
    show c.unlinked = true
    have hx : (c.fd, c.unlinked, c.queries) ∈ (closeAll go s2.listedFds s2).sk.cFUQ :=
      mem_cFUQ.mpr ⟨c.sk, List.mem_map.mpr ⟨c, hc, rfl⟩, rfl⟩
    rw [hc3] at hx
    obtain ⟨hx1, hx2⟩ := List.mem_filter.mp hx
    cases hu : c.unlinked with
    | true => rfl
    | false =>
      exfalso
      rw [hu] at hx1
      have := linked_listed hw2 hx1
      simp only [Bool.not_eq_true', List.contains_eq_mem, decide_eq_false_iff_not] at hx2
      exact hx2 this
  · intro k hk tok hko
    exact hm3.step.prog.doneMono tok (hdone2 k hk tok hko)

/-- for other properties (C10): the state after the walk of `ares_destroy` over `all_queries` -/
theorem destroy_walk_no_queries (n : Nat) {d} {s : St} (hw : Wf s) (hd : DebtOk none d s.sk) (hlc : s.listCopy = [])
    (hf : (exec n (.cancelLoop .destruction true) { s with destroying := true }).1.outOfFuel = false) :
    Wf (exec n (.cancelLoop .destruction true) { s with destroying := true }).1 ∧
    (exec n (.cancelLoop .destruction true) { s with destroying := true }).1.modelFaults = s.modelFaults ∧
    (∀ c ∈ (exec n (.cancelLoop .destruction true) { s with destroying := true }).1.conns, c.queries = []) ∧
    (∀ c ∈ (exec n (.cancelLoop .destruction true) { s with destroying := true }).1.conns, c.unlinked = false →
      c.fd ∈ ((exec n (.cancelLoop .destruction true) { s with destroying := true }).1.sortedServers.map
        (·.conns)).flatten) := by
  have hm1 : Mid d s { s with destroying := true } := Mid.of_sk_eq hw hd rfl
  rcases (goOk_exec n).2 d (.cancelLoop .destruction true) { s with destroying := true } ⟨hm1.wf, hm1.debt⟩
    with hoof | hg
  · rw [hf] at hoof; cases hoof
  generalize exec n (.cancelLoop .destruction true) { s with destroying := true } = r2 at hg ⊢
  obtain ⟨s2, ret2⟩ := r2
  have hw2 : Wf s2 := hg.wf
  have hall2 : s2.all = [] := by
    have : cancelHead s2 true = none := hg.post
    unfold cancelHead at this
    simp only [↓reduceIte] at this
    cases hs : s2.all with
    | nil => rfl
    | cons x r => rw [hs] at this; cases this
  have hlc2 : s2.listCopy = [] := by
    have := hg.step.prog.lcRel
    change LcSub s2.listCopy s.listCopy at this
    rw [hlc] at this
    exact List.length_eq_zero_iff.mp this.length
  refine ⟨hw2, hg.step.faults, ?_, ?_⟩
  · intro c hc
    show c.queries = []
    cases hq : c.queries with
    | nil => rfl
    | cons k r =>
      exfalso
      have hk := (hw2.c.cq (c.fd, c.queries) (mem_cFQ.mpr ⟨c.sk, List.mem_map.mpr ⟨c, hc, rfl⟩, rfl⟩) k
        (by rw [hq]; exact List.mem_cons_self)).1
      rcases hw2.i.nl k hk with h' | ⟨l, hl, _⟩
      · change k ∈ s2.all at h'; rw [hall2] at h'; cases h'
      · change l ∈ s2.listCopy at hl; rw [hlc2] at hl; cases hl
  · intro c hc hu
    exact linked_listed hw2 (q := c.queries) (mem_cFUQ.mpr ⟨c.sk, List.mem_map.mpr ⟨c, hc, rfl⟩, by rw [← hu]; rfl⟩)

end Cares.Chan
