import CaresLemmas.ChanPolicyProbe3Exec
/-!
# C09 — `probe_pending` over whole runs: the invariant without ghost parameters, and `ares_cancel`

`ProbeInv s`: every stored query has a key below the allocation counter, and a server is flagged `probe_pending` only
if a query owned by `probe <its id>` is stored.  `exec_probeInv`: every completed run of every procedure keeps it
(a probe's own `ares_send_nolock` and callback may be entered with the flag of *their* server set and no query yet /
any more).  `exec_cancel_probes`: after a completed `ares_cancel` every flagged server has a probe query that was
created during the cancel.
-/
namespace Cares.Chan
set_option linter.unusedVariables false

/-- a server is marked as being probed only while a probe query for it exists (`H`: the server id exempted) -/
def ProbeInvH (H : Option Nat) (s : St) : Prop :=
  (∀ q ∈ s.qs, q.key < s.nextKey) ∧
  ∀ v ∈ s.servers, v.probePending = true → some v.id = H ∨ ∃ k q, s.query? k = some q ∧ q.owner = .probe v.id

def ProbeInv (s : St) : Prop := ProbeInvH none s

theorem owner?_isSome_iff (s : St) (k : Nat) : ((pview s).owner? k).isSome ↔ ∃ q, s.query? k = some q := by
  rw [owner?_pview]
  cases s.query? k with
  | none => simp
  | some q => simp

theorem owner?_eq_some_iff (s : St) (k : Nat) (o : Owner) :
    (pview s).owner? k = some o ↔ ∃ q, s.query? k = some q ∧ q.owner = o := by
  rw [owner?_pview]
  cases s.query? k with
  | none => simp
  | some q => simp

/-- the ghost parameters of a top-level call: nothing doomed, nothing condemned, nothing released -/
def gh0 (s : St) : Gh :=
  { D := [], m := s.listCopy.length, C := [], n := 0, Z := [], K0 := s.nextKey,
    O0 := fun k => (s.query? k).map (·.owner), L := s.modelFaults.length }

theorem PXv.ofProbeInv {H : Option Nat} {s : St} (h : ProbeInvH H s) : PXv (gh0 s) H (pview s) := by
  have hkeys : ∀ k, ((pview s).owner? k).isSome → k < s.nextKey := by
    intro k hk
    obtain ⟨q, hq⟩ := (owner?_isSome_iff s k).1 hk
    have := h.1 q (query?_mem hq)
    rw [query?_key hq] at this; exact this
  refine ⟨hkeys, ⟨Nat.le_refl _, fun k o _ hko => ?_⟩, (fun e he => nomatch he), ?_, rfl, (fun hc => absurd rfl hc),
    (fun k hk => nomatch hk), (fun k hk => nomatch hk), Nat.le_refl _⟩
  · rw [owner?_pview] at hko; exact hko
  · intro v hv hp
    rcases h.2 v hv hp with hh | ⟨k, q, hq, ho⟩
    · exact Or.inl hh
    · exact Or.inr ⟨k, (owner?_eq_some_iff s k _).2 ⟨q, hq, ho⟩⟩

theorem ProbeInv.ofPXv {g : Gh} {s : St} (h : PXv g none (pview s)) : ProbeInv s := by
  refine ⟨fun q hq => ?_, fun v hv hp => ?_⟩
  · refine h.keys q.key ?_
    rw [owner?_pview]
    have : (s.query? q.key).isSome := by
      unfold St.query?
      rw [List.find?_isSome]
      exact ⟨q, hq, by simp⟩
    cases hx : s.query? q.key with
    | none => rw [hx] at this; cases this
    | some x => rfl
  · rcases h.flag v hv hp with hh | ⟨k, hk⟩
    · cases hh
    · obtain ⟨q, hq, ho⟩ := (owner?_eq_some_iff s k _).1 hk
      exact Or.inr ⟨k, q, hq, ho⟩

/-- **every completed run keeps `ProbeInv`.**  A call other than a probe's own `ares_send_nolock` / callback needs the
    plain invariant (`preHole c = none`); those two may be entered with the flag of the probed server set and no
    query for it — and leave with the invariant restored: the query now exists, or the callback has reset the flag. -/
theorem exec_probeInv (fuel : Nat) (c : Call) (s : St) (h : ProbeInvH (preHole c) s)
    (hf : (exec fuel c s).1.outOfFuel = false) :
    ProbeInv (exec fuel c s).1 ∧ s.nextKey ≤ (exec fuel c s).1.nextKey := by
  have := (goP_exec fuel).inv (gh0 s) c s (Or.inr (PXv.ofProbeInv h))
  rcases this with ho | hx
  · rw [ho] at hf; cases hf
  · exact ⟨ProbeInv.ofPXv hx, hx.base.1⟩

/-! ### `ares_cancel` -/

theorem reverse_cons_getElem?_length {α : Type} (a : α) (l : List α) : (a :: l).reverse[l.length]? = some a := by
  rw [List.reverse_cons, List.getElem?_append_right (by rw [List.length_reverse]; exact Nat.le_refl _)]
  simp

/-- what the cancel theorem needs of the start state besides `ProbeInv`: the keys linked in `all` have been allocated,
    and every stored probe query is linked in `all` (both follow from C01's invariant `Wf`: the stored queries are
    exactly the linked ones, and between API calls they are all in `all`) -/
structure CancelPre (s : St) : Prop where
  inv : ProbeInv s
  allocated : ∀ k ∈ s.all, k < s.nextKey
  linked : ∀ k q pid, s.query? k = some q → q.owner = .probe pid → k ∈ s.all

/-- after a completed `ares_cancel` that raised no model fault: the invariant holds, every query that was linked in
    `all` is gone, and a server that is (still or again) flagged has a probe query that was created *during* the cancel
    — by a request that a completion callback started -/
theorem exec_cancel_probes (fuel : Nat) (s : St) (hp : CancelPre s)
    (hf : (exec fuel .cancel s).1.outOfFuel = false)
    (hm : (exec fuel .cancel s).1.modelFaults = s.modelFaults) :
    ProbeInv (exec fuel .cancel s).1 ∧ s.nextKey ≤ (exec fuel .cancel s).1.nextKey ∧
    (∀ k ∈ s.all, (exec fuel .cancel s).1.query? k = none) ∧
    ∀ v ∈ (exec fuel .cancel s).1.servers, v.probePending = true →
      ∃ k q, s.nextKey ≤ k ∧ (exec fuel .cancel s).1.query? k = some q ∧ q.owner = .probe v.id := by
  cases fuel with
  | zero => have : true = false := hf; cases this
  | succ n =>
    have hgo := goP_exec n
    -- the walk, under the parameters "the list pushed now is condemned"
    let g1 : Gh := { gh0 s with m := s.listCopy.length + 1, C := s.all, n := s.listCopy.length }
    have h0 : PXv (gh0 s) none (pview s) := PXv.ofProbeInv hp.inv
    -- a final state with the invariant under parameters that say "the keys of `all` are released"
    suffices hfin : ∃ L, PXv { gh0 s with Z := s.all, L := L } none (pview (exec (n + 1) .cancel s).1) by
      obtain ⟨L, hx⟩ := hfin
      refine ⟨ProbeInv.ofPXv hx, hx.base.1, fun k hk => ?_, fun v hv hpv => ?_⟩
      · have := (hx.gone k hk).2
        rw [owner?_pview] at this
        cases hq : (exec (n + 1) .cancel s).1.query? k with
        | none => rfl
        | some q => rw [hq] at this; cases this
      · rcases hx.flag v hv hpv with hh | ⟨k, hk⟩
        · cases hh
        · obtain ⟨q, hq, ho⟩ := (owner?_eq_some_iff _ k _).1 hk
          refine ⟨k, q, ?_, hq, ho⟩
          -- an old key with that owner was linked in `all`, hence released
          apply Nat.le_of_not_lt
          intro hlt
          have hb := hx.base.2 k _ hlt hk
          have hb' : (s.query? k).map (·.owner) = some (.probe v.id) := hb
          cases hq0 : s.query? k with
          | none => rw [hq0] at hb'; cases hb'
          | some q0 =>
            rw [hq0] at hb'
            have ho0 : q0.owner = .probe v.id := by simpa using hb'
            have hin := hp.linked k q0 v.id hq0 ho0
            have := (hx.gone k hin).2
            rw [hk] at this; cases this
    -- unfold one step of `cancel`
    have hrun : (exec (n + 1) .cancel s).1 = (bodyCancel (exec n) s).1 := rfl
    rw [hrun] at hf hm ⊢
    unfold bodyCancel at hf hm ⊢
    dsimp only at hf hm ⊢
    split at hf
    · -- nothing linked: only the clean-up of the connections runs
      rename_i hall
      rw [if_pos hall] at hm ⊢
      have hnil : s.all = [] := by simpa using hall
      have hz : PXv { gh0 s with Z := s.all, L := (gh0 s).L } none (pview s) := by
        rw [hnil]; exact h0
      rcases hgo.inv _ (.cleanupConns ((s.sortedServers.map (·.conns)).flatten)) s (Or.inr hz) with ho | hx
      · rw [ho] at hf; cases hf
      · exact ⟨_, hx⟩
    · rename_i hall
      rw [if_neg hall] at hm ⊢
      -- the pushed state
      have h1 : PXv g1 none (pview ({ s with listCopy := s.all :: s.listCopy, all := [] } : St)) := by
        have hpush := PXv.push (g := gh0 s) (H := none) (p := pview s) s.all h0
        refine ⟨hpush.keys, hpush.base, hpush.doom, hpush.flag, hpush.depth, fun _ => Nat.lt_succ_self _, ?_,
          hpush.gone, hpush.mf⟩
        intro k hk
        refine ⟨hp.allocated k hk, fun _ => Or.inr ⟨s.all, ?_, hk⟩⟩
        exact reverse_cons_getElem?_length s.all s.listCopy
      generalize ({ s with listCopy := s.all :: s.listCopy, all := [] } : St) = s1 at h1 hf hm ⊢
      have hr1 := hgo.inv g1 (.cancelLoop .cancelled false) s1 (Or.inr h1)
      have ht1 := hgo.top g1 .cancelled s1 (Or.inr h1)
      generalize (exec n (.cancelLoop .cancelled false) s1).1 = r1 at hr1 ht1 hf hm ⊢
      -- out of fuel in the walk would be out of fuel at the end
      have hoof1 : r1.outOfFuel = false := by
        cases ho : r1.outOfFuel with
        | false => rfl
        | true =>
          have := hgo.oof (.cleanupConns (({ r1 with listCopy := r1.listCopy.drop 1 } : St).sortedServers.map
            (·.conns)).flatten) ({ r1 with listCopy := r1.listCopy.drop 1 } : St) ho
          rw [this] at hf; cases hf
      have hx1 : PXv g1 none (pview r1) := by
        rcases hr1 with ho | hx
        · rw [ho] at hoof1; cases hoof1
        · exact hx
      -- the popped state, with the fault counter restarted
      have hpop : PXv { gh0 s with L := r1.modelFaults.length } none
          (pview ({ r1 with listCopy := r1.listCopy.drop 1 } : St)) := by
        have := PXv.pop (g := gh0 s) (g' := { gh0 s with m := (gh0 s).m + 1 }) (H := none) (p := pview r1) rfl
          ⟨hx1.keys, hx1.base, hx1.doom, hx1.flag, hx1.depth, (fun hc => absurd rfl hc), (fun k hk => nomatch hk),
            hx1.gone, hx1.mf⟩ (fun hc => absurd rfl hc)
        exact ⟨this.keys, this.base, this.doom, this.flag, this.depth, this.lt, this.cond, this.gone, Nat.le_refl _⟩
      rcases hgo.inv _ (.cleanupConns (({ r1 with listCopy := r1.listCopy.drop 1 } : St).sortedServers.map
          (·.conns)).flatten) ({ r1 with listCopy := r1.listCopy.drop 1 } : St) (Or.inr hpop) with ho | hxr
      · rw [ho] at hf; cases hf
      -- no fault was raised in the walk: the list on top was exhausted
      have hmf : ¬ g1.L < r1.modelFaults.length := by
        have h2 : r1.modelFaults.length ≤ s.modelFaults.length := by
          have := hxr.mf
          rw [← hm]; exact this
        exact Nat.not_lt.2 h2
      have hhead : HeadEmpty r1 := by
        rcases ht1 with ho | hh | hh
        · rw [ho] at hoof1; cases hoof1
        · exact hh
        · exact absurd hh hmf
      -- so every condemned key has been released
      have hgone : ∀ k ∈ s.all, k < r1.nextKey ∧ (pview r1).owner? k = none := by
        intro k hk
        obtain ⟨hlt, hc⟩ := hx1.cond k hk
        refine ⟨hlt, ?_⟩
        cases hs : (pview r1).owner? k with
        | none => rfl
        | some o =>
          exfalso
          rcases hc (by rw [hs]; rfl) with hd | ⟨l, hl, hkl⟩
          · cases hd
          · -- the list at position `length` of a stack of height `length + 1` is its head
            have hlen : r1.listCopy.length = s.listCopy.length + 1 := hx1.depth
            cases hlc : r1.listCopy with
            | nil => rw [hlc] at hlen; cases hlen
            | cons a r =>
              rw [hlc] at hlen
              have hr : r.length = s.listCopy.length := by simpa using hlen
              have hl' : (a :: r).reverse[s.listCopy.length]? = some l := by rw [← hlc]; exact hl
              rw [← hr, reverse_cons_getElem?_length] at hl'
              have ha : a = [] := hhead a (by rw [hlc]; rfl)
              cases hl'
              rw [ha] at hkl; cases hkl
      -- redo the clean-up under the parameters that remember the released keys
      have hpop2 : PXv { gh0 s with Z := s.all, L := r1.modelFaults.length } none
          (pview ({ r1 with listCopy := r1.listCopy.drop 1 } : St)) :=
        ⟨hpop.keys, hpop.base, hpop.doom, hpop.flag, hpop.depth, hpop.lt, hpop.cond, hgone, hpop.mf⟩
      rcases hgo.inv _ (.cleanupConns (({ r1 with listCopy := r1.listCopy.drop 1 } : St).sortedServers.map
          (·.conns)).flatten) ({ r1 with listCopy := r1.listCopy.drop 1 } : St) (Or.inr hpop2) with ho | hxr2
      · rw [ho] at hf; cases hf
      · exact ⟨_, hxr2⟩

/-! ### the early failures of a probe's own `ares_send_nolock` -/

/-- `ares_send_nolock` for a probe when no query can be created — no server configured, or the request does not
    serialise (the model's stand-in for every early `goto done` of the C function, out-of-memory included): the
    owner's callback runs on the spot, and for a probe that is `server_probe_cb`: the flag of the probed server is
    reset.  Closed form, any fuel ≥ 2. -/
theorem exec_sendNolock_probe_early (fuel : Nat) (srv : Option Nat) (nocache noretry : Bool) (spec : ReqSpec)
    (pid : Nat) (react : List Nat) (s : St) :
    ((genQid 70000 s).2.servers.isEmpty = true →
      exec (fuel + 2) (.sendNolock srv nocache noretry spec (.probe pid) react) s =
        (releaseProbe pid (genQid 70000 s).2, .noserver)) ∧
    ((genQid 70000 s).2.servers.isEmpty = false → nocache = true → nameTextLen spec.name > 255 →
      exec (fuel + 2) (.sendNolock srv nocache noretry spec (.probe pid) react) s =
        (releaseProbe pid (genQid 70000 s).2, .formerr)) := by
  have hcb : ∀ st (s' : St), exec (fuel + 1) (.callback (.probe pid) react st 0 none) s' = (releaseProbe pid s', .ok) :=
    fun st s' => exec_callback_probe fuel pid react st 0 none s'
  constructor
  · intro he
    show bodySendNolock (exec (fuel + 1)) srv nocache noretry spec (.probe pid) react s = _
    unfold bodySendNolock
    generalize genQid 70000 s = p at he ⊢
    obtain ⟨qid, s0⟩ := p
    simp only [he, ↓reduceIte, hcb]
  · intro he hnc hlen
    subst hnc
    show bodySendNolock (exec (fuel + 1)) srv true noretry spec (.probe pid) react s = _
    unfold bodySendNolock
    generalize genQid 70000 s = p at he ⊢
    obtain ⟨qid, s0⟩ := p
    simp only [he, Bool.false_eq_true, ↓reduceIte, hlen, hcb]

end Cares.Chan
