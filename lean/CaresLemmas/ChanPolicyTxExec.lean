import CaresLemmas.ChanPolicyTx
import CaresLemmas.ChanPolicyFrameExec
/-!
# C06 — `exec` keeps "transmissions + queued frames ≤ writes" (`TInv`)
-/
namespace Cares.Chan
set_option linter.unusedVariables false

/-! ### sending -/

theorem tproj_find_of_conn? {s : St} {fd : Nat} {c : Conn} (h : s.conn? fd = some c) :
    (tproj s).conns.find? (·.1 == fd) = some (fd, c.out.map (·.key)) := by
  unfold tproj St.conn? at *
  dsimp only
  generalize s.conns = l at h
  induction l with
  | nil => simp at h
  | cons x r ih =>
    simp only [List.map_cons, List.find?_cons] at h ⊢
    by_cases hx : x.fd == fd
    · simp only [hx, Option.some.injEq] at h ⊢
      subst h
      rw [beq_iff_eq.1 hx]
    · simp only [hx] at h ⊢
      exact ih h

theorem fault_conn? {s s' : St} {call : String} {e : Option Nat} (h : s.fault call = (e, s')) (fd : Nat) :
    s'.conn? fd = s.conn? fd := by
  have : s' = (s.fault call).2 := by rw [h]
  rw [this]; rfl

theorem tproj_fault {s s' : St} {call : String} {e : Option Nat} (h : s.fault call = (e, s')) : tproj s' = tproj s := by
  have : s' = (s.fault call).2 := by rw [h]
  rw [this]; rfl

/-- the frame at the head of connection `fd`'s queue is transmitted (UDP path of `ares_conn_flush`) -/
theorem TInv.udpSend {s : St} {fd : Nat} {c : Conn} {f : OutFrame} {rest : List OutFrame} {tcp r w : Bool}
    (hc : s.conn? fd = some c) (ho : c.out = f :: rest) (h : TInv s) :
    TInv (((s.recordTx fd tcp f).notify fd r w).modConn fd fun c => { c with out := rest }) := by
  obtain ⟨t, g, ev, sl, hg, hk, e⟩ := recordTx_shape s fd tcp f
  have hfind := tproj_find_of_conn? hc
  rw [ho] at hfind
  have hsend := TOk.send fd f.key (rest.map (·.key)) hfind h
  unfold TInv
  have : tproj (((s.recordTx fd tcp f).notify fd r w).modConn fd fun c => { c with out := rest }) =
      { tproj s with conns := (tproj s).conns.map (fun e => if e.1 == fd then (e.1, rest.map (·.key)) else e),
                     tx := (tproj s).tx ++ [f.key] } := by
    have hn : ∀ (x : St), (x.notify fd r w).txs = x.txs ∧ (x.notify fd r w).nextFd = x.nextFd ∧
        (x.notify fd r w).writeLog = x.writeLog ∧
        (x.notify fd r w).conns.map (fun c => (c.fd, c.out)) = x.conns.map (fun c => (c.fd, c.out)) := by
      intro x
      obtain ⟨a, b, cs, e'⟩ := notify_shape x fd r w
      refine ⟨by rw [e'], by rw [e'], by rw [e'], ?_⟩
      rcases notify_conns x fd r w with e2 | e2
      · rw [e2, List.map_map]
        apply List.map_congr_left
        intro c _
        by_cases hcf : c.fd == fd <;> simp [Function.comp, hcf]
      · rw [e2]
    obtain ⟨n1, n2, n3, n4⟩ := hn (s.recordTx fd tcp f)
    unfold tproj St.modConn
    simp only [TP.mk.injEq, List.map_map]
    refine ⟨?_, ?_, ?_, ?_⟩
    · rw [n1, e]; simp [hk]
    · have : ((s.recordTx fd tcp f).notify fd r w).conns.map
          ((fun c : Conn => (c.fd, c.out.map (·.key))) ∘ fun x => if x.fd == fd then { x with out := rest } else x) =
          (((s.recordTx fd tcp f).notify fd r w).conns.map (fun c => (c.fd, c.out))).map
            (fun e => if e.1 == fd then (e.1, rest.map (·.key)) else (e.1, e.2.map (·.key))) := by
        rw [List.map_map]
        apply List.map_congr_left
        intro c _
        by_cases hcf : c.fd == fd <;> simp [Function.comp, hcf]
      rw [this, n4, e, List.map_map]
      apply List.map_congr_left
      intro c _
      by_cases hcf : c.fd == fd <;> simp [Function.comp, hcf]
    · rw [n2, e]
    · rw [n3, e]
  rw [this]
  exact hsend

/-- the TCP path: `advanceOut` transmits the frames whose last byte was accepted -/
theorem TInv.advanceOut {s : St} {fuel fd n : Nat} (h : TInv s) : TInv (Cares.Chan.advanceOut fuel fd s n) := by
  induction fuel generalizing s n with
  | zero => exact h
  | succ k ih =>
    unfold Cares.Chan.advanceOut
    split
    · exact h
    · rename_i c hc
      split
      · exact h
      · rename_i f rest ho
        dsimp only
        split
        · -- the head frame is complete: it leaves the queue and is recorded
          have hstep : TInv ((s.modConn fd fun c => { c with out := rest, outOff := 0 }).recordTx fd true f) := by
            obtain ⟨t, g, ev, sl, hg, hk, e⟩ := recordTx_shape (s.modConn fd fun c => { c with out := rest, outOff := 0 }) fd true f
            have hfind := tproj_find_of_conn? hc
            rw [ho] at hfind
            have hsend := TOk.send fd f.key (rest.map (·.key)) hfind h
            unfold TInv
            have : tproj ((s.modConn fd fun c => { c with out := rest, outOff := 0 }).recordTx fd true f) =
                { tproj s with conns := (tproj s).conns.map (fun e => if e.1 == fd then (e.1, rest.map (·.key)) else e),
                               tx := (tproj s).tx ++ [f.key] } := by
              rw [e]
              unfold tproj St.modConn
              simp only [TP.mk.injEq, List.map_map, List.map_append, List.map_cons, List.map_nil, hk, and_true, true_and]
              apply List.map_congr_left
              intro c _
              by_cases hcf : c.fd == fd <;> simp [Function.comp, hcf]
            rw [this]; exact hsend
          split
          · exact hstep
          · exact ih hstep
        · exact TInv.modConn (fun _ => ⟨rfl, rfl⟩) h

theorem tproj_modConn_append (s : St) (fd : Nat) (frame : OutFrame) :
    tproj (s.modConn fd fun c => { c with out := c.out ++ [frame] }) =
      { tproj s with conns := (tproj s).conns.map (fun e => if e.1 == fd then (e.1, e.2 ++ [frame.key]) else e) } := by
  unfold tproj St.modConn
  simp only [TP.mk.injEq, List.map_map, true_and, and_true]
  apply List.map_congr_left
  intro c _
  by_cases hc : c.fd == fd <;> simp [Function.comp, hc]

/-- `ares_conn_query_write` up to the flush -/
theorem tproj_sqPrep (s : St) (q : Query) (srv : Server) (key fd : Nat) :
    tproj (sqPrep s q srv key fd) =
      { tproj s with conns := (tproj s).conns.map (fun e => if e.1 == fd then (e.1, e.2 ++ [key]) else e),
                     wlog := (tproj s).wlog ++ [key] } := by
  have hpop : ∀ b : Bool, tproj (if b then s.pop8 else s) = tproj s := by
    intro b
    cases b
    · rfl
    · unfold St.pop8; simp only [↓reduceIte]; split <;> rfl
  have hb : tproj (if (sqApply s q srv fd).draws > 0 then s.pop8 else s) = tproj s := by
    by_cases hd : (sqApply s q srv fd).draws > 0
    · rw [if_pos hd]; exact hpop true
    · rw [if_neg hd]
  unfold sqPrep
  dsimp only
  generalize (if (sqApply s q srv fd).draws > 0 then s.pop8 else s) = s1 at hb
  -- the server / query updates do not touch the projection
  have e3 : ∀ (x : St) (id k : Nat) (f : Server → Server) (g : Query → Query),
      tproj ((x.modServer id f).modQuery k g) = tproj x := fun _ _ _ _ _ => rfl
  show tproj { (St.modConn _ fd _) with writeLog := (St.modConn _ fd _).writeLog ++ [key] } = _
  have ew : ∀ (x : St), tproj { x with writeLog := x.writeLog ++ [key] } =
      { tproj x with wlog := (tproj x).wlog ++ [key] } := fun _ => rfl
  rw [ew, tproj_modConn_append, e3, hb]

theorem TInv.sqPrep {s : St} (q : Query) (srv : Server) (key fd : Nat) (h : TInv s) :
    TInv (Cares.Chan.sqPrep s q srv key fd) := by
  unfold TInv; rw [tproj_sqPrep]; exact TOk.enqueue fd key h

/-! ### opening and closing connections -/

theorem TInv.closeFd {s s' : St} (fd : Nat) (h0 : s'.cfg = s.cfg)
    (h1 : tproj s' = tproj { s with conns := s.conns.filter (·.fd != fd) }) (h : TInv s) : TInv s' := by
  unfold TInv; rw [h1]
  have : tproj { s with conns := s.conns.filter (·.fd != fd) } =
      { tproj s with conns := (tproj s).conns.filter (fun e => e.1 != fd) } := by
    unfold tproj
    simp only [TP.mk.injEq, true_and, and_true]
    rw [List.filter_map]
    rfl
  rw [this]
  exact TOk.closeFd fd h

theorem TInv.bumpFd {s s' : St} (h0 : s'.cfg = s.cfg) (h1 : tproj s' = { tproj s with nextFd := s.nextFd + 1 })
    (h : TInv s) : TInv s' := by
  unfold TInv; rw [h1]; exact TOk.bump h

/-- "the projection of this state is `p`" -/
def TProjIs (p : TP) (s : St) : Prop := tproj s = p

theorem TProjIs.congr {p : TP} {s s' : St} (h0 : s'.cfg = s.cfg) (h1 : tproj s' = tproj s) (h : TProjIs p s) :
    TProjIs p s' := by
  unfold TProjIs at *; rw [h1]; exact h

theorem TProjIs.bump {p : TP} {s s' : St} (h0 : s'.cfg = s.cfg)
    (h1 : tproj s' = { tproj s with nextFd := s.nextFd + 1 }) (h : TProjIs p s) :
    TProjIs { p with nextFd := p.nextFd + 1 } s' := by
  unfold TProjIs at *
  rw [h1]
  have : s.nextFd = p.nextFd := by rw [← h]; rfl
  rw [this, h]

section
variable {p : TP}
chan_simple_lemmas TProjIs : (TProjIs p) =>
  emit slog ofault mfault setQuery setServer setSock modQuery modServer modSock modClient cacheExpire
end

macro "tprojis_chain" : tactic => `(tactic| repeat' (first
  | assumption
  | exact rfl
  | (with_reducible apply pair_fst; assumption)
  | (with_reducible apply pair_snd; assumption)
  | with_reducible (first
      | apply TProjIs.emit | apply TProjIs.slog | apply TProjIs.ofault | apply TProjIs.mfault
      | apply TProjIs.setQuery | apply TProjIs.setServer | apply TProjIs.setSock | apply TProjIs.modQuery
      | apply TProjIs.modServer | apply TProjIs.modSock | apply TProjIs.modClient | apply TProjIs.cacheExpire)
  | with_reducible chan_elim
  | peel_raw TProjIs.congr
  | peel_raw TProjIs.bump
  | unfold_state_let
  | split))

theorem fault_nextFd' {s s' : St} {c : String} {e : Option Nat} (h : s.fault c = (e, s')) : s'.nextFd = s.nextFd := by
  have := congrArg (fun r => r.2.nextFd) h
  exact this.symm

theorem TInv.openConnA {s sA : St} (c : Conn) (h : TInv s)
    (hA : TProjIs { tproj s with nextFd := s.nextFd + 1 } sA) (hc : c.fd = s.nextFd) (ho : c.out = []) :
    TInv { sA with conns := sA.conns ++ [c] } := by
  unfold TInv
  have : tproj { sA with conns := sA.conns ++ [c] } =
      { tproj s with conns := (tproj s).conns ++ [((tproj s).nextFd, [])], nextFd := (tproj s).nextFd + 1 } := by
    have e1 : tproj { sA with conns := sA.conns ++ [c] } =
        { tproj sA with conns := (tproj sA).conns ++ [(c.fd, c.out.map (·.key))] } := by
      simp [tproj]
    rw [e1, hA, hc, ho]; rfl
  rw [this]
  exact TOk.newConn h

theorem TInv.openConnB {s sA : St} (c : Conn) (id : Nat) (f : Server → Server) (h : TInv s)
    (hA : TProjIs { tproj s with nextFd := s.nextFd + 1 } sA) (hc : c.fd = s.nextFd) (ho : c.out = []) :
    TInv (St.modServer { sA with conns := sA.conns ++ [c] } id f) :=
  TInv.congr (s := { sA with conns := sA.conns ++ [c] }) rfl rfl (TInv.openConnA c h hA hc ho)

theorem sqOpen_t (s : St) (q : Query) (srv : Server) (existing : Option Nat) (h : TInv s) :
    TInv (sqOpen s q srv existing).2 := by
  unfold sqOpen
  chan_paths
  all_goals (repeat' (first
    | assumption
    | (with_reducible apply pair_fst; assumption)
    | (with_reducible apply pair_snd; assumption)
    | with_reducible apply TInv.notify
    | with_reducible (first
        | apply TInv.emit | apply TInv.slog | apply TInv.ofault | apply TInv.mfault
        | apply TInv.setQuery | apply TInv.setServer | apply TInv.setSock | apply TInv.modQuery
        | apply TInv.modSock | apply TInv.modClient | apply TInv.cacheExpire)
    | (refine TInv.openConnB (s := s) _ _ _ h ?hA ?hc ?ho
       case hc => exact fault_nextFd' (by assumption)
       case ho => rfl
       case hA => tprojis_chain)
    | (refine TInv.openConnA (s := s) _ h ?hA ?hc ?ho
       case hc => exact fault_nextFd' (by assumption)
       case ho => rfl
       case hA => tprojis_chain)
    | with_reducible chan_elim
    | peel_raw TInv.congr
    | peel_raw TInv.bumpFd
    | unfold_state_let
    | split))

end Cares.Chan

namespace Cares.Chan
set_option linter.unusedVariables false

macro "t_congr" : tactic => `(tactic| peel_raw TInv.congr)

macro "t_spec" : tactic => `(tactic| first
  | with_reducible apply TInv.notify
  | with_reducible apply TInv.removeFromConn
  | with_reducible apply TInv.detach
  | with_reducible apply TInv.freeQuery
  | with_reducible apply TInv.advanceOut
  | with_reducible apply TInv.sqPrep
  | with_reducible apply sqOpen_t
  | ((with_reducible refine TInv.modConn ?hf ?hI); case hf => (intro _; exact ⟨rfl, rfl⟩))
  | ((with_reducible refine TInv.modConnShrink ?hf ?hI); case hf => (intro _; exact ⟨rfl, fun _ => Nat.zero_le _⟩))
  | with_reducible (first
      | apply TInv.emit | apply TInv.slog | apply TInv.ofault | apply TInv.mfault | apply TInv.oof
      | apply TInv.setQuery | apply TInv.setServer | apply TInv.setSock | apply TInv.modQuery
      | apply TInv.modServer | apply TInv.modSock | apply TInv.modClient | apply TInv.cacheExpire))

macro "t_step " hgo:term : tactic => `(tactic| first
  | assumption
  | with_reducible apply $hgo
  | (with_reducible apply pair_fst; assumption)
  | (with_reducible apply pair_snd; assumption)
  | t_spec
  | with_reducible (first
      | (apply incFailures_elim; intro _ _)
      | (apply setGood_elim; intro _ _)
      | (apply metricsRecord_elim; intro _)
      | (apply fault_elim; intro _)
      | (apply draw1_elim; intro _ _)
      | (apply draw2_elim; intro _ _)
      | (apply pop8_elim; intro _ _)
      | (apply genQid_elim; intro _ _)
      | (apply cacheInsert_elim; intro _)
      | (apply userCallback_elim; intro _ _ _))
  | t_congr
  | ((with_reducible refine TInv.udpSend (c := ?theConn) ?hc ?ho ?hI)
     case hc => (rw [fault_conn? (by assumption)]; assumption)
     case ho => assumption)
  | (refine TInv.closeFd (s := ?s0) ?fd ?h0 ?h1 ?hI
     case h0 => first | (dsimp only; exact rfl) | dsimp only
     case h1 => exact rfl)
  | unfold_state_let
  | split)

chan_invariant t : TInv oofBy (fun _ h => h)
  leafBy (repeat' (first
                  | t_step hgo
                  | with_reducible apply sqChoose_t hgo
                  | with_reducible apply sqWrite_t hgo
                  | with_reducible apply sqDeadline_t hgo
                  | with_reducible apply sqCommit_t hgo
                  | with_reducible apply sqAfter_t hgo
                  | (with_reducible apply foldl_inv; intro _ _ _)))
  exceptBodies sqOpen sqPrep

/-- **transmissions_le_writes**: in every state reached by procedure runs from a state satisfying the invariant, the
    virtual server has seen no more frames of a query than were handed to connections -/
theorem exec_tx_le_writes (fuel : Nat) (c : Call) (s : St) (h : TInv s) (k : Nat) :
    ((exec fuel c s).1.txs.map (·.key)).count k ≤ (exec fuel c s).1.writeLog.count k :=
  TOk.tx_le (exec_t fuel c s h) k

/-- a fresh channel satisfies the invariant -/
theorem TInv.init (s : St) (ht : s.txs = []) (hc : s.conns = []) : TInv s := by
  unfold TInv
  have hp : tproj s = ⟨[], [], s.nextFd, s.writeLog⟩ := by unfold tproj; rw [ht, hc]; rfl
  rw [hp]
  exact { fdNodup := List.nodup_nil, fdLt := fun e he => (by cases he), bal := fun k => Nat.zero_le _ }

end Cares.Chan
