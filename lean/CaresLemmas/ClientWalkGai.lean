import CaresLemmas.ClientWalk
import CaresLemmas.ClientWalkHex
/-! `host_callback` of the channel model's `gai` client, cut into its two halves
    (`ares_parse_into_addrinfo`, then the decision), and the facts the walk theorems need about each. -/
namespace Cares.ClientWalk
open Cares.Chan Cares.Text Cares.Proto

/-- status of a sub-request as `host_callback` sees it (behind `ares_query_nolock`'s conversion) -/
def effSt (st0 : Chan.Status) (rec : Option Reply) : Chan.Status :=
  if st0 != .ok then st0 else
    match rec with
    | some r => replyToStatus r.rcode r.an
    | none => st0

/-- the nodes one answer contributes, rendered "addr/ttl" (the virtual server answers every type other
    than AAAA with A records) -/
def replyNodes (r : Reply) : List String :=
  (List.range r.an).map fun i =>
    s!"{answerAddr (if r.qtype == 28 then 28 else 1) r.mark i}/{r.ttls.getD i (r.ttls.getLastD 300)}"

/-- the `ares_parse_into_addrinfo` half of `gaiOnCb` (copied from the model) -/
def gaiParse (c : Client) (st : Chan.Status) (rec : Option Reply) : Client × Chan.Status × List ClientAct :=
  match st, rec with
  | .ok, some r =>
    if r.an == 0 then (c, .nodata, []) else
    let isA := r.qtype == 1
    let isAAAA := r.qtype == 28
    if !isA && !isAAAA then
      let nodes := (List.range r.an).map fun i => s!"{answerAddr 1 r.mark i}/{r.ttls.getD i (r.ttls.getLastD 300)}"
      let c := { c with addrs := c.addrs ++ nodes, hasV4 := true,
                        aiName := if hexLower c.aiName == hexLower r.name && c.aiName != "" then c.aiName else r.name }
      (c, .ok, [])
    else
      let nodes := (List.range r.an).map fun i => s!"{answerAddr r.qtype r.mark i}/{r.ttls.getD i (r.ttls.getLastD 300)}"
      let c := { c with addrs := c.addrs ++ nodes, hasV4 := c.hasV4 || isA,
                        aiName := if hexLower c.aiName == hexLower r.name && c.aiName != "" then c.aiName else r.name }
      let other := if r.id == c.qidA then c.qidAAAA else c.qidA
      (c, .ok, if c.hasV4 && c.remaining != 0 then [.noRetry other] else [])
  | _, _ => (c, .ok, [])

/-- the decision half of `gaiOnCb` (copied from the model) -/
def gaiTail (cfg : Cfg) (c : Client) (st addinfo : Chan.Status) (acts : List ClientAct) : Client × List ClientAct :=
  if c.remaining != 0 then (c, acts) else
  if st == .destruction || st == .cancelled then (c, acts ++ [.finish st c.timeouts "ai="])
  else if addinfo != .ok && addinfo != .nodata then (c, acts ++ [.finish addinfo c.timeouts "ai="])
  else if !c.addrs.isEmpty then (c, acts ++ [.finish .ok c.timeouts (gaiDigest c)])
  else if st == .notfound || st == .nodata || addinfo == .nodata then
    let c := if st == .nodata || addinfo == .nodata then { c with nodataCnt := c.nodataCnt + 1 } else c
    let (c, a) := gaiNextLookup cfg 8 c (if c.nodataCnt != 0 then .nodata else st)
    (c, acts ++ a)
  else if (st == .servfail || st == .refused) && Chan.labelCnt c.lastName == 1 then
    let (c, a) := gaiNextLookup cfg 8 c (if c.nodataCnt != 0 then .nodata else st)
    (c, acts ++ a)
  else (c, acts ++ [.finish st c.timeouts "ai="])

theorem gaiOnCb_eq (cfg : Cfg) (c : Client) (st0 : Chan.Status) (t : Nat) (rec : Option Reply) :
    gaiOnCb cfg c st0 t rec =
      gaiTail cfg (gaiParse { c with timeouts := c.timeouts + t, remaining := c.remaining - 1 } (effSt st0 rec) rec).1
        (effSt st0 rec)
        (gaiParse { c with timeouts := c.timeouts + t, remaining := c.remaining - 1 } (effSt st0 rec) rec).2.1
        (gaiParse { c with timeouts := c.timeouts + t, remaining := c.remaining - 1 } (effSt st0 rec) rec).2.2 := by
  rfl

/-! ### what one completion contributes -/

/-- the nodes the completion `e` adds to the addrinfo: those of its answer when the sub-request succeeded -/
def evNodes (e : Ev) : List String :=
  match e.reply with
  | some r => if effSt e.st e.reply == .ok then replyNodes r else []
  | none => []

/-- `ai->name` after the completion `e` -/
def evAiName (ai : String) (e : Ev) : String :=
  match e.reply with
  | some r =>
    if effSt e.st e.reply == .ok && r.an != 0 then
      (if hexLower ai == hexLower r.name && ai != "" then ai else r.name)
    else ai
  | none => ai

/-- the completion is a successful answer without any record (`addinfo_status = ARES_ENODATA`) -/
def evNodataAns (e : Ev) : Bool :=
  match e.reply with
  | some r => effSt e.st e.reply == .ok && r.an == 0
  | none => false

/-- fields of the client that only `next_lookup` changes -/
structure Same (c c' : Client) : Prop where
  kind : c'.kind = c.kind
  names : c'.names = c.names
  lastName : c'.lastName = c.lastName
  lookups : c'.lookups = c.lookups
  name : c'.name = c.name
  family : c'.family = c.family
  nodataCnt : c'.nodataCnt = c.nodataCnt

theorem replyNodes_nil (r : Reply) (h : r.an = 0) : replyNodes r = [] := by simp [replyNodes, h]

theorem replyNodes_ne_nil (r : Reply) (h : r.an ≠ 0) : replyNodes r ≠ [] := by
  unfold replyNodes
  intro hh
  have := congrArg List.length hh
  simp at this
  exact h this

/-- only `.noRetry` actions -/
def OnlyNoRetry (acts : List ClientAct) : Prop := ∀ a ∈ acts, ∃ q, a = .noRetry q

theorem applyActs_noRetry_append (acts a : List ClientAct) (h : OnlyNoRetry acts) (w : Walk) :
    applyActs (acts ++ a) w = applyActs a w := by
  induction acts generalizing w with
  | nil => rfl
  | cons x xs ih =>
    obtain ⟨q, rfl⟩ := h x (by simp)
    simp only [List.cons_append, applyActs]
    exact ih (fun y hy => h y (by simp [hy])) w

theorem applyActs_noRetry (acts : List ClientAct) (h : OnlyNoRetry acts) (w : Walk) : applyActs acts w = w := by
  have := applyActs_noRetry_append acts [] h w
  simpa [applyActs] using this

structure ParseSpec (c : Client) (e : Ev) (p : Client × Chan.Status × List ClientAct) : Prop where
  same : Same c p.1
  remaining : p.1.remaining = c.remaining
  addrs : p.1.addrs = c.addrs ++ evNodes e
  aiName : p.1.aiName = evAiName c.aiName e
  addinfo : p.2.1 = if evNodataAns e then .nodata else .ok
  acts : OnlyNoRetry p.2.2

theorem gaiParse_spec (c : Client) (e : Ev) : ParseSpec c e (gaiParse c (effSt e.st e.reply) e.reply) := by
  unfold gaiParse
  split
  · rename_i st rec r hst hrec
    have hrec' : e.reply = some r := hrec
    have hst' : effSt e.st (some r) = Chan.Status.ok := hrec' ▸ hst
    by_cases han : r.an = 0
    · simp only [han, beq_self_eq_true, ↓reduceIte]
      refine ⟨⟨rfl, rfl, rfl, rfl, rfl, rfl, rfl⟩, rfl, ?_, ?_, ?_, fun a ha => by simp at ha⟩
      · simp [evNodes, hrec', replyNodes_nil r han]
      · simp [evAiName, hrec', han]
      · simp [evNodataAns, hrec', han, hst']
    · have han' : (r.an == 0) = false := by simpa using han
      simp only [han', Bool.false_eq_true, ↓reduceIte]
      split
      · rename_i hq
        simp only [Bool.and_eq_true, Bool.not_eq_eq_eq_not, Bool.not_true, beq_eq_false_iff_ne, ne_eq] at hq
        have h28 : (r.qtype == 28) = false := by simpa using hq.2
        refine ⟨⟨rfl, rfl, rfl, rfl, rfl, rfl, rfl⟩, rfl, ?_, ?_, ?_, fun a ha => by simp at ha⟩
        · simp [evNodes, hrec', hst', replyNodes, h28]
        · simp [evAiName, hrec', hst', han]
        · simp [evNodataAns, hrec', han]
      · rename_i hq
        have hqt : (if (r.qtype == 28) = true then 28 else 1) = r.qtype := by
          by_cases h28 : r.qtype = 28
          · simp [h28]
          · have h1 : r.qtype = 1 := by
              simp only [Bool.and_eq_true, Bool.not_eq_eq_eq_not, Bool.not_true, beq_eq_false_iff_ne, ne_eq,
                not_and, Decidable.not_not] at hq
              exact Classical.byContradiction fun h => h28 (hq h)
            simp [h1]
        refine ⟨⟨rfl, rfl, rfl, rfl, rfl, rfl, rfl⟩, rfl, ?_, ?_, ?_, ?_⟩
        · simp only [evNodes, hrec', hst', replyNodes, hqt, beq_self_eq_true, ↓reduceIte]
        · simp [evAiName, hrec', hst', han]
        · simp [evNodataAns, hrec', han]
        · dsimp only
          split
          · intro a ha; exact ⟨_, by simpa using ha⟩
          · intro a ha; simp at ha
  · rename_i st rec hne
    have hno : ∀ r, e.reply = some r → (effSt e.st e.reply == Chan.Status.ok) = false := by
      intro r hr
      have := hne r
      cases h : effSt e.st e.reply <;> simp_all
    refine ⟨⟨rfl, rfl, rfl, rfl, rfl, rfl, rfl⟩, rfl, ?_, ?_, ?_, fun a ha => by simp at ha⟩
    · cases hr : e.reply with
      | none => simp [evNodes, hr]
      | some r => have h := hno r hr; rw [hr] at h; simp [evNodes, hr, h]
    · cases hr : e.reply with
      | none => simp [evAiName, hr]
      | some r => have h := hno r hr; rw [hr] at h; simp [evAiName, hr, h]
    · cases hr : e.reply with
      | none => simp [evNodataAns, hr]
      | some r => have h := hno r hr; rw [hr] at h; simp [evNodataAns, hr, h]

/-! ### the decision half -/

/-- the outcome of the candidate as `host_callback` judges it when its last sub-request completes with
    status `st` (`nd`: a successful answer without records) and `c.addrs` collected -/
def tailOutcome (c : Client) (st : Chan.Status) (nd : Bool) : Chan.Status :=
  if st == .destruction || st == .cancelled then st
  else if !c.addrs.isEmpty then .ok
  else if nd then .nodata else st

/-- the digest handed to the user callback -/
def tailDigest (c : Client) (st : Chan.Status) : String :=
  if st == .destruction || st == .cancelled then "ai="
  else if !c.addrs.isEmpty then gaiDigest c else "ai="

theorem gaiTail_mid (cfg : Cfg) (c : Client) (st addinfo : Chan.Status) (acts : List ClientAct)
    (h : c.remaining ≠ 0) : gaiTail cfg c st addinfo acts = (c, acts) := by
  unfold gaiTail; simp [h]

theorem gaiTail_hard (cfg : Cfg) (c : Client) (st : Chan.Status) (nd : Bool) (acts : List ClientAct)
    (h0 : c.remaining = 0) (hnd : nd = true → st = .ok)
    (hs : softB c.lastName (tailOutcome c st nd) = false) :
    gaiTail cfg c st (if nd then .nodata else .ok) acts =
      (c, acts ++ [.finish (tailOutcome c st nd) c.timeouts (tailDigest c st)]) := by
  unfold gaiTail tailDigest
  unfold tailOutcome softB at *
  generalize (Chan.labelCnt c.lastName == 1) = lc at *
  have hr : (c.remaining != 0) = false := by simp [h0]
  clear h0
  cases nd
  · clear hnd
    cases ha : c.addrs.isEmpty <;> simp only [ha, hr] at * <;> cases st <;> simp_all
  · have := hnd rfl
    subst this
    clear hnd
    cases ha : c.addrs.isEmpty <;> simp only [ha, hr] at * <;> simp_all

theorem gaiTail_soft (cfg : Cfg) (c : Client) (st : Chan.Status) (nd : Bool) (acts : List ClientAct)
    (h0 : c.remaining = 0) (hnd : nd = true → st = .ok)
    (hs : softB c.lastName (tailOutcome c st nd) = true) :
    gaiTail cfg c st (if nd then .nodata else .ok) acts =
      ((gaiNextLookup cfg 8
          { c with nodataCnt := c.nodataCnt + (if tailOutcome c st nd == .nodata then 1 else 0) }
          (if (c.nodataCnt + (if tailOutcome c st nd == .nodata then 1 else 0)) != 0 then .nodata
           else tailOutcome c st nd)).1,
       acts ++ (gaiNextLookup cfg 8
          { c with nodataCnt := c.nodataCnt + (if tailOutcome c st nd == .nodata then 1 else 0) }
          (if (c.nodataCnt + (if tailOutcome c st nd == .nodata then 1 else 0)) != 0 then .nodata
           else tailOutcome c st nd)).2) := by
  unfold gaiTail
  unfold tailOutcome softB at *
  generalize (Chan.labelCnt c.lastName == 1) = lc at *
  have hr : (c.remaining != 0) = false := by simp [h0]
  clear h0
  cases nd
  · clear hnd
    cases ha : c.addrs.isEmpty <;> simp only [ha, hr] at * <;> cases st <;> simp_all
  · have := hnd rfl
    subst this
    clear hnd
    cases ha : c.addrs.isEmpty <;> simp only [ha, hr] at * <;> simp_all


end Cares.ClientWalk
