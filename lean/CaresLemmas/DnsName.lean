import CaresLemmas.DnsSafe
/-!
# Compression pointers cannot loop or run forward; iteration bound (helper lemmas for C02)
-/
namespace Cares.Dns
open Cares.Generated

/-- a recorded pointer `(position of the pointer, target, label_start then)` goes strictly below
    the lowest position visited so far, which is at most `bound` -/
def JumpOk (bound : Nat) (j : Nat × Nat × Nat) : Prop := j.2.1 < j.2.2 ∧ j.2.2 ≤ j.1 ∧ j.2.2 ≤ bound

theorem JumpOk.weaken {b b' : Nat} {j : Nat × Nat × Nat} (h : JumpOk b j) (hb : b ≤ b') : JumpOk b' j := by
  unfold JumpOk at *; omega

theorem nameLoop_jumps (bs : Bytes) (isHost : Bool) (pos ls save : Nat) (acc : BStr) (iters : Nat)
    (jumps : List (Nat × Nat × Nat)) :
    ∃ new, (nameLoop bs isHost pos ls save acc iters jumps).jumps = new ++ jumps ∧
      (∀ j ∈ new, JumpOk (min ls pos) j) ∧ new.Pairwise (fun a b => a.2.1 < b.2.1) := by
  fun_induction nameLoop bs isHost pos ls save acc iters jumps
  case case7 =>
    rename_i pos ls save acc iters jumps ls' c pos1 h1 hc c2 pos2 h2 offset hge save' hsz ih
    obtain ⟨new, e, hj, hp⟩ := ih
    have hls : ls' = min ls pos := by simp only [ls']; split <;> omega
    refine ⟨new ++ [(pos, offset, ls')], by rw [e]; simp, ?_, ?_⟩
    · intro j hjm
      rcases List.mem_append.1 hjm with hm | hm
      · exact (hj j hm).weaken (by omega)
      · simp only [List.mem_singleton] at hm
        subst hm
        unfold JumpOk
        simp only
        omega
    · rw [List.pairwise_append]
      refine ⟨hp, by simp, ?_⟩
      intro a ha b hb
      simp only [List.mem_singleton] at hb
      subst hb
      have := hj a ha
      unfold JumpOk at this
      simp only
      omega
  case case12 =>
    rename_i pos ls save acc iters jumps ls' c pos1 h1 hc1 hc2 hz acc' lab pos3 h3 ih
    obtain ⟨new, e, hj, hp⟩ := ih
    have e1 := fetchByte_ok h1
    have e3 := fetchLabel_ok h3
    refine ⟨new, e, ?_, hp⟩
    intro j hjm
    exact (hj j hjm).weaken (by simp only [ls']; split <;> omega)
  all_goals exact ⟨[], by simp, by simp, by simp⟩

theorem nameLoop_iters (bs : Bytes) (isHost : Bool) (pos ls save : Nat) (acc : BStr) (iters : Nat)
    (jumps : List (Nat × Nat × Nat)) :
    (nameLoop bs isHost pos ls save acc iters jumps).iters ≤
      iters + (min ls pos) * (bs.size + 1) + (bs.size - pos) + 1 := by
  fun_induction nameLoop bs isHost pos ls save acc iters jumps
  case case7 =>
    rename_i pos ls save acc iters jumps ls' c pos1 h1 hc c2 pos2 h2 offset hge save' hsz ih
    have hls : ls' = min ls pos := by simp only [ls']; split <;> omega
    have hm : min ls' offset = offset := by omega
    rw [hm] at ih
    have key : offset * (bs.size + 1) + (bs.size + 1) ≤ (min ls pos) * (bs.size + 1) := by
      have := Nat.mul_le_mul_right (bs.size + 1) (show offset + 1 ≤ min ls pos by omega)
      rw [Nat.add_mul, Nat.one_mul] at this
      exact this
    omega
  case case12 =>
    rename_i pos ls save acc iters jumps ls' c pos1 h1 hc1 hc2 hz acc' lab pos3 h3 ih
    have e1 := fetchByte_ok h1
    have e3 := fetchLabel_ok h3
    have hm : min ls' pos3 = min ls pos := by simp only [ls']; split <;> omega
    rw [hm] at ih
    omega
  all_goals (simp only; omega)

/-! ## one iteration of the loop, by what the byte at the cursor is -/

/-- `label_start` after the update at the top of the loop -/
def lsNext (ls pos : Nat) : Nat := if ls > pos then pos else ls

theorem nameLoop_end {bs : Bytes} {isHost : Bool} {pos ls save : Nat} {acc : BStr} {iters : Nat}
    {jumps : List (Nat × Nat × Nat)} (h : pos < bs.size) (hc : bs[pos] = 0) :
    nameLoop bs isHost pos ls save acc iters jumps =
      ⟨.ok acc (if save ≠ 0 then save else pos + 1), iters + 1, jumps⟩ := by
  rw [nameLoop]
  have hf : fetchByte bs pos = .ok 0 (pos + 1) := by
    rw [fetchByte_eq (by omega), dif_pos h, hc]
  simp only
  split
  · rename_i e he; rw [hf] at he; simp at he
  · rename_i e he; rw [hf] at he; simp at he
  · rename_i c pos1 he
    rw [hf] at he
    injection he with h1 h2
    subst h1; subst h2
    simp

theorem nameLoop_label {bs : Bytes} {isHost : Bool} {pos ls save : Nat} {acc : BStr} {iters : Nat}
    {jumps : List (Nat × Nat × Nat)} (h : pos < bs.size) (hc0 : bs[pos] ≠ 0) (hc1 : bs[pos] &&& 0xC0 = 0)
    (hfit : pos + 1 + bs[pos].toNat ≤ bs.size)
    (hhost : ¬ (isHost = true ∧ (!(slice bs (pos + 1) bs[pos].toNat).all fun c => isHostnameCh c.toNat) = true)) :
    nameLoop bs isHost pos ls save acc iters jumps =
      nameLoop bs isHost (pos + 1 + bs[pos].toNat) (lsNext ls pos) save
        ((if acc.length ≠ 0 then acc ++ [chDot] else acc) ++ escapeLabel (slice bs (pos + 1) bs[pos].toNat))
        (iters + 1) jumps := by
  rw [nameLoop]
  have hf : fetchByte bs pos = .ok bs[pos] (pos + 1) := by
    rw [fetchByte_eq (by omega), dif_pos h]
  have hne : bs[pos].toNat ≠ 0 := by
    intro h0
    apply hc0
    exact UInt8.toNat_inj.1 (by simpa using h0)
  have hl : fetchLabel bs isHost bs[pos].toNat (pos + 1) =
      .ok (escapeLabel (slice bs (pos + 1) bs[pos].toNat)) (pos + 1 + bs[pos].toNat) := by
    rw [fetchLabel_eq (by omega), if_pos ⟨hne, hfit⟩, if_neg hhost]
  simp only
  split
  · rename_i e he; rw [hf] at he; simp at he
  · rename_i e he; rw [hf] at he; simp at he
  · rename_i c pos1 he
    rw [hf] at he
    injection he with h1 h2
    subst h1; subst h2
    have hcc : ¬ (bs[pos] &&& 0xC0 = 0xC0) := by rw [hc1]; decide
    rw [if_neg hcc, if_neg (by simpa using hc1), if_neg hc0]
    split
    · rename_i e he; rw [hl] at he; simp at he
    · rename_i e he; rw [hl] at he; simp at he
    · rename_i lab pos3 he
      rw [hl] at he
      injection he with h1 h2
      subst h1; subst h2
      rfl

theorem nameLoop_ptr {bs : Bytes} {isHost : Bool} {pos ls save : Nat} {acc : BStr} {iters : Nat}
    {jumps : List (Nat × Nat × Nat)} (h : pos + 1 < bs.size) (hc : bs[pos] &&& 0xC0 = 0xC0)
    (hback : ptrOffset bs[pos] bs[pos + 1] < lsNext ls pos) :
    nameLoop bs isHost pos ls save acc iters jumps =
      nameLoop bs isHost (ptrOffset bs[pos] bs[pos + 1]) (lsNext ls pos) (if save = 0 then pos + 2 else save) acc
        (iters + 1) ((pos, ptrOffset bs[pos] bs[pos + 1], lsNext ls pos) :: jumps) := by
  rw [nameLoop]
  have hf : fetchByte bs pos = .ok bs[pos] (pos + 1) := by
    rw [fetchByte_eq (by omega), dif_pos (by omega)]
  have hf2 : fetchByte bs (pos + 1) = .ok bs[pos + 1] (pos + 1 + 1) := by
    rw [fetchByte_eq (by omega), dif_pos h]
  simp only
  split
  · rename_i e he; rw [hf] at he; simp at he
  · rename_i e he; rw [hf] at he; simp at he
  · rename_i c pos1 he
    rw [hf] at he
    injection he with h1 h2
    subst h1; subst h2
    rw [if_pos hc]
    split
    · rename_i e he; rw [hf2] at he; simp at he
    · rename_i e he; rw [hf2] at he; simp at he
    · rename_i c2 pos2 he
      rw [hf2] at he
      injection he with h1 h2
      subst h1; subst h2
      have hls : lsNext ls pos ≤ pos := by unfold lsNext; split <;> omega
      have h1 : ¬ (ptrOffset bs[pos] bs[pos + 1] ≥ if ls > pos then pos else ls) := by
        unfold lsNext at hback; omega
      have h2 : ¬ (ptrOffset bs[pos] bs[pos + 1] > bs.size) := by omega
      rw [if_neg h1, if_neg h2]
      rfl

theorem nameLoop_ptr_reject {bs : Bytes} {isHost : Bool} {pos ls save : Nat} {acc : BStr} {iters : Nat}
    {jumps : List (Nat × Nat × Nat)} (h : pos + 1 < bs.size) (hc : bs[pos] &&& 0xC0 = 0xC0)
    (hfwd : ptrOffset bs[pos] bs[pos + 1] ≥ lsNext ls pos) :
    nameLoop bs isHost pos ls save acc iters jumps = ⟨.err .ebadname, iters + 1, jumps⟩ := by
  rw [nameLoop]
  have hf : fetchByte bs pos = .ok bs[pos] (pos + 1) := by
    rw [fetchByte_eq (by omega), dif_pos (by omega)]
  have hf2 : fetchByte bs (pos + 1) = .ok bs[pos + 1] (pos + 1 + 1) := by
    rw [fetchByte_eq (by omega), dif_pos h]
  simp only
  split
  · rename_i e he; rw [hf] at he; simp at he
  · rename_i e he; rw [hf] at he; simp at he
  · rename_i c pos1 he
    rw [hf] at he
    injection he with h1 h2
    subst h1; subst h2
    rw [if_pos hc]
    split
    · rename_i e he; rw [hf2] at he; simp at he
    · rename_i e he; rw [hf2] at he; simp at he
    · rename_i c2 pos2 he
      rw [hf2] at he
      injection he with h1 h2
      subst h1; subst h2
      have h1 : ptrOffset bs[pos] bs[pos + 1] ≥ if ls > pos then pos else ls := hfwd
      rw [if_pos h1]

end Cares.Dns
