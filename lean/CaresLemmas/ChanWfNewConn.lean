import CaresLemmas.ChanWfAttach
/-!
# C01 — opening a connection (`ares_open_connection`): a virtual socket is allocated; on success the connection
enters the store and its server's list
-/
namespace Cares.Chan

def Sk.addSock (a : Sk) : Sk := { a with nextFd := a.nextFd + 1, socks := a.socks ++ [a.nextFd] }

def Sk.addConn (a : Sk) (fd srvId : Nat) (tcp : Bool) : Sk :=
  ({ a with conns := a.conns ++ [⟨fd, srvId, tcp, false, []⟩] } : Sk).modS srvId fun v =>
    { v with conns := if tcp then v.conns ++ [fd] else fd :: v.conns, tcpConn := if tcp then some fd else v.tcpConn }

theorem wf_addSock {a : Sk} {hole} (h : WfS a hole) : WfS a.addSock hole := by
  refine ⟨h.q, h.i, h.t, ?_, h.s, h.k, h.tok⟩
  have hc := h.c
  exact ⟨hc.nodup, fun c hcm => Nat.lt_succ_of_lt (hc.lt c hcm),
    fun c hcm => List.mem_append.mpr (Or.inl (hc.sock c hcm)), hc.qNodup, hc.cq, hc.qc⟩

theorem step_addSock {xf xi d} {a : Sk} : StepS xf xi d a a.addSock :=
  StepS.of_same rfl rfl rfl rfl rfl rfl rfl (fun _ q hm _ => ⟨q, hm, fun _ hx => hx⟩)

theorem debt_addSock {x d} {a : Sk} (hd : DebtOk x d a) : DebtOk x d a.addSock := hd.congr rfl rfl rfl rfl rfl

section
variable {a : Sk} {fd srvId : Nat} {tcp : Bool}

theorem addConn_cFQ : (a.addConn fd srvId tcp).cFQ = a.cFQ ++ [(fd, [])] := by
  simp [Sk.addConn, Sk.modS, Sk.cFQ]
theorem addConn_cF4 : (a.addConn fd srvId tcp).cF4 = a.cF4 ++ [(fd, false, srvId, tcp)] := by
  simp [Sk.addConn, Sk.modS, Sk.cF4]
theorem addConn_cFUQ : (a.addConn fd srvId tcp).cFUQ = a.cFUQ ++ [(fd, false, [])] := by
  simp [Sk.addConn, Sk.modS, Sk.cFUQ]

theorem mem_servers_addConn {v : SSk} : v ∈ (a.addConn fd srvId tcp).servers ↔
    ∃ v1 ∈ a.servers, v = if v1.id = srvId then
      { v1 with conns := if tcp then v1.conns ++ [fd] else fd :: v1.conns,
                tcpConn := if tcp then some fd else v1.tcpConn } else v1 := by
  simp only [Sk.addConn, Sk.modS, List.mem_map, beq_iff_eq]
  constructor <;> rintro ⟨c1, h1, rfl⟩ <;> exact ⟨c1, h1, rfl⟩

theorem addConn_server_ids : (a.addConn fd srvId tcp).servers.map (·.id) = a.servers.map (·.id) := by
  simp only [Sk.addConn, Sk.modS, List.map_map]
  apply List.map_congr_left; intro x _; simp only [Function.comp]; split <;> rfl

theorem wf_addConn (h : WfS a none) (hlt : fd < a.nextFd) (hs : fd ∈ a.socks) (hfresh : ∀ c ∈ a.cFQ, c.1 ≠ fd)
    (hsrv : ∃ v ∈ a.servers, v.id = srvId) : WfS (a.addConn fd srvId tcp) none := by
  have hc := h.c
  have hsv := h.s
  -- a descriptor listed by a server is not the fresh one
  have listed_ne : ∀ fd' u v t, (fd', u, v, t) ∈ a.cF4 → fd' ≠ fd := by
    intro fd' u v t hm
    obtain ⟨c, hcm, he⟩ := mem_cF4.mp hm
    simp only [Prod.mk.injEq] at he
    rw [he.1]
    exact hfresh (c.fd, c.queries) (mem_cFQ.mpr ⟨c, hcm, rfl⟩)
  refine ⟨h.q, h.i, h.t, ?_, ?_, h.k, h.tok⟩
  · rw [addConn_cFQ]
    show WfCP a.qKC a.idx (a.cFQ ++ [(fd, [])]) a.nextFd a.socks none
    refine ⟨?_, ?_, ?_, ?_, ?_, ?_⟩
    · rw [List.map_append, List.nodup_append]
      refine ⟨hc.nodup, by simp, fun x hx y hy => ?_⟩
      obtain ⟨c, hcm, rfl⟩ := List.mem_map.mp hx
      simp only [List.map_cons, List.map_nil, List.mem_singleton] at hy
      rw [hy]; exact hfresh c hcm
    · intro c hcm
      rcases List.mem_append.mp hcm with hcm | hcm
      · exact hc.lt c hcm
      · rw [List.mem_singleton.mp hcm]; exact hlt
    · intro c hcm
      rcases List.mem_append.mp hcm with hcm | hcm
      · exact hc.sock c hcm
      · rw [List.mem_singleton.mp hcm]; exact hs
    · intro c hcm
      rcases List.mem_append.mp hcm with hcm | hcm
      · exact hc.qNodup c hcm
      · rw [List.mem_singleton.mp hcm]; exact List.nodup_nil
    · intro c hcm k hk
      rcases List.mem_append.mp hcm with hcm | hcm
      · exact hc.cq c hcm k hk
      · rw [List.mem_singleton.mp hcm] at hk; cases hk
    · intro p hp fd' hfd'
      obtain ⟨c, hcm, h1, h2⟩ := hc.qc p hp fd' hfd'
      exact ⟨c, List.mem_append.mpr (Or.inl hcm), h1, h2⟩
  · rw [addConn_cF4]
    refine ⟨by rw [addConn_server_ids]; exact hsv.nodup, ?_, ?_, ?_, ?_⟩
    rotate_left 3
    · intro fd' srv t hm
      -- the image of a server lists at least what the server listed
      have img : ∀ v1 ∈ a.servers, ∀ x ∈ v1.conns, ∃ v ∈ (a.addConn fd srvId tcp).servers, v.id = v1.id ∧ x ∈ v.conns := by
        intro v1 hv1 x hx
        refine ⟨_, mem_servers_addConn.mpr ⟨v1, hv1, rfl⟩, by split <;> rfl, ?_⟩
        split
        · show x ∈ (if tcp = true then v1.conns ++ [fd] else fd :: v1.conns)
          split
          · exact List.mem_append.mpr (Or.inl hx)
          · exact List.mem_cons_of_mem _ hx
        · exact hx
      rcases List.mem_append.mp hm with hm | hm
      · obtain ⟨v1, hv1, hid, hx⟩ := hsv.linked fd' srv t hm
        obtain ⟨v, hv, hvid, hvx⟩ := img v1 hv1 fd' hx
        exact ⟨v, hv, hvid.trans hid, hvx⟩
      · simp only [List.mem_singleton, Prod.mk.injEq] at hm
        obtain ⟨v1, hv1, hid⟩ := hsrv
        refine ⟨_, mem_servers_addConn.mpr ⟨v1, hv1, rfl⟩, ?_, ?_⟩
        · rw [hm.2.2.1, ← hid]; split <;> rfl
        · rw [hm.1, if_pos hid]
          show fd ∈ (if tcp = true then v1.conns ++ [fd] else fd :: v1.conns)
          split
          · exact List.mem_append.mpr (Or.inr (List.mem_singleton.mpr rfl))
          · exact List.mem_cons_self
    · intro v hv
      obtain ⟨v1, hv1, rfl⟩ := mem_servers_addConn.mp hv
      have hnot : fd ∉ v1.conns := fun hm => by
        obtain ⟨t, ht⟩ := hsv.conns v1 hv1 fd hm
        exact listed_ne _ _ _ _ ht rfl
      split
      · show (if tcp = true then v1.conns ++ [fd] else fd :: v1.conns).Nodup
        split
        · rw [List.nodup_append]
          exact ⟨hsv.connsNodup v1 hv1, by simp, fun x hx y hy => by
            rw [List.mem_singleton.mp hy]; exact fun he => hnot (he ▸ hx)⟩
        · exact List.nodup_cons.mpr ⟨hnot, hsv.connsNodup v1 hv1⟩
      · exact hsv.connsNodup v1 hv1
    · intro v hv fd' hfd'
      obtain ⟨v1, hv1, rfl⟩ := mem_servers_addConn.mp hv
      by_cases hid : v1.id = srvId
      · simp only [hid, ↓reduceIte] at hfd' ⊢
        have : fd' ∈ v1.conns ∨ fd' = fd := by
          split at hfd'
          · rcases List.mem_append.mp hfd' with h1 | h1
            · exact Or.inl h1
            · exact Or.inr (List.mem_singleton.mp h1)
          · rcases List.mem_cons.mp hfd' with h1 | h1
            · exact Or.inr h1
            · exact Or.inl h1
        rcases this with h1 | h1
        · obtain ⟨t, ht⟩ := hsv.conns v1 hv1 fd' h1
          exact ⟨t, List.mem_append.mpr (Or.inl (by rw [← hid]; exact ht))⟩
        · exact ⟨tcp, List.mem_append.mpr (Or.inr (by rw [h1]; exact List.mem_singleton.mpr rfl))⟩
      · simp only [hid, ↓reduceIte] at hfd' ⊢
        obtain ⟨t, ht⟩ := hsv.conns v1 hv1 fd' hfd'
        exact ⟨t, List.mem_append.mpr (Or.inl ht)⟩
    · intro v hv fd' hfd'
      obtain ⟨v1, hv1, rfl⟩ := mem_servers_addConn.mp hv
      by_cases hid : v1.id = srvId
      · simp only [hid, ↓reduceIte] at hfd' ⊢
        by_cases htcp : tcp = true
        · simp only [htcp, ↓reduceIte, Option.some.injEq] at hfd'
          rw [← hfd', htcp]
          exact List.mem_append.mpr (Or.inr (List.mem_singleton.mpr rfl))
        · simp only [htcp, Bool.false_eq_true, ↓reduceIte] at hfd'
          have := hsv.tcp v1 hv1 fd' hfd'
          exact List.mem_append.mpr (Or.inl (by rw [← hid]; exact this))
      · simp only [hid, ↓reduceIte] at hfd' ⊢
        exact List.mem_append.mpr (Or.inl (hsv.tcp v1 hv1 fd' hfd'))

theorem step_addConn {xf xi d} : StepS xf xi d a (a.addConn fd srvId tcp) :=
  StepS.of_same rfl rfl rfl rfl rfl rfl rfl
    (fun _ q hm _ => ⟨q, by rw [addConn_cFUQ]; exact List.mem_append.mpr (Or.inl hm), fun _ hx => hx⟩)

theorem debt_addConn {x d} (hd : DebtOk x d a) : DebtOk x d (a.addConn fd srvId tcp) :=
  hd.congr rfl rfl rfl rfl rfl

theorem hasConn_addConn : (a.addConn fd srvId tcp).hasConn fd false :=
  ⟨[], by rw [addConn_cFUQ]; exact List.mem_append.mpr (Or.inr (List.mem_singleton.mpr rfl))⟩

end

end Cares.Chan
