import CaresLemmas.ClientWalkGaiStep
import CaresLemmas.ClientWalkSearch
/-! The `gai` client of the channel model simulates `gaiLoop` of model (A), candidate by candidate;
    each candidate receives `famCount family` completions (a *group*). -/
namespace Cares.ClientWalk
open Cares.Chan Cares.Text Cares.Proto

/-- all nodes the completions of one candidate delivered, in arrival order -/
def grpNodes (grp : List Ev) : List String := grp.flatMap evNodes
/-- `ai->name` after the completions of one candidate -/
def grpAiName (grp : List Ev) : String := grp.foldl evAiName ""
/-- the candidate's outcome (judged at its last completion) -/
def grpStatus (grp : List Ev) : Chan.Status :=
  match grp.getLast? with
  | none => .timeout
  | some e => candOut (grpNodes grp) e
/-- … as an outcome of model (A) -/
def grpOutcome (grp : List Ev) : Outcome := stMap (grpStatus grp)
/-- the digest of a request that finishes at this candidate -/
def grpDigest (grp : List Ev) : String :=
  match grp.getLast? with
  | none => "ai="
  | some e => candDigest (grpNodes grp) (grpAiName grp) e

theorem GSt.cast {c name fam lr cand rest any k k' A A' ai ai'} (h : GSt c name fam lr cand rest any k A ai)
    (hk : k = k') (hA : A = A') (hai : ai = ai') : GSt c name fam lr cand rest any k' A' ai' := by
  subst hk hA hai; exact h

theorem famCount_pos (fam : Nat) : 0 < famCount fam := by
  unfold famCount; split
  · omega
  · split <;> omega

theorem evAiName_of_nodes_nil (ai : String) (e : Ev) (h : evNodes e = []) : evAiName ai e = ai := by
  unfold evNodes at h
  unfold evAiName
  split
  · rename_i r hr
    have hE : effSt e.st e.reply = effSt e.st (some r) := by rw [hr]
    rw [hr] at h
    rw [hE]
    by_cases hok : (effSt e.st (some r) == Chan.Status.ok) = true
    · simp only [hok, ↓reduceIte] at h
      have : r.an = 0 := Classical.byContradiction fun hn => replyNodes_ne_nil r hn h
      simp [this]
    · simp [hok]
  · rfl

theorem foldl_evAiName_nil (pre : List Ev) (ai : String) (h : pre.flatMap evNodes = []) :
    pre.foldl evAiName ai = ai := by
  induction pre generalizing ai with
  | nil => rfl
  | cons e pre ih =>
    simp only [List.flatMap_cons, List.append_eq_nil_iff] at h
    rw [List.foldl_cons, evAiName_of_nodes_nil ai e h.1, ih ai h.2]

theorem candOut_soft_nodes (last : String) (nodes : List String) (e : Ev)
    (h : softB last (candOut nodes e) = true) : nodes = [] := by
  unfold candOut softB at h
  cases hn : nodes with
  | nil => rfl
  | cons a l =>
    rw [hn] at h
    simp only [List.isEmpty_cons, Bool.not_false, ↓reduceIte] at h
    split at h
    · rename_i hd
      simp only [Bool.or_eq_true, beq_iff_eq] at hd
      rcases hd with hd | hd <;> rw [hd] at h <;> simp at h
    · simp at h

theorem candDigest_soft (last : String) (nodes : List String) (ai : String) (e : Ev)
    (h : softB last (candOut nodes e) = true) : candDigest nodes ai e = "ai=" := by
  have := candOut_soft_nodes last nodes e h
  subst this
  unfold candDigest
  simp

/-- the completions before the candidate's last one only collect -/
theorem gai_pre (cfg : Cfg) {name fam lr cand rest any} (pre : List Ev) :
    ∀ (c : Client) (A : List String) (ai : String) (k : Nat) (es : List Ev) (w : Walk), w.fin = none →
      GSt c name fam lr cand rest any (k + 1 + pre.length) A ai →
      ∃ c', walkFrom cfg c (pre ++ es) w = walkFrom cfg c' es w ∧
        GSt c' name fam lr cand rest any (k + 1) (A ++ pre.flatMap evNodes) (pre.foldl evAiName ai) := by
  induction pre with
  | nil => intro c A ai k es w _ h; exact ⟨c, rfl, h.cast rfl (by simp) rfl⟩
  | cons e pre ih =>
    intro c A ai k es w hw h
    have h' := (h.cast (k' := k + pre.length + 2) (by simp only [List.length_cons]; omega) rfl rfl).setQids e.qids
    obtain ⟨hst, hacts⟩ := gai_step_mid cfg h' e
    obtain ⟨c', hwalk, hc'⟩ := ih _ _ _ k es w hw (hst.cast (by omega) rfl rfl)
    refine ⟨c', ?_, hc'.cast rfl (by simp) rfl⟩
    simp only [List.cons_append, walkFrom, hw, Option.isSome_none, Bool.false_eq_true, ↓reduceIte, hacts]
    exact hwalk

theorem searchLoop_len_pos (cand : Name) (rest : List Name) (os : List Outcome) (ever : Bool) :
    0 < (searchLoop true (cand :: rest) os ever []).1.length := by
  cases os with
  | nil => rw [searchLoop_nil_os]; simp
  | cons o os =>
    cases rest with
    | nil => rw [searchLoop_single]; simp
    | cons m ms => rw [searchLoop_cons_cons]; split <;> simp

/-- the `.finish` action `f` is the one the candidate whose completions are `win` produces: its digest, and
    its status unless all candidates soft-failed and one of them had no data (then ENODATA, no addresses) -/
def FinOk (f : Chan.Status × Nat × String) (win : List Ev) : Prop :=
  f.2.2 = grpDigest win ∧ (f.1 = grpStatus win ∨ (f.1 = .nodata ∧ f.2.2 = "ai="))

/-- what model (A)'s names look like on the wire of the `gai` client -/
def tagFam (fam : Nat) (l : List Name) : List (String × Nat) := l.flatMap fun n => famSpecs fam (hex n)

/-- facts about a complete group `pre ++ [e]` -/
theorem grp_concat (pre : List Ev) (e : Ev) :
    grpStatus (pre ++ [e]) = candOut (([] ++ pre.flatMap evNodes) ++ evNodes e) e ∧
    grpDigest (pre ++ [e]) =
      candDigest (([] ++ pre.flatMap evNodes) ++ evNodes e) (evAiName (pre.foldl evAiName "") e) e := by
  simp [grpStatus, grpDigest, grpNodes, grpAiName, List.flatMap_append, List.foldl_append]

/-- the `gai` client with all sub-requests of `cand` outstanding, fed whole groups of completions and then
    an incomplete one: the sub-requests it starts are those of the candidates `gaiLoop` walks, it finishes
    with `gaiLoop`'s status once the groups suffice, and the digest is that of the group it finished on -/
theorem gai_sim (cfg : Cfg) (name : String) (fam : Nat) (lr : List Char) (hloc : isLocalhost name = false)
    (rest : List Name) :
    ∀ (cand : Name) (c : Client) (any : Bool) (grps : List (List Ev)) (tail : List Ev) (S : List (String × Nat)),
      Ser cand → (∀ n ∈ rest, Ser n) → GSt c name fam lr cand rest any (famCount fam) [] "" →
      (∀ g ∈ grps, g.length = famCount fam) → tail.length < famCount fam →
      (walkFrom cfg c (grps.flatten ++ tail) ⟨S ++ famSpecs fam (hex cand), none⟩).sent =
          S ++ tagFam fam (searchLoop true (cand :: rest) (grps.map grpOutcome) any []).1 ∧
      (walkFrom cfg c (grps.flatten ++ tail) ⟨S ++ famSpecs fam (hex cand), none⟩).fin.map (fun f => stMap f.1) =
          (if (searchLoop true (cand :: rest) (grps.map grpOutcome) any []).1.length ≤ grps.length
           then some (searchLoop true (cand :: rest) (grps.map grpOutcome) any []).2 else none) ∧
      (∀ f, (walkFrom cfg c (grps.flatten ++ tail) ⟨S ++ famSpecs fam (hex cand), none⟩).fin = some f →
          FinOk f (grps.getD
            ((searchLoop true (cand :: rest) (grps.map grpOutcome) any []).1.length - 1) [])) := by
  induction rest with
  | nil =>
    intro cand c any grps tail S hc _ hst hlen htail
    cases grps with
    | nil =>
      obtain ⟨c', hw, _⟩ := gai_pre cfg tail c [] "" (famCount fam - 1 - tail.length) []
        ⟨S ++ famSpecs fam (hex cand), none⟩ rfl (hst.cast (by omega) rfl rfl)
      simp only [List.flatten_nil, List.nil_append, List.map_nil, searchLoop_nil_os]
      rw [← List.append_nil tail, hw]
      simp [walkFrom, tagFam]
    | cons grp grps =>
      have hg := hlen grp (by simp)
      rcases List.eq_nil_or_concat grp with rfl | ⟨pre, e, rfl⟩
      · have := famCount_pos fam; simp at hg; omega
      rw [List.concat_eq_append] at hg ⊢
      obtain ⟨c', hw, hc'⟩ := gai_pre cfg pre c [] "" 0 (e :: (grps.flatten ++ tail))
        ⟨S ++ famSpecs fam (hex cand), none⟩ rfl (hst.cast (by simp at hg; omega) rfl rfl)
      have hc'' := hc'.setQids e.qids
      obtain ⟨hgs, hgd⟩ := grp_concat pre e
      have hgo : grpOutcome (pre ++ [e]) = stMap (candOut (([] ++ pre.flatMap evNodes) ++ evNodes e) e) := by
        rw [grpOutcome, hgs]
      have hwalk : walkFrom cfg c ((((pre ++ [e]) :: grps).flatten) ++ tail) ⟨S ++ famSpecs fam (hex cand), none⟩ =
          walkFrom cfg c' (e :: (grps.flatten ++ tail)) ⟨S ++ famSpecs fam (hex cand), none⟩ := by
        rw [← hw]; simp
      rw [hwalk]
      simp only [walkFrom, Option.isSome_none, Bool.false_eq_true, ↓reduceIte, List.map_cons, searchLoop_single,
        hgo, soft_stMap cand hc]
      by_cases hs : softB (hex cand) (candOut (([] ++ pre.flatMap evNodes) ++ evNodes e) e) = true
      · obtain ⟨t, hacts⟩ := gai_step_last cfg hc'' e hs
        simp only [hacts, walkFrom_fin, Option.isSome_some, hs, Bool.not_true, Bool.false_eq_true, ↓reduceIte,
          stMap_beq_nodata, tagFam]
        refine ⟨by simp, ?_, ?_⟩
        · simp only [Option.map_some, List.length_cons, List.length_nil]
          split <;> simp [stMap]
        · intro f hf
          simp only [Option.some.injEq] at hf
          subst hf
          have hd := candDigest_soft _ _ (evAiName (List.foldl evAiName "" pre) e) _ hs
          rw [← hgd] at hd
          simp only [FinOk, List.length_cons, List.length_nil, Nat.zero_add, Nat.sub_self, List.getD_cons_zero, hd,
            hgs, true_and]
          split <;> simp
      · have hs' : softB (hex cand) (candOut (([] ++ pre.flatMap evNodes) ++ evNodes e) e) = false := by
          simpa using hs
        obtain ⟨t, hacts⟩ := gai_step_hard cfg hc'' e hs'
        simp only [hacts, walkFrom_fin, Option.isSome_some, hs', Bool.not_false, ↓reduceIte, tagFam]
        refine ⟨by simp, by simp, ?_⟩
        intro f hf
        simp only [Option.some.injEq] at hf
        subst hf
        simp [FinOk, hgd, hgs]
  | cons n r ih =>
    intro cand c any grps tail S hc hr hst hlen htail
    cases grps with
    | nil =>
      obtain ⟨c', hw, _⟩ := gai_pre cfg tail c [] "" (famCount fam - 1 - tail.length) []
        ⟨S ++ famSpecs fam (hex cand), none⟩ rfl (hst.cast (by omega) rfl rfl)
      simp only [List.flatten_nil, List.nil_append, List.map_nil, searchLoop_nil_os]
      rw [← List.append_nil tail, hw]
      simp [walkFrom, tagFam]
    | cons grp grps =>
      have hg := hlen grp (by simp)
      rcases List.eq_nil_or_concat grp with rfl | ⟨pre, e, rfl⟩
      · have := famCount_pos fam; simp at hg; omega
      rw [List.concat_eq_append] at hg ⊢
      obtain ⟨c', hw, hc'⟩ := gai_pre cfg pre c [] "" 0 (e :: (grps.flatten ++ tail))
        ⟨S ++ famSpecs fam (hex cand), none⟩ rfl (hst.cast (by simp at hg; omega) rfl rfl)
      have hc'' := hc'.setQids e.qids
      obtain ⟨hgs, hgd⟩ := grp_concat pre e
      have hgo : grpOutcome (pre ++ [e]) = stMap (candOut (([] ++ pre.flatMap evNodes) ++ evNodes e) e) := by
        rw [grpOutcome, hgs]
      have hwalk : walkFrom cfg c ((((pre ++ [e]) :: grps).flatten) ++ tail) ⟨S ++ famSpecs fam (hex cand), none⟩ =
          walkFrom cfg c' (e :: (grps.flatten ++ tail)) ⟨S ++ famSpecs fam (hex cand), none⟩ := by
        rw [← hw]; simp
      rw [hwalk]
      simp only [walkFrom, Option.isSome_none, Bool.false_eq_true, ↓reduceIte, List.map_cons, searchLoop_cons_cons,
        hgo, soft_stMap cand hc]
      by_cases hs : softB (hex cand) (candOut (([] ++ pre.flatMap evNodes) ++ evNodes e) e) = true
      · obtain ⟨hacts, hnext⟩ := gai_step_next cfg hc'' hloc e hs
        have hnil := candOut_soft_nodes _ _ _ hs
        have hai : evAiName (pre.foldl evAiName "") e = "" := by
          simp only [List.nil_append, List.append_eq_nil_iff] at hnil
          rw [evAiName_of_nodes_nil _ e hnil.2, foldl_evAiName_nil pre "" hnil.1]
        have := ih n _ (any || candOut (([] ++ pre.flatMap evNodes) ++ evNodes e) e == .nodata) grps tail
          (S ++ famSpecs fam (hex cand)) (hr n (by simp)) (fun x hx => hr x (by simp [hx]))
          (hnext.cast rfl hnil hai) (fun g hg' => hlen g (by simp [hg'])) htail
        simp only [hacts, hs, Bool.not_true, Bool.false_eq_true, ↓reduceIte, stMap_beq_nodata]
        obtain ⟨h1, h2, h3⟩ := this
        refine ⟨?_, ?_, ?_⟩
        · rw [h1]; simp [tagFam]
        · rw [h2]; simp
        · intro f hf
          have key := h3 f hf
          have hpos := searchLoop_len_pos n r (List.map grpOutcome grps)
            (any || candOut (([] ++ pre.flatMap evNodes) ++ evNodes e) e == .nodata)
          simp only [List.length_cons, Nat.add_sub_cancel]
          generalize (searchLoop true (n :: r) _ _ []).1.length = L at hpos key ⊢
          cases L with
          | zero => omega
          | succ L => simpa using key
      · have hs' : softB (hex cand) (candOut (([] ++ pre.flatMap evNodes) ++ evNodes e) e) = false := by
          simpa using hs
        obtain ⟨t, hacts⟩ := gai_step_hard cfg hc'' e hs'
        simp only [hacts, walkFrom_fin, Option.isSome_some, hs', Bool.not_false, ↓reduceIte, tagFam]
        refine ⟨by simp, by simp, ?_⟩
        intro f hf
        simp only [Option.some.injEq] at hf
        subst hf
        simp [FinOk, hgd, hgs]

end Cares.ClientWalk
