import CaresLemmas.ChanPolicyProbe2Frame
import CaresLemmas.ChanPolicyWritesSend
import CaresLemmas.ChanPolicyFrame
/-!
# C09 — `probe_pending` is set only while a probe query exists (invariant `PXo`, state-level lemmas)

After the repair of F49-C09 (`server_probe_cb` resets `probe_pending` of the probed server on every way a probe query
can end) the flag satisfies an invariant of the whole model: **a server is marked as being probed only while a query
owned by `probe <that server>` is in the query store.**  This file defines the invariant with its ghost parameters
and proves it for every state helper; `ChanPolicyProbe3Exec.lean` carries it through every procedure body and `exec`.

The invariant reads `qs` (only through "who owns key `k`": `owner?`), `nextKey`, `servers`, `listCopy` and the length of
`modelFaults` (`pview`).  Ghost parameters (`Gh`), all universally quantified in the induction:

* hole `H` (separate argument): the one server id that may be flagged without a query — between
  `ares_probe_failed_server` setting the flag and `ares_send_nolock` creating the query, and for the callback of a
  probe whose query has already been released (`ares_cancel` walk);
* `D` *doomed* keys with their owners: queries between `ares_detach_query` and `ares_free_query` in an `end_query`
  frame below on the C stack — their owner cannot change and their key cannot be linked again;
* `m` height of the `listCopy` stack (every procedure leaves it as it found it);
* `C`, `n` *condemned* keys: the list an `ares_cancel` below on the stack is walking, at position `n` of the stack
  (from the bottom) — a condemned key that is still stored is still in that list (or doomed);
* `Z` released keys stay released; `K0`, `O0` the keys below `K0` keep the owners they had (`O0`) at the start;
* `L` the model-fault log does not shrink (used to tell a completed walk from one aborted by a model fault).
-/
namespace Cares.Chan
set_option linter.unusedVariables false

/-- what the invariant reads of a state -/
structure PV where
  qs : List Query
  nextKey : Nat
  servers : List Server
  listCopy : List (List Nat)
  mf : Nat

def pview (s : St) : PV := ⟨s.qs, s.nextKey, s.servers, s.listCopy, s.modelFaults.length⟩

/-- owner of the query stored under key `k` (the first entry with that key: what `St.query?` finds) -/
def PV.owner? (p : PV) (k : Nat) : Option Owner := (p.qs.find? (·.key == k)).map (·.owner)

theorem owner?_pview (s : St) (k : Nat) : (pview s).owner? k = (s.query? k).map (·.owner) := rfl

structure Gh where
  D : List (Nat × Owner)
  m : Nat
  C : List Nat
  n : Nat
  Z : List Nat
  K0 : Nat
  O0 : Nat → Option Owner
  L : Nat

/-- the server a completion callback with this owner releases -/
def holeOf : Owner → Option Nat
  | .probe pid => some pid
  | _ => none

theorem holeOf_some {o : Owner} {pid : Nat} (h : holeOf o = some pid) : o = .probe pid := by
  cases o <;> simp [holeOf] at h
  subst h; rfl

structure PXv (g : Gh) (H : Option Nat) (p : PV) : Prop where
  keys : ∀ k, (p.owner? k).isSome → k < p.nextKey
  base : g.K0 ≤ p.nextKey ∧ ∀ k o, k < g.K0 → p.owner? k = some o → g.O0 k = some o
  doom : ∀ e ∈ g.D, e.1 < p.nextKey ∧ ∀ o, p.owner? e.1 = some o → o = e.2
  flag : ∀ v ∈ p.servers, v.probePending = true → some v.id = H ∨ ∃ k, p.owner? k = some (.probe v.id)
  depth : p.listCopy.length = g.m
  lt : g.C ≠ [] → g.n < g.m
  cond : ∀ k ∈ g.C, k < p.nextKey ∧
    ((p.owner? k).isSome → k ∈ g.D.map (·.1) ∨ ∃ l, p.listCopy.reverse[g.n]? = some l ∧ k ∈ l)
  gone : ∀ k ∈ g.Z, k < p.nextKey ∧ p.owner? k = none
  mf : g.L ≤ p.mf

/-- the invariant modulo fuel (the flag is sticky; a run that ran out of fuel stopped in the middle of a C function) -/
def PXo (g : Gh) (H : Option Nat) (s : St) : Prop := s.outOfFuel = true ∨ PXv g H (pview s)

/-! ### view-level lemmas -/

section
variable {g : Gh} {H : Option Nat} {p p' : PV}

/-- old keys keep their owners, no flag is set, the stack and the fault log are as before (or longer) -/
theorem PXv.transfer (h : PXv g H p) (hn : p.nextKey ≤ p'.nextKey)
    (hk : ∀ k, (p'.owner? k).isSome → k < p'.nextKey)
    (ho : ∀ k, k < p.nextKey → p'.owner? k = p.owner? k)
    (hs : ∀ v ∈ p'.servers, v.probePending = true → ∃ w ∈ p.servers, w.id = v.id ∧ w.probePending = true)
    (hl : p'.listCopy = p.listCopy) (hm : p.mf ≤ p'.mf) : PXv g H p' := by
  refine ⟨hk, ⟨Nat.le_trans h.base.1 hn, ?_⟩, ?_, ?_, ?_, h.lt, ?_, ?_, Nat.le_trans h.mf hm⟩
  · intro k o hlt hko
    rw [ho k (Nat.lt_of_lt_of_le hlt h.base.1)] at hko
    exact h.base.2 k o hlt hko
  · intro e he
    obtain ⟨h1, h2⟩ := h.doom e he
    refine ⟨Nat.lt_of_lt_of_le h1 hn, fun o ho' => ?_⟩
    rw [ho _ h1] at ho'
    exact h2 o ho'
  · intro v hv hp
    obtain ⟨w, hw, hid, hwp⟩ := hs v hv hp
    rcases h.flag w hw hwp with hh | ⟨k, hk'⟩
    · exact Or.inl (by rw [← hid]; exact hh)
    · right
      have hlt : k < p.nextKey := h.keys k (by rw [hk']; rfl)
      exact ⟨k, by rw [ho k hlt, hk', hid]⟩
  · rw [hl]; exact h.depth
  · intro k hk'
    obtain ⟨h1, h2⟩ := h.cond k hk'
    refine ⟨Nat.lt_of_lt_of_le h1 hn, ?_⟩
    rw [ho k h1, hl]
    exact h2
  · intro k hk'
    obtain ⟨h1, h2⟩ := h.gone k hk'
    exact ⟨Nat.lt_of_lt_of_le h1 hn, by rw [ho k h1]; exact h2⟩

theorem owner?_map {qs : List Query} {f : Query → Query} (hf : ∀ q, (f q).key = q.key ∧ (f q).owner = q.owner)
    (p : PV) (k : Nat) : ({ p with qs := p.qs.map f } : PV).owner? k = p.owner? k := by
  unfold PV.owner?
  dsimp only
  rw [find?_map_key (fun q => (hf q).1)]
  cases p.qs.find? (·.key == k) with
  | none => rfl
  | some q => simp [(hf q).2]

/-- rewriting queries without touching key or owner -/
theorem PXv.mapQs {f : Query → Query} (hf : ∀ q, (f q).key = q.key ∧ (f q).owner = q.owner) (h : PXv g H p) :
    PXv g H { p with qs := p.qs.map f } := by
  have ho := owner?_map (qs := p.qs) hf p
  refine h.transfer (Nat.le_refl _) ?_ (fun k _ => ho k) (fun v hv hp => ⟨v, hv, rfl, hp⟩) rfl (Nat.le_refl _)
  intro k hk; rw [ho] at hk; exact h.keys k hk

/-- the servers change, but no flag is set -/
theorem PXv.setServers {sv : List Server}
    (hs : ∀ v ∈ sv, v.probePending = true → ∃ w ∈ p.servers, w.id = v.id ∧ w.probePending = true) (h : PXv g H p) :
    PXv g H { p with servers := sv } :=
  h.transfer (Nat.le_refl _) h.keys (fun _ _ => rfl) hs rfl (Nat.le_refl _)

theorem PXv.moreFaults {n : Nat} (hn : p.mf ≤ n) (h : PXv g H p) : PXv g H { p with mf := n } :=
  h.transfer (Nat.le_refl _) h.keys (fun _ _ => rfl) (fun v hv hp => ⟨v, hv, rfl, hp⟩) rfl hn

/-- a hole may be forgotten when no server with that id is flagged, and may always be added -/
theorem PXv.weaken (H' : Option Nat) (h : PXv g none p) : PXv g H' p := by
  refine ⟨h.keys, h.base, h.doom, fun v hv hp => ?_, h.depth, h.lt, h.cond, h.gone, h.mf⟩
  rcases h.flag v hv hp with hh | hh
  · cases hh
  · exact Or.inr hh

theorem PXv.fill {pid : Nat} (h : PXv g (some pid) p)
    (hf : (∀ v ∈ p.servers, v.id = pid → v.probePending = false) ∨ ∃ k, p.owner? k = some (.probe pid)) :
    PXv g none p := by
  refine ⟨h.keys, h.base, h.doom, fun v hv hp => ?_, h.depth, h.lt, h.cond, h.gone, h.mf⟩
  rcases h.flag v hv hp with hh | hh
  · right
    have hid : v.id = pid := by cases hh; rfl
    rcases hf with hf | hf
    · rw [hf v hv hid] at hp; cases hp
    · rw [hid]; exact hf
  · exact Or.inr hh

theorem owner?_append_lt {q : Query} (hq : q.key = p.nextKey) (hkeys : ∀ k, (p.owner? k).isSome → k < p.nextKey)
    (k : Nat) (hk : k ≠ p.nextKey) :
    ({ p with qs := p.qs ++ [q], nextKey := p.nextKey + 1 } : PV).owner? k = p.owner? k := by
  unfold PV.owner?
  dsimp only
  rw [List.find?_append]
  cases hf : p.qs.find? (·.key == k) with
  | some x => rfl
  | none =>
    have : (q.key == k) = false := by rw [hq]; simpa using fun e => hk e.symm
    simp [this]

theorem owner?_append_new {q : Query} (hq : q.key = p.nextKey) (hkeys : ∀ k, (p.owner? k).isSome → k < p.nextKey) :
    ({ p with qs := p.qs ++ [q], nextKey := p.nextKey + 1 } : PV).owner? p.nextKey = some q.owner := by
  unfold PV.owner?
  dsimp only
  rw [List.find?_append]
  cases hf : p.qs.find? (·.key == p.nextKey) with
  | some x =>
    have := hkeys p.nextKey (by unfold PV.owner?; rw [hf]; rfl)
    exact absurd this (Nat.lt_irrefl _)
  | none => simp [hq]

/-- `ares_send_nolock` stores a new query under the next key; if it is the probe the hole was waiting for, the hole
    is filled -/
theorem PXv.addQuery {q : Query} (hq : q.key = p.nextKey) (hH : ∀ pid, H = some pid → q.owner = .probe pid)
    (h : PXv g H p) : PXv g none { p with qs := p.qs ++ [q], nextKey := p.nextKey + 1 } := by
  have ho := owner?_append_lt (p := p) hq h.keys
  have hnew := owner?_append_new (p := p) hq h.keys
  have hk' : ∀ k, (({ p with qs := p.qs ++ [q], nextKey := p.nextKey + 1 } : PV).owner? k).isSome →
      k < p.nextKey + 1 := by
    intro k hk
    by_cases e : k = p.nextKey
    · omega
    · rw [ho k e] at hk; have := h.keys k hk; omega
  have h1 : PXv g H { p with qs := p.qs ++ [q], nextKey := p.nextKey + 1 } :=
    h.transfer (Nat.le_succ _) hk' (fun k hk => ho k (Nat.ne_of_lt hk)) (fun v hv hp => ⟨v, hv, rfl, hp⟩) rfl
      (Nat.le_refl _)
  cases H with
  | none => exact h1
  | some pid =>
    refine h1.fill (Or.inr ⟨p.nextKey, ?_⟩)
    rw [hnew, hH pid rfl]

/-! `freeQuery` / `detach` on the view -/

/-- the view after `ares_free_query k0` of a stored query: the entries with that key leave the store, the key leaves
    every list of the stack -/
def PV.free (p : PV) (k0 : Nat) (lc : List (List Nat)) : PV :=
  { p with qs := p.qs.filter (·.key != k0), listCopy := lc }

/-- the stack after a release: untouched (no such query) or the key erased from every list -/
def FreeLc (p : PV) (k0 : Nat) (lc : List (List Nat)) : Prop :=
  lc = p.listCopy ∨ lc = p.listCopy.map (·.erase k0)

theorem FreeLc.length {p : PV} {k0 : Nat} {lc : List (List Nat)} (h : FreeLc p k0 lc) :
    lc.length = p.listCopy.length := by
  rcases h with h | h <;> rw [h]
  rw [List.length_map]

theorem owner?_free_self (p : PV) (k0 : Nat) (lc : List (List Nat)) : (p.free k0 lc).owner? k0 = none := by
  unfold PV.owner? PV.free
  dsimp only
  rw [List.find?_filter]
  have : List.find? (fun a => decide ((a.key != k0) = true ∧ (a.key == k0) = true)) p.qs = none := by
    rw [List.find?_eq_none]
    intro q _
    by_cases hq : q.key = k0 <;> simp [hq]
  rw [this]; rfl

theorem find?_congr_px {α : Type} {p q : α → Bool} {l : List α} (h : ∀ x ∈ l, p x = q x) :
    l.find? p = l.find? q := by
  induction l with
  | nil => rfl
  | cons x r ih =>
    simp only [List.find?_cons, h x List.mem_cons_self]
    rw [ih (fun y hy => h y (List.mem_cons_of_mem _ hy))]

theorem owner?_free_ne (p : PV) {k0 k : Nat} (lc : List (List Nat)) (hne : k ≠ k0) :
    (p.free k0 lc).owner? k = p.owner? k := by
  unfold PV.owner? PV.free
  dsimp only
  rw [List.find?_filter]
  congr 1
  apply find?_congr_px
  intro q _
  by_cases hq : q.key == k
  · have : q.key ≠ k0 := by rw [beq_iff_eq.1 hq]; exact hne
    simp [hq, this]
  · simp [hq]

theorem reverse_map_getElem? {α β : Type} (f : α → β) (l : List α) (n : Nat) :
    (l.map f).reverse[n]? = (l.reverse[n]?).map f := by
  rw [← List.map_reverse, List.getElem?_map]

/-- the list part of `cond` survives erasing another key -/
theorem cond_list_erase {lc : List (List Nat)} {n k k0 : Nat} (hne : k ≠ k0)
    (h : ∃ l, lc.reverse[n]? = some l ∧ k ∈ l) : ∃ l, (lc.map (·.erase k0)).reverse[n]? = some l ∧ k ∈ l := by
  obtain ⟨l, hl, hk⟩ := h
  refine ⟨l.erase k0, ?_, (List.mem_erase_of_ne hne).2 hk⟩
  rw [reverse_map_getElem?, hl]; rfl

theorem cond_list_free {p : PV} {lc : List (List Nat)} {n k k0 : Nat} (hlc : FreeLc p k0 lc) (hne : k ≠ k0)
    (h : ∃ l, p.listCopy.reverse[n]? = some l ∧ k ∈ l) : ∃ l, lc.reverse[n]? = some l ∧ k ∈ l := by
  rcases hlc with e | e <;> rw [e]
  · exact h
  · exact cond_list_erase hne h

/-- `ares_free_query k0` in the `ares_cancel` / `ares_destroy` walk: the callback that follows is the one that
    releases the owner's server -/
theorem PXv.free {k0 : Nat} {o : Owner} {lc : List (List Nat)} (hlc : FreeLc p k0 lc)
    (hko : p.owner? k0 = some o) (h : PXv g none p) : PXv g (holeOf o) (p.free k0 lc) := by
  have hlt : k0 < p.nextKey := h.keys k0 (by rw [hko]; rfl)
  refine ⟨?_, ⟨h.base.1, ?_⟩, ?_, ?_, ?_, h.lt, ?_, ?_, h.mf⟩
  · intro k hk
    by_cases e : k = k0
    · subst e; exact hlt
    · rw [owner?_free_ne p lc e] at hk; exact h.keys k hk
  · intro k o' hk hko'
    by_cases e : k = k0
    · subst e; rw [owner?_free_self] at hko'; cases hko'
    · rw [owner?_free_ne p lc e] at hko'; exact h.base.2 k o' hk hko'
  · intro e he
    obtain ⟨h1, h2⟩ := h.doom e he
    refine ⟨h1, fun o' ho' => ?_⟩
    by_cases e' : e.1 = k0
    · rw [e', owner?_free_self] at ho'; cases ho'
    · rw [owner?_free_ne p lc e'] at ho'; exact h2 o' ho'
  · intro v hv hp
    rcases h.flag v hv hp with hh | ⟨k, hk⟩
    · cases hh
    · by_cases e : k = k0
      · subst e
        rw [hko] at hk
        cases hk
        exact Or.inl rfl
      · exact Or.inr ⟨k, by rw [owner?_free_ne p lc e]; exact hk⟩
  · show lc.length = g.m
    rw [hlc.length]; exact h.depth
  · intro k hk
    obtain ⟨h1, h2⟩ := h.cond k hk
    refine ⟨h1, fun hs => ?_⟩
    by_cases e : k = k0
    · subst e; rw [owner?_free_self] at hs; cases hs
    · rw [owner?_free_ne p lc e] at hs
      rcases h2 hs with hd | hl
      · exact Or.inl hd
      · exact Or.inr (cond_list_free hlc e hl)
  · intro k hk
    obtain ⟨h1, h2⟩ := h.gone k hk
    refine ⟨h1, ?_⟩
    by_cases e : k = k0
    · subst e; exact owner?_free_self p k lc
    · rw [owner?_free_ne p lc e]; exact h2

/-- the view after `ares_detach_query k0` of a stored query (the query stays in the store) -/
def PV.detached (p : PV) (k0 : Nat) (f : Query → Query) : PV :=
  { p with qs := p.qs.map f, listCopy := p.listCopy.map (·.erase k0) }

/-- `end_query`: the query is detached and becomes doomed -/
theorem PXv.detached {k0 : Nat} {o : Owner} {f : Query → Query}
    (hf : ∀ q, (f q).key = q.key ∧ (f q).owner = q.owner) (hko : p.owner? k0 = some o) (h : PXv g none p) :
    PXv { g with D := (k0, o) :: g.D } none (p.detached k0 f) := by
  have hlt : k0 < p.nextKey := h.keys k0 (by rw [hko]; rfl)
  have ho : ∀ k, (p.detached k0 f).owner? k = p.owner? k := owner?_map (qs := p.qs) hf p
  refine ⟨?_, ⟨h.base.1, ?_⟩, ?_, ?_, ?_, h.lt, ?_, ?_, h.mf⟩
  · intro k hk; rw [ho] at hk; exact h.keys k hk
  · intro k o' hk hko'; rw [ho] at hko'; exact h.base.2 k o' hk hko'
  · intro e he
    rcases List.mem_cons.1 he with rfl | he
    · refine ⟨hlt, fun o' ho' => ?_⟩
      rw [ho, hko] at ho'; cases ho'; rfl
    · obtain ⟨h1, h2⟩ := h.doom e he
      exact ⟨h1, fun o' ho' => h2 o' (by rw [ho] at ho'; exact ho')⟩
  · intro v hv hp
    rcases h.flag v hv hp with hh | ⟨k, hk⟩
    · cases hh
    · exact Or.inr ⟨k, by rw [ho]; exact hk⟩
  · show (p.listCopy.map _).length = g.m
    rw [List.length_map]; exact h.depth
  · intro k hk
    obtain ⟨h1, h2⟩ := h.cond k hk
    refine ⟨h1, fun hs => ?_⟩
    rw [ho] at hs
    by_cases e : k = k0
    · subst e; exact Or.inl (by simp)
    · rcases h2 hs with hd | hl
      · exact Or.inl (by simp only [List.map_cons, List.mem_cons]; exact Or.inr hd)
      · exact Or.inr (cond_list_erase e hl)
  · intro k hk
    obtain ⟨h1, h2⟩ := h.gone k hk
    exact ⟨h1, by rw [ho]; exact h2⟩

/-- `end_query`, after the callback: the doomed query is released.  `hrel`: if it was a probe, the callback has reset
    the flag of its server -/
theorem PXv.undoom {k0 : Nat} {o : Owner} {lc : List (List Nat)} {g' : Gh} (hlc : FreeLc p k0 lc)
    (hg : g' = { g with D := (k0, o) :: g.D })
    (hrel : ∀ pid, o = .probe pid → ∀ v ∈ p.servers, v.id = pid → v.probePending = false)
    (h : PXv g' none p) : PXv g none (p.free k0 lc) := by
  subst hg
  have hd0 := h.doom (k0, o) (by simp)
  refine ⟨?_, ⟨h.base.1, ?_⟩, ?_, ?_, ?_, h.lt, ?_, ?_, h.mf⟩
  · intro k hk
    by_cases e : k = k0
    · subst e; exact hd0.1
    · rw [owner?_free_ne p lc e] at hk; exact h.keys k hk
  · intro k o' hk hko'
    by_cases e : k = k0
    · subst e; rw [owner?_free_self] at hko'; cases hko'
    · rw [owner?_free_ne p lc e] at hko'; exact h.base.2 k o' hk hko'
  · intro e he
    obtain ⟨h1, h2⟩ := h.doom e (List.mem_cons_of_mem _ he)
    refine ⟨h1, fun o' ho' => ?_⟩
    by_cases e' : e.1 = k0
    · rw [e', owner?_free_self] at ho'; cases ho'
    · rw [owner?_free_ne p lc e'] at ho'; exact h2 o' ho'
  · intro v hv hp
    rcases h.flag v hv hp with hh | ⟨k, hk⟩
    · cases hh
    · by_cases e : k = k0
      · subst e
        have := hd0.2 _ hk
        have hf := hrel v.id this.symm v hv rfl
        rw [hf] at hp; cases hp
      · exact Or.inr ⟨k, by rw [owner?_free_ne p lc e]; exact hk⟩
  · show lc.length = g.m
    rw [hlc.length]; exact h.depth
  · intro k hk
    obtain ⟨h1, h2⟩ := h.cond k hk
    refine ⟨h1, fun hs => ?_⟩
    by_cases e : k = k0
    · subst e; rw [owner?_free_self] at hs; cases hs
    · rw [owner?_free_ne p lc e] at hs
      rcases h2 hs with hd | hl
      · left
        simp only [List.map_cons, List.mem_cons] at hd
        rcases hd with hd | hd
        · exact absurd hd e
        · exact hd
      · exact Or.inr (cond_list_free hlc e hl)
  · intro k hk
    obtain ⟨h1, h2⟩ := h.gone k hk
    refine ⟨h1, ?_⟩
    by_cases e : k = k0
    · subst e; exact owner?_free_self p k lc
    · rw [owner?_free_ne p lc e]; exact h2

/-! the `listCopy` stack -/

theorem reverse_cons_getElem?_lt {α : Type} (a : α) (l : List α) {n : Nat} (hn : n < l.length) :
    (a :: l).reverse[n]? = l.reverse[n]? := by
  rw [List.reverse_cons, List.getElem?_append_left (by rw [List.length_reverse]; exact hn)]

/-- `ares_cancel` pushes the list it is going to walk -/
theorem PXv.push (l : List Nat) (h : PXv g H p) :
    PXv { g with m := g.m + 1 } H { p with listCopy := l :: p.listCopy } := by
  refine ⟨h.keys, h.base, h.doom, h.flag, ?_, fun hc => Nat.lt_succ_of_lt (h.lt hc), ?_, h.gone, h.mf⟩
  · show (l :: p.listCopy).length = g.m + 1
    rw [List.length_cons, h.depth]
  · intro k hk
    obtain ⟨h1, h2⟩ := h.cond k hk
    refine ⟨h1, fun hs => ?_⟩
    rcases h2 hs with hd | ⟨l', hl', hkl⟩
    · exact Or.inl hd
    · right
      refine ⟨l', ?_, hkl⟩
      show (l :: p.listCopy).reverse[g.n]? = some l'
      have hn : g.n < p.listCopy.length := by
        rw [h.depth]; exact h.lt (fun e => by rw [e] at hk; cases hk)
      rw [reverse_cons_getElem?_lt l p.listCopy hn]; exact hl'

theorem reverse_drop_one_getElem? {α : Type} (l : List α) {n : Nat} (hn : n + 1 < l.length) :
    (l.drop 1).reverse[n]? = l.reverse[n]? := by
  cases l with
  | nil => cases hn
  | cons a r =>
    show r.reverse[n]? = (a :: r).reverse[n]?
    rw [reverse_cons_getElem?_lt a r (by simpa using hn)]

/-- … and pops it when the walk is over -/
theorem PXv.pop {g' : Gh} (hg : g' = { g with m := g.m + 1 }) (h : PXv g' H p) (hlt : g.C ≠ [] → g.n < g.m) :
    PXv g H { p with listCopy := p.listCopy.drop 1 } := by
  subst hg
  refine ⟨h.keys, h.base, h.doom, h.flag, ?_, hlt, ?_, h.gone, h.mf⟩
  · show (p.listCopy.drop 1).length = g.m
    rw [List.length_drop, h.depth]; rfl
  · intro k hk
    obtain ⟨h1, h2⟩ := h.cond k hk
    refine ⟨h1, fun hs => ?_⟩
    rcases h2 hs with hd | ⟨l', hl', hkl⟩
    · exact Or.inl hd
    · right
      refine ⟨l', ?_, hkl⟩
      show (p.listCopy.drop 1).reverse[g.n]? = some l'
      have hn : g.n + 1 < p.listCopy.length := by
        rw [h.depth]
        have := hlt (fun e => by rw [e] at hk; cases hk)
        show g.n + 1 < g.m + 1
        omega
      rw [reverse_drop_one_getElem? p.listCopy hn]; exact hl'

end

/-! ### state-level lemmas -/

namespace PXo
variable {g : Gh} {H : Option Nat}

theorem lift {H' : Option Nat} {g' : Gh} {s s' : St} (ho : s'.outOfFuel = s.outOfFuel)
    (hv : PXv g H (pview s) → PXv g' H' (pview s')) (h : PXo g H s) : PXo g' H' s' := by
  rcases h with h | h
  · exact Or.inl (by rw [ho]; exact h)
  · exact Or.inr (hv h)

theorem congr {s s' : St} (h0 : s'.cfg = s.cfg) (hv : pview s' = pview s) (ho : s'.outOfFuel = s.outOfFuel)
    (h : PXo g H s) : PXo g H s' :=
  lift ho (fun h => by rw [hv]; exact h) h

theorem oof {s : St} : PXo g H s.oof.1 := Or.inl rfl

theorem weaken {s : St} (H' : Option Nat) (h : PXo g none s) : PXo g H' s := lift (s := s) rfl (PXv.weaken H') h

theorem mapQs {s : St} {f : Query → Query} (hf : ∀ q, (f q).key = q.key ∧ (f q).owner = q.owner) (h : PXo g H s) :
    PXo g H { s with qs := s.qs.map f } :=
  lift (s := s) rfl (fun h => PXv.mapQs hf h) h

theorem modQuery {s : St} {k : Nat} {f : Query → Query} (hf : ∀ q, (f q).key = q.key ∧ (f q).owner = q.owner)
    (h : PXo g H s) : PXo g H (s.modQuery k f) := by
  unfold St.modQuery
  apply mapQs _ h
  intro q
  by_cases hq : q.key == k <;> simp [hq, hf]

theorem nameOnly {s : St} {f : Query → Query} (hf : NameOnly f) (h : PXo g H s) :
    PXo g H { s with qs := s.qs.map f } := by
  apply mapQs _ h
  intro q
  obtain ⟨nm, e⟩ := hf q
  rw [e]; exact ⟨rfl, rfl⟩

theorem setServers {s : St} {sv : List Server}
    (hs : ∀ v ∈ sv, v.probePending = true → ∃ w ∈ s.servers, w.id = v.id ∧ w.probePending = true) (h : PXo g H s) :
    PXo g H { s with servers := sv } :=
  lift (s := s) rfl (fun h => PXv.setServers (p := pview s) hs h) h

/-- a server rewrite that keeps the id and does not set the flag -/
theorem modServer {s : St} {id : Nat} {f : Server → Server}
    (hf : ∀ v, (f v).id = v.id ∧ ((f v).probePending = true → v.probePending = true)) (h : PXo g H s) :
    PXo g H (s.modServer id f) := by
  unfold St.modServer
  apply setServers _ h
  intro v hv hp
  obtain ⟨x, hx, rfl⟩ := List.mem_map.1 hv
  by_cases hq : x.id == id
  · simp only [hq, ↓reduceIte] at hp ⊢
    exact ⟨x, hx, ((hf x).1).symm, (hf x).2 hp⟩
  · simp only [hq, Bool.false_eq_true, ↓reduceIte] at hp ⊢
    exact ⟨x, hx, rfl, hp⟩

theorem incFailures {s : St} {id : Nat} {tcp : Bool} (h : PXo g H s) : PXo g H (s.incFailures id tcp) := by
  unfold St.incFailures
  split
  · exact h
  · rename_i v hv
    refine congr (s := { s with servers := _ }) rfl rfl rfl (setServers ?_ h)
    intro w hw hp
    obtain ⟨x, hx, rfl⟩ := List.mem_map.1 hw
    by_cases hq : x.id == v.id
    · simp only [hq, ↓reduceIte] at hp; cases hp
    · simp only [hq, Bool.false_eq_true, ↓reduceIte] at hp ⊢
      exact ⟨x, hx, rfl, hp⟩

theorem setGood {s : St} {id : Nat} {tcp : Bool} (h : PXo g H s) : PXo g H (s.setGood id tcp) := by
  unfold St.setGood
  split
  · exact h
  · rename_i v hv
    have hvm : v ∈ s.servers := List.mem_of_find?_eq_some hv
    refine congr (s := { s with servers := _ }) rfl rfl rfl (setServers ?_ h)
    intro w hw hp
    obtain ⟨x, hx, rfl⟩ := List.mem_map.1 hw
    by_cases hq : x.id == v.id
    · simp only [hq, ↓reduceIte] at hp ⊢
      exact ⟨v, hvm, rfl, hp⟩
    · simp only [hq, Bool.false_eq_true, ↓reduceIte] at hp ⊢
      exact ⟨x, hx, rfl, hp⟩

theorem metricsRecord {s : St} {q : Query} {srv : Option Nat} {st : Status} {rec : Option Reply} (h : PXo g H s) :
    PXo g H (s.metricsRecord q srv st rec) := by
  unfold St.metricsRecord
  split
  · split
    · exact h
    · exact modServer (fun _ => ⟨rfl, fun h => h⟩) h
  · exact h

theorem mfault {s : St} {e : String} (h : PXo g H s) : PXo g H (s.mfault e) := by
  refine lift (s := s) rfl (fun h => ?_) h
  have := PXv.moreFaults (p := pview s) (n := (s.modelFaults ++ [e]).length) (by
    show s.modelFaults.length ≤ _
    rw [List.length_append]; exact Nat.le_add_right _ _) h
  exact this

theorem removeFromConn {s : St} {k : Nat} (h : PXo g H s) : PXo g H (s.removeFromConn k) := by
  obtain ⟨bt, po, cs, qs, e⟩ := removeFromConn_shape s k
  have hq := removeFromConn_qs s k
  rw [e] at hq ⊢
  rcases hq with hq | ⟨_, hq⟩
  · have hq' : qs = s.qs.map (fun x => if x.key == k then unlinkQ x else x) := hq
    rw [hq']
    refine congr (s := { s with qs := s.qs.map (fun x => if x.key == k then unlinkQ x else x) }) rfl rfl rfl ?_
    apply mapQs _ h
    intro q
    by_cases hk : q.key == k <;> simp [hk, unlinkQ]
  · have hq' : qs = s.qs := hq
    rw [hq']
    exact congr (s := s) rfl rfl rfl h

theorem recordTx {s : St} {fd : Nat} {tcp : Bool} {f : OutFrame} (h : PXo g H s) : PXo g H (s.recordTx fd tcp f) := by
  obtain ⟨t, f', ev, sl, hf, _, e⟩ := recordTx_shape s fd tcp f
  rw [e]
  exact congr (s := { s with qs := s.qs.map f' }) rfl rfl rfl (nameOnly hf h)

theorem advanceOut {s : St} {fuel fd n : Nat} (h : PXo g H s) : PXo g H (Cares.Chan.advanceOut fuel fd s n) := by
  obtain ⟨cs, tx, qs, ev, sl, e, _, ⟨f', hf, hq⟩⟩ := advanceOut_shape fuel fd s n
  rw [e, hq]
  exact congr (s := { s with qs := s.qs.map f' }) rfl rfl rfl (nameOnly hf h)

end PXo

section
variable {g : Gh} {H : Option Nat}
chan_simple_lemmas PXo : (PXo g H) =>
  emit slog ofault setConn setSock modConn modSock modClient cacheExpire
end

/-- strip one layer of structure update that leaves `qs`, `nextKey`, `servers`, `listCopy`, `modelFaults`,
    `outOfFuel` alone -/
macro "px_congr" : tactic => `(tactic| (
  refine PXo.congr (s := ?s0) ?h0 ?h1 ?h2 ?hI
  case h0 => (dsimp only; exact rfl)
  case h1 => exact rfl
  case h2 => exact rfl))

macro "px_spec" : tactic => `(tactic| first
  | with_reducible apply PXo.removeFromConn
  | with_reducible apply PXo.recordTx
  | with_reducible apply PXo.advanceOut
  | with_reducible apply PXo.incFailures
  | with_reducible apply PXo.setGood
  | with_reducible apply PXo.metricsRecord
  | with_reducible apply PXo.mfault
  | with_reducible apply PXo.oof
  | (with_reducible refine PXo.modQuery ?hf ?hI; case hf => (intro _; exact ⟨rfl, rfl⟩))
  | (with_reducible refine PXo.modServer ?hf ?hI; case hf => (intro _; exact ⟨rfl, fun h => h⟩))
  | with_reducible (first
      | apply PXo.emit | apply PXo.slog | apply PXo.ofault
      | apply PXo.setConn | apply PXo.setSock | apply PXo.modConn
      | apply PXo.modSock | apply PXo.modClient | apply PXo.cacheExpire))

/-! ### the steps that are special to this invariant -/

/-- `ares_probe_failed_server` marks the server: the flag is set before the probe query exists (hole) -/
theorem PXo.setFlag {g : Gh} {s : St} (id : Nat) (h : PXo g none s) :
    PXo g (some id) (s.modServer id fun v => { v with probePending := true }) := by
  refine PXo.lift (s := s) rfl (fun h => ?_) h
  refine ⟨h.keys, h.base, h.doom, fun v hv hp => ?_, h.depth, h.lt, h.cond, h.gone, h.mf⟩
  obtain ⟨x, hx, rfl⟩ := List.mem_map.1 hv
  by_cases hq : x.id == id
  · simp only [hq, ↓reduceIte]
    exact Or.inl (by rw [beq_iff_eq.1 hq])
  · simp only [hq, Bool.false_eq_true, ↓reduceIte] at hp ⊢
    rcases h.flag x hx hp with hh | hh
    · cases hh
    · exact Or.inr hh

/-- `server_probe_cb`: the flag of the probed server is reset; its hole closes -/
theorem PXo.release {g : Gh} {s : St} (pid : Nat) (h : PXo g (some pid) s) : PXo g none (releaseProbe pid s) := by
  refine PXo.lift (s := s) rfl (fun h => ?_) h
  obtain ⟨h1, _, h3, _⟩ := releaseProbe_spec pid s
  have h' : PXv g (some pid) (pview (releaseProbe pid s)) :=
    PXv.setServers (p := pview s) (sv := (releaseProbe pid s).servers)
      (fun v hv hp => by obtain ⟨w, hw, hid, hwp⟩ := h3 v hv hp; exact ⟨w, hw, hid, hwp⟩) h
  exact h'.fill (Or.inl h1)

theorem PXo.addQuery' {g : Gh} {H : Option Nat} {s s' : St} {q : Query} {k : Nat} (h1 : s'.qs = s.qs ++ [q])
    (h2 : s'.nextKey = k + 1) (h3 : s'.servers = s.servers) (h4 : s'.listCopy = s.listCopy)
    (h5 : s'.modelFaults = s.modelFaults) (h6 : s'.outOfFuel = s.outOfFuel) (hq : q.key = k) (hk : k = s.nextKey)
    (hH : ∀ pid, H = some pid → q.owner = .probe pid) (h : PXo g H s) : PXo g none s' := by
  subst hk
  refine PXo.lift (s := s) h6 (fun h => ?_) h
  have := PXv.addQuery (p := pview s) (q := q) hq hH h
  have e : pview s' = { pview s with qs := (pview s).qs ++ [q], nextKey := (pview s).nextKey + 1 } := by
    unfold pview; rw [h1, h2, h3, h4, h5]
  rw [e]; exact this

/-- the random draws of `ares_apply_dns0x20` do not move the key counter -/
theorem nextKey_draws (s : St) (c : Bool) (n : Nat) :
    (if c = true then (if (n == 1) = true then s.draw1.2 else if (n == 2) = true then s.draw2.2 else s)
      else s).nextKey = s.nextKey := by
  split
  · split
    · obtain ⟨o, f, e⟩ := draw1_shape s; rw [e]
    · split
      · obtain ⟨o, f, e⟩ := draw2_shape s; rw [e]
      · rfl
  · rfl

theorem pview_detach (s : St) (k : Nat) (q : Query) (hq : s.query? k = some q) :
    pview (s.detach k) = (pview s).detached k (fun x => if x.key == k then unlinkQ x else x) := by
  unfold St.detach
  rw [hq]
  dsimp only
  obtain ⟨bt, po, cs, qs, e⟩ := removeFromConn_shape s k
  have hqs := removeFromConn_qs s k
  rw [e] at hqs ⊢
  rcases hqs with hqs | ⟨hn, _⟩
  · have hqs' : qs = s.qs.map (fun x => if x.key == k then unlinkQ x else x) := hqs
    rw [hqs']; rfl
  · rw [hq] at hn; cases hn

theorem pview_freeQuery (s : St) (k : Nat) :
    ∃ lc, FreeLc (pview s) k lc ∧ pview (s.freeQuery k) = (pview s).free k lc := by
  cases hq : s.query? k with
  | none =>
    refine ⟨s.listCopy, Or.inl rfl, ?_⟩
    have : s.detach k = s := by unfold St.detach; rw [hq]
    unfold St.freeQuery; rw [this]; rfl
  | some q =>
    refine ⟨s.listCopy.map (·.erase k), Or.inr rfl, ?_⟩
    have hd := pview_detach s k q hq
    have e : pview (s.freeQuery k) = { pview (s.detach k) with qs := (pview (s.detach k)).qs.filter (·.key != k) } := rfl
    rw [e, hd]
    unfold PV.detached PV.free
    dsimp only
    rw [filter_map_unlink]
    rfl

/-- the stored query under the key, seen from the view -/
theorem owner?_of_query? {s : St} {k : Nat} {q : Query} (hq : s.query? k = some q) :
    (pview s).owner? k = some q.owner := by
  rw [owner?_pview, hq]; rfl

theorem oof_detach (s : St) (k : Nat) : (s.detach k).outOfFuel = s.outOfFuel := by
  obtain ⟨a, b, c, d, e1, e2, e3, e⟩ := detach_shape s k
  rw [e]

/-- `ares_free_query` in the cancel / destroy walk -/
theorem PXo.freeQuery {g : Gh} {s : St} {k : Nat} {q : Query} (hq : s.query? k = some q) (h : PXo g none s) :
    PXo g (holeOf q.owner) (s.freeQuery k) := by
  refine PXo.lift (s := s) (oof_freeQuery s k) (fun h => ?_) h
  obtain ⟨lc, hlc, e⟩ := pview_freeQuery s k
  rw [e]
  exact PXv.free hlc (owner?_of_query? hq) h

/-- `ares_detach_query` in `end_query` -/
theorem PXo.detach {g : Gh} {s : St} {k : Nat} {q : Query} (hq : s.query? k = some q) (h : PXo g none s) :
    PXo { g with D := (k, q.owner) :: g.D } none (s.detach k) := by
  refine PXo.lift (s := s) (oof_detach s k) (fun h => ?_) h
  rw [pview_detach s k q hq]
  refine PXv.detached ?_ (owner?_of_query? hq) h
  intro x
  by_cases hk : x.key == k <;> simp [hk, unlinkQ]

/-- `ares_free_query` at the end of `end_query` -/
theorem PXo.undoom {g : Gh} {s : St} {k : Nat} {o : Owner}
    (hrel : s.outOfFuel = true ∨ ∀ pid, o = .probe pid → ∀ v ∈ s.servers, v.id = pid → v.probePending = false)
    (h : PXo { g with D := (k, o) :: g.D } none s) : PXo g none (s.freeQuery k) := by
  rcases hrel with hrel | hrel
  · exact Or.inl (by rw [oof_freeQuery]; exact hrel)
  refine PXo.lift (s := s) (oof_freeQuery s k) (fun h => ?_) h
  obtain ⟨lc, hlc, e⟩ := pview_freeQuery s k
  rw [e]
  exact PXv.undoom hlc rfl hrel h

/-- `ares_cancel` swaps the list of all queries onto the stack -/
theorem PXo.push {g : Gh} {H : Option Nat} {s s' : St} {l : List Nat} (h1 : s'.qs = s.qs) (h2 : s'.nextKey = s.nextKey)
    (h3 : s'.servers = s.servers) (h4 : s'.listCopy = l :: s.listCopy) (h5 : s'.modelFaults = s.modelFaults)
    (h6 : s'.outOfFuel = s.outOfFuel) (h : PXo g H s) : PXo { g with m := g.m + 1 } H s' := by
  refine PXo.lift (s := s) h6 (fun h => ?_) h
  have e : pview s' = { pview s with listCopy := l :: (pview s).listCopy } := by
    unfold pview; rw [h1, h2, h3, h4, h5]
  rw [e]; exact PXv.push l h

theorem PXo.pop {g : Gh} {H : Option Nat} {s : St} (hlt : g.C ≠ [] → g.n < g.m)
    (h : PXo { g with m := g.m + 1 } H s) : PXo g H { s with listCopy := s.listCopy.drop 1 } := by
  refine PXo.lift (s := s) rfl (fun h => ?_) h
  exact PXv.pop rfl h hlt

end Cares.Chan
