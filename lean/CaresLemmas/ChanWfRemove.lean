import CaresLemmas.ChanWfOps
/-!
# C01 — `removeFromConn` on the skeleton: which projections it leaves alone, and what it does to the others
-/
namespace Cares.Chan

section same
variable (a : Sk) (k : Nat)

theorem rfc_none (h : a.q? k = none) : a.removeFromConn k = a := by
  unfold Sk.removeFromConn; rw [h]

theorem rfc_qs_proj {β} (π : QSk → β) (hπ : ∀ e : QSk, π { e with conn := none } = π e) :
    (a.removeFromConn k).qs.map π = a.qs.map π := by
  cases hq : a.q? k with
  | none => rw [rfc_none a k hq]
  | some e =>
    rw [Sk.removeFromConn_eq a k e hq]
    simp only
    rw [proj_modQ _ _ _ π hπ]
    cases e.conn <;> rfl

theorem rfc_conns_proj {β} (π : CSk → β) (hπ : ∀ (c : CSk) q, π { c with queries := q } = π c) :
    (a.removeFromConn k).conns.map π = a.conns.map π := by
  cases hq : a.q? k with
  | none => rw [rfc_none a k hq]
  | some e =>
    rw [Sk.removeFromConn_eq a k e hq]
    simp only [Sk.modQ]
    cases e.conn with
    | none => rfl
    | some fd => exact proj_modC _ _ _ π (fun c => hπ c _)

@[simp] theorem rfc_qK : (a.removeFromConn k).qK = a.qK := rfc_qs_proj a k _ (fun _ => rfl)
@[simp] theorem rfc_qKQ : (a.removeFromConn k).qKQ = a.qKQ := rfc_qs_proj a k _ (fun _ => rfl)
@[simp] theorem rfc_qKO : (a.removeFromConn k).qKO = a.qKO := rfc_qs_proj a k _ (fun _ => rfl)
@[simp] theorem rfc_cF4 : (a.removeFromConn k).cF4 = a.cF4 := rfc_conns_proj a k _ (fun _ _ => rfl)

theorem rfc_other :
    (a.removeFromConn k).byQid = a.byQid ∧ (a.removeFromConn k).all = a.all ∧
    (a.removeFromConn k).listCopy = a.listCopy ∧ (a.removeFromConn k).servers = a.servers ∧
    (a.removeFromConn k).clients = a.clients ∧ (a.removeFromConn k).socks = a.socks ∧
    (a.removeFromConn k).nextKey = a.nextKey ∧ (a.removeFromConn k).nextFd = a.nextFd ∧
    (a.removeFromConn k).nextClient = a.nextClient ∧ (a.removeFromConn k).reactSeq = a.reactSeq ∧
    (a.removeFromConn k).pendingToks = a.pendingToks ∧ (a.removeFromConn k).doneToks = a.doneToks ∧
    (a.removeFromConn k).faults = a.faults := by
  cases hq : a.q? k with
  | none => rw [rfc_none a k hq]; simp
  | some e =>
    rw [Sk.removeFromConn_eq a k e hq]
    cases e.conn <;> simp [Sk.modQ, Sk.modC]

@[simp] theorem rfc_byQid : (a.removeFromConn k).byQid = a.byQid := (rfc_other a k).1
@[simp] theorem rfc_all : (a.removeFromConn k).all = a.all := (rfc_other a k).2.1
@[simp] theorem rfc_listCopy : (a.removeFromConn k).listCopy = a.listCopy := (rfc_other a k).2.2.1
@[simp] theorem rfc_servers : (a.removeFromConn k).servers = a.servers := (rfc_other a k).2.2.2.1
@[simp] theorem rfc_clients : (a.removeFromConn k).clients = a.clients := (rfc_other a k).2.2.2.2.1
@[simp] theorem rfc_socks : (a.removeFromConn k).socks = a.socks := (rfc_other a k).2.2.2.2.2.1
@[simp] theorem rfc_nextKey : (a.removeFromConn k).nextKey = a.nextKey := (rfc_other a k).2.2.2.2.2.2.1
@[simp] theorem rfc_nextFd : (a.removeFromConn k).nextFd = a.nextFd := (rfc_other a k).2.2.2.2.2.2.2.1
@[simp] theorem rfc_nextClient : (a.removeFromConn k).nextClient = a.nextClient :=
  (rfc_other a k).2.2.2.2.2.2.2.2.1
@[simp] theorem rfc_reactSeq : (a.removeFromConn k).reactSeq = a.reactSeq := (rfc_other a k).2.2.2.2.2.2.2.2.2.1
@[simp] theorem rfc_pendingToks : (a.removeFromConn k).pendingToks = a.pendingToks :=
  (rfc_other a k).2.2.2.2.2.2.2.2.2.2.1
@[simp] theorem rfc_doneToks : (a.removeFromConn k).doneToks = a.doneToks :=
  (rfc_other a k).2.2.2.2.2.2.2.2.2.2.2.1
@[simp] theorem rfc_faults : (a.removeFromConn k).faults = a.faults := (rfc_other a k).2.2.2.2.2.2.2.2.2.2.2.2
@[simp] theorem rfc_idx : (a.removeFromConn k).idx = a.idx := by unfold Sk.idx; rw [rfc_byQid]

end same

end Cares.Chan
