import CaresLemmas.ChanWfOps
/-!
# C01 — `removeFromConn` on the skeleton: which projections it leaves alone, and what it does to the others
-/
namespace Cares.Chan

section same
variable (a : Sk) (k : Nat)

theorem rfc_none (h : a.q? k = none) : a.removeFromConn k = a := by
  unfold Sk.removeFromConn; rw [h]

theorem rfc_qs_proj {β} (π : QSk → β) (hπ : ∀ e : QSk, π { e with conn := none } = π e) :
    (a.removeFromConn k).qs.map π = a.qs.map π := by
  cases hq : a.q? k with
  | none => rw [rfc_none a k hq]
  | some e =>
    rw [Sk.removeFromConn_eq a k e hq]
    simp only
    rw [proj_modQ _ _ _ π hπ]
    cases e.conn <;> rfl

theorem rfc_conns_proj {β} (π : CSk → β) (hπ : ∀ (c : CSk) q, π { c with queries := q } = π c) :
    (a.removeFromConn k).conns.map π = a.conns.map π := by
  cases hq : a.q? k with
  | none => rw [rfc_none a k hq]
  | some e =>
    rw [Sk.removeFromConn_eq a k e hq]
    simp only [Sk.modQ]
    cases e.conn with
    | none => rfl
    | some fd => exact proj_modC _ _ _ π (fun c => hπ c _)

@[simp] theorem rfc_qK : (a.removeFromConn k).qK = a.qK := rfc_qs_proj a k _ (fun _ => rfl)
@[simp] theorem rfc_qKQ : (a.removeFromConn k).qKQ = a.qKQ := rfc_qs_proj a k _ (fun _ => rfl)
@[simp] theorem rfc_qKO : (a.removeFromConn k).qKO = a.qKO := rfc_qs_proj a k _ (fun _ => rfl)
@[simp] theorem rfc_cF4 : (a.removeFromConn k).cF4 = a.cF4 := rfc_conns_proj a k _ (fun _ _ => rfl)

theorem rfc_other :
    (a.removeFromConn k).byQid = a.byQid ∧ (a.removeFromConn k).all = a.all ∧
    (a.removeFromConn k).listCopy = a.listCopy ∧ (a.removeFromConn k).servers = a.servers ∧
    (a.removeFromConn k).clients = a.clients ∧ (a.removeFromConn k).socks = a.socks ∧
    (a.removeFromConn k).nextKey = a.nextKey ∧ (a.removeFromConn k).nextFd = a.nextFd ∧
    (a.removeFromConn k).nextClient = a.nextClient ∧ (a.removeFromConn k).reactSeq = a.reactSeq ∧
    (a.removeFromConn k).pendingToks = a.pendingToks ∧ (a.removeFromConn k).doneToks = a.doneToks ∧
    (a.removeFromConn k).faults = a.faults := by
  cases hq : a.q? k with
  | none => rw [rfc_none a k hq]; simp
  | some e =>
    rw [Sk.removeFromConn_eq a k e hq]
    cases e.conn <;> simp [Sk.modQ, Sk.modC]

@[simp] theorem rfc_byQid : (a.removeFromConn k).byQid = a.byQid := (rfc_other a k).1
@[simp] theorem rfc_all : (a.removeFromConn k).all = a.all := (rfc_other a k).2.1
@[simp] theorem rfc_listCopy : (a.removeFromConn k).listCopy = a.listCopy := (rfc_other a k).2.2.1
@[simp] theorem rfc_servers : (a.removeFromConn k).servers = a.servers := (rfc_other a k).2.2.2.1
@[simp] theorem rfc_clients : (a.removeFromConn k).clients = a.clients := (rfc_other a k).2.2.2.2.1
@[simp] theorem rfc_socks : (a.removeFromConn k).socks = a.socks := (rfc_other a k).2.2.2.2.2.1
@[simp] theorem rfc_nextKey : (a.removeFromConn k).nextKey = a.nextKey := (rfc_other a k).2.2.2.2.2.2.1
@[simp] theorem rfc_nextFd : (a.removeFromConn k).nextFd = a.nextFd := (rfc_other a k).2.2.2.2.2.2.2.1
@[simp] theorem rfc_nextClient : (a.removeFromConn k).nextClient = a.nextClient :=
  (rfc_other a k).2.2.2.2.2.2.2.2.1
@[simp] theorem rfc_reactSeq : (a.removeFromConn k).reactSeq = a.reactSeq := (rfc_other a k).2.2.2.2.2.2.2.2.2.1
@[simp] theorem rfc_pendingToks : (a.removeFromConn k).pendingToks = a.pendingToks :=
  (rfc_other a k).2.2.2.2.2.2.2.2.2.2.1
@[simp] theorem rfc_doneToks : (a.removeFromConn k).doneToks = a.doneToks :=
  (rfc_other a k).2.2.2.2.2.2.2.2.2.2.2.1
@[simp] theorem rfc_faults : (a.removeFromConn k).faults = a.faults := (rfc_other a k).2.2.2.2.2.2.2.2.2.2.2.2
@[simp] theorem rfc_idx : (a.removeFromConn k).idx = a.idx := by unfold Sk.idx; rw [rfc_byQid]

end same

/-! ### uniqueness of a key's entry in the projections -/

theorem pair_unique {α β} (f : α → Nat) (g : α → β) (l : List α) (hn : (l.map f).Nodup) {k : Nat} {x y : β}
    (hx : (k, x) ∈ l.map fun e => (f e, g e)) (hy : (k, y) ∈ l.map fun e => (f e, g e)) : x = y := by
  simp only [List.mem_map, Prod.mk.injEq] at hx hy
  obtain ⟨e1, h1, k1, rfl⟩ := hx
  obtain ⟨e2, h2, k2, rfl⟩ := hy
  rw [eq_of_nodup_map f l hn e1 h1 e2 h2 (by omega)]

theorem Sk.qKC_unique {a : Sk} (hn : a.qK.Nodup) {k : Nat} {x y : Option Nat}
    (hx : (k, x) ∈ a.qKC) (hy : (k, y) ∈ a.qKC) : x = y :=
  pair_unique (fun e : QSk => e.key) (fun e : QSk => e.conn) a.qs hn hx hy
theorem Sk.qKO_unique {a : Sk} (hn : a.qK.Nodup) {k : Nat} {x y : Owner}
    (hx : (k, x) ∈ a.qKO) (hy : (k, y) ∈ a.qKO) : x = y :=
  pair_unique (fun e : QSk => e.key) (fun e : QSk => e.owner) a.qs hn hx hy
theorem Sk.qKQ_unique {a : Sk} (hn : a.qK.Nodup) {k : Nat} {x y : Nat}
    (hx : (k, x) ∈ a.qKQ) (hy : (k, y) ∈ a.qKQ) : x = y :=
  pair_unique (fun e : QSk => e.key) (fun e : QSk => e.qid) a.qs hn hx hy
theorem Sk.cFQ_unique {a : Sk} (hn : (a.cFQ.map (·.1)).Nodup) {k : Nat} {x y : List Nat}
    (hx : (k, x) ∈ a.cFQ) (hy : (k, y) ∈ a.cFQ) : x = y := by
  refine pair_unique (fun c : CSk => c.fd) (fun c : CSk => c.queries) a.conns ?_ hx hy
  have : a.cFQ.map (·.1) = a.conns.map fun c => c.fd := by
    unfold Sk.cFQ; rw [List.map_map]; rfl
  rwa [this] at hn

theorem Sk.q?_mem_proj {a : Sk} {k : Nat} {e : QSk} (h : a.q? k = some e) :
    (k, e.conn) ∈ a.qKC ∧ (k, e.owner) ∈ a.qKO ∧ (k, e.qid) ∈ a.qKQ ∧ k ∈ a.qK := by
  obtain ⟨hm, rfl⟩ := Sk.q?_some h
  exact ⟨List.mem_map.mpr ⟨e, hm, rfl⟩, List.mem_map.mpr ⟨e, hm, rfl⟩, List.mem_map.mpr ⟨e, hm, rfl⟩,
    List.mem_map.mpr ⟨e, hm, rfl⟩⟩

/-- a linked key is live -/
theorem WfS.live_of_idx {a : Sk} {hole} (h : WfS a hole) {k : Nat} (hk : k ∈ a.idx) : ∃ e, a.q? k = some e := by
  obtain ⟨p, hp, rfl⟩ := List.mem_map.mp hk
  have := h.i.qidLive p hp
  obtain ⟨e, he, hpe⟩ := List.mem_map.mp this
  have hq := Sk.q?_of_mem (a := a) h.q.nodup he
  simp only [Prod.mk.injEq] at hpe
  rw [hpe.1] at hq
  exact ⟨e, hq⟩

/-- erase `k` from the list of connection `fd?` (if any) -/
def cfqErase (l : List (Nat × List Nat)) (fd? : Option Nat) (k : Nat) : List (Nat × List Nat) :=
  match fd? with
  | some fd => l.map fun c => if c.1 == fd then (c.1, c.2.erase k) else c
  | none => l
def cfuqErase (l : List (Nat × Bool × List Nat)) (fd? : Option Nat) (k : Nat) : List (Nat × Bool × List Nat) :=
  match fd? with
  | some fd => l.map fun c => if c.1 == fd then (c.1, c.2.1, c.2.2.erase k) else c
  | none => l

theorem mem_cfqErase {l : List (Nat × List Nat)} {fd? : Option Nat} {k : Nat} {c : Nat × List Nat} :
    c ∈ cfqErase l fd? k ↔
      (c ∈ l ∧ some c.1 ≠ fd?) ∨ (some c.1 = fd? ∧ ∃ q, (c.1, q) ∈ l ∧ c.2 = q.erase k) := by
  cases fd? with
  | none => simp [cfqErase]
  | some fd =>
    simp only [cfqErase, List.mem_map, beq_iff_eq, Option.some.injEq]
    constructor
    · rintro ⟨q, hq, rfl⟩
      by_cases h : q.1 = fd
      · right; simp only [h, ↓reduceIte, true_and]; exact ⟨q.2, by rw [← h]; exact hq, rfl⟩
      · left; simp [h, hq]
    · rintro (⟨h1, h2⟩ | ⟨h1, q, hq, h2⟩)
      · exact ⟨c, h1, by rw [if_neg (fun hh => h2 (congrArg some hh))]⟩
      · refine ⟨(c.1, q), hq, ?_⟩
        simp only [h1, ↓reduceIte]; rw [← h2, ← h1]

theorem mem_cfuqErase {l : List (Nat × Bool × List Nat)} {fd? : Option Nat} {k : Nat} {c : Nat × Bool × List Nat} :
    c ∈ cfuqErase l fd? k ↔
      (c ∈ l ∧ some c.1 ≠ fd?) ∨ (some c.1 = fd? ∧ ∃ q, (c.1, c.2.1, q) ∈ l ∧ c.2.2 = q.erase k) := by
  cases fd? with
  | none => simp [cfuqErase]
  | some fd =>
    simp only [cfuqErase, List.mem_map, beq_iff_eq, Option.some.injEq]
    constructor
    · rintro ⟨q, hq, rfl⟩
      by_cases h : q.1 = fd
      · right; simp only [h, ↓reduceIte, true_and]; exact ⟨q.2.2, by rw [← h]; exact hq, rfl⟩
      · left; simp [h, hq]
    · rintro (⟨h1, h2⟩ | ⟨h1, q, hq, h2⟩)
      · exact ⟨c, h1, by rw [if_neg (fun hh => h2 (congrArg some hh))]⟩
      · refine ⟨(c.1, c.2.1, q), hq, ?_⟩
        simp only [h1, ↓reduceIte]; rw [← h2, ← h1]

theorem cfqErase_fst (l : List (Nat × List Nat)) (fd? : Option Nat) (k : Nat) :
    (cfqErase l fd? k).map (·.1) = l.map (·.1) := by
  cases fd? with
  | none => rfl
  | some fd =>
    simp only [cfqErase]
    rw [List.map_map]; apply List.map_congr_left; intro x _; simp only [Function.comp]; split <;> rfl

theorem mem_map_ifkey {β} {l : List (Nat × β)} {k : Nat} {v : β} {p : Nat × β} :
    p ∈ (l.map fun p => if p.1 == k then (p.1, v) else p) ↔
      (p ∈ l ∧ p.1 ≠ k) ∨ (p.2 = v ∧ p.1 = k ∧ ∃ w, (k, w) ∈ l) := by
  simp only [List.mem_map, beq_iff_eq]
  constructor
  · rintro ⟨q, hq, rfl⟩
    by_cases h : q.1 = k
    · right; simp only [h, ↓reduceIte, true_and]; exact ⟨q.2, by rw [← h]; exact hq⟩
    · left; simp [h, hq]
  · rintro (⟨h1, h2⟩ | ⟨h1, h2, w, hw⟩)
    · exact ⟨p, h1, by simp [h2]⟩
    · refine ⟨(k, w), hw, ?_⟩
      simp only [↓reduceIte]; rw [← h1, ← h2]

section spec
variable {a : Sk} {k : Nat} {e : QSk}

theorem rfc_qKC (hq : a.q? k = some e) :
    (a.removeFromConn k).qKC = a.qKC.map fun p => if p.1 == k then (p.1, none) else p := by
  rw [Sk.removeFromConn_eq a k e hq]
  show (Sk.modQ _ k fun e => { e with conn := none }).qKC = _
  rw [qKC_modQ_conn]
  cases e.conn <;> rfl

theorem rfc_bt (hq : a.q? k = some e) : (a.removeFromConn k).byTimeout = a.byTimeout.erase k := by
  rw [Sk.removeFromConn_eq a k e hq]
theorem rfc_po (hq : a.q? k = some e) : (a.removeFromConn k).pendingOrder = a.pendingOrder.erase k := by
  rw [Sk.removeFromConn_eq a k e hq]

theorem rfc_cFQ (hq : a.q? k = some e) : (a.removeFromConn k).cFQ = cfqErase a.cFQ e.conn k := by
  rw [Sk.removeFromConn_eq a k e hq]
  cases e.conn with
  | none => rfl
  | some fd => exact cFQ_modC_queries a fd (·.erase k)

theorem rfc_cFUQ (hq : a.q? k = some e) : (a.removeFromConn k).cFUQ = cfuqErase a.cFUQ e.conn k := by
  rw [Sk.removeFromConn_eq a k e hq]
  cases e.conn with
  | none => rfl
  | some fd => exact cFUQ_modC_queries a fd (·.erase k)

end spec

/-! ### `removeFromConn` re-establishes the by-timeout and connection groups (also from the transient state) -/

theorem wfT_rfc {a : Sk} {hole} {k : Nat} {e : QSk} (h : WfS a hole) (hq : a.q? k = some e) :
    WfTP (a.removeFromConn k).qKC (a.removeFromConn k).idx (a.removeFromConn k).byTimeout
      (a.removeFromConn k).pendingOrder := by
  rw [rfc_qKC hq, rfc_bt hq, rfc_po hq, rfc_idx]
  have ht := h.t
  constructor
  · exact ht.btNodup.erase k
  · intro k' hk'
    have := (List.Nodup.mem_erase_iff ht.btNodup).mp hk'
    obtain ⟨h1, fd, h2⟩ := ht.btOk k' this.2
    exact ⟨h1, fd, mem_map_ifkey.mpr (Or.inl ⟨h2, this.1⟩)⟩
  · exact ht.poNodup.erase k
  · intro k' hk'
    have := (List.Nodup.mem_erase_iff ht.poNodup).mp hk'
    obtain ⟨h1, ⟨fd, h2⟩, h3⟩ := ht.poOk k' this.2
    exact ⟨h1, ⟨fd, mem_map_ifkey.mpr (Or.inl ⟨h2, this.1⟩)⟩, fun hm => h3 (List.mem_of_mem_erase hm)⟩

/-- after `removeFromConn k` no connection lists `k` -/
theorem rfc_not_listed {a : Sk} {hole} {k : Nat} {e : QSk} (h : WfS a hole) (hq : a.q? k = some e) :
    ∀ c ∈ (a.removeFromConn k).cFQ, k ∉ c.2 := by
  rw [rfc_cFQ hq]
  have hc := h.c
  have hkc := (Sk.q?_mem_proj hq).1
  intro c hcm hk
  rcases mem_cfqErase.mp hcm with ⟨h1, h2⟩ | ⟨h1, q, hq', h2⟩
  · have := (hc.cq c h1 k hk).2
    exact h2 (Sk.qKC_unique h.q.nodup this hkc)
  · rw [h2] at hk
    exact (List.Nodup.mem_erase_iff (hc.qNodup _ hq')).mp hk |>.1 rfl

theorem wfC_rfc {a : Sk} {hole} {k : Nat} {e : QSk} (h : WfS a hole) (hh : hole = none ∨ hole = some k)
    (hq : a.q? k = some e) :
    WfCP (a.removeFromConn k).qKC (a.removeFromConn k).idx (a.removeFromConn k).cFQ
      (a.removeFromConn k).nextFd (a.removeFromConn k).socks none := by
  have hnl := rfc_not_listed h hq
  rw [rfc_cFQ hq] at hnl ⊢
  rw [rfc_qKC hq, rfc_idx, rfc_nextFd, rfc_socks]
  have hc := h.c
  -- every new entry comes from an old one with the same descriptor and a sub-list
  have key : ∀ c' ∈ cfqErase a.cFQ e.conn k, ∃ c ∈ a.cFQ, c'.1 = c.1 ∧ (∀ x ∈ c'.2, x ∈ c.2) ∧ c'.2.Nodup := by
    intro c' hc'
    rcases mem_cfqErase.mp hc' with ⟨h1, _⟩ | ⟨_, q, hq', h2⟩
    · exact ⟨c', h1, rfl, fun _ hx => hx, hc.qNodup _ h1⟩
    · exact ⟨(c'.1, q), hq', rfl, fun x hx => by rw [h2] at hx; exact List.mem_of_mem_erase hx,
        by rw [h2]; exact (hc.qNodup _ hq').erase k⟩
  -- every old entry has an image that keeps all keys but `k`
  have img : ∀ c ∈ a.cFQ, ∃ c' ∈ cfqErase a.cFQ e.conn k, c'.1 = c.1 ∧ (∀ x ∈ c.2, x ≠ k → x ∈ c'.2) := by
    intro c hcm
    by_cases hcf : some c.1 = e.conn
    · exact ⟨(c.1, c.2.erase k), mem_cfqErase.mpr (Or.inr ⟨hcf, c.2, hcm, rfl⟩), rfl,
        fun x hx hne => (List.mem_erase_of_ne hne).mpr hx⟩
    · exact ⟨c, mem_cfqErase.mpr (Or.inl ⟨hcm, hcf⟩), rfl, fun _ hx _ => hx⟩
  constructor
  · rw [cfqErase_fst]; exact hc.nodup
  · intro c' hc'; obtain ⟨c, hcm, h1, _⟩ := key c' hc'; rw [h1]; exact hc.lt c hcm
  · intro c' hc'; obtain ⟨c, hcm, h1, _⟩ := key c' hc'; rw [h1]; exact hc.sock c hcm
  · intro c' hc'; obtain ⟨c, hcm, h1, _, h3⟩ := key c' hc'; exact h3
  · intro c' hc' x hx
    obtain ⟨c, hcm, h1, h2, _⟩ := key c' hc'
    obtain ⟨hi, hm⟩ := hc.cq c hcm x (h2 x hx)
    have hne : x ≠ k := fun hxk => hnl c' hc' (hxk ▸ hx)
    exact ⟨hi, mem_map_ifkey.mpr (Or.inl ⟨by rw [h1]; exact hm, hne⟩)⟩
  · intro p' hp' fd' hfd'
    rcases mem_map_ifkey.mp hp' with ⟨h1, h2⟩ | ⟨h1, _⟩
    · obtain ⟨c, hcm, hcfd, hor⟩ := hc.qc p' h1 fd' hfd'
      have hin : p'.1 ∈ c.2 := by
        rcases hor with hin | hhole
        · exact hin
        · rcases hh with hh | hh
          · rw [hh] at hhole; cases hhole
          · rw [hh] at hhole; cases hhole; exact absurd rfl h2
      obtain ⟨c', hc', e1, e2⟩ := img c hcm
      exact ⟨c', hc', by rw [e1, hcfd], Or.inl (e2 _ hin h2)⟩
    · rw [h1] at hfd'; cases hfd'

/-- `removeFromConn` of a live query re-establishes the invariant -/
theorem wf_rfc {a : Sk} {hole} {k : Nat} {e : QSk} (h : WfS a hole) (hh : hole = none ∨ hole = some k)
    (hq : a.q? k = some e) : WfS (a.removeFromConn k) none where
  q := by simpa using h.q
  i := by simpa using h.i
  t := wfT_rfc h hq
  c := wfC_rfc h hh hq
  s := by simpa using h.s
  k := by simpa using h.k
  tok := by simpa using h.tok

end Cares.Chan
