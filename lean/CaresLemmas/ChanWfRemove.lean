import CaresLemmas.ChanWfOps
/-!
# C01 — `removeFromConn` on the skeleton: which projections it leaves alone, and what it does to the others
-/
namespace Cares.Chan

section same
variable (a : Sk) (k : Nat)

theorem rfc_none (h : a.q? k = none) : a.removeFromConn k = a := by
  unfold Sk.removeFromConn; rw [h]

theorem rfc_qs_proj {β} (π : QSk → β) (hπ : ∀ e : QSk, π { e with conn := none } = π e) :
    (a.removeFromConn k).qs.map π = a.qs.map π := by
  cases hq : a.q? k with
  | none => rw [rfc_none a k hq]
  | some e =>
    rw [Sk.removeFromConn_eq a k e hq]
    simp only
    rw [proj_modQ _ _ _ π hπ]
    cases e.conn <;> rfl

theorem rfc_conns_proj {β} (π : CSk → β) (hπ : ∀ (c : CSk) q, π { c with queries := q } = π c) :
    (a.removeFromConn k).conns.map π = a.conns.map π := by
  cases hq : a.q? k with
  | none => rw [rfc_none a k hq]
  | some e =>
    rw [Sk.removeFromConn_eq a k e hq]
    simp only [Sk.modQ]
    cases e.conn with
    | none => rfl
    | some fd => exact proj_modC _ _ _ π (fun c => hπ c _)

@[simp] theorem rfc_qK : (a.removeFromConn k).qK = a.qK := rfc_qs_proj a k _ (fun _ => rfl)
@[simp] theorem rfc_qKQ : (a.removeFromConn k).qKQ = a.qKQ := rfc_qs_proj a k _ (fun _ => rfl)
@[simp] theorem rfc_qKO : (a.removeFromConn k).qKO = a.qKO := rfc_qs_proj a k _ (fun _ => rfl)
@[simp] theorem rfc_cF4 : (a.removeFromConn k).cF4 = a.cF4 := rfc_conns_proj a k _ (fun _ _ => rfl)

theorem rfc_other :
    (a.removeFromConn k).byQid = a.byQid ∧ (a.removeFromConn k).all = a.all ∧
    (a.removeFromConn k).listCopy = a.listCopy ∧ (a.removeFromConn k).servers = a.servers ∧
    (a.removeFromConn k).clients = a.clients ∧ (a.removeFromConn k).socks = a.socks ∧
    (a.removeFromConn k).nextKey = a.nextKey ∧ (a.removeFromConn k).nextFd = a.nextFd ∧
    (a.removeFromConn k).nextClient = a.nextClient ∧ (a.removeFromConn k).reactSeq = a.reactSeq ∧
    (a.removeFromConn k).pendingToks = a.pendingToks ∧ (a.removeFromConn k).doneToks = a.doneToks ∧
    (a.removeFromConn k).faults = a.faults := by
  cases hq : a.q? k with
  | none => rw [rfc_none a k hq]; simp
  | some e =>
    rw [Sk.removeFromConn_eq a k e hq]
    cases e.conn <;> simp [Sk.modQ, Sk.modC]

@[simp] theorem rfc_byQid : (a.removeFromConn k).byQid = a.byQid := (rfc_other a k).1
@[simp] theorem rfc_all : (a.removeFromConn k).all = a.all := (rfc_other a k).2.1
@[simp] theorem rfc_listCopy : (a.removeFromConn k).listCopy = a.listCopy := (rfc_other a k).2.2.1
@[simp] theorem rfc_servers : (a.removeFromConn k).servers = a.servers := (rfc_other a k).2.2.2.1
@[simp] theorem rfc_clients : (a.removeFromConn k).clients = a.clients := (rfc_other a k).2.2.2.2.1
@[simp] theorem rfc_socks : (a.removeFromConn k).socks = a.socks := (rfc_other a k).2.2.2.2.2.1
@[simp] theorem rfc_nextKey : (a.removeFromConn k).nextKey = a.nextKey := (rfc_other a k).2.2.2.2.2.2.1
@[simp] theorem rfc_nextFd : (a.removeFromConn k).nextFd = a.nextFd := (rfc_other a k).2.2.2.2.2.2.2.1
@[simp] theorem rfc_nextClient : (a.removeFromConn k).nextClient = a.nextClient :=
  (rfc_other a k).2.2.2.2.2.2.2.2.1
@[simp] theorem rfc_reactSeq : (a.removeFromConn k).reactSeq = a.reactSeq := (rfc_other a k).2.2.2.2.2.2.2.2.2.1
@[simp] theorem rfc_pendingToks : (a.removeFromConn k).pendingToks = a.pendingToks :=
  (rfc_other a k).2.2.2.2.2.2.2.2.2.2.1
@[simp] theorem rfc_doneToks : (a.removeFromConn k).doneToks = a.doneToks :=
  (rfc_other a k).2.2.2.2.2.2.2.2.2.2.2.1
@[simp] theorem rfc_faults : (a.removeFromConn k).faults = a.faults := (rfc_other a k).2.2.2.2.2.2.2.2.2.2.2.2
@[simp] theorem rfc_idx : (a.removeFromConn k).idx = a.idx := by unfold Sk.idx; rw [rfc_byQid]

end same

/-! ### uniqueness of a key's entry in the projections -/

theorem pair_unique {α β} (f : α → Nat) (g : α → β) (l : List α) (hn : (l.map f).Nodup) {k : Nat} {x y : β}
    (hx : (k, x) ∈ l.map fun e => (f e, g e)) (hy : (k, y) ∈ l.map fun e => (f e, g e)) : x = y := by
  simp only [List.mem_map, Prod.mk.injEq] at hx hy
  obtain ⟨e1, h1, k1, rfl⟩ := hx
  obtain ⟨e2, h2, k2, rfl⟩ := hy
  rw [eq_of_nodup_map f l hn e1 h1 e2 h2 (by omega)]

theorem Sk.qKC_unique {a : Sk} (hn : a.qK.Nodup) {k : Nat} {x y : Option Nat}
    (hx : (k, x) ∈ a.qKC) (hy : (k, y) ∈ a.qKC) : x = y :=
  pair_unique (fun e : QSk => e.key) (fun e : QSk => e.conn) a.qs hn hx hy
theorem Sk.qKO_unique {a : Sk} (hn : a.qK.Nodup) {k : Nat} {x y : Owner}
    (hx : (k, x) ∈ a.qKO) (hy : (k, y) ∈ a.qKO) : x = y :=
  pair_unique (fun e : QSk => e.key) (fun e : QSk => e.owner) a.qs hn hx hy
theorem Sk.qKQ_unique {a : Sk} (hn : a.qK.Nodup) {k : Nat} {x y : Nat}
    (hx : (k, x) ∈ a.qKQ) (hy : (k, y) ∈ a.qKQ) : x = y :=
  pair_unique (fun e : QSk => e.key) (fun e : QSk => e.qid) a.qs hn hx hy
theorem Sk.cFQ_unique {a : Sk} (hn : (a.cFQ.map (·.1)).Nodup) {k : Nat} {x y : List Nat}
    (hx : (k, x) ∈ a.cFQ) (hy : (k, y) ∈ a.cFQ) : x = y := by
  refine pair_unique (fun c : CSk => c.fd) (fun c : CSk => c.queries) a.conns ?_ hx hy
  have : a.cFQ.map (·.1) = a.conns.map fun c => c.fd := by
    unfold Sk.cFQ; rw [List.map_map]; rfl
  rwa [this] at hn

theorem Sk.q?_mem_proj {a : Sk} {k : Nat} {e : QSk} (h : a.q? k = some e) :
    (k, e.conn) ∈ a.qKC ∧ (k, e.owner) ∈ a.qKO ∧ (k, e.qid) ∈ a.qKQ ∧ k ∈ a.qK := by
  obtain ⟨hm, rfl⟩ := Sk.q?_some h
  exact ⟨List.mem_map.mpr ⟨e, hm, rfl⟩, List.mem_map.mpr ⟨e, hm, rfl⟩, List.mem_map.mpr ⟨e, hm, rfl⟩,
    List.mem_map.mpr ⟨e, hm, rfl⟩⟩

/-- a linked key is live -/
theorem WfS.live_of_idx {a : Sk} {hole} (h : WfS a hole) {k : Nat} (hk : k ∈ a.idx) : ∃ e, a.q? k = some e := by
  obtain ⟨p, hp, rfl⟩ := List.mem_map.mp hk
  have := h.i.qidLive p hp
  obtain ⟨e, he, hpe⟩ := List.mem_map.mp this
  have hq := Sk.q?_of_mem (a := a) h.q.nodup he
  simp only [Prod.mk.injEq] at hpe
  rw [hpe.1] at hq
  exact ⟨e, hq⟩

section spec
variable {a : Sk} {k : Nat} {e : QSk}

theorem rfc_qKC (hq : a.q? k = some e) :
    (a.removeFromConn k).qKC = a.qKC.map fun p => if p.1 == k then (p.1, none) else p := by
  rw [Sk.removeFromConn_eq a k e hq]
  show (Sk.modQ _ k fun e => { e with conn := none }).qKC = _
  rw [qKC_modQ_conn]
  cases e.conn <;> rfl

theorem rfc_bt (hq : a.q? k = some e) : (a.removeFromConn k).byTimeout = a.byTimeout.erase k := by
  rw [Sk.removeFromConn_eq a k e hq]
theorem rfc_po (hq : a.q? k = some e) : (a.removeFromConn k).pendingOrder = a.pendingOrder.erase k := by
  rw [Sk.removeFromConn_eq a k e hq]

theorem rfc_cFQ (hq : a.q? k = some e) :
    (a.removeFromConn k).cFQ = match e.conn with
      | some fd => a.cFQ.map fun c => if c.1 == fd then (c.1, c.2.erase k) else c
      | none => a.cFQ := by
  rw [Sk.removeFromConn_eq a k e hq]
  cases e.conn with
  | none => rfl
  | some fd => exact cFQ_modC_queries a fd (·.erase k)

theorem rfc_cFUQ (hq : a.q? k = some e) :
    (a.removeFromConn k).cFUQ = match e.conn with
      | some fd => a.cFUQ.map fun c => if c.1 == fd then (c.1, c.2.1, c.2.2.erase k) else c
      | none => a.cFUQ := by
  rw [Sk.removeFromConn_eq a k e hq]
  cases e.conn with
  | none => rfl
  | some fd => exact cFUQ_modC_queries a fd (·.erase k)

end spec

end Cares.Chan
