import CaresModel.Chan.Core
/-!
# C06 — accounting of the frames handed to connections (pure part)

Every write of a query's frame (`writeLog`) is paid for by one of: the initial send, a counted try (`try_count`), a
BADCOOKIE resend (`cookie_try_count`), the EDNS downgrade, or an accepted truncated reply.  Deferred requeue entries
(`read_answers`' array, entries `(qid, server)`) are writes still to come and are counted as such.

This file is the list-level theory on the projection `WP` of the state; `ChanPolicyWritesSt.lean` connects it to the
state helpers and the procedure bodies.
-/
namespace Cares.Chan

/-- the fields of the state the accounting reads -/
structure WP where
  tries : Nat
  nsrv : Nat
  qs : List Query
  byQid : List (Nat × Nat)
  nextKey : Nat
  rnd2 : List Nat
  req : List (Nat × Option Nat)
  wlog : List Nat
  acc : List (Nat × Nat × Reply)

/-- budget part of the potential: `try_count + 1` writes, capped by `servers × tries` (but at least the first send) -/
def bud (M t : Nat) : Nat := max 1 (min (t + 1) M)

/-- accepted truncated replies for query `k` -/
def tcCountL (acc : List (Nat × Nat × Reply)) (k : Nat) : Nat := acc.countP (fun e => e.2.1 == k && e.2.2.tc)

/-- pending deferred-requeue entries for query id `qid` -/
def pendL (req : List (Nat × Option Nat)) (qid : Nat) : Nat := req.countP (fun e => e.1 == qid)

/-- what a query may have cost so far -/
def potP (p : WP) (q : Query) : Nat :=
  bud (p.nsrv * p.tries) q.tryCount + q.cookieTry + (if q.edns then 0 else 1) + tcCountL p.acc q.key

/-- a credit of one for key `k` -/
def cr1 (c : Option Nat) (k : Nat) : Nat := if c = some k then 1 else 0

theorem cr1_none (k : Nat) : cr1 none k = 0 := rfl
theorem cr1_self (k : Nat) : cr1 (some k) k = 1 := by simp [cr1]
theorem cr1_ne {k k' : Nat} (h : k' ≠ k) : cr1 (some k) k' = 0 := by
  unfold cr1; rw [if_neg]; intro e; exact h (Option.some.inj e).symm
theorem cr1_le_one (c : Option Nat) (k : Nat) : cr1 c k ≤ 1 := by unfold cr1; split <;> omega

theorem bud_mono (M : Nat) {t t' : Nat} (h : t ≤ t') : bud M t ≤ bud M t' := by unfold bud; omega
theorem bud_succ (M t : Nat) (h : t + 1 < M) : bud M (t + 1) = bud M t + 1 := by unfold bud; omega
theorem bud_le (M t : Nat) : bud M t ≤ max 1 M := by unfold bud; omega
theorem one_le_bud (M t : Nat) : 1 ≤ bud M t := by unfold bud; omega

/-- the accounting invariant on the projection; `cw` = a write credit (the potential of that key exceeds its cost by
    one: a write or a deferred entry may be added) -/
structure WOk (tr ns : Nat) (cw : Option Nat) (p : WP) : Prop where
  htries : p.tries = tr
  hnsrv : p.nsrv = ns
  keysNodup : (p.qs.map (·.key)).Nodup
  keyLt : ∀ q ∈ p.qs, q.key < p.nextKey
  byQidLt : ∀ e ∈ p.byQid, e.2 < p.nextKey
  fresh : ∀ k, p.nextKey ≤ k → p.wlog.count k = 0
  qidInj : ∀ a ∈ p.qs, ∀ b ∈ p.qs, a.qid = b.qid → a.key = b.key
  byQidOk : ∀ e ∈ p.byQid, ∀ q ∈ p.qs, q.key = e.2 → q.qid = e.1
  rndNodup : p.rnd2.Nodup
  rndLen : p.rnd2.length < 70000
  rndLt : ∀ x ∈ p.rnd2, x < 70000
  reqFresh : ∀ e ∈ p.req, e.1 ∉ p.rnd2 ∧ e.1 < 70000 + p.nextKey
  qidFresh : ∀ q ∈ p.qs, q.qid ∉ p.rnd2 ∧ q.qid < 70000 + p.nextKey
  acct : ∀ q ∈ p.qs, p.wlog.count q.key + pendL p.req q.qid + cr1 cw q.key ≤ potP p q

namespace WOk
variable {tr ns : Nat} {cw : Option Nat} {p : WP}

/-- a credit may be dropped -/
theorem dropW (h : WOk tr ns cw p) : WOk tr ns none p :=
  { h with acct := fun q hq => by have := h.acct q hq; rw [cr1_none]; omega }

/-- members with the same key are equal -/
theorem eq_of_key (h : WOk tr ns cw p) {a b : Query} (ha : a ∈ p.qs) (hb : b ∈ p.qs) (e : a.key = b.key) :
    a = b := by
  have hn := h.keysNodup
  generalize p.qs = l at ha hb hn
  induction l with
  | nil => cases ha
  | cons x r ih =>
    simp only [List.map_cons, List.nodup_cons, List.mem_map, not_exists, not_and] at hn
    rcases List.mem_cons.1 ha with rfl | ha' <;> rcases List.mem_cons.1 hb with rfl | hb'
    · rfl
    · exact absurd e.symm (hn.1 b hb')
    · exact absurd e (hn.1 a ha')
    · exact ih ha' hb' hn.2

/-! ### rewriting queries -/

/-- the fields the accounting reads -/
def CoreEq (g : Query → Query) : Prop :=
  ∀ q, (g q).key = q.key ∧ (g q).qid = q.qid ∧ (g q).tryCount = q.tryCount ∧ (g q).cookieTry = q.cookieTry ∧
       (g q).edns = q.edns ∧ (g q).timeouts = q.timeouts

theorem potP_core {g : Query → Query} (hg : CoreEq g) (p p' : WP) (h1 : p'.nsrv = p.nsrv) (h2 : p'.tries = p.tries)
    (h3 : p'.acc = p.acc) (q : Query) : potP p' (g q) = potP p q := by
  obtain ⟨a, _, c, d, e, _⟩ := hg q
  unfold potP; rw [a, c, d, e, h1, h2, h3]

theorem mapQs {g : Query → Query} (hg : CoreEq g) (h : WOk tr ns cw p) :
    WOk tr ns cw { p with qs := p.qs.map g } := by
  have hk : (p.qs.map g).map (·.key) = p.qs.map (·.key) := by
    rw [List.map_map]; apply List.map_congr_left; intro q _; exact (hg q).1
  refine { htries := h.htries, hnsrv := h.hnsrv, keysNodup := ?_, keyLt := ?_, byQidLt := h.byQidLt,
           fresh := h.fresh, qidInj := ?_, byQidOk := ?_, rndNodup := h.rndNodup, rndLen := h.rndLen,
           rndLt := h.rndLt, reqFresh := h.reqFresh, qidFresh := ?_, acct := ?_ }
  · show ((p.qs.map g).map (·.key)).Nodup; rw [hk]; exact h.keysNodup
  · intro q hq
    obtain ⟨q0, hq0, rfl⟩ := List.mem_map.1 hq
    rw [(hg q0).1]; exact h.keyLt q0 hq0
  · intro a ha b hb e
    obtain ⟨a0, ha0, rfl⟩ := List.mem_map.1 ha
    obtain ⟨b0, hb0, rfl⟩ := List.mem_map.1 hb
    rw [(hg a0).2.1, (hg b0).2.1] at e
    rw [(hg a0).1, (hg b0).1]; exact h.qidInj a0 ha0 b0 hb0 e
  · intro e he q hq hk'
    obtain ⟨q0, hq0, rfl⟩ := List.mem_map.1 hq
    rw [(hg q0).1] at hk'
    rw [(hg q0).2.1]; exact h.byQidOk e he q0 hq0 hk'
  · intro q hq
    obtain ⟨q0, hq0, rfl⟩ := List.mem_map.1 hq
    rw [(hg q0).2.1]; exact h.qidFresh q0 hq0
  · intro q hq
    obtain ⟨q0, hq0, rfl⟩ := List.mem_map.1 hq
    have := h.acct q0 hq0
    show p.wlog.count (g q0).key + pendL p.req (g q0).qid + cr1 cw (g q0).key ≤ potP p (g q0)
    rw [potP_core hg p p rfl rfl rfl, (hg q0).1, (hg q0).2.1]; exact this

/-- queries and index entries may disappear -/
theorem sub {qs' : List Query} {bq' : List (Nat × Nat)} (hq : qs'.Sublist p.qs) (hb : bq'.Sublist p.byQid)
    (h : WOk tr ns cw p) : WOk tr ns cw { p with qs := qs', byQid := bq' } :=
  { h with
    keysNodup := (hq.map _).nodup h.keysNodup
    keyLt := fun q hm => h.keyLt q (hq.subset hm)
    byQidLt := fun e he => h.byQidLt e (hb.subset he)
    qidInj := fun a ha b hb' e => h.qidInj a (hq.subset ha) b (hq.subset hb') e
    byQidOk := fun e he q hm => h.byQidOk e (hb.subset he) q (hq.subset hm)
    qidFresh := fun q hm => h.qidFresh q (hq.subset hm)
    acct := fun q hm => h.acct q (hq.subset hm) }

/-- draws are consumed -/
theorem shrinkRnd {r' : List Nat} (hr : r'.Sublist p.rnd2) (h : WOk tr ns cw p) :
    WOk tr ns cw { p with rnd2 := r' } :=
  { h with
    rndNodup := hr.nodup h.rndNodup
    rndLen := Nat.lt_of_le_of_lt hr.length_le h.rndLen
    rndLt := fun x hx => h.rndLt x (hr.subset hx)
    reqFresh := fun e he => ⟨fun hx => (h.reqFresh e he).1 (hr.subset hx), (h.reqFresh e he).2⟩
    qidFresh := fun q hq => ⟨fun hx => (h.qidFresh q hq).1 (hr.subset hx), (h.qidFresh q hq).2⟩ }

/-- more accepted replies only raise the potential -/
theorem tcCountL_append_le (acc : List (Nat × Nat × Reply)) (e : Nat × Nat × Reply) (k : Nat) :
    tcCountL acc k ≤ tcCountL (acc ++ [e]) k := by
  unfold tcCountL; rw [List.countP_append]; omega

theorem accept (e : Nat × Nat × Reply) (h : WOk tr ns cw p) : WOk tr ns cw { p with acc := p.acc ++ [e] } :=
  { h with
    acct := fun q hq => by
      have := h.acct q hq
      have h2 := tcCountL_append_le p.acc e q.key
      unfold potP at *
      show p.wlog.count q.key + pendL p.req q.qid + cr1 cw q.key ≤
        bud (p.nsrv * p.tries) q.tryCount + q.cookieTry + (if q.edns then 0 else 1) + tcCountL (p.acc ++ [e]) q.key
      omega }

/-- an accepted truncated reply for `key` gives a write credit for `key` -/
theorem acceptTc (fd key : Nat) (r : Reply) (hr : r.tc = true) (h : WOk tr ns none p) :
    WOk tr ns (some key) { p with acc := p.acc ++ [(fd, key, r)] } :=
  { h with
    acct := fun q hq => by
      have := h.acct q hq
      rw [cr1_none] at this
      unfold potP at *
      show p.wlog.count q.key + pendL p.req q.qid + cr1 (some key) q.key ≤
        bud (p.nsrv * p.tries) q.tryCount + q.cookieTry + (if q.edns then 0 else 1) +
        tcCountL (p.acc ++ [(fd, key, r)]) q.key
      by_cases hk : q.key = key
      · have : tcCountL (p.acc ++ [(fd, key, r)]) q.key = tcCountL p.acc q.key + 1 := by
          unfold tcCountL; rw [List.countP_append]; simp [hk, hr]
        have := cr1_le_one (some key) q.key
        omega
      · have h2 := tcCountL_append_le p.acc (fd, key, r) q.key
        rw [cr1_ne hk]; omega }

/-! ### the write itself -/

theorem write (key : Nat) (hk : key < p.nextKey) (h : WOk tr ns (some key) p) :
    WOk tr ns none { p with wlog := p.wlog ++ [key] } :=
  { h with
    fresh := fun k hk' => by
      have hk'' : p.nextKey ≤ k := hk'
      show (p.wlog ++ [key]).count k = 0
      rw [List.count_append, h.fresh k hk'']
      have : key ≠ k := by omega
      simp [this]
    acct := fun q hq => by
      have := h.acct q hq
      show (p.wlog ++ [key]).count q.key + pendL p.req q.qid + cr1 none q.key ≤ potP p q
      rw [List.count_append, cr1_none]
      by_cases hqk : q.key = key
      · rw [hqk] at this ⊢
        rw [cr1_self] at this
        simp only [List.count_cons, List.count_nil, beq_self_eq_true, ↓reduceIte]
        omega
      · rw [cr1_ne hqk] at this
        have : key ≠ q.key := fun e => hqk e.symm
        simp only [List.count_cons, List.count_nil, beq_iff_eq, this, ↓reduceIte]
        omega }

/-! ### the deferred-requeue array -/

/-- appending an entry for the query `q0` that holds the write credit -/
theorem push (q0 : Query) (hq0 : q0 ∈ p.qs) (srv : Option Nat) (h : WOk tr ns (some q0.key) p) :
    WOk tr ns none { p with req := p.req ++ [(q0.qid, srv)] } :=
  { h with
    reqFresh := fun e he => by
      rcases List.mem_append.1 he with he | he
      · exact h.reqFresh e he
      · simp only [List.mem_singleton] at he; subst he; exact h.qidFresh q0 hq0
    acct := fun q hq => by
      have := h.acct q hq
      show p.wlog.count q.key + pendL (p.req ++ [(q0.qid, srv)]) q.qid + cr1 none q.key ≤ potP p q
      unfold pendL at *
      rw [List.countP_append, cr1_none]
      by_cases hqq : q.qid = q0.qid
      · have hk := h.qidInj q hq q0 hq0 hqq
        rw [hk, cr1_self] at this
        rw [hk]
        simp only [List.countP_cons, List.countP_nil, hqq, beq_self_eq_true, ↓reduceIte]
        rw [hqq] at this
        omega
      · have hc : List.countP (fun e : Nat × Option Nat => e.1 == q.qid) [(q0.qid, srv)] = 0 := by
          rw [List.countP_eq_zero]
          intro e he
          simp only [List.mem_singleton] at he; subst he
          simpa using fun e => hqq e.symm
        rw [hc]
        have := cr1_le_one (some q0.key) q.key
        omega }

/-- taking the first entry: whatever query its id resolves to through the id table gets the write credit -/
theorem pop (e : Nat × Option Nat) (rest : List (Nat × Option Nat)) (hreq : p.req = e :: rest)
    (h : WOk tr ns none p) :
    WOk tr ns none { p with req := rest } ∧
    ∀ qid' key, (qid', key) ∈ p.byQid → qid' = e.1 → WOk tr ns (some key) { p with req := rest } := by
  have hle : ∀ qid, pendL rest qid ≤ pendL p.req qid := by
    intro qid; rw [hreq]; unfold pendL; rw [List.countP_cons]; omega
  have base : WOk tr ns none { p with req := rest } :=
    { h with
      reqFresh := fun x hx => h.reqFresh x (by rw [hreq]; exact List.mem_cons_of_mem _ hx)
      acct := fun q hq => by
        have := h.acct q hq
        have := hle q.qid
        show p.wlog.count q.key + pendL rest q.qid + cr1 none q.key ≤ potP p q
        omega }
  refine ⟨base, ?_⟩
  intro qid' key hmem hqid
  refine { base with acct := ?_ }
  intro q hq
  have hacct := h.acct q hq
  rw [cr1_none] at hacct
  show p.wlog.count q.key + pendL rest q.qid + cr1 (some key) q.key ≤ potP p q
  by_cases hk : q.key = key
  · have hqq : q.qid = e.1 := by
      have := h.byQidOk (qid', key) hmem q hq hk
      rw [this]; exact hqid
    have : pendL p.req q.qid = pendL rest q.qid + 1 := by
      rw [hreq]; unfold pendL; rw [List.countP_cons]; simp [hqq]
    have := cr1_le_one (some key) q.key
    omega
  · rw [cr1_ne hk]
    have := hle q.qid
    omega

/-! ### rewriting the one query with key `key` -/

/-- the query with key `key` is rewritten by `f` (key and id kept); the obligations are about that query only -/
theorem modKey (key : Nat) (f : Query → Query) (cw' : Option Nat)
    (hf : ∀ q, (f q).key = q.key ∧ (f q).qid = q.qid)
    (hcw : cw = none ∨ cw = some key) (hcw' : cw' = none ∨ cw' = some key)
    (h : WOk tr ns cw p)
    (hacct : ∀ q ∈ p.qs, q.key = key → ∀ c : Nat, c + cr1 cw key ≤ potP p q → c + cr1 cw' key ≤ potP p (f q)) :
    WOk tr ns cw' { p with qs := p.qs.map (fun x => if x.key == key then f x else x) } := by
  have hg : ∀ q, ((fun x => if x.key == key then f x else x) q).key = q.key ∧
      ((fun x => if x.key == key then f x else x) q).qid = q.qid := by
    intro q; dsimp only; split
    · exact hf q
    · exact ⟨rfl, rfl⟩
  have hk : (p.qs.map (fun x => if x.key == key then f x else x)).map (·.key) = p.qs.map (·.key) := by
    rw [List.map_map]; apply List.map_congr_left; intro q _; exact (hg q).1
  have hcr : ∀ (c : Option Nat), (c = none ∨ c = some key) → ∀ k, k ≠ key → cr1 c k = 0 := by
    intro c hc k hne
    rcases hc with rfl | rfl
    · rfl
    · exact cr1_ne hne
  refine { htries := h.htries, hnsrv := h.hnsrv, keysNodup := ?_, keyLt := ?_, byQidLt := h.byQidLt,
           fresh := h.fresh, qidInj := ?_, byQidOk := ?_, rndNodup := h.rndNodup, rndLen := h.rndLen,
           rndLt := h.rndLt, reqFresh := h.reqFresh, qidFresh := ?_, acct := ?_ }
  · have := h.keysNodup; rw [← hk] at this; exact this
  · intro q hq
    obtain ⟨q0, hq0, rfl⟩ := List.mem_map.1 hq
    rw [(hg q0).1]; exact h.keyLt q0 hq0
  · intro a ha b hb e
    obtain ⟨a0, ha0, rfl⟩ := List.mem_map.1 ha
    obtain ⟨b0, hb0, rfl⟩ := List.mem_map.1 hb
    rw [(hg a0).2, (hg b0).2] at e
    rw [(hg a0).1, (hg b0).1]; exact h.qidInj a0 ha0 b0 hb0 e
  · intro e he q hq hk'
    obtain ⟨q0, hq0, rfl⟩ := List.mem_map.1 hq
    rw [(hg q0).1] at hk'
    rw [(hg q0).2]; exact h.byQidOk e he q0 hq0 hk'
  · intro q hq
    obtain ⟨q0, hq0, rfl⟩ := List.mem_map.1 hq
    rw [(hg q0).2]; exact h.qidFresh q0 hq0
  · intro q hq
    obtain ⟨q0, hq0, rfl⟩ := List.mem_map.1 hq
    have h0 := h.acct q0 hq0
    show p.wlog.count _ + pendL p.req _ + cr1 cw' _ ≤ potP p _
    rw [(hg q0).1, (hg q0).2]
    by_cases hkk : q0.key = key
    · have hb : (q0.key == key) = true := by simpa using hkk
      rw [if_pos hb]
      rw [hkk] at h0 ⊢
      exact hacct q0 hq0 hkk _ h0
    · have hb : ¬ (q0.key == key) = true := by simpa using hkk
      rw [if_neg hb]
      rw [hcr cw hcw _ hkk] at h0
      rw [hcr cw' hcw' _ hkk]; exact h0

/-! ### a new query -/

/-- a fresh query (key = `nextKey`, an unused id, all counters zero) enters with a write credit: its first send -/
theorem newQuery (q : Query) (hkey : q.key = p.nextKey) (hx1 : q.qid ∉ p.rnd2) (hx2 : q.qid < 70000 + p.nextKey + 1)
    (hx3 : ∀ e ∈ p.req, e.1 ≠ q.qid) (hx4 : ∀ a ∈ p.qs, a.qid ≠ q.qid)
    (h : WOk tr ns none p) :
    WOk tr ns (some q.key)
      { p with qs := p.qs ++ [q], nextKey := p.nextKey + 1, byQid := p.byQid ++ [(q.qid, q.key)] } := by
  have hnotmem : ∀ a ∈ p.qs, a.key ≠ q.key := by
    intro a ha e
    have := h.keyLt a ha
    omega
  refine { htries := h.htries, hnsrv := h.hnsrv, keysNodup := ?_, keyLt := ?_, byQidLt := ?_, fresh := ?_,
           qidInj := ?_, byQidOk := ?_, rndNodup := h.rndNodup, rndLen := h.rndLen, rndLt := h.rndLt,
           reqFresh := ?_, qidFresh := ?_, acct := ?_ }
  · show ((p.qs ++ [q]).map (·.key)).Nodup
    rw [List.map_append, List.nodup_append]
    refine ⟨h.keysNodup, by simp, ?_⟩
    intro a ha b hb
    obtain ⟨a0, ha0, rfl⟩ := List.mem_map.1 ha
    simp only [List.map_cons, List.map_nil, List.mem_singleton] at hb
    subst hb
    exact hnotmem a0 ha0
  · intro a ha
    have ha : a ∈ p.qs ++ [q] := ha
    show a.key < p.nextKey + 1
    rcases List.mem_append.1 ha with ha | ha
    · have := h.keyLt a ha; omega
    · simp only [List.mem_singleton] at ha; subst ha; omega
  · intro e he
    have he : e ∈ p.byQid ++ [(q.qid, q.key)] := he
    show e.2 < p.nextKey + 1
    rcases List.mem_append.1 he with he | he
    · have := h.byQidLt e he; omega
    · simp only [List.mem_singleton] at he; subst he; show q.key < _; omega
  · intro k hk
    exact h.fresh k (by show p.nextKey ≤ k; have : p.nextKey + 1 ≤ k := hk; omega)
  · intro a ha b hb e
    have ha : a ∈ p.qs ++ [q] := ha
    have hb : b ∈ p.qs ++ [q] := hb
    rcases List.mem_append.1 ha with ha1 | ha1 <;> rcases List.mem_append.1 hb with hb1 | hb1
    · exact h.qidInj a ha1 b hb1 e
    · simp only [List.mem_singleton] at hb1; rw [hb1] at e; exact absurd e (hx4 a ha1)
    · simp only [List.mem_singleton] at ha1; rw [ha1] at e; exact absurd e.symm (hx4 b hb1)
    · simp only [List.mem_singleton] at ha1 hb1; rw [ha1, hb1]
  · intro e he a ha hk
    have he : e ∈ p.byQid ++ [(q.qid, q.key)] := he
    have ha : a ∈ p.qs ++ [q] := ha
    rcases List.mem_append.1 he with he1 | he1 <;> rcases List.mem_append.1 ha with ha1 | ha1
    · exact h.byQidOk e he1 a ha1 hk
    · simp only [List.mem_singleton] at ha1; rw [ha1] at hk
      have := h.byQidLt e he1
      omega
    · simp only [List.mem_singleton] at he1; rw [he1] at hk
      exact absurd hk (hnotmem a ha1)
    · simp only [List.mem_singleton] at he1 ha1; rw [he1, ha1]
  · intro e he
    have := h.reqFresh e he
    exact ⟨this.1, by show e.1 < 70000 + (p.nextKey + 1); omega⟩
  · intro a ha
    have ha : a ∈ p.qs ++ [q] := ha
    show a.qid ∉ p.rnd2 ∧ a.qid < 70000 + (p.nextKey + 1)
    rcases List.mem_append.1 ha with ha | ha
    · have := h.qidFresh a ha; exact ⟨this.1, by omega⟩
    · simp only [List.mem_singleton] at ha; subst ha; exact ⟨hx1, by omega⟩
  · intro a ha
    have ha : a ∈ p.qs ++ [q] := ha
    show p.wlog.count a.key + pendL p.req a.qid + cr1 (some q.key) a.key ≤ potP p a
    rcases List.mem_append.1 ha with ha | ha
    · have := h.acct a ha
      rw [cr1_none] at this
      rw [cr1_ne (hnotmem a ha)]; exact this
    · simp only [List.mem_singleton] at ha; subst ha
      have h1 : p.wlog.count a.key = 0 := h.fresh a.key (by omega)
      have h2 : pendL p.req a.qid = 0 := by
        unfold pendL
        rw [List.countP_eq_zero]
        intro e he
        simpa using hx3 e he
      rw [h1, h2, cr1_self]
      unfold potP
      have := one_le_bud (p.nsrv * p.tries) a.tryCount
      omega

end WOk

end Cares.Chan
