import CaresModel.Chan.Core
/-!
# C06 — accounting of the frames handed to connections (pure part)

Every write of a query's frame (`writeLog`) is paid for by one of: the initial send, a counted try (`try_count`), a
BADCOOKIE resend (`cookie_try_count ≤ 3`), the EDNS downgrade (`edns` goes false), or the UDP→TCP upgrade
(`using_tcp` goes true).  Deferred requeue entries (`read_answers`' array, entries `(qid, server)`) are writes still
to come and are counted as such.  The invariant also carries what is needed to show that the counters really are
bounded: a query with `using_tcp` is only ever attached to TCP connections (so the truncation branch, which needs a
UDP connection, cannot fire again) and a query that used up its cookie resends carries no cookie any more.

This file is the list-level theory on the projection `CP` of the state; `ChanPolicyWritesSt.lean` connects it to the
state helpers, `ChanPolicyWritesExec.lean` to the procedure bodies.
-/
namespace Cares.Chan

/-- the fields of the state the accounting reads -/
structure CP where
  tries : Nat
  nsrv : Nat
  qs : List Query
  byQid : List (Nat × Nat)
  nextKey : Nat
  rnd2 : List Nat
  req : List (Nat × Option Nat)
  wlog : List Nat
  /-- `(fd, tcp)` of every connection, in order -/
  kinds : List (Nat × Bool)
  nextFd : Nat
  /-- `tcpConn` of every server -/
  tcpConns : List (Option Nat)

/-- budget part of the potential: `try_count + 1` writes, capped by `servers × tries` (but at least the first send) -/
def bud (M t : Nat) : Nat := max 1 (min (t + 1) M)

/-- pending deferred-requeue entries for query id `qid` -/
def pendL (req : List (Nat × Option Nat)) (qid : Nat) : Nat := req.countP (fun e => e.1 == qid)

/-- what a query may have cost so far -/
def potP (p : CP) (q : Query) : Nat :=
  bud (p.nsrv * p.tries) q.tryCount + q.cookieTry + (if q.edns then 0 else 1) + (if q.usingTcp then 1 else 0)

/-- transport of the connection with descriptor `fd` (first match, as `St.conn?`) -/
def kindOfL (kinds : List (Nat × Bool)) (fd : Nat) : Option Bool := (kinds.find? (·.1 == fd)).map (·.2)

/-- the connection `fd`, if it exists, is a TCP connection -/
def TcpIfAny (kinds : List (Nat × Bool)) (fd : Nat) : Prop := ∀ b, kindOfL kinds fd = some b → b = true

/-- a credit of one for key `k` -/
def cr1 (c : Option Nat) (k : Nat) : Nat := if c = some k then 1 else 0

theorem cr1_none (k : Nat) : cr1 none k = 0 := rfl
theorem cr1_self (k : Nat) : cr1 (some k) k = 1 := by simp [cr1]
theorem cr1_ne {k k' : Nat} (h : k' ≠ k) : cr1 (some k) k' = 0 := by
  unfold cr1; rw [if_neg]; intro e; exact h (Option.some.inj e).symm
theorem cr1_le_one (c : Option Nat) (k : Nat) : cr1 c k ≤ 1 := by unfold cr1; split <;> omega

theorem bud_mono (M : Nat) {t t' : Nat} (h : t ≤ t') : bud M t ≤ bud M t' := by unfold bud; omega
theorem bud_succ (M t : Nat) (h : t + 1 < M) : bud M (t + 1) = bud M t + 1 := by unfold bud; omega
theorem bud_le (M t : Nat) : bud M t ≤ max 1 M := by unfold bud; omega
theorem one_le_bud (M t : Nat) : 1 ≤ bud M t := by unfold bud; omega

/-- the final bound: `servers × tries` counted tries (at least the first send) + 3 cookie resends + EDNS + TCP -/
def writeBound (tr ns : Nat) : Nat := max 1 (ns * tr) + 5

/-- The accounting invariant on the projection.  `cw` = a write credit (the potential of that key exceeds its cost by
    one: a write or a deferred entry may be added); `ex` = a key whose query is exempt from the two "attached" clauses
    (between `ares_cookie_validate` bumping the counters and `ares_requeue_query` detaching the query). -/
structure COk (tr ns : Nat) (cw ex : Option Nat) (p : CP) : Prop where
  htries : p.tries = tr
  hnsrv : p.nsrv = ns
  keysNodup : (p.qs.map (·.key)).Nodup
  keyLt : ∀ q ∈ p.qs, q.key < p.nextKey
  byQidLt : ∀ e ∈ p.byQid, e.2 < p.nextKey
  fresh : ∀ k, p.nextKey ≤ k → p.wlog.count k = 0
  qidInj : ∀ a ∈ p.qs, ∀ b ∈ p.qs, a.qid = b.qid → a.key = b.key
  byQidOk : ∀ e ∈ p.byQid, ∀ q ∈ p.qs, q.key = e.2 → q.qid = e.1
  rndNodup : p.rnd2.Nodup
  rndLen : p.rnd2.length < 70000
  rndLt : ∀ x ∈ p.rnd2, x < 70000
  reqFresh : ∀ e ∈ p.req, e.1 ∉ p.rnd2 ∧ e.1 < 70000 + p.nextKey
  qidFresh : ∀ q ∈ p.qs, q.qid ∉ p.rnd2 ∧ q.qid < 70000 + p.nextKey
  acct : ∀ q ∈ p.qs, p.wlog.count q.key + pendL p.req q.qid + cr1 cw q.key ≤ potP p q
  ck3 : ∀ q ∈ p.qs, q.cookieTry ≤ 3
  ck3tcp : ∀ q ∈ p.qs, 3 ≤ q.cookieTry → q.usingTcp = true
  ckR : ∀ q ∈ p.qs, ex ≠ some q.key → 3 ≤ q.cookieTry → q.reqCookie = none ∨ q.conn = none
  kindLt : ∀ e ∈ p.kinds, e.1 < p.nextFd
  tcpOk : ∀ o ∈ p.tcpConns, ∀ fd, o = some fd → fd < p.nextFd ∧ TcpIfAny p.kinds fd
  attLt : ∀ q ∈ p.qs, ∀ fd, q.conn = some fd → fd < p.nextFd
  attTcp : ∀ q ∈ p.qs, ex ≠ some q.key → q.usingTcp = true → ∀ fd, q.conn = some fd → TcpIfAny p.kinds fd
  dead : ∀ k, k < p.nextKey → (∀ q ∈ p.qs, q.key ≠ k) → p.wlog.count k ≤ writeBound tr ns

namespace COk
variable {tr ns : Nat} {cw ex : Option Nat} {p : CP}

theorem potP_le (h : COk tr ns cw ex p) {q : Query} (hq : q ∈ p.qs) : potP p q ≤ writeBound tr ns := by
  unfold potP writeBound
  rw [h.htries, h.hnsrv]
  have h1 := bud_le (ns * tr) q.tryCount
  have h2 := h.ck3 q hq
  split <;> split <;> omega

/-- **the bound**: no key has more writes than `servers × tries + 5` -/
theorem count_le (h : COk tr ns cw ex p) (k : Nat) : p.wlog.count k ≤ writeBound tr ns := by
  by_cases hk : k < p.nextKey
  · by_cases hl : ∃ q ∈ p.qs, q.key = k
    · obtain ⟨q, hq, rfl⟩ := hl
      have := h.acct q hq
      have := h.potP_le hq
      omega
    · exact h.dead k hk (fun q hq e => hl ⟨q, hq, e⟩)
  · rw [h.fresh k (by omega)]; exact Nat.zero_le _

/-- a credit may be dropped -/
theorem dropW (h : COk tr ns cw ex p) : COk tr ns none ex p :=
  { h with acct := fun q hq => by have := h.acct q hq; rw [cr1_none]; omega }

/-- an exemption may be added -/
theorem addEx (h : COk tr ns cw none p) (ex : Option Nat) : COk tr ns cw ex p :=
  { h with
    ckR := fun q hq _ h3 => h.ckR q hq (by simp) h3
    attTcp := fun q hq _ hu fd hc => h.attTcp q hq (by simp) hu fd hc }

/-- members with the same key are equal -/
theorem eq_of_key (h : COk tr ns cw ex p) {a b : Query} (ha : a ∈ p.qs) (hb : b ∈ p.qs) (e : a.key = b.key) :
    a = b := by
  have hn := h.keysNodup
  generalize p.qs = l at ha hb hn
  induction l with
  | nil => cases ha
  | cons x r ih =>
    simp only [List.map_cons, List.nodup_cons, List.mem_map, not_exists, not_and] at hn
    rcases List.mem_cons.1 ha with rfl | ha' <;> rcases List.mem_cons.1 hb with rfl | hb'
    · rfl
    · exact absurd e.symm (hn.1 b hb')
    · exact absurd e (hn.1 a ha')
    · exact ih ha' hb' hn.2

/-! ### rewriting queries -/

/-- the fields the invariant reads -/
def CoreEq (g : Query → Query) : Prop :=
  ∀ q, (g q).key = q.key ∧ (g q).qid = q.qid ∧ (g q).tryCount = q.tryCount ∧ (g q).cookieTry = q.cookieTry ∧
       (g q).edns = q.edns ∧ (g q).usingTcp = q.usingTcp ∧ (g q).conn = q.conn ∧ (g q).reqCookie = q.reqCookie

theorem potP_core {g : Query → Query} (hg : CoreEq g) (p : CP) (q : Query) : potP p (g q) = potP p q := by
  obtain ⟨_, _, c, d, e, f, _, _⟩ := hg q
  unfold potP; rw [c, d, e, f]

theorem mapQs {g : Query → Query} (hg : CoreEq g) (h : COk tr ns cw ex p) :
    COk tr ns cw ex { p with qs := p.qs.map g } := by
  have hk : (p.qs.map g).map (·.key) = p.qs.map (·.key) := by
    rw [List.map_map]; apply List.map_congr_left; intro q _; exact (hg q).1
  refine { htries := h.htries, hnsrv := h.hnsrv, keysNodup := ?_, keyLt := ?_, byQidLt := h.byQidLt,
           fresh := h.fresh, qidInj := ?_, byQidOk := ?_, rndNodup := h.rndNodup, rndLen := h.rndLen,
           rndLt := h.rndLt, reqFresh := h.reqFresh, qidFresh := ?_, acct := ?_, ck3 := ?_, ck3tcp := ?_,
           ckR := ?_, kindLt := h.kindLt, tcpOk := h.tcpOk, attLt := ?_, attTcp := ?_, dead := ?_ }
  · have := h.keysNodup; rw [← hk] at this; exact this
  · intro q hq
    obtain ⟨q0, hq0, rfl⟩ := List.mem_map.1 hq
    rw [(hg q0).1]; exact h.keyLt q0 hq0
  · intro a ha b hb e
    obtain ⟨a0, ha0, rfl⟩ := List.mem_map.1 ha
    obtain ⟨b0, hb0, rfl⟩ := List.mem_map.1 hb
    rw [(hg a0).2.1, (hg b0).2.1] at e
    rw [(hg a0).1, (hg b0).1]; exact h.qidInj a0 ha0 b0 hb0 e
  · intro e he q hq hk'
    obtain ⟨q0, hq0, rfl⟩ := List.mem_map.1 hq
    rw [(hg q0).1] at hk'
    rw [(hg q0).2.1]; exact h.byQidOk e he q0 hq0 hk'
  · intro q hq
    obtain ⟨q0, hq0, rfl⟩ := List.mem_map.1 hq
    rw [(hg q0).2.1]; exact h.qidFresh q0 hq0
  · intro q hq
    obtain ⟨q0, hq0, rfl⟩ := List.mem_map.1 hq
    have := h.acct q0 hq0
    show p.wlog.count (g q0).key + pendL p.req (g q0).qid + cr1 cw (g q0).key ≤ potP p (g q0)
    rw [potP_core hg p, (hg q0).1, (hg q0).2.1]; exact this
  · intro q hq
    obtain ⟨q0, hq0, rfl⟩ := List.mem_map.1 hq
    rw [(hg q0).2.2.2.1]; exact h.ck3 q0 hq0
  · intro q hq
    obtain ⟨q0, hq0, rfl⟩ := List.mem_map.1 hq
    rw [(hg q0).2.2.2.1, (hg q0).2.2.2.2.2.1]; exact h.ck3tcp q0 hq0
  · intro q hq
    obtain ⟨q0, hq0, rfl⟩ := List.mem_map.1 hq
    rw [(hg q0).1, (hg q0).2.2.2.1, (hg q0).2.2.2.2.2.2.2, (hg q0).2.2.2.2.2.2.1]; exact h.ckR q0 hq0
  · intro q hq
    obtain ⟨q0, hq0, rfl⟩ := List.mem_map.1 hq
    rw [(hg q0).2.2.2.2.2.2.1]; exact h.attLt q0 hq0
  · intro q hq
    obtain ⟨q0, hq0, rfl⟩ := List.mem_map.1 hq
    rw [(hg q0).1, (hg q0).2.2.2.2.2.1, (hg q0).2.2.2.2.2.2.1]; exact h.attTcp q0 hq0
  · intro k hk' hno
    refine h.dead k hk' ?_
    intro q hq e
    exact hno (g q) (List.mem_map.2 ⟨q, hq, rfl⟩) (by rw [(hg q).1]; exact e)

/-- queries and index entries may disappear -/
theorem sub {qs' : List Query} {bq' : List (Nat × Nat)} (hq : qs'.Sublist p.qs) (hb : bq'.Sublist p.byQid)
    (h : COk tr ns cw ex p) : COk tr ns cw ex { p with qs := qs', byQid := bq' } :=
  { htries := h.htries, hnsrv := h.hnsrv
    keysNodup := (hq.map _).nodup h.keysNodup
    keyLt := fun q hm => h.keyLt q (hq.subset hm)
    byQidLt := fun e he => h.byQidLt e (hb.subset he)
    fresh := h.fresh
    qidInj := fun a ha b hb' e => h.qidInj a (hq.subset ha) b (hq.subset hb') e
    byQidOk := fun e he q hm => h.byQidOk e (hb.subset he) q (hq.subset hm)
    rndNodup := h.rndNodup, rndLen := h.rndLen, rndLt := h.rndLt, reqFresh := h.reqFresh
    qidFresh := fun q hm => h.qidFresh q (hq.subset hm)
    acct := fun q hm => h.acct q (hq.subset hm)
    ck3 := fun q hm => h.ck3 q (hq.subset hm)
    ck3tcp := fun q hm => h.ck3tcp q (hq.subset hm)
    ckR := fun q hm => h.ckR q (hq.subset hm)
    kindLt := h.kindLt, tcpOk := h.tcpOk
    attLt := fun q hm => h.attLt q (hq.subset hm)
    attTcp := fun q hm => h.attTcp q (hq.subset hm)
    dead := fun k hk hno => by
      by_cases hl : ∃ q ∈ p.qs, q.key = k
      · obtain ⟨q, hq0, rfl⟩ := hl
        have := h.acct q hq0
        have := h.potP_le hq0
        show p.wlog.count q.key ≤ writeBound tr ns
        omega
      · exact h.dead k hk (fun q hq0 e => hl ⟨q, hq0, e⟩) }

/-- draws are consumed -/
theorem shrinkRnd {r' : List Nat} (hr : r'.Sublist p.rnd2) (h : COk tr ns cw ex p) :
    COk tr ns cw ex { p with rnd2 := r' } :=
  { h with
    rndNodup := hr.nodup h.rndNodup
    rndLen := Nat.lt_of_le_of_lt hr.length_le h.rndLen
    rndLt := fun x hx => h.rndLt x (hr.subset hx)
    reqFresh := fun e he => ⟨fun hx => (h.reqFresh e he).1 (hr.subset hx), (h.reqFresh e he).2⟩
    qidFresh := fun q hq => ⟨fun hx => (h.qidFresh q hq).1 (hr.subset hx), (h.qidFresh q hq).2⟩ }

/-! ### the write itself -/

theorem write (q0 : Query) (hq0 : q0 ∈ p.qs) (h : COk tr ns (some q0.key) ex p) :
    COk tr ns none ex { p with wlog := p.wlog ++ [q0.key] } := by
  have hk := h.keyLt q0 hq0
  refine { h with fresh := ?_, acct := ?_, dead := ?_ }
  · intro k hk'
    have hk'' : p.nextKey ≤ k := hk'
    show (p.wlog ++ [q0.key]).count k = 0
    rw [List.count_append, h.fresh k hk'']
    have : q0.key ≠ k := by omega
    simp [this]
  · intro q hq
    have := h.acct q hq
    show (p.wlog ++ [q0.key]).count q.key + pendL p.req q.qid + cr1 none q.key ≤ potP p q
    rw [List.count_append, cr1_none]
    by_cases hqk : q.key = q0.key
    · rw [hqk] at this ⊢
      rw [cr1_self] at this
      simp only [List.count_cons, List.count_nil, beq_self_eq_true, ↓reduceIte]
      omega
    · rw [cr1_ne hqk] at this
      have : q0.key ≠ q.key := fun e => hqk e.symm
      simp only [List.count_cons, List.count_nil, beq_iff_eq, this, ↓reduceIte]
      omega
  · intro k hk' hno
    have hne : q0.key ≠ k := fun e => hno q0 hq0 e
    show (p.wlog ++ [q0.key]).count k ≤ writeBound tr ns
    rw [List.count_append]
    simp only [List.count_cons, List.count_nil, beq_iff_eq, hne, ↓reduceIte, Nat.add_zero]
    exact h.dead k hk' hno

/-! ### the deferred-requeue array -/

/-- appending an entry for the query `q0` that holds the write credit -/
theorem push (q0 : Query) (hq0 : q0 ∈ p.qs) (srv : Option Nat) (h : COk tr ns (some q0.key) ex p) :
    COk tr ns none ex { p with req := p.req ++ [(q0.qid, srv)] } :=
  { h with
    reqFresh := fun e he => by
      have he : e ∈ p.req ++ [(q0.qid, srv)] := he
      rcases List.mem_append.1 he with he | he
      · exact h.reqFresh e he
      · simp only [List.mem_singleton] at he; rw [he]; exact h.qidFresh q0 hq0
    acct := fun q hq => by
      have := h.acct q hq
      show p.wlog.count q.key + pendL (p.req ++ [(q0.qid, srv)]) q.qid + cr1 none q.key ≤ potP p q
      unfold pendL at *
      rw [List.countP_append, cr1_none]
      by_cases hqq : q.qid = q0.qid
      · have hk := h.qidInj q hq q0 hq0 hqq
        rw [hk, cr1_self] at this
        rw [hk]
        simp only [List.countP_cons, List.countP_nil, hqq, beq_self_eq_true, ↓reduceIte]
        rw [hqq] at this
        omega
      · have hc : List.countP (fun e : Nat × Option Nat => e.1 == q.qid) [(q0.qid, srv)] = 0 := by
          rw [List.countP_eq_zero]
          intro e he
          simp only [List.mem_singleton] at he; subst he
          simpa using fun e => hqq e.symm
        rw [hc]
        have := cr1_le_one (some q0.key) q.key
        omega }

/-- taking the first entry: whatever query its id resolves to through the id table gets the write credit -/
theorem pop (e : Nat × Option Nat) (rest : List (Nat × Option Nat)) (hreq : p.req = e :: rest)
    (h : COk tr ns none ex p) :
    COk tr ns none ex { p with req := rest } ∧
    ∀ qid' key, (qid', key) ∈ p.byQid → qid' = e.1 → COk tr ns (some key) ex { p with req := rest } := by
  have hle : ∀ qid, pendL rest qid ≤ pendL p.req qid := by
    intro qid; rw [hreq]; unfold pendL; rw [List.countP_cons]; omega
  have base : COk tr ns none ex { p with req := rest } :=
    { h with
      reqFresh := fun x hx => h.reqFresh x (by rw [hreq]; exact List.mem_cons_of_mem _ hx)
      acct := fun q hq => by
        have := h.acct q hq
        have := hle q.qid
        show p.wlog.count q.key + pendL rest q.qid + cr1 none q.key ≤ potP p q
        omega }
  refine ⟨base, ?_⟩
  intro qid' key hmem hqid
  refine { base with acct := ?_ }
  intro q hq
  have hacct := h.acct q hq
  rw [cr1_none] at hacct
  show p.wlog.count q.key + pendL rest q.qid + cr1 (some key) q.key ≤ potP p q
  by_cases hk : q.key = key
  · have hqq : q.qid = e.1 := by
      have := h.byQidOk (qid', key) hmem q hq hk
      rw [this]; exact hqid
    have : pendL p.req q.qid = pendL rest q.qid + 1 := by
      rw [hreq]; unfold pendL; rw [List.countP_cons]; simp [hqq]
    have := cr1_le_one (some key) q.key
    omega
  · rw [cr1_ne hk]
    have := hle q.qid
    omega

/-! ### rewriting the one query with key `key` -/

/-- the query `q0` (the one with its key) is rewritten by `f` (key and id kept); the obligations are about that
    query only -/
theorem modKey (q0 : Query) (hq0 : q0 ∈ p.qs) (f : Query → Query) (cw' ex' : Option Nat)
    (hf : (f q0).key = q0.key ∧ (f q0).qid = q0.qid)
    (hcw : cw = none ∨ cw = some q0.key) (hcw' : cw' = none ∨ cw' = some q0.key)
    (hex : ex = none ∨ ex = some q0.key) (hex' : ex' = none ∨ ex' = some q0.key)
    (h : COk tr ns cw ex p)
    (o2 : ∀ c : Nat, c + cr1 cw q0.key ≤ potP p q0 → c + cr1 cw' q0.key ≤ potP p (f q0))
    (o3 : (f q0).cookieTry ≤ 3)
    (o4 : 3 ≤ (f q0).cookieTry → (f q0).usingTcp = true)
    (o5 : ex' ≠ some q0.key → 3 ≤ (f q0).cookieTry → (f q0).reqCookie = none ∨ (f q0).conn = none)
    (o6 : ex' ≠ some q0.key → (f q0).usingTcp = true → ∀ fd, (f q0).conn = some fd → TcpIfAny p.kinds fd)
    (o7 : ∀ fd, (f q0).conn = some fd → fd < p.nextFd) :
    COk tr ns cw' ex' { p with qs := p.qs.map (fun x => if x.key == q0.key then f x else x) } := by
  -- every member is either untouched or is `q0`
  have hmem : ∀ x ∈ p.qs, (x.key ≠ q0.key ∧ (if x.key == q0.key then f x else x) = x) ∨
      (x = q0 ∧ (if x.key == q0.key then f x else x) = f q0) := by
    intro x hx
    by_cases hk : x.key = q0.key
    · right
      have := h.eq_of_key hx hq0 hk
      subst this
      simp
    · left
      have : ¬ (x.key == q0.key) = true := by simpa using hk
      exact ⟨hk, by rw [if_neg this]⟩
  have hg : ∀ x ∈ p.qs, (if x.key == q0.key then f x else x).key = x.key ∧
      (if x.key == q0.key then f x else x).qid = x.qid := by
    intro x hx
    rcases hmem x hx with ⟨_, e⟩ | ⟨rfl, e⟩
    · rw [e]; exact ⟨rfl, rfl⟩
    · rw [e]; exact hf
  have hk : (p.qs.map (fun x => if x.key == q0.key then f x else x)).map (·.key) = p.qs.map (·.key) := by
    rw [List.map_map]; apply List.map_congr_left; intro q hq; exact (hg q hq).1
  have hcr : ∀ (c : Option Nat), (c = none ∨ c = some q0.key) → ∀ k, k ≠ q0.key → cr1 c k = 0 := by
    intro c hc k hne
    rcases hc with rfl | rfl
    · rfl
    · exact cr1_ne hne
  have hexn : ∀ (c : Option Nat), (c = none ∨ c = some q0.key) → ∀ k, k ≠ q0.key → c ≠ some k := by
    intro c hc k hne
    rcases hc with rfl | rfl
    · simp
    · intro e; exact hne (Option.some.inj e).symm
  refine { htries := h.htries, hnsrv := h.hnsrv, keysNodup := ?_, keyLt := ?_, byQidLt := h.byQidLt,
           fresh := h.fresh, qidInj := ?_, byQidOk := ?_, rndNodup := h.rndNodup, rndLen := h.rndLen,
           rndLt := h.rndLt, reqFresh := h.reqFresh, qidFresh := ?_, acct := ?_, ck3 := ?_, ck3tcp := ?_,
           ckR := ?_, kindLt := h.kindLt, tcpOk := h.tcpOk, attLt := ?_, attTcp := ?_, dead := ?_ }
  · have := h.keysNodup; rw [← hk] at this; exact this
  · intro q hq
    obtain ⟨x, hx, rfl⟩ := List.mem_map.1 hq
    rw [(hg x hx).1]; exact h.keyLt x hx
  · intro a ha b hb e
    obtain ⟨a0, ha0, rfl⟩ := List.mem_map.1 ha
    obtain ⟨b0, hb0, rfl⟩ := List.mem_map.1 hb
    rw [(hg a0 ha0).2, (hg b0 hb0).2] at e
    rw [(hg a0 ha0).1, (hg b0 hb0).1]; exact h.qidInj a0 ha0 b0 hb0 e
  · intro e he q hq hk'
    obtain ⟨x, hx, rfl⟩ := List.mem_map.1 hq
    rw [(hg x hx).1] at hk'
    rw [(hg x hx).2]; exact h.byQidOk e he x hx hk'
  · intro q hq
    obtain ⟨x, hx, rfl⟩ := List.mem_map.1 hq
    rw [(hg x hx).2]; exact h.qidFresh x hx
  · intro q hq
    obtain ⟨x, hx, rfl⟩ := List.mem_map.1 hq
    have h0 := h.acct x hx
    show p.wlog.count _ + pendL p.req _ + cr1 cw' _ ≤ potP p _
    rw [(hg x hx).1, (hg x hx).2]
    rcases hmem x hx with ⟨hne, e⟩ | ⟨rfl, e⟩
    · rw [e, hcr cw' hcw' _ hne]; rw [hcr cw hcw _ hne] at h0; exact h0
    · rw [e]; exact o2 _ h0
  · intro q hq
    obtain ⟨x, hx, rfl⟩ := List.mem_map.1 hq
    rcases hmem x hx with ⟨_, e⟩ | ⟨rfl, e⟩
    · rw [e]; exact h.ck3 x hx
    · rw [e]; exact o3
  · intro q hq
    obtain ⟨x, hx, rfl⟩ := List.mem_map.1 hq
    rcases hmem x hx with ⟨_, e⟩ | ⟨rfl, e⟩
    · rw [e]; exact h.ck3tcp x hx
    · rw [e]; exact o4
  · intro q hq
    obtain ⟨x, hx, rfl⟩ := List.mem_map.1 hq
    rcases hmem x hx with ⟨hne, e⟩ | ⟨rfl, e⟩
    · rw [e]; intro _; exact h.ckR x hx (hexn ex hex _ hne)
    · rw [e, hf.1]; exact o5
  · intro q hq
    obtain ⟨x, hx, rfl⟩ := List.mem_map.1 hq
    rcases hmem x hx with ⟨_, e⟩ | ⟨rfl, e⟩
    · rw [e]; exact h.attLt x hx
    · rw [e]; exact o7
  · intro q hq
    obtain ⟨x, hx, rfl⟩ := List.mem_map.1 hq
    rcases hmem x hx with ⟨hne, e⟩ | ⟨rfl, e⟩
    · rw [e]; intro _; exact h.attTcp x hx (hexn ex hex _ hne)
    · rw [e, hf.1]; exact o6
  · intro k hk' hno
    refine h.dead k hk' ?_
    intro x hx e
    exact hno _ (List.mem_map.2 ⟨x, hx, rfl⟩) (by rw [(hg x hx).1]; exact e)

/-! ### a new query -/

/-- a fresh query (key = `nextKey`, an unused id, counters zero, not attached) enters with a write credit: its first
    send -/
theorem newQuery (q : Query) (hkey : q.key = p.nextKey) (hx1 : q.qid ∉ p.rnd2) (hx2 : q.qid < 70000 + p.nextKey + 1)
    (hx3 : ∀ e ∈ p.req, e.1 ≠ q.qid) (hx4 : ∀ a ∈ p.qs, a.qid ≠ q.qid)
    (hck : q.cookieTry = 0) (hconn : q.conn = none)
    (h : COk tr ns none none p) :
    COk tr ns (some q.key) none
      { p with qs := p.qs ++ [q], nextKey := p.nextKey + 1, byQid := p.byQid ++ [(q.qid, q.key)] } := by
  have hnotmem : ∀ a ∈ p.qs, a.key ≠ q.key := by
    intro a ha e
    have := h.keyLt a ha
    omega
  have mem_qs : ∀ a, a ∈ p.qs ++ [q] → a ∈ p.qs ∨ a = q := by
    intro a ha
    rcases List.mem_append.1 ha with ha | ha
    · exact Or.inl ha
    · exact Or.inr (by simpa using ha)
  refine { htries := h.htries, hnsrv := h.hnsrv, keysNodup := ?_, keyLt := ?_, byQidLt := ?_, fresh := ?_,
           qidInj := ?_, byQidOk := ?_, rndNodup := h.rndNodup, rndLen := h.rndLen, rndLt := h.rndLt,
           reqFresh := ?_, qidFresh := ?_, acct := ?_, ck3 := ?_, ck3tcp := ?_, ckR := ?_, kindLt := h.kindLt,
           tcpOk := h.tcpOk, attLt := ?_, attTcp := ?_, dead := ?_ }
  · show ((p.qs ++ [q]).map (·.key)).Nodup
    rw [List.map_append, List.nodup_append]
    refine ⟨h.keysNodup, by simp, ?_⟩
    intro a ha b hb
    obtain ⟨a0, ha0, rfl⟩ := List.mem_map.1 ha
    simp only [List.map_cons, List.map_nil, List.mem_singleton] at hb
    subst hb
    exact hnotmem a0 ha0
  · intro a ha
    show a.key < p.nextKey + 1
    rcases mem_qs a ha with ha | rfl
    · have := h.keyLt a ha; omega
    · omega
  · intro e he
    have he : e ∈ p.byQid ++ [(q.qid, q.key)] := he
    show e.2 < p.nextKey + 1
    rcases List.mem_append.1 he with he | he
    · have := h.byQidLt e he; omega
    · simp only [List.mem_singleton] at he; rw [he]; show q.key < _; omega
  · intro k hk
    exact h.fresh k (by show p.nextKey ≤ k; have : p.nextKey + 1 ≤ k := hk; omega)
  · intro a ha b hb e
    rcases mem_qs a ha with ha1 | ha1 <;> rcases mem_qs b hb with hb1 | hb1
    · exact h.qidInj a ha1 b hb1 e
    · rw [hb1] at e; exact absurd e (hx4 a ha1)
    · rw [ha1] at e; exact absurd e.symm (hx4 b hb1)
    · rw [ha1, hb1]
  · intro e he a ha hk
    have he : e ∈ p.byQid ++ [(q.qid, q.key)] := he
    rcases List.mem_append.1 he with he1 | he1 <;> rcases mem_qs a ha with ha1 | ha1
    · exact h.byQidOk e he1 a ha1 hk
    · rw [ha1] at hk
      have := h.byQidLt e he1
      omega
    · simp only [List.mem_singleton] at he1; rw [he1] at hk
      exact absurd hk (hnotmem a ha1)
    · simp only [List.mem_singleton] at he1; rw [he1, ha1]
  · intro e he
    have := h.reqFresh e he
    exact ⟨this.1, by show e.1 < 70000 + (p.nextKey + 1); omega⟩
  · intro a ha
    show a.qid ∉ p.rnd2 ∧ a.qid < 70000 + (p.nextKey + 1)
    rcases mem_qs a ha with ha | rfl
    · have := h.qidFresh a ha; exact ⟨this.1, by omega⟩
    · exact ⟨hx1, by omega⟩
  · intro a ha
    show p.wlog.count a.key + pendL p.req a.qid + cr1 (some q.key) a.key ≤ potP p a
    rcases mem_qs a ha with ha | rfl
    · have := h.acct a ha
      rw [cr1_none] at this
      rw [cr1_ne (hnotmem a ha)]; exact this
    · have h1 : p.wlog.count a.key = 0 := h.fresh a.key (by omega)
      have h2 : pendL p.req a.qid = 0 := by
        unfold pendL
        rw [List.countP_eq_zero]
        intro e he
        simpa using hx3 e he
      rw [h1, h2, cr1_self]
      unfold potP
      have := one_le_bud (p.nsrv * p.tries) a.tryCount
      omega
  · intro a ha
    rcases mem_qs a ha with ha | rfl
    · exact h.ck3 a ha
    · rw [hck]; omega
  · intro a ha
    rcases mem_qs a ha with ha | rfl
    · exact h.ck3tcp a ha
    · rw [hck]; omega
  · intro a ha
    rcases mem_qs a ha with ha | rfl
    · exact h.ckR a ha
    · intro _ _; exact Or.inr hconn
  · intro a ha
    rcases mem_qs a ha with ha | rfl
    · exact h.attLt a ha
    · intro fd hc; rw [hconn] at hc; cases hc
  · intro a ha
    rcases mem_qs a ha with ha | rfl
    · exact h.attTcp a ha
    · intro _ _ fd hc; rw [hconn] at hc; cases hc
  · intro k hk hno
    have hk' : k < p.nextKey + 1 := hk
    by_cases hkk : k = p.nextKey
    · exact absurd (hkey.trans hkk.symm) (hno q (List.mem_append_right _ (by simp)))
    · exact h.dead k (by omega) (fun a ha => hno a (List.mem_append_left _ ha))

/-! ### connections -/

theorem kindOfL_none_of_lt {kinds : List (Nat × Bool)} {n : Nat} (hlt : ∀ e ∈ kinds, e.1 < n) :
    kindOfL kinds n = none := by
  unfold kindOfL
  have : kinds.find? (·.1 == n) = none := by
    rw [List.find?_eq_none]
    intro e he
    have := hlt e he
    simp only [beq_iff_eq]; omega
  rw [this]; rfl

theorem kindOfL_append_of_lt {kinds : List (Nat × Bool)} {n : Nat} (hlt : ∀ e ∈ kinds, e.1 < n) (b : Bool)
    (fd : Nat) :
    kindOfL (kinds ++ [(n, b)]) fd = if fd = n then some b else kindOfL kinds fd := by
  by_cases hfd : fd = n
  · subst hfd
    have hn := kindOfL_none_of_lt hlt
    unfold kindOfL at *
    rw [List.find?_append]
    cases hf : kinds.find? (·.1 == fd) with
    | some x => rw [hf] at hn; cases hn
    | none => simp
  · rw [if_neg hfd]
    unfold kindOfL
    rw [List.find?_append]
    cases hf : kinds.find? (·.1 == fd) with
    | some x => rfl
    | none =>
      have : ¬ (n == fd) = true := by simpa using fun e => hfd e.symm
      simp [List.find?_cons, this]

/-- a new connection with descriptor `nextFd`; `t'` = the servers' `tcpConn` afterwards: each is an old one, `none`,
    or (only for a TCP connection) the new descriptor -/
theorem newConn (b : Bool) (t' : List (Option Nat))
    (ht : ∀ o ∈ t', o ∈ p.tcpConns ∨ o = none ∨ (o = some p.nextFd ∧ b = true))
    (h : COk tr ns cw ex p) :
    COk tr ns cw ex { p with kinds := p.kinds ++ [(p.nextFd, b)], nextFd := p.nextFd + 1, tcpConns := t' } := by
  have hko : ∀ fd, fd ≠ p.nextFd → kindOfL (p.kinds ++ [(p.nextFd, b)]) fd = kindOfL p.kinds fd := by
    intro fd hne; rw [kindOfL_append_of_lt h.kindLt, if_neg hne]
  have htia : ∀ fd, fd < p.nextFd → TcpIfAny p.kinds fd → TcpIfAny (p.kinds ++ [(p.nextFd, b)]) fd := by
    intro fd hlt hh b' hb'
    rw [hko fd (by omega)] at hb'; exact hh b' hb'
  refine { h with kindLt := ?_, tcpOk := ?_, attLt := ?_, attTcp := ?_ }
  · intro e he
    have he : e ∈ p.kinds ++ [(p.nextFd, b)] := he
    show e.1 < p.nextFd + 1
    rcases List.mem_append.1 he with he | he
    · have := h.kindLt e he; omega
    · simp only [List.mem_singleton] at he; rw [he]; show p.nextFd < _; omega
  · intro o ho fd hfd
    show fd < p.nextFd + 1 ∧ TcpIfAny (p.kinds ++ [(p.nextFd, b)]) fd
    rcases ht o ho with hold | hnone' | ⟨hnew, hb⟩
    · obtain ⟨hlt, htcp⟩ := h.tcpOk o hold fd hfd
      exact ⟨by omega, htia fd hlt htcp⟩
    · rw [hnone'] at hfd; cases hfd
    · rw [hnew] at hfd
      have : fd = p.nextFd := (Option.some.inj hfd).symm
      subst this
      refine ⟨by omega, ?_⟩
      intro b' hb'
      rw [kindOfL_append_of_lt h.kindLt, if_pos rfl] at hb'
      rw [← Option.some.inj hb']; exact hb
  · intro q hq fd hc
    show fd < p.nextFd + 1
    have := h.attLt q hq fd hc; omega
  · intro q hq hexq hu fd hc
    exact htia fd (h.attLt q hq fd hc) (h.attTcp q hq hexq hu fd hc)

theorem kindOfL_cons (e : Nat × Bool) (r : List (Nat × Bool)) (fd : Nat) :
    kindOfL (e :: r) fd = if e.1 = fd then some e.2 else kindOfL r fd := by
  unfold kindOfL
  by_cases he : e.1 = fd
  · simp [he]
  · simp [he]

theorem kindOfL_filter_ne (kinds : List (Nat × Bool)) (x fd : Nat) :
    kindOfL (kinds.filter (fun e => e.1 != x)) fd = if fd = x then none else kindOfL kinds fd := by
  induction kinds with
  | nil => unfold kindOfL; simp
  | cons e r ih =>
    by_cases hex : e.1 = x
    · have hdrop : ¬ (e.1 != x) = true := by simp [hex]
      rw [List.filter_cons, if_neg hdrop]
      rw [ih, kindOfL_cons]
      by_cases hfd : fd = x
      · simp [hfd]
      · have : e.1 ≠ fd := by rw [hex]; exact fun e => hfd e.symm
        simp [hfd, this]
    · have hkeep : (e.1 != x) = true := by simp [hex]
      rw [List.filter_cons, if_pos hkeep]
      rw [kindOfL_cons, kindOfL_cons, ih]
      by_cases hef : e.1 = fd
      · have : fd ≠ x := by rw [← hef]; exact hex
        simp [hef, this]
      · simp [hef]

/-- the connection `x` is closed (every connection with that descriptor is dropped) -/
theorem closeFd (x : Nat) (h : COk tr ns cw ex p) :
    COk tr ns cw ex { p with kinds := p.kinds.filter (fun e => e.1 != x) } := by
  have htia : ∀ fd, TcpIfAny p.kinds fd → TcpIfAny (p.kinds.filter (fun e => e.1 != x)) fd := by
    intro fd hh b hb
    rw [kindOfL_filter_ne] at hb
    by_cases hfd : fd = x
    · rw [if_pos hfd] at hb; cases hb
    · rw [if_neg hfd] at hb; exact hh b hb
  exact { h with
    kindLt := fun e he => h.kindLt e (List.mem_filter.1 he).1
    tcpOk := fun o ho fd hfd => ⟨(h.tcpOk o ho fd hfd).1, htia fd (h.tcpOk o ho fd hfd).2⟩
    attTcp := fun q hq hexq hu fd hc => htia fd (h.attTcp q hq hexq hu fd hc) }

/-- the servers' `tcpConn` fields change to old values or `none` -/
theorem subTcp (t' : List (Option Nat)) (ht : ∀ o ∈ t', o ∈ p.tcpConns ∨ o = none) (h : COk tr ns cw ex p) :
    COk tr ns cw ex { p with tcpConns := t' } :=
  { h with
    tcpOk := fun o ho fd hfd => by
      rcases ht o ho with hold | hnone
      · exact h.tcpOk o hold fd hfd
      · rw [hnone] at hfd; cases hfd }

end COk

end Cares.Chan
