import CaresLemmas.ChanSockProto
import CaresLemmas.ChanSockFrame
/-!
# The socket protocol of the channel model (C10): the invariant over the model

`St.sview` projects a channel state to the view of `ChanSockProto`; every primitive update of the model either leaves
the view alone or has one of the view-level effects for which `SockInv` is preserved.
-/
namespace Cares.Chan

def ckey (c : Conn) : Nat × Bool × Bool := (c.fd, c.notR, c.notW)

def St.sview (s : St) : SView :=
  { conns := s.conns.map ckey, log := s.sockLog, nlog := s.notifyLog, nextFd := s.nextFd }

/-- the socket-protocol invariant of a channel state -/
abbrev SInv (w : Option (Nat × List (Bool × Bool))) (s : St) : Prop := SockInv w s.sview

section
variable (s : St)

@[simp, chan_frame, sview_frame] theorem sview_emit (e : String) : (s.emit e).sview = s.sview := by
  simp only [St.sview, chan_frame]
@[simp, chan_frame, sview_frame] theorem sview_ofault (e : String) : (s.ofault e).sview = s.sview := by
  simp only [St.sview, chan_frame]
@[simp, chan_frame, sview_frame] theorem sview_mfault (e : String) : (s.mfault e).sview = s.sview := by
  simp only [St.sview, chan_frame]
@[simp, chan_frame, sview_frame] theorem sview_setQuery (q : Query) : (s.setQuery q).sview = s.sview := by
  simp only [St.sview, chan_frame]
@[simp, chan_frame, sview_frame] theorem sview_setServer (v : Server) : (s.setServer v).sview = s.sview := by
  simp only [St.sview, chan_frame]
@[simp, chan_frame, sview_frame] theorem sview_setSock (v : VSock) : (s.setSock v).sview = s.sview := by
  simp only [St.sview, chan_frame]
@[simp, chan_frame, sview_frame] theorem sview_modQuery (k : Nat) (f : Query → Query) : (s.modQuery k f).sview = s.sview := by
  simp only [St.sview, chan_frame]
@[simp, chan_frame, sview_frame] theorem sview_modServer (id : Nat) (f : Server → Server) : (s.modServer id f).sview = s.sview := by
  simp only [St.sview, chan_frame]
@[simp, chan_frame, sview_frame] theorem sview_modSock (fd : Nat) (f : VSock → VSock) : (s.modSock fd f).sview = s.sview := by
  simp only [St.sview, chan_frame]
@[simp, chan_frame, sview_frame] theorem sview_modClient (id : Nat) (f : Client → Client) : (s.modClient id f).sview = s.sview := by
  simp only [St.sview, chan_frame]
@[simp, chan_frame, sview_frame] theorem sview_incFailures (id : Nat) (tcp : Bool) : (s.incFailures id tcp).sview = s.sview := by
  simp only [St.sview, chan_frame]
@[simp, chan_frame, sview_frame] theorem sview_setGood (id : Nat) (tcp : Bool) : (s.setGood id tcp).sview = s.sview := by
  simp only [St.sview, chan_frame]
@[simp, chan_frame, sview_frame] theorem sview_metricsRecord (q : Query) (srv : Option Nat) (st : Status) (rec : Option Reply) : (s.metricsRecord q srv st rec).sview = s.sview := by
  simp only [St.sview, chan_frame]
@[simp, chan_frame, sview_frame] theorem sview_cacheExpire  : (s.cacheExpire).sview = s.sview := by
  simp only [St.sview, chan_frame]
@[simp, chan_frame, sview_frame] theorem sview_cacheInsert (q : Query) (r : Reply) : (s.cacheInsert q r).sview = s.sview := by
  simp only [St.sview, chan_frame]
@[simp, chan_frame, sview_frame] theorem sview_draw2snd  : (s.draw2.2).sview = s.sview := by
  simp only [St.sview, chan_frame]
@[simp, chan_frame, sview_frame] theorem sview_draw1snd  : (s.draw1.2).sview = s.sview := by
  simp only [St.sview, chan_frame]
@[simp, chan_frame, sview_frame] theorem sview_pop8  : (s.pop8).sview = s.sview := by
  simp only [St.sview, chan_frame]
@[simp, chan_frame, sview_frame] theorem sview_faultsnd (c : String) : ((s.fault c).2).sview = s.sview := by
  simp only [St.sview, chan_frame]
@[simp, chan_frame, sview_frame] theorem sview_userCallback (tok : Nat) (st : Status) (timeouts : Nat) (dg : String) : (s.userCallback tok st timeouts dg).sview = s.sview := by
  simp only [St.sview, chan_frame]
@[simp, chan_frame, sview_frame] theorem sview_oof  : (s.oof.1).sview = s.sview := by
  simp only [St.sview, chan_frame]
@[simp, chan_frame, sview_frame] theorem sview_genQid (n : Nat) : ((genQid n s).2).sview = s.sview := by
  simp only [St.sview, chan_frame]
@[simp, chan_frame, sview_frame] theorem sview_pickServer (r : Option Nat) : ((pickServer r s).2).sview = s.sview := by
  simp only [St.sview, chan_frame]


theorem sview_modConn (fd : Nat) (f : Conn → Conn) (hf : ∀ c, ckey (f c) = ckey c) :
    (s.modConn fd f).sview = s.sview := by
  simp only [St.sview, St.modConn, List.map_map]
  congr 1
  apply List.map_congr_left
  intro c _
  simp only [Function.comp]
  split
  · exact hf c
  · rfl

theorem sview_removeFromConn (k : Nat) : (s.removeFromConn k).sview = s.sview := by
  unfold St.removeFromConn
  split
  · rfl
  · simp only [sview_modQuery]
    split
    · rw [sview_modConn]
      · rfl
      · intro c; rfl
    · rfl

theorem sview_detach (k : Nat) : (s.detach k).sview = s.sview := by
  unfold St.detach
  split
  · rfl
  · exact sview_removeFromConn s k

theorem sview_freeQuery (k : Nat) : (s.freeQuery k).sview = s.sview := by
  unfold St.freeQuery
  exact sview_detach s k

theorem sview_sqPrep (key : Nat) (q : Query) (srv : Server) (fd : Nat) : (sqPrepare key q srv fd s).1.sview = s.sview := by
  unfold sqPrepare
  simp only []
  show (St.modConn _ fd _).sview = _
  rw [sview_modConn]
  · show (St.modQuery _ _ _).sview = _
    simp only [sview_modQuery, sview_modServer]
    repeat' split
    all_goals first | exact sview_pop8 s | rfl
  · intro c; rfl

theorem sview_mk (cfg' : Cfg) (alive' : Bool) (now' : Nat) (servers' : List Server) (conns' : List Conn) (qs' : List Query) (nextKey' : Nat) (all' : List Nat) (byQid' : List (Nat × Nat)) (byTimeout' : List Nat) (listCopy' : List (List Nat)) (socks' : List VSock) (nextFd' : Nat) (faults' : List ScriptedFault) (pendingWl' : List Nat) (txs' : List Tx) (cache' : List CacheEntry) (reactions' : List (Nat × Reaction)) (pendingToks' : List Nat) (doneToks' : List Nat) (notifyPending' : Bool) (ev' : List String) (obs' : Obs) (modelFaults' : List String) (obsFaults' : List String) (outOfFuel' : Bool) (destroyed' : Bool) (destroying' : Bool) (selfVariant' : Nat) (lastQid' : Nat) (clients' : List Client) (nextClient' : Nat) (reactSeq' : Nat) (pendingOrder' : List Nat) (requeueArr' : List (Nat × Option Nat)) (writeLog' : List Nat) (notifyLog' : List (Nat × Bool × Bool)) (sockLog' : List (Nat × String)) (accepted' : List (Nat × Nat × Reply)) (picks' : List (Nat × Nat × Bool × List (Nat × Nat))) :
    St.sview (St.mk cfg' alive' now' servers' conns' qs' nextKey' all' byQid' byTimeout' listCopy' socks' nextFd' faults' pendingWl' txs' cache' reactions' pendingToks' doneToks' notifyPending' ev' obs' modelFaults' obsFaults' outOfFuel' destroyed' destroying' selfVariant' lastQid' clients' nextClient' reactSeq' pendingOrder' requeueArr' writeLog' notifyLog' sockLog' accepted' picks') = ⟨conns'.map ckey, sockLog', notifyLog', nextFd'⟩ := rfl

theorem sview_fold : (⟨s.conns.map ckey, s.sockLog, s.notifyLog, s.nextFd⟩ : SView) = s.sview := rfl

theorem sview_sqLinkPre (key : Nat) (srv : Server) (fd : Nat) (q : Query) :
    (sqLinkPre key srv fd q s).sview = s.sview := by
  unfold sqLinkPre
  cases q.conn with
  | none =>
    simp only [sview_mk, sview_fold, sview_modQuery]
    split
    · exact sview_draw2snd s
    · rfl
  | some old =>
    simp only [sview_mk, sview_fold, sview_modQuery]
    rw [sview_modConn]
    · simp only [sview_mk, sview_fold]
      split
      · exact sview_draw2snd s
      · rfl
    · intro c; rfl

theorem sview_slog (fd : Nat) (c : String) :
    (s.slog fd c).sview = { s.sview with log := s.sview.log ++ [(fd, c)] } := rfl

theorem sview_recordTx (fd : Nat) (tcp : Bool) (f : OutFrame) :
    (s.recordTx fd tcp f).sview = { s.sview with log := s.sview.log ++ [(fd, "send")] } := rfl

theorem find?_map_ckey (fd : Nat) : ∀ l : List Conn,
    (l.map ckey).find? (·.1 == fd) = (l.find? (·.fd == fd)).map ckey
  | [] => rfl
  | c :: r => by
    simp only [List.map_cons, List.find?_cons]
    have : (ckey c).1 = c.fd := rfl
    rw [this]
    split
    · rfl
    · exact find?_map_ckey fd r

theorem sview_notify (fd : Nat) (r w : Bool) : (s.notify fd r w).sview = vnotify s.sview fd r w := by
  unfold St.notify vnotify
  have hf : s.sview.conns.find? (·.1 == fd) = (s.conn? fd).map ckey := find?_map_ckey fd s.conns
  rw [hf]
  cases hc : s.conn? fd with
  | none => rfl
  | some c =>
    simp only [Option.map_some]
    have hmap : ∀ s' : St, s'.conns = s.conns → s'.nextFd = s.nextFd → s'.sockLog = s.sockLog →
        (s'.modConn fd fun c => { c with notR := r, notW := w }).sview =
          { s.sview with conns := s.sview.conns.map (setFlags fd r w), nlog := s'.notifyLog } := by
      intro s' h1 h2 h3
      simp only [St.sview, St.modConn, h1, h2, h3, List.map_map, SView.mk.injEq, and_true, true_and]
      apply List.map_congr_left
      intro c' _
      simp only [Function.comp, setFlags, ckey]
      split <;> simp_all
    split
    · rename_i hne
      rw [hmap _ (by rfl) (by rfl) (by rfl)]
      have hne' : (ckey c).2 ≠ (r, w) := by
        simp only [ckey, ne_eq, Prod.mk.injEq, not_and]
        simp only [bne_iff_ne, ne_eq, Bool.or_eq_true] at hne
        rcases hne with h | h
        · exact fun h1 => absurd h1 h
        · exact fun _ h2 => absurd h2 h
      simp only [hne', ne_eq, not_false_eq_true, ↓reduceIte]
      rfl
    · rename_i hne
      rw [hmap _ (by rfl) (by rfl) (by rfl)]
      have hne' : ¬ (ckey c).2 ≠ (r, w) := by
        simp only [ckey, ne_eq, Prod.mk.injEq, not_and, Classical.not_imp, Decidable.not_not]
        simp only [bne_iff_ne, ne_eq, Bool.or_eq_true, not_or, Decidable.not_not] at hne
        exact hne
      simp only [hne', ↓reduceIte]
      rfl

end

/-! ## the invariant through the socket-touching pieces of the model -/

theorem conn?_mem {s : St} {fd : Nat} {c : Conn} (h : s.conn? fd = some c) : ∃ k ∈ s.sview.conns, k.1 = fd := by
  have h1 := List.mem_of_find?_eq_some h
  have h2 := List.find?_some h
  simp only [beq_iff_eq] at h2
  exact ⟨ckey c, List.mem_map_of_mem h1, h2⟩

section
variable {w : Option (Nat × List (Bool × Bool))} {s : St}

theorem SInv_slog (h : SInv w s) {fd : Nat} {c : Conn} (hc : s.conn? fd = some c) (call : String)
    (hio : isIo call = true) : SInv w (s.slog fd call) :=
  h.io fd call (conn?_mem hc) hio

theorem SInv_recordTx (h : SInv w s) {fd : Nat} {c : Conn} (hc : s.conn? fd = some c) (tcp : Bool) (f : OutFrame) :
    SInv w (s.recordTx fd tcp f) :=
  h.io fd "send" (conn?_mem hc) (by decide)

theorem SInv_notify (h : SInv w s) (fd : Nat) (r wr : Bool) (hnz : (r, wr) ≠ (false, false)) :
    SInv w (s.notify fd r wr) := by
  show SockInv w (s.notify fd r wr).sview
  rw [sview_notify]; exact h.notify fd r wr hnz

theorem SInv_modConn (h : SInv w s) (fd : Nat) (f : Conn → Conn) (hf : ∀ c, ckey (f c) = ckey c) :
    SInv w (s.modConn fd f) := by
  show SockInv w (s.modConn fd f).sview
  rw [sview_modConn s fd f hf]; exact h

theorem conn?_modConn_key {s : St} {fd fd' : Nat} {c : Conn} (f : Conn → Conn) (hf : ∀ c, (f c).fd = c.fd)
    (hc : s.conn? fd = some c) : ∃ c', (s.modConn fd' f).conn? fd = some c' := by
  unfold St.conn? St.modConn at *
  simp only
  generalize s.conns = l at hc
  induction l with
  | nil => simp at hc
  | cons x r ih =>
    simp only [List.map_cons, List.find?_cons] at hc ⊢
    by_cases hx : (x.fd == fd) = true
    · have : ((if (x.fd == fd') = true then f x else x).fd == fd) = true := by
        split
        · rw [hf]; exact hx
        · exact hx
      simp only [this]; exact ⟨_, rfl⟩
    · have : ((if (x.fd == fd') = true then f x else x).fd == fd) = false := by
        split
        · rw [hf]; simpa using hx
        · simpa using hx
      simp only [Bool.not_eq_true] at hx
      simp only [hx] at hc
      simp only [this]
      exact ih hc

theorem SInv_advanceOut : ∀ (fuel fd : Nat) (s : St) (n : Nat) (c : Conn), SInv w s → s.conn? fd = some c →
    SInv w (advanceOut fuel fd s n)
  | 0, _, _, _, _, h, _ => h
  | fuel + 1, fd, s, n, c, h, hc => by
    unfold advanceOut
    simp only [hc]
    split
    · exact h
    · rename_i f rest _
      split
      · have h1 : SInv w (s.modConn fd fun c => { c with out := rest, outOff := 0 }) :=
          SInv_modConn h fd _ (fun _ => rfl)
        obtain ⟨c', hc'⟩ := conn?_modConn_key (fd' := fd) (fun c => { c with out := rest, outOff := 0 }) (fun _ => rfl) hc
        have h2 := SInv_recordTx h1 hc' true f
        split
        · exact h2
        · exact SInv_advanceOut fuel fd _ _ c' h2 (by rw [conn?_recordTx]; exact hc')
      · exact SInv_modConn h fd _ (fun _ => rfl)

end

/-- state after a successful `socket()`: descriptor allocated, virtual socket created and configured -/
def ocSock (s1 : St) (tcp : Bool) (srv : Server) : St :=
  let fd := s1.nextFd
  let wl := if tcp then s1.pendingWl else []
  let s := { s1 with nextFd := fd + 1,
                     pendingWl := if tcp then [] else s1.pendingWl,
                     socks := s1.socks ++ [({ fd := fd, tcp := tcp, wl := wl } : VSock)] }
  let s := (s.emit s!"sock({fd},{if tcp then "tcp" else "udp"},4)").slog fd "open"
  let port := if tcp then srv.tcpPort else srv.udpPort
  s.modSock fd fun v => { v with peer := srv.addr, port := port }

/-- state after `connect()` was attempted on `fd` with scripted result `f` -/
def ocConnect (s2 : St) (fd : Nat) (tcp : Bool) (srv : Server) (f : Option Nat) : St :=
  let port := if tcp then srv.tcpPort else srv.udpPort
  let s := s2.slog fd "connect"
  match f with
  | some _ => s.emit s!"conn!({fd},{srv.addr}#{port})"
  | none => s.emit s!"conn({fd},{srv.addr}#{port})"

/-- `connect()` failed for good (an error other than "in progress") -/
def ocFail (f : Option Nat) : Bool :=
  match f with
  | some e => !isWouldBlock e
  | none => false

def ocClose (s : St) (fd : Nat) : St :=
  ((s.modSock fd fun v => { v with isOpen := false }).emit s!"close({fd})").slog fd "close"

def ocFinish (s : St) (fd : Nat) (tcp : Bool) (srv : Server) : St :=
  let c : Conn := { fd := fd, srv := srv.id, tcp := tcp, selfIp := s.selfVariant }
  let s := { s with conns := s.conns ++ [c] }
  let s := s.modServer srv.id fun v =>
    { v with conns := if tcp then v.conns ++ [fd] else fd :: v.conns,
             tcpConn := if tcp then some fd else v.tcpConn }
  s.notify fd true tcp

theorem openConn_eq (s : St) (tcp : Bool) (srv : Server) :
    openConn s tcp srv =
      match (s.fault "socket").1 with
      | some _ => (.error .connrefused, (s.fault "socket").2.emit s!"sock!({if tcp then "tcp" else "udp"})")
      | none =>
        let fd := (s.fault "socket").2.nextFd
        let s2 := ocSock (s.fault "socket").2 tcp srv
        let f := (s2.fault "connect").1
        let s3 := ocConnect (s2.fault "connect").2 fd tcp srv f
        if ocFail f then (.error .connrefused, ocClose s3 fd)
        else
          match (s3.fault "getsockname").1 with
          | some _ => (.error .connrefused, ocClose (s3.fault "getsockname").2 fd)
          | none => (.ok fd, ocFinish (s3.fault "getsockname").2 fd tcp srv) := by
  rfl

theorem sview_ocSock (s1 : St) (tcp : Bool) (srv : Server) :
    (ocSock s1 tcp srv).sview =
      { s1.sview with log := s1.sview.log ++ [(s1.nextFd, "open")], nextFd := s1.nextFd + 1 } := by
  unfold ocSock
  simp only [sview_modSock, sview_slog, sview_emit]
  rfl

theorem sview_ocConnect (s2 : St) (fd : Nat) (tcp : Bool) (srv : Server) (f : Option Nat) :
    (ocConnect s2 fd tcp srv f).sview = { s2.sview with log := s2.sview.log ++ [(fd, "connect")] } := by
  unfold ocConnect
  cases f <;> simp only [sview_emit, sview_slog]

theorem sview_ocClose (s : St) (fd : Nat) :
    (ocClose s fd).sview = { s.sview with log := s.sview.log ++ [(fd, "close")] } := by
  unfold ocClose
  simp only [sview_slog, sview_emit, sview_modSock]

theorem sview_ocFinish (s : St) (fd : Nat) (tcp : Bool) (srv : Server) :
    (ocFinish s fd tcp srv).sview =
      vnotify { s.sview with conns := s.sview.conns ++ [(fd, false, false)] } fd true tcp := by
  unfold ocFinish
  simp only [sview_notify, sview_modServer]
  congr 1
  simp [St.sview, ckey]

/-- **`ares_open_connection` at the view level**: nothing (no socket), or socket opened, connected and closed again
    (failure unwind), or socket opened, connected, connection added and read interest announced (exactly when it
    returns a descriptor, which is the next unused one) -/
theorem sview_openConn (s : St) (tcp : Bool) (srv : Server) :
    ((openConn s tcp srv).2.sview = s.sview ∧ ∀ fd, (openConn s tcp srv).1 ≠ .ok fd) ∨
    ((openConn s tcp srv).2.sview = vopenFail s.sview ∧ ∀ fd, (openConn s tcp srv).1 ≠ .ok fd) ∨
    ((openConn s tcp srv).2.sview = vnotify (vopen s.sview) s.nextFd true tcp ∧
      (openConn s tcp srv).1 = .ok s.nextFd) := by
  rw [openConn_eq]
  have hn : (s.fault "socket").2.nextFd = s.nextFd := St.faultsnd_nextFd s "socket"
  cases h1 : (s.fault "socket").1 with
  | some e =>
    left
    simp only [sview_emit, sview_faultsnd, true_and]
    intro fd h; cases h
  | none =>
    right
    have hnv : s.sview.nextFd = s.nextFd := rfl
    simp only [hn]
    generalize ((ocSock (s.fault "socket").2 tcp srv).fault "connect").1 = f2
    by_cases hcf : ocFail f2 = true
    · left
      simp only [hcf, ↓reduceIte, sview_ocClose, sview_ocConnect, sview_faultsnd, sview_ocSock, hn, vopenFail,
        List.append_assoc, hnv]
      exact ⟨trivial, fun fd h => by cases h⟩
    · simp only [hcf, Bool.false_eq_true, ↓reduceIte]
      cases h3 : ((ocConnect ((ocSock (s.fault "socket").2 tcp srv).fault "connect").2 s.nextFd tcp srv f2).fault
          "getsockname").1 with
      | some e =>
        left
        simp only [sview_ocClose, sview_ocConnect, sview_faultsnd, sview_ocSock, hn, vopenFail, List.append_assoc, hnv]
        exact ⟨trivial, fun fd h => by cases h⟩
      | none =>
        right
        simp only [sview_ocFinish, sview_ocConnect, sview_faultsnd, sview_ocSock, hn, vopen, hnv, and_true]

theorem SInv_openConn {w} {s : St} (h : SInv w s) (tcp : Bool) (srv : Server) : SInv w (openConn s tcp srv).2 := by
  show SockInv w (openConn s tcp srv).2.sview
  rcases sview_openConn s tcp srv with ⟨e, _⟩ | ⟨e, _⟩ | ⟨e, _⟩ <;> rw [e]
  · exact h
  · exact h.openFail
  · exact h.open.notify _ _ _ (by simp)

/-- the last step of `ares_close_connection` (connection's query list empty): final notification, `close`,
    release -/
def closeFinal (s : St) (fd : Nat) : St :=
  let s := s.notify fd false false
  let s := ((s.modSock fd fun v => { v with isOpen := false }).emit s!"close({fd})").slog fd "close"
  { s with conns := s.conns.filter (·.fd != fd) }

theorem sview_closeFinal (s : St) (fd : Nat) : (closeFinal s fd).sview = vclose s.sview fd := by
  unfold closeFinal vclose
  simp only []
  have : ∀ s' : St, St.sview { s' with conns := s'.conns.filter (·.fd != fd) } =
      { s'.sview with conns := s'.sview.conns.filter (·.1 != fd) } := by
    intro s'
    simp only [St.sview, List.filter_map, SView.mk.injEq, and_true]
    rfl
  rw [this]
  simp only [sview_slog, sview_emit, sview_modSock, sview_notify]

theorem SInv_closeFinal {w} {s : St} (h : SInv w s) {fd : Nat} {c : Conn} (hc : s.conn? fd = some c) :
    SInv w (closeFinal s fd) := by
  show SockInv w (closeFinal s fd).sview
  rw [sview_closeFinal]; exact h.close fd (conn?_mem hc)

end Cares.Chan
