import CaresModel.Chan.Client
import CaresModel.Proto.Search
/-!
The compound-request clients of the channel model (`clientStart` / `clientOnCb`, CaresModel/Chan/Client.lean)
run as a *pure fold* over the completions of their sub-requests.

`Chan.Core` executes a client through `bodyClientStart` / `bodyCallback` / `bodyRunActs`: the action list a
client step returns is run left to right (`.send` / `.sendSlot` start a sub-request, `.noRetry` touches a
query, `.finish` makes the user callback and releases the client, the rest of the list is dropped), and
between two callbacks the only change the executor makes to the client record is storing the query ids
`qidA` / `qidAAAA` after a `.sendSlot`.  `walkFrom` is exactly that, with the channel abstracted to the
list of completions (`Ev`) the client receives, in order.
-/
namespace Cares.ClientWalk
open Cares.Chan

/-- one completion callback delivered to the client: status, timeout count and answer of the sub-request,
    and the `(qidA, qidAAAA)` values the executor has stored in the client since the previous callback
    (`none`: unchanged) -/
structure Ev where
  st : Status
  timeouts : Nat := 0
  reply : Option Reply := none
  qids : Option (Nat × Nat) := none
  deriving Repr, Inhabited

/-- what the outside sees of a client run: (name, qtype) of every sub-request started, in order, and the
    `.finish` action (status, timeouts, digest) if the client has completed -/
structure Walk where
  sent : List (String × Nat) := []
  fin : Option (Status × Nat × String) := none
  deriving Repr, Inhabited, DecidableEq

/-- `bodyRunActs` on the abstract walk -/
def applyActs : List ClientAct → Walk → Walk
  | [], w => w
  | .send sp :: rest, w => applyActs rest { w with sent := w.sent ++ [(sp.name, sp.qtype)] }
  | .sendSlot sp _ :: rest, w => applyActs rest { w with sent := w.sent ++ [(sp.name, sp.qtype)] }
  | .noRetry _ :: rest, w => applyActs rest w
  | .finish st t dg :: _, w => { w with fin := some (st, t, dg) }

def setQids (c : Client) : Option (Nat × Nat) → Client
  | none => c
  | some (a, b) => { c with qidA := a, qidAAAA := b }

/-- the client `c` receives the completions `evs`; a completed client receives nothing more -/
def walkFrom (cfg : Cfg) : Client → List Ev → Walk → Walk
  | _, [], w => w
  | c, e :: es, w =>
    if w.fin.isSome then w else
    let r := clientOnCb cfg (setQids c e.qids) e.st e.timeouts e.reply
    walkFrom cfg r.1 es (applyActs r.2 w)

/-- a whole client run: `clientStart`, then the completions -/
def clientRun (cfg : Cfg) (id : Nat) (kind : String) (tok : Nat) (react : List Nat) (spec : ReqSpec)
    (family : Nat) (evs : List Ev) : Walk :=
  let r := clientStart cfg id kind tok react spec family
  walkFrom cfg r.1 evs (applyActs r.2 {})

/-- the status codes of the channel model as `ares_status_t` of model (A) (injective; `other` of the
    channel model, which no client rule inspects, is sent to a code model (A) never inspects either) -/
def stMap : Status → Cares.Text.Status
  | .ok => .success | .nodata => .enodata | .formerr => .eformerr | .servfail => .eservfail
  | .notfound => .enotfound | .notimp => .enotimp | .refused => .erefused | .badquery => .ebadquery
  | .badname => .ebadname | .badfamily => .ebadfamily | .badresp => .ebadresp
  | .connrefused => .econnrefused | .timeout => .etimeout | .eof => .eof | .efile => .efile
  | .nomem => .enomem | .destruction => .edestruction | .badstr => .ebadstr
  | .cancelled => .ecancelled | .noserver => .enoserver | .other => .eservice

theorem stMap_injective : ∀ a b, stMap a = stMap b → a = b := by
  intro a b; cases a <;> cases b <;> simp [stMap]

/-- status a sub-request of `ares_search` ends with, as `search_callback` reads it -/
def searchStatus (e : Ev) : Status :=
  match e.reply with
  | some r => replyToStatus r.rcode r.an
  | none => e.st

/-- … as an outcome of model (A) -/
def searchOutcome (e : Ev) : Cares.Proto.Outcome := stMap (searchStatus e)

/-- `soft` of model (A) on the channel model's representation -/
def softB (last : String) (my : Status) : Bool :=
  my == .nodata || my == .notfound || ((my == .servfail || my == .refused) && labelCnt last == 1)

theorem walkFrom_fin (cfg : Cfg) (c : Client) (evs : List Ev) (w : Walk) (h : w.fin.isSome = true) :
    walkFrom cfg c evs w = w := by
  cases evs with
  | nil => rfl
  | cons e es => simp [walkFrom, h]

end Cares.ClientWalk
