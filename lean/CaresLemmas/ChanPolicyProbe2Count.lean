import CaresLemmas.ChanPolicyLookup
import CaresLemmas.ChanPolicyFrame
/-!
# C09 — how many queries one `ares_send_nolock` creates (`one_probe_per_send`)

Queries are numbered by `nextKey`: the number of queries a run creates is the growth of `nextKey`.  A completion
callback may start new requests, each with a probe of its own; requests started by callback *reactions* are numbered by
`reactSeq`, so the count is stated as a credit argument: every request started — the call itself and each reaction —
pays for two queries (itself and one probe).  Requests started by compound requests (`ares_search`, `ares_getaddrinfo`:
`clients`) are not numbered anywhere in the model; the count is therefore stated for channels without a compound
request in progress.

`K N r0 a s`: no compound request, and `nextKey + a + 2·r0 ≤ N + 2·reactSeq` — `a` is the credit still unspent.
This file: the invariant and the procedures that spend nothing.
-/
namespace Cares.Chan
set_option linter.unusedVariables false

/-- no compound request; `a` = unspent credit (in queries) -/
def K (N r0 a : Nat) (s : St) : Prop := s.clients = [] ∧ s.nextKey + a + 2 * r0 ≤ N + 2 * s.reactSeq

section
variable {N r0 a : Nat}

theorem K.congr {s s' : St} (h0 : s'.clients = s.clients) (h1 : s'.nextKey = s.nextKey)
    (h2 : s'.reactSeq = s.reactSeq) (h : K N r0 a s) : K N r0 a s' := by
  unfold K at *; rw [h0, h1, h2]; exact h

/-- credit may be dropped -/
theorem K.le {a' : Nat} {s : St} (hle : a ≤ a') (h : K N r0 a' s) : K N r0 a s := ⟨h.1, by have := h.2; omega⟩

theorem K.drop {b : Nat} {s : St} (h : K N r0 (a + b) s) : K N r0 a s := K.le (Nat.le_add_right _ _) h

chan_simple_lemmas K : (K N r0 a) =>
  emit slog ofault mfault oofSt setQuery setConn setServer setSock modQuery modConn modServer modSock cacheExpire
end

macro "k_congr" : tactic => `(tactic| (
  refine K.congr (s := ?s0) ?h0 ?h1 ?h2 ?hI
  case h0 => (dsimp only; exact rfl)
  case h1 => exact rfl
  case h2 => exact rfl))

macro "k_spec" : tactic => `(tactic| with_reducible (first
  | apply K.emit | apply K.slog | apply K.ofault | apply K.mfault | apply K.oof
  | apply K.setQuery | apply K.setConn | apply K.setServer | apply K.setSock | apply K.modQuery
  | apply K.modConn | apply K.modServer | apply K.modSock | apply K.cacheExpire))

/-- entry condition of the procedures that spend no credit.  `requeue` qualifies when it counts a try (then the
    re-sent query has `try_count > 0` and does not enter the probe lottery); `sendNolock`, `sendQuery`, `probe` have
    their own budgets; the procedures not reachable from a send are not covered. -/
def PreZ (N r0 a : Nat) : Call → St → Prop
  | .requeue _ _ inc _ _, s => K N r0 a s ∧ inc = true
  | .flush _, s | .endQuery _ _ _ _, s | .callback _ _ _ _ _, s | .userCb _ _ _ _ _, s | .reactions _, s
  | .connError _ _ _, s | .closeConn _ _, s | .closeLoop _ _, s | .cancel, s | .cancelLoop _ _, s
  | .cleanupConns _, s => K N r0 a s
  | _, _ => False

theorem PreZ.k {N r0 a : Nat} {c : Call} {s : St} (h : PreZ N r0 a c s) : K N r0 a s := by
  cases c <;> first | exact h | exact h.1 | exact h.elim

@[reducible] def GoZ (N r0 a : Nat) (go : Call → St → St × Ret) : Prop := ∀ c s, PreZ N r0 a c s → K N r0 a (go c s).1

macro "k_step " hgo:term : tactic => `(tactic| first
  | assumption
  | ((with_reducible apply $hgo); first | show K _ _ _ _ | (show K _ _ _ _ ∧ _; refine ⟨?_, rfl⟩))
  | (with_reducible apply pair_fst; assumption)
  | (with_reducible apply pair_snd; assumption)
  | k_spec
  | with_reducible chan_elim
  | k_congr
  | unfold_state_let
  | split)

section
variable {N r0 a : Nat}

/-- `server_probe_cb` / user callback / compound-request callback: with no compound request the last is a fault -/
theorem bodyCallback_z {go : Call → St → St × Ret} (hgo : GoZ N r0 a go) (a1 : Owner) (a2 : List Nat) (a3 : Status)
    (a4 : Nat) (a5 : Option Reply) (s : St) (h : K N r0 a s) : K N r0 a (bodyCallback go a1 a2 a3 a4 a5 s).1 := by
  unfold bodyCallback
  split
  · exact h
  · rename_i id
    have hc : s.client? id = none := by
      unfold St.client?; rw [h.1]; rfl
    rw [hc]
    exact K.mfault h
  · exact hgo _ _ h

chan_invariant_go z : (K N r0 a) goBy (GoZ N r0 a) oofBy (fun _ h => h)
  leafBy (repeat' (k_step hgo))
  exceptBodies noExec sqAfter sendQueryBlocks bodySendNolock bodySendQuery bodyProbe bodyRequeue bodyCallback
    bodyReactions bodyProcessWrite bodyProcessRead bodyReadAnswers bodyFlushRequeue bodyProcessAnswer
    bodyProcessTimeouts bodyClientStart bodyRunActs bodyDestroy

end

end Cares.Chan
