import CaresModel.Dsa.HTable
/-! Helper lemmas for the `ares_htable` model, part 1: bucket arrays as lists (entries of a modified
    array, sums over a modified array), lookup among nodes with pairwise different keys. -/
namespace Cares.Dsa.HTable
open Cares.Generated
variable {K V : Type}

/-! ### bucket arrays -/

theorem ents_nil : ents ([] : List (Option (List (K × V)))) = [] := rfl

theorem ents_cons (b : Option (List (K × V))) (bs) : ents (b :: bs) = b.getD [] ++ ents bs := by
  simp [ents]

theorem ents_append (a b : List (Option (List (K × V)))) : ents (a ++ b) = ents a ++ ents b := by
  simp [ents]

theorem ents_replicate_none (n : Nat) : ents (List.replicate n (none : Option (List (K × V)))) = [] := by
  induction n with
  | zero => rfl
  | succ n ih => rw [List.replicate_succ, ents_cons, ih]; rfl

theorem bucketAt_eq_getD (bs : List (Option (List (K × V)))) (i : Nat) (h : i < bs.length) :
    bucketAt bs i = (bs[i]).getD [] := by
  unfold bucketAt
  rw [List.getElem?_eq_getElem h]
  cases bs[i] <;> rfl

/-- splitting the nodes of an array around slot `i` -/
theorem ents_split (bs : List (Option (List (K × V)))) (i : Nat) (h : i < bs.length) :
    ents bs = ents (bs.take i) ++ (bucketAt bs i ++ ents (bs.drop (i + 1))) := by
  have e : bs = bs.take i ++ bs[i] :: bs.drop (i + 1) := by
    rw [List.getElem_cons_drop h, List.take_append_drop]
  conv => lhs; rw [e]
  rw [ents_append, ents_cons, bucketAt_eq_getD bs i h]

theorem ents_set (bs : List (Option (List (K × V)))) (i : Nat) (h : i < bs.length) (l : List (K × V)) :
    ents (bs.set i (some l)) = ents (bs.take i) ++ (l ++ ents (bs.drop (i + 1))) := by
  rw [List.set_eq_take_append_cons_drop, if_pos h, ents_append, ents_cons]
  rfl

theorem bucketAt_set_self (bs : List (Option (List (K × V)))) (i : Nat) (h : i < bs.length) (l : List (K × V)) :
    bucketAt (bs.set i (some l)) i = l := by
  unfold bucketAt; simp [h]

theorem bucketAt_set_ne (bs : List (Option (List (K × V)))) (i j : Nat) (hne : i ≠ j) (b) :
    bucketAt (bs.set i b) j = bucketAt bs j := by
  unfold bucketAt; rw [List.getElem?_set_ne hne]

theorem slotNull_set_ne (bs : List (Option (List (K × V)))) (i j : Nat) (hne : i ≠ j) (b) :
    slotNull (bs.set i b) j = slotNull bs j := by
  unfold slotNull; rw [List.getElem?_set_ne hne]

theorem bucketAt_of_slotNull (bs : List (Option (List (K × V)))) (i : Nat) (h : slotNull bs i = true) :
    bucketAt bs i = [] := by
  unfold slotNull at h; unfold bucketAt
  split <;> simp_all

/-- nodes of the array after replacing slot `i`: a permutation of "new bucket ++ the others" -/
theorem ents_set_perm (bs : List (Option (List (K × V)))) (i : Nat) (h : i < bs.length) (l : List (K × V)) :
    ∃ rest, (ents bs).Perm (bucketAt bs i ++ rest) ∧ (ents (bs.set i (some l))).Perm (l ++ rest) := by
  refine ⟨ents (bs.take i) ++ ents (bs.drop (i + 1)), ?_, ?_⟩
  · rw [ents_split bs i h]
    exact List.perm_append_comm_assoc _ _ _
  · rw [ents_set bs i h]
    exact List.perm_append_comm_assoc _ _ _

/-! ### sums over a bucket array -/

theorem sum_map_set (f : Option (List (K × V)) → Nat) (bs : List (Option (List (K × V)))) (i : Nat)
    (h : i < bs.length) (b : Option (List (K × V))) :
    ((bs.set i b).map f).sum + f bs[i] = (bs.map f).sum + f b := by
  induction bs generalizing i with
  | nil => simp at h
  | cons x xs ih =>
    cases i with
    | zero => simp; omega
    | succ i =>
      simp only [List.set_cons_succ, List.map_cons, List.sum_cons, List.getElem_cons_succ]
      have := ih i (by simpa using h)
      omega

theorem sum_map_replicate_none (f : Option (List (K × V)) → Nat) (hf : f none = 0) (n : Nat) :
    ((List.replicate n (none : Option (List (K × V)))).map f).sum = 0 := by
  induction n with
  | zero => rfl
  | succ n ih => simp [List.replicate_succ, hf]

theorem length_ents (bs : List (Option (List (K × V)))) : (ents bs).length = (bs.map blen).sum := by
  induction bs with
  | nil => rfl
  | cons b bs ih =>
    rw [ents_cons, List.length_append, ih, List.map_cons, List.sum_cons]
    cases b <;> rfl

/-! ### the index -/

theorem hidx_lt (ops : HOps K) (size : Nat) (k : K) (h : 0 < size) : hidx ops size k < size := by
  unfold hidx
  have := @Nat.and_le_right (ops.hash k) (size - 1)
  omega

/-! ### lookup among nodes with pairwise different keys -/

theorem find?_some_iff (ops : HOps K) (hl : Lawful ops) (l : List (K × V))
    (hu : l.Pairwise (fun a b => ops.eq a.1 b.1 = false)) (q : K) (e : K × V) :
    l.find? (fun e => ops.eq q e.1) = some e ↔ e ∈ l ∧ ops.eq q e.1 = true := by
  induction l with
  | nil => simp
  | cons a l ih =>
    rw [List.pairwise_cons] at hu
    by_cases ha : ops.eq q a.1 = true
    · rw [List.find?_cons_of_pos (by simpa using ha)]
      constructor
      · intro h; cases h; exact ⟨List.mem_cons_self, ha⟩
      · rintro ⟨hm, he⟩
        rcases List.mem_cons.1 hm with rfl | hm
        · rfl
        · exfalso
          have h1 := hu.1 e hm
          have h2 := hl.trans _ _ _ (hl.symm _ _ ha) he
          rw [h2] at h1; cases h1
    · rw [List.find?_cons_of_neg (by simpa using ha), ih hu.2]
      constructor
      · rintro ⟨hm, he⟩; exact ⟨List.mem_cons_of_mem _ hm, he⟩
      · rintro ⟨hm, he⟩
        rcases List.mem_cons.1 hm with rfl | hm
        · exact absurd he ha
        · exact ⟨hm, he⟩

/-- with pairwise different keys the lookup does not depend on the order of the nodes -/
theorem find?_perm (ops : HOps K) (hl : Lawful ops) (l1 l2 : List (K × V)) (hp : l1.Perm l2)
    (hu : l1.Pairwise (fun a b => ops.eq a.1 b.1 = false)) (q : K) :
    l1.find? (fun e => ops.eq q e.1) = l2.find? (fun e => ops.eq q e.1) := by
  have hsym : ∀ a b : K × V, ops.eq a.1 b.1 = false → ops.eq b.1 a.1 = false := by
    intro a b h
    cases hb : ops.eq b.1 a.1 with
    | false => rfl
    | true => rw [hl.symm _ _ hb] at h; cases h
  have hu2 : l2.Pairwise (fun a b => ops.eq a.1 b.1 = false) :=
    (hp.pairwise_iff (fun {a b} h => hsym a b h)).1 hu
  apply Option.ext
  intro e
  rw [find?_some_iff ops hl l1 hu, find?_some_iff ops hl l2 hu2, hp.mem_iff]

theorem keyNe_symm (ops : HOps K) (hl : Lawful ops) (a b : K × V) (h : ops.eq a.1 b.1 = false) :
    ops.eq b.1 a.1 = false := by
  cases hb : ops.eq b.1 a.1 with
  | false => rfl
  | true => rw [hl.symm _ _ hb] at h; cases h

theorem pairwise_perm (ops : HOps K) (hl : Lawful ops) (l1 l2 : List (K × V)) (hp : l1.Perm l2)
    (hu : l1.Pairwise (fun a b => ops.eq a.1 b.1 = false)) :
    l2.Pairwise (fun a b => ops.eq a.1 b.1 = false) :=
  (hp.pairwise_iff (fun {a b} h => keyNe_symm ops hl a b h)).1 hu

end Cares.Dsa.HTable
