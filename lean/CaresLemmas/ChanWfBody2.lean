import CaresLemmas.ChanWfBody1
/-!
# C01 — body lemmas II: `requeue`
-/
namespace Cares.Chan

theorem cFQ_of_cFUQ {a : Sk} {fd : Nat} {u : Bool} {q : List Nat} (h : (fd, u, q) ∈ a.cFUQ) : (fd, q) ∈ a.cFQ := by
  obtain ⟨c, hc, he⟩ := List.mem_map.mp h
  simp only [Prod.mk.injEq] at he
  exact List.mem_map.mpr ⟨c, hc, by simp [he.1, he.2.2]⟩

/-- a connection being closed keeps only queries it had, so a query that was in none of them stays out -/
theorem post_requeue_of_step {xi d} {a a2 b : Sk} {key : Nat} (hb : WfS b none)
    (h2 : ∀ fd q, (fd, true, q) ∈ a.cFUQ → ∃ q1, (fd, true, q1) ∈ a2.cFUQ ∧ key ∉ q1)
    (hs : StepS none xi d a2 b) :
    ∀ fd q, (fd, true, q) ∈ a.cFUQ → ∀ q', (fd, q') ∈ b.cFQ → key ∉ q' := by
  intro fd q hm q' hq'
  obtain ⟨q1, hm1, hn1⟩ := h2 fd q hm
  obtain ⟨q2, hm2, hsub⟩ := hs.unl fd q1 hm1 (fun hh => by cases hh)
  have := Sk.cFQ_unique hb.c.nodup hq' (cFQ_of_cFUQ hm2)
  rw [this]
  exact fun hk => hn1 (hsub key hk)

theorem rfc_unl_not_listed {a : Sk} {hole} {key : Nat} {e : QSk} (hw : WfS a hole) (hq : a.q? key = some e) :
    ∀ fd q, (fd, true, q) ∈ a.cFUQ → ∃ q1, (fd, true, q1) ∈ (a.removeFromConn key).cFUQ ∧ key ∉ q1 := by
  intro fd q hm
  obtain ⟨q1, hm1, _⟩ := (step_rfc (xf := none) (xi := none) (d := fun _ => 0) hw hq).unl fd q hm
    (fun hh => by cases hh)
  exact ⟨q1, hm1, rfc_not_listed hw hq _ (cFQ_of_cFUQ hm1)⟩

/-- state after `ares_requeue_query` has taken the query off its connection and counted the try -/
def requeueSt (s : St) (key : Nat) (st : Status) (inc : Bool) : St :=
  (s.removeFromConn key).modQuery key fun q =>
    { q with errorStatus := if st != .ok then st else q.errorStatus,
             tryCount := if inc then q.tryCount + 1 else q.tryCount }

theorem sk_requeueSt (s : St) (key : Nat) (st : Status) (inc : Bool) :
    (requeueSt s key st inc).sk = s.sk.removeFromConn key := by
  unfold requeueSt
  rw [sk_modQuery_same, sk_removeFromConn]
  intro; rfl

theorem bodyRequeue_eq (go) (key : Nat) (st : Status) (inc : Bool) (rec : Option Reply) (deferred : Bool) (s : St)
    (q0 : Query) (hq : s.query? key = some q0) :
    bodyRequeue go key st inc rec deferred s =
      (let s2 := requeueSt s key st inc
       let q := (s2.query? key).getD default
       if q.tryCount < s.servers.length * s.cfg.tries && !q.noRetries then
         if deferred then ({ s2 with requeueArr := s2.requeueArr ++ [(q.qid, none)] }, .ok)
         else go (.sendQuery none key) s2
       else
         let es := if q.errorStatus == .ok then .timeout else q.errorStatus
         ((go (.endQuery none key es rec) (s2.modQuery key fun q => { q with errorStatus := es })).1, .timeout)) := by
  unfold bodyRequeue requeueSt
  simp only [hq]

theorem good_requeue {go} (hgo : GoOk go) {d key st inc rec deferred s}
    (hpre : Pre d s (.requeue key st inc rec deferred)) :
    GoodO d (.requeue key st inc rec deferred) s (bodyRequeue go key st inc rec deferred s) := by
  obtain ⟨hw, hk, hd⟩ := hpre
  obtain ⟨q0, hq, hqs⟩ := query?_of_idx hw hk
  rw [bodyRequeue_eq go key st inc rec deferred s q0 hq]
  have hsk2 := sk_requeueSt s key st inc
  generalize requeueSt s key st inc = s2 at hsk2
  have hw2 : Wf s2 := by unfold Wf; rw [hsk2]; exact wf_rfc hw (Or.inr rfl) hqs
  have hd2 : DebtOk none d s2.sk := by rw [hsk2]; exact debt_rfc key hd
  have hk2 : s2.sk.Idx key := by unfold Sk.Idx; rw [hsk2, rfc_idx]; exact hk
  have hs2 : StepS none none d s.sk s2.sk := by rw [hsk2]; exact step_rfc hw hqs
  have hnl := rfc_unl_not_listed hw hqs
  rw [← hsk2] at hnl
  simp only
  split
  · split
    · refine Or.inr ⟨Wf.of_sk_eq rfl hw2, hd2, hs2, ?_⟩
      exact post_requeue_of_step (xi := none) (d := d) hw2 hnl (StepS.refl _ _ _ _)
    · rcases hgo.2 d (.sendQuery none key) s2 ⟨hw2, hk2, hd2⟩ with hoof | hg
      · exact Or.inl hoof
      · exact Or.inr ⟨hg.wf, hg.debt, hs2.trans hg.step, post_requeue_of_step hg.wf hnl hg.step⟩
  · have hsk3 : ∀ es : Status, (s2.modQuery key fun q => { q with errorStatus := es }).sk = s2.sk :=
      fun es => sk_modQuery_same _ _ _ (fun _ => rfl)
    generalize (if ((s2.query? key).getD default).errorStatus == .ok then Status.timeout
      else ((s2.query? key).getD default).errorStatus) = es
    have h3 := hsk3 es
    generalize (s2.modQuery key fun q => { q with errorStatus := es }) = s3 at h3
    rcases hgo.2 d (.endQuery none key es rec) s3
      ⟨by rw [h3]; exact WfS.weaken_hole hw2,
        by unfold Sk.Idx; rw [h3]; exact hk2, by rw [h3]; exact hd2⟩ with hoof | hg
    · exact Or.inl hoof
    refine Or.inr ⟨hg.wf, hg.debt, ?_, ?_⟩
    · have := hg.step; rw [h3] at this; exact hs2.trans this
    · have := hg.step; rw [h3] at this
      exact post_requeue_of_step hg.wf hnl this

end Cares.Chan
