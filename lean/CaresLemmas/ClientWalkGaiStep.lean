import CaresLemmas.ClientWalkGaiNext
/-! One completion of a `gai` sub-request, on the fold: the state between completions (`GSt`), a
    completion that is not the candidate's last (`gai_step_mid`) and the last one (`gai_step_*`). -/
namespace Cares.ClientWalk
open Cares.Chan Cares.Text Cares.Proto

/-- state of a `gai` client working on candidate `cand`: `k` sub-requests outstanding, `A` the nodes and
    `ai` the `ai->name` collected from this candidate's completions so far -/
structure GSt (c : Client) (name : String) (fam : Nat) (lr : List Char) (cand : Name) (rest : List Name)
    (any : Bool) (k : Nat) (A : List String) (ai : String) : Prop where
  kind : c.kind = "gai"
  names : c.names = rest.map hex
  last : c.lastName = hex cand
  lookups : c.lookups = 'b' :: lr
  name : c.name = name
  family : c.family = fam
  any : (c.nodataCnt != 0) = any
  remaining : c.remaining = k
  addrs : c.addrs = A
  aiName : c.aiName = ai

theorem GSt.setQids {c name fam lr cand rest any k A ai} (h : GSt c name fam lr cand rest any k A ai)
    (q : Option (Nat × Nat)) : GSt (setQids c q) name fam lr cand rest any k A ai := by
  cases q with
  | none => exact h
  | some p => exact ⟨h.kind, h.names, h.last, h.lookups, h.name, h.family, h.any, h.remaining, h.addrs, h.aiName⟩

theorem clientOnCb_gai (cfg : Cfg) (c : Client) (hk : c.kind = "gai") (st : Chan.Status) (t : Nat) (rec : Option Reply) :
    clientOnCb cfg c st t rec = gaiOnCb cfg c st t rec := by
  unfold clientOnCb; simp [hk]

/-- the candidate's outcome as `host_callback` judges it at its last completion `e`, `nodes` being all
    nodes the candidate's completions delivered -/
def candOut (nodes : List String) (e : Ev) : Chan.Status :=
  if effSt e.st e.reply == .destruction || effSt e.st e.reply == .cancelled then effSt e.st e.reply
  else if !nodes.isEmpty then .ok
  else if evNodataAns e then .nodata else effSt e.st e.reply

/-- the digest of the `.finish` made at the candidate's last completion -/
def candDigest (nodes : List String) (ai : String) (e : Ev) : String :=
  if effSt e.st e.reply == .destruction || effSt e.st e.reply == .cancelled then "ai="
  else if !nodes.isEmpty then
    "ai=" ++ String.join (nodes.map (· ++ ";")) ++ (if ai == "" then "" else "name=" ++ hexToText ai)
  else "ai="

theorem evNodataAns_ok (e : Ev) (h : evNodataAns e = true) : effSt e.st e.reply = .ok := by
  unfold evNodataAns at h
  split at h
  · simp only [Bool.and_eq_true, beq_iff_eq] at h
    exact h.1
  · simp at h

/-- a completion that leaves sub-requests of the candidate outstanding only collects -/
theorem gai_step_mid (cfg : Cfg) {c name fam lr cand rest any k A ai}
    (h : GSt c name fam lr cand rest any (k + 2) A ai) (e : Ev) :
    GSt (clientOnCb cfg c e.st e.timeouts e.reply).1 name fam lr cand rest any (k + 1)
        (A ++ evNodes e) (evAiName ai e) ∧
      ∀ w, applyActs (clientOnCb cfg c e.st e.timeouts e.reply).2 w = w := by
  rw [clientOnCb_gai cfg c h.kind, gaiOnCb_eq]
  have hp := gaiParse_spec { c with timeouts := c.timeouts + e.timeouts, remaining := c.remaining - 1 } e
  have hrem : (gaiParse { c with timeouts := c.timeouts + e.timeouts, remaining := c.remaining - 1 }
      (effSt e.st e.reply) e.reply).1.remaining = k + 1 := by
    rw [hp.remaining]; show c.remaining - 1 = k + 1; rw [h.remaining]; rfl
  rw [gaiTail_mid _ _ _ _ _ (by rw [hrem]; omega)]
  refine ⟨⟨?_, ?_, ?_, ?_, ?_, ?_, ?_, hrem, ?_, ?_⟩, fun w => applyActs_noRetry _ hp.acts w⟩
  · rw [hp.same.kind]; exact h.kind
  · rw [hp.same.names]; exact h.names
  · rw [hp.same.lastName]; exact h.last
  · rw [hp.same.lookups]; exact h.lookups
  · rw [hp.same.name]; exact h.name
  · rw [hp.same.family]; exact h.family
  · rw [hp.same.nodataCnt]; exact h.any
  · rw [hp.addrs]; show c.addrs ++ _ = _; rw [h.addrs]
  · rw [hp.aiName]; show evAiName c.aiName e = _; rw [h.aiName]

/-- the candidate's last completion: `ares_parse_into_addrinfo` has run, the decision is pending -/
theorem gai_step_parse (cfg : Cfg) {c name fam lr cand rest any A ai}
    (h : GSt c name fam lr cand rest any 1 A ai) (e : Ev) :
    ∃ p acts, OnlyNoRetry acts ∧
      clientOnCb cfg c e.st e.timeouts e.reply =
        gaiTail cfg p (effSt e.st e.reply) (if evNodataAns e then .nodata else .ok) acts ∧
      GSt p name fam lr cand rest any 0 (A ++ evNodes e) (evAiName ai e) := by
  rw [clientOnCb_gai cfg c h.kind, gaiOnCb_eq]
  have hp := gaiParse_spec { c with timeouts := c.timeouts + e.timeouts, remaining := c.remaining - 1 } e
  refine ⟨_, _, hp.acts, by rw [hp.addinfo], ⟨?_, ?_, ?_, ?_, ?_, ?_, ?_, ?_, ?_, ?_⟩⟩
  · rw [hp.same.kind]; exact h.kind
  · rw [hp.same.names]; exact h.names
  · rw [hp.same.lastName]; exact h.last
  · rw [hp.same.lookups]; exact h.lookups
  · rw [hp.same.name]; exact h.name
  · rw [hp.same.family]; exact h.family
  · rw [hp.same.nodataCnt]; exact h.any
  · rw [hp.remaining]; show c.remaining - 1 = 0; rw [h.remaining]
  · rw [hp.addrs]; show c.addrs ++ _ = _; rw [h.addrs]
  · rw [hp.aiName]; show evAiName c.aiName e = _; rw [h.aiName]

theorem tailOutcome_eq {p name fam lr cand rest any nodes ai} (h : GSt p name fam lr cand rest any 0 nodes ai) (e : Ev) :
    tailOutcome p (effSt e.st e.reply) (evNodataAns e) = candOut nodes e := by
  unfold tailOutcome candOut; rw [h.addrs]

theorem tailDigest_eq {p name fam lr cand rest any nodes ai} (h : GSt p name fam lr cand rest any 0 nodes ai) (e : Ev) :
    tailDigest p (effSt e.st e.reply) = candDigest nodes ai e := by
  unfold tailDigest candDigest gaiDigest; rw [h.addrs, h.aiName]

/-- hard outcome (addresses, a hard error, cancellation): the request finishes with it -/
theorem gai_step_hard (cfg : Cfg) {c name fam lr cand rest any A ai}
    (h : GSt c name fam lr cand rest any 1 A ai) (e : Ev)
    (hs : softB (hex cand) (candOut (A ++ evNodes e) e) = false) :
    ∃ t, ∀ w, applyActs (clientOnCb cfg c e.st e.timeouts e.reply).2 w =
      { w with fin := some (candOut (A ++ evNodes e) e, t, candDigest (A ++ evNodes e) (evAiName ai e) e) } := by
  obtain ⟨p, acts, hacts, heq, hp⟩ := gai_step_parse cfg h e
  rw [heq, gaiTail_hard cfg p _ _ acts hp.remaining (evNodataAns_ok e)
    (by rw [hp.last, tailOutcome_eq hp e]; exact hs)]
  refine ⟨p.timeouts, fun w => ?_⟩
  rw [applyActs_noRetry_append _ _ hacts, tailOutcome_eq hp e, tailDigest_eq hp e]
  rfl

theorem nodataCnt_any (n : Nat) (b : Bool) :
    ((n + (if b then 1 else 0)) != 0) = ((n != 0) || b) := by
  cases b <;> simp

/-- soft outcome on the last candidate: the request finishes without addresses, with "no data" if any
    candidate had none -/
theorem gai_step_last (cfg : Cfg) {c name fam lr cand any A ai}
    (h : GSt c name fam lr cand [] any 1 A ai) (e : Ev)
    (hs : softB (hex cand) (candOut (A ++ evNodes e) e) = true) :
    ∃ t, ∀ w, applyActs (clientOnCb cfg c e.st e.timeouts e.reply).2 w =
      { w with fin := some (if (any || candOut (A ++ evNodes e) e == .nodata) then .nodata
                            else candOut (A ++ evNodes e) e, t, "ai=") } := by
  obtain ⟨p, acts, hacts, heq, hp⟩ := gai_step_parse cfg h e
  rw [heq, gaiTail_soft cfg p _ _ acts hp.remaining (evNodataAns_ok e)
    (by rw [hp.last, tailOutcome_eq hp e]; exact hs)]
  obtain ⟨c', hnl⟩ := gaiNextLookup_done cfg 8
    { p with nodataCnt := p.nodataCnt + (if tailOutcome p (effSt e.st e.reply) (evNodataAns e) == .nodata then 1 else 0) }
    (if (p.nodataCnt + (if tailOutcome p (effSt e.st e.reply) (evNodataAns e) == .nodata then 1 else 0)) != 0
      then .nodata else tailOutcome p (effSt e.st e.reply) (evNodataAns e))
    (by show p.names = []; rw [hp.names]; rfl)
  rw [hnl]
  refine ⟨p.timeouts, fun w => ?_⟩
  rw [applyActs_noRetry_append _ _ hacts, nodataCnt_any, hp.any, tailOutcome_eq hp e]
  rfl

/-- soft outcome with candidates left: the sub-requests of the next one are started -/
theorem gai_step_next (cfg : Cfg) {c name fam lr cand n rest any A ai}
    (h : GSt c name fam lr cand (n :: rest) any 1 A ai) (hloc : isLocalhost name = false) (e : Ev)
    (hs : softB (hex cand) (candOut (A ++ evNodes e) e) = true) :
    (∀ w, applyActs (clientOnCb cfg c e.st e.timeouts e.reply).2 w =
      { w with sent := w.sent ++ famSpecs fam (hex n) }) ∧
    GSt (clientOnCb cfg c e.st e.timeouts e.reply).1 name fam lr n rest
      (any || candOut (A ++ evNodes e) e == .nodata) (famCount fam) (A ++ evNodes e) (evAiName ai e) := by
  obtain ⟨p, acts, hacts, heq, hp⟩ := gai_step_parse cfg h e
  rw [heq, gaiTail_soft cfg p _ _ acts hp.remaining (evNodataAns_ok e)
    (by rw [hp.last, tailOutcome_eq hp e]; exact hs)]
  obtain ⟨c', a', hnl, hacts', h1, h2, h3, h4, h5, h6, h7, h8, h9, h10⟩ := gaiNextLookup_dns cfg 7
    { p with nodataCnt := p.nodataCnt + (if tailOutcome p (effSt e.st e.reply) (evNodataAns e) == .nodata then 1 else 0) }
    (if (p.nodataCnt + (if tailOutcome p (effSt e.st e.reply) (evNodataAns e) == .nodata then 1 else 0)) != 0
      then .nodata else tailOutcome p (effSt e.st e.reply) (evNodataAns e))
    lr (hex n) (rest.map hex) hp.lookups (by show isLocalhost p.name = false; rw [hp.name]; exact hloc)
    (by show p.names = _; rw [hp.names]; rfl)
  rw [hnl]
  refine ⟨fun w => ?_, ⟨?_, h1, h2, ?_, ?_, ?_, ?_, ?_, ?_, ?_⟩⟩
  · rw [applyActs_noRetry_append _ _ hacts, hacts' w]
    show { w with sent := w.sent ++ famSpecs p.family (hex n) } = _
    rw [hp.family]
  · rw [h4]; exact hp.kind
  · rw [h5]; exact hp.lookups
  · rw [h6]; exact hp.name
  · rw [h7]; exact hp.family
  · rw [h8]; show ((p.nodataCnt + _) != 0) = _; rw [nodataCnt_any, hp.any, tailOutcome_eq hp e]
  · rw [h3]; show p.remaining + famCount p.family = _; rw [hp.remaining, hp.family]; omega
  · rw [h9]; exact hp.addrs
  · rw [h10]; exact hp.aiName

end Cares.ClientWalk
