import CaresLemmas.ClientExecLog2
/-!
# The instrumented executor `execC` and the proof that it computes `exec`
-/
namespace Cares.Chan

/-- one procedure with its log of client events -/
def execCBody (goC : GoC) (call : Call) (s : St) : (St × Ret) × CLog :=
  match call with
  | .sendNolock reqSrv nocache noretry spec owner react => bodySendNolockC goC reqSrv nocache noretry spec owner react s
  | .sendQuery reqSrv key => bodySendQueryC goC reqSrv key s
  | .probe srvId key => bodyProbeC goC srvId key s
  | .flush fd => bodyFlushC goC fd s
  | .requeue key st inc rec deferred => bodyRequeueC goC key st inc rec deferred s
  | .endQuery srv key st rec => bodyEndQueryC goC srv key st rec s
  | .callback owner react st timeouts rec => bodyCallbackC goC owner react st timeouts rec s
  | .userCb tok react st timeouts dg => bodyUserCbC goC tok react st timeouts dg s
  | .reactions l => bodyReactionsC goC l s
  | .connError fd critical st => bodyConnErrorC goC fd critical st s
  | .closeConn fd st => bodyCloseConnC goC fd st s
  | .closeLoop fd st => bodyCloseLoopC goC fd st s
  | .processWrite fd => bodyProcessWriteC goC fd s
  | .processRead fd => bodyProcessReadC goC fd s
  | .readAnswers fd => bodyReadAnswersC goC fd s
  | .flushRequeue => bodyFlushRequeueC goC s
  | .processAnswer fd r => bodyProcessAnswerC goC fd r s
  | .processTimeouts => bodyProcessTimeoutsC goC s
  | .cleanupConns todo => bodyCleanupConnsC goC todo s
  | .clientStart kind tok react spec family => bodyClientStartC goC kind tok react spec family s
  | .runActs id acts => bodyRunActsC goC id acts s
  | .cancel => bodyCancelC goC s
  | .cancelLoop st fromAll => bodyCancelLoopC goC st fromAll s
  | .destroy => bodyDestroyC goC s

/-- **the instrumented executor** -/
def execC : Nat → Call → St → (St × Ret) × CLog
  | 0, _, s => (s.oof, [])
  | fuel + 1, call, s => execCBody (execC fuel) call s

/-- split the control flow of both sides in step until they agree -/
macro "fst_split" : tactic =>
  `(tactic| repeat (first | rfl | (split <;> try simp only [*, ↓reduceIte, Bool.false_eq_true])))

section
variable (goC : GoC)

theorem bodySendNolockC_fst (a : Option Nat) (b c : Bool) (sp : ReqSpec) (o : Owner) (re : List Nat) (s : St) :
    (bodySendNolockC goC a b c sp o re s).1 = bodySendNolock goC.fst a b c sp o re s := by
  unfold bodySendNolockC bodySendNolock; fst_split

theorem sqFlushC_fst (fd : Nat) (s : St) : (sqFlushC goC fd s).1 = sqFlush goC.fst fd s := by
  unfold sqFlushC sqFlush; fst_split

theorem sqLinkC_fst (pd : Bool) (key : Nat) (srv : Server) (fd : Nat) (s : St) :
    (sqLinkC goC pd key srv fd s).1 = sqLink goC.fst pd key srv fd s := by
  unfold sqLinkC sqLink; fst_split

theorem sqWriteQC_fst (reqSrv : Option Nat) (key : Nat) (q : Query) (srv : Server) (fd : Nat) (s : St) :
    (sqWriteQC goC reqSrv key q srv fd s).1 = sqWriteQ goC.fst reqSrv key q srv fd s := by
  unfold sqWriteQC sqWriteQ
  simp only [← sqFlushC_fst, ← sqLinkC_fst]
  fst_split

theorem bodySendQueryC_fst (reqSrv : Option Nat) (key : Nat) (s : St) :
    (bodySendQueryC goC reqSrv key s).1 = bodySendQuery goC.fst reqSrv key s := by
  rw [bodySendQuery_stages]
  unfold bodySendQueryC
  cases s.query? key with
  | none => rfl
  | some q =>
    simp only []
    generalize pickServer reqSrv s = pk
    obtain ⟨srv?, s1⟩ := pk
    cases srv? with
    | none => rfl
    | some srv =>
      simp only []
      cases hf : fetchConn { s1 with picks := s1.picks ++ [(key, srv.id, reqSrv.isSome, s.sortedServers.map fun (v : Server) => (v.id, v.failures))] } q srv with
      | some fd => exact sqWriteQC_fst goC reqSrv key q srv fd _
      | none =>
        simp only []
        generalize openConn { s1 with picks := s1.picks ++ [(key, srv.id, reqSrv.isSome, s.sortedServers.map fun (v : Server) => (v.id, v.failures))] } q.usingTcp srv = cr
        obtain ⟨res, s2⟩ := cr
        cases res with
        | error e => rfl
        | ok fd => exact sqWriteQC_fst goC reqSrv key q srv fd s2

theorem bodyProbeC_fst (a b : Nat) (s : St) : (bodyProbeC goC a b s).1 = bodyProbe goC.fst a b s := by
  unfold bodyProbeC bodyProbe; fst_split

theorem bodyFlushC_fst (fd : Nat) (s : St) : (bodyFlushC goC fd s).1 = bodyFlush goC.fst fd s := by
  unfold bodyFlushC bodyFlush; fst_split

theorem bodyRequeueC_fst (key : Nat) (st : Status) (inc : Bool) (rec : Option Reply) (d : Bool) (s : St) :
    (bodyRequeueC goC key st inc rec d s).1 = bodyRequeue goC.fst key st inc rec d s := by
  unfold bodyRequeueC bodyRequeue; fst_split

theorem bodyEndQueryC_fst (srv : Option Nat) (key : Nat) (st : Status) (rec : Option Reply) (s : St) :
    (bodyEndQueryC goC srv key st rec s).1 = bodyEndQuery goC.fst srv key st rec s := by
  unfold bodyEndQueryC bodyEndQuery; fst_split

theorem bodyCallbackC_fst (o : Owner) (re : List Nat) (st : Status) (t : Nat) (rec : Option Reply) (s : St) :
    (bodyCallbackC goC o re st t rec s).1 = bodyCallback goC.fst o re st t rec s := by
  unfold bodyCallbackC bodyCallback; fst_split

theorem bodyUserCbC_fst (tok : Nat) (re : List Nat) (st : Status) (t : Nat) (dg : String) (s : St) :
    (bodyUserCbC goC tok re st t dg s).1 = bodyUserCb goC.fst tok re st t dg s := by
  unfold bodyUserCbC bodyUserCb; simp only []; fst_split

theorem bodyReactionsC_fst (l : List Nat) (s : St) : (bodyReactionsC goC l s).1 = bodyReactions goC.fst l s := by
  unfold bodyReactionsC bodyReactions reactOneC; fst_split

theorem bodyConnErrorC_fst (fd : Nat) (cr : Bool) (st : Status) (s : St) :
    (bodyConnErrorC goC fd cr st s).1 = bodyConnError goC.fst fd cr st s := by
  unfold bodyConnErrorC bodyConnError; fst_split

theorem bodyCloseConnC_fst (fd : Nat) (st : Status) (s : St) :
    (bodyCloseConnC goC fd st s).1 = bodyCloseConn goC.fst fd st s := by
  unfold bodyCloseConnC bodyCloseConn; fst_split

theorem bodyCloseLoopC_fst (fd : Nat) (st : Status) (s : St) :
    (bodyCloseLoopC goC fd st s).1 = bodyCloseLoop goC.fst fd st s := by
  unfold bodyCloseLoopC bodyCloseLoop; fst_split

theorem bodyProcessWriteC_fst (fd : Nat) (s : St) : (bodyProcessWriteC goC fd s).1 = bodyProcessWrite goC.fst fd s := by
  unfold bodyProcessWriteC bodyProcessWrite; fst_split

theorem bodyProcessReadC_fst (fd : Nat) (s : St) : (bodyProcessReadC goC fd s).1 = bodyProcessRead goC.fst fd s := by
  unfold bodyProcessReadC bodyProcessRead
  cases hc : s.conn? fd with
  | none => cases hv : s.sock? fd <;> rfl
  | some c =>
    cases hv : s.sock? fd with
    | none => rfl
    | some v => simp only []; fst_split

theorem bodyReadAnswersC_fst (fd : Nat) (s : St) : (bodyReadAnswersC goC fd s).1 = bodyReadAnswers goC.fst fd s := by
  unfold bodyReadAnswersC bodyReadAnswers
  cases hc : s.conn? fd with
  | none => cases hv : s.sock? fd <;> rfl
  | some c =>
    cases hv : s.sock? fd with
    | none => rfl
    | some v => simp only []; fst_split

theorem bodyFlushRequeueC_fst (s : St) : (bodyFlushRequeueC goC s).1 = bodyFlushRequeue goC.fst s := by
  unfold bodyFlushRequeueC bodyFlushRequeue; fst_split

theorem paDeliverC_fst (fd : Nat) (r : Reply) (c : Conn) (key : Nat) (q : Query) (s : St) :
    (paDeliverC goC fd r c key q s).1 = paDeliver goC.fst fd r c key q s := by
  unfold paDeliverC paDeliver; fst_split

theorem bodyProcessAnswerC_fst (fd : Nat) (r : Reply) (s : St) :
    (bodyProcessAnswerC goC fd r s).1 = bodyProcessAnswer goC.fst fd r s := by
  rw [bodyProcessAnswer_stages]
  unfold bodyProcessAnswerC
  simp only [← paDeliverC_fst]
  fst_split

theorem bodyProcessTimeoutsC_fst (s : St) : (bodyProcessTimeoutsC goC s).1 = bodyProcessTimeouts goC.fst s := by
  unfold bodyProcessTimeoutsC bodyProcessTimeouts; fst_split

theorem bodyCleanupConnsC_fst (todo : List Nat) (s : St) :
    (bodyCleanupConnsC goC todo s).1 = bodyCleanupConns goC.fst todo s := by
  unfold bodyCleanupConnsC bodyCleanupConns; fst_split

theorem bodyClientStartC_fst (k : String) (tok : Nat) (re : List Nat) (sp : ReqSpec) (f : Nat) (s : St) :
    (bodyClientStartC goC k tok re sp f s).1 = bodyClientStart goC.fst k tok re sp f s := by
  unfold bodyClientStartC bodyClientStart; fst_split

theorem bodyRunActsC_fst (id : Nat) (acts : List ClientAct) (s : St) :
    (bodyRunActsC goC id acts s).1 = bodyRunActs goC.fst id acts s := by
  unfold bodyRunActsC bodyRunActs; fst_split

theorem bodyCancelC_fst (s : St) : (bodyCancelC goC s).1 = bodyCancel goC.fst s := by
  unfold bodyCancelC bodyCancel; fst_split

theorem bodyCancelLoopC_fst (st : Status) (fa : Bool) (s : St) :
    (bodyCancelLoopC goC st fa s).1 = bodyCancelLoop goC.fst st fa s := by
  unfold bodyCancelLoopC bodyCancelLoop; fst_split

theorem closeAllC_fst (fds : List Nat) (s : St) :
    (closeAllC goC fds s).1 = fds.foldl (fun s fd => (goC.fst (.closeConn fd .ok) s).1) s := by
  induction fds generalizing s with
  | nil => rfl
  | cons fd rest ih => simp only [closeAllC, List.foldl_cons, ih]

theorem bodyDestroyC_fst (s : St) : (bodyDestroyC goC s).1 = bodyDestroy goC.fst s := by
  unfold bodyDestroyC bodyDestroy
  simp only [closeAllC_fst]

theorem execCBody_fst (call : Call) (s : St) : (execCBody goC call s).1 = execBody goC.fst call s := by
  cases call <;> simp only [execCBody, execBody]
  case sendNolock => apply bodySendNolockC_fst
  case sendQuery => apply bodySendQueryC_fst
  case probe => apply bodyProbeC_fst
  case flush => apply bodyFlushC_fst
  case requeue => apply bodyRequeueC_fst
  case endQuery => apply bodyEndQueryC_fst
  case callback => apply bodyCallbackC_fst
  case userCb => apply bodyUserCbC_fst
  case reactions => apply bodyReactionsC_fst
  case connError => apply bodyConnErrorC_fst
  case closeConn => apply bodyCloseConnC_fst
  case closeLoop => apply bodyCloseLoopC_fst
  case processWrite => apply bodyProcessWriteC_fst
  case processRead => apply bodyProcessReadC_fst
  case readAnswers => apply bodyReadAnswersC_fst
  case flushRequeue => apply bodyFlushRequeueC_fst
  case processAnswer => apply bodyProcessAnswerC_fst
  case processTimeouts => apply bodyProcessTimeoutsC_fst
  case cleanupConns => apply bodyCleanupConnsC_fst
  case clientStart => apply bodyClientStartC_fst
  case runActs => apply bodyRunActsC_fst
  case cancel => apply bodyCancelC_fst
  case cancelLoop => apply bodyCancelLoopC_fst
  case destroy => apply bodyDestroyC_fst

end

/-- **the instrumented executor computes `exec`** -/
theorem execC_fst : ∀ (fuel : Nat) (call : Call) (s : St), (execC fuel call s).1 = exec fuel call s
  | 0, _, _ => rfl
  | fuel + 1, call, s => by
    have e : GoC.fst (execC fuel) = exec fuel := funext fun c => funext fun s => execC_fst fuel c s
    show (execCBody (execC fuel) call s).1 = execBody (exec fuel) call s
    rw [execCBody_fst, e]

end Cares.Chan
